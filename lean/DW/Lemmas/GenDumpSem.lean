/-
The body generated for a class computes the reference selection of C11 (`DW/Model/GenDumpSem.lean` interprets the statement
forms of `DW/Model/GenDump.lean`).
-/
import DW.Model.GenDumpSem
import DW.Lemmas.GenDump

namespace DW.GenDump
open DW DW.Names

/-! ### the store of `_skip_<i>` locals -/

theorem get_set_same (σ : St) (n : S) (b : Bool) : (σ.set n b).get n = some b := by
  simp [St.get, St.set, List.lookup]

theorem get_set_ne (σ : St) (n m : S) (b : Bool) (h : m ≠ n) : (σ.set n b).get m = σ.get m := by
  have : (m == n) = false := by simpa using h
  simp [St.get, St.set, List.lookup, this]

theorem get_emit (σ : St) (e : Emit) (m : S) : (σ.emit e).get m = σ.get m := rfl

theorem skipName_ne (i j : Nat) (h : i ≠ j) : skipName i ≠ skipName j := fun e => h (skipName_injective i j e)

/-- `_skip_i=_skip_{i+1}=…=<b>` sets every one of them and nothing else -/
theorem setAll_skipTargets (b : Bool) : ∀ (fs : List GField) (i : Nat) (σ : St),
    ∃ σ', setAll σ b (skipTargets i fs) = some σ' ∧ σ'.out = σ.out ∧
      (∀ j, j < fs.length → σ'.get (skipName (i + j)) = some b) ∧
      (∀ m, (∀ j, j < fs.length → m ≠ skipName (i + j)) → σ'.get m = σ.get m)
  | [], _, σ => ⟨σ, rfl, rfl, by simp, fun _ _ => rfl⟩
  | _ :: r, i, σ => by
    obtain ⟨σ', h1, h2, h3, h4⟩ := setAll_skipTargets b r (i + 1) (σ.set (skipName i) b)
    refine ⟨σ', by simpa [skipTargets, setAll] using h1, by simpa [St.set] using h2, ?_, ?_⟩
    · intro j hj
      cases j with
      | zero =>
        have := h4 (skipName i) (fun j _ => skipName_ne _ _ (by omega))
        simpa [get_set_same] using this
      | succ j =>
        have := h3 j (by simpa using hj)
        rwa [show i + 1 + j = i + (j + 1) by omega] at this
    · intro m hm
      have h5 := h4 m (fun j hj => by
        have := hm (j + 1) (by simp; omega)
        rwa [show i + (j + 1) = i + 1 + j by omega] at this)
      rw [h5]
      exact get_set_ne σ _ m b (by simpa using hm 0 (by simp))

/-! ### conditions -/

theorem toCOp_toCondOp (o : CondOp) : (CondOp.toCOp o).toCondOp = o := by cases o <;> rfl

theorem operand_oAttr (ρ : Env) (f : S) (v : PyVal) (hf : ρ.field f = some v) : operand ρ (oAttr f) = some (.val v) := by
  simp [operand, oAttr, nm, hf]

theorem operand_inline (ρ : Env) (c : Cond) (x : Expr) (h : (condOf c).inlineExpr = some x) :
    operand ρ x = some (.lit c.val) := by
  obtain ⟨op, val⟩ := c
  cases val with
  | none => simp [condOf, cvalOf, GCond.inlineExpr] at h; subst h; rfl
  | bool b =>
    cases b
    · simp [condOf, cvalOf, GCond.inlineExpr] at h; subst h; rfl
    · simp [condOf, cvalOf, GCond.inlineExpr] at h; subst h; rfl
  | int i =>
    simp only [condOf, cvalOf, GCond.inlineExpr] at h
    by_cases hid : (CondOp.toCOp op).identity = true
    · simp [hid] at h
    · simp only [hid, Bool.false_eq_true, if_false, Option.some.injEq] at h; subst h; rfl
  | str s =>
    simp only [condOf, cvalOf, GCond.inlineExpr] at h
    by_cases hid : (CondOp.toCOp op).identity = true
    · simp [hid] at h
    · simp only [hid, Bool.false_eq_true, if_false, Option.some.injEq] at h; subst h; rfl
  | float f => simp [condOf, cvalOf, GCond.inlineExpr] at h

/-- the reading of a skip condition the interpreter gives is the reference semantics `evalCond` -/
def condResult (c : Cond) (v : PyVal) : Except SErr Bool :=
  match evalCond c v with
  | some b => .ok b
  | none => .error (.raised .condTypeError)

theorem evalB_oAttr (ρ : Env) (vars : S → Option Bool) (f : S) (v : PyVal) (hf : ρ.field f = some v) :
    evalB ρ vars (oAttr f) = .ok v.truthy := by
  have h : operand ρ (Expr.attr (Expr.name "o".toList) f) = some (.val v) := operand_oAttr ρ f v hf
  show evalB ρ vars (Expr.attr (Expr.name "o".toList) f) = _
  unfold evalB
  rw [h]

theorem cond_eta (c : Cond) : (⟨c.op, c.val⟩ : Cond) = c := by cases c; rfl

theorem evalB_final (p : Char → Bool) (ρ : Env) (vars : S → Option Bool) (c : Cond) (f : S) (v : PyVal) (op2 : S)
    (hf : ρ.field f = some v) (h2 : (condOf c).binds p = true → ρ.closure op2 = some (.lit c.val))
    (hne : op2 ≠ "exclude".toList) :
    evalB ρ vars ((condOf c).final p (oAttr f) op2) = condResult c v := by
  have hop := operand_oAttr ρ f v hf
  have cmp : ∀ (g : COp), g.tOrF = false → (condOf c).op = g →
      evalB ρ vars (match (condOf c).inlineExpr with
        | some e => Expr.bin (oAttr f) (.cmp g) e
        | Option.none => Expr.bin (oAttr f) (.cmp g) (.name op2)) = condResult c v := by
    intro g hg hcg
    have hgc : g.toCondOp = c.op := by
      have : g = CondOp.toCOp c.op := by rw [← hcg]; rfl
      rw [this]; exact toCOp_toCondOp c.op
    have hres : ∀ x, operand ρ x = some (.lit c.val) → evalB ρ vars (Expr.bin (oAttr f) (.cmp g) x) = condResult c v := by
      intro x hx
      simp only [evalB, cmpOp, hop, hx, hgc, condResult]
      rw [cond_eta]
      cases evalCond c v <;> rfl
    cases hi : (condOf c).inlineExpr with
    | some e => simp only [hi]; exact hres e (operand_inline ρ c e hi)
    | none =>
      simp only [hi]
      apply hres
      have hb : (condOf c).binds p = true := by simp [GCond.binds, hcg, hg, hi]
      simp only [operand]
      rw [if_neg hne, h2 hb]
  have hopc : (condOf c).op = CondOp.toCOp c.op := rfl
  unfold GCond.final
  cases hc : (condOf c).op
  case truthy =>
    have hco : c.op = .truthy := by
      rw [hopc] at hc; cases hcc : c.op <;> simp [hcc, CondOp.toCOp] at hc ⊢
    simp only []
    rw [evalB_oAttr ρ vars f v hf]
    simp [condResult, evalCond, hco]
  case falsy =>
    have hco : c.op = .falsy := by
      rw [hopc] at hc; cases hcc : c.op <;> simp [hcc, CondOp.toCOp] at hc ⊢
    simp only [evalB]
    rw [evalB_oAttr ρ vars f v hf]
    simp [condResult, evalCond, hco, bind, Except.bind, pure, Except.pure]
  all_goals exact cmp _ rfl hc

/-! ### phase 1: the `exclude` bookkeeping -/

theorem evalB_exclude_is_none (ρ : Env) (vars : S → Option Bool) :
    evalB ρ vars (.bin (nm "exclude") (.cmp .is_) (.lit .none)) = .ok ρ.exclude.isNone := by
  simp [evalB, cmpOp, operand, nm, LitV.toLit]

theorem exec_chain_false (ρ : Env) (σ : St) (ts : List Target) (σ' : St) (h : setAll σ false ts = some σ') :
    execSimple ρ σ (.assign true ts (.lit .false_)) = .ok σ' := by
  cases ts with
  | nil => simp [execSimple, evalB, setAll] at h ⊢; simp [h, bind, Except.bind]
  | cons t r =>
    cases t with
    | name n => simp [execSimple, evalB, h, bind, Except.bind]
    | item b idx => simp [setAll] at h

theorem evalB_in_exclude (ρ : Env) (vars : S → Option Bool) (name : S) (es : List S) (h : ρ.exclude = some es) :
    evalB ρ vars (.bin (.lit (.str name)) .in_ (nm "exclude")) = .ok (es.contains name) := by
  simp [evalB, operand, nm, LitV.toLit, h]

theorem exec_assign_bool (ρ : Env) (σ : St) (n : S) (e : Expr) (b : Bool) (tight : Bool)
    (he : evalB ρ σ.get e = .ok b)
    (hform : ∀ l o r, e = .bin l o r → True) (hbin : ∃ l o r, e = .bin l o r) :
    execSimple ρ σ (.assign tight [.name n] e) = .ok (σ.set n b) := by
  obtain ⟨l, o, r, rfl⟩ := hbin
  simp [execSimple, he, setAll, bind, Except.bind]

/-- `_skip_i='<name_i>' in exclude;…` sets every `_skip_<i>` to "is the field excluded" -/
theorem exec_excludeAssigns (p : Char → Bool) (ρ : Env) (es : List S) (hes : ρ.exclude = some es) :
    ∀ (fs : List GField) (i : Nat) (σ : St),
    ∃ σ', execSimples ρ σ (excludeAssigns p i fs) = .ok σ' ∧ σ'.out = σ.out ∧
      (∀ j (hj : j < fs.length), σ'.get (skipName (i + j)) = some (es.contains (fs[j]).name)) ∧
      (∀ m, (∀ j, j < fs.length → m ≠ skipName (i + j)) → σ'.get m = σ.get m)
  | [], _, σ => ⟨σ, rfl, rfl, by simp, fun _ _ => rfl⟩
  | f :: r, i, σ => by
    obtain ⟨σ', h1, h2, h3, h4⟩ := exec_excludeAssigns p ρ es hes r (i + 1) (σ.set (skipName i) (es.contains f.name))
    refine ⟨σ', ?_, by simpa [St.set] using h2, ?_, ?_⟩
    · simp only [excludeAssigns, execSimples]
      rw [exec_assign_bool ρ σ (skipName i) _ (es.contains f.name) true (evalB_in_exclude ρ _ f.name es hes)
        (fun _ _ _ _ => trivial) ⟨_, _, _, rfl⟩]
      exact h1
    · intro j hj
      cases j with
      | zero =>
        have := h4 (skipName i) (fun j _ => skipName_ne _ _ (by omega))
        simpa [get_set_same] using this
      | succ j =>
        have := h3 j (by simpa using hj)
        simpa [show i + 1 + j = i + (j + 1) by omega] using this
    · intro m hm
      have h5 := h4 m (fun j hj => by
        have := hm (j + 1) (by simp; omega)
        rwa [show i + (j + 1) = i + 1 + j by omega] at this)
      rw [h5]
      exact get_set_ne σ _ m _ (by simpa using hm 0 (by simp))

/-- the `if exclude is None: … else: …` block: afterwards `_skip_<j>` holds whether field `j` is named in `exclude` -/
theorem exec_ifelse (p : Char → Bool) (ρ : Env) (fs : List GField) (σ : St) :
    ∃ σ', L2.exec ρ σ (L2.if_ (.bin (nm "exclude") (.cmp .is_) (.lit .none))
        [.line { parts := [.assign true (skipTargets 0 fs) (.lit .false_)] }]
        (some [.line { parts := excludeAssigns p 0 fs, sep := [';'] }])) = .ok σ' ∧ σ'.out = σ.out ∧
      (∀ j (hj : j < fs.length), σ'.get (skipName j) =
        some (match ρ.exclude with | none => false | some es => es.contains (fs[j]).name)) ∧
      (∀ m, (∀ j, j < fs.length → m ≠ skipName j) → σ'.get m = σ.get m) := by
  simp only [L2.exec, evalB_exclude_is_none, bind, Except.bind]
  cases hex : ρ.exclude with
  | none =>
    obtain ⟨σ', h1, h2, h3, h4⟩ := setAll_skipTargets false fs 0 σ
    refine ⟨σ', ?_, h2, ?_, ?_⟩
    · simp [execL1s, L1.exec, L0.exec, execSimples, exec_chain_false ρ σ _ σ' h1, bind, Except.bind]
    · intro j hj; simpa using h3 j hj
    · intro m hm; exact h4 m (by simpa using hm)
  | some es =>
    obtain ⟨σ', h1, h2, h3, h4⟩ := exec_excludeAssigns p ρ es hex fs 0 σ
    refine ⟨σ', ?_, h2, ?_, ?_⟩
    · simp [execL1s, L1.exec, L0.exec, h1, bind, Except.bind]
    · intro j hj; simpa using h3 j hj
    · intro m hm; exact h4 m (by simpa using hm)

/-! ### phase 2: the skip-defaults bookkeeping -/

theorem condResult_of_evalCondE (c : Cond) (v : PyVal) (b : Bool) (h : evalCondE c v = .ok b) : condResult c v = .ok b := by
  unfold evalCondE at h
  unfold condResult
  cases hc : evalCond c v with
  | none => simp [hc] at h
  | some r => simp [hc] at h; simp [h]

theorem skip_defaults_ne_skipName (i : Nat) : skipName i ≠ "skip_defaults".toList :=
  fun e => ne_skipName "skip_defaults".toList (by decide) i e.symm

theorem evalB_skipVar (ρ : Env) (σ : St) (i : Nat) (a : Bool) (h : σ.get (skipName i) = some a) :
    evalB ρ σ.get (.name (skipName i)) = .ok a := by
  unfold evalB
  rw [if_neg (skip_defaults_ne_skipName i), h]

theorem skipName_ne_exclude (i : Nat) : skipIfName i ≠ "exclude".toList := by
  have : skipIfName i = '_' :: 's' :: 'k' :: 'i' :: 'p' :: '_' :: 'i' :: 'f' :: '_' :: dec i := by unfold skipIfName; rfl
  rw [this]; simp

/-- the right-hand side of a skip-defaults line is the reference test of the field -/
theorem evalB_sd_rhs (p : Char → Bool) (ρ : Env) (eff : MetaCfg) (args : DumpArgs) (fks : List (FieldInfo × S))
    (vals : S → PyVal) (W : World p eff args fks vals ρ) (vars : S → Option Bool) (i : Nat) (fi : FieldInfo) (k : S) (d : Dflt)
    (hi : fks[i]? = some (fi, k)) (hd : fi.dflt = some d) (b : Bool)
    (hb : defaultTest eff fi (vals fi.name) = .ok b) :
    evalB ρ vars (sdRhs p (ginOf eff fks) i (gfieldOf fi k)) = .ok b := by
  unfold defaultTest at hb
  unfold sdRhs
  have hname : (gfieldOf fi k).name = fi.name := rfl
  rw [hname]
  simp only [hd] at hb
  cases hs : eff.skipDefaultsIf with
  | some c =>
    simp only [hs] at hb
    simp only [ginOf, hs, Option.map]
    rw [evalB_final p ρ vars c fi.name (vals fi.name) skipDefaultsValue (W.field _)
      (fun hbd => W.skipDefaultsValue c hs hbd) (by decide)]
    exact condResult_of_evalCondE c _ b hb
  | none =>
    simp only [hs, pure, Except.pure, Except.ok.injEq] at hb
    simp only [ginOf, hs, Option.map]
    have h1 := operand_oAttr ρ fi.name (vals fi.name) (W.field _)
    have hne : defaultName i ≠ "exclude".toList := by
      have : defaultName i = '_' :: 'd' :: 'e' :: 'f' :: 'a' :: 'u' :: 'l' :: 't' :: '_' :: dec i := by unfold defaultName; rfl
      rw [this]; simp
    have h2 : operand ρ (.name (defaultName i)) = some (.dflt d) := by
      simp only [operand]; rw [if_neg hne, W.dflt i fi k d hi hd]
    simp only [evalB, cmpOp, h1, h2, hb]

theorem drop_cons_get {α : Type} (l : List α) (i : Nat) (x : α) (r : List α) (h : l.drop i = x :: r) :
    l[i]? = some x ∧ l.drop (i + 1) = r := by
  constructor
  · have := congrArg List.head? h
    simpa [List.head?_drop] using this
  · have := congrArg List.tail h
    simpa [List.tail_drop] using this

theorem evalB_or' (ρ : Env) (vars : S → Option Bool) (l r : Expr) (a : Bool) (hl : evalB ρ vars l = .ok a) :
    evalB ρ vars (.bin l .or_ r) = if a then .ok true else evalB ρ vars r := by
  have : evalB ρ vars (.bin l .or_ r) = (do let a ← evalB ρ vars l; if a then pure true else evalB ρ vars r) := by
    simp only [evalB]
  rw [this, hl]; rfl

theorem evalB_and' (ρ : Env) (vars : S → Option Bool) (l r : Expr) (a : Bool) (hl : evalB ρ vars l = .ok a) :
    evalB ρ vars (.bin l .and_ r) = if a then evalB ρ vars r else .ok false := by
  have : evalB ρ vars (.bin l .and_ r) = (do let a ← evalB ρ vars l; if a then evalB ρ vars r else pure false) := by
    simp only [evalB]
  rw [this, hl]; rfl

theorem evalB_not' (ρ : Env) (vars : S → Option Bool) (e : Expr) (a : Bool) (he : evalB ρ vars e = .ok a) :
    evalB ρ vars (.not_ e) = .ok (!a) := by
  have : evalB ρ vars (.not_ e) = (do let b ← evalB ρ vars e; pure (!b)) := by simp only [evalB]
  rw [this, he]; rfl

theorem evalB_paren' (ρ : Env) (vars : S → Option Bool) (e : Expr) : evalB ρ vars (.paren e) = evalB ρ vars e := by
  simp only [evalB]

theorem sdl_cons_default (p : Char → Bool) (g : GIn) (i : Nat) (f : GField) (r : List GField) (h : f.hasDefault = true) :
    skipDefaultLines p g i (f :: r) =
      L1.line { parts := [.assign false [.name (skipName i)] (.bin (.name (skipName i)) .or_ (sdRhs p g i f))] }
        :: skipDefaultLines p g (i + 1) r := by
  simp [skipDefaultLines, h]

theorem sdl_cons_nodefault (p : Char → Bool) (g : GIn) (i : Nat) (f : GField) (r : List GField) (h : f.hasDefault = false) :
    skipDefaultLines p g i (f :: r) = skipDefaultLines p g (i + 1) r := by
  simp [skipDefaultLines, h]

theorem execL1s_cons_line1 (ρ : Env) (σ σ1 : St) (s : Simple) (sep : S) (r : List L1) (h : execSimple ρ σ s = .ok σ1) :
    execL1s ρ σ (L1.line { parts := [s], sep := sep } :: r) = execL1s ρ σ1 r := by
  simp [execL1s, L1.exec, L0.exec, execSimples, h, bind, Except.bind]

/-- the lines under `if skip_defaults:` — every defaulted field's `_skip_<i>` becomes `_skip_<i> or <its default test>` -/
theorem exec_sdLines (p : Char → Bool) (ρ : Env) (eff : MetaCfg) (args : DumpArgs) (fks : List (FieldInfo × S))
    (vals : S → PyVal) (W : World p eff args fks vals ρ) (dtv : FieldInfo → Bool)
    (Hd : ∀ q ∈ fks, defaultTest eff q.1 (vals q.1.name) = .ok (dtv q.1)) :
    ∀ (fs : List (FieldInfo × S)) (i : Nat) (σ : St), fks.drop i = fs →
      (∀ j, j < fs.length → ∃ a, σ.get (skipName (i + j)) = some a) →
      ∃ σ', execL1s ρ σ (skipDefaultLines p (ginOf eff fks) i (fs.map (fun q => gfieldOf q.1 q.2))) = .ok σ' ∧
        σ'.out = σ.out ∧
        (∀ j (hj : j < fs.length) a, σ.get (skipName (i + j)) = some a →
          σ'.get (skipName (i + j)) = some (a || dtv (fs[j]).1)) ∧
        (∀ m, (∀ j, j < fs.length → m ≠ skipName (i + j)) → σ'.get m = σ.get m)
  | [], _, σ, _, _ => ⟨σ, rfl, rfl, by simp, fun _ _ => rfl⟩
  | (fi, k) :: r, i, σ, hdrop, hvars => by
    obtain ⟨hget, hdrop'⟩ := drop_cons_get fks i (fi, k) r hdrop
    have hmem : (fi, k) ∈ fks := List.mem_of_getElem? hget
    have hdt := Hd (fi, k) hmem
    obtain ⟨a0, ha0⟩ := hvars 0 (by simp)
    simp only [Nat.add_zero] at ha0
    -- the state after this field's line (if it has one)
    have step : ∃ σ1, execL1s ρ σ (skipDefaultLines p (ginOf eff fks) i (((fi, k) :: r).map (fun q => gfieldOf q.1 q.2))) =
          execL1s ρ σ1 (skipDefaultLines p (ginOf eff fks) (i + 1) (r.map (fun q => gfieldOf q.1 q.2))) ∧
          σ1.out = σ.out ∧ σ1.get (skipName i) = some (a0 || dtv fi) ∧
          (∀ m, m ≠ skipName i → σ1.get m = σ.get m) := by
      cases hd : fi.dflt with
      | none =>
        have hz : dtv fi = false := by
          unfold defaultTest at hdt; simp [hd, pure, Except.pure] at hdt; exact hdt
        refine ⟨σ, ?_, rfl, by simp [ha0, hz], fun _ _ => rfl⟩
        rw [List.map_cons, sdl_cons_nodefault _ _ _ _ _ (by simp [gfieldOf, hd])]
      | some d =>
        have hrhs := evalB_sd_rhs p ρ eff args fks vals W σ.get i fi k d hget hd (dtv fi) hdt
        have hev : evalB ρ σ.get (.bin (.name (skipName i)) .or_ (sdRhs p (ginOf eff fks) i (gfieldOf fi k))) =
            .ok (a0 || dtv fi) := by
          rw [evalB_or' ρ σ.get _ _ a0 (evalB_skipVar ρ σ i a0 ha0)]
          cases a0
          · simpa using hrhs
          · rfl
        refine ⟨σ.set (skipName i) (a0 || dtv fi), ?_, by simp [St.set], get_set_same _ _ _, fun m hm => get_set_ne σ _ m _ hm⟩
        rw [List.map_cons, sdl_cons_default _ _ _ _ _ (by simp [gfieldOf, hd])]
        exact execL1s_cons_line1 ρ σ _ _ _ _
          (exec_assign_bool ρ σ (skipName i) _ (a0 || dtv fi) false hev (fun _ _ _ _ => trivial) ⟨_, _, _, rfl⟩)
    obtain ⟨σ1, hs1, hs2, hs3, hs4⟩ := step
    have hvars1 : ∀ j, j < r.length → ∃ a, σ1.get (skipName (i + 1 + j)) = some a := by
      intro j hj
      obtain ⟨a, ha⟩ := hvars (j + 1) (by simp; omega)
      refine ⟨a, ?_⟩
      rw [hs4 _ (skipName_ne _ _ (by omega))]
      rwa [show i + (j + 1) = i + 1 + j by omega] at ha
    obtain ⟨σ', h1, h2, h3, h4⟩ := exec_sdLines p ρ eff args fks vals W dtv Hd r (i + 1) σ1 hdrop' hvars1
    refine ⟨σ', by rw [hs1]; exact h1, by rw [h2, hs2], ?_, ?_⟩
    · intro j hj a ha
      cases j with
      | zero =>
        simp only [Nat.add_zero] at ha ⊢
        have : a = a0 := by rw [ha0] at ha; exact (Option.some.inj ha).symm
        subst this
        rw [h4 (skipName i) (fun j _ => skipName_ne _ _ (by omega))]
        simpa using hs3
      | succ j =>
        have ha1 : σ1.get (skipName (i + 1 + j)) = some a := by
          rw [hs4 _ (skipName_ne _ _ (by omega))]
          rwa [show i + (j + 1) = i + 1 + j by omega] at ha
        have := h3 j (by simpa using hj) a ha1
        simpa [show i + 1 + j = i + (j + 1) by omega] using this
    · intro m hm
      rw [h4 m (fun j hj => by
        have := hm (j + 1) (by simp; omega)
        rwa [show i + (j + 1) = i + 1 + j by omega] at this)]
      exact hs4 m (by simpa using hm 0 (by simp))

/-! ### phase 3: the field entries -/

/-- what the reference says field `fi` contributes, given its bookkeeping value `sk2` (excluded, or skipped as a default)
and the value `ocv` of its own condition -/
def isDefaultVal (fi : FieldInfo) (v : PyVal) : Bool :=
  match fi.dflt with
  | some d => pyEqDflt v d
  | none => false

def refFieldEmit (sk2 ocv : Bool) (fi : FieldInfo) (k : S) (v : PyVal) : List Emit :=
  if fi.isCatchAll then
    if isDefaultVal fi v || sk2 then [] else [.catchAll fi.name]
  else if fi.dumpSkip then []
  else if sk2 || ocv then [] else [.entry k fi.name]

theorem evalB_fieldCond (p : Char → Bool) (ρ : Env) (eff : MetaCfg) (args : DumpArgs) (fks : List (FieldInfo × S))
    (vals : S → PyVal) (W : World p eff args fks vals ρ) (σ : St) (i : Nat) (fi : FieldInfo) (k : S)
    (hi : fks[i]? = some (fi, k)) (sk2 ocv : Bool) (hsk : σ.get (skipName i) = some sk2)
    (ho : ownCond eff fi (vals fi.name) = .ok ocv) :
    evalB ρ σ.get (fieldCond p (ginOf eff fks) i (gfieldOf fi k)) = .ok (!(sk2 || ocv)) := by
  have hskv := evalB_skipVar ρ σ i sk2 hsk
  have fin : ∀ (c : Cond) (op2 : S), ((condOf c).binds p = true → ρ.closure op2 = some (.lit c.val)) →
      op2 ≠ "exclude".toList → evalCondE c (vals fi.name) = .ok ocv →
      evalB ρ σ.get (.not_ (.paren (.bin (.name (skipName i)) .or_ ((condOf c).final p (oAttr fi.name) op2)))) =
        .ok (!(sk2 || ocv)) := by
    intro c op2 h2 hne hc
    have hf := evalB_final p ρ σ.get c fi.name (vals fi.name) op2 (W.field _) h2 hne
    rw [condResult_of_evalCondE c _ ocv hc] at hf
    have hor : evalB ρ σ.get (.bin (.name (skipName i)) .or_ ((condOf c).final p (oAttr fi.name) op2)) = .ok (sk2 || ocv) := by
      rw [evalB_or' ρ σ.get _ _ sk2 hskv]
      cases sk2
      · simpa using hf
      · rfl
    rw [evalB_not' ρ σ.get _ (sk2 || ocv) (by rw [evalB_paren']; exact hor)]
  unfold ownCond at ho
  unfold fieldCond
  have hname : (gfieldOf fi k).name = fi.name := rfl
  have hsi : (gfieldOf fi k).skipIf = fi.skipIf.map condOf := rfl
  have hgs : (ginOf eff fks).skipIf = eff.skipIf.map condOf := rfl
  rw [hname, hsi, hgs]
  cases hf : fi.skipIf with
  | some c =>
    simp only [hf] at ho
    simp only [Option.map]
    exact fin c _ (fun hb => W.skipIf i fi k c hi hf hb) (skipName_ne_exclude i) ho
  | none =>
    simp only [hf] at ho
    simp only [Option.map]
    cases hm : eff.skipIf with
    | some c =>
      simp only [hm] at ho
      exact fin c _ (fun hb => W.skipValue c hm hb) (by decide) ho
    | none =>
      simp only [hm, pure, Except.pure, Except.ok.injEq] at ho
      subst ho
      rw [evalB_not' ρ σ.get _ sk2 hskv]
      simp

theorem asdictField_asdictOf (f : S) : asdictField (asdictOf (oAttr f)) = some f := by
  simp [asdictField, asdictOf, oAttr, nm]

theorem exec_append (ρ : Env) (σ : St) (key f : S) :
    execSimple ρ σ (appendStmt (.lit (.str key)) (oAttr f)) = .ok (σ.emit (.entry key f)) := by
  simp [appendStmt, execSimple, nm, asdictField_asdictOf]

theorem exec_if_single (ρ : Env) (σ : St) (c : Expr) (thn : List L1) (b : Bool) (hc : evalB ρ σ.get c = .ok b) :
    execL2s ρ σ [L2.if_ c thn none] = if b then execL1s ρ σ thn else .ok σ := by
  simp only [execL2s, L2.exec, hc, bind, Except.bind]
  cases b
  · rfl
  · simp only [if_true]
    cases execL1s ρ σ thn <;> rfl

theorem execL1s_single (ρ : Env) (σ : St) (x : L1) : execL1s ρ σ [x] = x.exec ρ σ := by
  simp only [execL1s, bind, Except.bind]
  cases x.exec ρ σ <;> rfl

theorem catchall_step (ρ : Env) (σ : St) (c : Expr) (forst : L1) (f : S) (e sk2 : Bool)
    (hc : evalB ρ σ.get c = .ok (!e && !sk2)) (hfor : L1.exec ρ σ forst = .ok (σ.emit (.catchAll f))) :
    execL2s ρ σ [L2.if_ c [forst] none] =
      .ok { σ with out := σ.out ++ (if (e || sk2) = true then [] else [Emit.catchAll f]) } := by
  rw [exec_if_single ρ σ _ _ _ hc]
  cases e <;> cases sk2 <;> simp [execL1s_single, hfor, St.emit]

theorem entry_step (ρ : Env) (σ : St) (c : Expr) (st : Simple) (em : Emit) (b : Bool)
    (hc : evalB ρ σ.get c = .ok (!b)) (hst : execSimple ρ σ st = .ok (σ.emit em)) :
    execL2s ρ σ [L2.if_ c [.line { parts := [st] }] none] =
      .ok { σ with out := σ.out ++ (if b = true then [] else [em]) } := by
  rw [exec_if_single ρ σ _ _ _ hc]
  cases b <;> simp [execL1s_single, L1.exec, L0.exec, execSimples, hst, bind, Except.bind, St.emit]

/-- the statements of one field emit what the reference says, and leave the `_skip_<i>` alone -/
theorem exec_fieldStmt (p : Char → Bool) (ρ : Env) (eff : MetaCfg) (args : DumpArgs) (fks : List (FieldInfo × S))
    (vals : S → PyVal) (W : World p eff args fks vals ρ) (σ : St) (i : Nat) (fi : FieldInfo) (k : S)
    (hi : fks[i]? = some (fi, k)) (sk2 ocv : Bool) (hsk : σ.get (skipName i) = some sk2)
    (ho : ownCond eff fi (vals fi.name) = .ok ocv) :
    execL2s ρ σ (fieldStmt p (ginOf eff fks) i (gfieldOf fi k)) =
      .ok { σ with out := σ.out ++ refFieldEmit sk2 ocv fi k (vals fi.name) } := by
  have hskv := evalB_skipVar ρ σ i sk2 hsk
  unfold fieldStmt refFieldEmit
  by_cases hca : fi.isCatchAll = true
  · -- the catch-all field
    have hkey : (gfieldOf fi k).key = .null := by simp [gfieldOf, hca]
    have hca' : (gfieldOf fi k).isCatchAll = true := hca
    have hname : (gfieldOf fi k).name = fi.name := rfl
    have hhd : (gfieldOf fi k).hasDefault = fi.dflt.isSome := rfl
    simp only [hkey, hca', if_true, hca, hname, hhd]
    have hfor : L1.exec ρ σ (.for_ ["k".toList, "v".toList] (.call0 (.attr (oAttr fi.name) "items".toList))
        [{ parts := [appendStmt (nm "k") (nm "v")] }]) = .ok (σ.emit (.catchAll fi.name)) := by
      simp [L1.exec, forField, oAttr, nm]
    cases hd : fi.dflt with
    | none =>
      simp only [isDefaultVal, hd, Option.isSome_none, Bool.false_eq_true, if_false, Bool.false_or]
      exact catchall_step ρ σ _ _ fi.name false sk2 (by simpa using evalB_not' ρ σ.get _ sk2 hskv) hfor
    | some d =>
      simp only [isDefaultVal, hd, Option.isSome_some, if_true]
      have h1 := operand_oAttr ρ fi.name (vals fi.name) (W.field _)
      have hne : defaultName i ≠ "exclude".toList := by
        have : defaultName i = '_' :: 'd' :: 'e' :: 'f' :: 'a' :: 'u' :: 'l' :: 't' :: '_' :: dec i := by unfold defaultName; rfl
        rw [this]; simp
      have h2 : operand ρ (.name (defaultName i)) = some (.dflt d) := by
        simp only [operand]; rw [if_neg hne, W.dflt i fi k d hi hd]
      have hcmp : evalB ρ σ.get (.bin (oAttr fi.name) (.cmp .ne) (.name (defaultName i))) = .ok (!pyEqDflt (vals fi.name) d) := by
        simp only [evalB, cmpOp, h1, h2]
      have hc : evalB ρ σ.get (.bin (.bin (oAttr fi.name) (.cmp .ne) (.name (defaultName i))) .and_ (.not_ (.name (skipName i)))) =
          .ok (!pyEqDflt (vals fi.name) d && !sk2) := by
        rw [evalB_and' ρ σ.get _ _ _ hcmp]
        cases pyEqDflt (vals fi.name) d
        · simpa using evalB_not' ρ σ.get _ sk2 hskv
        · rfl
      exact catchall_step ρ σ _ _ fi.name _ sk2 hc hfor
  · have hca' : fi.isCatchAll = false := by simpa using hca
    simp only [hca', Bool.false_eq_true, if_false]
    by_cases hds : fi.dumpSkip = true
    · have hkey : (gfieldOf fi k).key = .null := by simp [gfieldOf, hds]
      have hcag : (gfieldOf fi k).isCatchAll = false := hca'
      simp [hkey, hcag, hds, execL2s]
    · have hds' : fi.dumpSkip = false := by simpa using hds
      have hkey : (gfieldOf fi k).key = .key k := by simp [gfieldOf, hca', hds']
      have hname : (gfieldOf fi k).name = fi.name := rfl
      simp only [hkey, hds', Bool.false_eq_true, if_false, hname]
      have hc := evalB_fieldCond p ρ eff args fks vals W σ i fi k hi sk2 ocv hsk ho
      exact entry_step ρ σ _ _ _ (sk2 || ocv) hc (exec_append ρ σ k fi.name)

theorem execL2s_append (ρ : Env) : ∀ (xs ys : List L2) (σ : St),
    execL2s ρ σ (xs ++ ys) = (execL2s ρ σ xs).bind (fun σ' => execL2s ρ σ' ys)
  | [], ys, σ => rfl
  | x :: r, ys, σ => by
    simp only [List.cons_append, execL2s, bind, Except.bind]
    cases x.exec ρ σ with
    | error e => rfl
    | ok σ' => exact execL2s_append ρ r ys σ'

/-- the entries the reference gives for the fields from index `i` on -/
def emitsFrom (sk2 : Nat → Bool) (ocv : FieldInfo → Bool) (vals : S → PyVal) : Nat → List (FieldInfo × S) → List Emit
  | _, [] => []
  | i, (fi, k) :: r => refFieldEmit (sk2 i) (ocv fi) fi k (vals fi.name) ++ emitsFrom sk2 ocv vals (i + 1) r

theorem exec_fieldStmts (p : Char → Bool) (ρ : Env) (eff : MetaCfg) (args : DumpArgs) (fks : List (FieldInfo × S))
    (vals : S → PyVal) (W : World p eff args fks vals ρ) (sk2 : Nat → Bool) (ocv : FieldInfo → Bool)
    (Ho : ∀ q ∈ fks, ownCond eff q.1 (vals q.1.name) = .ok (ocv q.1)) :
    ∀ (fs : List (FieldInfo × S)) (i : Nat) (σ : St), fks.drop i = fs →
      (∀ j, j < fs.length → σ.get (skipName (i + j)) = some (sk2 (i + j))) →
      execL2s ρ σ (fieldStmts p (ginOf eff fks) i (fs.map (fun q => gfieldOf q.1 q.2))) =
        .ok { σ with out := σ.out ++ emitsFrom sk2 ocv vals i fs }
  | [], _, σ, _, _ => by simp [fieldStmts, execL2s, emitsFrom]
  | (fi, k) :: r, i, σ, hdrop, hvars => by
    obtain ⟨hget, hdrop'⟩ := drop_cons_get fks i (fi, k) r hdrop
    have hmem : (fi, k) ∈ fks := List.mem_of_getElem? hget
    have h0 := exec_fieldStmt p ρ eff args fks vals W σ i fi k hget (sk2 i) (ocv fi)
      (by simpa using hvars 0 (by simp)) (Ho (fi, k) hmem)
    simp only [List.map_cons, fieldStmts]
    rw [execL2s_append, h0]
    simp only [Except.bind]
    have hrec := exec_fieldStmts p ρ eff args fks vals W sk2 ocv Ho r (i + 1)
      { σ with out := σ.out ++ refFieldEmit (sk2 i) (ocv fi) fi k (vals fi.name) } hdrop'
      (fun j hj => by
        have := hvars (j + 1) (by simp; omega)
        rw [show i + (j + 1) = i + 1 + j by omega] at this
        exact this)
    rw [hrec]
    simp [emitsFrom, List.append_assoc]

/-! ### the whole body -/

theorem ginOf_hasPaths (eff : MetaCfg) (fks : List (FieldInfo × S)) : (ginOf eff fks).hasPaths = false := by
  simp only [GIn.hasPaths, ginOf, Bool.false_or, List.any_map]
  rw [List.any_eq_false]
  intro q _
  simp only [Function.comp, gfieldOf]
  split <;> simp [isPath]

/-- the bookkeeping value of field `j`: named in `exclude`, or skipped as a default -/
def sk2At (eff : MetaCfg) (args : DumpArgs) (fks : List (FieldInfo × S)) (dtv : FieldInfo → Bool) (j : Nat) : Bool :=
  match fks[j]? with
  | some (fi, _) => excluded args fi || (skipDefaultsOn eff args && dtv fi)
  | none => false

def tagEmits (g : GIn) : List Emit :=
  match g.tagOn with
  | some t => [.tag g.effTagKey t]
  | none => []

theorem exec_tail (ρ : Env) (g : GIn) (σ : St) :
    execL2s ρ σ (tailStmts g) = .ok { σ with out := σ.out ++ tagEmits g } := by
  unfold tagEmits tailStmts
  cases g.tagOn with
  | none => simp [execL2s, L2.exec, L1.exec, L0.exec, execSimples, execSimple, bind, Except.bind]
  | some t =>
    simp [execL2s, L2.exec, L1.exec, L0.exec, execSimples, execSimple, nm, St.emit, bind, Except.bind]

theorem evalB_skip_defaults (ρ : Env) (vars : S → Option Bool) : evalB ρ vars (nm "skip_defaults") = .ok ρ.skipDefaults := by
  simp [evalB, nm]

/-- the `if skip_defaults:` block: afterwards `_skip_<j>` holds "excluded, or skipped as a default" -/
theorem exec_sdBlock (p : Char → Bool) (ρ : Env) (eff : MetaCfg) (args : DumpArgs) (fks : List (FieldInfo × S))
    (vals : S → PyVal) (W : World p eff args fks vals ρ) (dtv : FieldInfo → Bool)
    (Hd : ∀ q ∈ fks, defaultTest eff q.1 (vals q.1.name) = .ok (dtv q.1)) (σ : St)
    (hvars : ∀ j (hj : j < fks.length), σ.get (skipName j) = some (excluded args (fks[j]).1)) :
    ∃ σ', execL2s ρ σ (sdBlock p (ginOf eff fks)) = .ok σ' ∧ σ'.out = σ.out ∧
      ∀ j, j < fks.length → σ'.get (skipName j) = some (sk2At eff args fks dtv j) := by
  have hlines := exec_sdLines p ρ eff args fks vals W dtv Hd fks 0 σ (by simp)
    (fun j hj => ⟨_, by simpa using hvars j hj⟩)
  obtain ⟨σ2, h1, h2, h3, _⟩ := hlines
  have hsk : ∀ j (hj : j < fks.length), sk2At eff args fks dtv j =
      (excluded args (fks[j]).1 || (skipDefaultsOn eff args && dtv (fks[j]).1)) := by
    intro j hj
    simp [sk2At, List.getElem?_eq_getElem hj]
  have hfields : (ginOf eff fks).fields = fks.map (fun q => gfieldOf q.1 q.2) := rfl
  unfold sdBlock
  rw [hfields]
  by_cases hon : skipDefaultsOn eff args = true
  · -- the block runs
    refine ⟨σ2, ?_, h2, ?_⟩
    · split
      · next hnil => rw [hnil] at h1; simp only [execL1s] at h1; simp only [execL2s]; exact h1
      · next ls hne =>
        rw [exec_if_single ρ σ _ _ true (by rw [evalB_skip_defaults, W.skipDefaults, hon])]
        simpa using h1
    · intro j hj
      have := h3 j hj (excluded args (fks[j]).1) (by simpa using hvars j hj)
      rw [hsk j hj, hon]
      simpa using this
  · have hoff : skipDefaultsOn eff args = false := by simpa using hon
    refine ⟨σ, ?_, rfl, ?_⟩
    · split
      · rfl
      · rw [exec_if_single ρ σ _ _ false (by rw [evalB_skip_defaults, W.skipDefaults, hoff])]
        rfl
    · intro j hj
      rw [hsk j hj, hoff]
      simpa using hvars j hj

/-- **What the generated body does.**  For a class whose comparisons do not raise on the instance at hand, running the body
`dump_func_for_dataclass` writes yields exactly the reference emissions, in field order, followed by the tag entry. -/
theorem run_genBody (p : Char → Bool) (ρ : Env) (eff : MetaCfg) (args : DumpArgs) (fks : List (FieldInfo × S))
    (vals : S → PyVal) (W : World p eff args fks vals ρ) (dtv ocv : FieldInfo → Bool)
    (Hd : ∀ q ∈ fks, defaultTest eff q.1 (vals q.1.name) = .ok (dtv q.1))
    (Ho : ∀ q ∈ fks, ownCond eff q.1 (vals q.1.name) = .ok (ocv q.1)) :
    run ρ (genBody p (ginOf eff fks)) =
      .ok (emitsFrom (sk2At eff args fks dtv) ocv vals 0 fks ++ tagEmits (ginOf eff fks)) := by
  have hpre : (ginOf eff fks).preDict = false := rfl
  have hpaths := ginOf_hasPaths eff fks
  have hfields : (ginOf eff fks).fields = fks.map (fun q => gfieldOf q.1 q.2) := rfl
  have hres : ∀ σ : St, L2.exec ρ σ (L2.s (.line { parts := [.assign false [.name "result".toList] .emptyList] })) = .ok σ := by
    intro σ; simp [L2.exec, L1.exec, L0.exec, execSimples, execSimple, bind, Except.bind]
  have hresL : ∀ σ : St, execL2s ρ σ [L2.s (.line { parts := [.assign false [.name "result".toList] .emptyList] })] = .ok σ := by
    intro σ; simp only [execL2s, hres, bind, Except.bind]
  unfold run
  by_cases hemp : (ginOf eff fks).fields.isEmpty = true
  · have hnil : fks = [] := by
      have : (fks.map (fun q => gfieldOf q.1 q.2)).isEmpty = true := by rw [← hfields]; exact hemp
      simpa using this
    have hshape : genBody p (ginOf eff fks) =
        [L2.s (.line { parts := [.assign false [.name "result".toList] .emptyList] })] ++ tailStmts (ginOf eff fks) := by
      unfold genBody; simp [hpre, hpaths, hemp]
    rw [hshape, execL2s_append, hresL]
    simp only [Except.bind]
    rw [exec_tail]
    simp [hnil, emitsFrom, bind, Except.bind, pure, Except.pure]
  · have hemp' : (ginOf eff fks).fields.isEmpty = false := by simpa using hemp
    have hshape : genBody p (ginOf eff fks) =
        [L2.s (.line { parts := [.assign false [.name "result".toList] .emptyList] })] ++
        ([L2.if_ (.bin (nm "exclude") (.cmp .is_) (.lit .none))
            [.line { parts := [.assign true (skipTargets 0 (ginOf eff fks).fields) (.lit .false_)] }]
            (some [.line { parts := excludeAssigns p 0 (ginOf eff fks).fields, sep := [';'] }])] ++
         (sdBlock p (ginOf eff fks) ++ (fieldStmts p (ginOf eff fks) 0 (ginOf eff fks).fields ++ tailStmts (ginOf eff fks)))) := by
      unfold genBody; simp [hpre, hpaths, hemp']
    -- phase 1
    obtain ⟨σ1, e1, o1, v1, _⟩ := exec_ifelse p ρ (ginOf eff fks).fields {}
    have hv1 : ∀ j (hj : j < fks.length), σ1.get (skipName j) = some (excluded args (fks[j]).1) := by
      intro j hj
      have := v1 j (by rw [hfields]; simpa using hj)
      rw [this, W.exclude]
      simp only [hfields, List.getElem_map, excluded]
      cases args.exclude <;> rfl
    -- phase 2
    obtain ⟨σ2, e2, o2, v2⟩ := exec_sdBlock p ρ eff args fks vals W dtv Hd σ1 hv1
    -- phase 3
    have e3 := exec_fieldStmts p ρ eff args fks vals W (sk2At eff args fks dtv) ocv Ho fks 0 σ2 (by simp)
      (fun j hj => by simpa using v2 j hj)
    have e1' : execL2s ρ {} [L2.if_ (.bin (nm "exclude") (.cmp .is_) (.lit .none))
        [.line { parts := [.assign true (skipTargets 0 (ginOf eff fks).fields) (.lit .false_)] }]
        (some [.line { parts := excludeAssigns p 0 (ginOf eff fks).fields, sep := [';'] }])] = .ok σ1 := by
      simp only [execL2s, e1, bind, Except.bind]
    rw [hshape, execL2s_append, hresL]
    simp only [Except.bind]
    rw [execL2s_append, e1']
    simp only [Except.bind]
    rw [execL2s_append, e2]
    simp only [Except.bind]
    rw [execL2s_append]
    rw [hfields]
    rw [e3]
    simp only [Except.bind]
    rw [exec_tail]
    simp [o1, o2, bind, Except.bind, pure, Except.pure]

/-- the reference entries, field by field (position-free form of `emitsFrom`) -/
theorem emitsFrom_eq (eff : MetaCfg) (args : DumpArgs) (fks : List (FieldInfo × S)) (dtv ocv : FieldInfo → Bool)
    (vals : S → PyVal) : ∀ (fs : List (FieldInfo × S)) (i : Nat), fks.drop i = fs →
    emitsFrom (sk2At eff args fks dtv) ocv vals i fs =
      fs.flatMap (fun q => refFieldEmit (excluded args q.1 || (skipDefaultsOn eff args && dtv q.1)) (ocv q.1) q.1 q.2 (vals q.1.name))
  | [], _, _ => rfl
  | (fi, k) :: r, i, hdrop => by
    obtain ⟨hget, hdrop'⟩ := drop_cons_get fks i (fi, k) r hdrop
    simp only [emitsFrom, List.flatMap_cons]
    rw [emitsFrom_eq eff args fks dtv ocv vals r (i + 1) hdrop']
    simp [sk2At, hget]

/-! ### the closure `dump_func_for_dataclass` builds, and the call environment: `World` is inhabited for every class -/

/-- what the generator's `_locals[...] = …` assignments store for the fields from index `i` on -/
def closureList : Nat → List (FieldInfo × S) → List (S × CV)
  | _, [] => []
  | i, (fi, _) :: r =>
    (match fi.dflt with | some d => [(defaultName i, CV.dflt d)] | none => []) ++
    (match fi.skipIf with | some c => [(skipIfName i, CV.lit c.val)] | none => []) ++ closureList (i + 1) r

def closureMeta (eff : MetaCfg) : List (S × CV) :=
  (match eff.skipIf with | some c => [(skipValue, CV.lit c.val)] | none => []) ++
  (match eff.skipDefaultsIf with | some c => [(skipDefaultsValue, CV.lit c.val)] | none => [])

/-- the environment of the call `asdict(o, exclude=…, skip_defaults=…)` on an instance whose attribute `n` holds `vals n` -/
def envOf (eff : MetaCfg) (args : DumpArgs) (fks : List (FieldInfo × S)) (vals : S → PyVal) : Env :=
  { field := fun n => some (vals n), exclude := args.exclude, skipDefaults := skipDefaultsOn eff args,
    closure := fun n => (closureMeta eff ++ closureList 0 fks).lookup n }

theorem defaultName_injective (i j : Nat) (h : defaultName i = defaultName j) : i = j := by
  unfold defaultName at h
  exact dec_injective i j (List.append_cancel_left h)

theorem skipIfName_injective (i j : Nat) (h : skipIfName i = skipIfName j) : i = j := by
  unfold skipIfName at h
  exact dec_injective i j (List.append_cancel_left h)

theorem defaultName_ne_skipIfName (i j : Nat) : defaultName i ≠ skipIfName j := by
  have h1 : defaultName i = '_' :: 'd' :: 'e' :: 'f' :: 'a' :: 'u' :: 'l' :: 't' :: '_' :: dec i := by unfold defaultName; rfl
  have h2 : skipIfName j = '_' :: 's' :: 'k' :: 'i' :: 'p' :: '_' :: 'i' :: 'f' :: '_' :: dec j := by unfold skipIfName; rfl
  rw [h1, h2]; simp

theorem lookup_single_ne {α : Type} (n k : S) (v : α) (h : n ≠ k) : ([(k, v)] : List (S × α)).lookup n = none := by
  have : (n == k) = false := by simpa using h
  simp [List.lookup, this]

theorem lookup_single_eq {α : Type} (k : S) (v : α) : ([(k, v)] : List (S × α)).lookup k = some v := by
  simp [List.lookup]

theorem lookup_cons_ne {α : Type} (n k : S) (v : α) (r : List (S × α)) (h : n ≠ k) : ((k, v) :: r).lookup n = r.lookup n := by
  have : (n == k) = false := by simpa using h
  simp [List.lookup, this]

theorem lookup_cons_eq {α : Type} (k : S) (v : α) (r : List (S × α)) : ((k, v) :: r).lookup k = some v := by
  simp [List.lookup]

theorem lookup_append_of_none {α : Type} (k : S) (xs ys : List (S × α)) (h : xs.lookup k = none) :
    (xs ++ ys).lookup k = ys.lookup k := by
  induction xs with
  | nil => rfl
  | cons x r ih =>
    obtain ⟨a, b⟩ := x
    by_cases hk : k = a
    · subst hk; rw [lookup_cons_eq] at h; cases h
    · rw [List.cons_append, lookup_cons_ne _ _ _ _ hk]
      rw [lookup_cons_ne _ _ _ _ hk] at h
      exact ih h

/-- names bound for fields from index `i` on are none of the names of earlier indices -/
theorem closureList_lookup_lt (n : S) : ∀ (fs : List (FieldInfo × S)) (i : Nat),
    (∀ j, i ≤ j → n ≠ defaultName j ∧ n ≠ skipIfName j) → (closureList i fs).lookup n = none
  | [], _, _ => rfl
  | (fi, _) :: r, i, h => by
    have hi := h i (Nat.le_refl i)
    have hr := closureList_lookup_lt n r (i + 1) (fun j hj => h j (by omega))
    simp only [closureList]
    have e1 : ((match fi.dflt with | some d => [(defaultName i, CV.dflt d)] | none => []) : List (S × CV)).lookup n = none := by
      cases fi.dflt with
      | none => rfl
      | some d => exact lookup_single_ne _ _ _ hi.1
    have e2 : ((match fi.skipIf with | some c => [(skipIfName i, CV.lit c.val)] | none => []) : List (S × CV)).lookup n = none := by
      cases fi.skipIf with
      | none => rfl
      | some c => exact lookup_single_ne _ _ _ hi.2
    rw [List.append_assoc, lookup_append_of_none _ _ _ e1, lookup_append_of_none _ _ _ e2]
    exact hr

theorem closureList_default : ∀ (fs : List (FieldInfo × S)) (i0 i : Nat) (fi : FieldInfo) (k : S) (d : Dflt),
    fs[i]? = some (fi, k) → fi.dflt = some d → (closureList i0 fs).lookup (defaultName (i0 + i)) = some (.dflt d)
  | [], _, _, _, _, _, h, _ => by simp at h
  | (f0, k0) :: r, i0, i, fi, k, d, h, hd => by
    cases i with
    | zero =>
      simp only [List.getElem?_cons_zero, Option.some.injEq, Prod.mk.injEq] at h
      obtain ⟨rfl, rfl⟩ := h
      simp only [closureList, hd, Nat.add_zero, List.cons_append, List.nil_append]
      exact lookup_cons_eq _ _ _
    | succ i =>
      simp only [List.getElem?_cons_succ] at h
      have ih := closureList_default r (i0 + 1) i fi k d h hd
      rw [show i0 + 1 + i = i0 + (i + 1) by omega] at ih
      simp only [closureList]
      have hne1 : defaultName (i0 + (i + 1)) ≠ defaultName i0 := fun e => by have := defaultName_injective _ _ e; omega
      have e1 : ((match f0.dflt with | some d => [(defaultName i0, CV.dflt d)] | none => []) : List (S × CV)).lookup (defaultName (i0 + (i + 1))) = none := by
        cases f0.dflt with
        | none => rfl
        | some d => exact lookup_single_ne _ _ _ hne1
      have e2 : ((match f0.skipIf with | some c => [(skipIfName i0, CV.lit c.val)] | none => []) : List (S × CV)).lookup (defaultName (i0 + (i + 1))) = none := by
        cases f0.skipIf with
        | none => rfl
        | some c => exact lookup_single_ne _ _ _ (defaultName_ne_skipIfName _ _)
      rw [List.append_assoc, lookup_append_of_none _ _ _ e1, lookup_append_of_none _ _ _ e2]
      exact ih

theorem closureList_skipIf : ∀ (fs : List (FieldInfo × S)) (i0 i : Nat) (fi : FieldInfo) (k : S) (c : Cond),
    fs[i]? = some (fi, k) → fi.skipIf = some c → (closureList i0 fs).lookup (skipIfName (i0 + i)) = some (.lit c.val)
  | [], _, _, _, _, _, h, _ => by simp at h
  | (f0, k0) :: r, i0, i, fi, k, c, h, hc => by
    cases i with
    | zero =>
      simp only [List.getElem?_cons_zero, Option.some.injEq, Prod.mk.injEq] at h
      obtain ⟨rfl, rfl⟩ := h
      have hne : skipIfName i0 ≠ defaultName i0 := fun e => defaultName_ne_skipIfName _ _ e.symm
      have e1 : ((match f0.dflt with | some d => [(defaultName i0, CV.dflt d)] | none => []) : List (S × CV)).lookup (skipIfName (i0 + 0)) = none := by
        cases f0.dflt with
        | none => rfl
        | some d => exact lookup_single_ne _ _ _ hne
      simp only [closureList]
      rw [List.append_assoc, lookup_append_of_none _ _ _ e1]
      simp only [hc, Nat.add_zero, List.cons_append, List.nil_append]
      exact lookup_cons_eq _ _ _
    | succ i =>
      simp only [List.getElem?_cons_succ] at h
      have ih := closureList_skipIf r (i0 + 1) i fi k c h hc
      rw [show i0 + 1 + i = i0 + (i + 1) by omega] at ih
      simp only [closureList]
      have hne1 : skipIfName (i0 + (i + 1)) ≠ skipIfName i0 := fun e => by have := skipIfName_injective _ _ e; omega
      have hne2 : skipIfName (i0 + (i + 1)) ≠ defaultName i0 := fun e => defaultName_ne_skipIfName _ _ e.symm
      have e1 : ((match f0.dflt with | some d => [(defaultName i0, CV.dflt d)] | none => []) : List (S × CV)).lookup (skipIfName (i0 + (i + 1))) = none := by
        cases f0.dflt with
        | none => rfl
        | some d => exact lookup_single_ne _ _ _ hne2
      have e2 : ((match f0.skipIf with | some c => [(skipIfName i0, CV.lit c.val)] | none => []) : List (S × CV)).lookup (skipIfName (i0 + (i + 1))) = none := by
        cases f0.skipIf with
        | none => rfl
        | some c => exact lookup_single_ne _ _ _ hne1
      rw [List.append_assoc, lookup_append_of_none _ _ _ e1, lookup_append_of_none _ _ _ e2]
      exact ih

theorem ne_of_getElem? (X Y : S) (n : Nat) (h : X[n]? ≠ Y[n]?) : X ≠ Y := fun e => h (by rw [e])

theorem skipValue_1 : skipValue[1]? = some 's' := by decide
theorem skipValue_6 : skipValue[6]? = some 'v' := by decide
theorem skipDefaultsValue_1 : skipDefaultsValue[1]? = some 's' := by decide
theorem skipDefaultsValue_6 : skipDefaultsValue[6]? = some 'd' := by decide

theorem defaultName_ne_meta (i : Nat) : defaultName i ≠ skipValue ∧ defaultName i ≠ skipDefaultsValue := by
  have h : (defaultName i)[1]? = some 'd' := by
    have : defaultName i = '_' :: 'd' :: 'e' :: 'f' :: 'a' :: 'u' :: 'l' :: 't' :: '_' :: dec i := by unfold defaultName; rfl
    rw [this]; rfl
  exact ⟨ne_of_getElem? _ _ 1 (by rw [h, skipValue_1]; decide), ne_of_getElem? _ _ 1 (by rw [h, skipDefaultsValue_1]; decide)⟩

theorem skipIfName_ne_meta (i : Nat) : skipIfName i ≠ skipValue ∧ skipIfName i ≠ skipDefaultsValue := by
  have h : (skipIfName i)[6]? = some 'i' := by
    have : skipIfName i = '_' :: 's' :: 'k' :: 'i' :: 'p' :: '_' :: 'i' :: 'f' :: '_' :: dec i := by unfold skipIfName; rfl
    rw [this]; rfl
  exact ⟨ne_of_getElem? _ _ 6 (by rw [h, skipValue_6]; decide), ne_of_getElem? _ _ 6 (by rw [h, skipDefaultsValue_6]; decide)⟩

theorem closureMeta_none (eff : MetaCfg) (n : S) (h1 : n ≠ skipValue) (h2 : n ≠ skipDefaultsValue) :
    (closureMeta eff).lookup n = none := by
  unfold closureMeta
  cases eff.skipIf <;> cases eff.skipDefaultsIf
  · rfl
  · exact lookup_single_ne _ _ _ h2
  · exact lookup_single_ne _ _ _ h1
  · simp only [List.cons_append, List.nil_append]
    rw [lookup_cons_ne _ _ _ _ h1]; exact lookup_single_ne _ _ _ h2

/-- **the hypotheses of the semantic theorems are met by the environment the generator itself sets up** -/
theorem world_envOf (p : Char → Bool) (eff : MetaCfg) (args : DumpArgs) (fks : List (FieldInfo × S)) (vals : S → PyVal) :
    World p eff args fks vals (envOf eff args fks vals) where
  field := fun _ => rfl
  exclude := rfl
  skipDefaults := rfl
  dflt := by
    intro i fi k d hi hd
    obtain ⟨h1, h2⟩ := defaultName_ne_meta i
    show (closureMeta eff ++ closureList 0 fks).lookup (defaultName i) = _
    rw [lookup_append_of_none _ _ _ (closureMeta_none eff _ h1 h2)]
    simpa using closureList_default fks 0 i fi k d hi hd
  skipIf := by
    intro i fi k c hi hc _
    obtain ⟨h1, h2⟩ := skipIfName_ne_meta i
    show (closureMeta eff ++ closureList 0 fks).lookup (skipIfName i) = _
    rw [lookup_append_of_none _ _ _ (closureMeta_none eff _ h1 h2)]
    simpa using closureList_skipIf fks 0 i fi k c hi hc
  skipValue := by
    intro c hc _
    show (closureMeta eff ++ closureList 0 fks).lookup skipValue = _
    simp only [closureMeta, hc, List.cons_append, List.nil_append]
    exact lookup_cons_eq _ _ _
  skipDefaultsValue := by
    intro c hc _
    show (closureMeta eff ++ closureList 0 fks).lookup skipDefaultsValue = _
    have hne : skipDefaultsValue ≠ skipValue := by decide
    cases hs : eff.skipIf with
    | none =>
      simp only [closureMeta, hc, hs, List.cons_append, List.nil_append]
      exact lookup_cons_eq _ _ _
    | some c' =>
      simp only [closureMeta, hc, hs, List.cons_append, List.nil_append]
      rw [lookup_cons_ne _ _ _ _ hne]; exact lookup_cons_eq _ _ _

end DW.GenDump
