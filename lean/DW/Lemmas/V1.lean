/-
Helper lemmas about the v1 class function (`DW/Model/LoadV1.lean`): which constructor arguments the field loop
produces, how many it counts, and the counting argument behind the `len(o) != i` fast path.
-/
import DW.Model.LoadV1

namespace DW.Lemmas.V1
open DW

/-! ### generic list facts -/

theorem countP_or_disjoint {α} (p q : α → Bool) (l : List α) (h : ∀ x ∈ l, ¬ (p x = true ∧ q x = true)) :
    l.countP (fun x => p x || q x) = l.countP p + l.countP q := by
  induction l with
  | nil => simp
  | cons a r ih =>
    have hr : ∀ x ∈ r, ¬ (p x = true ∧ q x = true) := fun x hx => h x (by simp [hx])
    have ha := h a (by simp)
    simp only [List.countP_cons, ih hr]
    cases hp : p a <;> cases hq : q a <;> simp_all <;> try omega

/-- two duplicate-free lists see the same number of common elements from either side -/
theorem countP_contains_symm {α} [BEq α] [LawfulBEq α] (l1 l2 : List α) (h1 : l1.Nodup) (h2 : l2.Nodup) :
    l1.countP (fun x => l2.contains x) = l2.countP (fun x => l1.contains x) := by
  induction l1 with
  | nil => simp
  | cons a r ih =>
    obtain ⟨har, hr⟩ := List.nodup_cons.mp h1
    have hdisj : ∀ x ∈ l2, ¬ ((x == a) = true ∧ r.contains x = true) := by
      intro x _ hx
      have : x = a := by simpa using hx.1
      subst this
      exact har (List.contains_iff_mem.mp hx.2)
    have hsplit : l2.countP (fun x => (a :: r).contains x) = l2.countP (fun x => x == a) + l2.countP (fun x => r.contains x) := by
      have hfun : (fun x => (a :: r).contains x) = (fun x => (x == a) || r.contains x) := by
        funext x; simp [List.contains_cons]
      rw [hfun, countP_or_disjoint _ _ l2 hdisj]
    have hcnt : l2.countP (fun x => x == a) = if a ∈ l2 then 1 else 0 := by
      have := List.Nodup.count (a := a) h2
      simpa [List.count] using this
    rw [hsplit, hcnt, ← ih hr, List.countP_cons]
    by_cases hm : a ∈ l2
    · simp [hm, List.contains_iff_mem.mpr hm]; omega
    · have : l2.contains a = false := by
        cases hc : l2.contains a with
        | false => rfl
        | true => exact absurd (List.contains_iff_mem.mp hc) hm
      simp [hm, this]

/-- names identify the elements of a list whose names are pairwise different -/
theorem eq_of_name_eq {α β} (name : α → β) (l : List α) (h : (l.map name).Nodup) (a b : α)
    (ha : a ∈ l) (hb : b ∈ l) (hn : name a = name b) : a = b := by
  induction l with
  | nil => simp at ha
  | cons x r ih =>
    simp only [List.map_cons, List.nodup_cons, List.mem_map, not_exists, not_and] at h
    obtain ⟨hx, hr⟩ := h
    simp only [List.mem_cons] at ha hb
    rcases ha with rfl | ha <;> rcases hb with rfl | hb
    · rfl
    · exact absurd hn.symm (hx b hb)
    · exact absurd hn (hx a ha)
    · exact ih hr ha hb

/-! ### key lookup -/

def docKeys (kvs : List (S × JVal)) : List S := kvs.map (·.1)

theorem lookupFirst_single_isSome (kvs : List (S × JVal)) (k : S) :
    (lookupFirst kvs [k]).isSome = (docKeys kvs).contains k := by
  simp only [lookupFirst]
  cases h : kvs.find? (fun kv => kv.1 == k) with
  | some kv =>
    have hm := List.mem_of_find?_eq_some h
    have hk : kv.1 = k := by simpa using List.find?_some h
    have : k ∈ docKeys kvs := by
      unfold docKeys; exact List.mem_map.mpr ⟨kv, hm, hk⟩
    simp [this]
  | none =>
    rw [List.find?_eq_none] at h
    have : ¬ k ∈ docKeys kvs := by
      unfold docKeys
      intro hk
      obtain ⟨kv, hm, hkv⟩ := List.mem_map.mp hk
      exact h kv hm (by simp [hkv])
    cases hc : (docKeys kvs).contains k with
    | false => simp
    | true => exact absurd (List.contains_iff_mem.mp hc) this

/-- is a key of field `f` present in the document -/
def present (eff : MetaCfg) (kvs : List (S × JVal)) (f : FieldInfo) : Bool := (lookupFirst kvs (v1Keys eff f)).isSome

/-! ### the field loop -/

/-- On success the field loop hands the constructor exactly the constructor fields (never an `init=False` field, never the
catch-all field) one of whose keys is present in the document, in declaration order, and counts them. -/
theorem v1Fields_ok (fl : S → JVal → LRes) (eff : MetaCfg) (ci : ClassInfo) (kvs : List (S × JVal))
    (fs : List FieldInfo) (kw : List (S × PyVal)) (n : Nat) (h : v1Fields fl eff ci kvs fs = .ok (kw, n)) :
    kw.map (·.1) = ((fs.filter (fun f => f.init && !f.isCatchAll)).filter (present eff kvs)).map (·.name) ∧
    n = (fs.filter (fun f => f.init && !f.isCatchAll)).countP (present eff kvs) := by
  induction fs generalizing kw n with
  | nil => simp [v1Fields, pure, Except.pure] at h; simp [h.1, h.2]
  | cons fi r ih =>
    simp only [v1Fields] at h
    split at h
    · rename_i hskip
      have : (fi.init && !fi.isCatchAll) = false := by
        cases hi : fi.init <;> cases hc : fi.isCatchAll <;> simp_all
      simp only [List.filter_cons, this]
      exact ih kw n h
    · rename_i hskip
      have hin : (fi.init && !fi.isCatchAll) = true := by
        cases hi : fi.init <;> cases hc : fi.isCatchAll <;> simp_all
      split at h
      · rename_i hnone
        have hp : present eff kvs fi = false := by simp [present, hnone]
        obtain ⟨h1, h2⟩ := ih kw n h
        simp [List.filter_cons, hin, hp, h1, h2, List.countP_cons]
      · rename_i v hv
        have hp : present eff kvs fi = true := by simp [present, hv]
        cases hf : (fl fi.name v).mapError (v1SetAttr ci.name fi.name) with
        | error e => simp [hf, bind, Except.bind] at h
        | ok y =>
          simp only [hf, bind, Except.bind] at h
          cases hr : v1Fields fl eff ci kvs r with
          | error e => simp [hr] at h
          | ok rr =>
            obtain ⟨kw', n'⟩ := rr
            simp [hr, pure, Except.pure] at h
            obtain ⟨hk, hn⟩ := h
            subst hk hn
            obtain ⟨h1, h2⟩ := ih kw' n' hr
            simp [List.filter_cons, hin, hp, h1, h2, List.countP_cons]

/-! ### counting -/

/-- every constructor field is looked up under exactly one key (no key-case AUTO, no multi-key alias) -/
def SingleKeyed (eff : MetaCfg) (ci : ClassInfo) : Prop := ∀ f ∈ v1InitFields ci, ∃ k, v1Keys eff f = [k]

theorem countP_flatMap_keys (eff : MetaCfg) (kvs : List (S × JVal)) (F : List FieldInfo)
    (hS : ∀ f ∈ F, ∃ k, v1Keys eff f = [k]) :
    (F.flatMap (v1Keys eff)).countP (fun k => (docKeys kvs).contains k) = F.countP (present eff kvs) := by
  induction F with
  | nil => simp
  | cons f r ih =>
    obtain ⟨k, hk⟩ := hS f (by simp)
    have hr : ∀ g ∈ r, ∃ k, v1Keys eff g = [k] := fun g hg => hS g (by simp [hg])
    simp only [List.flatMap_cons, List.countP_append, ih hr, List.countP_cons, hk, List.countP_nil]
    have : present eff kvs f = (docKeys kvs).contains k := by
      simp [present, hk, lookupFirst_single_isSome]
    rw [this]
    omega

/-- The counting argument behind `len(o) != i`: when the document's keys are pairwise different, the known keys are
pairwise different, every constructor field has one key, the class has a constructor field and matched keys are counted at
all, then  len(o) = i + (number of unknown pairs). -/
theorem length_eq_matched_add_extra (eff : MetaCfg) (ci : ClassInfo) (kvs : List (S × JVal)) (found : Nat)
    (hD : (docKeys kvs).Nodup) (hK : (v1KnownKeys eff ci).Nodup) (hS : SingleKeyed eff ci)
    (hcount : v1Counting eff ci = true) (hne : (v1InitFields ci).isEmpty = false)
    (hfound : found = (v1InitFields ci).countP (present eff kvs)) :
    kvs.length = v1Matched eff ci kvs found + (v1Extra eff ci kvs).length := by
  have hlen := List.length_eq_countP_add_countP (fun kv : S × JVal => (v1KnownKeys eff ci).contains kv.1) (l := kvs)
  have hextra : (v1Extra eff ci kvs).length = kvs.countP (fun kv => decide ¬ ((v1KnownKeys eff ci).contains kv.1 = true)) := by
    unfold v1Extra
    rw [List.countP_eq_length_filter]
    congr 2
    funext kv
    cases (v1KnownKeys eff ci).contains kv.1 <;> simp
  have hknown : kvs.countP (fun kv => (v1KnownKeys eff ci).contains kv.1)
      = (docKeys kvs).countP (fun k => (v1KnownKeys eff ci).contains k) := by
    unfold docKeys
    rw [List.countP_map]
    rfl
  have hsymm := countP_contains_symm (docKeys kvs) (v1KnownKeys eff ci) hD hK
  have hmatched : (v1KnownKeys eff ci).countP (fun k => (docKeys kvs).contains k) = v1Matched eff ci kvs found := by
    unfold v1KnownKeys v1Matched
    rw [List.countP_append, countP_flatMap_keys eff kvs _ hS, hfound]
    have hany : kvs.any (fun kv => kv.1 == v1TagKey eff) = (docKeys kvs).contains (v1TagKey eff) := by
      unfold docKeys
      cases hc : (List.map (fun x => x.1) kvs).contains (v1TagKey eff) with
      | true =>
        obtain ⟨kv, hm, hk⟩ := List.mem_map.mp (List.contains_iff_mem.mp hc)
        exact List.any_eq_true.mpr ⟨kv, hm, by simp [hk]⟩
      | false =>
        cases ha : kvs.any (fun kv => kv.1 == v1TagKey eff) with
        | false => rfl
        | true =>
          obtain ⟨kv, hm, hk⟩ := List.any_eq_true.mp ha
          have : v1TagKey eff ∈ List.map (fun x => x.1) kvs := List.mem_map.mpr ⟨kv, hm, by simpa using hk⟩
          rw [List.contains_iff_mem.mpr this] at hc
          exact absurd hc (by simp)
    rw [hany, hcount, hne]
    by_cases hm : v1TagKey eff ∈ docKeys kvs
    · have hc := List.contains_iff_mem.mpr hm
      cases he : v1ExpectTag eff ci <;> simp [List.countP_cons, hc, hm]
      omega
    · have hc : (docKeys kvs).contains (v1TagKey eff) = false := by
        cases hc : (docKeys kvs).contains (v1TagKey eff) with
        | false => rfl
        | true => exact absurd (List.contains_iff_mem.mp hc) hm
      cases he : v1ExpectTag eff ci <;> simp [List.countP_cons, hc, hm]
  rw [hlen, hextra, hknown, hsymm, hmatched]

/-! ### the last step -/

/-- without a catch-all field the last step of the v1 function is the `cls(**init_kwargs)` step of the default engine's model -/
theorem finishKw_eq_finishClass (ci : ClassInfo) (kw : List (S × PyVal)) (b : Bool) (ca : List (PyVal × PyVal)) (o : JVal)
    (h : ci.fields.find? (·.isCatchAll) = none) : finishKw ci (v1WithCatchAll ci kw b ca) = finishClass ci kw [] o := by
  simp only [finishKw, v1WithCatchAll, finishClass, withCatchAll, h]
  cases missingInit ci (kw.map (·.1)) <;> rfl

end DW.Lemmas.V1
