/- Helper lemmas for C17 (patterned dates/times). -/
import DW.Model.C17
import DW.Lemmas.Strings

namespace DW.C17
open DW

/-- a time target whose pattern holds `-`/`+` is a time target -/
theorem dashTime_kind {k : Kind} {p : S} (h : dashTime k p = true) : k = .time := by
  unfold dashTime at h
  cases k <;> simp_all

theorem isoVal_kind {std : PatStd} {k : Kind} {sub : Bool} {s : S} {v : DV}
    (h : isoVal std k sub s = some v) : v.kind = k ∧ v.isSub = sub := by
  unfold isoVal at h
  cases k with
  | date =>
    cases hd : std.dateFromIso s with
    | none => simp [hd] at h
    | some d => simp [hd] at h; subst h; exact ⟨rfl, rfl⟩
  | time =>
    cases hd : std.timeFromIso s with
    | none => simp [hd] at h
    | some d => simp [hd] at h; subst h; exact ⟨rfl, rfl⟩
  | datetime =>
    cases hd : std.datetimeFromIso s with
    | none => simp [hd] at h
    | some d => simp [hd] at h; subst h; exact ⟨rfl, rfl⟩

theorem convD_kind (k : Kind) (sub : Bool) (dt : DT) : (convD k sub dt).kind = k ∧ (convD k sub dt).isSub = sub := by
  cases k <;> exact ⟨rfl, rfl⟩

theorem convV1_kind (sp : FnSpec) (dt : DT) : (convV1 sp dt).kind = sp.k ∧ (convV1 sp dt).isSub = sp.sub := by
  unfold convV1
  cases h : sp.k <;> exact ⟨rfl, rfl⟩

theorem asD_kind {std : PatStd} {k : Kind} {sub : Bool} {o : JVal} {v : DV}
    (h : asD std k sub o = .ok (some v)) : v.kind = k ∧ v.isSub = sub := by
  unfold asD at h
  cases o with
  | str s => simp only [Except.ok.injEq] at h; exact isoVal_kind h
  | null => simp [jNumExact?] at h
  | bool b => simp [jNumExact?] at h
  | list xs => simp [jNumExact?] at h
  | dict kvs => simp [jNumExact?] at h
  | int i =>
    cases k with
    | date =>
      simp only [jNumExact?] at h
      cases hd : std.dateFromTs (.int i) with
      | ok d => simp [hd] at h; subst h; exact ⟨rfl, rfl⟩
      | valueError => simp [hd] at h
      | otherError => simp [hd] at h
    | time => simp [jNumExact?] at h
    | datetime =>
      simp only [jNumExact?] at h
      cases hd : std.datetimeFromTs (.int i) (some (.fixed 0)) with
      | ok d => simp [hd] at h; subst h; exact ⟨rfl, rfl⟩
      | valueError => simp [hd] at h
      | otherError => simp [hd] at h
  | float f =>
    cases k with
    | date =>
      simp only [jNumExact?] at h
      cases hd : std.dateFromTs (.float f) with
      | ok d => simp [hd] at h; subst h; exact ⟨rfl, rfl⟩
      | valueError => simp [hd] at h
      | otherError => simp [hd] at h
    | time => simp [jNumExact?] at h
    | datetime =>
      simp only [jNumExact?] at h
      cases hd : std.datetimeFromTs (.float f) (some (.fixed 0)) with
      | ok d => simp [hd] at h; subst h; exact ⟨rfl, rfl⟩
      | valueError => simp [hd] at h
      | otherError => simp [hd] at h

/-- `tryPatterns` returns the conversion of the first pattern that parses -/
theorem tryPatterns_none {std : PatStd} {sp : FnSpec} {s : S} :
    ∀ (ps : List S), (∀ p ∈ ps, std.strptime p s = none) → tryPatterns std sp s ps = none
  | [], _ => rfl
  | p :: ps, h => by
    have hp : std.strptime p s = none := h p (by simp)
    simp only [tryPatterns, hp]
    exact tryPatterns_none ps (fun p' hp' => h p' (by simp [hp']))

theorem tryPatterns_some {std : PatStd} {sp : FnSpec} {s : S} {v : DV} :
    ∀ (ps : List S), tryPatterns std sp s ps = some v → ∃ p ∈ ps, ∃ dt, std.strptime p s = some dt ∧ v = convV1 sp dt
  | [], h => by simp [tryPatterns] at h
  | p :: ps, h => by
    unfold tryPatterns at h
    cases hp : std.strptime p s with
    | some dt =>
      simp [hp] at h
      exact ⟨p, by simp, dt, hp, h.symm⟩
    | none =>
      simp [hp] at h
      obtain ⟨p', hm, dt, h1, h2⟩ := tryPatterns_some ps h
      exact ⟨p', by simp [hm], dt, h1, h2⟩

theorem attachTz_some (z : TZ) (t : TimeF) : (attachTz (some z) t).tz = some z := rfl

/-- the ISO text the dump writes for a value, read back the way the default engine reads it -/
theorem zToOffset_isoZ' (t : S) (h : 'Z' ∉ t) : zToOffset (isoZ t) = t := zToOffset_isoZ t h

/-- the dumped text of a loaded value is read back as that value by the ISO branch -/
theorem isoD_dump (std : PatStd) (k : Kind) (sub : Bool) (v : DV) (hk : v.kind = k) (hs : v.isSub = sub)
    (hlaw : IsoRT std v) : isoD std k sub (dumpDV std v) = some v := by
  cases v with
  | date s d =>
    simp only [DV.kind, DV.isSub] at hk hs
    subst hk; subst hs
    simp only [IsoRT] at hlaw
    simp [isoD, isoTextD, isoVal, dumpDV, hlaw]
  | time s t =>
    simp only [DV.kind, DV.isSub] at hk hs
    subst hk; subst hs
    simp only [IsoRT] at hlaw
    simp [isoD, isoTextD, isoVal, dumpDV, zToOffset_isoZ' _ hlaw.2, hlaw.1]
  | datetime s dt =>
    simp only [DV.kind, DV.isSub] at hk hs
    subst hk; subst hs
    simp only [IsoRT] at hlaw
    simp [isoD, isoTextD, isoVal, dumpDV, zToOffset_isoZ' _ hlaw.2, hlaw.1]


theorem mapE_ok {f : JVal → PRes} (g : JVal → PV) :
    ∀ (xs : List JVal), (∀ x ∈ xs, f x = .ok (g x)) → mapE f xs = .ok (xs.map g)
  | [], _ => rfl
  | x :: xs, h => by
    have hx : f x = .ok (g x) := h x (by simp)
    simp only [mapE, hx, mapE_ok g xs (fun y hy => h y (by simp [hy])), List.map_cons]

theorem mapPairsE_ok {f h : JVal → PRes} (gk gv : JVal → PV) :
    ∀ (kvs : List (S × JVal)), (∀ kv ∈ kvs, f (.str kv.1) = .ok (gk (.str kv.1)) ∧ h kv.2 = .ok (gv kv.2)) →
      mapPairsE f h kvs = .ok (kvs.map (fun kv => (gk (.str kv.1), gv kv.2)))
  | [], _ => rfl
  | (k, v) :: r, hyp => by
    have h1 := hyp (k, v) (by simp)
    simp only [mapPairsE, h1.1, h1.2, mapPairsE_ok gk gv r (fun kv hkv => hyp kv (by simp [hkv])), List.map_cons]


/-! ### the generation fold when every position is the same (one pattern object at one type) -/

theorem find?_all_eq {α} (l : List α) (a : α) (pr : α → Bool) (hne : l ≠ []) (hall : ∀ e ∈ l, e = a) (hp : pr a = true) :
    l.find? pr = some a := by
  cases l with
  | nil => exact absurd rfl hne
  | cons b t =>
    have hb : b = a := hall b (by simp)
    subst hb
    simp [List.find?, hp]

/-- invariant of `genPos` while only position `x` is met -/
structure GenInv (q : PQuirks) (pats : List PatObj) (x : Pos) (st : GenSt) : Prop where
  fns : ∀ e ∈ st.fns, e = (mkName q pats x, ownSpec pats x)
  guard : ∀ e ∈ st.guard, e = (x.pid, mkName q pats x)
  sync : q.v1GuardByObject = true → (st.guard = [] ↔ st.fns = [])

theorem guardLookup_inv {q : PQuirks} {pats : List PatObj} {x : Pos} {st : GenSt} (h : GenInv q pats x st)
    (hne : st.guard ≠ []) : guardLookup st.guard x.pid = some (mkName q pats x) := by
  unfold guardLookup
  rw [find?_all_eq st.guard (x.pid, mkName q pats x) _ hne h.guard (by simp)]
  rfl

theorem genPos_inv {q : PQuirks} {pats : List PatObj} {x : Pos} {st : GenSt} (h : GenInv q pats x st) :
    GenInv q pats x (genPos q pats st x) ∧ (genPos q pats st x).fns ≠ [] := by
  unfold genPos
  cases hq : q.v1GuardByObject with
  | true =>
    simp only [↓reduceIte]
    cases hg : st.guard with
    | nil =>
      have hf : st.fns = [] := (h.sync hq).mp hg
      simp only [guardLookup, List.find?_nil, Option.map_none, hf, List.nil_append]
      refine ⟨⟨?_, ?_, ?_⟩, by simp⟩
      · intro e he; simpa using he
      · intro e he; simpa using he
      · intro _; simp
    | cons g gs =>
      have hne : st.guard ≠ [] := by simp [hg]
      have hl := guardLookup_inv h hne
      rw [hg] at hl
      simp only [hl]
      refine ⟨h, ?_⟩
      intro hf
      exact hne ((h.sync hq).mpr hf)
  | false =>
    simp only [Bool.false_eq_true, ↓reduceIte]
    refine ⟨⟨?_, h.guard, ?_⟩, by simp⟩
    · intro e he
      simp only [List.mem_append, List.mem_singleton] at he
      cases he with
      | inl h1 => exact h.fns e h1
      | inr h1 => exact h1
    · intro hc; simp [hq] at hc

theorem genFold_inv {q : PQuirks} {pats : List PatObj} {x : Pos} :
    ∀ (ps : List Pos) (st : GenSt), (∀ y ∈ ps, y = x) → GenInv q pats x st → st.fns ≠ [] →
      GenInv q pats x (ps.foldl (genPos q pats) st) ∧ (ps.foldl (genPos q pats) st).fns ≠ []
  | [], st, _, h, hne => ⟨h, hne⟩
  | y :: ps, st, hall, h, _ => by
    have hy : y = x := hall y (by simp)
    subst hy
    have h1 := genPos_inv h
    exact genFold_inv ps _ (fun z hz => hall z (by simp [hz])) h1.1 h1.2

theorem genPositions_inv {q : PQuirks} {pats : List PatObj} {x : Pos} (ps : List Pos)
    (hall : ∀ y ∈ ps, y = x) (hne : ps ≠ []) :
    GenInv q pats x (genPositions q pats ps) ∧ (genPositions q pats ps).fns ≠ [] := by
  cases ps with
  | nil => exact absurd rfl hne
  | cons y ps =>
    have hy : y = x := hall y (by simp)
    subst hy
    have h0 : GenInv q pats y ({} : GenSt) := ⟨by intro e he; simp at he, by intro e he; simp at he, by intro _; simp⟩
    have h1 := genPos_inv h0
    unfold genPositions
    simp only [List.foldl_cons]
    exact genFold_inv ps _ (fun z hz => hall z (by simp [hz])) h1.1 h1.2

end DW.C17
