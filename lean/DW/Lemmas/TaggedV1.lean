/- Tag dispatch of the v1 engine at a Union annotation: helper lemmas shared by the C13 property theorems and the v1
structural round trip (`DW.RTV1`). -/
import DW.Model.LoadV1
import DW.Lemmas.Tagged

namespace DW.Tagged
open DW

/-- v1 dispatch depends on the tag alone: if exactly one member class answers to tag `tg` — wherever it stands in the Union,
whatever the other members' fields look like — the value is built by *that* class's function. -/
theorem v1Tagged_dispatch (std : Std) (cfg : Option MetaCfg) (tg : S) (pre post : List Ty)
    (ci : ClassInfo) (ftys : List (S × Ty)) (o : JVal)
    (hk : memberTag cfg ci = some tg)
    (hpre : ∀ t ∈ pre, tagOf cfg t ≠ some tg) (hpost : ∀ t ∈ post, tagOf cfg t ≠ some tg) :
    v1Tagged std cfg tg (pre ++ .cls ci ftys :: post) o
      = v1ClassWith (fun f v => v1Field std cfg f v ftys) (effMeta ci.cmeta cfg) ci o := by
  induction pre with
  | nil =>
    simp only [List.nil_append, v1Tagged]
    have : (post.any (tyHasTag cfg tg)) = false := by
      rw [List.any_eq_false]
      intro t' ht'
      have := hpost t' ht'
      cases t' <;> simp [tagOf, tyHasTag] at this ⊢
      exact this
    rw [this]
    simp [hk]
  | cons t r ih =>
    have hr : ∀ t ∈ r, tagOf cfg t ≠ some tg := fun t' ht' => hpre t' (by simp [ht'])
    have ht := hpre t (by simp)
    cases t <;> simp only [List.cons_append, v1Tagged] <;> try exact ih hr
    case cls ci' ftys' =>
      simp [tagOf] at ht
      simp [ht]
      exact ih hr

/-- dispatch at a Union annotation (v1): a dict whose tag key holds K's tag is loaded by K's own function -/
theorem v1_dispatch_core (std : Std) (cfg : Option MetaCfg) (tg : S) (pre post : List Ty)
    (ci : ClassInfo) (ftys : List (S × Ty)) (kvs : List (S × JVal))
    (hk : memberTag cfg ci = some tg)
    (hpre : ∀ t ∈ pre, tagOf cfg t ≠ some tg) (hpost : ∀ t ∈ post, tagOf cfg t ≠ some tg)
    (htag : kvs.find? (fun kv => kv.1 == (cfg.bind (·.tagKey)).getD Generated.tagKey.toList)
              = some ((cfg.bind (·.tagKey)).getD Generated.tagKey.toList, .str tg)) :
    loadV1 std cfg (.union (pre ++ .cls ci ftys :: post)) (.dict kvs)
      = v1ClassWith (fun f v => v1Field std cfg f v ftys) (effMeta ci.cmeta cfg) ci (.dict kvs) := by
  simp only [loadV1, JVal.kind]
  have hk' : (JKind.dict == JKind.null) = false := by decide
  simp only [hk', Bool.false_and, Bool.false_eq_true, ↓reduceIte]
  have htagged : v1AnyTagged cfg (pre ++ .cls ci ftys :: post) = true := by
    unfold v1AnyTagged
    apply List.any_eq_true.mpr
    exact ⟨.cls ci ftys, by simp, by simp [isTaggedMember, hk]⟩
  simp only [htagged, htag, ↓reduceIte, Option.map_some]
  exact v1Tagged_dispatch std cfg tg pre post ci ftys (.dict kvs) hk hpre hpost

end DW.Tagged
