/- helper lemmas for DW/Props/C19.lean -/
import DW.Model.C19Spec

namespace DW.Gs
open DW DW.Str

/-! ### fields -/

theorem fieldsLookup_set_same (k : S) (tc : TC) (fs : Fields) : fieldsLookup k (fieldsSet k tc fs) = some tc := by
  induction fs with
  | nil => simp [fieldsSet, fieldsLookup]
  | cons h r ih =>
    obtain ⟨k', tc'⟩ := h
    by_cases hk : k' = k
    · simp [fieldsSet, fieldsLookup, hk]
    · simp [fieldsSet, fieldsLookup, hk, ih]

theorem fieldsLookup_set_other (k k' : S) (tc : TC) (fs : Fields) (h : k' ≠ k) :
    fieldsLookup k' (fieldsSet k tc fs) = fieldsLookup k' fs := by
  induction fs with
  | nil => simp [fieldsSet, fieldsLookup, Ne.symm h]
  | cons hd r ih =>
    obtain ⟨k0, tc0⟩ := hd
    by_cases hk : k0 = k
    · subst hk
      simp [fieldsSet, fieldsLookup, Ne.symm h]
    · by_cases hk' : k0 = k'
      · subst hk'
        simp [fieldsSet, fieldsLookup, h]
      · simp [fieldsSet, fieldsLookup, hk, hk', ih]

theorem fieldsLookup_append_some (k : S) (t : TC) (fs x : Fields) (h : fieldsLookup k fs = some t) :
    fieldsLookup k (fs ++ x) = some t := by
  induction fs with
  | nil => simp [fieldsLookup] at h
  | cons hd r ih =>
    obtain ⟨k0, tc0⟩ := hd
    by_cases hk : k0 = k
    · simp [fieldsLookup, hk] at h ⊢; exact h
    · simp [fieldsLookup, hk] at h ⊢; exact ih h

theorem fieldsLookup_append_none (k : S) (fs x : Fields) (h : fieldsLookup k fs = none) :
    fieldsLookup k (fs ++ x) = fieldsLookup k x := by
  induction fs with
  | nil => simp
  | cons hd r ih =>
    obtain ⟨k0, tc0⟩ := hd
    by_cases hk : k0 = k
    · simp [fieldsLookup, hk] at h
    · simp [fieldsLookup, hk] at h ⊢; exact ih h

theorem fieldsLookup_set_of_none (k : S) (tc : TC) (fs : Fields) (h : fieldsLookup k fs = none) :
    fieldsSet k tc fs = fs ++ [(k, tc)] := by
  induction fs with
  | nil => simp [fieldsSet]
  | cons hd r ih =>
    obtain ⟨k0, tc0⟩ := hd
    by_cases hk : k0 = k
    · simp [fieldsLookup, hk] at h
    · simp [fieldsLookup, hk] at h; simp [fieldsSet, hk, ih h]

/-! ### extension orders: everything accommodated before is accommodated after -/

def TCExt (std : GsStd) (force : Bool) (a b : TC) : Prop := ∀ v, CoversV std force a v → CoversV std force b v

def FieldsExt (std : GsStd) (force : Bool) (a b : Fields) : Prop :=
  ∀ k tc, fieldsLookup k a = some tc → ∃ tc', fieldsLookup k b = some tc' ∧ TCExt std force tc tc'

def ElemsExt (std : GsStd) (force : Bool) (a b : List Elem) : Prop :=
  ∀ x, CoversElem std force a x → CoversElem std force b x

theorem TCExt.refl (std : GsStd) (force : Bool) (a : TC) : TCExt std force a a := fun _ h => h
theorem TCExt.trans {std : GsStd} {force : Bool} {a b c : TC} (h1 : TCExt std force a b) (h2 : TCExt std force b c) :
    TCExt std force a c := fun v h => h2 v (h1 v h)

theorem FieldsExt.refl (std : GsStd) (force : Bool) (a : Fields) : FieldsExt std force a a :=
  fun _ tc h => ⟨tc, h, TCExt.refl std force tc⟩
theorem FieldsExt.trans {std : GsStd} {force : Bool} {a b c : Fields} (h1 : FieldsExt std force a b)
    (h2 : FieldsExt std force b c) : FieldsExt std force a c := by
  intro k tc h
  obtain ⟨tc1, hl1, e1⟩ := h1 k tc h
  obtain ⟨tc2, hl2, e2⟩ := h2 k tc1 hl1
  exact ⟨tc2, hl2, e1.trans e2⟩

theorem ElemsExt.refl (std : GsStd) (force : Bool) (a : List Elem) : ElemsExt std force a a := fun _ h => h
theorem ElemsExt.trans {std : GsStd} {force : Bool} {a b c : List Elem} (h1 : ElemsExt std force a b)
    (h2 : ElemsExt std force b c) : ElemsExt std force a c := fun x h => h2 x (h1 x h)

theorem CoversObj_ext {std : GsStd} {force : Bool} {a b : Fields} (h : FieldsExt std force a b) :
    ∀ kvs, CoversObj std force a kvs → CoversObj std force b kvs
  | [], _ => by simp [CoversObj]
  | (k, v) :: r, hc => by
    simp only [CoversObj] at hc ⊢
    obtain ⟨⟨tc, hl, hv⟩, hr⟩ := hc
    obtain ⟨tc', hl', e⟩ := h _ tc hl
    exact ⟨⟨tc', hl', e v hv⟩, CoversObj_ext h r hr⟩

theorem CoversElems_ext {std : GsStd} {force : Bool} {a b : List Elem} (h : ElemsExt std force a b) :
    ∀ xs, CoversElems std force a xs → CoversElems std force b xs
  | [], _ => by simp [CoversElems]
  | x :: r, hc => by
    simp only [CoversElems] at hc ⊢
    exact ⟨h x hc.1, CoversElems_ext h r hc.2⟩

theorem ScalarCov_sub {std : GsStd} {force : Bool} {a b : List Elem} (h : ∀ p, Elem.prim p ∈ a → Elem.prim p ∈ b)
    (v : JVal) (hc : ScalarCov std force a v) : ScalarCov std force b v :=
  fun ps hps p hp => h p (hc ps hps p hp)

/-- a container that keeps every element and the flag accommodates at least as much -/
theorem TCExt_of_sub {std : GsStd} {force : Bool} {a b : TC} (hs : ∀ e, e ∈ a.1 → e ∈ b.1) (ho : a.2 = true → b.2 = true) :
    TCExt std force a b := by
  intro v hv
  cases v with
  | null => simp only [CoversV] at hv ⊢; exact ho hv
  | dict kvs =>
    simp only [CoversV] at hv ⊢
    obtain ⟨d, hd, hc⟩ := hv
    exact ⟨d, hs _ hd, hc⟩
  | list xs =>
    simp only [CoversV] at hv ⊢
    obtain ⟨l, hl, hc⟩ := hv
    exact ⟨l, hs _ hl, hc⟩
  | bool b => simp only [CoversV] at hv ⊢; exact ScalarCov_sub (fun p => hs _) _ hv
  | int i => simp only [CoversV] at hv ⊢; exact ScalarCov_sub (fun p => hs _) _ hv
  | float f => simp only [CoversV] at hv ⊢; exact ScalarCov_sub (fun p => hs _) _ hv
  | str s => simp only [CoversV] at hv ⊢; exact ScalarCov_sub (fun p => hs _) _ hv

/-- same for the parsed types of a list generator, whose model is its first class element -/
theorem ElemsExt_of_sub {std : GsStd} {force : Bool} {a b : List Elem} (hs : ∀ e, e ∈ a → e ∈ b)
    (hm : ∀ m, firstCls a = some m → firstCls b = some m) : ElemsExt std force a b := by
  intro x hx
  cases x with
  | null => simp [CoversElem]
  | dict kvs =>
    simp only [CoversElem] at hx ⊢
    obtain ⟨m, hm', hc⟩ := hx
    exact ⟨m, hm m hm', hc⟩
  | list ys =>
    simp only [CoversElem] at hx ⊢
    obtain ⟨l, hl, hc⟩ := hx
    exact ⟨l, hs _ hl, hc⟩
  | bool b => simp only [CoversElem] at hx ⊢; exact ScalarCov_sub (fun p => hs _) _ hx
  | int i => simp only [CoversElem] at hx ⊢; exact ScalarCov_sub (fun p => hs _) _ hx
  | float f => simp only [CoversElem] at hx ⊢; exact ScalarCov_sub (fun p => hs _) _ hx
  | str s => simp only [CoversElem] at hx ⊢; exact ScalarCov_sub (fun p => hs _) _ hx

/-! ### `TypeContainer.append` -/

theorem tcAppend_sub (dedup : Bool) (tc : TC) (e e' : Elem) (h : e' ∈ tc.1) : e' ∈ (tcAppend dedup tc e).1 := by
  unfold tcAppend
  split
  · exact h
  · simp [h]

theorem tcAppend_opt (dedup : Bool) (tc : TC) (e : Elem) : (tcAppend dedup tc e).2 = tc.2 := by
  unfold tcAppend
  split <;> rfl

theorem elemEq_prim (dedup : Bool) (x : Elem) (p : Prim) (h : elemEq dedup x (.prim p) = true) : x = .prim p := by
  cases x with
  | prim q => simp [elemEq] at h; rw [h]
  | cls d => simp [elemEq] at h
  | lst l => simp [elemEq] at h

theorem tcAppend_prim_mem (dedup : Bool) (tc : TC) (p : Prim) : Elem.prim p ∈ (tcAppend dedup tc (.prim p)).1 := by
  unfold tcAppend
  split
  · rename_i h
    simp only [elemIn, List.any_eq_true] at h
    obtain ⟨x, hx, he⟩ := h
    rw [← elemEq_prim dedup x p he]; exact hx
  · simp

theorem elemIn_false_cls (es : List Elem) (d : DGen) : elemIn false (.cls d) es = false := by
  simp only [elemIn, List.any_eq_false]
  intro x _
  cases x <;> simp [elemEq]

theorem elemIn_false_lst (es : List Elem) (l : LGen) : elemIn false (.lst l) es = false := by
  simp only [elemIn, List.any_eq_false]
  intro x _
  cases x <;> simp [elemEq]

theorem tcAppend_false_cls (tc : TC) (d : DGen) : tcAppend false tc (.cls d) = (tc.1 ++ [.cls d], tc.2) := by
  simp [tcAppend, elemIn_false_cls]

theorem tcAppend_false_lst (tc : TC) (l : LGen) : tcAppend false tc (.lst l) = (tc.1 ++ [.lst l], tc.2) := by
  simp [tcAppend, elemIn_false_lst]

/-- without structural de-duplication nothing that is appended is lost -/
theorem tcAppend_false_mem (tc : TC) (e : Elem) : e ∈ (tcAppend false tc e).1 := by
  cases e with
  | prim p => exact tcAppend_prim_mem false tc p
  | cls d => simp [tcAppend_false_cls]
  | lst l => simp [tcAppend_false_lst]

theorem tcAppendAll_sub (dedup : Bool) : ∀ (es : List Elem) (tc : TC) (e' : Elem), e' ∈ tc.1 → e' ∈ (tcAppendAll dedup tc es).1
  | [], _, _, h => by simpa [tcAppendAll] using h
  | e :: r, tc, e', h => by
    simp only [tcAppendAll]
    exact tcAppendAll_sub dedup r _ e' (tcAppend_sub dedup tc e e' h)

theorem tcAppendAll_opt (dedup : Bool) : ∀ (es : List Elem) (tc : TC), (tcAppendAll dedup tc es).2 = tc.2
  | [], _ => by simp [tcAppendAll]
  | e :: r, tc => by
    simp only [tcAppendAll]
    rw [tcAppendAll_opt dedup r, tcAppend_opt]

theorem tcAppendAll_false_mem : ∀ (es : List Elem) (tc : TC) (e : Elem), e ∈ es → e ∈ (tcAppendAll false tc es).1
  | [], _, _, h => by simp at h
  | e0 :: r, tc, e, h => by
    simp only [tcAppendAll]
    rcases List.mem_cons.mp h with h | h
    · subst h
      exact tcAppendAll_sub false r _ _ (tcAppend_false_mem tc _)
    · exact tcAppendAll_false_mem r _ e h

theorem tcAppendAll_prims_mem (dedup : Bool) : ∀ (ps : List Prim) (tc : TC) (p : Prim), p ∈ ps →
    Elem.prim p ∈ (tcAppendAll dedup tc (ps.map .prim)).1
  | [], _, _, h => by simp at h
  | p0 :: r, tc, p, h => by
    simp only [List.map, tcAppendAll]
    rcases List.mem_cons.mp h with h | h
    · subst h
      exact tcAppendAll_sub dedup _ _ _ (tcAppend_prim_mem dedup tc _)
    · exact tcAppendAll_prims_mem dedup r _ p h

/-! ### the model of a list generator -/

theorem firstCls_append (a b : List Elem) :
    firstCls (a ++ b) = match firstCls a with | some m => some m | none => firstCls b := by
  induction a with
  | nil => simp [firstCls]
  | cons e r ih => cases e <;> simp [firstCls, ih]

theorem firstCls_replace (d : DGen) (es : List Elem) (m : DGen) (h : firstCls es = some m) :
    firstCls (replaceFirstCls d es) = some d := by
  induction es with
  | nil => simp [firstCls] at h
  | cons e r ih =>
    cases e with
    | cls c => simp [replaceFirstCls, firstCls]
    | prim p => simp only [firstCls] at h; simp [replaceFirstCls, firstCls, ih h]
    | lst l => simp only [firstCls] at h; simp [replaceFirstCls, firstCls, ih h]

theorem replaceFirstCls_prim (d : DGen) (es : List Elem) (p : Prim) (h : Elem.prim p ∈ es) :
    Elem.prim p ∈ replaceFirstCls d es := by
  induction es with
  | nil => simp at h
  | cons e r ih =>
    cases e with
    | cls c =>
      simp only [replaceFirstCls]
      rcases List.mem_cons.mp h with h | h
      · cases h
      · exact List.mem_cons_of_mem _ h
    | prim q =>
      simp only [replaceFirstCls]
      rcases List.mem_cons.mp h with h | h
      · rw [h]; exact List.mem_cons_self
      · exact List.mem_cons_of_mem _ (ih h)
    | lst l =>
      simp only [replaceFirstCls]
      rcases List.mem_cons.mp h with h | h
      · cases h
      · exact List.mem_cons_of_mem _ (ih h)

theorem replaceFirstCls_lst (d : DGen) (es : List Elem) (l : LGen) (h : Elem.lst l ∈ es) :
    Elem.lst l ∈ replaceFirstCls d es := by
  induction es with
  | nil => simp at h
  | cons e r ih =>
    cases e with
    | cls c =>
      simp only [replaceFirstCls]
      rcases List.mem_cons.mp h with h | h
      · cases h
      · exact List.mem_cons_of_mem _ h
    | prim q =>
      simp only [replaceFirstCls]
      rcases List.mem_cons.mp h with h | h
      · cases h
      · exact List.mem_cons_of_mem _ (ih h)
    | lst l' =>
      simp only [replaceFirstCls]
      rcases List.mem_cons.mp h with h | h
      · rw [h]; exact List.mem_cons_self
      · exact List.mem_cons_of_mem _ (ih h)

theorem soleCls_some {es : List Elem} {a : DGen} (h : soleCls es = some a) : es = [.cls a] := by
  unfold soleCls at h
  split at h
  · cases h; rfl
  · cases h

theorem soleLst_some {es : List Elem} {a : LGen} (h : soleLst es = some a) : es = [.lst a] := by
  unfold soleLst at h
  split at h
  · cases h; rfl
  · cases h

/-- replacing the model by a class that accommodates at least as much -/
theorem ElemsExt_replace {std : GsStd} {force : Bool} (es : List Elem) (m d : DGen) (hm : firstCls es = some m)
    (hd : FieldsExt std force m.fields d.fields) : ElemsExt std force es (replaceFirstCls d es) := by
  intro x hx
  cases x with
  | null => simp [CoversElem]
  | dict kvs =>
    simp only [CoversElem] at hx ⊢
    obtain ⟨m', hm', hc⟩ := hx
    rw [hm] at hm'; cases hm'
    exact ⟨d, firstCls_replace d es m hm, CoversObj_ext hd kvs hc⟩
  | list ys =>
    simp only [CoversElem] at hx ⊢
    obtain ⟨l, hl, hc⟩ := hx
    exact ⟨l, replaceFirstCls_lst d es l hl, hc⟩
  | bool b => simp only [CoversElem] at hx ⊢; exact ScalarCov_sub (replaceFirstCls_prim d es) _ hx
  | int i => simp only [CoversElem] at hx ⊢; exact ScalarCov_sub (replaceFirstCls_prim d es) _ hx
  | float f => simp only [CoversElem] at hx ⊢; exact ScalarCov_sub (replaceFirstCls_prim d es) _ hx
  | str s => simp only [CoversElem] at hx ⊢; exact ScalarCov_sub (replaceFirstCls_prim d es) _ hx

/-- appending to the parsed types of a list generator keeps what was accommodated -/
theorem ElemsExt_tcAppend {std : GsStd} {force : Bool} (dedup : Bool) (es : List Elem) (o : Bool) (e : Elem) :
    ElemsExt std force es (tcAppend dedup (es, o) e).1 := by
  apply ElemsExt_of_sub
  · intro e' h; exact tcAppend_sub dedup (es, o) e e' h
  · intro m hm
    unfold tcAppend
    split
    · exact hm
    · simp [firstCls_append, hm]

/-! ### merges keep what the left operand accommodated (whatever the de-duplication mode) -/

theorem TCExt_orOpt (std : GsStd) (force : Bool) (s : TC) (o : Bool) : TCExt std force s (s.1, s.2 || o) :=
  TCExt_of_sub (fun _ h => h) (fun h => by simp [h])

theorem TCExt_sole_cls {std : GsStd} {force : Bool} (s : TC) (a d : DGen) (hs : s.1 = [.cls a])
    (hd : FieldsExt std force a.fields d.fields) : TCExt std force s ([.cls d], s.2) := by
  intro v hv
  cases v with
  | null => simpa [CoversV] using hv
  | dict kvs =>
    simp only [CoversV, hs] at hv ⊢
    obtain ⟨d0, hd0, hc⟩ := hv
    simp at hd0; subst hd0
    exact ⟨d, by simp, CoversObj_ext hd kvs hc⟩
  | list xs =>
    simp only [CoversV, hs] at hv
    obtain ⟨l, hl, _⟩ := hv
    simp at hl
  | bool b => simp only [CoversV, hs] at hv ⊢; intro ps hps p hp; have := hv ps hps p hp; simp at this
  | int i => simp only [CoversV, hs] at hv ⊢; intro ps hps p hp; have := hv ps hps p hp; simp at this
  | float f => simp only [CoversV, hs] at hv ⊢; intro ps hps p hp; have := hv ps hps p hp; simp at this
  | str x => simp only [CoversV, hs] at hv ⊢; intro ps hps p hp; have := hv ps hps p hp; simp at this

theorem TCExt_sole_lst {std : GsStd} {force : Bool} (s : TC) (a l : LGen) (hs : s.1 = [.lst a])
    (hl : ElemsExt std force a.elems l.elems) : TCExt std force s ([.lst l], s.2) := by
  intro v hv
  cases v with
  | null => simpa [CoversV] using hv
  | dict kvs =>
    simp only [CoversV, hs] at hv
    obtain ⟨d, hd, _⟩ := hv
    simp at hd
  | list xs =>
    simp only [CoversV, hs] at hv ⊢
    obtain ⟨l0, hl0, hc⟩ := hv
    simp at hl0; subst hl0
    exact ⟨l, by simp, CoversElems_ext hl xs hc⟩
  | bool b => simp only [CoversV, hs] at hv ⊢; intro ps hps p hp; have := hv ps hps p hp; simp at this
  | int i => simp only [CoversV, hs] at hv ⊢; intro ps hps p hp; have := hv ps hps p hp; simp at this
  | float f => simp only [CoversV, hs] at hv ⊢; intro ps hps p hp; have := hv ps hps p hp; simp at this
  | str x => simp only [CoversV, hs] at hv ⊢; intro ps hps p hp; have := hv ps hps p hp; simp at this

theorem TCExt_tcAppend (std : GsStd) (force : Bool) (dedup : Bool) (s : TC) (e : Elem) :
    TCExt std force s (tcAppend dedup s e) :=
  TCExt_of_sub (fun e' h => tcAppend_sub dedup s e e' h) (fun h => by rw [tcAppend_opt]; exact h)

theorem TCExt_tcAppendAll (std : GsStd) (force : Bool) (dedup : Bool) (s : TC) (es : List Elem) :
    TCExt std force s (tcAppendAll dedup s es) :=
  TCExt_of_sub (fun e' h => tcAppendAll_sub dedup es s e' h) (fun h => by rw [tcAppendAll_opt]; exact h)

/-- replacing one field's container by one that accommodates at least as much -/
theorem FieldsExt_set {std : GsStd} {force : Bool} (k : S) (tc tc' : TC) (fs : Fields) (hl : fieldsLookup k fs = some tc)
    (he : TCExt std force tc tc') : FieldsExt std force fs (fieldsSet k tc' fs) := by
  intro k0 t0 h0
  by_cases hk : k0 = k
  · subst hk
    rw [hl] at h0; cases h0
    exact ⟨tc', fieldsLookup_set_same _ _ _, he⟩
  · exact ⟨t0, by rw [fieldsLookup_set_other _ _ _ _ hk]; exact h0, TCExt.refl _ _ _⟩

theorem FieldsExt_append {std : GsStd} {force : Bool} (fs x : Fields) : FieldsExt std force fs (fs ++ x) :=
  fun k tc h => ⟨tc, fieldsLookup_append_some k tc fs x h, TCExt.refl _ _ _⟩

mutual
theorem mergeTC_left (std : GsStd) (force dedup : Bool) :
    ∀ (oes : List Elem) (oopt : Bool) (s : TC), TCExt std force s (mergeTC dedup s oes oopt)
  | [], oopt, s => by rw [mergeTC]; exact TCExt_orOpt std force s oopt
  | [e], oopt, s => by
    rw [mergeTC]
    exact (TCExt_orOpt std force s oopt).trans (mergeOne_left std force dedup e _)
  | e :: e' :: r, oopt, s => by
    rw [mergeTC]
    exact (TCExt_orOpt std force s oopt).trans (TCExt_tcAppendAll std force dedup _ _)
theorem mergeOne_left (std : GsStd) (force dedup : Bool) :
    ∀ (e : Elem) (s : TC), TCExt std force s (mergeOne dedup s e)
  | .prim p, s => by rw [mergeOne]; exact TCExt_tcAppend std force dedup s _
  | .cls b, s => by
    rw [mergeOne]
    split
    · rename_i a ha
      exact TCExt_sole_cls s a _ (soleCls_some ha) (mergeD_left std force dedup b a)
    · exact TCExt_tcAppend std force dedup s _
  | .lst b, s => by
    rw [mergeOne]
    split
    · rename_i a ha
      exact TCExt_sole_lst s a _ (soleLst_some ha) (mergeL_left std force dedup b a)
    · exact TCExt_tcAppend std force dedup s _
theorem mergeD_left (std : GsStd) (force dedup : Bool) :
    ∀ (b a : DGen), FieldsExt std force a.fields (mergeD dedup a b).fields
  | .mk _ _ bfs, a => by
    rw [mergeD]
    exact mergeFields_left std force dedup bfs a.fields
theorem mergeFields_left (std : GsStd) (force dedup : Bool) :
    ∀ (bfs : List (S × List Elem × Bool)) (afs : Fields), FieldsExt std force afs (mergeFields dedup afs bfs)
  | [], afs => by rw [mergeFields]; exact FieldsExt.refl _ _ _
  | (k, oes, oopt) :: rest, afs => by
    rw [mergeFields]
    refine FieldsExt.trans ?_ (mergeFields_left std force dedup rest _)
    cases hl : fieldsLookup k afs with
    | none => exact FieldsExt_append afs _
    | some tc => exact FieldsExt_set k tc _ afs hl (mergeTC_left std force dedup oes oopt tc)
theorem mergeL_left (std : GsStd) (force dedup : Bool) :
    ∀ (b a : LGen), ElemsExt std force a.elems (mergeL dedup a b).elems
  | .mk _ _ _ bes _, a => by
    rw [mergeL]
    exact mergeLElems_left std force dedup bes a.elems
theorem mergeLElems_left (std : GsStd) (force dedup : Bool) :
    ∀ (bes aes : List Elem), ElemsExt std force aes (mergeLElems dedup aes bes)
  | [], aes => by rw [mergeLElems]; exact ElemsExt.refl _ _ _
  | t :: rest, aes => by
    rw [mergeLElems]
    exact (mergeLStep_left std force dedup t aes).trans (mergeLElems_left std force dedup rest _)
theorem mergeLStep_left (std : GsStd) (force dedup : Bool) :
    ∀ (e : Elem) (aes : List Elem), ElemsExt std force aes (mergeLStep dedup aes e)
  | .cls b, aes => by
    rw [mergeLStep]
    split
    · rename_i m hm
      exact ElemsExt_replace aes m _ hm (mergeD_left std force dedup b m)
    · exact ElemsExt_tcAppend dedup aes false _
  | .lst l, aes => by rw [mergeLStep]; exact ElemsExt_tcAppend dedup aes false _
  | .prim p, aes => by rw [mergeLStep]; exact ElemsExt_tcAppend dedup aes false _
end

/-! ### with identity comparison in `append`, merges also keep what the right operand accommodated -/

theorem mergeLStep_prim_left (dedup : Bool) (e : Elem) (aes : List Elem) (p : Prim) (h : Elem.prim p ∈ aes) :
    Elem.prim p ∈ mergeLStep dedup aes e := by
  cases e with
  | cls b =>
    rw [mergeLStep]
    split
    · exact replaceFirstCls_prim _ _ _ h
    · exact tcAppend_sub dedup (aes, false) _ _ h
  | lst l => rw [mergeLStep]; exact tcAppend_sub dedup (aes, false) _ _ h
  | prim q => rw [mergeLStep]; exact tcAppend_sub dedup (aes, false) _ _ h

theorem mergeLElems_prim_left (dedup : Bool) : ∀ (bes aes : List Elem) (p : Prim), Elem.prim p ∈ aes →
    Elem.prim p ∈ mergeLElems dedup aes bes
  | [], aes, p, h => by rw [mergeLElems]; exact h
  | t :: rest, aes, p, h => by
    rw [mergeLElems]
    exact mergeLElems_prim_left dedup rest _ p (mergeLStep_prim_left dedup t aes p h)

theorem mergeLElems_prim_right (dedup : Bool) : ∀ (bes aes : List Elem) (p : Prim), Elem.prim p ∈ bes →
    Elem.prim p ∈ mergeLElems dedup aes bes
  | [], _, _, h => by simp at h
  | t :: rest, aes, p, h => by
    rw [mergeLElems]
    rcases List.mem_cons.mp h with h | h
    · subst h
      apply mergeLElems_prim_left
      rw [mergeLStep]
      exact tcAppend_prim_mem dedup (aes, false) p
    · exact mergeLElems_prim_right dedup rest _ p h

theorem TCExt_optMono (std : GsStd) (force : Bool) (es : List Elem) (o o' : Bool) (h : o = true → o' = true) :
    TCExt std force (es, o) (es, o') := TCExt_of_sub (fun _ h => h) h

mutual
theorem mergeTC_right (std : GsStd) (force : Bool) :
    ∀ (oes : List Elem) (oopt : Bool) (s : TC), TCExt std force (oes, oopt) (mergeTC false s oes oopt)
  | [], oopt, s => by
    rw [mergeTC]
    exact TCExt_of_sub (fun _ h => by simp at h) (fun h => by simp at h; simp [h])
  | [e], oopt, s => by
    rw [mergeTC]
    exact mergeOne_right std force e (s.1, s.2 || oopt) oopt (fun h => by simp [h])
  | e :: e' :: r, oopt, s => by
    rw [mergeTC]
    refine TCExt_of_sub (fun x h => tcAppendAll_false_mem _ _ x h) (fun h => ?_)
    rw [tcAppendAll_opt]
    simp at h
    simp [h]
theorem mergeOne_right (std : GsStd) (force : Bool) :
    ∀ (e : Elem) (s : TC) (o : Bool), (o = true → s.2 = true) → TCExt std force ([e], o) (mergeOne false s e)
  | .prim p, s, o, ho => by
    rw [mergeOne]
    refine TCExt_of_sub (fun x h => ?_) (fun h => by rw [tcAppend_opt]; exact ho h)
    simp at h; subst h
    exact tcAppend_prim_mem false s p
  | .cls b, s, o, ho => by
    rw [mergeOne]
    split
    · rename_i a ha
      exact (TCExt_sole_cls ([Elem.cls b], o) b (mergeD false a b) rfl (mergeD_right std force b a)).trans
        (TCExt_optMono std force _ _ _ ho)
    · rw [tcAppend_false_cls]
      exact TCExt_of_sub (fun x h => by simp at h; subst h; simp) ho
  | .lst b, s, o, ho => by
    rw [mergeOne]
    split
    · rename_i a ha
      exact (TCExt_sole_lst ([Elem.lst b], o) b (mergeL false a b) rfl (mergeL_right std force b a)).trans
        (TCExt_optMono std force _ _ _ ho)
    · rw [tcAppend_false_lst]
      exact TCExt_of_sub (fun x h => by simp at h; subst h; simp) ho
theorem mergeD_right (std : GsStd) (force : Bool) :
    ∀ (b a : DGen), FieldsExt std force b.fields (mergeD false a b).fields
  | .mk _ _ bfs, a => by
    rw [mergeD]
    exact mergeFields_right std force bfs a.fields
theorem mergeFields_right (std : GsStd) (force : Bool) :
    ∀ (bfs : List (S × List Elem × Bool)) (afs : Fields), FieldsExt std force bfs (mergeFields false afs bfs)
  | [], afs => by intro k tc h; simp [fieldsLookup] at h
  | (k, oes, oopt) :: rest, afs => by
    rw [mergeFields]
    intro k0 t0 h0
    by_cases hk : k = k0
    · subst hk
      simp [fieldsLookup] at h0
      subst h0
      have hstep : ∃ tc1, fieldsLookup k (match fieldsLookup k afs with
            | some tc => fieldsSet k (mergeTC false tc oes oopt) afs
            | none => afs ++ [(k, (oes, oopt))]) = some tc1 ∧ TCExt std force (oes, oopt) tc1 := by
        cases hl : fieldsLookup k afs with
        | none =>
          refine ⟨(oes, oopt), ?_, TCExt.refl _ _ _⟩
          simp only
          rw [fieldsLookup_append_none k afs _ hl]
          simp [fieldsLookup]
        | some tc =>
          exact ⟨_, fieldsLookup_set_same _ _ _, mergeTC_right std force oes oopt tc⟩
      obtain ⟨tc1, hl1, e1⟩ := hstep
      obtain ⟨tc2, hl2, e2⟩ := mergeFields_left std force false rest _ k tc1 hl1
      exact ⟨tc2, hl2, e1.trans e2⟩
    · simp [fieldsLookup, hk] at h0
      exact mergeFields_right std force rest _ k0 t0 h0
theorem mergeL_right (std : GsStd) (force : Bool) :
    ∀ (b a : LGen), ElemsExt std force b.elems (mergeL false a b).elems
  | .mk _ _ _ bes _, a => by
    rw [mergeL]
    exact mergeLElems_right std force bes a.elems
theorem mergeLElems_right (std : GsStd) (force : Bool) :
    ∀ (bes aes : List Elem), ElemsExt std force bes (mergeLElems false aes bes)
  | [], aes => by
    intro x hx
    cases x with
    | null => simp [CoversElem]
    | dict kvs => simp [CoversElem, firstCls] at hx
    | list ys => simp [CoversElem] at hx
    | bool b => simp only [CoversElem] at hx ⊢; intro ps hps p hp; have := hx ps hps p hp; simp at this
    | int i => simp only [CoversElem] at hx ⊢; intro ps hps p hp; have := hx ps hps p hp; simp at this
    | float f => simp only [CoversElem] at hx ⊢; intro ps hps p hp; have := hx ps hps p hp; simp at this
    | str s => simp only [CoversElem] at hx ⊢; intro ps hps p hp; have := hx ps hps p hp; simp at this
  | t :: rest, aes => by
    rw [mergeLElems]
    intro x hx
    cases x with
    | null => simp [CoversElem]
    | dict kvs =>
      cases t with
      | cls b =>
        simp only [CoversElem, firstCls] at hx
        obtain ⟨m, hm, hc⟩ := hx
        cases hm
        exact mergeLElems_left std force false rest _ _ (mergeLStep_right std force (.cls b) aes kvs b rfl hc)
      | prim p =>
        have : CoversElem std force rest (.dict kvs) := by simpa [CoversElem, firstCls] using hx
        exact mergeLElems_right std force rest _ _ this
      | lst l =>
        have : CoversElem std force rest (.dict kvs) := by simpa [CoversElem, firstCls] using hx
        exact mergeLElems_right std force rest _ _ this
    | list ys =>
      simp only [CoversElem] at hx
      obtain ⟨l, hl, hc⟩ := hx
      rcases List.mem_cons.mp hl with h | h
      · subst h
        apply mergeLElems_left std force false rest _ _
        simp only [CoversElem]
        refine ⟨l, ?_, hc⟩
        rw [mergeLStep, tcAppend_false_lst]
        simp
      · exact mergeLElems_right std force rest _ _ (by simp only [CoversElem]; exact ⟨l, h, hc⟩)
    | bool b =>
      simp only [CoversElem] at hx ⊢
      exact ScalarCov_sub (fun p h => by rw [← mergeLElems]; exact mergeLElems_prim_right false _ aes p h) _ hx
    | int i =>
      simp only [CoversElem] at hx ⊢
      exact ScalarCov_sub (fun p h => by rw [← mergeLElems]; exact mergeLElems_prim_right false _ aes p h) _ hx
    | float f =>
      simp only [CoversElem] at hx ⊢
      exact ScalarCov_sub (fun p h => by rw [← mergeLElems]; exact mergeLElems_prim_right false _ aes p h) _ hx
    | str s =>
      simp only [CoversElem] at hx ⊢
      exact ScalarCov_sub (fun p h => by rw [← mergeLElems]; exact mergeLElems_prim_right false _ aes p h) _ hx
/-- the step for a class element: the element's objects are accommodated by the new model -/
theorem mergeLStep_right (std : GsStd) (force : Bool) :
    ∀ (e : Elem) (aes : List Elem) (kvs : List (S × JVal)) (b : DGen), e = .cls b → CoversObj std force b.fields kvs →
      CoversElem std force (mergeLStep false aes e) (.dict kvs)
  | .cls b0, aes, kvs, b, he, hc => by
    cases he
    rw [mergeLStep]
    simp only [CoversElem]
    split
    · rename_i m hm
      exact ⟨_, firstCls_replace _ aes m hm, CoversObj_ext (mergeD_right std force b0 m) kvs hc⟩
    · rename_i hm
      refine ⟨b0, ?_, hc⟩
      rw [tcAppend_false_cls]
      simp [firstCls_append, hm, firstCls]
  | .prim _, _, _, _, he, _ => by cases he
  | .lst _, _, _, _, he, _ => by cases he
end

/-! ### inference accommodates the document it reads (identity comparison in `append`) -/

theorem ElemsExt_tcAppendAll {std : GsStd} {force : Bool} (dedup : Bool) : ∀ (xs : List Elem) (tc : TC),
    ElemsExt std force tc.1 (tcAppendAll dedup tc xs).1
  | [], tc => by rw [tcAppendAll]; exact ElemsExt.refl _ _ _
  | e :: r, tc => by
    rw [tcAppendAll]
    exact (ElemsExt_tcAppend dedup tc.1 tc.2 e).trans (ElemsExt_tcAppendAll dedup r _)

theorem TCExt_tcAppendScalar (std : GsStd) (force : Bool) (tc : TC) (sp : Option (List Prim)) :
    TCExt std force tc (tcAppendScalar tc sp) := by
  cases sp with
  | none => exact TCExt_of_sub (fun _ h => h) (fun _ => rfl)
  | some ps => exact TCExt_tcAppendAll std force true tc _

theorem ElemsExt_tcAppendScalar (std : GsStd) (force : Bool) (tc : TC) (sp : Option (List Prim)) :
    ElemsExt std force tc.1 (tcAppendScalar tc sp).1 := by
  cases sp with
  | none => exact ElemsExt.refl _ _ _
  | some ps => exact ElemsExt_tcAppendAll true _ tc

theorem ScalarCov_tcAppendScalar (std : GsStd) (force : Bool) (tc : TC) (v : JVal) :
    ScalarCov std force (tcAppendScalar tc (scalarPrims std force v)).1 v := by
  intro ps hps p hp
  rw [hps]
  exact tcAppendAll_prims_mem true ps tc p hp

theorem CoversV_tcAppendScalar (std : GsStd) (force : Bool) (tc : TC) (v : JVal)
    (hv : match v with | .dict _ => False | .list _ => False | _ => True) :
    CoversV std force (tcAppendScalar tc (scalarPrims std force v)) v := by
  cases v with
  | null => simp [CoversV, scalarPrims, tcAppendScalar]
  | dict kvs => exact hv.elim
  | list xs => exact hv.elim
  | bool b => simp only [CoversV]; exact ScalarCov_tcAppendScalar std force tc _
  | int i => simp only [CoversV]; exact ScalarCov_tcAppendScalar std force tc _
  | float f => simp only [CoversV]; exact ScalarCov_tcAppendScalar std force tc _
  | str s => simp only [CoversV]; exact ScalarCov_tcAppendScalar std force tc _

theorem CoversElem_tcAppendScalar (std : GsStd) (force : Bool) (tc : TC) (v : JVal)
    (hv : match v with | .dict _ => False | .list _ => False | _ => True) :
    CoversElem std force (tcAppendScalar tc (scalarPrims std force v)).1 v := by
  cases v with
  | null => simp [CoversElem]
  | dict kvs => exact hv.elim
  | list xs => exact hv.elim
  | bool b => simp only [CoversElem]; exact ScalarCov_tcAppendScalar std force tc _
  | int i => simp only [CoversElem]; exact ScalarCov_tcAppendScalar std force tc _
  | float f => simp only [CoversElem]; exact ScalarCov_tcAppendScalar std force tc _
  | str s => simp only [CoversElem]; exact ScalarCov_tcAppendScalar std force tc _

theorem fieldsLookup_update (k : S) (f : TC → TC) (fs : Fields) :
    fieldsLookup k (fieldsUpdate k f fs) = some (f ((fieldsLookup k fs).getD ([], false))) :=
  fieldsLookup_set_same _ _ _

theorem FieldsExt_update {std : GsStd} {force : Bool} (k : S) (f : TC → TC) (fs : Fields)
    (hf : ∀ tc, TCExt std force tc (f tc)) : FieldsExt std force fs (fieldsUpdate k f fs) := by
  unfold fieldsUpdate
  cases hl : fieldsLookup k fs with
  | none =>
    rw [fieldsLookup_set_of_none k _ fs hl]
    exact FieldsExt_append fs _
  | some tc => exact FieldsExt_set k tc _ fs hl (hf tc)

theorem inferFields_step {std : GsStd} {force : Bool} (acc acc' res : Fields) (k : S) (v : JVal) (rest : List (S × JVal))
    (h0 : FieldsExt std force acc acc')
    (h1 : ∃ tc, fieldsLookup (toSnake k) acc' = some tc ∧ CoversV std force tc v)
    (hrest : FieldsExt std force acc' res ∧ CoversObj std force res rest) :
    FieldsExt std force acc res ∧ CoversObj std force res ((k, v) :: rest) := by
  obtain ⟨hext, hcov⟩ := hrest
  refine ⟨h0.trans hext, ?_⟩
  simp only [CoversObj]
  obtain ⟨tc, hl, hv⟩ := h1
  obtain ⟨tc', hl', e⟩ := hext _ tc hl
  exact ⟨⟨tc', hl', e v hv⟩, hcov⟩

theorem inferFields_scalar_step (std : GsStd) (fl : Flags) (acc res : Fields) (k : S) (v : JVal) (rest : List (S × JVal))
    (hv : match v with | .dict _ => False | .list _ => False | _ => True)
    (hrest : FieldsExt std fl.forceStrings (fieldScalar std fl k v acc) res ∧ CoversObj std fl.forceStrings res rest) :
    FieldsExt std fl.forceStrings acc res ∧ CoversObj std fl.forceStrings res ((k, v) :: rest) := by
  apply inferFields_step acc _ res k v rest _ _ hrest
  · exact FieldsExt_update _ _ _ (fun tc => TCExt_tcAppendScalar std _ tc _)
  · exact ⟨_, fieldsLookup_update _ _ _, CoversV_tcAppendScalar std _ _ v hv⟩

mutual
theorem inferFields_covers (std : GsStd) (fl : Flags) (hd : fl.dedupByEq = false) :
    ∀ (kvs : List (S × JVal)) (lvl : Nat) (acc : Fields),
      FieldsExt std fl.forceStrings acc (inferFields std fl lvl kvs acc) ∧
      CoversObj std fl.forceStrings (inferFields std fl lvl kvs acc) kvs
  | [], lvl, acc => by
    rw [inferFields]
    exact ⟨FieldsExt.refl _ _ _, by simp [CoversObj]⟩
  | (k, v) :: rest, lvl, acc => by
    cases v with
    | dict kvs' =>
      simp only [inferFields, hd]
      apply inferFields_step acc _ _ k _ rest _ _ (inferFields_covers std fl hd rest lvl _)
      · exact FieldsExt_update _ _ _ (fun tc => TCExt_tcAppend std _ false tc _)
      · refine ⟨_, fieldsLookup_update _ _ _, ?_⟩
        simp only [CoversV]
        refine ⟨.mk (pascal k) false (inferFields std fl lvl kvs' []), ?_, ?_⟩
        · rw [tcAppend_false_cls]; simp
        · exact (inferFields_covers std fl hd kvs' lvl []).2
    | list xs =>
      simp only [inferFields, hd]
      apply inferFields_step acc _ _ k _ rest _ _ (inferFields_covers std fl hd rest (lvl + 1) _)
      · exact FieldsExt_update _ _ _ (fun tc => TCExt_tcAppend std _ false tc _)
      · refine ⟨_, fieldsLookup_update _ _ _, ?_⟩
        simp only [CoversV]
        refine ⟨.mk xs k (lgName std (some k) (lvl + 1))
            (inferElems std fl (lgName std (some k) (lvl + 1)) false (lvl + 1) xs ([], false)).1
            (inferElems std fl (lgName std (some k) (lvl + 1)) false (lvl + 1) xs ([], false)).2, ?_, ?_⟩
        · rw [tcAppend_false_lst]; simp
        · exact (inferElems_covers std fl hd xs _ false (lvl + 1) ([], false)).2
    | null =>
      simp only [inferFields]
      exact inferFields_scalar_step std fl acc _ k _ rest trivial (inferFields_covers std fl hd rest lvl _)
    | bool b =>
      simp only [inferFields]
      exact inferFields_scalar_step std fl acc _ k _ rest trivial (inferFields_covers std fl hd rest lvl _)
    | int i =>
      simp only [inferFields]
      exact inferFields_scalar_step std fl acc _ k _ rest trivial (inferFields_covers std fl hd rest lvl _)
    | float f =>
      simp only [inferFields]
      exact inferFields_scalar_step std fl acc _ k _ rest trivial (inferFields_covers std fl hd rest lvl _)
    | str s =>
      simp only [inferFields]
      exact inferFields_scalar_step std fl acc _ k _ rest trivial (inferFields_covers std fl hd rest lvl _)
theorem inferElems_covers (std : GsStd) (fl : Flags) (hd : fl.dedupByEq = false) :
    ∀ (xs : List JVal) (name : S) (isRoot : Bool) (lvl : Nat) (acc : TC),
      ElemsExt std fl.forceStrings acc.1 (inferElems std fl name isRoot lvl xs acc).1 ∧
      CoversElems std fl.forceStrings (inferElems std fl name isRoot lvl xs acc).1 xs
  | [], name, isRoot, lvl, acc => by
    rw [inferElems]
    exact ⟨ElemsExt.refl _ _ _, by simp [CoversElems]⟩
  | x :: rest, name, isRoot, lvl, acc => by
    cases x with
    | dict kvs =>
      simp only [inferElems, hd, elemsAddCls]
      obtain ⟨hext, hcov⟩ := inferElems_covers std fl hd rest name isRoot lvl
        (mergeLStep false acc.1 (.cls (.mk (pascal name) isRoot (inferFields std fl lvl kvs []))), acc.2)
      refine ⟨(mergeLStep_left std _ false _ acc.1).trans hext, ?_⟩
      simp only [CoversElems]
      exact ⟨hext _ (mergeLStep_right std _ _ acc.1 kvs _ rfl (inferFields_covers std fl hd kvs lvl []).2), hcov⟩
    | list ys =>
      simp only [inferElems, hd]
      obtain ⟨hext, hcov⟩ := inferElems_covers std fl hd rest name isRoot (lvl + 1)
        (tcAppend false acc (.lst (.mk ys "container".toList (lgName std none (lvl + 1))
          (inferElems std fl (lgName std none (lvl + 1)) false (lvl + 1) ys ([], false)).1
          (inferElems std fl (lgName std none (lvl + 1)) false (lvl + 1) ys ([], false)).2)))
      refine ⟨(ElemsExt_tcAppend false acc.1 acc.2 _).trans hext, ?_⟩
      simp only [CoversElems]
      refine ⟨hext _ ?_, hcov⟩
      simp only [CoversElem]
      refine ⟨.mk ys "container".toList (lgName std none (lvl + 1))
          (inferElems std fl (lgName std none (lvl + 1)) false (lvl + 1) ys ([], false)).1
          (inferElems std fl (lgName std none (lvl + 1)) false (lvl + 1) ys ([], false)).2, ?_,
        (inferElems_covers std fl hd ys _ false (lvl + 1) ([], false)).2⟩
      rw [tcAppend_false_lst]; simp
    | null =>
      simp only [inferElems]
      obtain ⟨hext, hcov⟩ := inferElems_covers std fl hd rest name isRoot lvl
        (tcAppendScalar acc (scalarPrims std fl.forceStrings .null))
      exact ⟨(ElemsExt_tcAppendScalar std _ acc _).trans hext,
        by simp only [CoversElems]; exact ⟨hext _ (CoversElem_tcAppendScalar std _ acc _ trivial), hcov⟩⟩
    | bool b =>
      simp only [inferElems]
      obtain ⟨hext, hcov⟩ := inferElems_covers std fl hd rest name isRoot lvl
        (tcAppendScalar acc (scalarPrims std fl.forceStrings (.bool b)))
      exact ⟨(ElemsExt_tcAppendScalar std _ acc _).trans hext,
        by simp only [CoversElems]; exact ⟨hext _ (CoversElem_tcAppendScalar std _ acc _ trivial), hcov⟩⟩
    | int i =>
      simp only [inferElems]
      obtain ⟨hext, hcov⟩ := inferElems_covers std fl hd rest name isRoot lvl
        (tcAppendScalar acc (scalarPrims std fl.forceStrings (.int i)))
      exact ⟨(ElemsExt_tcAppendScalar std _ acc _).trans hext,
        by simp only [CoversElems]; exact ⟨hext _ (CoversElem_tcAppendScalar std _ acc _ trivial), hcov⟩⟩
    | float f =>
      simp only [inferElems]
      obtain ⟨hext, hcov⟩ := inferElems_covers std fl hd rest name isRoot lvl
        (tcAppendScalar acc (scalarPrims std fl.forceStrings (.float f)))
      exact ⟨(ElemsExt_tcAppendScalar std _ acc _).trans hext,
        by simp only [CoversElems]; exact ⟨hext _ (CoversElem_tcAppendScalar std _ acc _ trivial), hcov⟩⟩
    | str s =>
      simp only [inferElems]
      obtain ⟨hext, hcov⟩ := inferElems_covers std fl hd rest name isRoot lvl
        (tcAppendScalar acc (scalarPrims std fl.forceStrings (.str s)))
      exact ⟨(ElemsExt_tcAppendScalar std _ acc _).trans hext,
        by simp only [CoversElems]; exact ⟨hext _ (CoversElem_tcAppendScalar std _ acc _ trivial), hcov⟩⟩
end

/-! ### field names of a merged class -/

theorem fieldsLookup_isSome_set (k k0 : S) (tc : TC) (fs : Fields) :
    (fieldsLookup k0 (fieldsSet k tc fs)).isSome = ((fieldsLookup k0 fs).isSome || k0 == k) := by
  by_cases h : k0 = k
  · subst h; simp [fieldsLookup_set_same]
  · simp [fieldsLookup_set_other k k0 tc fs h, h]

theorem mergeFields_keys (dedup : Bool) : ∀ (bfs : List (S × List Elem × Bool)) (afs : Fields) (k : S),
    (fieldsLookup k (mergeFields dedup afs bfs)).isSome = ((fieldsLookup k afs).isSome || (fieldsLookup k bfs).isSome)
  | [], afs, k => by simp [mergeFields, fieldsLookup]
  | (k0, oes, oopt) :: rest, afs, k => by
    rw [mergeFields, mergeFields_keys dedup rest]
    cases hl : fieldsLookup k0 afs with
    | some tc =>
      simp only [fieldsLookup_isSome_set]
      by_cases hk : k0 = k
      · subst hk; simp [fieldsLookup, hl]
      · have hk' : (k == k0) = false := by simp; exact fun h => hk h.symm
        simp [fieldsLookup, hk, hk']
    | none =>
      by_cases hk : k0 = k
      · subst hk
        simp [fieldsLookup_append_none _ _ _ hl, fieldsLookup]
      · cases hl2 : fieldsLookup k afs with
        | some t => simp [fieldsLookup_append_some _ _ _ _ hl2]
        | none => simp [fieldsLookup_append_none _ _ _ hl2, fieldsLookup, hk]

end DW.Gs
