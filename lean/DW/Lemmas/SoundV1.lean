/- Soundness of the **v1** load engine over its type fragment: whatever `loadV1` returns for any JSON input is an instance
of the annotation (`Sound conformsScalarV1`). Mirrors `DW.Lemmas.Sound` (default engine). -/
import DW.Model.LoadV1
import DW.Lemmas.Sound

namespace DW.Props.C05
open DW

/-- the scalar JSON value a scalar Python value came from -/
def pyToJ? : PyVal → Option JVal
  | .none => some .null
  | .bool b => some (.bool b)
  | .int i => some (.int i)
  | .float f => some (.float f)
  | .str s => some (.str s)
  | _ => none

/-- a value is the Literal member `l` the way Python sees it: equal (`==`) and of the same type -/
def litEqPy (l : Lit) (v : PyVal) : Bool :=
  match pyToJ? v with
  | some o => jEqLit o l && jSameType o l
  | none => false

/-- conformance of a scalar result of the v1 engine to its annotation (exact type; Literal by `==` *and* type) -/
def conformsScalarV1 : Ty → PyVal → Bool
  | .none, .none => true
  | .bytes, .bytes false _ => true
  | .bytearray, .bytes true _ => true
  | .literal vs, v => vs.any (fun l => litEqPy l v)
  | t, v => conformsScalar t v

def isScalarTyV1 : Ty → Bool
  | .none | .bytes | .bytearray => true
  | t => isScalarTy t

theorem toPy_toJ (o : JVal) (h : o.hashable = true) : pyToJ? o.toPy = some o := by
  cases o <;> simp [JVal.hashable] at h <;> rfl

theorem asStr_conf (o : JVal) (y : PyVal) (h : asStr o = .ok y) : conformsScalar .str y = true := by
  cases o <;> simp [asStr, pure, Except.pure] at h <;> (subst h; rfl)

theorem mapError_ok {α} (r : Except LErr α) (f : LErr → LErr) (y : α) (h : r.mapError f = .ok y) : r = .ok y := by
  cases r <;> simp [Except.mapError] at h ⊢; exact h

theorem sound_scalar_v1 (std : Std) (cfg : Option MetaCfg) (t : Ty) (ht : isScalarTyV1 t = true) (o : JVal) (y : PyVal)
    (h : loadV1 std cfg t o = .ok y) : conformsScalarV1 t y = true := by
  cases t <;> simp [isScalarTyV1, isScalarTy] at ht
  case none => simp [loadV1, pure, Except.pure] at h; subst h; rfl
  case int =>
    simp only [loadV1] at h
    cases o <;> simp [v1Int, perr, pure, Except.pure] at h
    case int i => subst h; rfl
    case float f =>
      split at h
      · split at h <;> simp at h; subst h; rfl
      · simp at h
    case str s =>
      split at h
      · split at h
        · simp at h
        · split at h
          · split at h <;> simp at h; subst h; rfl
          · simp at h
      · split at h <;> simp at h; subst h; rfl
  case float =>
    simp only [loadV1, v1Float] at h
    have h' := mapError_ok _ _ _ h
    exact sound_scalar std cfg .float rfl o y (by simpa [loadD] using h')
  case str =>
    simp only [loadV1] at h
    cases o with
    | null => simp [v1Str, pure, Except.pure] at h; subst h; rfl
    | _ => exact asStr_conf _ y (by simpa [v1Str] using h)
  case bool =>
    simp only [loadV1] at h
    cases o <;> simp [v1Bool, pure, Except.pure] at h <;> (subst h; rfl)
  case bytes =>
    simp only [loadV1] at h
    cases o <;> simp [v1Bytes, perr, pure, Except.pure] at h
    split at h <;> simp at h; subst h; rfl
  case bytearray =>
    simp only [loadV1] at h
    cases o <;> simp [v1Bytes, perr, pure, Except.pure] at h
    split at h <;> simp at h; subst h; rfl
  case leaf k =>
    cases k <;> simp only [loadV1] at h
    case decimal =>
      cases o <;> simp [v1Decimal, perr, pure, Except.pure] at h <;>
        (split at h <;> simp at h; subst h; rfl)
    case path =>
      cases o <;> simp [v1Path, perr, pure, Except.pure] at h; subst h; rfl
    case uuid =>
      cases o <;> simp [v1Uuid, perr, pure, Except.pure] at h
      split at h <;> simp at h; subst h; rfl
    case date =>
      cases o <;> simp [v1Date, jNumLoose?, perr, pure, Except.pure] at h <;>
        (split at h <;> simp at h; subst h; rfl)
    case time =>
      cases o <;> simp [v1Time, perr, pure, Except.pure] at h
      split at h <;> simp at h; subst h; rfl
    case datetime =>
      cases o <;> simp [v1Datetime, jNumLoose?, perr, pure, Except.pure] at h <;>
        (split at h <;> simp at h; subst h; rfl)
  case timedelta =>
    simp only [loadV1, v1Timedelta] at h
    have h' := mapError_ok _ _ _ h
    exact sound_scalar std cfg .timedelta rfl o y (by simpa [loadD] using h')
  case enum n ms =>
    simp only [loadV1, v1Enum] at h
    have h' := mapError_ok _ _ _ h
    exact sound_scalar std cfg (.enum n ms) rfl o y (by simpa [loadD] using h')
  case literal vs =>
    simp only [loadV1, v1Literal] at h
    split at h
    · simp [perr] at h
    · next hh =>
      split at h
      · next hany =>
        simp only [pure, Except.pure, Except.ok.injEq] at h; subst h
        obtain ⟨l, hl, hm⟩ := List.any_eq_true.1 hany
        have hhash : o.hashable = true := by simpa using hh
        simp only [conformsScalarV1, List.any_eq_true]
        exact ⟨l, hl, by simp only [litEqPy, toPy_toJ o hhash]; exact hm⟩
      · simp [perr] at h


/-! ### composite types -/

/-- defaulted NamedTuple fields come last (Python rejects a class body where a field without default follows one with) -/
def trailingDefaults : List (S × Ty × Option Dflt) → Bool
  | [] => true
  | f :: r => if f.2.2.isSome then r.all (fun g => g.2.2.isSome) else trailingDefaults r

/-- the fragment of the v1 type grammar covered by `C05_v1_sound` -/
inductive FragV1 : Ty → Prop
  | scalar (t : Ty) : isScalarTyV1 t = true → FragV1 t
  | any : FragV1 .any
  | optional (t : Ty) : FragV1 t → FragV1 (.optional t)
  | seq (k : SeqKind) (t : Ty) : FragV1 t → FragV1 (.seq k t)
  | vtuple (t : Ty) : FragV1 t → FragV1 (.vtuple t)
  | tuple (ts : List Ty) : ts ≠ [] → (∀ t ∈ ts, FragV1 t) → FragV1 (.tuple ts)
  | map (k : MapKind) (kt vt : Ty) : FragV1 kt → FragV1 vt → FragV1 (.map k kt vt)
  | typeddict (name : S) (fields : List (S × Ty × Bool)) : (fields.map (·.1)).Nodup → (∀ f ∈ fields, FragV1 f.2.1) →
      FragV1 (.typeddict name fields)
  | cls (ci : ClassInfo) (ftys : List (S × Ty)) : (∀ p ∈ ftys, FragV1 p.2) → FragV1 (.cls ci ftys)
  | union (ts : List Ty) : (∀ t ∈ ts, isNoneArg t = false → FragV1 t) → FragV1 (.union ts)
  | ntuple (name : S) (fields : List (S × Ty × Option Dflt)) : trailingDefaults fields = true → (∀ f ∈ fields, FragV1 f.2.1) →
      FragV1 (.ntuple name fields)

abbrev SoundV1 := Sound conformsScalarV1

theorem mkSeq_soundV1 (t : Ty) (k : SeqKind) (ys : List PyVal) (r : PyVal) (hs : ∀ y ∈ ys, SoundV1 t y)
    (h : (mkSeq k ys).mapError v1Wrap = .ok r) : SoundV1 (.seq k t) r :=
  mkSeq_sound t k ys r hs (mapError_ok _ _ _ h)

theorem mkMap_soundV1 (kt vt : Ty) (k : MapKind) (ps : List (PyVal × PyVal)) (r : PyVal)
    (hs : ∀ p ∈ ps, SoundV1 kt p.1 ∧ SoundV1 vt p.2) (h : (mkMap k ps).mapError v1Wrap = .ok r) : SoundV1 (.map k kt vt) r :=
  mkMap_sound kt vt k ps r hs (mapError_ok _ _ _ h)

theorem v1Tuple_sound (std : Std) (cfg : Option MetaCfg) (o : JVal) : ∀ (ts : List Ty) (k : Nat) (ys : List PyVal),
    (∀ t ∈ ts, ∀ o z, loadV1 std cfg t o = .ok z → SoundV1 t z) →
    v1Tuple std cfg ts k o = .ok ys → ys.length = ts.length ∧ ∀ p ∈ ts.zip ys, SoundV1 p.1 p.2
  | [], k, ys, _, h => by
    simp only [v1Tuple, pure, Except.pure, Except.ok.injEq] at h; subst h; simp
  | t :: ts, k, ys, ih, h => by
    unfold v1Tuple at h
    split at h
    · split at h <;> simp [rawE, perr] at h
    · next x hx =>
      simp only [bind, Except.bind] at h
      split at h
      · simp at h
      · next y hy =>
        split at h
        · simp at h
        · next ys' hys =>
          simp only [pure, Except.pure, Except.ok.injEq] at h; subst h
          obtain ⟨h1, h2⟩ := v1Tuple_sound std cfg o ts (k + 1) ys' (fun t' ht' => ih t' (by simp [ht'])) hys
          refine ⟨by simp [h1], ?_⟩
          intro p hp
          simp only [List.zip_cons_cons, List.mem_cons] at hp
          rcases hp with rfl | hp
          · exact ih t (by simp) x y hy
          · exact h2 p hp

theorem v1Td_sound (std : Std) (cfg : Option MetaCfg) (kvs : List (S × JVal)) :
    ∀ (fields : List (S × Ty × Bool)) (ps : List (PyVal × PyVal)),
    (∀ f ∈ fields, ∀ o z, loadV1 std cfg f.2.1 o = .ok z → SoundV1 f.2.1 z) →
    v1Td std cfg fields kvs = .ok ps →
      (∀ p ∈ ps, ∃ f ∈ fields, p.1 = .str f.1 ∧ SoundV1 f.2.1 p.2) ∧ (∀ f ∈ fields, f.2.2 = true → ∃ p ∈ ps, p.1 = .str f.1)
  | [], ps, _, h => by
    simp only [v1Td, pure, Except.pure, Except.ok.injEq] at h; subst h; simp
  | (k, t, req) :: r, ps, ih, h => by
    rw [v1Td] at h
    split at h
    · next v hfind =>
      simp only [bind, Except.bind] at h
      split at h
      · simp at h
      · next y hy =>
        split at h
        · simp at h
        · next ys hys =>
          simp only [pure, Except.pure, Except.ok.injEq] at h; subst h
          obtain ⟨h1, h2⟩ := v1Td_sound std cfg kvs r ys (fun f hf => ih f (by simp [hf])) hys
          constructor
          · intro p hp
            rcases List.mem_cons.1 hp with rfl | hp
            · exact ⟨(k, t, req), by simp, rfl, ih (k, t, req) (by simp) _ y hy⟩
            · obtain ⟨f, hf, hk, hs⟩ := h1 p hp
              exact ⟨f, by simp [hf], hk, hs⟩
          · intro f hf hreq
            rcases List.mem_cons.1 hf with rfl | hf
            · exact ⟨(.str k, y), by simp, rfl⟩
            · obtain ⟨p, hp, hk⟩ := h2 f hf hreq
              exact ⟨p, by simp [hp], hk⟩
    · split at h
      · simp [perr] at h
      · next hreq =>
        obtain ⟨h1, h2⟩ := v1Td_sound std cfg kvs r ps (fun f hf => ih f (by simp [hf])) h
        constructor
        · intro p hp
          obtain ⟨f, hf, hk, hs⟩ := h1 p hp
          exact ⟨f, by simp [hf], hk, hs⟩
        · intro f hf hr
          rcases List.mem_cons.1 hf with rfl | hf
          · simp at hr; simp [hr] at hreq
          · exact h2 f hf hr

theorem v1Field_sound (std : Std) (cfg : Option MetaCfg) (f : S) (v : JVal) (y : PyVal) :
    ∀ (ftys : List (S × Ty)), (∀ p ∈ ftys, ∀ o z, loadV1 std cfg p.2 o = .ok z → SoundV1 p.2 z) →
      v1Field std cfg f v ftys = .ok y → ∃ t, tyOf ftys f = some t ∧ SoundV1 t y
  | [], _, h => by simp [v1Field] at h
  | (n, t) :: r, ih, h => by
    rw [v1Field] at h
    by_cases hn : (n == f) = true
    · simp only [hn, if_true] at h
      exact ⟨t, by simp [tyOf, List.find?, hn], ih (n, t) (by simp) v y h⟩
    · have hb : (n == f) = false := by simpa using hn
      simp only [hb, Bool.false_eq_true, if_false] at h
      obtain ⟨t', ht', hs⟩ := v1Field_sound std cfg f v y r (fun p hp => ih p (by simp [hp])) h
      exact ⟨t', by simpa [tyOf, List.find?, hb] using ht', hs⟩

/-- every keyword argument collected by the generated field loop was produced by the per-field loader -/
theorem v1Fields_sound (FL : S → JVal → LRes) (P : S → PyVal → Prop) (hFL : ∀ f v y, FL f v = .ok y → P f y)
    (eff : MetaCfg) (ci : ClassInfo) (kvs : List (S × JVal)) : ∀ (F : List FieldInfo) (kw : List (S × PyVal)) (n : Nat),
      v1Fields FL eff ci kvs F = .ok (kw, n) → ∀ p ∈ kw, P p.1 p.2
  | [], kw, n, h => by
    simp only [v1Fields, pure, Except.pure, Except.ok.injEq, Prod.mk.injEq] at h
    obtain ⟨rfl, _⟩ := h; simp
  | fi :: r, kw, n, h => by
    rw [v1Fields] at h
    split at h
    · exact v1Fields_sound FL P hFL eff ci kvs r kw n h
    · split at h
      · exact v1Fields_sound FL P hFL eff ci kvs r kw n h
      · next v hv =>
        simp only [bind, Except.bind] at h
        split at h
        · simp at h
        · next y hy =>
          split at h
          · simp at h
          · next rest hrest =>
            obtain ⟨kw', n'⟩ := rest
            simp only [pure, Except.pure, Except.ok.injEq, Prod.mk.injEq] at h
            obtain ⟨rfl, _⟩ := h
            have hy' : FL fi.name v = .ok y := mapError_ok _ _ _ hy
            intro p hp
            rcases List.mem_cons.1 hp with rfl | hp
            · exact hFL fi.name v y hy'
            · exact v1Fields_sound FL P hFL eff ci kvs r kw' n' hrest p hp

/-- the instance `cls(**kw)` builds from arguments that are loaded values or the captured catch-all dictionary -/
theorem finishKw_sound {C : Ty → PyVal → Bool} (ci : ClassInfo) (ftys : List (S × Ty)) (K : List (S × PyVal)) (r : PyVal)
    (hK : ∀ p ∈ K, (∃ t, tyOf ftys p.1 = some t ∧ Sound C t p.2) ∨ catchAllOrigin ci p.1)
    (h : finishKw ci K = .ok r) : Sound C (.cls ci ftys) r := by
  unfold finishKw at h
  split at h
  · simp only [bind, Except.bind] at h
    split at h
    · simp at h
    · next fs hfs =>
      simp only [pure, Except.pure, Except.ok.injEq] at h; subst h
      obtain ⟨hn, ho⟩ := buildFields_origin _ ci.fields fs hfs
      have horigin : ∀ p ∈ fs, (∃ t, tyOf ftys p.1 = some t ∧ Sound C t p.2) ∨ fromDefault ci p.1 p.2 ∨ catchAllOrigin ci p.1 := by
        intro p hp
        rcases ho p hp with hK' | ⟨g, hg, hgn, hgo⟩
        · rcases hK p hK' with h1 | h1
          · exact Or.inl h1
          · exact Or.inr (Or.inr h1)
        · exact Or.inr (Or.inl ⟨g, hg, hgn, hgo⟩)
      refine Sound.inst ci ftys fs hn ?_ ?_
      · intro p hp
        rcases horigin p hp with ⟨t, ht, _⟩ | h2 | h3
        · exact Or.inr (Or.inr (by simp [ht]))
        · exact Or.inl h2
        · exact Or.inr (Or.inl h3)
      · intro p hp t ht hnd hnc
        rcases horigin p hp with ⟨t', ht', hs⟩ | h2 | h3
        · rw [ht] at ht'; cases ht'; exact hs
        · exact absurd h2 hnd
        · exact absurd h3 hnc
  · simp at h

theorem v1Class_sound (FL : S → JVal → LRes) (eff : MetaCfg) (ci : ClassInfo) (ftys : List (S × Ty))
    (hFL : ∀ f v y, FL f v = .ok y → ∃ t, tyOf ftys f = some t ∧ SoundV1 t y) (o : JVal) (r : PyVal)
    (h : v1ClassWith FL eff ci o = .ok r) : SoundV1 (.cls ci ftys) r := by
  cases o with
  | dict kvs =>
    simp only [v1ClassWith, bind, Except.bind] at h
    split at h
    · simp at h
    · next res hres =>
      obtain ⟨kw, found⟩ := res
      simp only at h
      unfold v1Finish at h
      split at h
      · simp at h
      · have hkw := v1Fields_sound FL (fun f z => ∃ t, tyOf ftys f = some t ∧ SoundV1 t z) hFL eff ci kvs ci.fields kw found hres
        refine finishKw_sound ci ftys _ r ?_ h
        intro p hp
        unfold v1WithCatchAll at hp
        split at hp
        · exact Or.inl (hkw p hp)
        · next cf hcf =>
          split at hp
          · rcases List.mem_append.1 hp with hp | hp
            · exact Or.inl (hkw p hp)
            · simp at hp; subst hp
              have := find?_mem_aux _ _ _ hcf
              exact Or.inr ⟨cf, this.1, this.2, rfl⟩
          · exact Or.inl (hkw p hp)
  | null => simp [v1ClassWith] at h
  | bool _ => simp [v1ClassWith] at h
  | int _ => simp [v1ClassWith] at h
  | float _ => simp [v1ClassWith] at h
  | str _ => simp [v1ClassWith] at h
  | list _ => simp [v1ClassWith] at h

/-! ### Unions -/

theorem v1Tagged_origin (std : Std) (cfg : Option MetaCfg) (tg : S) (o : JVal) (y : PyVal) : ∀ (ts : List Ty),
    v1Tagged std cfg tg ts o = .ok y → ∃ ci ftys, Ty.cls ci ftys ∈ ts ∧ loadV1 std cfg (.cls ci ftys) o = .ok y
  | [], h => by simp [v1Tagged, perr] at h
  | t :: ts, h => by
    have hrec : v1Tagged std cfg tg ts o = .ok y → ∃ ci ftys, Ty.cls ci ftys ∈ t :: ts ∧ loadV1 std cfg (.cls ci ftys) o = .ok y := by
      intro h'
      obtain ⟨ci, ftys, hm, hl⟩ := v1Tagged_origin std cfg tg o y ts h'
      exact ⟨ci, ftys, by simp [hm], hl⟩
    cases t with
    | cls ci ftys =>
      rw [v1Tagged] at h
      split at h
      · exact ⟨ci, ftys, by simp, by rw [loadV1]; exact h⟩
      · exact hrec h
    | _ =>
      rw [v1Tagged] at h
      exact hrec h
      all_goals (intros; rename_i hh; cases hh)

/-- the exact-type fast path returns the input only when it already has the member's type -/
theorem exactKind_conf (t : Ty) (o : JVal) (h : exactKind t = some o.kind) : conformsScalarV1 t o.toPy = true := by
  cases t <;> simp [exactKind] at h <;> cases o <;> simp [JVal.kind] at h <;> rfl

/-- a try-parse step: a result is the member's own result -/
theorem tryParse_origin (r : LRes) (rest : Option LRes) (res : LRes) (y : PyVal)
    (h : (match r with
          | .ok y => some (.ok y)
          | .error (.unsupported w) => some (.error (.unsupported w))
          | .error _ => rest) = some res) (hy : res = .ok y) : r = .ok y ∨ rest = some res := by
  split at h
  · simp only [Option.some.injEq] at h; subst h; exact Or.inl hy
  · simp only [Option.some.injEq] at h; subst h; simp at hy
  · exact Or.inr h

theorem v1UnionExact_origin (std : Std) (cfg : Option MetaCfg) (o : JVal) (y : PyVal) : ∀ (ts : List Ty) (r : LRes),
    v1UnionExact std cfg ts o = some r → r = .ok y →
      ∃ t ∈ ts, isNoneArg t = false ∧ (loadV1 std cfg t o = .ok y ∨ (exactKind t = some o.kind ∧ y = o.toPy))
  | [], r, h, _ => by simp [v1UnionExact] at h
  | t :: ts, r, h, hr => by
    have hrec : ∀ r', v1UnionExact std cfg ts o = some r' → r' = .ok y →
        ∃ t' ∈ t :: ts, isNoneArg t' = false ∧ (loadV1 std cfg t' o = .ok y ∨ (exactKind t' = some o.kind ∧ y = o.toPy)) := by
      intro r' h' hr'
      obtain ⟨t', ht', hn', hl'⟩ := v1UnionExact_origin std cfg o y ts r' h' hr'
      exact ⟨t', by simp [ht'], hn', hl'⟩
    have hgen : isNoneArg t = false →
        (if isSimpleTy t then
          if exactKind t == some o.kind then some (pure o.toPy) else v1UnionExact std cfg ts o
        else
          match loadV1 std cfg t o with
          | .ok y => some (.ok y)
          | .error (.unsupported w) => some (.error (.unsupported w))
          | .error _ => v1UnionExact std cfg ts o) = some r →
        ∃ t' ∈ t :: ts, isNoneArg t' = false ∧ (loadV1 std cfg t' o = .ok y ∨ (exactKind t' = some o.kind ∧ y = o.toPy)) := by
      intro hn h'
      split at h'
      · split at h'
        · next hk =>
          simp only [Option.some.injEq] at h'; subst h'
          simp only [pure, Except.pure, Except.ok.injEq] at hr
          exact ⟨t, by simp, hn, Or.inr ⟨by simpa using hk, hr.symm⟩⟩
        · exact hrec r h' hr
      · rcases tryParse_origin _ _ r y h' hr with h1 | h1
        · exact ⟨t, by simp, hn, Or.inl h1⟩
        · exact hrec r h1 hr
    cases t with
    | none => rw [v1UnionExact] at h; exact hrec r h hr
    | cls ci ftys =>
      rw [v1UnionExact] at h
      split at h
      · exact hrec r h hr
      · rcases tryParse_origin _ _ r y h hr with h1 | h1
        · exact ⟨.cls ci ftys, by simp, rfl, Or.inl h1⟩
        · exact hrec r h1 hr
    | _ =>
      rw [v1UnionExact] at h
      exact hgen rfl h
      all_goals (intros; rename_i hh; cases hh)

theorem v1UnionCoerce_origin (std : Std) (cfg : Option MetaCfg) (o : JVal) (y : PyVal) : ∀ (ts : List Ty) (r : LRes),
    v1UnionCoerce std cfg ts o = some r → r = .ok y → ∃ t ∈ ts, isNoneArg t = false ∧ loadV1 std cfg t o = .ok y
  | [], r, h, _ => by simp [v1UnionCoerce] at h
  | t :: ts, r, h, hr => by
    have hrec : ∀ r', v1UnionCoerce std cfg ts o = some r' → r' = .ok y →
        ∃ t' ∈ t :: ts, isNoneArg t' = false ∧ loadV1 std cfg t' o = .ok y := by
      intro r' h' hr'
      obtain ⟨t', ht', hn', hl'⟩ := v1UnionCoerce_origin std cfg o y ts r' h' hr'
      exact ⟨t', by simp [ht'], hn', hl'⟩
    cases t with
    | none =>
      have h' : v1UnionCoerce std cfg ts o = some r := by simpa [v1UnionCoerce] using h
      exact hrec r h' hr
    | _ =>
      unfold v1UnionCoerce at h
      simp only [Bool.and_true] at h
      split at h
      · split at h
        · next y' hy' =>
          simp only [Option.some.injEq] at h; subst h
          simp only [Except.ok.injEq] at hr; subst hr
          exact ⟨_, by simp, rfl, hy'⟩
        · simp only [Option.some.injEq] at h; subst h; simp at hr
        · exact hrec r h hr
      · exact hrec r h hr

/-! ### NamedTuple -/

theorem all_drop {α : Type} (p : α → Bool) : ∀ (l : List α) (n : Nat), l.all p = true → (l.drop n).all p = true
  | [], n, _ => by simp
  | a :: l, 0, h => by simpa using h
  | a :: l, n + 1, h => by
    simp only [List.all_cons, Bool.and_eq_true] at h
    simpa using all_drop p l n h.2

theorem trailing_of_all : ∀ (l : List (S × Ty × Option Dflt)), l.all (fun g => g.2.2.isSome) = true → trailingDefaults l = true
  | [], _ => rfl
  | f :: r, h => by
    simp only [List.all_cons, Bool.and_eq_true] at h
    simp [trailingDefaults, h.1, h.2]

theorem v1NtSeq_spec (std : Std) (cfg : Option MetaCfg) (name : S) (n : Nat) (o : JVal) :
    ∀ (fields : List (S × Ty × Option Dflt)) (k : Nat) (ys : List PyVal),
    (∀ f ∈ fields, ∀ o z, loadV1 std cfg f.2.1 o = .ok z → SoundV1 f.2.1 z) → trailingDefaults fields = true →
    v1NtSeq std cfg name fields k n o = .ok ys →
      ys.length ≤ fields.length ∧ (∀ p ∈ fields.zip ys, SoundV1 p.1.2.1 p.2) ∧
      (fields.drop ys.length).all (fun g => g.2.2.isSome) = true
  | [], k, ys, _, _, h => by
    simp only [v1NtSeq, pure, Except.pure, Except.ok.injEq] at h; subst h; simp
  | (fname, t, d) :: fs, k, ys, ih, htr, h => by
    unfold v1NtSeq at h
    split at h
    · -- k < n: the field is taken from the sequence
      split at h
      · simp [perr] at h
      · next x hx =>
        split at h
        · split at h <;> simp at h
        · simp at h
        · next y hy =>
          simp only [bind, Except.bind] at h
          split at h
          · simp at h
          · next ys' hys =>
            simp only [pure, Except.pure, Except.ok.injEq] at h; subst h
            have htr' : trailingDefaults fs = true := by
              unfold trailingDefaults at htr
              split at htr
              · exact trailing_of_all fs htr
              · exact htr
            obtain ⟨h1, h2, h3⟩ := v1NtSeq_spec std cfg name n o fs (k + 1) ys' (fun f hf => ih f (by simp [hf])) htr' hys
            refine ⟨by simp; omega, ?_, by simpa using h3⟩
            intro p hp
            simp only [List.zip_cons_cons, List.mem_cons] at hp
            rcases hp with rfl | hp
            · exact ih (fname, t, d) (by simp) x y hy
            · exact h2 p hp
    · -- beyond the end of the sequence
      split at h
      · simp at h
      · next hd =>
        simp only [pure, Except.pure, Except.ok.injEq] at h; subst h
        have hsome : d.isSome = true := by cases d <;> simp_all
        unfold trailingDefaults at htr
        simp only [hsome, if_true] at htr
        simp [hsome, htr]

/-- **soundness of the v1 engine over its fragment** -/
theorem soundV1 (std : Std) (cfg : Option MetaCfg) (t : Ty) (hf : FragV1 t) : ∀ (o : JVal) (y : PyVal),
    loadV1 std cfg t o = .ok y → SoundV1 t y := by
  induction hf with
  | scalar t ht => intro o y h; exact Sound.scalar t y (sound_scalar_v1 std cfg t ht o y h)
  | any => intro o y h; exact Sound.any y
  | optional t _ ih =>
    intro o y h
    cases o with
    | null => simp only [loadV1, pure, Except.pure, Except.ok.injEq] at h; subst h; exact Sound.optNone t
    | bool b => exact Sound.optSome t y (ih _ y (by simpa [loadV1] using h))
    | int i => exact Sound.optSome t y (ih _ y (by simpa [loadV1] using h))
    | float f => exact Sound.optSome t y (ih _ y (by simpa [loadV1] using h))
    | str s => exact Sound.optSome t y (ih _ y (by simpa [loadV1] using h))
    | list xs => exact Sound.optSome t y (ih _ y (by simpa [loadV1] using h))
    | dict kvs => exact Sound.optSome t y (ih _ y (by simpa [loadV1] using h))
  | seq k t _ ih =>
    intro o y h
    rw [loadV1] at h
    split at h
    · simp [perr] at h
    · next xs _ =>
      simp only [bind, Except.bind] at h
      split at h
      · simp at h
      · next ys hys =>
        exact mkSeq_soundV1 t k ys y (mapME_all _ (SoundV1 t) (fun x z hz => ih x z hz) xs ys hys) h
  | vtuple t _ ih =>
    intro o y h
    rw [loadV1] at h
    split at h
    · simp [perr] at h
    · next xs _ =>
      simp only [bind, Except.bind] at h
      split at h
      · simp at h
      · next ys hys =>
        simp only [pure, Except.pure, Except.ok.injEq] at h; subst h
        exact Sound.vtuple t ys (mapME_all _ (SoundV1 t) (fun x z hz => ih x z hz) xs ys hys)
  | tuple ts hne _ ih =>
    intro o y h
    rw [loadV1] at h
    have hemp : ts.isEmpty = false := by cases ts <;> simp_all
    simp only [hemp, Bool.false_eq_true, if_false, bind, Except.bind] at h
    split at h
    · simp at h
    · next ys hys =>
      simp only [pure, Except.pure, Except.ok.injEq] at h; subst h
      obtain ⟨h1, h2⟩ := v1Tuple_sound std cfg o ts 0 ys ih hys
      exact Sound.tuple ts ys h1 h2
  | map k kt vt _ _ ihk ihv =>
    intro o y h
    cases o with
    | dict kvs =>
      rw [loadV1] at h
      simp only [bind, Except.bind] at h
      split at h
      · simp at h
      · next ps hps =>
        refine mkMap_soundV1 kt vt k ps y ?_ h
        refine mapME_all _ (fun p : PyVal × PyVal => SoundV1 kt p.1 ∧ SoundV1 vt p.2) ?_ kvs ps hps
        intro kv p hp
        split at hp
        · simp at hp
        · next k' hk' =>
          split at hp
          · simp at hp
          · next v' hv' =>
            simp only [pure, Except.pure, Except.ok.injEq] at hp; subst hp
            exact ⟨ihk _ k' hk', ihv _ v' hv'⟩
    | null => simp [loadV1, perr] at h
    | bool _ => simp [loadV1, perr] at h
    | int _ => simp [loadV1, perr] at h
    | float _ => simp [loadV1, perr] at h
    | str _ => simp [loadV1, perr] at h
    | list _ => simp [loadV1, perr] at h
  | typeddict name fields hnd _ ih =>
    intro o y h
    cases o with
    | dict kvs =>
      rw [loadV1] at h
      split at h
      · next ps hps =>
        simp only [pure, Except.pure, Except.ok.injEq] at h; subst h
        obtain ⟨h1, h2⟩ := v1Td_sound std cfg kvs fields ps ih hps
        refine Sound.typeddict name fields ps ?_ ?_ h2
        · intro p hp; obtain ⟨f, hf, hk, _⟩ := h1 p hp; exact ⟨f, hf, hk⟩
        · intro p hp f hf hk
          obtain ⟨f', hf', hk', hs⟩ := h1 p hp
          have : f' = f := nodup_key_inj (fun g : S × Ty × Bool => g.1) fields hnd f' hf' f hf (by
            rw [hk] at hk'; exact (PyVal.str.inj hk').symm)
          subst this; exact hs
      · simp at h
    | null => simp [loadV1, perr] at h
    | bool _ => simp [loadV1, perr] at h
    | int _ => simp [loadV1, perr] at h
    | float _ => simp [loadV1, perr] at h
    | str _ => simp [loadV1, perr] at h
    | list _ => simp [loadV1, perr] at h
  | cls ci ftys _ ih =>
    intro o y h
    rw [loadV1] at h
    exact v1Class_sound _ _ ci ftys
      (fun f v z hz => v1Field_sound std cfg f v z ftys (fun p hp o' z' hz' => ih p hp o' z' hz') hz) o y h
  | union ts _ ih =>
    intro o y h
    rw [loadV1] at h
    split at h
    · next hc =>
      simp only [pure, Except.pure, Except.ok.injEq] at h; subst h
      refine Sound.unionNone ts ?_
      have hany := (Bool.and_eq_true_iff.1 hc).2
      obtain ⟨t, ht, hm⟩ := List.any_eq_true.1 hany
      exact List.any_eq_true.2 ⟨t, ht, by cases t <;> simp_all [isNoneArg]⟩
    · simp only at h
      split at h
      · next tv _ =>
        cases tv with
        | str tg =>
          simp only at h
          obtain ⟨ci, ftys, hm, hl⟩ := v1Tagged_origin std cfg tg o y ts h
          exact Sound.union ts _ y hm rfl (ih _ hm rfl o y hl)
        | null => simp [perr] at h
        | bool _ => simp [perr] at h
        | int _ => simp [perr] at h
        | float _ => simp [perr] at h
        | list _ => simp [perr] at h
        | dict _ => simp [perr] at h
      · split at h
        · next r hr =>
          obtain ⟨t, ht, hn, hl⟩ := v1UnionExact_origin std cfg o y ts r hr h
          rcases hl with hl | ⟨hk, rfl⟩
          · exact Sound.union ts t y ht hn (ih t ht hn o y hl)
          · exact Sound.union ts t _ ht hn (Sound.scalar t _ (exactKind_conf t o hk))
        · split at h
          · next r hr =>
            obtain ⟨t, ht, hn, hl⟩ := v1UnionCoerce_origin std cfg o y ts r hr h
            exact Sound.union ts t y ht hn (ih t ht hn o y hl)
          · simp [perr] at h
  | ntuple name fields htr _ ih =>
    intro o y h
    have hseq : ∀ n, (do let ys ← v1NtSeq std cfg name fields 0 n o
                         let rest := fields.drop ys.length
                         pure (PyVal.ntuple name (fields.map (fun f : S × Ty × Option Dflt => f.1))
                           (ys ++ rest.filterMap (fun f : S × Ty × Option Dflt => f.2.2.map Dflt.toPy)))) = .ok y →
        SoundV1 (.ntuple name fields) y := by
      intro n h'
      simp only [bind, Except.bind] at h'
      split at h'
      · simp at h'
      · next ys hys =>
        simp only [pure, Except.pure, Except.ok.injEq] at h'; subst h'
        obtain ⟨hle, hs, hall⟩ := v1NtSeq_spec std cfg name n o fields 0 ys ih htr hys
        obtain ⟨hd1, hd2⟩ := filterMap_defaults (fun f => f.2.2.map Dflt.toPy) (fun _ => rfl) (fields.drop ys.length) hall
        have htl : (fields.take ys.length).length = ys.length := by simp; omega
        refine Sound.ntuple name fields _ ?_ ?_
        · simp [hd1]; omega
        · intro p hp hnd'
          have hz : fields.zip (ys ++ (fields.drop ys.length).filterMap (fun f : S × Ty × Option Dflt => f.2.2.map Dflt.toPy))
              = (fields.take ys.length).zip ys ++ (fields.drop ys.length).zip
                  ((fields.drop ys.length).filterMap (fun f : S × Ty × Option Dflt => f.2.2.map Dflt.toPy)) := by
            have hza := List.zip_append (r₁ := fields.drop ys.length)
              (r₂ := (fields.drop ys.length).filterMap (fun f : S × Ty × Option Dflt => f.2.2.map Dflt.toPy)) htl
            rw [List.take_append_drop] at hza
            exact hza
          rw [hz] at hp
          rcases List.mem_append.1 hp with hp | hp
          · rw [zip_take_left] at hp
            exact hs p hp
          · exact absurd (hd2 p hp) hnd'
    cases o with
    | dict kvs =>
      rw [loadV1] at h
      split at h
      · simp [perr] at h
      · next hany =>
        cases kvs with
        | nil =>
          simp only [pure, Except.pure, Except.ok.injEq] at h; subst h
          have hall : fields.all (fun g => g.2.2.isSome) = true := by
            rw [List.all_eq_true]
            intro f hf
            have hnone : fields.any (fun f => f.2.2.isNone) = false := by
              cases hb : fields.any (fun f => f.2.2.isNone)
              · rfl
              · exact absurd hb hany
            have hf' := List.any_eq_false.1 hnone f hf
            cases hd : f.2.2
            · simp [hd] at hf'
            · rfl
          obtain ⟨hd1, hd2⟩ := filterMap_defaults (fun f => f.2.2.map Dflt.toPy) (fun _ => rfl) fields hall
          refine Sound.ntuple name fields _ hd1 ?_
          intro p hp hnd'
          exact absurd (hd2 p hp) hnd'
        | cons kv r => simp [perr] at h
    | null =>
      rw [loadV1] at h
      · simp [jLen, perr] at h
      all_goals (intros; rename_i hh; cases hh)
    | bool _ =>
      rw [loadV1] at h
      · simp [jLen, perr] at h
      all_goals (intros; rename_i hh; cases hh)
    | int _ =>
      rw [loadV1] at h
      · simp [jLen, perr] at h
      all_goals (intros; rename_i hh; cases hh)
    | float _ =>
      rw [loadV1] at h
      · simp [jLen, perr] at h
      all_goals (intros; rename_i hh; cases hh)
    | str s =>
      rw [loadV1] at h
      · exact hseq _ (by simpa [jLen] using h)
      all_goals (intros; rename_i hh; cases hh)
    | list xs =>
      rw [loadV1] at h
      · exact hseq _ (by simpa [jLen] using h)
      all_goals (intros; rename_i hh; cases hh)

end DW.Props.C05