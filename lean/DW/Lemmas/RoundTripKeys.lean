/- Discharging the `keys` hypothesis of `RT.ClsOK` for the name class of the property: for canonically snake_cased field
names (words `[a-z][a-z0-9]+`), no aliases, the default load transform and *every* `key_transform_with_dump` setting, the
dump key of each field leads the loader back to that field. -/
import DW.Lemmas.RoundTrip
import DW.Lemmas.C08Case

namespace DW.RT
open DW DW.Str DW.C08Case

/-- a field name of the property's class: at least one word, every word `[a-z][a-z0-9]+` (two characters or more) -/
def NameOK (n : S) : Prop :=
  ∃ ws : List S, ws ≠ [] ∧ (∀ w ∈ ws, wordOk w = true ∧ startsLower w = true ∧ 2 ≤ w.length) ∧ n = joinWords ws

theorem nameOK_lower {n : S} (h : NameOK n) : lowerS n = n := by
  obtain ⟨ws, hne, hw, rfl⟩ := h
  obtain ⟨hcan, _, _⟩ := safe_of_property_class hne hw
  obtain ⟨_, _, _, _, _, hW⟩ := canon_cases hcan
  apply lowerS_noUp
  intro c hc
  rcases mem_joinSep hc with h | ⟨w, hw', hcw⟩
  · rw [h]; exact special_not_upper special_underscore
  · exact wordChar_not_upper c ((hW w hw').2 c hcw)

/-- every dump transform of such a name is undone by the loader's `to_snake_case` -/
theorem nameOK_transform {n : S} (h : NameOK n) (T : LetterCaseOpt) :
    ∃ k, T.toLC.apply n = some k ∧ toSnake k = n := by
  obtain ⟨ws, hne, hw, rfl⟩ := h
  obtain ⟨hl, ⟨c, hc1, hc2⟩, ⟨p, hp1, hp2⟩⟩ := roundtrips_property_class hne hw
  obtain ⟨hcan, _, _⟩ := safe_of_property_class hne hw
  cases T with
  | camel => exact ⟨c, hc1, hc2⟩
  | pascal => exact ⟨p, hp1, hp2⟩
  | lisp => exact ⟨toLisp (joinWords ws), rfl, hl⟩
  | snake => exact ⟨toSnake (joinWords ws), rfl, by rw [snake_idem hcan, snake_idem hcan]⟩
  | none => exact ⟨joinWords ws, rfl, snake_idem hcan⟩

theorem aliasTable_nil_aux : ∀ (fs : List FieldInfo) (acc : List (S × S)), (∀ f ∈ fs, f.loadKeys = []) →
    fs.foldl (fun acc f => if f.init then acc ++ f.loadKeys.map (fun k => (k, f.name)) else acc) acc = acc
  | [], _, _ => rfl
  | f :: r, acc, h => by
    have hf := h f (by simp)
    simp only [List.foldl_cons, hf, List.map_nil, List.append_nil, ite_self]
    exact aliasTable_nil_aux r acc (fun g hg => h g (by simp [hg]))

theorem aliasTable_nil (ci : ClassInfo) (h : ∀ f ∈ ci.fields, f.loadKeys = []) : aliasTable ci = [] :=
  aliasTable_nil_aux ci.fields [] h

theorem find_rev_lower (names : List S) (n : S) (hmem : n ∈ names) (hlow : ∀ m ∈ names, lowerS m = m) :
    names.reverse.find? (fun f => lowerS f = lowerS n) = some n := by
  have hn : lowerS n = n := hlow n hmem
  cases hf : names.reverse.find? (fun f => lowerS f = lowerS n) with
  | none =>
    have := List.find?_eq_none.1 hf n (List.mem_reverse.2 hmem)
    simp at this
  | some m =>
    have hm : m ∈ names := List.mem_reverse.1 (List.mem_of_find?_eq_some hf)
    have hp : lowerS m = lowerS n := by simpa using List.find?_some hf
    rw [hlow m hm, hn] at hp
    rw [hp]

/-- **the `keys` condition holds on the property's name class**, for every dump transform: a class whose fields are all
constructor fields without aliases, named in the class `NameOK`, loaded with the default key transform; the one side
condition is that the transformed key of a field is not the tag key of a tagged class. -/
theorem keys_of_names (cfg : Option MetaCfg) (ci : ClassInfo)
    (hplain : ∀ f ∈ ci.fields, f.init = true ∧ f.loadKeys = [] ∧ f.dumpAll = false)
    (hnames : ∀ f ∈ ci.fields, NameOK f.name)
    (hload : (effMeta ci.cmeta cfg).keyTransformLoad.getD .snake = .snake)
    (htag : ∀ f ∈ ci.fields, ∀ k, dumpKey (effMeta ci.cmeta cfg) f = .ok k →
      ((effMeta ci.cmeta cfg).tag.isSome && k == tagKeyOf (effMeta ci.cmeta cfg)) = false) :
    ∀ f ∈ ci.fields, ∃ k, dumpKey (effMeta ci.cmeta cfg) f = .ok k ∧
      resolveKey (effMeta ci.cmeta cfg) ci k = .ok (.field f.name) := by
  intro f hf
  obtain ⟨hinit, hkeys, hall⟩ := hplain f hf
  obtain ⟨k, hk1, hk2⟩ := nameOK_transform (hnames f hf) ((effMeta ci.cmeta cfg).keyTransformDump.getD .camel)
  have hdk : dumpKey (effMeta ci.cmeta cfg) f = .ok k := by
    simp only [dumpKey, hall, Bool.false_eq_true, if_false, hk1]
  refine ⟨k, hdk, ?_⟩
  have hinitNames : initFieldNames ci = ci.fields.map (·.name) := by
    unfold initFieldNames
    rw [List.filter_eq_self.2 (fun g hg => by simp [(hplain g hg).1])]
  have hmem : f.name ∈ initFieldNames ci := by rw [hinitNames]; exact List.mem_map.2 ⟨f, hf, rfl⟩
  have hlow : ∀ m ∈ initFieldNames ci, lowerS m = m := by
    intro m hm
    rw [hinitNames] at hm
    obtain ⟨g, hg, rfl⟩ := List.mem_map.1 hm
    exact nameOK_lower (hnames g hg)
  have htk := htag f hf k hdk
  unfold resolveKey
  simp only [aliasTable_nil ci (fun g hg => (hplain g hg).2.1), List.reverse_nil, List.find?_nil]
  simp only [tagKeyOf] at htk
  by_cases hc : (initFieldNames ci).contains k = true
  · -- the transformed key is itself a field name: it is then its own snake_case, i.e. this field's name
    have hkm : k ∈ initFieldNames ci := by simpa using hc
    have hkn : NameOK k := by
      rw [hinitNames] at hkm
      obtain ⟨g, hg, rfl⟩ := List.mem_map.1 hkm
      exact hnames g hg
    have hkk : toSnake k = k := by
      obtain ⟨k', hk1', hk2'⟩ := nameOK_transform hkn .none
      simp only [LetterCaseOpt.toLC, LetterCase.apply, Option.some.injEq] at hk1'
      subst hk1'; exact hk2'
    have : k = f.name := by rw [← hkk, hk2]
    subst this
    simp [htk, hc, hkm, pure, Except.pure]
  · have hc' : (initFieldNames ci).contains k = false := by simpa using hc
    simp only [htk, hc', Bool.false_eq_true, if_false, hload, LetterCaseOpt.toLC, LetterCase.apply, hk2, lastLowerMatch,
      find_rev_lower (initFieldNames ci) f.name hmem hlow, pure, Except.pure]
    simp [htk]

end DW.RT
