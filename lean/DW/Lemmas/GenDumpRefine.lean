/-
The behavioural dump model (`dumpFields` of `DW/Model/Dump.lean`, on which the round-trip, JSON-safety and catch-all theorems rest)
is the realisation of what the generated code emits: closing the chain  generated text → its semantics → the dump model.
-/
import DW.Lemmas.GenDumpSem
import DW.Lemmas.RoundTrip

namespace DW.GenDump
open DW

/-- the items of the mapping a catch-all field holds, dumped -/
def catchAllItems (std : Std) (ts : Bool) (cfg : Option MetaCfg) (v : PyVal) : Except DErr (List (DVal × DVal)) :=
  match v with
  | .map _ kvs => dumpCatchAll std ts cfg kvs
  | _ => pure []

/-- apply `asdict` to what the emissions name: an entry becomes `(key, asdict(o.f))`, the catch-all emission the items of the mapping;
path and tag emissions are not part of the field loop of the class model (paths are outside it, the tag is `finishInst`) -/
def realise (std : Std) (ts : Bool) (cfg : Option MetaCfg) (vals : S → PyVal) : List Emit → Except DErr (List (DVal × DVal))
  | [] => pure []
  | .entry k f :: r => do
    let d ← dumpV std ts cfg (vals f)
    let more ← realise std ts cfg vals r
    pure ((DVal.str k, d) :: more)
  | .catchAll f :: r => do
    let here ← catchAllItems std ts cfg (vals f)
    let more ← realise std ts cfg vals r
    pure (here ++ more)
  | .path _ _ :: r => realise std ts cfg vals r
  | .tag _ _ :: r => realise std ts cfg vals r

theorem realise_append (std : Std) (ts : Bool) (cfg : Option MetaCfg) (vals : S → PyVal) : ∀ (a b : List Emit),
    realise std ts cfg vals (a ++ b) = (do
      let x ← realise std ts cfg vals a
      let y ← realise std ts cfg vals b
      pure (x ++ y))
  | [], b => by
    simp only [List.nil_append, realise, bind, Except.bind, pure, Except.pure]
    cases realise std ts cfg vals b <;> rfl
  | e :: r, b => by
    have ih := realise_append std ts cfg vals r b
    cases e with
    | entry k f =>
      simp only [List.cons_append, realise, ih, bind, Except.bind, pure, Except.pure]
      cases dumpV std ts cfg (vals f) with
      | error _ => rfl
      | ok d =>
        cases realise std ts cfg vals r with
        | error _ => rfl
        | ok x => cases realise std ts cfg vals b <;> rfl
    | catchAll f =>
      simp only [List.cons_append, realise, ih, bind, Except.bind, pure, Except.pure]
      cases catchAllItems std ts cfg (vals f) with
      | error _ => rfl
      | ok h =>
        cases realise std ts cfg vals r with
        | error _ => rfl
        | ok x =>
          cases realise std ts cfg vals b with
          | error _ => rfl
          | ok y => simp [List.append_assoc]
    | path i f => simpa only [List.cons_append, realise] using ih
    | tag k t => simpa only [List.cons_append, realise] using ih

theorem realise_catchAll (std : Std) (ts : Bool) (cfg : Option MetaCfg) (vals : S → PyVal) (f : S) :
    realise std ts cfg vals [.catchAll f] = catchAllItems std ts cfg (vals f) := by
  simp only [realise, bind, Except.bind, pure, Except.pure]
  cases catchAllItems std ts cfg (vals f) <;> simp

theorem realise_entry (std : Std) (ts : Bool) (cfg : Option MetaCfg) (vals : S → PyVal) (k f : S) :
    realise std ts cfg vals [.entry k f] = (do let d ← dumpV std ts cfg (vals f); pure [(DVal.str k, d)]) := by
  simp only [realise, bind, Except.bind, pure, Except.pure]

/-- when neither comparison raises, the bookkeeping of the model returns the reference value -/
theorem fieldSkipped_of_ok (eff : MetaCfg) (args : DumpArgs) (fi : FieldInfo) (v : PyVal) (dt oc : Bool)
    (hd : defaultTest eff fi v = .ok dt) (ho : ownCond eff fi v = .ok oc) :
    fieldSkipped eff args fi v = .ok (excluded args fi || fi.dumpSkip || (skipDefaultsOn eff args && dt) || oc) := by
  unfold fieldSkipped
  cases hex : excluded args fi
  · cases hon : skipDefaultsOn eff args
    · cases hds : fi.dumpSkip <;> simp [ho, bind, Except.bind, pure, Except.pure]
    · cases hds : fi.dumpSkip <;> cases dt <;> simp [hd, ho, bind, Except.bind, pure, Except.pure]
  · simp [pure, Except.pure]

/-- the reference contribution of one field, as emissions -/
def refEmitOf (eff : MetaCfg) (args : DumpArgs) (dtv ocv : FieldInfo → Bool) (vals : S → PyVal) (q : FieldInfo × S) : List Emit :=
  refFieldEmit (excluded args q.1 || (skipDefaultsOn eff args && dtv q.1)) (ocv q.1) q.1 q.2 (vals q.1.name)

/-- what the catch-all step of the model contributes -/
def caHere (std : Std) (ts : Bool) (cfg : Option MetaCfg) (eff : MetaCfg) (args : DumpArgs) (fi : FieldInfo) (v : PyVal) :
    Except DErr (List (DVal × DVal)) :=
  if excluded args fi then pure []
  else (if skipDefaultsOn eff args then defaultTest eff fi v else pure false) >>= fun bydef =>
    if bydef || isDefaultVal fi v then pure [] else catchAllItems std ts cfg v

theorem dumpFields_cons_ca (std : Std) (ts : Bool) (cfg : Option MetaCfg) (eff : MetaCfg) (args : DumpArgs) (ci : ClassInfo)
    (n : S) (v : PyVal) (rest : List (S × PyVal)) (fi : FieldInfo)
    (hf : ci.fields.find? (fun f => f.name == n) = some fi) (hca : fi.isCatchAll = true) :
    dumpFields std ts cfg eff args ci ((n, v) :: rest) = (do
      let here ← caHere std ts cfg eff args fi v
      let more ← dumpFields std ts cfg eff args ci rest
      pure (here ++ more)) := by
  generalize hdt : defaultTest eff fi v = dt
  generalize hR : dumpFields std ts cfg eff args ci rest = R
  cases v <;> (rw [dumpFields] <;> simp [hf, hca, caHere, catchAllItems, isDefaultVal, hdt, hR, bind, Except.bind, pure, Except.pure])
  all_goals (cases excluded args fi <;> cases skipDefaultsOn eff args <;> cases dt <;> cases R <;> simp_all)
  all_goals (try (cases fi.dflt <;> simp_all))
  all_goals (try (split <;> simp_all))
  all_goals (try (split <;> simp_all))

/-- one step of the model's field loop = the realisation of the field's reference emissions, then the rest -/
theorem dumpFields_cons_realise (std : Std) (ts : Bool) (cfg : Option MetaCfg) (eff : MetaCfg) (args : DumpArgs) (ci : ClassInfo)
    (vals : S → PyVal) (dtv ocv : FieldInfo → Bool) (fi : FieldInfo) (k : S) (rest : List (S × PyVal))
    (hf : ci.fields.find? (fun f => f.name == fi.name) = some fi)
    (hd : defaultTest eff fi (vals fi.name) = .ok (dtv fi)) (ho : ownCond eff fi (vals fi.name) = .ok (ocv fi))
    (hk : fi.isCatchAll = false → fi.dumpSkip = false → dumpKey eff fi = .ok k) :
    dumpFields std ts cfg eff args ci ((fi.name, vals fi.name) :: rest) = (do
      let here ← realise std ts cfg vals (refEmitOf eff args dtv ocv vals (fi, k))
      let more ← dumpFields std ts cfg eff args ci rest
      pure (here ++ more)) := by
  unfold refEmitOf refFieldEmit
  by_cases hca : fi.isCatchAll = true
  · rw [dumpFields_cons_ca std ts cfg eff args ci fi.name _ rest fi hf hca]
    simp only [hca, if_true, caHere]
    cases hex : excluded args fi <;> cases hon : skipDefaultsOn eff args <;> cases hdt : dtv fi <;>
      cases hdv : isDefaultVal fi (vals fi.name) <;>
      simp [hd, hdt, realise_catchAll, realise, bind, Except.bind, pure, Except.pure] <;>
      (cases catchAllItems std ts cfg (vals fi.name) <;> cases dumpFields std ts cfg eff args ci rest <;> simp_all)
  · have hca' : fi.isCatchAll = false := by simpa using hca
    have hca'' : ((ci.fields.find? (fun f => f.name == fi.name)).getD { name := fi.name }).isCatchAll = false := by
      rw [hf]; exact hca'
    rw [RT.dumpFields_cons_plain std ts cfg eff args ci fi.name _ rest hca'']
    simp only [hf, Option.getD_some, hca', Bool.false_eq_true, if_false]
    rw [fieldSkipped_of_ok eff args fi _ (dtv fi) (ocv fi) hd ho]
    cases hds : fi.dumpSkip
    · have hkk := hk hca' hds
      cases hex : excluded args fi <;> cases hon : skipDefaultsOn eff args <;> cases hdt : dtv fi <;> cases hoc : ocv fi <;>
        simp [hkk, realise_entry, realise, bind, Except.bind, pure, Except.pure] <;>
        (cases dumpV std ts cfg (vals fi.name) <;> cases dumpFields std ts cfg eff args ci rest <;> simp_all)
    · simp [realise, bind, Except.bind, pure, Except.pure]

/-- **the field loop of the dump model is the realisation of the generated code's emissions** (for the fields `fs` of a class whose
lookup by name finds each field's own description) -/
theorem dumpFields_eq_realise (std : Std) (ts : Bool) (cfg : Option MetaCfg) (eff : MetaCfg) (args : DumpArgs) (ci : ClassInfo)
    (vals : S → PyVal) (dtv ocv : FieldInfo → Bool) :
    ∀ (fs : List (FieldInfo × S)),
      (∀ q ∈ fs, ci.fields.find? (fun f => f.name == q.1.name) = some q.1) →
      (∀ q ∈ fs, defaultTest eff q.1 (vals q.1.name) = .ok (dtv q.1)) →
      (∀ q ∈ fs, ownCond eff q.1 (vals q.1.name) = .ok (ocv q.1)) →
      (∀ q ∈ fs, q.1.isCatchAll = false → q.1.dumpSkip = false → dumpKey eff q.1 = .ok q.2) →
      dumpFields std ts cfg eff args ci (fs.map (fun q => (q.1.name, vals q.1.name))) =
        realise std ts cfg vals (fs.flatMap (refEmitOf eff args dtv ocv vals))
  | [], _, _, _, _ => by simp [dumpFields, realise]
  | (fi, k) :: r, hfind, Hd, Ho, Hk => by
    have ih := dumpFields_eq_realise std ts cfg eff args ci vals dtv ocv r
      (fun q hq => hfind q (by simp [hq])) (fun q hq => Hd q (by simp [hq])) (fun q hq => Ho q (by simp [hq]))
      (fun q hq => Hk q (by simp [hq]))
    simp only [List.map_cons, List.flatMap_cons]
    rw [realise_append, ← ih]
    exact dumpFields_cons_realise std ts cfg eff args ci vals dtv ocv fi k _ (hfind (fi, k) (by simp))
      (Hd (fi, k) (by simp)) (Ho (fi, k) (by simp)) (Hk (fi, k) (by simp))

end DW.GenDump
