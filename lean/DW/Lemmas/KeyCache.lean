/- Lemmas about the load-side key cache: cached lookups agree with the slow path under the cache invariant. -/
import DW.Model.KeyCache
namespace DW.KeyCache
open DW

def isUnknown : KeyRes → Bool
  | .unknown => true
  | _ => false

/-- every cached entry is what the slow path computes for that key -/
def Inv (eff : MetaCfg) (ci : ClassInfo) (c : Cache) : Prop :=
  ∀ e ∈ c, resolveKey eff ci e.1 = .ok e.2

theorem get?_spec (eff : MetaCfg) (ci : ClassInfo) (c : Cache) (hc : Inv eff ci c) (k : S) (r : KeyRes)
    (h : c.get? k = some r) : resolveKey eff ci k = .ok r := by
  unfold Cache.get? at h
  cases hf : c.find? (fun e => e.1 == k) with
  | none => simp [hf] at h
  | some e =>
    simp [hf] at h; subst h
    have hm := List.mem_of_find?_eq_some hf
    have hk : e.1 = k := by simpa using List.find?_some hf
    rw [← hk]; exact hc e hm

theorem lookup_spec (eff : MetaCfg) (ci : ClassInfo) (c : Cache) (hc : Inv eff ci c) (k : S) :
    (lookupKey false eff ci c k).1 = resolveKey eff ci k ∧ Inv eff ci (lookupKey false eff ci c k).2 := by
  unfold lookupKey
  cases hg : c.get? k with
  | some r =>
    have := get?_spec eff ci c hc k r hg
    exact ⟨by simp [this], by simpa using hc⟩
  | none =>
    simp only
    cases hres : resolveKey eff ci k with
    | error e => exact ⟨rfl, hc⟩
    | ok r =>
      cases r with
      | unknown =>
        by_cases hr : eff.raiseOnUnknown.getD false = true
        · have h1 : (if (eff.raiseOnUnknown.getD false && !false) = true then ((Except.ok KeyRes.unknown : Except LErr KeyRes), c)
              else (Except.ok KeyRes.unknown, (k, KeyRes.unknown) :: c)) = (Except.ok KeyRes.unknown, c) := by simp [hr]
          rw [h1]
          exact ⟨rfl, hc⟩
        · have hr' : eff.raiseOnUnknown.getD false = false := by simpa using hr
          have h1 : (if (eff.raiseOnUnknown.getD false && !false) = true then ((Except.ok KeyRes.unknown : Except LErr KeyRes), c)
              else (Except.ok KeyRes.unknown, (k, KeyRes.unknown) :: c)) = (Except.ok KeyRes.unknown, (k, KeyRes.unknown) :: c) := by simp [hr']
          rw [h1]
          refine ⟨rfl, ?_⟩
          intro e he
          rcases List.mem_cons.1 he with rfl | he
          · exact hres
          · exact hc e he
      | field f =>
        refine ⟨rfl, ?_⟩
        intro e he
        rcases List.mem_cons.1 he with rfl | he
        · exact hres
        · exact hc e he
      | ignored =>
        refine ⟨rfl, ?_⟩
        intro e he
        rcases List.mem_cons.1 he with rfl | he
        · exact hres
        · exact hc e he


/-- the key loop with the cache returns what the loop without it returns, for every cache satisfying the invariant, and
keeps the invariant -/
theorem keys_cached_eq (FL : S → JVal → LRes) (eff : MetaCfg) (ci : ClassInfo) :
    ∀ (kvs : List (S × JVal)) (c : Cache), Inv eff ci c →
      (loadKeysCached false FL eff ci c kvs).1 = loadKeysWith FL eff ci kvs ∧ Inv eff ci (loadKeysCached false FL eff ci c kvs).2
  | [], c, hc => ⟨rfl, hc⟩
  | (k, v) :: r, c, hc => by
    obtain ⟨h1, h2⟩ := lookup_spec eff ci c hc k
    rw [loadKeysCached, loadKeysWith]
    -- name the lookup result
    cases hl : lookupKey false eff ci c k with
    | mk res c1 =>
      rw [hl] at h1 h2
      simp only at h1 h2
      cases res with
      | error e =>
        simp only [← h1, bind, Except.bind]
        exact ⟨by first | trivial | rfl, h2⟩
      | ok kr =>
        cases kr with
        | field f =>
          simp only [← h1, bind, Except.bind]
          cases hy : (FL f v).mapError (setAttribution ci.name f) with
          | error e => exact ⟨by first | trivial | rfl, h2⟩
          | ok y =>
            obtain ⟨ih1, ih2⟩ := keys_cached_eq FL eff ci r c1 h2
            simp only
            cases hrec : loadKeysCached false FL eff ci c1 r with
            | mk rr c2 =>
              rw [hrec] at ih1 ih2
              simp only at ih1 ih2
              cases rr with
              | error e => simp only [← ih1]; exact ⟨by first | trivial | rfl, ih2⟩
              | ok p => obtain ⟨kw, ca⟩ := p; simp only [← ih1, pure, Except.pure]; exact ⟨by first | trivial | rfl, ih2⟩
        | ignored =>
          simp only [← h1, bind, Except.bind]
          exact keys_cached_eq FL eff ci r c1 h2
        | unknown =>
          simp only [← h1, bind, Except.bind]
          by_cases hr : eff.raiseOnUnknown.getD false = true
          · simp only [hr, if_true]
            exact ⟨by first | trivial | rfl, h2⟩
          · have hr' : eff.raiseOnUnknown.getD false = false := by simpa using hr
            simp only [hr', Bool.false_eq_true, if_false]
            obtain ⟨ih1, ih2⟩ := keys_cached_eq FL eff ci r c1 h2
            cases hrec : loadKeysCached false FL eff ci c1 r with
            | mk rr c2 =>
              rw [hrec] at ih1 ih2
              simp only at ih1 ih2
              cases rr with
              | error e => simp only [← ih1]; exact ⟨by first | trivial | rfl, ih2⟩
              | ok p =>
                obtain ⟨kw, ca⟩ := p
                simp only [← ih1]
                split <;> exact ⟨by first | trivial | rfl, ih2⟩


/-- one call: with any invariant-satisfying cache the generated function returns what it returns with an empty cache -/
theorem call_eq (FL : S → JVal → LRes) (eff : MetaCfg) (ci : ClassInfo) (c : Cache) (hc : Inv eff ci c)
    (kvs : List (S × JVal)) :
    (loadCall false FL eff ci c kvs).1 = loadClassWith FL eff ci (.dict kvs) ∧ Inv eff ci (loadCall false FL eff ci c kvs).2 := by
  obtain ⟨h1, h2⟩ := keys_cached_eq FL eff ci kvs c hc
  unfold loadCall
  cases hl : loadKeysCached false FL eff ci c kvs with
  | mk res c' =>
    rw [hl] at h1 h2
    simp only at h1 h2
    cases res with
    | error e => simp only [loadClassWith, ← h1, bind, Except.bind]; exact ⟨by first | trivial | rfl, h2⟩
    | ok p => obtain ⟨kw, ca⟩ := p; simp only [loadClassWith, ← h1, bind, Except.bind]; exact ⟨by first | trivial | rfl, h2⟩

theorem Inv_nil (eff : MetaCfg) (ci : ClassInfo) : Inv eff ci [] := by intro e he; simp at he

/-- any history of calls: every call returns what a call in a fresh process returns -/
theorem history_eq (FL : S → JVal → LRes) (eff : MetaCfg) (ci : ClassInfo) :
    ∀ (docs : List (List (S × JVal))) (c : Cache), Inv eff ci c →
      (runCalls false FL eff ci c docs).1 = docs.map (fun d => loadClassWith FL eff ci (.dict d))
  | [], _, _ => rfl
  | d :: r, c, hc => by
    obtain ⟨h1, h2⟩ := call_eq FL eff ci c hc d
    simp only [runCalls, List.map_cons]
    rw [← h1, history_eq FL eff ci r _ h2]

/-- any interleaved history of calls over any number of classes: every call returns what it returns in a fresh process -/
theorem world_eq (specs : Nat → ClsSpec) : ∀ (calls : List (Nat × List (S × JVal))) (w : World),
    (∀ n, Inv (specs n).eff (specs n).ci (w n)) →
    (runWorld false specs w calls).1 =
      calls.map (fun c => loadClassWith (specs c.1).fieldLoader (specs c.1).eff (specs c.1).ci (.dict c.2))
  | [], _, _ => rfl
  | (n, d) :: r, w, hw => by
    obtain ⟨h1, h2⟩ := call_eq (specs n).fieldLoader (specs n).eff (specs n).ci (w n) (hw n) d
    simp only [runWorld, List.map_cons]
    rw [← h1, world_eq specs r _ (by
      intro m
      by_cases hm : m = n
      · subst hm; simpa using h2
      · simpa [hm] using hw m)]

/-! ### one class, several policies: the functions generated for a class under different unknown-key policies share its cache -/

/-- the two effective Metas resolve every key alike (they differ in settings the key resolution does not read, such as
`raise_on_unknown_json_key`) -/
def SameKeys (ci : ClassInfo) (eff eff' : MetaCfg) : Prop := ∀ k, resolveKey eff ci k = resolveKey eff' ci k

theorem Inv_sameKeys (ci : ClassInfo) (eff eff' : MetaCfg) (h : SameKeys ci eff eff') (c : Cache) (hc : Inv eff ci c) :
    Inv eff' ci c := fun e he => by rw [← h e.1]; exact hc e he

/-- any history of calls on one class through functions generated under different policies (the class on its own, nested
under main classes with and without a cascading raise policy): every call returns what the same call returns in a fresh
process under *its* policy -/
theorem history_policies_eq (FL : S → JVal → LRes) (ci : ClassInfo) (eff0 : MetaCfg) :
    ∀ (calls : List (MetaCfg × List (S × JVal))) (c : Cache), Inv eff0 ci c → (∀ p ∈ calls, SameKeys ci eff0 p.1) →
      (runCallsP FL ci c calls).1 = calls.map (fun p => loadClassWith FL p.1 ci (.dict p.2))
  | [], _, _, _ => rfl
  | (eff, d) :: r, c, hc, hs => by
    have hse := hs (eff, d) (by simp)
    obtain ⟨h1, h2⟩ := call_eq FL eff ci c (Inv_sameKeys ci eff0 eff hse c hc) d
    have h2' : Inv eff0 ci (loadCall false FL eff ci c d).2 :=
      Inv_sameKeys ci eff eff0 (fun k => (hse k).symm) _ h2
    simp only [runCallsP, List.map_cons]
    rw [← h1, history_policies_eq FL ci eff0 r _ h2' (fun p hp => hs p (by simp [hp]))]

/-- `raise_on_unknown_json_key` is not read by the key resolution -/
theorem sameKeys_raise (ci : ClassInfo) (eff : MetaCfg) (b : Option Bool) : SameKeys ci eff { eff with raiseOnUnknown := b } :=
  fun _ => rfl

end DW.KeyCache
