/- Lemmas about the load-side key cache: cached lookups agree with the slow path under the cache invariant. -/
import DW.Model.KeyCache
namespace DW.KeyCache
open DW

def isUnknown : KeyRes → Bool
  | .unknown => true
  | _ => false

/-- every cached entry is what the slow path computes for that key, and a class that rejects unknown keys has cached
none of them -/
def Inv (eff : MetaCfg) (ci : ClassInfo) (c : Cache) : Prop :=
  ∀ e ∈ c, resolveKey eff ci e.1 = .ok e.2 ∧ (eff.raiseOnUnknown.getD false = true → isUnknown e.2 = false)

theorem get?_spec (eff : MetaCfg) (ci : ClassInfo) (c : Cache) (hc : Inv eff ci c) (k : S) (r : KeyRes)
    (h : c.get? k = some r) : resolveKey eff ci k = .ok r ∧ (eff.raiseOnUnknown.getD false = true → isUnknown r = false) := by
  unfold Cache.get? at h
  cases hf : c.find? (fun e => e.1 == k) with
  | none => simp [hf] at h
  | some e =>
    simp [hf] at h; subst h
    have hm := List.mem_of_find?_eq_some hf
    have hk : e.1 = k := by simpa using List.find?_some hf
    rw [← hk]; exact hc e hm

theorem lookup_spec (eff : MetaCfg) (ci : ClassInfo) (c : Cache) (hc : Inv eff ci c) (k : S) :
    (lookupKey false eff ci c k).1 = resolveKey eff ci k ∧ Inv eff ci (lookupKey false eff ci c k).2 ∧
    (eff.raiseOnUnknown.getD false = true → ∀ r, (lookupKey false eff ci c k).1 = .ok r → isUnknown r = true → c.get? k = none) := by
  unfold lookupKey
  cases hg : c.get? k with
  | some r =>
    have := get?_spec eff ci c hc k r hg
    refine ⟨by simp [this.1], by simpa using hc, ?_⟩
    intro hr r' hr' hu
    simp at hr'; subst hr'
    rw [this.2 hr] at hu; exact absurd hu (by decide)
  | none =>
    simp only
    cases hres : resolveKey eff ci k with
    | error e => exact ⟨rfl, hc, by intro _ r hr; simp at hr⟩
    | ok r =>
      cases r with
      | unknown =>
        by_cases hr : eff.raiseOnUnknown.getD false = true
        · have h1 : (if (eff.raiseOnUnknown.getD false && !false) = true then ((Except.ok KeyRes.unknown : Except LErr KeyRes), c)
              else (Except.ok KeyRes.unknown, (k, KeyRes.unknown) :: c)) = (Except.ok KeyRes.unknown, c) := by simp [hr]
          rw [h1]
          exact ⟨rfl, hc, fun _ _ _ _ => by first | trivial | rfl⟩
        · have hr' : eff.raiseOnUnknown.getD false = false := by simpa using hr
          have h1 : (if (eff.raiseOnUnknown.getD false && !false) = true then ((Except.ok KeyRes.unknown : Except LErr KeyRes), c)
              else (Except.ok KeyRes.unknown, (k, KeyRes.unknown) :: c)) = (Except.ok KeyRes.unknown, (k, KeyRes.unknown) :: c) := by simp [hr']
          rw [h1]
          refine ⟨rfl, ?_, fun h => by rw [hr'] at h; exact absurd h (by decide)⟩
          intro e he
          rcases List.mem_cons.1 he with rfl | he
          · exact ⟨hres, fun h => by rw [hr'] at h; exact absurd h (by decide)⟩
          · exact hc e he
      | field f =>
        refine ⟨rfl, ?_, fun _ r hr hu => by simp at hr; subst hr; simp [isUnknown] at hu⟩
        intro e he
        rcases List.mem_cons.1 he with rfl | he
        · exact ⟨hres, fun _ => rfl⟩
        · exact hc e he
      | ignored =>
        refine ⟨rfl, ?_, fun _ r hr hu => by simp at hr; subst hr; simp [isUnknown] at hu⟩
        intro e he
        rcases List.mem_cons.1 he with rfl | he
        · exact ⟨hres, fun _ => rfl⟩
        · exact hc e he


/-- the key loop with the cache returns what the loop without it returns, for every cache satisfying the invariant, and
keeps the invariant -/
theorem keys_cached_eq (FL : S → JVal → LRes) (eff : MetaCfg) (ci : ClassInfo) :
    ∀ (kvs : List (S × JVal)) (c : Cache), Inv eff ci c →
      (loadKeysCached false FL eff ci c kvs).1 = loadKeysWith FL eff ci kvs ∧ Inv eff ci (loadKeysCached false FL eff ci c kvs).2
  | [], c, hc => ⟨rfl, hc⟩
  | (k, v) :: r, c, hc => by
    obtain ⟨h1, h2, h3⟩ := lookup_spec eff ci c hc k
    rw [loadKeysCached, loadKeysWith]
    -- name the lookup result
    cases hl : lookupKey false eff ci c k with
    | mk res c1 =>
      rw [hl] at h1 h2 h3
      simp only at h1 h2 h3
      cases res with
      | error e =>
        simp only [← h1, bind, Except.bind]
        exact ⟨by first | trivial | rfl, h2⟩
      | ok kr =>
        cases kr with
        | field f =>
          simp only [← h1, bind, Except.bind]
          cases hy : (FL f v).mapError (setAttribution ci.name f) with
          | error e => exact ⟨by first | trivial | rfl, h2⟩
          | ok y =>
            obtain ⟨ih1, ih2⟩ := keys_cached_eq FL eff ci r c1 h2
            simp only
            cases hrec : loadKeysCached false FL eff ci c1 r with
            | mk rr c2 =>
              rw [hrec] at ih1 ih2
              simp only at ih1 ih2
              cases rr with
              | error e => simp only [← ih1]; exact ⟨by first | trivial | rfl, ih2⟩
              | ok p => obtain ⟨kw, ca⟩ := p; simp only [← ih1, pure, Except.pure]; exact ⟨by first | trivial | rfl, ih2⟩
        | ignored =>
          simp only [← h1, bind, Except.bind]
          exact keys_cached_eq FL eff ci r c1 h2
        | unknown =>
          simp only [← h1, bind, Except.bind]
          by_cases hr : eff.raiseOnUnknown.getD false = true
          · have hnone : c.get? k = none := h3 hr .unknown rfl rfl
            simp only [hr, hnone, Option.isNone_none, Bool.and_self, if_true]
            exact ⟨by first | trivial | rfl, h2⟩
          · have hr' : eff.raiseOnUnknown.getD false = false := by simpa using hr
            simp only [hr', Bool.false_and, Bool.false_eq_true, if_false]
            obtain ⟨ih1, ih2⟩ := keys_cached_eq FL eff ci r c1 h2
            cases hrec : loadKeysCached false FL eff ci c1 r with
            | mk rr c2 =>
              rw [hrec] at ih1 ih2
              simp only at ih1 ih2
              cases rr with
              | error e => simp only [← ih1]; exact ⟨by first | trivial | rfl, ih2⟩
              | ok p =>
                obtain ⟨kw, ca⟩ := p
                simp only [← ih1]
                split <;> exact ⟨by first | trivial | rfl, ih2⟩


/-- one call: with any invariant-satisfying cache the generated function returns what it returns with an empty cache -/
theorem call_eq (FL : S → JVal → LRes) (eff : MetaCfg) (ci : ClassInfo) (c : Cache) (hc : Inv eff ci c)
    (kvs : List (S × JVal)) :
    (loadCall false FL eff ci c kvs).1 = loadClassWith FL eff ci (.dict kvs) ∧ Inv eff ci (loadCall false FL eff ci c kvs).2 := by
  obtain ⟨h1, h2⟩ := keys_cached_eq FL eff ci kvs c hc
  unfold loadCall
  cases hl : loadKeysCached false FL eff ci c kvs with
  | mk res c' =>
    rw [hl] at h1 h2
    simp only at h1 h2
    cases res with
    | error e => simp only [loadClassWith, ← h1, bind, Except.bind]; exact ⟨by first | trivial | rfl, h2⟩
    | ok p => obtain ⟨kw, ca⟩ := p; simp only [loadClassWith, ← h1, bind, Except.bind]; exact ⟨by first | trivial | rfl, h2⟩

theorem Inv_nil (eff : MetaCfg) (ci : ClassInfo) : Inv eff ci [] := by intro e he; simp at he

/-- any history of calls: every call returns what a call in a fresh process returns -/
theorem history_eq (FL : S → JVal → LRes) (eff : MetaCfg) (ci : ClassInfo) :
    ∀ (docs : List (List (S × JVal))) (c : Cache), Inv eff ci c →
      (runCalls false FL eff ci c docs).1 = docs.map (fun d => loadClassWith FL eff ci (.dict d))
  | [], _, _ => rfl
  | d :: r, c, hc => by
    obtain ⟨h1, h2⟩ := call_eq FL eff ci c hc d
    simp only [runCalls, List.map_cons]
    rw [← h1, history_eq FL eff ci r _ h2]

/-- any interleaved history of calls over any number of classes: every call returns what it returns in a fresh process -/
theorem world_eq (specs : Nat → ClsSpec) : ∀ (calls : List (Nat × List (S × JVal))) (w : World),
    (∀ n, Inv (specs n).eff (specs n).ci (w n)) →
    (runWorld false specs w calls).1 =
      calls.map (fun c => loadClassWith (specs c.1).fieldLoader (specs c.1).eff (specs c.1).ci (.dict c.2))
  | [], _, _ => rfl
  | (n, d) :: r, w, hw => by
    obtain ⟨h1, h2⟩ := call_eq (specs n).fieldLoader (specs n).eff (specs n).ci (w n) (hw n) d
    simp only [runWorld, List.map_cons]
    rw [← h1, world_eq specs r _ (by
      intro m
      by_cases hm : m = n
      · subst hm; simpa using h2
      · simpa [hm] using hw m)]

end DW.KeyCache
