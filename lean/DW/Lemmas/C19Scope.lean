/- helper lemmas for DW/Props/C19.lean, part 2: every date-like type in the generator tree was registered as an
import (invariant of inference and merges); every name an annotation uses is bound. -/
import DW.Lemmas.C19

namespace DW.Gs
open DW DW.Str

/-! ### the registered-types invariant -/

theorem PrimsEs_append (G : List Imp) : ∀ (a b : List Elem), PrimsEs G (a ++ b) ↔ PrimsEs G a ∧ PrimsEs G b
  | [], b => by simp [PrimsEs]
  | e :: r, b => by simp [PrimsEs, PrimsEs_append G r b, and_assoc]

theorem PrimsEs_mem (G : List Imp) : ∀ (es : List Elem) (e : Elem), PrimsEs G es → e ∈ es → PrimsE G e
  | [], _, _, h => by simp at h
  | e0 :: r, e, hp, h => by
    simp only [PrimsEs] at hp
    rcases List.mem_cons.mp h with h | h
    · subst h; exact hp.1
    · exact PrimsEs_mem G r e hp.2 h

theorem PrimsEs_tcAppend (G : List Imp) (dedup : Bool) (tc : TC) (e : Elem) (h1 : PrimsEs G tc.1) (h2 : PrimsE G e) :
    PrimsEs G (tcAppend dedup tc e).1 := by
  unfold tcAppend
  split
  · exact h1
  · exact (PrimsEs_append G _ _).mpr ⟨h1, by simp [PrimsEs, h2]⟩

theorem PrimsEs_tcAppendAll (G : List Imp) (dedup : Bool) : ∀ (es : List Elem) (tc : TC), PrimsEs G tc.1 → PrimsEs G es →
    PrimsEs G (tcAppendAll dedup tc es).1
  | [], tc, h1, _ => by rw [tcAppendAll]; exact h1
  | e :: r, tc, h1, h2 => by
    rw [tcAppendAll]
    simp only [PrimsEs] at h2
    exact PrimsEs_tcAppendAll G dedup r _ (PrimsEs_tcAppend G dedup tc e h1 h2.1) h2.2

theorem PrimsFs_lookup (G : List Imp) : ∀ (fs : Fields) (k : S) (tc : TC), PrimsFs G fs → fieldsLookup k fs = some tc →
    PrimsEs G tc.1
  | [], _, _, _, h => by simp [fieldsLookup] at h
  | (k0, es, o) :: r, k, tc, hp, h => by
    simp only [PrimsFs] at hp
    by_cases hk : k0 = k
    · simp [fieldsLookup, hk] at h; subst h; exact hp.1
    · simp [fieldsLookup, hk] at h; exact PrimsFs_lookup G r k tc hp.2 h

theorem PrimsFs_set (G : List Imp) : ∀ (fs : Fields) (k : S) (tc : TC), PrimsFs G fs → PrimsEs G tc.1 →
    PrimsFs G (fieldsSet k tc fs)
  | [], k, tc, _, h => by simp [fieldsSet, PrimsFs, h]
  | (k0, es, o) :: r, k, tc, hp, h => by
    simp only [PrimsFs] at hp
    by_cases hk : k0 = k
    · simp [fieldsSet, hk, PrimsFs, h, hp.2]
    · simp [fieldsSet, hk, PrimsFs, hp.1, PrimsFs_set G r k tc hp.2 h]

theorem PrimsFs_append (G : List Imp) : ∀ (a b : Fields), PrimsFs G (a ++ b) ↔ PrimsFs G a ∧ PrimsFs G b
  | [], b => by simp [PrimsFs]
  | (k, es, o) :: r, b => by simp [PrimsFs, PrimsFs_append G r b, and_assoc]

theorem PrimsFs_update (G : List Imp) (fs : Fields) (k : S) (f : TC → TC) (hp : PrimsFs G fs)
    (hf : ∀ tc, PrimsEs G tc.1 → PrimsEs G (f tc).1) : PrimsFs G (fieldsUpdate k f fs) := by
  unfold fieldsUpdate
  apply PrimsFs_set G fs k _ hp
  apply hf
  cases hl : fieldsLookup k fs with
  | none => simp [PrimsEs]
  | some tc => exact PrimsFs_lookup G fs k tc hp hl

theorem PrimsD_firstCls (G : List Imp) : ∀ (es : List Elem) (m : DGen), PrimsEs G es → firstCls es = some m → PrimsD G m
  | [], _, _, h => by simp [firstCls] at h
  | .cls d :: r, m, hp, h => by
    simp only [firstCls, Option.some.injEq] at h; subst h
    simp only [PrimsEs, PrimsE] at hp; exact hp.1
  | .prim p :: r, m, hp, h => by
    simp only [firstCls] at h; simp only [PrimsEs] at hp
    exact PrimsD_firstCls G r m hp.2 h
  | .lst l :: r, m, hp, h => by
    simp only [firstCls] at h; simp only [PrimsEs] at hp
    exact PrimsD_firstCls G r m hp.2 h

theorem PrimsEs_replace (G : List Imp) (d : DGen) (hd : PrimsD G d) : ∀ (es : List Elem), PrimsEs G es →
    PrimsEs G (replaceFirstCls d es)
  | [], _ => by simp [replaceFirstCls, PrimsEs]
  | .cls c :: r, hp => by
    simp only [PrimsEs] at hp
    simp [replaceFirstCls, PrimsEs, PrimsE, hd, hp.2]
  | .prim p :: r, hp => by
    simp only [PrimsEs] at hp
    simp [replaceFirstCls, PrimsEs, hp.1, PrimsEs_replace G d hd r hp.2]
  | .lst l :: r, hp => by
    simp only [PrimsEs] at hp
    simp [replaceFirstCls, PrimsEs, hp.1, PrimsEs_replace G d hd r hp.2]

mutual
theorem PrimsEs_mergeTC (G : List Imp) (dedup : Bool) : ∀ (oes : List Elem) (oopt : Bool) (s : TC),
    PrimsEs G s.1 → PrimsEs G oes → PrimsEs G (mergeTC dedup s oes oopt).1
  | [], oopt, s, h1, _ => by rw [mergeTC]; exact h1
  | [e], oopt, s, h1, h2 => by
    rw [mergeTC]
    simp only [PrimsEs] at h2
    exact PrimsEs_mergeOne G dedup e _ h1 h2.1
  | e :: e' :: r, oopt, s, h1, h2 => by
    rw [mergeTC]
    exact PrimsEs_tcAppendAll G dedup _ _ h1 h2
theorem PrimsEs_mergeOne (G : List Imp) (dedup : Bool) : ∀ (e : Elem) (s : TC),
    PrimsEs G s.1 → PrimsE G e → PrimsEs G (mergeOne dedup s e).1
  | .prim p, s, h1, h2 => by rw [mergeOne]; exact PrimsEs_tcAppend G dedup s _ h1 h2
  | .cls b, s, h1, h2 => by
    rw [mergeOne]
    split
    · rename_i a ha
      rw [soleCls_some ha] at h1
      simp only [PrimsEs, PrimsE] at h1 h2 ⊢
      exact ⟨PrimsD_mergeD G dedup b a h1.1 h2, trivial⟩
    · exact PrimsEs_tcAppend G dedup s _ h1 h2
  | .lst b, s, h1, h2 => by
    rw [mergeOne]
    split
    · rename_i a ha
      rw [soleLst_some ha] at h1
      simp only [PrimsEs, PrimsE] at h1 h2 ⊢
      exact ⟨PrimsL_mergeL G dedup b a h1.1 h2, trivial⟩
    · exact PrimsEs_tcAppend G dedup s _ h1 h2
theorem PrimsD_mergeD (G : List Imp) (dedup : Bool) : ∀ (b a : DGen), PrimsD G a → PrimsD G b → PrimsD G (mergeD dedup a b)
  | .mk _ _ bfs, a, h1, h2 => by
    rw [mergeD]
    simp only [PrimsD] at h2 ⊢
    cases a with
    | mk an ar afs =>
      simp only [PrimsD] at h1
      exact PrimsFs_mergeFields G dedup bfs afs h1 h2
theorem PrimsFs_mergeFields (G : List Imp) (dedup : Bool) : ∀ (bfs : List (S × List Elem × Bool)) (afs : Fields),
    PrimsFs G afs → PrimsFs G bfs → PrimsFs G (mergeFields dedup afs bfs)
  | [], afs, h1, _ => by rw [mergeFields]; exact h1
  | (k, oes, oopt) :: rest, afs, h1, h2 => by
    rw [mergeFields]
    simp only [PrimsFs] at h2
    apply PrimsFs_mergeFields G dedup rest _ _ h2.2
    cases hl : fieldsLookup k afs with
    | none => exact (PrimsFs_append G _ _).mpr ⟨h1, by simp [PrimsFs, h2.1]⟩
    | some tc =>
      exact PrimsFs_set G afs k _ h1 (PrimsEs_mergeTC G dedup oes oopt tc (PrimsFs_lookup G afs k tc h1 hl) h2.1)
theorem PrimsL_mergeL (G : List Imp) (dedup : Bool) : ∀ (b a : LGen), PrimsL G a → PrimsL G b → PrimsL G (mergeL dedup a b)
  | .mk _ _ _ bes _, a, h1, h2 => by
    rw [mergeL]
    simp only [PrimsL] at h2 ⊢
    cases a with
    | mk ad ac an aes ao =>
      simp only [PrimsL] at h1
      exact PrimsEs_mergeLElems G dedup bes aes h1 h2
theorem PrimsEs_mergeLElems (G : List Imp) (dedup : Bool) : ∀ (bes aes : List Elem), PrimsEs G aes → PrimsEs G bes →
    PrimsEs G (mergeLElems dedup aes bes)
  | [], aes, h1, _ => by rw [mergeLElems]; exact h1
  | t :: rest, aes, h1, h2 => by
    rw [mergeLElems]
    simp only [PrimsEs] at h2
    exact PrimsEs_mergeLElems G dedup rest _ (PrimsEs_mergeLStep G dedup t aes h1 h2.1) h2.2
theorem PrimsEs_mergeLStep (G : List Imp) (dedup : Bool) : ∀ (e : Elem) (aes : List Elem), PrimsEs G aes → PrimsE G e →
    PrimsEs G (mergeLStep dedup aes e)
  | .cls b, aes, h1, h2 => by
    rw [mergeLStep]
    split
    · rename_i m hm
      simp only [PrimsE] at h2
      exact PrimsEs_replace G _ (PrimsD_mergeD G dedup b m (PrimsD_firstCls G aes m h1 hm) h2) aes h1
    · exact PrimsEs_tcAppend G dedup (aes, false) _ h1 h2
  | .lst l, aes, h1, h2 => by rw [mergeLStep]; exact PrimsEs_tcAppend G dedup (aes, false) _ h1 h2
  | .prim p, aes, h1, h2 => by rw [mergeLStep]; exact PrimsEs_tcAppend G dedup (aes, false) _ h1 h2
end

/-! ### inference registers what it appends -/

theorem PrimOK_of_scalar (G : List Imp) (std : GsStd) (force : Bool) (v : JVal)
    (hv : ∀ i ∈ docImps std force v, i ∈ G) : ∀ ps, scalarPrims std force v = some ps → ∀ p ∈ ps, PrimOK G p := by
  intro ps hps p hp i hi
  cases v with
  | null => simp [scalarPrims] at hps
  | bool b => simp [scalarPrims] at hps; subst hps; simp at hp; subst hp; simp [Prim.imps] at hi
  | int n => simp [scalarPrims] at hps; subst hps; simp at hp; subst hp; simp [Prim.imps] at hi
  | float f => simp [scalarPrims] at hps; subst hps; simp at hp; subst hp; simp [Prim.imps] at hi
  | str s =>
    simp [scalarPrims] at hps; subst hps
    apply hv
    simp only [docImps, List.mem_flatMap]
    exact ⟨p, hp, hi⟩
  | list xs => simp [scalarPrims] at hps; subst hps; simp at hp
  | dict kvs => simp [scalarPrims] at hps; subst hps; simp at hp

theorem PrimsEs_map_prim (G : List Imp) : ∀ (ps : List Prim), (∀ p ∈ ps, PrimOK G p) → PrimsEs G (ps.map .prim)
  | [], _ => by simp [PrimsEs]
  | p :: r, h => by
    simp only [List.map, PrimsEs, PrimsE]
    exact ⟨h p (by simp), PrimsEs_map_prim G r (fun q hq => h q (by simp [hq]))⟩

theorem PrimsEs_tcAppendScalar (G : List Imp) (tc : TC) (sp : Option (List Prim)) (h1 : PrimsEs G tc.1)
    (h2 : ∀ ps, sp = some ps → ∀ p ∈ ps, PrimOK G p) : PrimsEs G (tcAppendScalar tc sp).1 := by
  cases sp with
  | none => exact h1
  | some ps => exact PrimsEs_tcAppendAll G true _ tc h1 (PrimsEs_map_prim G ps (h2 ps rfl))

theorem PrimsFs_fieldScalar (G : List Imp) (std : GsStd) (fl : Flags) (k : S) (v : JVal) (acc : Fields)
    (hv : ∀ i ∈ docImps std fl.forceStrings v, i ∈ G) (hp : PrimsFs G acc) : PrimsFs G (fieldScalar std fl k v acc) :=
  PrimsFs_update G acc _ _ hp (fun tc h => PrimsEs_tcAppendScalar G tc _ h (PrimOK_of_scalar G std _ v hv))

mutual
theorem inferFields_prims (G : List Imp) (std : GsStd) (fl : Flags) : ∀ (kvs : List (S × JVal)) (lvl : Nat) (acc : Fields),
    (∀ i ∈ docImpsD std fl.forceStrings kvs, i ∈ G) → PrimsFs G acc → PrimsFs G (inferFields std fl lvl kvs acc)
  | [], lvl, acc, _, hp => by rw [inferFields]; exact hp
  | (k, v) :: rest, lvl, acc, hi, hp => by
    simp only [docImpsD, List.mem_append] at hi
    have hv : ∀ i ∈ docImps std fl.forceStrings v, i ∈ G := fun i h => hi i (Or.inl h)
    have hr : ∀ i ∈ docImpsD std fl.forceStrings rest, i ∈ G := fun i h => hi i (Or.inr h)
    cases v with
    | dict kvs' =>
      simp only [inferFields]
      apply inferFields_prims G std fl rest lvl _ hr
      apply PrimsFs_update G acc _ _ hp
      intro tc htc
      apply PrimsEs_tcAppend G _ tc _ htc
      simp only [PrimsE, PrimsD]
      exact inferFields_prims G std fl kvs' lvl [] (by simpa only [docImps] using hv) (by simp [PrimsFs])
    | list xs =>
      simp only [inferFields]
      apply inferFields_prims G std fl rest (lvl + 1) _ hr
      apply PrimsFs_update G acc _ _ hp
      intro tc htc
      apply PrimsEs_tcAppend G _ tc _ htc
      simp only [PrimsE, PrimsL]
      exact inferElems_prims G std fl xs _ false (lvl + 1) ([], false) (by simpa only [docImps] using hv) (by simp [PrimsEs])
    | null => simp only [inferFields]; exact inferFields_prims G std fl rest lvl _ hr (PrimsFs_fieldScalar G std fl k _ acc hv hp)
    | bool b => simp only [inferFields]; exact inferFields_prims G std fl rest lvl _ hr (PrimsFs_fieldScalar G std fl k _ acc hv hp)
    | int n => simp only [inferFields]; exact inferFields_prims G std fl rest lvl _ hr (PrimsFs_fieldScalar G std fl k _ acc hv hp)
    | float f => simp only [inferFields]; exact inferFields_prims G std fl rest lvl _ hr (PrimsFs_fieldScalar G std fl k _ acc hv hp)
    | str s => simp only [inferFields]; exact inferFields_prims G std fl rest lvl _ hr (PrimsFs_fieldScalar G std fl k _ acc hv hp)
theorem inferElems_prims (G : List Imp) (std : GsStd) (fl : Flags) :
    ∀ (xs : List JVal) (name : S) (isRoot : Bool) (lvl : Nat) (acc : TC),
      (∀ i ∈ docImpsL std fl.forceStrings xs, i ∈ G) → PrimsEs G acc.1 → PrimsEs G (inferElems std fl name isRoot lvl xs acc).1
  | [], name, isRoot, lvl, acc, _, hp => by rw [inferElems]; exact hp
  | x :: rest, name, isRoot, lvl, acc, hi, hp => by
    simp only [docImpsL, List.mem_append] at hi
    have hv : ∀ i ∈ docImps std fl.forceStrings x, i ∈ G := fun i h => hi i (Or.inl h)
    have hr : ∀ i ∈ docImpsL std fl.forceStrings rest, i ∈ G := fun i h => hi i (Or.inr h)
    cases x with
    | dict kvs =>
      simp only [inferElems, elemsAddCls]
      apply inferElems_prims G std fl rest name isRoot lvl _ hr
      apply PrimsEs_mergeLStep G _ _ acc.1 hp
      simp only [PrimsE, PrimsD]
      exact inferFields_prims G std fl kvs lvl [] (by simpa only [docImps] using hv) (by simp [PrimsFs])
    | list ys =>
      simp only [inferElems]
      apply inferElems_prims G std fl rest name isRoot (lvl + 1) _ hr
      apply PrimsEs_tcAppend G _ acc _ hp
      simp only [PrimsE, PrimsL]
      exact inferElems_prims G std fl ys _ false (lvl + 1) ([], false) (by simpa only [docImps] using hv) (by simp [PrimsEs])
    | null =>
      simp only [inferElems]
      exact inferElems_prims G std fl rest name isRoot lvl _ hr (PrimsEs_tcAppendScalar G acc _ hp (PrimOK_of_scalar G std _ _ hv))
    | bool b =>
      simp only [inferElems]
      exact inferElems_prims G std fl rest name isRoot lvl _ hr (PrimsEs_tcAppendScalar G acc _ hp (PrimOK_of_scalar G std _ _ hv))
    | int n =>
      simp only [inferElems]
      exact inferElems_prims G std fl rest name isRoot lvl _ hr (PrimsEs_tcAppendScalar G acc _ hp (PrimOK_of_scalar G std _ _ hv))
    | float f =>
      simp only [inferElems]
      exact inferElems_prims G std fl rest name isRoot lvl _ hr (PrimsEs_tcAppendScalar G acc _ hp (PrimOK_of_scalar G std _ _ hv))
    | str s =>
      simp only [inferElems]
      exact inferElems_prims G std fl rest name isRoot lvl _ hr (PrimsEs_tcAppendScalar G acc _ hp (PrimOK_of_scalar G std _ _ hv))
end

theorem rootExtras_prims (G : List Imp) (std : GsStd) (fl : Flags) : ∀ (xs : List JVal) (lvl : Nat),
    (∀ i ∈ docImpsL std fl.forceStrings xs, i ∈ G) → ∀ tc ∈ rootExtras std fl lvl xs, PrimsEs G tc.1
  | [], lvl, _, tc, h => by simp [rootExtras] at h
  | x :: rest, lvl, hi, tc, h => by
    simp only [docImpsL, List.mem_append] at hi
    have hv : ∀ i ∈ docImps std fl.forceStrings x, i ∈ G := fun i h => hi i (Or.inl h)
    have hr : ∀ i ∈ docImpsL std fl.forceStrings rest, i ∈ G := fun i h => hi i (Or.inr h)
    have hs : ∀ v, (∀ i ∈ docImps std fl.forceStrings v, i ∈ G) →
        PrimsEs G (tcAppendScalar ([], false) (scalarPrims std fl.forceStrings v)).1 :=
      fun v hv => PrimsEs_tcAppendScalar G _ _ (by simp [PrimsEs]) (PrimOK_of_scalar G std _ v hv)
    cases x with
    | dict kvs => simp only [rootExtras] at h; exact rootExtras_prims G std fl rest lvl hr tc h
    | list ys =>
      simp only [rootExtras, List.mem_cons] at h
      rcases h with h | h
      · subst h
        simp only [PrimsEs, PrimsE, PrimsL]
        exact ⟨inferElems_prims G std fl ys _ false (lvl + 1) ([], false) (by simpa only [docImps] using hv) (by simp [PrimsEs]), trivial⟩
      · exact rootExtras_prims G std fl rest (lvl + 1) hr tc h
    | null =>
      simp only [rootExtras, List.mem_cons] at h
      rcases h with h | h
      · subst h; exact hs _ hv
      · exact rootExtras_prims G std fl rest lvl hr tc h
    | bool b =>
      simp only [rootExtras, List.mem_cons] at h
      rcases h with h | h
      · subst h; exact hs _ hv
      · exact rootExtras_prims G std fl rest lvl hr tc h
    | int n =>
      simp only [rootExtras, List.mem_cons] at h
      rcases h with h | h
      · subst h; exact hs _ hv
      · exact rootExtras_prims G std fl rest lvl hr tc h
    | float f =>
      simp only [rootExtras, List.mem_cons] at h
      rcases h with h | h
      · subst h; exact hs _ hv
      · exact rootExtras_prims G std fl rest lvl hr tc h
    | str s =>
      simp only [rootExtras, List.mem_cons] at h
      rcases h with h | h
      · subst h; exact hs _ hv
      · exact rootExtras_prims G std fl rest lvl hr tc h

theorem numberFields_prims (G : List Imp) : ∀ (tcs : List TC) (i : Nat), (∀ tc ∈ tcs, PrimsEs G tc.1) →
    PrimsFs G (numberFields i tcs)
  | [], _, _ => by simp [numberFields, PrimsFs]
  | tc :: r, i, h => by
    simp only [numberFields, PrimsFs]
    exact ⟨h tc (by simp), numberFields_prims G r (i + 1) (fun t ht => h t (by simp [ht]))⟩

/-- every date-like type in the tree `gsInfer` builds was registered while the document was read -/
theorem gsInfer_prims (G : List Imp) (std : GsStd) (fl : Flags) (doc : JVal) (s : Schema)
    (hi : ∀ i ∈ docImps std fl.forceStrings doc, i ∈ G) (h : gsInfer std fl doc = some s) : PrimsD G s.rootD := by
  cases doc with
  | dict kvs =>
    simp only [gsInfer, Option.some.injEq] at h
    subst h
    simp only [Schema.rootD, PrimsD]
    exact inferFields_prims G std fl kvs 0 [] (by simpa only [docImps] using hi) (by simp [PrimsFs])
  | list xs =>
    simp only [gsInfer, Option.some.injEq] at h
    subst h
    simp only [Schema.rootD, PrimsD]
    have hx : ∀ i ∈ docImpsL std fl.forceStrings xs, i ∈ G := by simpa only [docImps] using hi
    have he := inferElems_prims G std fl xs (lgName std none 0) true 0 ([], false) hx (by simp [PrimsEs])
    apply (PrimsFs_append G _ _).mpr
    refine ⟨?_, numberFields_prims G _ 1 (rootExtras_prims G std fl xs 0 hx)⟩
    cases hm : firstCls (inferElems std fl (lgName std none 0) true 0 xs ([], false)).1 with
    | none => simp [PrimsFs]
    | some m => simp only [PrimsFs, PrimsEs, PrimsE]; exact ⟨⟨PrimsD_firstCls G _ m he hm, trivial⟩, trivial⟩
  | null => simp [gsInfer] at h
  | bool b => simp [gsInfer] at h
  | int i => simp [gsInfer] at h
  | float f => simp [gsInfer] at h
  | str x => simp [gsInfer] at h

/-! ### annotations only use bound names -/

mutual
/-- the class references an element's annotation makes (through nested list generators) are among `N` -/
def RefE (N : List S) : Elem → Prop
  | .prim _ => True
  | .cls d => d.name ∈ N
  | .lst l => RefL N l
def RefEs (N : List S) : List Elem → Prop
  | [] => True
  | e :: r => RefE N e ∧ RefEs N r
def RefL (N : List S) : LGen → Prop
  | .mk _ _ _ es _ => RefEs N es
end

theorem mem_usedNamesL (n : S) : ∀ (ts : List TyExpr), n ∈ TyExpr.usedNamesL ts → ∃ t ∈ ts, n ∈ t.usedNames
  | [], h => by simp [TyExpr.usedNamesL] at h
  | t :: r, h => by
    simp only [TyExpr.usedNamesL, List.mem_append] at h
    rcases h with h | h
    · exact ⟨t, by simp, h⟩
    · obtain ⟨t', ht', hn⟩ := mem_usedNamesL n r h
      exact ⟨t', by simp [ht'], hn⟩

theorem mem_refsL (n : S) : ∀ (ts : List TyExpr), n ∈ TyExpr.refsL ts → ∃ t ∈ ts, n ∈ t.refs
  | [], h => by simp [TyExpr.refsL] at h
  | t :: r, h => by
    simp only [TyExpr.refsL, List.mem_append] at h
    rcases h with h | h
    · exact ⟨t, by simp, h⟩
    · obtain ⟨t', ht', hn⟩ := mem_refsL n r h
      exact ⟨t', by simp [ht'], hn⟩

theorem TyOK_none (G : List Imp) (N : List S) : TyOK G N .none := by simp [TyOK, TyExpr.usedNames, TyExpr.refs]

theorem TyOK_bor (G : List Imp) (N : List S) (alts : List TyExpr) (h : ∀ t ∈ alts, TyOK G N t) : TyOK G N (.bor alts) := by
  constructor
  · intro n hn
    simp only [TyExpr.usedNames] at hn
    obtain ⟨t, ht, hn'⟩ := mem_usedNamesL n alts hn
    exact (h t ht).1 n hn'
  · intro n hn
    simp only [TyExpr.refs] at hn
    obtain ⟨t, ht, hn'⟩ := mem_refsL n alts hn
    exact (h t ht).2 n hn'

theorem TyOK_app (G : List Imp) (N : List S) (hd : S) (args : List TyExpr)
    (hh : hd ∈ builtinNames ∨ ∃ i ∈ G, i.pyName = hd) (h : ∀ t ∈ args, TyOK G N t) : TyOK G N (.app hd args) := by
  constructor
  · intro n hn
    simp only [TyExpr.usedNames, List.mem_cons] at hn
    rcases hn with hn | hn
    · subst hn; exact hh
    · obtain ⟨t, ht, hn'⟩ := mem_usedNamesL n args hn
      exact (h t ht).1 n hn'
  · intro n hn
    simp only [TyExpr.refs] at hn
    obtain ⟨t, ht, hn'⟩ := mem_refsL n args hn
    exact (h t ht).2 n hn'

theorem TyOK_nm (G : List Imp) (N : List S) (n : S) (hh : n ∈ builtinNames ∨ ∃ i ∈ G, i.pyName = n) : TyOK G N (.nm n) := by
  constructor
  · intro m hm
    simp only [TyExpr.usedNames, List.mem_singleton] at hm
    subst hm; exact hh
  · intro m hm; simp [TyExpr.refs] at hm

theorem TyOK_prim (G : List Imp) (N : List S) (p : Prim) (hp : PrimOK G p) : TyOK G N (.nm p.pyName) := by
  apply TyOK_nm
  cases p with
  | str => left; decide
  | float => left; decide
  | int => left; decide
  | bool => left; decide
  | date => right; exact ⟨.date, hp _ (by simp [Prim.imps]), rfl⟩
  | datetime => right; exact ⟨.datetime, hp _ (by simp [Prim.imps]), rfl⟩
  | time => right; exact ⟨.time, hp _ (by simp [Prim.imps]), rfl⟩

mutual
theorem strTC_ok (G : List Imp) (N : List S) (exp : Bool) : ∀ (es : List Elem) (opt : Bool),
    PrimsEs G es → RefEs N es → (∀ i ∈ (strTC exp es opt).2, i ∈ G) → TyOK G N (strTC exp es opt).1
  | [], opt, _, _, hi => by
    simp only [strTC] at hi ⊢
    exact TyOK_nm G N _ (Or.inr ⟨.any, hi _ (by simp), rfl⟩)
  | e :: es, opt, hp, hr, hi => by
    simp only [PrimsEs] at hp
    simp only [RefEs] at hr
    cases exp with
    | true =>
      simp only [strTC, if_true] at hi ⊢
      have ha := strElem_ok G N true e hp.1 hr.1 (fun i h => hi i (by simp [h]))
      have hb := strElems_ok G N true es hp.2 hr.2 (fun i h => hi i (by simp [h]))
      have hall : ∀ t ∈ ((strElem true e).1 :: (strElems true es).1) ++ (if opt = true then [TyExpr.none] else []),
          TyOK G N t := by
        intro t ht
        simp only [List.mem_append, List.mem_cons] at ht
        rcases ht with (ht | ht) | ht
        · subst ht; exact ha
        · exact hb t ht
        · cases opt <;> simp at ht
          subst ht; exact TyOK_none G N
      split
      · rename_i t heq
        exact hall t (by rw [heq]; simp)
      · exact TyOK_bor G N _ hall
    | false =>
      have hsub : ∀ i, i ∈ (strElem false e).2 ++ (strElems false es).2 → i ∈ (strTC false (e :: es) opt).2 := by
        intro i h
        simp only [strTC]
        cases opt <;> simp [List.mem_append] at h ⊢ <;> rcases h with h | h <;> simp [h]
      have ha := strElem_ok G N false e hp.1 hr.1 (fun i h => hi i (hsub i (by simp [h])))
      have hb := strElems_ok G N false es hp.2 hr.2 (fun i h => hi i (hsub i (by simp [h])))
      have hall : ∀ t ∈ ((strElem false e).1 :: (strElems false es).1), TyOK G N t := by
        intro t ht
        rcases List.mem_cons.mp ht with ht | ht
        · subst ht; exact ha
        · exact hb t ht
      simp only [strTC] at hi ⊢
      cases hes : (strElems false es).1 with
      | nil =>
        simp only [hes] at hi ⊢
        cases opt with
        | false => simpa using ha
        | true =>
          simp only [if_true] at hi ⊢
          exact TyOK_app G N _ _ (Or.inr ⟨.optional, hi _ (by simp), rfl⟩) (by simpa using ha)
      | cons t2 r2 =>
        simp only [hes] at hi hall ⊢
        cases opt with
        | false =>
          simp at hi ⊢
          exact TyOK_app G N _ _ (Or.inr ⟨.union, hi _ (by simp), rfl⟩) hall
        | true =>
          simp only [if_true] at hi ⊢
          refine TyOK_app G N _ _ (Or.inr ⟨.optional, hi _ (by simp), rfl⟩) ?_
          intro t ht
          simp only [List.mem_singleton] at ht
          subst ht
          exact TyOK_app G N _ _ (Or.inr ⟨.union, hi _ (by simp), rfl⟩) hall
theorem strElems_ok (G : List Imp) (N : List S) (exp : Bool) : ∀ (es : List Elem),
    PrimsEs G es → RefEs N es → (∀ i ∈ (strElems exp es).2, i ∈ G) → ∀ t ∈ (strElems exp es).1, TyOK G N t
  | [], _, _, _, t, ht => by simp [strElems] at ht
  | e :: es, hp, hr, hi, t, ht => by
    simp only [PrimsEs] at hp
    simp only [RefEs] at hr
    simp only [strElems, List.mem_cons] at ht hi
    rcases ht with ht | ht
    · subst ht
      exact strElem_ok G N exp e hp.1 hr.1 (fun i h => hi i (by simp [h]))
    · exact strElems_ok G N exp es hp.2 hr.2 (fun i h => hi i (by simp [h])) t ht
theorem strElem_ok (G : List Imp) (N : List S) (exp : Bool) : ∀ (e : Elem),
    PrimsE G e → RefE N e → (∀ i ∈ (strElem exp e).2, i ∈ G) → TyOK G N (strElem exp e).1
  | .prim p, hp, _, _ => by
    simp only [strElem]
    exact TyOK_prim G N p hp
  | .cls (.mk n r fs), _, hr, _ => by
    simp only [strElem]
    constructor
    · intro m hm; simp [TyExpr.usedNames] at hm
    · intro m hm
      simp only [TyExpr.refs, List.mem_singleton] at hm
      subst hm
      simpa [RefE, DGen.name] using hr
  | .lst (.mk d c n es opt), hp, hr, hi => by
    simp only [PrimsE, PrimsL] at hp
    simp only [RefE, RefL] at hr
    cases es with
    | nil =>
      cases exp with
      | true => simp only [strElem]; exact TyOK_nm G N _ (Or.inl (by decide))
      | false =>
        simp only [strElem] at hi ⊢
        exact TyOK_nm G N _ (Or.inr ⟨.list, hi _ (by simp), rfl⟩)
    | cons e0 r0 =>
      cases exp with
      | true =>
        simp only [strElem] at hi ⊢
        refine TyOK_app G N _ _ (Or.inl (by decide)) ?_
        intro t ht
        simp only [List.mem_singleton] at ht
        subst ht
        exact strTC_ok G N true (e0 :: r0) opt hp hr (fun i h => hi i h)
      | false =>
        simp only [strElem] at hi ⊢
        refine TyOK_app G N _ _ (Or.inr ⟨.list, hi _ (by simp), rfl⟩) ?_
        intro t ht
        simp only [List.mem_singleton] at ht
        subst ht
        exact strTC_ok G N false (e0 :: r0) opt hp hr (fun i h => hi i (by simp [h]))
end

/-! ### what `repr` emits for a container is what it emits for its elements -/

theorem mem_classesElems (exp : Bool) (c : ClassAst) : ∀ (es : List Elem),
    c ∈ (classesElems exp es).1 ↔ ∃ e ∈ es, c ∈ (elemClasses exp e).1
  | [] => by simp [classesElems]
  | .prim p :: es => by simp [classesElems, mem_classesElems exp c es, elemClasses]
  | .cls d :: es => by simp [classesElems, mem_classesElems exp c es, elemClasses]
  | .lst l :: es => by simp [classesElems, mem_classesElems exp c es, elemClasses]

theorem mem_classesElems_imp (exp : Bool) (i : Imp) : ∀ (es : List Elem),
    i ∈ (classesElems exp es).2 ↔ ∃ e ∈ es, i ∈ (elemClasses exp e).2
  | [] => by simp [classesElems]
  | .prim p :: es => by simp [classesElems, mem_classesElems_imp exp i es, elemClasses]
  | .cls d :: es => by simp [classesElems, mem_classesElems_imp exp i es, elemClasses]
  | .lst l :: es => by simp [classesElems, mem_classesElems_imp exp i es, elemClasses]

theorem mem_classesLModel (exp : Bool) (c : ClassAst) : ∀ (es : List Elem),
    c ∈ (classesLModel exp es).1 ↔ ∃ d, Elem.cls d ∈ es ∧ c ∈ (classesD exp d).1
  | [] => by simp [classesLModel]
  | .prim p :: es => by simp [classesLModel, mem_classesLModel exp c es]
  | .cls d :: es => by simp [classesLModel, mem_classesLModel exp c es]
  | .lst l :: es => by simp [classesLModel, mem_classesLModel exp c es]

theorem mem_classesLLists (exp : Bool) (c : ClassAst) : ∀ (es : List Elem),
    c ∈ (classesLLists exp es).1 ↔ ∃ l, Elem.lst l ∈ es ∧ c ∈ (classesL exp l).1
  | [] => by simp [classesLLists]
  | .prim p :: es => by simp [classesLLists, mem_classesLLists exp c es]
  | .cls d :: es => by simp [classesLLists, mem_classesLLists exp c es]
  | .lst l :: es => by simp [classesLLists, mem_classesLLists exp c es]

theorem mem_classesL (exp : Bool) (c : ClassAst) (l : LGen) :
    c ∈ (classesL exp l).1 ↔ ∃ e ∈ l.elems, c ∈ (elemClasses exp e).1 := by
  cases l with
  | mk d cn n es o =>
    simp only [classesL, LGen.elems, List.mem_append, mem_classesLModel, mem_classesLLists]
    constructor
    · rintro (⟨d, hd, hc⟩ | ⟨l, hl, hc⟩)
      · exact ⟨_, hd, by simpa [elemClasses] using hc⟩
      · exact ⟨_, hl, by simpa [elemClasses] using hc⟩
    · rintro ⟨e, he, hc⟩
      cases e with
      | prim p => simp [elemClasses] at hc
      | cls d => exact Or.inl ⟨d, he, by simpa [elemClasses] using hc⟩
      | lst l => exact Or.inr ⟨l, he, by simpa [elemClasses] using hc⟩

theorem classesD_head (exp : Bool) (d : DGen) : ∃ c ∈ (classesD exp d).1, c.name = d.name := by
  cases d with
  | mk n r fs =>
    refine ⟨{ name := n, isRoot := r, fields := (classFields exp fs).1 }, ?_, rfl⟩
    simp [classesD]

mutual
theorem refE_of (exp : Bool) (N : List S) : ∀ (e : Elem), (∀ c ∈ (elemClasses exp e).1, c.name ∈ N) → RefE N e
  | .prim _, _ => by simp [RefE]
  | .cls d, h => by
    simp only [RefE]
    obtain ⟨c, hc, hn⟩ := classesD_head exp d
    rw [← hn]
    exact h c (by simpa [elemClasses] using hc)
  | .lst (.mk d cn n es o), h => by
    simp only [RefE, RefL]
    apply refEs_of exp N es
    intro e he c hc
    apply h c
    simp only [elemClasses]
    exact (mem_classesL exp c _).mpr ⟨e, by simpa [LGen.elems] using he, hc⟩
theorem refEs_of (exp : Bool) (N : List S) : ∀ (es : List Elem), (∀ e ∈ es, ∀ c ∈ (elemClasses exp e).1, c.name ∈ N) → RefEs N es
  | [], _ => by simp [RefEs]
  | e :: r, h => by
    simp only [RefEs]
    exact ⟨refE_of exp N e (h e (by simp)), refEs_of exp N r (fun e' he' => h e' (by simp [he']))⟩
end

/-! ### every emitted class is well scoped -/

mutual
theorem classesD_ok (G : List Imp) (N : List S) (exp : Bool) : ∀ (d : DGen), PrimsD G d →
    (∀ c ∈ (classesD exp d).1, c.name ∈ N) → (∀ i ∈ (classesD exp d).2, i ∈ G) →
    ∀ c ∈ (classesD exp d).1, ClassOK G N c
  | .mk n r fs, hp, hn, hi, c, hc => by
    simp only [PrimsD] at hp
    simp only [classesD, List.mem_cons, List.mem_append] at hn hi hc
    have hf := classFields_ok G N exp fs hp (fun c h => hn c (Or.inr h)) (fun i h => hi i (Or.inr h))
    rcases hc with hc | hc
    · subst hc
      refine ⟨hf.1, ?_⟩
      intro hr
      simp only at hr
      exact hi _ (Or.inl (by simp [hr]))
    · exact hf.2 c hc
theorem classFields_ok (G : List Imp) (N : List S) (exp : Bool) : ∀ (fs : List (S × List Elem × Bool)), PrimsFs G fs →
    (∀ c ∈ (classFields exp fs).2.1, c.name ∈ N) → (∀ i ∈ (classFields exp fs).2.2, i ∈ G) →
    (∀ f ∈ (classFields exp fs).1, TyOK G N f.2) ∧ (∀ c ∈ (classFields exp fs).2.1, ClassOK G N c)
  | [], _, _, _ => by simp [classFields]
  | (k, es, opt) :: rest, hp, hn, hi => by
    simp only [PrimsFs] at hp
    simp only [classFields, List.mem_append] at hn hi ⊢
    have hrest := classFields_ok G N exp rest hp.2 (fun c h => hn c (Or.inr h)) (fun i h => hi i (Or.inr h))
    have hes := classesElems_ok G N exp es hp.1 (fun c h => hn c (Or.inl h)) (fun i h => hi i (Or.inl (Or.inr h)))
    have hty : TyOK G N (strTC exp es opt).1 := by
      apply strTC_ok G N exp es opt hp.1 _ (fun i h => hi i (Or.inl (Or.inl h)))
      apply refEs_of exp N es
      intro e he c hc
      exact hn c (Or.inl ((mem_classesElems exp c es).mpr ⟨e, he, hc⟩))
    constructor
    · intro f hf
      rcases List.mem_cons.mp hf with hf | hf
      · subst hf; exact hty
      · exact hrest.1 f hf
    · intro c hc
      rcases hc with hc | hc
      · exact hes c hc
      · exact hrest.2 c hc
theorem classesElems_ok (G : List Imp) (N : List S) (exp : Bool) : ∀ (es : List Elem), PrimsEs G es →
    (∀ c ∈ (classesElems exp es).1, c.name ∈ N) → (∀ i ∈ (classesElems exp es).2, i ∈ G) →
    ∀ c ∈ (classesElems exp es).1, ClassOK G N c
  | [], _, _, _, c, hc => by simp [classesElems] at hc
  | .prim p :: es, hp, hn, hi, c, hc => by
    simp only [PrimsEs] at hp
    simp only [classesElems] at hn hi hc
    exact classesElems_ok G N exp es hp.2 hn hi c hc
  | .cls d :: es, hp, hn, hi, c, hc => by
    simp only [PrimsEs, PrimsE] at hp
    simp only [classesElems, List.mem_append] at hn hi hc
    rcases hc with hc | hc
    · exact classesD_ok G N exp d hp.1 (fun c h => hn c (Or.inl h)) (fun i h => hi i (Or.inl h)) c hc
    · exact classesElems_ok G N exp es hp.2 (fun c h => hn c (Or.inr h)) (fun i h => hi i (Or.inr h)) c hc
  | .lst l :: es, hp, hn, hi, c, hc => by
    simp only [PrimsEs, PrimsE] at hp
    simp only [classesElems, List.mem_append] at hn hi hc
    rcases hc with hc | hc
    · exact classesL_ok G N exp l hp.1 (fun c h => hn c (Or.inl h)) (fun i h => hi i (Or.inl h)) c hc
    · exact classesElems_ok G N exp es hp.2 (fun c h => hn c (Or.inr h)) (fun i h => hi i (Or.inr h)) c hc
theorem classesL_ok (G : List Imp) (N : List S) (exp : Bool) : ∀ (l : LGen), PrimsL G l →
    (∀ c ∈ (classesL exp l).1, c.name ∈ N) → (∀ i ∈ (classesL exp l).2, i ∈ G) →
    ∀ c ∈ (classesL exp l).1, ClassOK G N c
  | .mk d cn n es o, hp, hn, hi, c, hc => by
    simp only [PrimsL] at hp
    simp only [classesL, List.mem_append] at hn hi hc
    rcases hc with hc | hc
    · exact classesLModel_ok G N exp es hp (fun c h => hn c (Or.inl h)) (fun i h => hi i (Or.inl h)) c hc
    · exact classesLLists_ok G N exp es hp (fun c h => hn c (Or.inr h)) (fun i h => hi i (Or.inr h)) c hc
theorem classesLModel_ok (G : List Imp) (N : List S) (exp : Bool) : ∀ (es : List Elem), PrimsEs G es →
    (∀ c ∈ (classesLModel exp es).1, c.name ∈ N) → (∀ i ∈ (classesLModel exp es).2, i ∈ G) →
    ∀ c ∈ (classesLModel exp es).1, ClassOK G N c
  | [], _, _, _, c, hc => by simp [classesLModel] at hc
  | .prim p :: es, hp, hn, hi, c, hc => by
    simp only [PrimsEs] at hp
    simp only [classesLModel] at hn hi hc
    exact classesLModel_ok G N exp es hp.2 hn hi c hc
  | .lst l :: es, hp, hn, hi, c, hc => by
    simp only [PrimsEs] at hp
    simp only [classesLModel] at hn hi hc
    exact classesLModel_ok G N exp es hp.2 hn hi c hc
  | .cls d :: es, hp, hn, hi, c, hc => by
    simp only [PrimsEs, PrimsE] at hp
    simp only [classesLModel, List.mem_append] at hn hi hc
    rcases hc with hc | hc
    · exact classesD_ok G N exp d hp.1 (fun c h => hn c (Or.inl h)) (fun i h => hi i (Or.inl h)) c hc
    · exact classesLModel_ok G N exp es hp.2 (fun c h => hn c (Or.inr h)) (fun i h => hi i (Or.inr h)) c hc
theorem classesLLists_ok (G : List Imp) (N : List S) (exp : Bool) : ∀ (es : List Elem), PrimsEs G es →
    (∀ c ∈ (classesLLists exp es).1, c.name ∈ N) → (∀ i ∈ (classesLLists exp es).2, i ∈ G) →
    ∀ c ∈ (classesLLists exp es).1, ClassOK G N c
  | [], _, _, _, c, hc => by simp [classesLLists] at hc
  | .prim p :: es, hp, hn, hi, c, hc => by
    simp only [PrimsEs] at hp
    simp only [classesLLists] at hn hi hc
    exact classesLLists_ok G N exp es hp.2 hn hi c hc
  | .cls d :: es, hp, hn, hi, c, hc => by
    simp only [PrimsEs] at hp
    simp only [classesLLists] at hn hi hc
    exact classesLLists_ok G N exp es hp.2 hn hi c hc
  | .lst l :: es, hp, hn, hi, c, hc => by
    simp only [PrimsEs, PrimsE] at hp
    simp only [classesLLists, List.mem_append] at hn hi hc
    rcases hc with hc | hc
    · exact classesL_ok G N exp l hp.1 (fun c h => hn c (Or.inl h)) (fun i h => hi i (Or.inl h)) c hc
    · exact classesLLists_ok G N exp es hp.2 (fun c h => hn c (Or.inr h)) (fun i h => hi i (Or.inr h)) c hc
end

/-! ### the import lines name everything that was registered -/

theorem importGroup_mem (reg : List Imp) (m : String) (xs : List Imp) (i : Imp) (hx : i ∈ xs) (hr : i ∈ reg) :
    i.pyName ∈ (importGroup reg m xs).flatMap (·.2) := by
  unfold importGroup
  have hmem : i ∈ xs.filter (fun j => reg.contains j) := by
    simp only [List.mem_filter, List.contains_eq_mem, decide_eq_true_eq]
    exact ⟨hx, hr⟩
  split
  · rename_i hnil
    rw [hnil] at hmem; simp at hmem
  · simp only [List.flatMap_cons, List.flatMap_nil, List.append_nil, List.mem_map]
    exact ⟨i, hmem, rfl⟩

theorem importLines_mem (reg : List Imp) (i : Imp) (h : i ∈ reg) :
    i.pyName ∈ (importLines reg).flatMap (·.2) := by
  unfold importLines
  simp only [List.flatMap_append, List.mem_append]
  cases i with
  | future => exact Or.inl (Or.inl (Or.inl (Or.inl (importGroup_mem reg _ _ _ (by simp) h))))
  | dataclass => exact Or.inl (Or.inl (Or.inl (Or.inr (importGroup_mem reg _ _ _ (by simp) h))))
  | date => exact Or.inl (Or.inl (Or.inr (importGroup_mem reg _ _ _ (by simp) h)))
  | datetime => exact Or.inl (Or.inl (Or.inr (importGroup_mem reg _ _ _ (by simp) h)))
  | time => exact Or.inl (Or.inl (Or.inr (importGroup_mem reg _ _ _ (by simp) h)))
  | any => exact Or.inl (Or.inr (importGroup_mem reg _ _ _ (by simp) h))
  | list => exact Or.inl (Or.inr (importGroup_mem reg _ _ _ (by simp) h))
  | optional => exact Or.inl (Or.inr (importGroup_mem reg _ _ _ (by simp) h))
  | union => exact Or.inl (Or.inr (importGroup_mem reg _ _ _ (by simp) h))
  | jsonWizard => exact Or.inr (importGroup_mem reg _ _ _ (by simp) h)

theorem importGroup_reserved (reg : List Imp) (m : String) (xs : List Imp) (n : S)
    (h : n ∈ (importGroup reg m xs).flatMap (·.2)) : ∃ i : Imp, i.pyName = n := by
  unfold importGroup at h
  split at h
  · simp at h
  · simp only [List.flatMap_cons, List.flatMap_nil, List.append_nil, List.mem_map] at h
    obtain ⟨i, _, hi⟩ := h
    exact ⟨i, hi⟩

theorem importLines_reserved (reg : List Imp) (n : S) (h : n ∈ (importLines reg).flatMap (·.2)) : n ∈ reservedNames := by
  unfold importLines at h
  simp only [List.flatMap_append, List.mem_append] at h
  have : ∃ i : Imp, i.pyName = n := by
    rcases h with (((h | h) | h) | h) | h <;> exact importGroup_reserved _ _ _ _ h
  obtain ⟨i, rfl⟩ := this
  cases i <;> decide

/-! ### with distinct names, a name resolves to the class that carries it -/

theorem find_by_name_of_inj : ∀ (l : List ClassAst) (c : ClassAst),
    (∀ x ∈ l, ∀ y ∈ l, x.name = y.name → x = y) → c ∈ l → l.find? (fun x => x.name == c.name) = some c
  | [], _, _, h => by simp at h
  | x :: r, c, hinj, h => by
    by_cases hx : x.name = c.name
    · have : x = c := hinj x (by simp) c h hx
      subst this
      simp
    · have hx' : (x.name == c.name) = false := by simpa using hx
      simp only [List.find?, hx']
      rcases List.mem_cons.mp h with h | h
      · subst h; exact absurd rfl hx
      · exact find_by_name_of_inj r c (fun a ha b hb => hinj a (by simp [ha]) b (by simp [hb])) h

theorem nodupB_inj : ∀ (l : List ClassAst), nodupB (l.map (·.name)) = true →
    ∀ x ∈ l, ∀ y ∈ l, x.name = y.name → x = y
  | [], _, x, hx, _, _, _ => by simp at hx
  | a :: r, hnd, x, hx, y, hy, hxy => by
    simp only [List.map, nodupB, Bool.and_eq_true, Bool.not_eq_true', List.contains_eq_mem, decide_eq_false_iff_not,
      List.mem_map, not_exists, not_and] at hnd
    obtain ⟨hhead, htail⟩ := hnd
    rcases List.mem_cons.mp hx with hxa | hxr
    · rcases List.mem_cons.mp hy with hya | hyr
      · rw [hxa, hya]
      · exact absurd (by rw [← hxy, hxa]) (hhead y hyr)
    · rcases List.mem_cons.mp hy with hya | hyr
      · exact absurd (by rw [hxy, hya]) (hhead x hxr)
      · exact nodupB_inj r htail x hxr y hyr hxy

end DW.Gs
