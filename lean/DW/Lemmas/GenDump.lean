/-
Lemmas about the generator model `DW/Model/GenDump.lean`: the definite-assignment checker only ever grows the assigned
set; the names the generated body writes; the generated body is well scoped for every input.
-/
import DW.Model.GenDump

namespace DW.GenDump
open DW.Names

theorem readOk_eq_py (sc : Scope) (asg : List S) (n : S) (h : ∀ x ∈ asg, x ∈ sc.locals) :
    sc.readOk asg n = sc.readOkPy asg n := by
  unfold Scope.readOk Scope.readOkPy
  simp only [List.contains_eq_mem]
  by_cases hl : n ∈ sc.locals
  · simp [hl]
  · have hn : n ∉ asg := fun hm => hl (h n hm)
    simp [hl, hn]

/-! ### the assigned set only grows -/

theorem checkSimples_grow (sc : Scope) : ∀ (ps : List Simple) (asg out : List S),
    checkSimples sc asg ps = some out → ∀ n ∈ asg, n ∈ out
  | [], asg, out, h => by
    simp only [checkSimples, Option.some.injEq] at h; subst h; exact fun n hn => hn
  | s :: r, asg, out, h => by
    simp only [checkSimples] at h
    split at h
    · exact fun n hn => checkSimples_grow sc r _ _ h n (List.mem_append_right _ hn)
    · simp at h

theorem L1_check_grow (sc : Scope) (asg out : List S) (x : L1) (h : x.check sc asg = some out) : ∀ n ∈ asg, n ∈ out := by
  cases x with
  | line l => exact checkSimples_grow sc l.parts asg out h
  | for_ ts it body =>
    simp only [L1.check] at h
    split at h
    · split at h
      · simp only [Option.some.injEq] at h; subst h; exact fun n hn => hn
      · simp at h
    · simp at h

theorem checkL1s_grow (sc : Scope) : ∀ (xs : List L1) (asg out : List S),
    checkL1s sc asg xs = some out → ∀ n ∈ asg, n ∈ out
  | [], asg, out, h => by
    simp only [checkL1s, Option.some.injEq] at h; subst h; exact fun n hn => hn
  | x :: r, asg, out, h => by
    simp only [checkL1s] at h
    split at h
    · next a ha => exact fun n hn => checkL1s_grow sc r a out h n (L1_check_grow sc asg a x ha n hn)
    · simp at h

theorem L2_check_grow (sc : Scope) (asg out : List S) (x : L2) (h : x.check sc asg = some out) : ∀ n ∈ asg, n ∈ out := by
  cases x with
  | s y => exact L1_check_grow sc asg out y h
  | if_ c thn els =>
    simp only [L2.check] at h
    split at h
    · split at h
      · next a b ha hb =>
        simp only [Option.some.injEq] at h; subst h
        intro n hn
        have h1 := checkL1s_grow sc thn asg a ha n hn
        have h2 : n ∈ b := by
          cases els with
          | none => simp only [Option.some.injEq] at hb; subst hb; exact hn
          | some e => exact checkL1s_grow sc e asg b hb n hn
        simp [List.mem_filter, h1, h2]
      · simp at h
    · simp at h

theorem checkL2s_grow (sc : Scope) : ∀ (xs : List L2) (asg out : List S),
    checkL2s sc asg xs = some out → ∀ n ∈ asg, n ∈ out
  | [], asg, out, h => by
    simp only [checkL2s, Option.some.injEq] at h; subst h; exact fun n hn => hn
  | x :: r, asg, out, h => by
    simp only [checkL2s] at h
    split at h
    · next a ha => exact fun n hn => checkL2s_grow sc r a out h n (L2_check_grow sc asg a x ha n hn)
    · simp at h

theorem checkL2s_append (sc : Scope) : ∀ (xs ys : List L2) (asg : List S),
    checkL2s sc asg (xs ++ ys) = (checkL2s sc asg xs).bind (fun a => checkL2s sc a ys)
  | [], ys, asg => by simp [checkL2s]
  | x :: r, ys, asg => by
    simp only [List.cons_append, checkL2s]
    split
    · next a ha => exact checkL2s_append sc r ys a
    · simp

/-- a property of assigned sets that survives growth -/
def Upward (P : List S → Prop) : Prop := ∀ a b : List S, (∀ n ∈ a, n ∈ b) → P a → P b

/-- statements that are each fine whenever `P` holds of the assigned set are fine in sequence -/
theorem checkL2s_of_all (sc : Scope) (P : List S → Prop) (hP : Upward P) : ∀ (xs : List L2) (asg : List S),
    (∀ x ∈ xs, ∀ a, P a → (x.check sc a).isSome = true) → P asg → ∃ out, checkL2s sc asg xs = some out ∧ P out
  | [], asg, _, h => ⟨asg, rfl, h⟩
  | x :: r, asg, hx, h => by
    have h1 := hx x (by simp) asg h
    cases hc : x.check sc asg with
    | none => simp [hc] at h1
    | some a =>
      have hPa : P a := hP asg a (L2_check_grow sc asg a x hc) h
      obtain ⟨out, ho, hPo⟩ := checkL2s_of_all sc P hP r a (fun y hy => hx y (by simp [hy])) hPa
      exact ⟨out, by simp [checkL2s, hc, ho], hPo⟩

/-! ### names -/

theorem isDigit_digit' : ∀ k : Fin 10, isDigit (Char.ofNat (48 + k.val)) = true := by decide

theorem decAux_digits : ∀ (fuel n : Nat) (acc : S),
    ∃ ds, decAux fuel n acc = ds ++ acc ∧ (∀ c ∈ ds, isDigit c = true) ∧ (0 < fuel → ds ≠ []) := by
  intro fuel
  induction fuel with
  | zero => intro n acc; exact ⟨[], by simp [decAux], by simp, by simp⟩
  | succ f ih =>
    intro n acc
    have hd : isDigit (Char.ofNat (48 + n % 10)) = true := isDigit_digit' ⟨n % 10, Nat.mod_lt _ (by omega)⟩
    unfold decAux
    by_cases h : n / 10 = 0
    · simp only [h, if_true]
      exact ⟨[Char.ofNat (48 + n % 10)], by simp, by simpa using hd, by simp⟩
    · simp only [h, if_false]
      obtain ⟨ds, h1, h2, _⟩ := ih (n / 10) (Char.ofNat (48 + n % 10) :: acc)
      refine ⟨ds ++ [Char.ofNat (48 + n % 10)], by simp [h1], ?_, by simp⟩
      intro c hc
      rcases List.mem_append.1 hc with hc | hc
      · exact h2 c hc
      · have : c = Char.ofNat (48 + n % 10) := by simpa using hc
        rw [this]; exact hd

/-- a decimal numeral starts with a digit -/
theorem dec_head (n : Nat) : ∃ c t, dec n = c :: t ∧ isDigit c = true := by
  obtain ⟨ds, h1, h2, h3⟩ := decAux_digits (n + 1) n []
  have hd : dec n = ds := by unfold dec; simpa using h1
  cases ds with
  | nil => exact absurd rfl (h3 (by omega))
  | cons c t => exact ⟨c, t, hd, h2 c (by simp)⟩

/-- is the seventh character a digit?  (`_skip_<i>` — and only that family among the names of the template) -/
def seventhDigit (X : S) : Bool := match X[6]? with | some c => isDigit c | none => false

theorem skipName_seventh (i : Nat) : seventhDigit (skipName i) = true := by
  obtain ⟨c, t, h, hd⟩ := dec_head i
  have : skipName i = '_' :: 's' :: 'k' :: 'i' :: 'p' :: '_' :: c :: t := by unfold skipName; rw [h]; rfl
  rw [this]; simp [seventhDigit, hd]

theorem ne_skipName (X : S) (h : seventhDigit X = false) (i : Nat) : X ≠ skipName i := by
  intro e; rw [e, skipName_seventh] at h; cases h

theorem skipIfName_seventh (j : Nat) : seventhDigit (skipIfName j) = false := by
  have : skipIfName j = '_' :: 's' :: 'k' :: 'i' :: 'p' :: '_' :: 'i' :: 'f' :: '_' :: dec j := by unfold skipIfName; rfl
  rw [this]; simp [seventhDigit]; decide

theorem defaultName_seventh (j : Nat) : seventhDigit (defaultName j) = false := by
  have : defaultName j = '_' :: 'd' :: 'e' :: 'f' :: 'a' :: 'u' :: 'l' :: 't' :: '_' :: dec j := by unfold defaultName; rfl
  rw [this]; simp [seventhDigit]; decide

/-- the eight fixed names the body can bind: its parameters and `result`, `paths`, `k`, `v` -/
def fixedLocals : List S := params ++ ["result".toList, "paths".toList, "k".toList, "v".toList]

theorem skipIfName_not_fixed (j : Nat) : skipIfName j ∉ fixedLocals := by
  have : skipIfName j = '_' :: 's' :: 'k' :: 'i' :: 'p' :: '_' :: 'i' :: 'f' :: '_' :: dec j := by unfold skipIfName; rfl
  rw [this]; simp [fixedLocals, params]

theorem defaultName_not_fixed (j : Nat) : defaultName j ∉ fixedLocals := by
  have : defaultName j = '_' :: 'd' :: 'e' :: 'f' :: 'a' :: 'u' :: 'l' :: 't' :: '_' :: dec j := by unfold defaultName; rfl
  rw [this]; simp [fixedLocals, params]

/-! ### decimal numerals are injective: different fields get different `_skip_<i>` -/

/-- value of a digit string -/
def undec (s : S) : Nat := s.foldl (fun a c => a * 10 + (c.toNat - 48)) 0

theorem digit_val : ∀ k : Fin 10, (Char.ofNat (48 + k.val)).toNat - 48 = k.val := by decide

theorem undec_append (a b : S) : undec (a ++ b) = b.foldl (fun a c => a * 10 + (c.toNat - 48)) (undec a) := by
  simp [undec, List.foldl_append]

theorem decAux_val : ∀ (fuel n : Nat) (acc : S), n < 10 ^ fuel → 0 < fuel →
    ∃ ds, decAux fuel n acc = ds ++ acc ∧ undec ds = n := by
  intro fuel
  induction fuel with
  | zero => intro n acc _ h; omega
  | succ f ih =>
    intro n acc hn _
    have hd : (Char.ofNat (48 + n % 10)).toNat - 48 = n % 10 := digit_val ⟨n % 10, Nat.mod_lt _ (by omega)⟩
    unfold decAux
    by_cases h : n / 10 = 0
    · simp only [h, if_true]
      refine ⟨[Char.ofNat (48 + n % 10)], by simp, ?_⟩
      simp [undec, hd]; omega
    · simp only [h, if_false]
      have hf : 0 < f := by
        rcases f with _ | f
        · simp at hn; omega
        · omega
      have hlt : n / 10 < 10 ^ f := by
        rw [Nat.pow_succ] at hn
        exact Nat.div_lt_of_lt_mul (by omega)
      obtain ⟨ds, h1, h2⟩ := ih (n / 10) (Char.ofNat (48 + n % 10) :: acc) hlt hf
      refine ⟨ds ++ [Char.ofNat (48 + n % 10)], by simp [h1], ?_⟩
      rw [undec_append]
      simp [h2, hd]; omega

theorem lt_pow_succ (n : Nat) : n < 10 ^ (n + 1) := by
  have : n < 2 ^ n := Nat.lt_two_pow_self
  calc n < 2 ^ n := this
    _ ≤ 10 ^ n := Nat.pow_le_pow_left (by omega) n
    _ ≤ 10 ^ (n + 1) := Nat.pow_le_pow_right (by omega) (by omega)

theorem undec_dec (n : Nat) : undec (dec n) = n := by
  obtain ⟨ds, h1, h2⟩ := decAux_val (n + 1) n [] (lt_pow_succ n) (by omega)
  have : dec n = ds := by unfold dec; simpa using h1
  rw [this]; exact h2

theorem dec_injective (i j : Nat) (h : dec i = dec j) : i = j := by
  have := congrArg undec h
  rwa [undec_dec, undec_dec] at this

theorem skipName_injective (i j : Nat) (h : skipName i = skipName j) : i = j := by
  unfold skipName at h
  exact dec_injective i j (List.append_cancel_left h)

/-! ### the names the body binds -/

theorem skipTargets_writes : ∀ (fs : List GField) (i : Nat) (n : S),
    n ∈ (skipTargets i fs).flatMap Target.writes → ∃ j, n = skipName j
  | [], _, n, h => by simp [skipTargets] at h
  | _ :: r, i, n, h => by
    simp only [skipTargets, List.flatMap_cons, Target.writes, List.mem_append, List.mem_singleton] at h
    rcases h with h | h
    · exact ⟨i, h⟩
    · exact skipTargets_writes r (i + 1) n h

theorem excludeAssigns_writes (p : Char → Bool) : ∀ (fs : List GField) (i : Nat) (n : S),
    n ∈ (excludeAssigns p i fs).flatMap Simple.writes → ∃ j, n = skipName j
  | [], _, n, h => by simp [excludeAssigns] at h
  | _ :: r, i, n, h => by
    simp only [excludeAssigns, List.flatMap_cons, Simple.writes, Target.writes, List.flatMap_nil, List.append_nil,
      List.mem_append, List.mem_singleton] at h
    rcases h with h | h
    · exact ⟨i, h⟩
    · exact excludeAssigns_writes p r (i + 1) n h

theorem skipDefaultLines_writes (p : Char → Bool) (g : GIn) : ∀ (fs : List GField) (i : Nat) (n : S),
    n ∈ (skipDefaultLines p g i fs).flatMap L1.writes → ∃ j, n = skipName j
  | [], _, n, h => by simp [skipDefaultLines] at h
  | f :: r, i, n, h => by
    simp only [skipDefaultLines, List.flatMap_append, List.mem_append] at h
    rcases h with h | h
    · by_cases hd : f.hasDefault = true
      · simp [hd, L1.writes, L0.writes, Simple.writes, Target.writes] at h
        exact ⟨i, h⟩
      · simp [hd] at h
    · exact skipDefaultLines_writes p g r (i + 1) n h

theorem fieldStmt_writes (p : Char → Bool) (g : GIn) (i : Nat) (f : GField) (n : S)
    (h : n ∈ (fieldStmt p g i f).flatMap L2.writes) : n = "k".toList ∨ n = "v".toList := by
  unfold fieldStmt at h
  split at h
  · split at h
    · simp [L2.writes, L1.writes, L0.writes, Simple.writes, appendStmt] at h
      exact h
    · simp at h
  · simp [L2.writes, L1.writes, L0.writes, Simple.writes, appendStmt] at h
  · simp [L2.writes, L1.writes, L0.writes, Simple.writes, Target.writes] at h

theorem fieldStmts_writes (p : Char → Bool) (g : GIn) : ∀ (fs : List GField) (i : Nat) (n : S),
    n ∈ (fieldStmts p g i fs).flatMap L2.writes → n = "k".toList ∨ n = "v".toList
  | [], _, n, h => by simp [fieldStmts] at h
  | f :: r, i, n, h => by
    simp only [fieldStmts, List.flatMap_append, List.mem_append] at h
    rcases h with h | h
    · exact fieldStmt_writes p g i f n h
    · exact fieldStmts_writes p g r (i + 1) n h

/-- every name the generated body assigns is `result`, `paths`, `k`, `v` or one of the `_skip_<i>` -/
theorem body_writes (p : Char → Bool) (g : GIn) (n : S) (h : n ∈ (genBody p g).flatMap L2.writes) :
    n ∈ fixedLocals ∨ ∃ j, n = skipName j := by
  unfold genBody at h
  simp only [List.flatMap_append, List.mem_append] at h
  rcases h with ((((h | h) | h) | h) | h) | h
  · split at h <;> simp [L2.writes, L1.writes, L0.writes, Simple.writes] at h
  · simp [L2.writes, L1.writes, L0.writes, Simple.writes, Target.writes] at h
    left; simp [fixedLocals, h]
  · split at h
    · simp [L2.writes, L1.writes, L0.writes, Simple.writes, Target.writes] at h
      left; simp [fixedLocals, h]
    · simp at h
  · split at h
    · simp at h
    · simp only [List.flatMap_append, List.mem_append] at h
      rcases h with (h | h) | h
      · simp only [List.flatMap_cons, List.flatMap_nil, List.append_nil, L2.writes, L1.writes, L0.writes, Option.getD,
          List.mem_append] at h
        rcases h with h | h
        · right
          simp only [Simple.writes] at h
          exact skipTargets_writes _ _ n h
        · right; exact excludeAssigns_writes p _ _ n h
      · unfold sdBlock at h
        split at h
        · simp at h
        · next ls hls =>
          right
          simp only [List.flatMap_cons, List.flatMap_nil, List.append_nil, L2.writes, Option.getD] at h
          exact skipDefaultLines_writes p g _ _ n h
      · left
        rcases fieldStmts_writes p g _ _ n h with h | h <;> simp [fixedLocals, h]
  · split at h
    · simp [L2.writes, L1.writes, L0.writes, Simple.writes, Target.writes] at h
      left; simp [fixedLocals, h]
    · simp at h
  · unfold tailStmts at h
    split at h
    · simp [L2.writes, L1.writes, L0.writes, Simple.writes, Target.writes] at h
      left; simp [fixedLocals, h]
    · simp [L2.writes, L1.writes, L0.writes, Simple.writes] at h

/-! ### reading names -/

theorem readOk_asg (sc : Scope) (asg : List S) (n : S) (h : n ∈ asg) : sc.readOk asg n = true := by
  simp [Scope.readOk, h]

theorem readOk_outer (sc : Scope) (asg : List S) (n : S) (h1 : n ∉ sc.locals) (h2 : n ∈ sc.outer) :
    sc.readOk asg n = true := by
  simp [Scope.readOk, h1, h2]

theorem readOk_mono (sc : Scope) (a b : List S) (n : S) (hab : ∀ x ∈ a, x ∈ b) (h : sc.readOk a n = true) :
    sc.readOk b n = true := by
  simp only [Scope.readOk, Bool.or_eq_true, List.contains_eq_mem, decide_eq_true_eq] at h ⊢
  rcases h with h | h
  · exact Or.inl (hab n h)
  · exact Or.inr h

/-- a name that can be read whatever is assigned: it comes from the closure / builtins and is not local -/
def Out (sc : Scope) (n : S) : Prop := n ∉ sc.locals ∧ n ∈ sc.outer

theorem Out.read {sc : Scope} {n : S} (h : Out sc n) (asg : List S) : sc.readOk asg n = true :=
  readOk_outer sc asg n h.1 h.2

theorem not_local (p : Char → Bool) (g : GIn) (fix : Bool) (X : S) (h8 : X ∉ fixedLocals) (h7 : seventhDigit X = false) :
    X ∉ (genScopeQ p fix g).locals := by
  intro hm
  simp only [genScopeQ, List.mem_append] at hm
  rcases hm with hm | hm
  · exact h8 (by simp [fixedLocals, hm])
  · rcases body_writes p g X hm with h | ⟨j, h⟩
    · exact h8 h
    · exact ne_skipName X h7 j h

/-- the names every statement of the template may read -/
structure Base (sc : Scope) (asg : List S) : Prop where
  o : sc.readOk asg "o".toList = true
  dictFactory : sc.readOk asg "dict_factory".toList = true
  asdict : sc.readOk asg "asdict".toList = true
  hooks : sc.readOk asg "hooks".toList = true
  config : sc.readOk asg "config".toList = true
  clsToAsdict : sc.readOk asg "cls_to_asdict".toList = true
  ellipsis : sc.readOk asg "Ellipsis".toList = true
  result : sc.readOk asg "result".toList = true

theorem Base.mono {sc : Scope} {a b : List S} (hab : ∀ x ∈ a, x ∈ b) (h : Base sc a) : Base sc b :=
  ⟨readOk_mono sc a b _ hab h.o, readOk_mono sc a b _ hab h.dictFactory, readOk_mono sc a b _ hab h.asdict,
   readOk_mono sc a b _ hab h.hooks, readOk_mono sc a b _ hab h.config, readOk_mono sc a b _ hab h.clsToAsdict,
   readOk_mono sc a b _ hab h.ellipsis, readOk_mono sc a b _ hab h.result⟩

theorem readsOk_iff (sc : Scope) (asg : List S) (ns : List S) :
    sc.readsOk asg ns = true ↔ ∀ r ∈ ns, sc.readOk asg r = true := by
  simp [Scope.readsOk, List.all_eq_true]

theorem asdictOf_reads (sc : Scope) (asg : List S) (hb : Base sc asg) (e : Expr) (he : ∀ r ∈ e.reads, sc.readOk asg r = true) :
    ∀ r ∈ (asdictOf e).reads, sc.readOk asg r = true := by
  intro r hr
  simp only [asdictOf, Expr.reads, nm, List.mem_append, List.mem_singleton] at hr
  rcases hr with ((((hr | hr) | hr) | hr) | hr) | hr
  · rw [hr]; exact hb.asdict
  · exact he r hr
  · rw [hr]; exact hb.dictFactory
  · rw [hr]; exact hb.hooks
  · rw [hr]; exact hb.config
  · rw [hr]; exact hb.clsToAsdict

theorem oAttr_reads (sc : Scope) (asg : List S) (hb : Base sc asg) (f : S) : ∀ r ∈ (oAttr f).reads, sc.readOk asg r = true := by
  intro r hr
  simp only [oAttr, Expr.reads, nm, List.mem_singleton] at hr
  rw [hr]; exact hb.o

/-- what `finalize_skip_if` reads: the operand, the closure name when the value is bound there, or `Ellipsis` -/
theorem final_reads (p : Char → Bool) (c : GCond) (e : Expr) (op2 : S) :
    ∀ r ∈ (c.final p e op2).reads, r ∈ e.reads ∨ (r = op2 ∧ c.binds p = true) ∨ r = "Ellipsis".toList := by
  intro r hr
  have inl : ∀ x, c.inlineExpr = some x → ∀ r ∈ x.reads, r = "Ellipsis".toList := by
    intro x hx r hr
    unfold GCond.inlineExpr at hx
    split at hx
    all_goals first
      | (simp only [Option.some.injEq] at hx; subst hx; simp [Expr.reads] at hr; try exact hr)
      | (split at hx
         · simp at hx
         · simp only [Option.some.injEq] at hx; subst hx; simp [Expr.reads] at hr)
      | simp at hx
  have key : ∀ op : COp, op.tOrF = false → c.op = op →
      r ∈ (match c.inlineExpr with
            | some x => Expr.bin e (.cmp op) x
            | Option.none => Expr.bin e (.cmp op) (.name op2)).reads →
      r ∈ e.reads ∨ (r = op2 ∧ c.binds p = true) ∨ r = "Ellipsis".toList := by
    intro op hop hc hr
    cases hi : c.inlineExpr with
    | none =>
      simp only [hi, Expr.reads, List.mem_append, List.mem_singleton] at hr
      rcases hr with hr | hr
      · exact Or.inl hr
      · exact Or.inr (Or.inl ⟨hr, by simp [GCond.binds, hc, hop, hi]⟩)
    | some x =>
      simp only [hi, Expr.reads, List.mem_append] at hr
      rcases hr with hr | hr
      · exact Or.inl hr
      · exact Or.inr (Or.inr (inl x hi r hr))
  unfold GCond.final at hr
  cases hc : c.op <;> simp only [hc] at hr
  case truthy => exact Or.inl hr
  case falsy => exact Or.inl (by simpa [Expr.reads] using hr)
  all_goals exact key _ rfl hc hr

/-! ### statement forms -/

theorem line_ok (sc : Scope) (asg : List S) (s : Simple) (sep : S) (h : sc.readsOk asg s.reads = true) :
    (L2.check sc asg (.s (.line { parts := [s], sep := sep }))).isSome = true := by
  simp [L2.check, L1.check, L0.check, checkSimples, h]

theorem if_line_ok (sc : Scope) (asg : List S) (c : Expr) (s : Simple)
    (hc : sc.readsOk asg c.reads = true) (hs : sc.readsOk asg s.reads = true) :
    (L2.check sc asg (.if_ c [.line { parts := [s] }] none)).isSome = true := by
  simp [L2.check, hc, checkL1s, L1.check, L0.check, checkSimples, hs]

theorem if_for_ok (sc : Scope) (asg : List S) (c : Expr) (ts : List S) (it : Expr) (s : Simple)
    (hc : sc.readsOk asg c.reads = true) (hi : sc.readsOk asg it.reads = true) (hs : sc.readsOk (ts ++ asg) s.reads = true) :
    (L2.check sc asg (.if_ c [.for_ ts it [{ parts := [s] }]] none)).isSome = true := by
  simp [L2.check, hc, checkL1s, L1.check, hi, checkL0s, L0.check, checkSimples, hs]

theorem checkL1s_of_all (sc : Scope) (P : List S → Prop) (hP : Upward P) : ∀ (xs : List L1) (asg : List S),
    (∀ x ∈ xs, ∀ a, P a → (x.check sc a).isSome = true) → P asg → ∃ out, checkL1s sc asg xs = some out
  | [], asg, _, _ => ⟨asg, rfl⟩
  | x :: r, asg, hx, h => by
    have h1 := hx x (by simp) asg h
    cases hc : x.check sc asg with
    | none => simp [hc] at h1
    | some a =>
      have hPa : P a := hP asg a (L1_check_grow sc asg a x hc) h
      obtain ⟨out, ho⟩ := checkL1s_of_all sc P hP r a (fun y hy => hx y (by simp [hy])) hPa
      exact ⟨out, by simp [checkL1s, hc, ho]⟩

/-! ### the statements of one field -/

/-- the condition in front of a field's entry reads `_skip_<i>`, `o`, and what its skip condition needs -/
theorem fieldCond_reads (p : Char → Bool) (g : GIn) (sc : Scope) (asg : List S) (i : Nat) (f : GField) (hb : Base sc asg)
    (hsk : sc.readOk asg (skipName i) = true)
    (hsif : ∀ c, f.skipIf = some c → c.binds p = true → sc.readOk asg (skipIfName i) = true)
    (hsv : ∀ c, g.skipIf = some c → c.binds p = true → sc.readOk asg skipValue = true) :
    ∀ r ∈ (fieldCond p g i f).reads, sc.readOk asg r = true := by
  intro r hr
  have fin : ∀ (c : GCond) (op2 : S), (c.binds p = true → sc.readOk asg op2 = true) →
      r ∈ (c.final p (oAttr f.name) op2).reads → sc.readOk asg r = true := by
    intro c op2 h2 hr
    rcases final_reads p c _ op2 r hr with h | ⟨h, hbnd⟩ | h
    · exact oAttr_reads sc asg hb f.name r h
    · rw [h]; exact h2 hbnd
    · rw [h]; exact hb.ellipsis
  unfold fieldCond at hr
  cases hf : f.skipIf with
  | some c =>
    simp only [hf, Expr.reads, List.mem_append, List.mem_singleton] at hr
    rcases hr with hr | hr
    · rw [hr]; exact hsk
    · exact fin c _ (hsif c hf) hr
  | none =>
    simp only [hf] at hr
    cases hm : g.skipIf with
    | some c =>
      simp only [hm, Expr.reads, List.mem_append, List.mem_singleton] at hr
      rcases hr with hr | hr
      · rw [hr]; exact hsk
      · exact fin c _ (hsv c hm) hr
    | none =>
      simp only [hm, Expr.reads, List.mem_singleton] at hr
      rw [hr]; exact hsk

theorem fieldStmt_ok (p : Char → Bool) (g : GIn) (sc : Scope) (asg : List S) (i : Nat) (f : GField) (hb : Base sc asg)
    (hsk : sc.readOk asg (skipName i) = true)
    (hpaths : isPath f.key = true → sc.readOk asg "paths".toList = true)
    (hdef : f.hasDefault = true → f.isCatchAll = true → f.key = .null → sc.readOk asg (defaultName i) = true)
    (hsif : ∀ c, f.skipIf = some c → f.key ≠ .null → c.binds p = true → sc.readOk asg (skipIfName i) = true)
    (hsv : ∀ c, g.skipIf = some c → c.binds p = true → sc.readOk asg skipValue = true) :
    ∀ s ∈ fieldStmt p g i f, (s.check sc asg).isSome = true := by
  intro s hs
  unfold fieldStmt at hs
  have happ : ∀ (k v : Expr), (∀ r ∈ k.reads, sc.readOk asg r = true) → (∀ r ∈ v.reads, sc.readOk asg r = true) →
      sc.readsOk asg (appendStmt k v).reads = true := by
    intro k v hk hv
    rw [readsOk_iff]
    intro r hr
    simp only [appendStmt, Simple.reads, Expr.reads, nm, List.mem_append, List.mem_singleton] at hr
    rcases hr with hr | hr | hr
    · rw [hr]; exact hb.result
    · exact hk r hr
    · exact asdictOf_reads sc asg hb v hv r hr
  cases hk : f.key with
  | null =>
    simp only [hk] at hs
    by_cases hca : f.isCatchAll = true
    · simp only [hca, if_true, List.mem_singleton] at hs
      subst hs
      have hb' : Base sc (["k".toList, "v".toList] ++ asg) := hb.mono (fun x hx => List.mem_append_right _ hx)
      apply if_for_ok
      · rw [readsOk_iff]
        intro r hr
        by_cases hd : f.hasDefault = true
        · simp only [hd, if_true, Expr.reads, List.mem_append, List.mem_singleton] at hr
          rcases hr with (hr | hr) | hr
          · exact oAttr_reads sc asg hb f.name r hr
          · rw [hr]; exact hdef hd hca hk
          · rw [hr]; exact hsk
        · have hd' : f.hasDefault = false := by simpa using hd
          simp only [hd', Bool.false_eq_true, if_false, Expr.reads, List.mem_singleton] at hr
          rw [hr]; exact hsk
      · rw [readsOk_iff]
        intro r hr
        simp only [Expr.reads] at hr
        exact oAttr_reads sc asg hb f.name r hr
      · rw [readsOk_iff]
        intro r hr
        simp only [appendStmt, Simple.reads, Expr.reads, nm, List.mem_append, List.mem_singleton] at hr
        rcases hr with hr | hr | hr
        · rw [hr]; exact hb'.result
        · rw [hr]; exact readOk_asg sc _ _ (by simp)
        · refine asdictOf_reads sc _ hb' (nm "v") ?_ r hr
          intro r' hr'
          simp only [nm, Expr.reads, List.mem_singleton] at hr'
          rw [hr']; exact readOk_asg sc _ _ (by simp)
    · simp [hca] at hs
  | key key =>
    simp only [hk, List.mem_singleton] at hs
    subst hs
    apply if_line_ok
    · rw [readsOk_iff]
      exact fieldCond_reads p g sc asg i f hb hsk (fun c hc => hsif c hc (by simp [hk])) hsv
    · exact happ _ _ (by simp [Expr.reads]) (oAttr_reads sc asg hb f.name)
  | path ps =>
    simp only [hk, List.mem_singleton] at hs
    subst hs
    apply if_line_ok
    · rw [readsOk_iff]
      exact fieldCond_reads p g sc asg i f hb hsk (fun c hc => hsif c hc (by simp [hk])) hsv
    · rw [readsOk_iff]
      intro r hr
      simp only [Simple.reads, List.mem_append, List.flatMap_cons, List.flatMap_nil, List.append_nil, Target.reads,
        List.mem_singleton] at hr
      rcases hr with hr | hr
      · exact asdictOf_reads sc asg hb _ (oAttr_reads sc asg hb f.name) r hr
      · rw [hr]; exact hpaths (by simp [hk, isPath])

/-! ### all fields -/

theorem fieldLocals_shape (p : Char → Bool) (fix : Bool) (g : GIn) (i : Nat) (f : GField) :
    ∀ x ∈ fieldLocals p fix g i f, x = defaultName i ∨ x = skipIfName i := by
  intro x hx
  simp only [fieldLocals, List.mem_append] at hx
  rcases hx with hx | hx
  · split at hx
    · left; simpa using hx
    · simp at hx
  · right
    split at hx
    · simp at hx
    · split at hx
      · simpa using hx
      · simp at hx
    · simp at hx

theorem fieldsLocals_shape (p : Char → Bool) (fix : Bool) (g : GIn) : ∀ (fs : List GField) (i : Nat) (x : S),
    x ∈ fieldsLocals p fix g i fs → (∃ j, x = defaultName j) ∨ (∃ j, x = skipIfName j)
  | [], _, x, h => by simp [fieldsLocals] at h
  | f :: r, i, x, h => by
    simp only [fieldsLocals, List.mem_append] at h
    rcases h with h | h
    · rcases fieldLocals_shape p fix g i f x h with h | h
      · exact Or.inl ⟨i, h⟩
      · exact Or.inr ⟨i, h⟩
    · exact fieldsLocals_shape p fix g r (i + 1) x h

theorem fieldStmts_ok (p : Char → Bool) (g : GIn) (sc : Scope)
    (hsv : ∀ c, g.skipIf = some c → c.binds p = true → Out sc skipValue) :
    ∀ (fs : List GField) (i : Nat) (asg : List S), Base sc asg →
      (∀ j, j < fs.length → sc.readOk asg (skipName (i + j)) = true) →
      (fs.any (fun f => isPath f.key) = true → sc.readOk asg "paths".toList = true) →
      (∀ x ∈ fieldsLocals p true g i fs, Out sc x) →
      ∀ s ∈ fieldStmts p g i fs, (s.check sc asg).isSome = true
  | [], _, _, _, _, _, _, s, hs => by simp [fieldStmts] at hs
  | f :: r, i, asg, hb, hsk, hpaths, hloc, s, hs => by
    simp only [fieldStmts, List.mem_append] at hs
    rcases hs with hs | hs
    · refine fieldStmt_ok p g sc asg i f hb (by simpa using hsk 0 (by simp)) ?_ ?_ ?_ (fun c hc hbd => (hsv c hc hbd).read asg) s hs
      · intro hp; exact hpaths (by simp [hp])
      · intro hd hca hk
        refine (hloc (defaultName i) ?_).read asg
        simp [fieldsLocals, fieldLocals, hd, hca, hk]
      · intro c hc hk hbd
        refine (hloc (skipIfName i) ?_).read asg
        simp only [fieldsLocals, List.mem_append]
        left
        simp only [fieldLocals, List.mem_append]
        right
        cases hkk : f.key with
        | null => exact absurd hkk hk
        | key k => simp [hc, hbd]
        | path ps => simp [hc, hbd]
    · refine fieldStmts_ok p g sc hsv r (i + 1) asg hb ?_ ?_ ?_ s hs
      · intro j hj
        have := hsk (j + 1) (by simp; omega)
        rwa [show i + (j + 1) = i + 1 + j by omega] at this
      · intro hp; exact hpaths (by simp [hp])
      · intro x hx; exact hloc x (by simp [fieldsLocals, hx])

theorem skipDefaultLines_ok (p : Char → Bool) (g : GIn) (sc : Scope)
    (hsdv : ∀ c, g.skipDefaultsIf = some c → c.binds p = true → Out sc skipDefaultsValue) :
    ∀ (fs : List GField) (i : Nat) (asg : List S), Base sc asg →
      (∀ j, j < fs.length → sc.readOk asg (skipName (i + j)) = true) →
      (∀ x ∈ fieldsLocals p true g i fs, Out sc x) →
      ∀ s ∈ skipDefaultLines p g i fs, (s.check sc asg).isSome = true
  | [], _, _, _, _, _, s, hs => by simp [skipDefaultLines] at hs
  | f :: r, i, asg, hb, hsk, hloc, s, hs => by
    simp only [skipDefaultLines, List.mem_append] at hs
    rcases hs with hs | hs
    · by_cases hd : f.hasDefault = true
      · simp only [hd, if_true, List.mem_singleton] at hs
        subst hs
        have h0 : sc.readOk asg (skipName i) = true := by simpa using hsk 0 (by simp)
        cases hm : g.skipDefaultsIf with
        | some c =>
          have hr : sc.readsOk asg (Simple.assign false [Target.name (skipName i)]
              (Expr.bin (Expr.name (skipName i)) .or_ (c.final p (oAttr f.name) skipDefaultsValue))).reads = true := by
            rw [readsOk_iff]
            intro x hx
            simp only [Simple.reads, Expr.reads, List.flatMap_cons, List.flatMap_nil, Target.reads, List.append_nil,
              List.mem_append, List.mem_singleton] at hx
            rcases hx with hx | hx
            · rw [hx]; exact h0
            · rcases final_reads p c _ _ x hx with h | ⟨h, hbnd⟩ | h
              · exact oAttr_reads sc asg hb f.name x h
              · rw [h]; exact (hsdv c hm hbnd).read asg
              · rw [h]; exact hb.ellipsis
          simp only [L1.check, L0.check, checkSimples, sdRhs, hm]
          rw [if_pos hr]; rfl
        | none =>
          have hr : sc.readsOk asg (Simple.assign false [Target.name (skipName i)]
              (Expr.bin (Expr.name (skipName i)) .or_
                (Expr.bin (oAttr f.name) (.cmp .eq) (Expr.name (defaultName i))))).reads = true := by
            rw [readsOk_iff]
            intro x hx
            simp only [Simple.reads, Expr.reads, List.flatMap_cons, List.flatMap_nil, Target.reads, List.append_nil,
              List.mem_append, List.mem_singleton] at hx
            rcases hx with hx | hx | hx
            · rw [hx]; exact h0
            · exact oAttr_reads sc asg hb f.name x hx
            · rw [hx]
              refine (hloc (defaultName i) ?_).read asg
              simp [fieldsLocals, fieldLocals, hd, hm]
          simp only [L1.check, L0.check, checkSimples, sdRhs, hm]
          rw [if_pos hr]; rfl
      · simp [hd] at hs
    · refine skipDefaultLines_ok p g sc hsdv r (i + 1) asg hb ?_ ?_ s hs
      · intro j hj
        have := hsk (j + 1) (by simp; omega)
        rwa [show i + (j + 1) = i + 1 + j by omega] at this
      · intro x hx; exact hloc x (by simp [fieldsLocals, hx])

/-! ### the `exclude` bookkeeping assigns every `_skip_<i>` on both branches -/

theorem skipTargets_mem : ∀ (fs : List GField) (i j : Nat), j < fs.length →
    skipName (i + j) ∈ (skipTargets i fs).flatMap Target.writes
  | [], _, _, h => by simp at h
  | _ :: r, i, j, h => by
    simp only [skipTargets, List.flatMap_cons, Target.writes, List.mem_append, List.mem_singleton]
    cases j with
    | zero => left; rfl
    | succ j =>
      right
      have := skipTargets_mem r (i + 1) j (by simpa using h)
      rwa [show i + 1 + j = i + (j + 1) by omega] at this

theorem excludeAssigns_check (p : Char → Bool) (sc : Scope) : ∀ (fs : List GField) (i : Nat) (asg : List S),
    sc.readOk asg "exclude".toList = true →
    ∃ out, checkSimples sc asg (excludeAssigns p i fs) = some out ∧ (∀ x ∈ asg, x ∈ out) ∧
      ∀ j, j < fs.length → skipName (i + j) ∈ out
  | [], _, asg, _ => ⟨asg, rfl, fun _ h => h, by simp⟩
  | f :: r, i, asg, he => by
    have he' : sc.readOk (skipName i :: asg) "exclude".toList = true :=
      readOk_mono sc asg _ _ (fun x hx => List.mem_cons_of_mem _ hx) he
    obtain ⟨out, ho, hsub, hsk⟩ := excludeAssigns_check p sc r (i + 1) (skipName i :: asg) he'
    refine ⟨out, ?_, fun x hx => hsub x (List.mem_cons_of_mem _ hx), ?_⟩
    · simp only [excludeAssigns, checkSimples]
      have : sc.readsOk asg (Simple.assign true [Target.name (skipName i)]
          (Expr.bin (Expr.lit (.str f.name)) .in_ (nm "exclude"))).reads = true := by
        rw [readsOk_iff]; intro x hx
        simp only [Simple.reads, Expr.reads, nm, List.flatMap_cons, List.flatMap_nil, Target.reads, List.append_nil,
          List.nil_append, List.mem_singleton] at hx
        rw [hx]; exact he
      simp only [this, if_true]
      simpa [Simple.writes, Target.writes] using ho
    · intro j hj
      cases j with
      | zero => exact hsub _ (by simp)
      | succ j =>
        have := hsk j (by simpa using hj)
        rwa [show i + 1 + j = i + (j + 1) by omega] at this

theorem skipTargets_reads : ∀ (fs : List GField) (i : Nat), (skipTargets i fs).flatMap Target.reads = []
  | [], _ => rfl
  | _ :: r, i => by simp [skipTargets, Target.reads, skipTargets_reads r (i + 1)]

theorem ifelse_ok (p : Char → Bool) (sc : Scope) (fs : List GField) (a : List S)
    (he : sc.readOk a "exclude".toList = true) :
    ∃ out, L2.check sc a (L2.if_ (.bin (nm "exclude") (.cmp .is_) (.lit .none))
        [.line { parts := [.assign true (skipTargets 0 fs) (.lit .false_)] }]
        (some [.line { parts := excludeAssigns p 0 fs, sep := [';'] }])) = some out ∧
      (∀ n ∈ a, n ∈ out) ∧ ∀ j, j < fs.length → skipName j ∈ out := by
  obtain ⟨y, hy, hsub, hsk⟩ := excludeAssigns_check p sc fs 0 a he
  have hc : sc.readsOk a (Expr.bin (nm "exclude") (.cmp .is_) (.lit .none)).reads = true := by
    rw [readsOk_iff]; intro x hx
    simp only [Expr.reads, nm, List.append_nil, List.mem_singleton] at hx
    rw [hx]; exact he
  refine ⟨((skipTargets 0 fs).flatMap Target.writes ++ a).filter y.contains, ?_, ?_, ?_⟩
  · simp only [L2.check]
    rw [if_pos hc]
    simp only [checkL1s, L1.check, L0.check, checkSimples, Simple.reads, Expr.reads, skipTargets_reads, List.append_nil,
      Simple.writes, hy]
    simp [Scope.readsOk]
  · intro n hn
    simp only [List.mem_filter, List.mem_append, List.contains_eq_mem, decide_eq_true_eq]
    exact ⟨Or.inr hn, hsub n hn⟩
  · intro j hj
    simp only [List.mem_filter, List.mem_append, List.contains_eq_mem, decide_eq_true_eq]
    refine ⟨Or.inl ?_, ?_⟩
    · have := skipTargets_mem fs 0 j hj; simpa using this
    · have := hsk j hj; simpa using this

/-! ### the whole body -/

/-- what holds of the assigned set once the `exclude` bookkeeping has run -/
def Inv (g : GIn) (asg : List S) : Prop :=
  (∀ n ∈ params, n ∈ asg) ∧ "result".toList ∈ asg ∧ (g.hasPaths = true → "paths".toList ∈ asg) ∧
  ∀ j, j < g.fields.length → skipName j ∈ asg

theorem Inv_upward (g : GIn) : Upward (Inv g) := by
  intro a b hab ⟨h1, h2, h3, h4⟩
  exact ⟨fun n hn => hab n (h1 n hn), hab _ h2, fun hp => hab _ (h3 hp), fun j hj => hab _ (h4 j hj)⟩

theorem out_of_mem (p : Char → Bool) (g : GIn) (X : S) (h8 : X ∉ fixedLocals) (h7 : seventhDigit X = false)
    (hm : X ∈ genLocals p g ++ builtinsRead) : Out (genScope p g) X :=
  ⟨not_local p g true X h8 h7, hm⟩

theorem mem_locals_iff (p : Char → Bool) (fix : Bool) (g : GIn) (X : S) : X ∈ genLocalsQ p fix g ↔
    ((((((X ∈ ["config".toList, "asdict".toList, "hooks".toList, "cls_to_asdict".toList]
      ∨ X ∈ condLocals p g.skipIf skipValue)
      ∨ X ∈ condLocals p g.skipDefaultsIf skipDefaultsValue)
      ∨ X ∈ (if g.preDict then ["__pre_dict__".toList] else []))
      ∨ X ∈ (if g.hasPaths then ["NestedDict".toList] else []))
      ∨ X ∈ fieldsLocals p fix g 0 g.fields)
      ∨ X ∈ ["__dataclass_cls_asdict_return_type__".toList]) := by
  unfold genLocalsQ
  simp only [List.mem_append]

theorem base_of (p : Char → Bool) (g : GIn) (asg : List S) (hp : ∀ n ∈ params, n ∈ asg) (hr : "result".toList ∈ asg) :
    Base (genScope p g) asg where
  o := readOk_asg _ _ _ (hp _ List.mem_cons_self)
  dictFactory := readOk_asg _ _ _ (hp _ (List.mem_cons_of_mem _ List.mem_cons_self))
  asdict := (out_of_mem p g _ (by decide) (by decide) (List.mem_append_left _
    ((mem_locals_iff p true g _).2 (Or.inl (Or.inl (Or.inl (Or.inl (Or.inl (Or.inl (List.mem_cons_of_mem _ List.mem_cons_self)))))))))).read asg
  hooks := (out_of_mem p g _ (by decide) (by decide) (List.mem_append_left _
    ((mem_locals_iff p true g _).2 (Or.inl (Or.inl (Or.inl (Or.inl (Or.inl (Or.inl (List.mem_cons_of_mem _ (List.mem_cons_of_mem _ List.mem_cons_self))))))))))).read asg
  config := (out_of_mem p g _ (by decide) (by decide) (List.mem_append_left _
    ((mem_locals_iff p true g _).2 (Or.inl (Or.inl (Or.inl (Or.inl (Or.inl (Or.inl List.mem_cons_self))))))))).read asg
  clsToAsdict := (out_of_mem p g _ (by decide) (by decide) (List.mem_append_left _
    ((mem_locals_iff p true g _).2 (Or.inl (Or.inl (Or.inl (Or.inl (Or.inl (Or.inl (List.mem_cons_of_mem _ (List.mem_cons_of_mem _ (List.mem_cons_of_mem _ List.mem_cons_self)))))))))))).read asg
  ellipsis := (out_of_mem p g _ (by decide) (by decide) (List.mem_append_right _ List.mem_cons_self)).read asg
  result := readOk_asg _ _ _ hr

theorem fieldsLocals_out (p : Char → Bool) (g : GIn) : ∀ x ∈ fieldsLocals p true g 0 g.fields, Out (genScope p g) x := by
  intro x hx
  have hm : x ∈ genLocals p g ++ builtinsRead :=
    List.mem_append_left _ ((mem_locals_iff p true g x).2 (Or.inl (Or.inr hx)))
  rcases fieldsLocals_shape p true g g.fields 0 x hx with ⟨j, h⟩ | ⟨j, h⟩
  · subst h; exact out_of_mem p g _ (defaultName_not_fixed j) (defaultName_seventh j) hm
  · subst h; exact out_of_mem p g _ (skipIfName_not_fixed j) (skipIfName_seventh j) hm

theorem skipValue_out (p : Char → Bool) (g : GIn) (c : GCond) (h : g.skipIf = some c) (hb : c.binds p = true) :
    Out (genScope p g) skipValue :=
  out_of_mem p g _ (by decide) (by decide) (List.mem_append_left _
    ((mem_locals_iff p true g _).2 (Or.inl (Or.inl (Or.inl (Or.inl (Or.inl (Or.inr (by rw [h]; simp only [condLocals, hb, if_true]; exact List.mem_cons_self)))))))))

theorem skipDefaultsValue_out (p : Char → Bool) (g : GIn) (c : GCond) (h : g.skipDefaultsIf = some c) (hb : c.binds p = true) :
    Out (genScope p g) skipDefaultsValue :=
  out_of_mem p g _ (by decide) (by decide) (List.mem_append_left _
    ((mem_locals_iff p true g _).2 (Or.inl (Or.inl (Or.inl (Or.inl (Or.inr (by rw [h]; simp only [condLocals, hb, if_true]; exact List.mem_cons_self))))))))

theorem preDict_out (p : Char → Bool) (g : GIn) (h : g.preDict = true) : Out (genScope p g) "__pre_dict__".toList :=
  out_of_mem p g _ (by decide) (by decide) (List.mem_append_left _
    ((mem_locals_iff p true g _).2 (Or.inl (Or.inl (Or.inl (Or.inr (by simp only [h, if_true]; exact List.mem_cons_self)))))))

theorem nestedDict_out (p : Char → Bool) (g : GIn) (h : g.hasPaths = true) : Out (genScope p g) "NestedDict".toList :=
  out_of_mem p g _ (by decide) (by decide) (List.mem_append_left _
    ((mem_locals_iff p true g _).2 (Or.inl (Or.inl (Or.inr (by simp only [h, if_true]; exact List.mem_cons_self))))))

theorem chain (sc : Scope) (xs ys : List L2) (asg : List S) (P Q : List S → Prop)
    (h1 : ∃ a, checkL2s sc asg xs = some a ∧ P a) (h2 : ∀ a, P a → ∃ b, checkL2s sc a ys = some b ∧ Q b) :
    ∃ b, checkL2s sc asg (xs ++ ys) = some b ∧ Q b := by
  obtain ⟨a, ha, hP⟩ := h1
  obtain ⟨b, hb, hQ⟩ := h2 a hP
  exact ⟨b, by rw [checkL2s_append, ha]; exact hb, hQ⟩

theorem single (sc : Scope) (x : L2) (asg : List S) : checkL2s sc asg [x] = x.check sc asg := by
  simp only [checkL2s]
  cases x.check sc asg <;> rfl

/-- statements after the `exclude` bookkeeping: each is fine whenever `Inv` holds -/
theorem rest_ok (p : Char → Bool) (g : GIn) (a : List S) (h : Inv g a) :
    Base (genScope p g) a ∧ (∀ j, j < g.fields.length → (genScope p g).readOk a (skipName (0 + j)) = true) ∧
    (g.hasPaths = true → (genScope p g).readOk a "paths".toList = true) :=
  ⟨base_of p g a h.1 h.2.1, fun j hj => readOk_asg _ _ _ (by simpa using h.2.2.2 j hj),
   fun hp => readOk_asg _ _ _ (h.2.2.1 hp)⟩

theorem any_path_hasPaths (g : GIn) (h : g.fields.any (fun f => isPath f.key) = true) : g.hasPaths = true := by
  simp [GIn.hasPaths, h]

theorem line1_check (sc : Scope) (asg : List S) (s : Simple) (sep : S) (h : sc.readsOk asg s.reads = true) :
    L2.check sc asg (.s (.line { parts := [s], sep := sep })) = some (s.writes ++ asg) := by
  simp [L2.check, L1.check, L0.check, checkSimples, h]

theorem line2_check (sc : Scope) (asg : List S) (s1 s2 : Simple) (sep : S) (h1 : sc.readsOk asg s1.reads = true)
    (h2 : sc.readsOk (s1.writes ++ asg) s2.reads = true) :
    L2.check sc asg (.s (.line { parts := [s1, s2], sep := sep })) = some (s2.writes ++ (s1.writes ++ asg)) := by
  simp [L2.check, L1.check, L0.check, checkSimples, h1, h2]

theorem checkL2s_cons_some (sc : Scope) (x : L2) (r : List L2) (a b : List S) (h : x.check sc a = some b) :
    checkL2s sc a (x :: r) = checkL2s sc b r := by
  simp [checkL2s, h]

/-- **the body generated for any input is well scoped** -/
theorem genBody_ok (p : Char → Bool) (g : GIn) :
    ∃ out, checkL2s (genScope p g) params (genBody p g) = some out := by
  have hfinal : ∃ out, checkL2s (genScope p g) params (genBody p g) = some out ∧ True := by
    unfold genBody
    -- segments 4 and 5 (paths merge, tag / return) under Inv
    refine chain _ _ _ _ (Inv g) (fun _ => True) ?_ ?_
    · refine chain _ _ _ _ (Inv g) (Inv g) ?_ ?_
      · -- segment 3: the field bookkeeping
        refine chain _ _ _ _ (fun a => (∀ n ∈ params, n ∈ a) ∧ "result".toList ∈ a ∧ (g.hasPaths = true → "paths".toList ∈ a)) (Inv g) ?_ ?_
        · -- segment 2: paths = NestedDict()
          refine chain _ _ _ _ (fun a => (∀ n ∈ params, n ∈ a) ∧ "result".toList ∈ a) _ ?_ ?_
          · -- segments 0 and 1
            refine chain _ _ _ _ (fun a => ∀ n ∈ params, n ∈ a) _ ?_ ?_
            · by_cases hpd : g.preDict = true
              · simp only [hpd, if_true, single]
                have hr : (genScope p g).readsOk params (Simple.expr (Expr.call1 (nm "__pre_dict__") (nm "o"))).reads = true := by
                  rw [readsOk_iff]; intro x hx
                  simp only [Simple.reads, Expr.reads, nm, List.mem_append, List.mem_singleton] at hx
                  rcases hx with hx | hx
                  · rw [hx]; exact (preDict_out p g hpd).read _
                  · rw [hx]; exact readOk_asg _ _ _ List.mem_cons_self
                exact ⟨_, line1_check _ _ _ _ hr, fun n hn => by simpa [Simple.writes] using hn⟩
              · have : g.preDict = false := by simpa using hpd
                simp only [this, Bool.false_eq_true, if_false]
                exact ⟨params, rfl, fun n hn => hn⟩
            · intro a ha
              have hr : (genScope p g).readsOk a (Simple.assign false [Target.name "result".toList] Expr.emptyList).reads = true := by
                simp [Scope.readsOk, Simple.reads, Expr.reads, Target.reads]
              refine ⟨_, by rw [single]; exact line1_check _ _ _ _ hr, ?_, ?_⟩
              · intro n hn; exact List.mem_append_right _ (ha n hn)
              · simp [Simple.writes, Target.writes]
          · intro a ⟨hpa, hra⟩
            by_cases hp : g.hasPaths = true
            · simp only [hp, if_true, single]
              have hr : (genScope p g).readsOk a (Simple.assign false [Target.name "paths".toList] (Expr.call0 (nm "NestedDict"))).reads = true := by
                rw [readsOk_iff]; intro x hx
                simp only [Simple.reads, Expr.reads, nm, Target.reads, List.flatMap_cons, List.flatMap_nil, List.append_nil,
                  List.mem_singleton] at hx
                rw [hx]; exact (nestedDict_out p g hp).read _
              refine ⟨_, line1_check _ _ _ _ hr, ?_, ?_, ?_⟩
              · intro n hn; exact List.mem_append_right _ (hpa n hn)
              · exact List.mem_append_right _ hra
              · intro _; simp [Simple.writes, Target.writes]
            · have hp' : g.hasPaths = false := by simpa using hp
              simp only [hp', Bool.false_eq_true, if_false]
              exact ⟨a, rfl, hpa, hra, fun h => absurd h (by simp)⟩
        · intro a ⟨hpa, hra, hpp⟩
          by_cases hemp : g.fields.isEmpty = true
          · simp only [hemp, if_true]
            refine ⟨a, rfl, hpa, hra, hpp, ?_⟩
            intro j hj
            have : g.fields = [] := by simpa using hemp
            simp [this] at hj
          · have hemp' : g.fields.isEmpty = false := by simpa using hemp
            simp only [hemp', Bool.false_eq_true, if_false]
            obtain ⟨o1, ho1, hsub, hsk⟩ := ifelse_ok p (genScope p g) g.fields a
              (readOk_asg _ _ _ (hpa _ (by simp [params])))
            have hInv1 : Inv g o1 := ⟨fun n hn => hsub n (hpa n hn), hsub _ hra, fun h => hsub _ (hpp h), hsk⟩
            refine chain _ _ _ _ (Inv g) (Inv g) (chain _ _ _ _ (Inv g) (Inv g) ⟨o1, by rw [single]; exact ho1, hInv1⟩ ?_) ?_
            · intro b hb
              refine checkL2s_of_all (genScope p g) (Inv g) (Inv_upward g) _ b ?_ hb
              intro x hx c hc
              obtain ⟨hbase, hskb, _⟩ := rest_ok p g c hc
              unfold sdBlock at hx
              split at hx
              · simp at hx
              · simp only [List.mem_singleton] at hx
                subst hx
                have hcd : (genScope p g).readsOk c (nm "skip_defaults").reads = true := by
                  rw [readsOk_iff]; intro y hy
                  simp only [nm, Expr.reads, List.mem_singleton] at hy
                  rw [hy]; exact readOk_asg _ _ _ (hc.1 _ (by simp [params]))
                obtain ⟨o3, ho3⟩ := checkL1s_of_all (genScope p g)
                  (fun c => Base (genScope p g) c ∧ ∀ j, j < g.fields.length → (genScope p g).readOk c (skipName (0 + j)) = true)
                  (fun c d hcd ⟨h1, h2⟩ => ⟨h1.mono hcd, fun j hj => readOk_mono _ c d _ hcd (h2 j hj)⟩)
                  (skipDefaultLines p g 0 g.fields) c
                  (fun y hy c ⟨h1, h2⟩ => skipDefaultLines_ok p g (genScope p g) (skipDefaultsValue_out p g) g.fields 0 c h1 h2
                    (fieldsLocals_out p g) y hy)
                  ⟨hbase, hskb⟩
                simp only [L2.check]
                rw [if_pos hcd, ho3]; rfl
            · intro b hb
              refine checkL2s_of_all (genScope p g) (Inv g) (Inv_upward g) _ b ?_ hb
              intro x hx c hc
              obtain ⟨hbase, hskb, hpb⟩ := rest_ok p g c hc
              exact fieldStmts_ok p g (genScope p g) (skipValue_out p g) g.fields 0 c hbase hskb
                (fun h => hpb (any_path_hasPaths g h)) (fieldsLocals_out p g) x hx
      · intro a ha
        refine checkL2s_of_all (genScope p g) (Inv g) (Inv_upward g) _ a ?_ ha
        intro x hx b hb
        obtain ⟨hbase, _, hpb⟩ := rest_ok p g b hb
        by_cases hp : g.hasPaths = true
        · simp only [hp, if_true, List.mem_singleton] at hx
          subst hx
          have hr1 : (genScope p g).readsOk b (Simple.expr (Expr.bin (nm "result") .and_
              (Expr.call1 (Expr.attr (nm "paths") "update".toList) (nm "result")))).reads = true := by
            rw [readsOk_iff]; intro y hy
            simp only [Simple.reads, Expr.reads, nm, List.mem_append, List.mem_singleton] at hy
            rcases hy with hy | hy | hy
            · rw [hy]; exact hbase.result
            · rw [hy]; exact hpb hp
            · rw [hy]; exact hbase.result
          have hr2 : (genScope p g).readsOk ((Simple.expr (Expr.bin (nm "result") .and_
              (Expr.call1 (Expr.attr (nm "paths") "update".toList) (nm "result")))).writes ++ b)
              (Simple.assign false [Target.name "result".toList] (nm "paths")).reads = true := by
            rw [readsOk_iff]; intro y hy
            simp only [Simple.reads, Expr.reads, nm, Target.reads, List.flatMap_cons, List.flatMap_nil, List.append_nil,
              List.mem_singleton] at hy
            rw [hy]; exact readOk_mono _ b _ _ (fun x hx => List.mem_append_right _ hx) (hpb hp)
          rw [line2_check _ _ _ _ _ hr1 hr2]; rfl
        · have hp' : g.hasPaths = false := by simpa using hp
          simp [hp'] at hx
    · intro a ha
      have hbase := (rest_ok p g a ha).1
      have hres : ∀ asg, Base (genScope p g) asg → ∀ y ∈ (Expr.call1 (nm "dict_factory") (nm "result")).reads,
          (genScope p g).readOk asg y = true := by
        intro asg hb y hy
        simp only [Expr.reads, nm, List.mem_append, List.mem_singleton] at hy
        rcases hy with hy | hy
        · rw [hy]; exact hb.dictFactory
        · rw [hy]; exact hb.result
      unfold tailStmts
      cases ht : g.tagOn with
      | none =>
        have hr : (genScope p g).readsOk a (Simple.ret (Expr.call1 (nm "dict_factory") (nm "result"))).reads = true := by
          rw [readsOk_iff]; exact hres a hbase
        exact ⟨_, by rw [single]; exact line1_check _ _ _ _ hr, trivial⟩
      | some t =>
        have hr1 : (genScope p g).readsOk a (Simple.assign false [Target.name "result".toList]
            (Expr.call1 (nm "dict_factory") (nm "result"))).reads = true := by
          rw [readsOk_iff]; intro y hy
          simp only [Simple.reads, Target.reads, List.flatMap_cons, List.flatMap_nil, List.append_nil] at hy
          exact hres a hbase y hy
        have c1 := line1_check (genScope p g) a _ "; ".toList hr1
        have hb1 : Base (genScope p g) ((Simple.assign false [Target.name "result".toList]
            (Expr.call1 (nm "dict_factory") (nm "result"))).writes ++ a) := hbase.mono (fun x hx => List.mem_append_right _ hx)
        have hr2 : (genScope p g).readsOk ((Simple.assign false [Target.name "result".toList]
            (Expr.call1 (nm "dict_factory") (nm "result"))).writes ++ a)
            (Simple.assign false [Target.item "result".toList [LitV.str g.effTagKey]] (Expr.lit (.str t))).reads = true := by
          rw [readsOk_iff]; intro y hy
          simp only [Simple.reads, Expr.reads, Target.reads, List.flatMap_cons, List.flatMap_nil, List.append_nil,
            List.nil_append, List.mem_singleton] at hy
          rw [hy]; exact hb1.result
        have c2 := line1_check (genScope p g) _ _ "; ".toList hr2
        have hb2 := hb1.mono (b := (Simple.assign false [Target.item "result".toList [LitV.str g.effTagKey]] (Expr.lit (.str t))).writes ++
          ((Simple.assign false [Target.name "result".toList] (Expr.call1 (nm "dict_factory") (nm "result"))).writes ++ a))
          (fun x hx => List.mem_append_right _ hx)
        have hr3 : (genScope p g).readsOk ((Simple.assign false [Target.item "result".toList [LitV.str g.effTagKey]] (Expr.lit (.str t))).writes ++
            ((Simple.assign false [Target.name "result".toList] (Expr.call1 (nm "dict_factory") (nm "result"))).writes ++ a))
            (Simple.ret (nm "result")).reads = true := by
          rw [readsOk_iff]; intro y hy
          simp only [Simple.reads, Expr.reads, nm, List.mem_singleton] at hy
          rw [hy]; exact hb2.result
        have c3 := line1_check (genScope p g) _ _ "; ".toList hr3
        have hall := (checkL2s_cons_some _ _ [_, _] _ _ c1).trans ((checkL2s_cons_some _ _ [_] _ _ c2).trans ((single _ _ _).trans c3))
        exact ⟨_, hall, trivial⟩
  obtain ⟨out, h, _⟩ := hfinal
  exact ⟨out, h⟩

theorem wellScoped_all (p : Char → Bool) (g : GIn) : wellScoped p g = true := by
  obtain ⟨out, h⟩ := genBody_ok p g
  unfold wellScoped wellScopedQ
  change (checkL2s (genScope p g) params (genBody p g)).isSome = true
  rw [h]; rfl

end DW.GenDump
