/-
Lemmas about the load-generator model `DW/Model/GenLoad.lean`: an abstract checker that runs on concrete name lists and is sound for
the scoping checker (so that the fixed parts of the template can be checked by evaluation), and the scoping theorem for every class.
-/
import DW.Model.GenLoad
namespace DW.GenLoad
open DW.Names

/-- abstract reading test: `known` names are surely assigned, `ok` names are fine from outside -/
def ard (known ok : List S) (ns : List S) : Bool := ns.all (fun n => known.contains n || ok.contains n)

def acheckParts (ok : List S) : List S → List Part → Option (List S)
  | known, [] => some known
  | known, p :: r => if ard known ok p.reads then acheckParts ok (p.writes ++ known) r else none

mutual
def Stmt.acheck (ok : List S) (known : List S) : Stmt → Option Flow
  | .line parts => (acheckParts ok known parts).map some
  | .comment _ => some (some known)
  | .exit _ rs => if ard known ok rs then some none else none
  | .if_ _ cr thn elifs els =>
      if ard known ok cr then
        match acheckList ok known thn, acheckElifs ok known elifs, acheckElse ok known els with
        | some a, some b, some c => some ((a.meet b).meet c)
        | _, _, _ => none
      else none
  | .for_ t _ ir body =>
      if ard known ok ir then
        match acheckList ok (t :: known) body with
        | some _ => some (some known)
        | none => none
      else none
  | .try_ body _ er asName handler =>
      if ard known ok er then
        match acheckList ok known body,
              acheckList ok (safePrefixWrites body ++ asNames asName ++ known) handler with
        | some a, some b => some (a.meet b)
        | _, _ => none
      else none
def acheckList (ok : List S) (known : List S) : List Stmt → Option Flow
  | [] => some (some known)
  | s :: r =>
    match s.acheck ok known with
    | none => none
    | some none => some none
    | some (some a) => acheckList ok a r
def acheckElifs (ok : List S) (known : List S) : List (S × List S × List Stmt) → Option Flow
  | [] => some none
  | (_, cr, body) :: r =>
    if ard known ok cr then
      match acheckList ok known body, acheckElifs ok known r with
      | some a, some b => some (a.meet b)
      | _, _ => none
    else none
def acheckElse (ok : List S) (known : List S) : Option (List Stmt) → Option Flow
  | none => some (some known)
  | some e => acheckList ok known e
end

/-- a concrete flow is at least an abstract one -/
def Flow.ge (c a : Flow) : Prop :=
  match a, c with
  | none, none => True
  | none, some _ => False
  | some _, none => True        -- the concrete run does not fall through: vacuous
  | some ka, some kc => ∀ n ∈ ka, n ∈ kc

structure OkOuter (sc : Scope) (ok : List S) : Prop where
  h : ∀ n ∈ ok, sc.locals.contains n = false ∧ sc.outer.contains n = true

theorem readsOk_of_ard (sc : Scope) (ok known asg ns : List S) (ho : OkOuter sc ok) (hk : ∀ n ∈ known, n ∈ asg)
    (h : ard known ok ns = true) : sc.readsOk asg ns = true := by
  unfold ard at h
  unfold Scope.readsOk
  rw [List.all_eq_true] at h ⊢
  intro n hn
  have := h n hn
  simp only [Bool.or_eq_true, List.contains_eq_mem, decide_eq_true_eq] at this
  unfold Scope.readOk
  rcases this with h1 | h1
  · simp [hk n h1]
  · have := ho.h n h1
    have h2 : n ∉ sc.locals := by simpa using this.1
    have h3 : n ∈ sc.outer := by simpa using this.2
    simp [h2, h3]

theorem acheckParts_sound (sc : Scope) (ok : List S) (ho : OkOuter sc ok) : ∀ (ps : List Part) (known asg : List S) (k' : List S),
    (∀ n ∈ known, n ∈ asg) → acheckParts ok known ps = some k' →
    ∃ a', checkParts sc asg ps = some a' ∧ ∀ n ∈ k', n ∈ a'
  | [], known, asg, k', hk, h => by
    simp only [acheckParts, Option.some.injEq] at h; subst h
    exact ⟨asg, rfl, hk⟩
  | p :: r, known, asg, k', hk, h => by
    simp only [acheckParts] at h
    split at h
    · next hr =>
      simp only [checkParts, readsOk_of_ard sc ok known asg p.reads ho hk hr, if_true]
      exact acheckParts_sound sc ok ho r (p.writes ++ known) (p.writes ++ asg) k'
        (fun n hn => by
          rcases List.mem_append.1 hn with h1 | h1
          · exact List.mem_append_left _ h1
          · exact List.mem_append_right _ (hk n h1)) h
    · simp at h

theorem meet_ge (c1 c2 a1 a2 : Flow) (h1 : c1.ge a1) (h2 : c2.ge a2) : (c1.meet c2).ge (a1.meet a2) := by
  cases a1 <;> cases a2 <;> cases c1 <;> cases c2 <;> simp_all [Flow.ge, Flow.meet]
  all_goals (intro n hn; first | exact h1 n hn | exact h2 n hn | skip)
  all_goals (try (constructor <;> first | exact h1 n hn.1 | exact h2 n hn.2))

theorem ge_refl_sub (ka kc : List S) (h : ∀ n ∈ ka, n ∈ kc) : Flow.ge (some kc) (some ka) := h

mutual
theorem Stmt.acheck_sound (sc : Scope) (ok : List S) (ho : OkOuter sc ok) : ∀ (s : Stmt) (known asg : List S) (fa : Flow),
    (∀ n ∈ known, n ∈ asg) → s.acheck ok known = some fa → ∃ fc, s.check sc asg = some fc ∧ fc.ge fa
  | .line parts, known, asg, fa, hk, h => by
    simp only [Stmt.acheck, Option.map_eq_some_iff] at h
    obtain ⟨k', hk', rfl⟩ := h
    obtain ⟨a', ha', hsub⟩ := acheckParts_sound sc ok ho parts known asg k' hk hk'
    exact ⟨some a', by simp [Stmt.check, ha'], hsub⟩
  | .comment _, known, asg, fa, hk, h => by
    simp only [Stmt.acheck, Option.some.injEq] at h; subst h
    exact ⟨some asg, rfl, hk⟩
  | .exit _ rs, known, asg, fa, hk, h => by
    simp only [Stmt.acheck] at h
    split at h
    · next hr =>
      simp only [Option.some.injEq] at h; subst h
      exact ⟨none, by simp [Stmt.check, readsOk_of_ard sc ok known asg rs ho hk hr], trivial⟩
    · simp at h
  | .if_ _ cr thn elifs els, known, asg, fa, hk, h => by
    simp only [Stmt.acheck] at h
    split at h
    · next hr =>
      split at h
      · next a b c ha hb hc =>
        simp only [Option.some.injEq] at h; subst h
        obtain ⟨ca, hca, gea⟩ := acheckList_sound sc ok ho thn known asg a hk ha
        obtain ⟨cb, hcb, geb⟩ := acheckElifs_sound sc ok ho elifs known asg b hk hb
        obtain ⟨cc, hcc, gec⟩ := acheckElse_sound sc ok ho els known asg c hk hc
        refine ⟨(ca.meet cb).meet cc, ?_, meet_ge _ _ _ _ (meet_ge _ _ _ _ gea geb) gec⟩
        simp only [Stmt.check, readsOk_of_ard sc ok known asg cr ho hk hr, if_true, hca, hcb, hcc]
      · simp at h
    · simp at h
  | .for_ t _ ir body, known, asg, fa, hk, h => by
    simp only [Stmt.acheck] at h
    split at h
    · next hr =>
      split at h
      · next fb hb =>
        simp only [Option.some.injEq] at h; subst h
        obtain ⟨cb, hcb, _⟩ := acheckList_sound sc ok ho body (t :: known) (t :: asg) fb
          (fun n hn => by
            rcases List.mem_cons.1 hn with h1 | h1
            · exact h1 ▸ List.mem_cons_self
            · exact List.mem_cons_of_mem _ (hk n h1)) hb
        exact ⟨some asg, by simp [Stmt.check, readsOk_of_ard sc ok known asg ir ho hk hr, hcb], hk⟩
      · simp at h
    · simp at h
  | .try_ body _ er asName handler, known, asg, fa, hk, h => by
    simp only [Stmt.acheck] at h
    split at h
    · next hr =>
      split at h
      · next a b ha hb =>
        simp only [Option.some.injEq] at h; subst h
        obtain ⟨ca, hca, gea⟩ := acheckList_sound sc ok ho body known asg a hk ha
        obtain ⟨cb, hcb, geb⟩ := acheckList_sound sc ok ho handler _
          (safePrefixWrites body ++ asNames asName ++ asg) b
          (fun n hn => by
            rcases List.mem_append.1 hn with h1 | h1
            · exact List.mem_append_left _ h1
            · exact List.mem_append_right _ (hk n h1)) hb
        refine ⟨ca.meet cb, ?_, meet_ge _ _ _ _ gea geb⟩
        simp only [Stmt.check, readsOk_of_ard sc ok known asg er ho hk hr, if_true, hca, hcb]
      · simp at h
    · simp at h
theorem acheckList_sound (sc : Scope) (ok : List S) (ho : OkOuter sc ok) : ∀ (ss : List Stmt) (known asg : List S) (fa : Flow),
    (∀ n ∈ known, n ∈ asg) → acheckList ok known ss = some fa → ∃ fc, checkList sc asg ss = some fc ∧ fc.ge fa
  | [], known, asg, fa, hk, h => by
    simp only [acheckList, Option.some.injEq] at h; subst h
    exact ⟨some asg, rfl, hk⟩
  | s :: r, known, asg, fa, hk, h => by
    simp only [acheckList] at h
    split at h
    · simp at h
    · next hs =>
      simp only [Option.some.injEq] at h; subst h
      obtain ⟨fc, hfc, ge⟩ := Stmt.acheck_sound sc ok ho s known asg none hk hs
      cases fc with
      | none => exact ⟨none, by simp [checkList, hfc], trivial⟩
      | some _ => exact absurd ge (by simp [Flow.ge])
    · next a hs =>
      obtain ⟨fc, hfc, ge⟩ := Stmt.acheck_sound sc ok ho s known asg (some a) hk hs
      cases fc with
      | none =>
        refine ⟨none, by simp [checkList, hfc], ?_⟩
        cases fa <;> simp [Flow.ge]
      | some ac =>
        obtain ⟨fc2, hfc2, ge2⟩ := acheckList_sound sc ok ho r a ac fa ge h
        exact ⟨fc2, by simp [checkList, hfc, hfc2], ge2⟩
theorem acheckElifs_sound (sc : Scope) (ok : List S) (ho : OkOuter sc ok) : ∀ (es : List (S × List S × List Stmt))
    (known asg : List S) (fa : Flow),
    (∀ n ∈ known, n ∈ asg) → acheckElifs ok known es = some fa → ∃ fc, checkElifs sc asg es = some fc ∧ fc.ge fa
  | [], known, asg, fa, hk, h => by
    simp only [acheckElifs, Option.some.injEq] at h; subst h
    exact ⟨none, rfl, trivial⟩
  | (_, cr, body) :: r, known, asg, fa, hk, h => by
    simp only [acheckElifs] at h
    split at h
    · next hr =>
      split at h
      · next a b ha hb =>
        simp only [Option.some.injEq] at h; subst h
        obtain ⟨ca, hca, gea⟩ := acheckList_sound sc ok ho body known asg a hk ha
        obtain ⟨cb, hcb, geb⟩ := acheckElifs_sound sc ok ho r known asg b hk hb
        exact ⟨ca.meet cb, by simp [checkElifs, readsOk_of_ard sc ok known asg cr ho hk hr, hca, hcb], meet_ge _ _ _ _ gea geb⟩
      · simp at h
    · simp at h
theorem acheckElse_sound (sc : Scope) (ok : List S) (ho : OkOuter sc ok) : ∀ (els : Option (List Stmt)) (known asg : List S) (fa : Flow),
    (∀ n ∈ known, n ∈ asg) → acheckElse ok known els = some fa → ∃ fc, checkElse sc asg els = some fc ∧ fc.ge fa
  | none, known, asg, fa, hk, h => by
    simp only [acheckElse, Option.some.injEq] at h; subst h
    exact ⟨some asg, rfl, hk⟩
  | some e, known, asg, fa, hk, h => by
    simp only [acheckElse] at h
    simp only [checkElse]
    exact acheckList_sound sc ok ho e known asg fa hk h
end

/-! ### sequences -/

theorem checkList_append (sc : Scope) : ∀ (a b : List Stmt) (asg : List S),
    checkList sc asg (a ++ b) = (match checkList sc asg a with
      | none => none
      | some none => some none
      | some (some x) => checkList sc x b)
  | [], b, asg => by simp [checkList]
  | s :: r, b, asg => by
    simp only [List.cons_append, checkList]
    cases hs : s.check sc asg with
    | none => rfl
    | some f =>
      cases f with
      | none => rfl
      | some x => exact checkList_append sc r b x

theorem writesList_append : ∀ (a b : List Stmt), writesList (a ++ b) = writesList a ++ writesList b
  | [], b => by simp [writesList]
  | s :: r, b => by simp [writesList, writesList_append r b, List.append_assoc]

/-- the names the body can bind -/
def fixedW : List S := [t "o", t "init_kwargs", t "catch_all", t "field", t "json_key", t "py_field", t "e"]

theorem writes_paths (p : Char → Bool) : ∀ (ls : List PathLine) (n : S), n ∈ writesList (ls.map (pathStmt p)) → n = t "field"
  | [], n, h => by simp [writesList] at h
  | l :: r, n, h => by
    simp only [List.map_cons, writesList, List.mem_append] at h
    rcases h with h | h
    · simp [pathStmt, Stmt.writes] at h; exact h
    · exact writes_paths p r n h

theorem writes_paths_all (p : Char → Bool) (ls : List PathLine) :
    (writesList (ls.map (pathStmt p))).all (fun n => fixedW.contains n) = true := by
  rw [List.all_eq_true]
  intro n hn
  rw [writes_paths p ls n hn]
  decide

theorem writes_loop (g : LIn) : (writesList [loopBlock g]).all (fun n => fixedW.contains n) = true := by
  cases hr : g.raiseOnUnknown <;> cases hc : g.catchAll <;> cases hk : g.knownKeys <;>
    simp [loopBlock, lookupBlock, writesList, Stmt.writes, writesElifs, writesElse, asNames, hr, hc, hk, fixedW, t]

/-- every name the generated body binds is one of the seven fixed locals -/
theorem writes_fixed (p : Char → Bool) (g : LIn) : (writesList (genBody p g)).all (fun n => fixedW.contains n) = true := by
  unfold genBody headStmts pathBlock tailStmts
  simp only [writesList_append, List.all_append, Bool.and_eq_true]
  refine ⟨⟨⟨?_, ?_⟩, ?_⟩, ?_, ⟨?_, ?_⟩, ?_⟩
  · cases g.preFromDict <;> simp [writesList, Stmt.writes, fixedW, t]
  · simp [writesList, Stmt.writes, fixedW, t]
  · cases g.catchAll <;> simp [writesList, Stmt.writes, fixedW, t]
  · cases hp : g.paths.isEmpty
    · simp only [Bool.false_eq_true, if_false, writesList, Stmt.writes, asNames, List.append_nil, List.all_append, Bool.and_eq_true]
      refine ⟨⟨writes_paths_all p g.paths, by simp [fixedW, t]⟩, by simp [writesList, Stmt.writes]⟩
    · simp [writesList]
  · cases g.loopOverO
    · simp [writesList]
    · simpa using writes_loop g
  · cases hc : g.catchAll with
    | none => simp [writesList]
    | some q =>
      obtain ⟨f, b⟩ := q
      cases b <;> simp [writesList, Stmt.writes, writesElifs, writesElse]
  · simp [writesList, Stmt.writes, asNames, fixedW, t]

/-! ### the outer names are never shadowed -/

/-- every name the generated function may take from outside: closure, globals, builtins -/
def okOf (g : LIn) : List S := genLocals g ++ genGlobals g ++ builtinsRead

/-- all fixed outer names of the template, whatever the switches -/
def okFixedAll : List S :=
  [t "cls", t "py_case", t "field_to_parser", t "json_to_field", t "ExplicitNull", t "safe_get", t "__pre_from_dict__",
   t "unknown_keys", t "known_keys", t "cls_fields", t "LOG", t "MissingData", t "MissingFields", t "ParseError",
   t "UnknownKeysError", t "KeyError", t "TypeError", t "isinstance", t "dict"]

theorem okFixedAll_not_local : ∀ n ∈ okFixedAll, fixedW.contains n = false := by decide

theorem defaultVar_not_local (f : S) : fixedW.contains (defaultVar f) = false := by
  have h : defaultVar f = '_' :: 'd' :: 'e' :: 'f' :: 'a' :: 'u' :: 'l' :: 't' :: '_' :: f := by unfold defaultVar; rfl
  rw [h]
  simp [fixedW, t]

theorem ok_shape (g : LIn) : ∀ n ∈ okOf g, n ∈ okFixedAll ∨ ∃ f, n = defaultVar f := by
  intro n hn
  simp only [okOf, genLocals, genGlobals, builtinsRead, List.mem_append, List.mem_filterMap] at hn
  rcases hn with (((((((h | h) | h) | h) | h) | h) | ((h | h) | h)) | h)
  · left; simp [okFixedAll] at h ⊢; rcases h with h | h | h | h | h <;> simp [h]
  · left; split at h
    · simp at h
    · simp at h; simp [okFixedAll, h]
  · left; split at h
    · simp at h; simp [okFixedAll, h]
    · simp at h
  · right
    obtain ⟨l, _, hl⟩ := h
    cases hd : l.dflt <;> simp [hd] at hl
    · exact ⟨l.field, hl.symm⟩
    · exact ⟨l.field, hl.symm⟩
  · left; split at h
    · simp at h; simp [okFixedAll, h]
    · simp at h
  · left; split at h
    · simp at h; simp [okFixedAll, h]
    · simp at h
  · left; simp [okFixedAll] at h ⊢; rcases h with h | h | h | h <;> simp [h]
  · left; split at h
    · simp at h; simp [okFixedAll, h]
    · simp at h
  · left; split at h
    · simp at h; simp [okFixedAll, h]
    · simp at h
  · left; simp [okFixedAll] at h ⊢; rcases h with h | h | h | h <;> simp [h]

theorem okOuter_genScope (p : Char → Bool) (g : LIn) : OkOuter (genScope p g) (okOf g) := by
  constructor
  intro n hn
  refine ⟨?_, by simpa [genScope, okOf] using hn⟩
  have hnf : fixedW.contains n = false := by
    rcases ok_shape g n hn with h | ⟨f, rfl⟩
    · exact okFixedAll_not_local n h
    · exact defaultVar_not_local f
  have hw := writes_fixed p g
  rw [List.all_eq_true] at hw
  have : n ∉ t "o" :: writesList (genBody p g) := by
    intro hm
    rcases List.mem_cons.1 hm with h | h
    · rw [h] at hnf; revert hnf; decide
    · have := hw n h; rw [hnf] at this; cases this
  simpa [genScope] using this

/-! ### the fixed parts of the template, by evaluation -/

/-- the outer names apart from the per-field `_default_<f>` -/
def okFixed (g : LIn) : List S :=
  [t "cls", t "py_case", t "field_to_parser", t "json_to_field", t "ExplicitNull"]
  ++ (if g.paths.isEmpty then [] else [t "safe_get"])
  ++ (if g.preFromDict then [t "__pre_from_dict__"] else [])
  ++ (if g.loopOverO && !g.raiseOnUnknown then [t "unknown_keys"] else [])
  ++ (if g.loopOverO && g.catchAll.isSome && g.knownKeys then [t "known_keys"] else [])
  ++ genGlobals g ++ builtinsRead

theorem okFixed_sub (g : LIn) : ∀ n ∈ okFixed g, n ∈ okOf g := by
  intro n hn
  simp only [okFixed, okOf, genLocals, List.mem_append] at hn ⊢
  rcases hn with ((((((h | h) | h) | h) | h) | h) | h)
  · exact Or.inl (Or.inl (Or.inl (Or.inl (Or.inl (Or.inl (Or.inl h))))))
  · exact Or.inl (Or.inl (Or.inl (Or.inl (Or.inl (Or.inl (Or.inr h))))))
  · exact Or.inl (Or.inl (Or.inl (Or.inl (Or.inl (Or.inr h)))))
  · exact Or.inl (Or.inl (Or.inl (Or.inr h)))
  · exact Or.inl (Or.inl (Or.inr h))
  · exact Or.inl (Or.inr h)
  · exact Or.inr h

theorem OkOuter.mono {sc : Scope} {a b : List S} (h : OkOuter sc b) (hab : ∀ n ∈ a, n ∈ b) : OkOuter sc a :=
  ⟨fun n hn => h.h n (hab n hn)⟩

/-- what is surely bound after them -/
def headKnown (g : LIn) : List S :=
  (match g.catchAll with | some _ => [t "catch_all"] | none => []) ++ [t "init_kwargs"] ++ (if g.preFromDict then [t "o"] else []) ++ [t "o"]

theorem head_acheck (g : LIn) : acheckList (okFixed g) [t "o"] (headStmts g) = some (some (headKnown g)) := by
  cases hp : g.preFromDict <;> cases hc : g.catchAll <;>
    simp [headStmts, headKnown, okFixed, acheckList, Stmt.acheck, acheckParts, ard, hp, hc, t]

/-! ### the abstract checker does not look at the text -/

def Part.erase (q : Part) : Part := { q with text := [] }

mutual
def Stmt.erase : Stmt → Stmt
  | .line parts => .line (parts.map Part.erase)
  | .comment _ => .comment []
  | .exit _ rs => .exit [] rs
  | .if_ _ cr thn elifs els => .if_ [] cr (eraseList thn) (eraseElifs elifs) (eraseElse els)
  | .for_ tg _ ir body => .for_ tg [] ir (eraseList body)
  | .try_ body _ er asName handler => .try_ (eraseList body) [] er asName (eraseList handler)
def eraseList : List Stmt → List Stmt
  | [] => []
  | s :: r => s.erase :: eraseList r
def eraseElifs : List (S × List S × List Stmt) → List (S × List S × List Stmt)
  | [] => []
  | (_, cr, body) :: r => ([], cr, eraseList body) :: eraseElifs r
def eraseElse : Option (List Stmt) → Option (List Stmt)
  | none => none
  | some e => some (eraseList e)
end

theorem acheckParts_erase (ok : List S) : ∀ (ps : List Part) (known : List S),
    acheckParts ok known (ps.map Part.erase) = acheckParts ok known ps
  | [], _ => rfl
  | q :: r, known => by
    simp only [List.map_cons, acheckParts, Part.erase]
    split
    · exact acheckParts_erase ok r _
    · rfl

theorem safePrefix_erase (ss : List Stmt) : safePrefixWrites (eraseList ss) = safePrefixWrites ss := by
  cases ss with
  | nil => rfl
  | cons s r =>
    cases s with
    | line parts =>
      simp only [eraseList, Stmt.erase, safePrefixWrites]
      induction parts with
      | nil => rfl
      | cons q rest ih =>
        simp only [List.map_cons, List.takeWhile_cons, Part.erase]
        split
        · simp only [List.flatMap_cons, ih]
        · rfl
    | _ => simp [eraseList, Stmt.erase, safePrefixWrites]

mutual
theorem Stmt.acheck_erase (ok : List S) : ∀ (s : Stmt) (known : List S), s.erase.acheck ok known = s.acheck ok known
  | .line parts, known => by simp only [Stmt.erase, Stmt.acheck, acheckParts_erase]
  | .comment _, known => by simp only [Stmt.erase, Stmt.acheck]
  | .exit _ rs, known => by simp only [Stmt.erase, Stmt.acheck]
  | .if_ _ cr thn elifs els, known => by
    simp only [Stmt.erase, Stmt.acheck, acheckList_erase ok thn known, acheckElifs_erase ok elifs known, acheckElse_erase ok els known]
  | .for_ tg _ ir body, known => by
    simp only [Stmt.erase, Stmt.acheck, acheckList_erase ok body (tg :: known)]
  | .try_ body _ er asName handler, known => by
    simp only [Stmt.erase, Stmt.acheck, acheckList_erase ok body known, safePrefix_erase, acheckList_erase ok handler _]
theorem acheckList_erase (ok : List S) : ∀ (ss : List Stmt) (known : List S), acheckList ok known (eraseList ss) = acheckList ok known ss
  | [], _ => rfl
  | s :: r, known => by
    simp only [eraseList, acheckList, Stmt.acheck_erase ok s known]
    cases s.acheck ok known with
    | none => rfl
    | some f =>
      cases f with
      | none => rfl
      | some a => exact acheckList_erase ok r a
theorem acheckElifs_erase (ok : List S) : ∀ (es : List (S × List S × List Stmt)) (known : List S),
    acheckElifs ok known (eraseElifs es) = acheckElifs ok known es
  | [], _ => rfl
  | (_, cr, body) :: r, known => by
    simp only [eraseElifs, acheckElifs, acheckList_erase ok body known, acheckElifs_erase ok r known]
theorem acheckElse_erase (ok : List S) : ∀ (els : Option (List Stmt)) (known : List S),
    acheckElse ok known (eraseElse els) = acheckElse ok known els
  | none, _ => rfl
  | some e, known => by simp only [eraseElse, acheckElse, acheckList_erase ok e known]
end

/-- the statements behind the path block pass the abstract checker, for every combination of switches (kernel evaluation of the
text-free statements) -/
theorem tail_acheck (p : Char → Bool) (g : LIn) : (acheckList (okFixed g) (headKnown g) (tailStmts p g)).isSome = true := by
  rw [← acheckList_erase]
  obtain ⟨pre, ca, ru, paths, loop, kk⟩ := g
  cases pre <;> cases ru <;> cases loop <;> cases kk <;> cases paths <;> cases ca <;>
    (try (rename_i q; obtain ⟨f, b⟩ := q; cases b)) <;>
    (simp only [okFixed, headKnown, genGlobals, builtinsRead, Option.isSome, Bool.and_true, Bool.and_false, Bool.true_and, Bool.false_and,
       Bool.not_true, Bool.not_false, Bool.or_true, Bool.or_false, Bool.true_or, Bool.false_or,
       tailStmts, loopBlock, lookupBlock, eraseList, Stmt.erase, eraseElifs, eraseElse, Part.erase, List.map_cons, List.map_nil,
       List.cons_append, List.nil_append, List.append_nil, if_true, if_false, Bool.false_eq_true, List.isEmpty_cons, List.isEmpty_nil,
       ite_true, ite_false] <;> decide +kernel)

/-! ### the path block -/

theorem readOk_of_mem (sc : Scope) (asg : List S) (n : S) (h : n ∈ asg) : sc.readOk asg n = true := by
  simp [Scope.readOk, h]

theorem readOk_of_ok (sc : Scope) (ok asg : List S) (ho : OkOuter sc ok) (n : S) (h : n ∈ ok) : sc.readOk asg n = true := by
  have := ho.h n h
  have h2 : n ∉ sc.locals := by simpa using this.1
  have h3 : n ∈ sc.outer := by simpa using this.2
  simp [Scope.readOk, h2, h3]

/-- the lines of the path block: each binds `field` and reads only what is bound or comes from outside -/
theorem paths_lines_ok (p : Char → Bool) (sc : Scope) (ok : List S) (ho : OkOuter sc ok)
    (hftp : t "field_to_parser" ∈ ok) (hsg : t "safe_get" ∈ ok) :
    ∀ (ls : List PathLine) (asg : List S), t "o" ∈ asg → t "init_kwargs" ∈ asg →
      (∀ l ∈ ls, l.dflt ≠ .none → defaultVar l.field ∈ ok) →
      ∃ a, checkList sc asg (ls.map (pathStmt p)) = some (some a) ∧ ∀ n ∈ asg, n ∈ a
  | [], asg, _, _, _ => ⟨asg, rfl, fun _ h => h⟩
  | l :: r, asg, ho', hi, hd => by
    have hstep : Stmt.check sc asg (pathStmt p l) = some (some ([] ++ ([t "field"] ++ asg))) := by
      have h1 : sc.readsOk asg ([] : List S) = true := rfl
      have hasg' : ∀ n ∈ asg, n ∈ [t "field"] ++ asg := fun n hn => List.mem_append_right _ hn
      have h2 : sc.readsOk ([t "field"] ++ asg) ([t "field_to_parser", t "field", t "safe_get", t "o"] ++
          (match l.dflt with | .none => [] | _ => [defaultVar l.field]) ++ [t "init_kwargs", t "field"]) = true := by
        unfold Scope.readsOk
        rw [List.all_eq_true]
        intro n hn
        simp only [List.mem_append, List.mem_cons, List.mem_singleton, List.not_mem_nil, or_false] at hn
        rcases hn with ((h | h | h | h) | h) | (h | h)
        · rw [h]; exact readOk_of_ok sc ok _ ho _ hftp
        · rw [h]; exact readOk_of_mem sc _ _ (by simp)
        · rw [h]; exact readOk_of_ok sc ok _ ho _ hsg
        · rw [h]; exact readOk_of_mem sc _ _ (hasg' _ ho')
        · cases hdk : l.dflt with
          | none => simp [hdk] at h
          | value =>
            simp [hdk] at h; rw [h]
            exact readOk_of_ok sc ok _ ho _ (hd l (by simp) (by simp [hdk]))
          | factory =>
            simp [hdk] at h; rw [h]
            exact readOk_of_ok sc ok _ ho _ (hd l (by simp) (by simp [hdk]))
        · rw [h]; exact readOk_of_mem sc _ _ (hasg' _ hi)
        · rw [h]; exact readOk_of_mem sc _ _ (by simp)
      simp only [pathStmt, Stmt.check, checkParts, h1, if_true, List.nil_append]
      cases hdk : l.dflt <;> simp only [hdk] at h2 ⊢ <;>
        (simp only [List.append_nil, List.cons_append, List.nil_append, List.singleton_append] at h2 ⊢; simp [h2])
    obtain ⟨a, ha, hsub⟩ := paths_lines_ok p sc ok ho hftp hsg r ([] ++ ([t "field"] ++ asg))
      (by simp [ho']) (by simp [hi]) (fun l' hl' => hd l' (by simp [hl']))
    refine ⟨a, ?_, fun n hn => hsub n (by simp [hn])⟩
    simp only [List.map_cons, checkList, hstep]
    exact ha

theorem mem_okOf_fixed5 (g : LIn) (n : S) (h : n ∈ [t "cls", t "py_case", t "field_to_parser", t "json_to_field", t "ExplicitNull"]) :
    n ∈ okOf g := by
  simp only [okOf, genLocals, List.mem_append]
  exact Or.inl (Or.inl (Or.inl (Or.inl (Or.inl (Or.inl (Or.inl h))))))

theorem mem_okOf_globals (g : LIn) (n : S) (h : n ∈ genGlobals g) : n ∈ okOf g := by
  simp only [okOf, List.mem_append]
  exact Or.inl (Or.inr h)

/-- the whole path block -/
theorem pathBlock_ok (p : Char → Bool) (g : LIn) (asg : List S) (ho' : t "o" ∈ asg) (hi : t "init_kwargs" ∈ asg) :
    ∃ a, checkList (genScope p g) asg (pathBlock p g) = some (some a) ∧ ∀ n ∈ asg, n ∈ a := by
  have ho := okOuter_genScope p g
  unfold pathBlock
  cases hp : g.paths with
  | nil => exact ⟨asg, by simp [checkList], fun _ h => h⟩
  | cons l r =>
    have hne : g.paths.isEmpty = false := by simp [hp]
    simp only [List.isEmpty_cons, Bool.false_eq_true, if_false]
    have hsg : t "safe_get" ∈ okOf g := by
      simp only [okOf, genLocals, List.mem_append]
      exact Or.inl (Or.inl (Or.inl (Or.inl (Or.inl (Or.inl (Or.inr (by simp [hne])))))))
    have hpe : t "ParseError" ∈ okOf g := mem_okOf_globals g _ (by simp [genGlobals, hne])
    have hdv : ∀ l' ∈ l :: r, l'.dflt ≠ .none → defaultVar l'.field ∈ okOf g := by
      intro l' hl' hd
      simp only [okOf, genLocals, List.mem_append, List.mem_filterMap]
      refine Or.inl (Or.inl (Or.inl (Or.inl (Or.inr ⟨l', by rw [hp]; exact hl', ?_⟩))))
      cases hk : l'.dflt <;> simp_all
    obtain ⟨a1, h1, hsub⟩ := paths_lines_ok p (genScope p g) (okOf g) ho (mem_okOf_fixed5 g _ (by simp)) hsg (l :: r) asg ho' hi hdv
    -- the handler: `e.class_name, … = cls, field, o, cls_fields` and `raise`
    have hh : checkList (genScope p g) (safePrefixWrites ((l :: r).map (pathStmt p)) ++ asNames (some (t "e")) ++ asg)
        [.line [{ text := t "e.class_name, e.field_name, e.json_object, e.fields = cls, field, o, cls_fields",
                  reads := [t "cls", t "field", t "o", t "cls_fields", t "e", t "e", t "e", t "e"] }],
         .exit (t "raise") []] = some none := by
      have hreads : (genScope p g).readsOk (safePrefixWrites ((l :: r).map (pathStmt p)) ++ asNames (some (t "e")) ++ asg)
          [t "cls", t "field", t "o", t "cls_fields", t "e", t "e", t "e", t "e"] = true := by
        unfold Scope.readsOk
        rw [List.all_eq_true]
        intro n hn
        simp only [List.mem_cons, List.mem_singleton, List.not_mem_nil, or_false] at hn
        rcases hn with h | h | h | h | h | h | h | h
        · rw [h]; exact readOk_of_ok _ _ _ ho _ (mem_okOf_fixed5 g _ (by simp))
        · rw [h]; exact readOk_of_mem _ _ _ (by simp [safePrefixWrites, pathStmt])
        · rw [h]; exact readOk_of_mem _ _ _ (by simp [ho'])
        · rw [h]; exact readOk_of_ok _ _ _ ho _ (mem_okOf_globals g _ (by simp [genGlobals]))
        all_goals (rw [h]; exact readOk_of_mem _ _ _ (by simp [asNames]))
      have e1 : ∀ X : List S, (genScope p g).readsOk X ([] : List S) = true := fun _ => rfl
      simp only [checkList, Stmt.check, checkParts, hreads, e1, if_true, Option.map]
    refine ⟨a1, ?_, hsub⟩
    have hr : (genScope p g).readsOk asg [t "ParseError"] = true := by
      unfold Scope.readsOk; simp [readOk_of_ok _ _ _ ho _ hpe]
    have htry : Stmt.check (genScope p g) asg (Stmt.try_ ((l :: r).map (pathStmt p)) (t "ParseError") [t "ParseError"] (some (t "e"))
        [.line [{ text := t "e.class_name, e.field_name, e.json_object, e.fields = cls, field, o, cls_fields",
                  reads := [t "cls", t "field", t "o", t "cls_fields", t "e", t "e", t "e", t "e"] }],
         .exit (t "raise") []]) = some (some a1) := by
      simp only [Stmt.check, hr, if_true, h1, hh]
      rfl
    simp only [checkList, htry]

/-- **the body `load_func_for_dataclass` generates for any class is well scoped** -/
theorem wellScoped_all (p : Char → Bool) (g : LIn) : wellScoped p g = true := by
  have ho := okOuter_genScope p g
  have hoF : OkOuter (genScope p g) (okFixed g) := ho.mono (okFixed_sub g)
  unfold wellScoped genBody
  rw [checkList_append]
  obtain ⟨fh, hfh, geh⟩ := acheckList_sound (genScope p g) (okFixed g) hoF (headStmts g) [t "o"] [t "o"] _ (fun _ h => h) (head_acheck g)
  rw [hfh]
  cases fh with
  | none => rfl
  | some aH =>
    have hk : ∀ n ∈ headKnown g, n ∈ aH := geh
    have ho' : t "o" ∈ aH := hk _ (by simp [headKnown])
    have hi : t "init_kwargs" ∈ aH := hk _ (by simp [headKnown])
    simp only
    rw [checkList_append]
    obtain ⟨aP, hP, hsub⟩ := pathBlock_ok p g aH ho' hi
    rw [hP]
    simp only
    have ht := tail_acheck p g
    cases hta : acheckList (okFixed g) (headKnown g) (tailStmts p g) with
    | none => rw [hta] at ht; cases ht
    | some fa =>
      obtain ⟨fc, hfc, _⟩ := acheckList_sound (genScope p g) (okFixed g) hoF (tailStmts p g) (headKnown g) aP fa
        (fun n hn => hsub n (hk n hn)) hta
      rw [hfc]; rfl

end DW.GenLoad
