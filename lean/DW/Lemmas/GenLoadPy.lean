/-
For the load-generator model: the working reading rule and Python's literal rule accept the same bodies, as long as the scope lists
every bound name (and the initially assigned ones) among its locals — which `genScope` does by construction.
-/
import DW.Lemmas.GenLoad

namespace DW.GenLoad
open DW.Names

def Knows (sc : Scope) (L : List S) : Prop := ∀ n ∈ L, n ∈ sc.locals

theorem readOk_eq_py (sc : Scope) (asg : List S) (n : S) (h : Knows sc asg) : sc.readOk asg n = sc.readOkPy asg n := by
  unfold Scope.readOk Scope.readOkPy
  simp only [List.contains_eq_mem]
  by_cases hl : n ∈ sc.locals
  · simp [hl]
  · have hn : n ∉ asg := fun hm => hl (h n hm)
    simp [hl, hn]

theorem readsOk_eq_py (sc : Scope) (asg ns : List S) (h : Knows sc asg) : sc.readsOk asg ns = sc.readsOkPy asg ns := by
  unfold Scope.readsOk Scope.readsOkPy
  induction ns with
  | nil => rfl
  | cons n r ih => simp only [List.all_cons, ih, readOk_eq_py sc asg n h]

theorem checkParts_eq_py (sc : Scope) : ∀ (ps : List Part) (asg : List S), Knows sc asg → Knows sc (ps.flatMap (·.writes)) →
    checkPartsPy sc asg ps = checkParts sc asg ps
  | [], _, _, _ => rfl
  | q :: r, asg, ha, hw => by
    simp only [checkPartsPy, checkParts, readsOk_eq_py sc asg q.reads ha]
    split
    · exact checkParts_eq_py sc r (q.writes ++ asg)
        (fun n hn => by
          rcases List.mem_append.1 hn with h | h
          · exact hw n (by simp [h])
          · exact ha n h)
        (fun n hn => hw n (by simp [hn]))
    · rfl

theorem checkParts_out (sc : Scope) : ∀ (ps : List Part) (asg out : List S), checkParts sc asg ps = some out →
    ∀ n ∈ out, n ∈ asg ∨ n ∈ ps.flatMap (·.writes)
  | [], asg, out, h => by
    simp only [checkParts, Option.some.injEq] at h; subst h; exact fun n hn => Or.inl hn
  | q :: r, asg, out, h => by
    simp only [checkParts] at h
    split at h
    · intro n hn
      rcases checkParts_out sc r _ _ h n hn with h1 | h1
      · rcases List.mem_append.1 h1 with h2 | h2
        · exact Or.inr (by simp [h2])
        · exact Or.inl h2
      · exact Or.inr (by simp [h1])
    · simp at h

/-- what a flow assigns comes from before or from the statement -/
def Flow.within (f : Flow) (asg w : List S) : Prop :=
  match f with
  | none => True
  | some out => ∀ n ∈ out, n ∈ asg ∨ n ∈ w

theorem meet_within (a b : Flow) (asg w1 w2 : List S) (ha : a.within asg w1) (hb : b.within asg w2) :
    (a.meet b).within asg (w1 ++ w2) := by
  cases a <;> cases b <;> simp_all [Flow.within, Flow.meet]
  · intro n hn; rcases hb n hn with h | h
    · exact Or.inl h
    · exact Or.inr (Or.inr h)
  · intro n hn; rcases ha n hn with h | h
    · exact Or.inl h
    · exact Or.inr (Or.inl h)
  · intro n hn _; rcases ha n hn with h | h
    · exact Or.inl h
    · exact Or.inr (Or.inl h)

theorem mem_of_mem_takeWhile' {α : Type} (f : α → Bool) : ∀ (l : List α) (x : α), x ∈ l.takeWhile f → x ∈ l
  | [], x, h => by simp at h
  | a :: r, x, h => by
    simp only [List.takeWhile_cons] at h
    split at h
    · rcases List.mem_cons.1 h with h1 | h1
      · exact h1 ▸ List.mem_cons_self
      · exact List.mem_cons_of_mem _ (mem_of_mem_takeWhile' f r x h1)
    · simp at h

theorem safePrefix_sub (ss : List Stmt) : ∀ n ∈ safePrefixWrites ss, n ∈ writesList ss := by
  intro n hn
  cases ss with
  | nil => simp [safePrefixWrites] at hn
  | cons s r =>
    cases s with
    | line parts =>
      simp only [safePrefixWrites, List.mem_flatMap] at hn
      obtain ⟨q, hq, hnq⟩ := hn
      simp only [writesList, Stmt.writes, List.mem_append, List.mem_flatMap]
      exact Or.inl ⟨q, mem_of_mem_takeWhile' _ _ _ hq, hnq⟩
    | _ => simp [safePrefixWrites] at hn

mutual
theorem Stmt.check_within (sc : Scope) : ∀ (s : Stmt) (asg : List S) (f : Flow), s.check sc asg = some f → f.within asg s.writes
  | .line parts, asg, f, h => by
    simp only [Stmt.check, Option.map_eq_some_iff] at h
    obtain ⟨out, ho, rfl⟩ := h
    exact checkParts_out sc parts asg out ho
  | .comment _, asg, f, h => by
    simp only [Stmt.check, Option.some.injEq] at h; subst h; exact fun n hn => Or.inl hn
  | .exit _ rs, asg, f, h => by
    simp only [Stmt.check] at h
    split at h
    · simp only [Option.some.injEq] at h; subst h; trivial
    · simp at h
  | .if_ _ cr thn elifs els, asg, f, h => by
    simp only [Stmt.check] at h
    split at h
    · split at h
      · next a b c ha hb hc =>
        simp only [Option.some.injEq] at h; subst h
        have h1 := checkList_within sc thn asg a ha
        have h2 := checkElifs_within sc elifs asg b hb
        have h3 := checkElse_within sc els asg c hc
        have := meet_within _ _ asg _ _ (meet_within _ _ asg _ _ h1 h2) h3
        simpa [Stmt.writes, List.append_assoc] using this
      · simp at h
    · simp at h
  | .for_ tg _ ir body, asg, f, h => by
    simp only [Stmt.check] at h
    split at h
    · split at h
      · simp only [Option.some.injEq] at h; subst h; exact fun n hn => Or.inl hn
      · simp at h
    · simp at h
  | .try_ body _ er asName handler, asg, f, h => by
    simp only [Stmt.check] at h
    split at h
    · split at h
      · next a b ha hb =>
        simp only [Option.some.injEq] at h; subst h
        have h1 := checkList_within sc body asg a ha
        have h2 := checkList_within sc handler _ b hb
        cases a with
        | none =>
          cases b with
          | none => trivial
          | some bo =>
            intro n hn
            rcases h2 n hn with h | h
            · rcases List.mem_append.1 h with h' | h'
              · rcases List.mem_append.1 h' with h'' | h''
                · exact Or.inr (by simp [Stmt.writes, safePrefix_sub body n h''])
                · exact Or.inr (by simp [Stmt.writes, h''])
              · exact Or.inl h'
            · exact Or.inr (by simp [Stmt.writes, h])
        | some ao =>
          cases b with
          | none =>
            intro n hn
            rcases h1 n hn with h | h
            · exact Or.inl h
            · exact Or.inr (by simp [Stmt.writes, h])
          | some bo =>
            intro n hn
            have hna : n ∈ ao := (List.mem_filter.1 hn).1
            rcases h1 n hna with h | h
            · exact Or.inl h
            · exact Or.inr (by simp [Stmt.writes, h])
      · simp at h
    · simp at h
theorem checkList_within (sc : Scope) : ∀ (ss : List Stmt) (asg : List S) (f : Flow), checkList sc asg ss = some f →
    f.within asg (writesList ss)
  | [], asg, f, h => by
    simp only [checkList, Option.some.injEq] at h; subst h; exact fun n hn => Or.inl hn
  | s :: r, asg, f, h => by
    simp only [checkList] at h
    split at h
    · simp at h
    · simp only [Option.some.injEq] at h; subst h; trivial
    · next a hs =>
      have h1 := Stmt.check_within sc s asg (some a) hs
      have h2 := checkList_within sc r a f h
      cases f with
      | none => trivial
      | some out =>
        intro n hn
        rcases h2 n hn with h | h
        · rcases h1 n h with h' | h'
          · exact Or.inl h'
          · exact Or.inr (by simp [writesList, h'])
        · exact Or.inr (by simp [writesList, h])
theorem checkElifs_within (sc : Scope) : ∀ (es : List (S × List S × List Stmt)) (asg : List S) (f : Flow),
    checkElifs sc asg es = some f → f.within asg (writesElifs es)
  | [], asg, f, h => by
    simp only [checkElifs, Option.some.injEq] at h; subst h; trivial
  | (_, cr, body) :: r, asg, f, h => by
    simp only [checkElifs] at h
    split at h
    · split at h
      · next a b ha hb =>
        simp only [Option.some.injEq] at h; subst h
        have := meet_within _ _ asg _ _ (checkList_within sc body asg a ha) (checkElifs_within sc r asg b hb)
        simpa [writesElifs] using this
      · simp at h
    · simp at h
theorem checkElse_within (sc : Scope) : ∀ (els : Option (List Stmt)) (asg : List S) (f : Flow),
    checkElse sc asg els = some f → f.within asg (writesElse els)
  | none, asg, f, h => by
    simp only [checkElse, Option.some.injEq] at h; subst h; exact fun n hn => Or.inl hn
  | some e, asg, f, h => by
    simp only [checkElse] at h
    simpa [writesElse] using checkList_within sc e asg f h
end

theorem Knows.app {sc : Scope} {a b : List S} (ha : Knows sc a) (hb : Knows sc b) : Knows sc (a ++ b) := by
  intro n hn
  rcases List.mem_append.1 hn with h | h
  · exact ha n h
  · exact hb n h

theorem knows_of_within (sc : Scope) (asg w out : List S) (ha : Knows sc asg) (hw : Knows sc w)
    (h : Flow.within (some out) asg w) : Knows sc out := by
  intro n hn
  rcases h n hn with h1 | h1
  · exact ha n h1
  · exact hw n h1

mutual
theorem Stmt.check_eq_py (sc : Scope) : ∀ (s : Stmt) (asg : List S), Knows sc asg → Knows sc s.writes →
    s.checkPy sc asg = s.check sc asg
  | .line parts, asg, ha, hw => by
    simp only [Stmt.checkPy, Stmt.check, checkParts_eq_py sc parts asg ha (by simpa [Stmt.writes] using hw)]
  | .comment _, _, _, _ => rfl
  | .exit _ rs, asg, ha, _ => by simp only [Stmt.checkPy, Stmt.check, readsOk_eq_py sc asg rs ha]
  | .if_ _ cr thn elifs els, asg, ha, hw => by
    have h1 : Knows sc (writesList thn) := fun n hn => hw n (by simp [Stmt.writes, hn])
    have h2 : Knows sc (writesElifs elifs) := fun n hn => hw n (by simp [Stmt.writes, hn])
    have h3 : Knows sc (writesElse els) := fun n hn => hw n (by simp [Stmt.writes, hn])
    simp only [Stmt.checkPy, Stmt.check, readsOk_eq_py sc asg cr ha, checkList_eq_py sc thn asg ha h1,
      checkElifs_eq_py sc elifs asg ha h2, checkElse_eq_py sc els asg ha h3]
  | .for_ tg _ ir body, asg, ha, hw => by
    have h1 : Knows sc (writesList body) := fun n hn => hw n (by simp [Stmt.writes, hn])
    have h2 : Knows sc (tg :: asg) := by
      intro n hn
      rcases List.mem_cons.1 hn with h | h
      · exact hw n (by simp [Stmt.writes, h])
      · exact ha n h
    simp only [Stmt.checkPy, Stmt.check, readsOk_eq_py sc asg ir ha, checkList_eq_py sc body (tg :: asg) h2 h1]
  | .try_ body _ er asName handler, asg, ha, hw => by
    have h1 : Knows sc (writesList body) := fun n hn => hw n (by simp [Stmt.writes, hn])
    have h2 : Knows sc (writesList handler) := fun n hn => hw n (by simp [Stmt.writes, hn])
    have h3 : Knows sc (safePrefixWrites body ++ asNames asName ++ asg) := by
      refine Knows.app (Knows.app (fun n hn => h1 n (safePrefix_sub body n hn)) (fun n hn => hw n (by simp [Stmt.writes, hn]))) ha
    simp only [Stmt.checkPy, Stmt.check, readsOk_eq_py sc asg er ha, checkList_eq_py sc body asg ha h1,
      checkList_eq_py sc handler _ h3 h2]
theorem checkList_eq_py (sc : Scope) : ∀ (ss : List Stmt) (asg : List S), Knows sc asg → Knows sc (writesList ss) →
    checkListPy sc asg ss = checkList sc asg ss
  | [], _, _, _ => rfl
  | s :: r, asg, ha, hw => by
    have hs : Knows sc s.writes := fun n hn => hw n (by simp [writesList, hn])
    have hr : Knows sc (writesList r) := fun n hn => hw n (by simp [writesList, hn])
    simp only [checkListPy, checkList, Stmt.check_eq_py sc s asg ha hs]
    cases hc : s.check sc asg with
    | none => rfl
    | some f =>
      cases f with
      | none => rfl
      | some a =>
        exact checkList_eq_py sc r a (knows_of_within sc asg s.writes a ha hs (Stmt.check_within sc s asg (some a) hc)) hr
theorem checkElifs_eq_py (sc : Scope) : ∀ (es : List (S × List S × List Stmt)) (asg : List S), Knows sc asg →
    Knows sc (writesElifs es) → checkElifsPy sc asg es = checkElifs sc asg es
  | [], _, _, _ => rfl
  | (_, cr, body) :: r, asg, ha, hw => by
    have h1 : Knows sc (writesList body) := fun n hn => hw n (by simp [writesElifs, hn])
    have h2 : Knows sc (writesElifs r) := fun n hn => hw n (by simp [writesElifs, hn])
    simp only [checkElifsPy, checkElifs, readsOk_eq_py sc asg cr ha, checkList_eq_py sc body asg ha h1,
      checkElifs_eq_py sc r asg ha h2]
theorem checkElse_eq_py (sc : Scope) : ∀ (els : Option (List Stmt)) (asg : List S), Knows sc asg →
    Knows sc (writesElse els) → checkElsePy sc asg els = checkElse sc asg els
  | none, _, _, _ => rfl
  | some e, asg, ha, hw => by
    simp only [checkElsePy, checkElse]
    exact checkList_eq_py sc e asg ha (by simpa [writesElse] using hw)
end

/-- **the generated `cls_fromdict` passes Python's scoping rule taken literally** -/
theorem wellScopedPy_all (p : Char → Bool) (g : LIn) : wellScopedPy p g = true := by
  unfold wellScopedPy
  rw [checkList_eq_py (genScope p g) (genBody p g) [t "o"]
    (fun n hn => by simp [genScope] at hn ⊢; simp [hn])
    (fun n hn => by simp [genScope, hn])]
  exact wellScoped_all p g

end DW.GenLoad
