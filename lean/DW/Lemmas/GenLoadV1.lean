/-
Lemmas about the v1 load-function skeleton model `DW/Model/GenLoadV1.lean`: the skeleton is well scoped under Python's rule for
every class, provided each value expression reads only `v1` and outside names and the outside names the skeleton uses are not bound
by the body.
-/
import DW.Model.GenLoadV1

namespace DW.GenLoadV1
open DW.Names
open DW.GenLoad (Part Scope Flow t asNames)

/-- a name may be read: a local that is assigned, or a name from outside that is not a local -/
def Rd (sc : Scope) (asg : List S) (n : S) : Prop := (n ∈ asg ∧ n ∈ sc.locals) ∨ (n ∉ sc.locals ∧ n ∈ sc.outer)

theorem rd_of (sc : Scope) (asg : List S) (n : S) (h : Rd sc asg n) : rd sc asg n = true := by
  unfold rd
  rcases h with ⟨h1, h2⟩ | ⟨h1, h2⟩
  · simp [h1, h2]
  · simp [h1, h2]

theorem rds_of (sc : Scope) (asg ns : List S) (h : ∀ n ∈ ns, Rd sc asg n) : rds sc asg ns = true := by
  unfold rds
  rw [List.all_eq_true]
  exact fun n hn => rd_of sc asg n (h n hn)

theorem Rd.mono {sc : Scope} {a b : List S} {n : S} (h : Rd sc a n) (hab : ∀ x ∈ a, x ∈ b) : Rd sc b n := by
  rcases h with ⟨h1, h2⟩ | h
  · exact Or.inl ⟨hab n h1, h2⟩
  · exact Or.inr h

/-- everything assigned is a local of the function -/
def Inv (sc : Scope) (asg : List S) : Prop := ∀ n ∈ asg, n ∈ sc.locals

theorem Rd.local {sc : Scope} {asg : List S} {n : S} (hi : Inv sc asg) (h : n ∈ asg) : Rd sc asg n := Or.inl ⟨h, hi n h⟩

theorem Inv.cons {sc : Scope} {asg w : List S} (hi : Inv sc asg) (hw : ∀ n ∈ w, n ∈ sc.locals) : Inv sc (w ++ asg) := by
  intro n hn
  rcases List.mem_append.1 hn with h | h
  · exact hw n h
  · exact hi n h

/-- the lower bound of a join -/
theorem mem_meet (a b base : List S) (ha : ∀ n ∈ base, n ∈ a) (hb : ∀ n ∈ base, n ∈ b) : ∀ n ∈ base, n ∈ a.filter b.contains := by
  intro n hn
  simp [List.mem_filter, ha n hn, hb n hn]

theorem inv_filter {sc : Scope} (a b : List S) (ha : Inv sc a) : Inv sc (a.filter b.contains) :=
  fun n hn => ha n (List.mem_filter.1 hn).1

/-- one line of parts, in general: every part's reads are fine in the state its predecessors leave -/
def PartsOk (sc : Scope) : List S → List Part → Prop
  | _, [] => True
  | asg, q :: r => (∀ n ∈ q.reads, Rd sc asg n) ∧ (∀ n ∈ q.writes, n ∈ sc.locals) ∧ PartsOk sc (q.writes ++ asg) r

theorem checkParts_ok (sc : Scope) : ∀ (ps : List Part) (asg : List S), Inv sc asg → PartsOk sc asg ps →
    ∃ a, checkParts sc asg ps = some a ∧ (∀ n ∈ asg, n ∈ a) ∧ (∀ q ∈ ps, ∀ n ∈ q.writes, n ∈ a) ∧ Inv sc a
  | [], asg, hi, _ => ⟨asg, rfl, fun _ h => h, by simp, hi⟩
  | q :: r, asg, hi, ⟨h1, h2, h3⟩ => by
    obtain ⟨a, ha, hsub, hw, hia⟩ := checkParts_ok sc r (q.writes ++ asg) (hi.cons h2) h3
    refine ⟨a, ?_, fun n hn => hsub n (by simp [hn]), ?_, hia⟩
    · simp only [checkParts, rds_of sc asg q.reads h1, if_true, ha]
    · intro q' hq' n hn
      rcases List.mem_cons.1 hq' with h | h
      · subst h; exact hsub n (by simp [hn])
      · exact hw q' h n hn

theorem line_ok (sc : Scope) (ps : List Part) (asg : List S) (hi : Inv sc asg) (h : PartsOk sc asg ps) :
    ∃ a, S0.check sc asg (.line ps) = some (some a) ∧ (∀ n ∈ asg, n ∈ a) ∧ (∀ q ∈ ps, ∀ n ∈ q.writes, n ∈ a) ∧ Inv sc a := by
  obtain ⟨a, ha, h1, h2, h3⟩ := checkParts_ok sc ps asg hi h
  exact ⟨a, by simp [S0.check, ha], h1, h2, h3⟩

/-- an `if` whose body is one line -/
theorem ifc_line_ok (sc : Scope) (c : S) (cr cw cb : List S) (ps : List Part) (asg : List S) (hi : Inv sc asg)
    (hc : ∀ n ∈ cr, Rd sc asg n) (hcw : ∀ n ∈ cw, n ∈ sc.locals) (h : PartsOk sc (cw ++ asg) ps) :
    ∃ a, S1.check sc asg (.ifc c cr cw cb [.line ps]) = some (some a) ∧ (∀ n ∈ asg, n ∈ a) ∧ (∀ n ∈ cw, n ∈ a) ∧ Inv sc a := by
  obtain ⟨a1, h1, s1, _, i1⟩ := line_ok sc ps (cw ++ asg) (hi.cons hcw) h
  refine ⟨a1.filter (cw ++ asg).contains, ?_, ?_, ?_, inv_filter _ _ i1⟩
  · simp only [S1.check, rds_of sc asg cr hc, if_true, checkL0, h1, Flow.meet]
  · exact mem_meet a1 (cw ++ asg) asg (fun n hn => s1 n (by simp [hn])) (fun n hn => by simp [hn])
  · exact mem_meet a1 (cw ++ asg) cw (fun n hn => s1 n (by simp [hn])) (fun n hn => by simp [hn])


/-! ### what the theorem assumes about the scope, in usable form -/

/-- the names the body binds are locals of the function -/
structure LocalsOk (sc : Scope) (g : VIn) : Prop where
  o : t "o" ∈ sc.locals
  kw : g.hasDefaults = true → t "init_kwargs" ∈ sc.locals
  i : g.preAssign = true → t "i" ∈ sc.locals
  field : g.fields ≠ [] → t "field" ∈ sc.locals
  v1 : g.fields ≠ [] → t "v1" ∈ sc.locals
  e : g.fields ≠ [] → t "e" ∈ sc.locals
  fv : ∀ f ∈ g.fields, f.hasDefault = false → fieldVar f.name ∈ sc.locals
  ew : ∀ f ∈ g.fields, ∀ n ∈ f.exprWrites, n ∈ sc.locals
  ca : ∀ n idx, g.catchAll = .required n idx → fieldVar n ∈ sc.locals
  ek : g.catchAll = .none → g.unknown ≠ .none → t "extra_keys" ∈ sc.locals

/-- the outside names the skeleton uses are outside: none of them is bound by the body -/
def OuterOk (sc : Scope) (g : VIn) : Prop := ∀ n ∈ skeletonOuter g, n ∉ sc.locals ∧ n ∈ sc.outer

/-- each value expression reads `v1` and outside names only -/
def ExprsOk (sc : Scope) (g : VIn) : Prop := ∀ f ∈ g.fields, ∀ n ∈ f.exprReads, n = t "v1" ∨ (n ∉ sc.locals ∧ n ∈ sc.outer)

/-- a chain of alternatives is never empty (the library's alias / path tuples are not) -/
def LookupsOk (g : VIn) : Prop := ∀ f ∈ g.fields, f.lookup ≠ .anyOf [] ∧ f.lookup ≠ .pathAnyOf []

theorem outer_rd {sc : Scope} {g : VIn} (ho : OuterOk sc g) (asg : List S) (n : S) (h : n ∈ skeletonOuter g) : Rd sc asg n :=
  Or.inr (ho n h)

theorem mem_outer_fixed (g : VIn) (n : S)
    (h : n ∈ [t "cls", t "fields", t "MISSING", t "re_raise", t "raise_missing_fields", t "locals", t "Exception"]) :
    n ∈ skeletonOuter g := by
  simp only [skeletonOuter, List.mem_append]
  exact Or.inl (Or.inl (Or.inl (Or.inl h)))

theorem mem_outer_safe_get (g : VIn) (f : VField) (hf : f ∈ g.fields) (hp : usesPath f = true) : t "safe_get" ∈ skeletonOuter g := by
  simp only [skeletonOuter, List.mem_append]
  refine Or.inr ?_
  have : g.fields.any usesPath = true := by rw [List.any_eq_true]; exact ⟨f, hf, hp⟩
  simp [this]

/-! ### one field -/

theorem keys_reads_field (ks : List Key) : ∀ n ∈ ks.flatMap Key.reads, n = t "field" := by
  intro n hn
  rw [List.mem_flatMap] at hn
  obtain ⟨k, _, hk⟩ := hn
  cases k <;> simp [Key.reads] at hk
  exact hk

/-- lookup, condition and assignment of one constructor field -/
theorem field_ok (p : Char → Bool) (sc : Scope) (g : VIn) (hl : LocalsOk sc g) (ho : OuterOk sc g) (he : ExprsOk sc g)
    (hk : LookupsOk g) (f : VField) (hf : f ∈ g.fields) (asg : List S) (hi : Inv sc asg) (hao : t "o" ∈ asg)
    (hai : g.preAssign = true → t "i" ∈ asg) (hakw : g.hasDefaults = true → t "init_kwargs" ∈ asg) :
    ∃ a, checkL1 sc asg (fieldStmts p g f) = some (some a) ∧ (∀ n ∈ asg, n ∈ a) ∧ t "field" ∈ a ∧ Inv sc a := by
  have hne : g.fields ≠ [] := by intro h; rw [h] at hf; cases hf
  have lfield := hl.field hne
  have lv1 := hl.v1 hne
  have oMISSING : ∀ a, Rd sc a (t "MISSING") := fun a => outer_rd ho a _ (mem_outer_fixed g _ (by simp))
  -- 1: the lookup line
  have pfl : ∀ x : List S, (∀ n ∈ (fieldLit p f).reads, Rd sc x n) ∧ (∀ n ∈ (fieldLit p f).writes, n ∈ sc.locals) :=
    fun x => ⟨by simp [fieldLit], by simp [fieldLit, lfield]⟩
  have h1 : ∃ a1, S0.check sc asg (lookupLine p f) = some (some a1) ∧ (∀ n ∈ asg, n ∈ a1) ∧ t "field" ∈ a1 ∧ Inv sc a1 ∧
      ((∀ ks, f.lookup ≠ .anyOf ks) → (∀ ps, f.lookup ≠ .pathAnyOf ps) → t "v1" ∈ a1) := by
    unfold lookupLine
    have iF : Inv sc ((fieldLit p f).writes ++ asg) := hi.cons (pfl asg).2
    have oF : t "o" ∈ (fieldLit p f).writes ++ asg := by simp [hao]
    cases hlk : f.lookup with
    | assign k =>
      have hp2 : PartsOk sc asg [fieldLit p f, getPart p k] := by
        refine ⟨(pfl asg).1, (pfl asg).2, ?_, by simp [getPart, lv1], trivial⟩
        intro n hn
        simp only [getPart, List.mem_append, List.mem_singleton] at hn
        rcases hn with (h | h) | h
        · rw [h]; exact Rd.local iF oF
        · cases k <;> simp [Key.reads] at h
          rw [h]; exact Rd.local iF (by simp [fieldLit])
        · rw [h]; exact oMISSING _
      obtain ⟨a1, c1, s1, w1, i1⟩ := line_ok sc _ asg hi hp2
      exact ⟨a1, c1, s1, w1 (fieldLit p f) (by simp) _ (by simp [fieldLit]), i1, fun _ _ => w1 (getPart p k) (by simp) _ (by simp [getPart])⟩
    | pathAssign ps =>
      have hp2 : PartsOk sc asg [fieldLit p f, pathPart p (!f.hasDefault) ps] := by
        refine ⟨(pfl asg).1, (pfl asg).2, ?_, by simp [pathPart, lv1], trivial⟩
        intro n hn
        simp only [pathPart, List.mem_cons, List.not_mem_nil, or_false] at hn
        rcases hn with h | h
        · rw [h]; exact outer_rd ho _ _ (mem_outer_safe_get g f hf (by simp [usesPath, hlk]))
        · rw [h]; exact Rd.local iF oF
      obtain ⟨a1, c1, s1, w1, i1⟩ := line_ok sc _ asg hi hp2
      exact ⟨a1, c1, s1, w1 (fieldLit p f) (by simp) _ (by simp [fieldLit]), i1,
        fun _ _ => w1 (pathPart p (!f.hasDefault) ps) (by simp) _ (by simp [pathPart])⟩
    | anyOf ks =>
      obtain ⟨a1, c1, s1, w1, i1⟩ := line_ok sc [fieldLit p f] asg hi ⟨(pfl asg).1, (pfl asg).2, trivial⟩
      exact ⟨a1, c1, s1, w1 (fieldLit p f) (by simp) _ (by simp [fieldLit]), i1, fun h _ => absurd rfl (h ks)⟩
    | pathAnyOf ps =>
      obtain ⟨a1, c1, s1, w1, i1⟩ := line_ok sc [fieldLit p f] asg hi ⟨(pfl asg).1, (pfl asg).2, trivial⟩
      exact ⟨a1, c1, s1, w1 (fieldLit p f) (by simp) _ (by simp [fieldLit]), i1, fun _ h => absurd rfl (h ps)⟩
  obtain ⟨a1, c1, s1, f1, i1, v1in⟩ := h1
  -- 2: the condition
  have hcw : ∀ n ∈ condWrites f, n ∈ sc.locals := by
    intro n hn
    unfold condWrites at hn
    split at hn <;> simp at hn <;> (rw [hn]; exact lv1)
  have hv1 : t "v1" ∈ condWrites f ++ a1 := by
    cases hlk : f.lookup with
    | assign k => exact List.mem_append_right _ (v1in (by simp [hlk]) (by simp [hlk]))
    | pathAssign ps => exact List.mem_append_right _ (v1in (by simp [hlk]) (by simp [hlk]))
    | anyOf ks =>
      cases ks with
      | nil => exact absurd hlk (hk f hf).1
      | cons k r => simp [condWrites, hlk]
    | pathAnyOf ps =>
      cases ps with
      | nil => exact absurd hlk (hk f hf).2
      | cons k r => simp [condWrites, hlk]
  have hcr : ∀ n ∈ condReads f, Rd sc a1 n := by
    intro n hn
    unfold condReads at hn
    cases hlk : f.lookup with
    | assign k =>
      simp only [hlk, List.mem_cons, List.not_mem_nil, or_false] at hn
      rcases hn with h | h
      · rw [h]; exact Rd.local i1 (v1in (by simp [hlk]) (by simp [hlk]))
      · rw [h]; exact oMISSING _
    | pathAssign ps =>
      simp only [hlk, List.mem_cons, List.not_mem_nil, or_false] at hn
      rcases hn with h | h
      · rw [h]; exact Rd.local i1 (v1in (by simp [hlk]) (by simp [hlk]))
      · rw [h]; exact oMISSING _
    | anyOf ks =>
      simp only [hlk, List.mem_append, List.mem_singleton] at hn
      rcases hn with (h | h) | h
      · rw [h]; exact Rd.local i1 (s1 _ hao)
      · rw [keys_reads_field ks n h]; exact Rd.local i1 f1
      · rw [h]; exact oMISSING _
    | pathAnyOf ps =>
      simp only [hlk, List.mem_cons, List.not_mem_nil, or_false] at hn
      rcases hn with h | h | h
      · rw [h]; exact outer_rd ho _ _ (mem_outer_safe_get g f hf (by simp [usesPath, hlk]))
      · rw [h]; exact Rd.local i1 (s1 _ hao)
      · rw [h]; exact oMISSING _
  -- 3: the assignment line
  have i2 : Inv sc (condWrites f ++ a1) := i1.cons hcw
  have hexpr : ∀ n ∈ f.exprReads, ∀ a, (∀ x ∈ condWrites f ++ a1, x ∈ a) → Inv sc a → Rd sc a n := by
    intro n hn a hsub hia
    rcases he f hf n hn with h | h
    · rw [h]; exact Rd.local hia (hsub _ hv1)
    · exact Or.inr h
  have hkw : f.hasDefault = true → t "init_kwargs" ∈ a1 := fun hd =>
    s1 _ (hakw (by simp [VIn.hasDefaults, List.any_eq_true.2 ⟨f, hf, hd⟩]))
  have hexprPart : ∀ a, (∀ x ∈ condWrites f ++ a1, x ∈ a) → Inv sc a →
      (∀ n ∈ (exprPart f).reads, Rd sc a n) ∧ (∀ n ∈ (exprPart f).writes, n ∈ sc.locals) := by
    intro a hsub hia
    refine ⟨?_, ?_⟩
    · intro n hn
      simp only [exprPart] at hn
      rcases List.mem_append.1 hn with h | h
      · exact hexpr n h a hsub hia
      · cases hd : f.hasDefault <;> simp [hd] at h
        rcases h with h | h
        · rw [h]; exact Rd.local hia (hsub _ (List.mem_append_right _ (hkw hd)))
        · rw [h]; exact Rd.local hia (hsub _ (List.mem_append_right _ f1))
    · intro n hn
      simp only [exprPart] at hn
      rcases List.mem_append.1 hn with h | h
      · exact hl.ew f hf n h
      · cases hd : f.hasDefault <;> simp [hd] at h
        rw [h]; exact hl.fv f hf hd
  have hassign : PartsOk sc (condWrites f ++ a1) (assignParts g f) := by
    unfold assignParts
    cases hpa : g.preAssign
    · simp only [Bool.false_eq_true, if_false, List.nil_append, PartsOk]
      exact ⟨(hexprPart _ (fun _ hx => hx) i2).1, (hexprPart _ (fun _ hx => hx) i2).2, trivial⟩
    · have li := hl.i hpa
      have ii : t "i" ∈ condWrites f ++ a1 := List.mem_append_right _ (s1 _ (hai hpa))
      have i3 : Inv sc (incPart.writes ++ (condWrites f ++ a1)) := i2.cons (by simp [incPart, li])
      simp only [if_true, List.cons_append, List.nil_append, PartsOk]
      refine ⟨by simp [incPart]; exact Rd.local i2 ii, by simp [incPart, li], ?_, ?_, trivial⟩
      · exact (hexprPart _ (fun _ hx => by simp [hx]) i3).1
      · exact (hexprPart _ (fun _ hx => by simp [hx]) i3).2
  obtain ⟨a3, c3, s3, _, i3⟩ := ifc_line_ok sc (condText p f) (condReads f) (condWrites f) (condWrites f ++ f.exprBinds)
    (assignParts g f) a1 i1 hcr hcw hassign
  refine ⟨a3, ?_, fun n hn => s3 n (s1 n hn), s3 _ f1, i3⟩
  simp only [fieldStmts, checkL1, S1.check, c1, assignLine]
  simp only [S1.check] at c3
  simp only [c3]


/-! ### sequences -/

theorem checkL1_append (sc : Scope) : ∀ (a b : List S1) (asg : List S),
    checkL1 sc asg (a ++ b) = (match checkL1 sc asg a with
      | none => none
      | some none => some none
      | some (some x) => checkL1 sc x b)
  | [], b, asg => by simp [checkL1]
  | s :: r, b, asg => by
    simp only [List.cons_append, checkL1]
    cases hs : s.check sc asg with
    | none => rfl
    | some f =>
      cases f with
      | none => rfl
      | some x => exact checkL1_append sc r b x

theorem checkL2_append (sc : Scope) : ∀ (a b : List S2) (asg : List S),
    checkL2 sc asg (a ++ b) = (match checkL2 sc asg a with
      | none => none
      | some none => some none
      | some (some x) => checkL2 sc x b)
  | [], b, asg => by simp [checkL2]
  | s :: r, b, asg => by
    simp only [List.cons_append, checkL2]
    cases hs : s.check sc asg with
    | none => rfl
    | some f =>
      cases f with
      | none => rfl
      | some x => exact checkL2_append sc r b x

/-- all constructor fields -/
theorem fields_ok (p : Char → Bool) (sc : Scope) (g : VIn) (hl : LocalsOk sc g) (ho : OuterOk sc g) (he : ExprsOk sc g)
    (hk : LookupsOk g) : ∀ (fs : List VField) (asg : List S), (∀ f ∈ fs, f ∈ g.fields) → Inv sc asg → t "o" ∈ asg →
    (g.preAssign = true → t "i" ∈ asg) → (g.hasDefaults = true → t "init_kwargs" ∈ asg) →
    ∃ a, checkL1 sc asg (allFieldStmts p g fs) = some (some a) ∧ (∀ n ∈ asg, n ∈ a) ∧ Inv sc a
  | [], asg, _, hi, _, _, _ => ⟨asg, rfl, fun _ h => h, hi⟩
  | f :: r, asg, hfs, hi, hao, hai, hakw => by
    obtain ⟨a1, c1, s1, _, i1⟩ := field_ok p sc g hl ho he hk f (hfs f (by simp)) asg hi hao hai hakw
    obtain ⟨a2, c2, s2, i2⟩ := fields_ok p sc g hl ho he hk r a1 (fun f' hf' => hfs f' (by simp [hf'])) i1 (s1 _ hao)
      (fun h => s1 _ (hai h)) (fun h => s1 _ (hakw h))
    refine ⟨a2, ?_, fun n hn => s2 n (s1 n hn), i2⟩
    simp only [allFieldStmts, checkL1_append, c1, c2]

/-- `field = None` and the tag-key test -/
theorem tag_ok (p : Char → Bool) (sc : Scope) (g : VIn) (hl : LocalsOk sc g) (hne : g.fields ≠ []) (asg : List S) (hi : Inv sc asg)
    (hao : t "o" ∈ asg) (hai : g.preAssign = true → t "i" ∈ asg) :
    ∃ a, checkL1 sc asg (tagStmts p g) = some (some a) ∧ (∀ n ∈ asg, n ∈ a) ∧ Inv sc a := by
  unfold tagStmts
  cases g.tagKey with
  | none => exact ⟨asg, rfl, fun _ h => h, hi⟩
  | some k =>
    cases hpa : g.preAssign with
    | false => exact ⟨asg, rfl, fun _ h => h, hi⟩
    | true =>
      have li := hl.i hpa
      obtain ⟨a1, c1, s1, _, i1⟩ := line_ok sc [fieldNone] asg hi ⟨by simp [fieldNone], by simp [fieldNone, hl.field hne], trivial⟩
      obtain ⟨a2, c2, s2, _, i2⟩ := ifc_line_ok sc (pyRepr p k ++ t " in o") [t "o"] [] [] [incPart] a1 i1
        (by simp; exact Rd.local i1 (s1 _ hao)) (by simp)
        ⟨by simp [incPart]; exact Rd.local i1 (s1 _ (hai hpa)), by simp [incPart, li], trivial⟩
      refine ⟨a2, ?_, fun n hn => s2 n (s1 n hn), i2⟩
      simp only [if_true, checkL1, S1.check, c1]
      simp only [S1.check] at c2
      simp only [c2]

theorem safePrefix_field (p : Char → Bool) (g : VIn) (f : VField) (r : List VField) :
    t "field" ∈ safePrefix (tagStmts p g ++ allFieldStmts p g (f :: r)) := by
  have hfirst : t "field" ∈ safePrefix (allFieldStmts p g (f :: r)) := by
    simp only [allFieldStmts, fieldStmts, List.cons_append, lookupLine]
    cases f.lookup <;> simp [safePrefix, fieldLit, getPart, pathPart, List.takeWhile]
  unfold tagStmts
  cases g.tagKey with
  | none => simpa using hfirst
  | some k =>
    cases g.preAssign with
    | false => simpa using hfirst
    | true => simp [safePrefix, fieldNone, List.takeWhile]

/-- the `try` block around the fields -/
theorem block_ok (p : Char → Bool) (sc : Scope) (g : VIn) (hl : LocalsOk sc g) (ho : OuterOk sc g) (he : ExprsOk sc g)
    (hk : LookupsOk g) (asg : List S) (hi : Inv sc asg) (hao : t "o" ∈ asg)
    (hai : g.preAssign = true → t "i" ∈ asg) (hakw : g.hasDefaults = true → t "init_kwargs" ∈ asg) :
    ∃ a, checkL2 sc asg (fieldBlock p g) = some (some a) ∧ (∀ n ∈ asg, n ∈ a) ∧ Inv sc a := by
  unfold fieldBlock
  cases hfs : g.fields with
  | nil => exact ⟨asg, rfl, fun _ h => h, hi⟩
  | cons f r =>
    have hne : g.fields ≠ [] := by simp [hfs]
    obtain ⟨a1, c1, s1, i1⟩ := tag_ok p sc g hl hne asg hi hao hai
    obtain ⟨a2, c2, s2, i2⟩ := fields_ok p sc g hl ho he hk (f :: r) a1 (fun f' hf' => by rw [hfs]; exact hf') i1 (s1 _ hao)
      (fun h => s1 _ (hai h)) (fun h => s1 _ (hakw h))
    have hbody : checkL1 sc asg (tagStmts p g ++ allFieldStmts p g (f :: r)) = some (some a2) := by
      simp only [checkL1_append, c1, c2]
    -- the handler
    let ah : List S := safePrefix (tagStmts p g ++ allFieldStmts p g (f :: r)) ++ asNames (some (t "e")) ++ asg
    have subh : ∀ n ∈ asg, n ∈ ah := fun n hn => by simp [ah, hn]
    have hsp : ∀ n ∈ safePrefix (tagStmts p g ++ allFieldStmts p g (f :: r)), n = t "field" := by
      intro n hn
      have hfirst : ∀ m ∈ safePrefix (allFieldStmts p g (f :: r)), m = t "field" := by
        intro m hm
        simp only [allFieldStmts, fieldStmts, List.cons_append, lookupLine] at hm
        cases hlk : f.lookup <;> simp [hlk, safePrefix, fieldLit, getPart, pathPart, List.takeWhile] at hm <;> exact hm
      unfold tagStmts at hn
      cases htk : g.tagKey with
      | none => simp [htk] at hn; exact hfirst n hn
      | some k =>
        cases hpa : g.preAssign with
        | false => simp [htk, hpa] at hn; exact hfirst n hn
        | true => simp [htk, hpa, safePrefix, fieldNone, List.takeWhile] at hn; exact hn
    have iah : Inv sc ah := by
      intro n hn
      simp only [ah, List.mem_append] at hn
      rcases hn with (h | h) | h
      · rw [hsp n h]; exact hl.field hne
      · simp [asNames] at h; rw [h]; exact hl.e hne
      · exact hi n h
    have hfield : t "field" ∈ ah := by simp [ah, safePrefix_field p g f r]
    have he' : t "e" ∈ ah := by simp [ah, asNames]
    have oF : ∀ n, n ∈ [t "cls", t "fields", t "MISSING", t "re_raise", t "raise_missing_fields", t "locals", t "Exception"] →
        ∀ x, Rd sc x n := fun n hn x => outer_rd ho x n (mem_outer_fixed g n hn)
    obtain ⟨a3, c3, s3, _, _⟩ := line_ok sc [handlerPart] ah iah ⟨by
      intro n hn
      simp only [handlerPart, List.mem_cons, List.not_mem_nil, or_false] at hn
      rcases hn with h | h | h | h | h | h | h
      · rw [h]; exact oF _ (by simp) _
      · rw [h]; exact Rd.local iah he'
      · rw [h]; exact oF _ (by simp) _
      · rw [h]; exact Rd.local iah (subh _ hao)
      · rw [h]; exact oF _ (by simp) _
      · rw [h]; exact Rd.local iah hfield
      · rw [h]; exact oF _ (by simp) _, by simp [handlerPart], trivial⟩
    have hh : checkL0 sc ah handlerStmts = some (some a3) := by
      simp only [handlerStmts, checkL0, c3]
    have hsub3 : ∀ n ∈ asg, n ∈ a3 := fun n hn => s3 n (subh n hn)
    have re : rds sc asg [t "Exception"] = true := rds_of sc asg _ (fun n hn => by
      simp only [List.mem_cons, List.not_mem_nil, or_false] at hn
      rw [hn]; exact oF _ (by simp) _)
    refine ⟨a2.filter a3.contains, ?_, mem_meet a2 a3 asg (fun n hn => s2 n (s1 n hn)) hsub3, inv_filter _ _ i2⟩
    simp only [checkL2, S2.check, re, if_true, hbody, ah, hh, Flow.meet]


/-! ### head, the statements behind the block, the constructor call -/

theorem s2_line_ok (sc : Scope) (ps : List Part) (asg : List S) (hi : Inv sc asg) (h : PartsOk sc asg ps) :
    ∃ a, checkL2 sc asg [.s1 (.s0 (.line ps))] = some (some a) ∧ (∀ n ∈ asg, n ∈ a) ∧ (∀ q ∈ ps, ∀ n ∈ q.writes, n ∈ a) ∧ Inv sc a := by
  obtain ⟨a, c, h1, h2, h3⟩ := line_ok sc ps asg hi h
  exact ⟨a, by simp only [checkL2, S2.check, S1.check, c], h1, h2, h3⟩

theorem mem_outer_pre (g : VIn) (h : g.preFromDict = true) : t "__pre_from_dict__" ∈ skeletonOuter g := by
  simp only [skeletonOuter, List.mem_append]
  exact Or.inl (Or.inl (Or.inl (Or.inr (by simp [h]))))

theorem head_ok (sc : Scope) (g : VIn) (hl : LocalsOk sc g) (ho : OuterOk sc g) (asg : List S) (hi : Inv sc asg) (hao : t "o" ∈ asg) :
    ∃ a, checkL2 sc asg (headStmts g) = some (some a) ∧ (∀ n ∈ asg, n ∈ a) ∧ Inv sc a ∧
      (g.hasDefaults = true → t "init_kwargs" ∈ a) ∧ (g.preAssign = true → t "i" ∈ a) := by
  unfold headStmts
  -- 1
  have h1 : ∃ a1, checkL2 sc asg (if g.preFromDict then [.s1 (.s0 (.line [prePart]))] else []) = some (some a1) ∧
      (∀ n ∈ asg, n ∈ a1) ∧ Inv sc a1 := by
    cases hp : g.preFromDict
    · exact ⟨asg, rfl, fun _ h => h, hi⟩
    · obtain ⟨a, c, s1, _, i1⟩ := s2_line_ok sc [prePart] asg hi ⟨by
        intro n hn
        simp only [prePart, List.mem_cons, List.not_mem_nil, or_false] at hn
        rcases hn with h | h
        · rw [h]; exact outer_rd ho _ _ (mem_outer_pre g hp)
        · rw [h]; exact Rd.local hi hao, by simp [prePart, hl.o], trivial⟩
      exact ⟨a, by simpa using c, s1, i1⟩
  obtain ⟨a1, c1, s1, i1⟩ := h1
  have h2 : ∃ a2, checkL2 sc a1 (if g.hasDefaults then [.s1 (.s0 (.line [kwPart]))] else []) = some (some a2) ∧
      (∀ n ∈ a1, n ∈ a2) ∧ Inv sc a2 ∧ (g.hasDefaults = true → t "init_kwargs" ∈ a2) := by
    cases hd : g.hasDefaults
    · exact ⟨a1, rfl, fun _ h => h, i1, by simp⟩
    · obtain ⟨a, c, s, w, i⟩ := s2_line_ok sc [kwPart] a1 i1 ⟨by simp [kwPart], by simp [kwPart, hl.kw hd], trivial⟩
      exact ⟨a, by simpa using c, s, i, fun _ => w kwPart (by simp) _ (by simp [kwPart])⟩
  obtain ⟨a2, c2, s2, i2, k2⟩ := h2
  have h3 : ∃ a3, checkL2 sc a2 (if g.preAssign then [.s1 (.s0 (.line [iPart]))] else []) = some (some a3) ∧
      (∀ n ∈ a2, n ∈ a3) ∧ Inv sc a3 ∧ (g.preAssign = true → t "i" ∈ a3) := by
    cases hd : g.preAssign
    · exact ⟨a2, rfl, fun _ h => h, i2, by simp⟩
    · obtain ⟨a, c, s, w, i⟩ := s2_line_ok sc [iPart] a2 i2 ⟨by simp [iPart], by simp [iPart, hl.i hd], trivial⟩
      exact ⟨a, by simpa using c, s, i, fun _ => w iPart (by simp) _ (by simp [iPart])⟩
  obtain ⟨a3, c3, s3, i3, k3⟩ := h3
  refine ⟨a3, ?_, fun n hn => s3 n (s2 n (s1 n hn)), i3, fun h => s3 _ (k2 h), k3⟩
  simp only [checkL2_append, c1, c2, c3]

theorem mem_outer_count (g : VIn) (h : (g.hasCatchAll || g.unknown != .none) = true) (n : S) (hn : n ∈ [t "aliases", t "len"]) :
    n ∈ skeletonOuter g := by
  simp only [skeletonOuter, List.mem_append]
  exact Or.inl (Or.inl (Or.inr (by simp only [h, if_true]; exact hn)))

/-- an `if` whose body is a line and a statement that does not fall through -/
theorem ifc_line_exit_ok (sc : Scope) (c tx : S) (cr rs : List S) (ps : List Part) (asg : List S) (hi : Inv sc asg)
    (hc : ∀ n ∈ cr, Rd sc asg n) (h : PartsOk sc asg ps)
    (hr : ∀ a, (∀ n ∈ asg, n ∈ a) → (∀ q ∈ ps, ∀ n ∈ q.writes, n ∈ a) → Inv sc a → ∀ n ∈ rs, Rd sc a n) :
    S1.check sc asg (.ifc c cr [] [] [.line ps, .exit tx rs]) = some (some ([] ++ asg)) := by
  obtain ⟨a1, h1, s1, w1, i1⟩ := line_ok sc ps ([] ++ asg) (by simpa using hi) (by simpa using h)
  have hx : rds sc a1 rs = true := rds_of sc a1 rs (hr a1 (fun n hn => s1 n (by simpa using hn)) w1 i1)
  simp only [S1.check, rds_of sc asg cr hc, if_true, checkL0, h1]
  simp only [S0.check, hx, if_true, Flow.meet]

/-- … two lines -/
theorem ifc_two_lines_ok (sc : Scope) (c : S) (cr : List S) (ps qs : List Part) (asg : List S) (hi : Inv sc asg)
    (hc : ∀ n ∈ cr, Rd sc asg n) (h : PartsOk sc asg ps)
    (hq : ∀ a, (∀ n ∈ asg, n ∈ a) → (∀ q ∈ ps, ∀ n ∈ q.writes, n ∈ a) → Inv sc a → PartsOk sc a qs) :
    ∃ a, S1.check sc asg (.ifc c cr [] [] [.line ps, .line qs]) = some (some a) ∧ (∀ n ∈ asg, n ∈ a) ∧ Inv sc a := by
  obtain ⟨a1, h1, s1, w1, i1⟩ := line_ok sc ps ([] ++ asg) (by simpa using hi) (by simpa using h)
  obtain ⟨a2, h2, s2, _, i2⟩ := line_ok sc qs a1 i1 (hq a1 (fun n hn => s1 n (by simpa using hn)) w1 i1)
  refine ⟨a2.filter ([] ++ asg).contains, ?_, mem_meet a2 ([] ++ asg) asg (fun n hn => s2 n (s1 n (by simpa using hn))) (by simp),
    inv_filter _ _ i2⟩
  simp only [S1.check, rds_of sc asg cr hc, if_true, checkL0, h1, h2, Flow.meet]

theorem after_ok (p : Char → Bool) (sc : Scope) (g : VIn) (hl : LocalsOk sc g) (ho : OuterOk sc g) (asg : List S) (hi : Inv sc asg)
    (hao : t "o" ∈ asg) (hai : g.preAssign = true → t "i" ∈ asg) (hakw : g.hasDefaults = true → t "init_kwargs" ∈ asg) :
    ∃ a, checkL2 sc asg (afterStmts p g) = some (some a) ∧ (∀ n ∈ asg, n ∈ a) ∧ Inv sc a := by
  have oF : ∀ n, n ∈ [t "cls", t "fields", t "MISSING", t "re_raise", t "raise_missing_fields", t "locals", t "Exception"] →
      ∀ x, Rd sc x n := fun n hn x => outer_rd ho x n (mem_outer_fixed g n hn)
  unfold afterStmts
  cases hca : g.catchAll with
  | dflt n =>
    have hpa : g.preAssign = true := by simp [VIn.preAssign, VIn.hasCatchAll, hca]
    have hde : g.hasDefaults = true := by simp [VIn.hasDefaults, hca]
    have hcnt : (g.hasCatchAll || g.unknown != .none) = true := by simp [VIn.hasCatchAll, hca]
    have hcr : ∀ m ∈ countReads, Rd sc asg m := by
      intro m hm
      simp only [countReads, List.mem_cons, List.not_mem_nil, or_false] at hm
      rcases hm with h | h | h
      · rw [h]; exact outer_rd ho _ _ (mem_outer_count g hcnt _ (by simp))
      · rw [h]; exact Rd.local hi hao
      · rw [h]; exact Rd.local hi (hai hpa)
    obtain ⟨a, c, s1, _, i1⟩ := ifc_line_ok sc countCond countReads [] [] [catchDfltPart p n] asg hi hcr (by simp) ⟨by
      intro m hm
      simp only [catchDfltPart, List.mem_cons, List.not_mem_nil, or_false] at hm
      rcases hm with h | h | h | h
      · rw [h]; exact Rd.local (by simpa using hi) (by simpa using hao)
      · rw [h]; exact Rd.local (by simpa using hi) (by simpa using hao)
      · rw [h]; exact outer_rd ho _ _ (mem_outer_count g hcnt _ (by simp))
      · rw [h]; exact Rd.local (by simpa using hi) (by simpa using hakw hde), by simp [catchDfltPart], trivial⟩
    exact ⟨a, by simp only [checkL2, S2.check, c], s1, i1⟩
  | required n idx =>
    have hpa : g.preAssign = true := by simp [VIn.preAssign, VIn.hasCatchAll, hca]
    have hcnt : (g.hasCatchAll || g.unknown != .none) = true := by simp [VIn.hasCatchAll, hca]
    obtain ⟨a, c, s1, _, i1⟩ := s2_line_ok sc [catchReqPart n] asg hi ⟨by
      intro m hm
      simp only [catchReqPart, List.mem_cons, List.not_mem_nil, or_false] at hm
      rcases hm with h | h | h | h | h | h
      · rw [h]; exact outer_rd ho _ _ (mem_outer_count g hcnt _ (by simp))
      · rw [h]; exact Rd.local hi hao
      · rw [h]; exact Rd.local hi (hai hpa)
      · rw [h]; exact Rd.local hi hao
      · rw [h]; exact Rd.local hi hao
      · rw [h]; exact outer_rd ho _ _ (mem_outer_count g hcnt _ (by simp)), by simp [catchReqPart, hl.ca n idx hca], trivial⟩
    exact ⟨a, c, s1, i1⟩
  | none =>
    cases hun : g.unknown with
    | none => exact ⟨asg, rfl, fun _ h => h, hi⟩
    | raise =>
      have hpa : g.preAssign = true := by simp [VIn.preAssign, hun]
      have hcnt : (g.hasCatchAll || g.unknown != .none) = true := by simp [hun]
      have hek := hl.ek hca (by simp [hun])
      have hcr : ∀ m ∈ countReads, Rd sc asg m := by
        intro m hm
        simp only [countReads, List.mem_cons, List.not_mem_nil, or_false] at hm
        rcases hm with h | h | h
        · rw [h]; exact outer_rd ho _ _ (mem_outer_count g hcnt _ (by simp))
        · rw [h]; exact Rd.local hi hao
        · rw [h]; exact Rd.local hi (hai hpa)
      have hset : ∀ m ∈ [t "set", t "UnknownKeysError"], m ∈ skeletonOuter g := by
        intro m hm
        simp only [skeletonOuter, List.mem_append]
        exact Or.inl (Or.inr (by simp only [hca, hun]; exact hm))
      have c := ifc_line_exit_ok sc countCond (t "raise UnknownKeysError(extra_keys, o, cls, fields) from None") countReads
        [t "UnknownKeysError", t "extra_keys", t "o", t "cls", t "fields"] [extraKeysPart] asg hi hcr ⟨by
          intro m hm
          simp only [extraKeysPart, List.mem_cons, List.not_mem_nil, or_false] at hm
          rcases hm with h | h | h
          · rw [h]; exact outer_rd ho _ _ (hset _ (by simp))
          · rw [h]; exact Rd.local hi hao
          · rw [h]; exact outer_rd ho _ _ (mem_outer_count g hcnt _ (by simp)), by simp [extraKeysPart, hek], trivial⟩
        (by
          intro a hs hw hia m hm
          simp only [List.mem_cons, List.not_mem_nil, or_false] at hm
          rcases hm with h | h | h | h | h
          · rw [h]; exact outer_rd ho _ _ (hset _ (by simp))
          · rw [h]; exact Rd.local hia (hw extraKeysPart (by simp) _ (by simp [extraKeysPart]))
          · rw [h]; exact Rd.local hia (hs _ hao)
          · rw [h]; exact oF _ (by simp) _
          · rw [h]; exact oF _ (by simp) _)
      refine ⟨[] ++ asg, ?_, by simp, by simpa using hi⟩
      simp only [checkL2, S2.check, raiseUnknown, c]
    | warn =>
      have hpa : g.preAssign = true := by simp [VIn.preAssign, hun]
      have hcnt : (g.hasCatchAll || g.unknown != .none) = true := by simp [hun]
      have hek := hl.ek hca (by simp [hun])
      have hcr : ∀ m ∈ countReads, Rd sc asg m := by
        intro m hm
        simp only [countReads, List.mem_cons, List.not_mem_nil, or_false] at hm
        rcases hm with h | h | h
        · rw [h]; exact outer_rd ho _ _ (mem_outer_count g hcnt _ (by simp))
        · rw [h]; exact Rd.local hi hao
        · rw [h]; exact Rd.local hi (hai hpa)
      have hset : ∀ m ∈ [t "set", t "LOG"], m ∈ skeletonOuter g := by
        intro m hm
        simp only [skeletonOuter, List.mem_append]
        exact Or.inl (Or.inr (by simp only [hca, hun]; exact hm))
      obtain ⟨a, c, s1, i1⟩ := ifc_two_lines_ok sc countCond countReads [extraKeysPart] [warnPart] asg hi hcr ⟨by
          intro m hm
          simp only [extraKeysPart, List.mem_cons, List.not_mem_nil, or_false] at hm
          rcases hm with h | h | h
          · rw [h]; exact outer_rd ho _ _ (hset _ (by simp))
          · rw [h]; exact Rd.local hi hao
          · rw [h]; exact outer_rd ho _ _ (mem_outer_count g hcnt _ (by simp)), by simp [extraKeysPart, hek], trivial⟩
        (by
          intro a hs hw hia
          refine ⟨?_, by simp [warnPart], trivial⟩
          intro m hm
          simp only [warnPart, List.mem_cons, List.not_mem_nil, or_false] at hm
          rcases hm with h | h | h | h | h | h
          · rw [h]; exact outer_rd ho _ _ (hset _ (by simp))
          · rw [h]; exact outer_rd ho _ _ (mem_outer_count g hcnt _ (by simp))
          · rw [h]; exact Rd.local hia (hw extraKeysPart (by simp) _ (by simp [extraKeysPart]))
          · rw [h]; exact Rd.local hia (hw extraKeysPart (by simp) _ (by simp [extraKeysPart]))
          · rw [h]; exact oF _ (by simp) _
          · rw [h]; exact oF _ (by simp) _)
      exact ⟨a, by simp only [checkL2, S2.check, c], s1, i1⟩

theorem mem_insertAt (l : List S) (i : Nat) (x v : S) (h : v ∈ insertAt l i x) : v = x ∨ v ∈ l := by
  simp only [insertAt, List.mem_append, List.mem_cons] at h
  rcases h with h | h | h
  · exact Or.inr (List.mem_of_mem_take h)
  · exact Or.inl h
  · exact Or.inr (List.mem_of_mem_drop h)

/-- the variables handed to the constructor are locals of the function: reading one that is not bound is the UnboundLocalError the
template catches -/
theorem ctorVars_local (sc : Scope) (g : VIn) (hl : LocalsOk sc g) : ∀ v ∈ ctorVars g, v ∈ sc.locals := by
  intro v hv
  have hreq : ∀ v ∈ (g.fields.filter (fun f => !f.hasDefault)).map (fun f => fieldVar f.name), v ∈ sc.locals := by
    intro v hv
    rw [List.mem_map] at hv
    obtain ⟨f, hf, rfl⟩ := hv
    rw [List.mem_filter] at hf
    exact hl.fv f hf.1 (by simpa using hf.2)
  unfold ctorVars at hv
  cases hca : g.catchAll with
  | none => simp only [hca] at hv; exact hreq v hv
  | dflt n => simp only [hca] at hv; exact hreq v hv
  | required n idx =>
    simp only [hca] at hv
    rcases mem_insertAt _ _ _ _ hv with h | h
    · rw [h]; exact hl.ca n idx hca
    · exact hreq v h

theorem tail_ok (sc : Scope) (g : VIn) (hl : LocalsOk sc g) (ho : OuterOk sc g) (asg : List S) (hi : Inv sc asg)
    (hao : t "o" ∈ asg) (hakw : g.hasDefaults = true → t "init_kwargs" ∈ asg) :
    (checkL2 sc asg (tailStmts g)).isSome = true := by
  have oF : ∀ n, n ∈ [t "cls", t "fields", t "MISSING", t "re_raise", t "raise_missing_fields", t "locals", t "Exception"] →
      ∀ x, Rd sc x n := fun n hn x => outer_rd ho x n (mem_outer_fixed g n hn)
  have h1 : rds sc asg (ctorReads g) = true := rds_of sc asg _ (by
    intro n hn
    simp only [ctorReads, List.mem_append, List.mem_singleton] at hn
    rcases hn with h | h
    · rw [h]; exact oF _ (by simp) _
    · cases hd : g.hasDefaults <;> simp [hd] at h
      rw [h]; exact Rd.local hi (hakw hd))
  have h2 : (ctorVars g).all (fun n => sc.locals.contains n) = true := by
    rw [List.all_eq_true]
    intro v hv
    simpa using ctorVars_local sc g hl v hv
  obtain ⟨a, c, _, _, _⟩ := line_ok sc [missingPart] asg hi ⟨by
    intro m hm
    simp only [missingPart, List.mem_cons, List.not_mem_nil, or_false] at hm
    rcases hm with h | h | h | h | h
    · rw [h]; exact oF _ (by simp) _
    · rw [h]; exact oF _ (by simp) _
    · rw [h]; exact Rd.local hi hao
    · rw [h]; exact oF _ (by simp) _
    · rw [h]; exact oF _ (by simp) _, by simp [missingPart], trivial⟩
  simp only [tailStmts, checkL2, S2.check, h1, h2, Bool.and_self, if_true, checkL0, c]
  rfl

/-- **the skeleton for any class is well scoped in any scope that lists what the body binds as locals, holds the outside names the
skeleton uses outside, and in which the value expressions read only `v1` and outside names** -/
theorem wellScoped_in (p : Char → Bool) (sc : Scope) (g : VIn) (hl : LocalsOk sc g) (ho : OuterOk sc g) (he : ExprsOk sc g)
    (hk : LookupsOk g) : (checkL2 sc [t "o"] (genBody p g)).isSome = true := by
  have hi0 : Inv sc [t "o"] := fun n hn => by simp at hn; rw [hn]; exact hl.o
  obtain ⟨a1, c1, s1, i1, k1, j1⟩ := head_ok sc g hl ho [t "o"] hi0 (by simp)
  have o1 : t "o" ∈ a1 := s1 _ (by simp)
  obtain ⟨a2, c2, s2, i2⟩ := block_ok p sc g hl ho he hk a1 i1 o1 j1 k1
  obtain ⟨a3, c3, s3, i3⟩ := after_ok p sc g hl ho a2 i2 (s2 _ o1) (fun h => s2 _ (j1 h)) (fun h => s2 _ (k1 h))
  have c4 := tail_ok sc g hl ho a3 i3 (s3 _ (s2 _ o1)) (fun h => s3 _ (s2 _ (k1 h)))
  unfold genBody
  simp only [checkL2_append, c1, c2, c3]
  exact c4


/-! ### the scope of the generated function satisfies `LocalsOk` by construction -/

theorem bindsAll_eq (p : Char → Bool) (g : VIn) : bindsAll p g =
    (headStmts g).flatMap S2.binds ++ ((fieldBlock p g).flatMap S2.binds ++ ((afterStmts p g).flatMap S2.binds ++
      (tailStmts g).flatMap S2.binds)) := by
  simp [bindsAll, genBody, List.flatMap_append]

theorem field_binds_sub (p : Char → Bool) (g : VIn) : ∀ (fs : List VField) (f : VField), f ∈ fs →
    ∀ n ∈ (fieldStmts p g f).flatMap S1.binds, n ∈ (allFieldStmts p g fs).flatMap S1.binds
  | [], _, h, _, _ => by cases h
  | f' :: r, f, h, n, hn => by
    simp only [allFieldStmts, List.flatMap_append, List.mem_append]
    rcases List.mem_cons.1 h with h | h
    · subst h; exact Or.inl hn
    · exact Or.inr (field_binds_sub p g r f h n hn)

theorem block_binds (p : Char → Bool) (g : VIn) (f : VField) (hf : f ∈ g.fields) :
    ∀ n, (n ∈ (fieldStmts p g f).flatMap S1.binds ∨ n = t "e") → n ∈ (fieldBlock p g).flatMap S2.binds := by
  intro n hn
  unfold fieldBlock
  cases hfs : g.fields with
  | nil => rw [hfs] at hf; cases hf
  | cons f0 r =>
    simp only [List.flatMap_cons, List.flatMap_nil, List.append_nil, S2.binds, List.flatMap_append, List.mem_append, asNames,
      List.mem_singleton]
    rcases hn with h | h
    · exact Or.inl (Or.inl (Or.inr (field_binds_sub p g (f0 :: r) f (by rw [← hfs]; exact hf) n h)))
    · exact Or.inl (Or.inr h)

theorem field_binds_field (p : Char → Bool) (g : VIn) (f : VField) : t "field" ∈ (fieldStmts p g f).flatMap S1.binds := by
  simp only [fieldStmts, List.flatMap_cons, List.flatMap_nil, List.append_nil, S1.binds, List.mem_append, lookupLine]
  refine Or.inl ?_
  cases f.lookup <;> simp [S0.binds, partsBinds, fieldLit]

theorem field_binds_v1 (p : Char → Bool) (g : VIn) (f : VField) (h1 : f.lookup ≠ .anyOf []) (h2 : f.lookup ≠ .pathAnyOf []) :
    t "v1" ∈ (fieldStmts p g f).flatMap S1.binds := by
  simp only [fieldStmts, List.flatMap_cons, List.flatMap_nil, List.append_nil, S1.binds, List.mem_append, lookupLine]
  cases hlk : f.lookup with
  | assign k => exact Or.inl (by simp [S0.binds, partsBinds, getPart])
  | pathAssign ps => exact Or.inl (by simp [S0.binds, partsBinds, pathPart])
  | anyOf ks =>
    cases ks with
    | nil => exact absurd hlk h1
    | cons k r => exact Or.inr (Or.inl (Or.inl (by simp [condWrites, hlk])))
  | pathAnyOf ps =>
    cases ps with
    | nil => exact absurd hlk h2
    | cons k r => exact Or.inr (Or.inl (Or.inl (by simp [condWrites, hlk])))

theorem field_binds_expr (p : Char → Bool) (g : VIn) (f : VField) :
    ∀ n ∈ (exprPart f).writes, n ∈ (fieldStmts p g f).flatMap S1.binds := by
  intro n hn
  simp only [fieldStmts, List.flatMap_cons, List.flatMap_nil, List.append_nil, S1.binds, List.mem_append]
  refine Or.inr (Or.inr ?_)
  simp only [assignLine, S0.binds, partsBinds, assignParts, List.flatMap_append, List.mem_append, List.flatMap_cons, List.flatMap_nil,
    List.append_nil]
  exact Or.inr hn

theorem localsOk_genScope (p : Char → Bool) (g : VIn) (outer : List S) (hk : LookupsOk g) : LocalsOk (genScope p g outer) g := by
  have hb : ∀ n, n ∈ bindsAll p g → n ∈ (genScope p g outer).locals := fun n hn => by simp [genScope, hn]
  have inBlock : ∀ n, n ∈ (fieldBlock p g).flatMap S2.binds → n ∈ (genScope p g outer).locals := fun n hn =>
    hb n (by rw [bindsAll_eq]; simp [hn])
  have ne_mem : g.fields ≠ [] → ∃ f, f ∈ g.fields := fun h => by
    cases hfs : g.fields with
    | nil => exact absurd hfs h
    | cons f r => exact ⟨f, by simp⟩
  refine ⟨by simp [genScope], ?_, ?_, ?_, ?_, ?_, ?_, ?_, ?_, ?_⟩
  · intro h
    refine hb _ (by rw [bindsAll_eq]; refine List.mem_append_left _ ?_; unfold headStmts
                    cases g.preFromDict <;> cases g.preAssign <;> simp [h, S2.binds, S1.binds, S0.binds, partsBinds, kwPart])
  · intro h
    refine hb _ (by rw [bindsAll_eq]; refine List.mem_append_left _ ?_; unfold headStmts
                    cases g.preFromDict <;> cases g.hasDefaults <;> simp [h, S2.binds, S1.binds, S0.binds, partsBinds, iPart])
  · intro h
    obtain ⟨f, hf⟩ := ne_mem h
    exact inBlock _ (block_binds p g f hf _ (Or.inl (field_binds_field p g f)))
  · intro h
    obtain ⟨f, hf⟩ := ne_mem h
    exact inBlock _ (block_binds p g f hf _ (Or.inl (field_binds_v1 p g f (hk f hf).1 (hk f hf).2)))
  · intro h
    obtain ⟨f, hf⟩ := ne_mem h
    exact inBlock _ (block_binds p g f hf _ (Or.inr rfl))
  · intro f hf hd
    exact inBlock _ (block_binds p g f hf _ (Or.inl (field_binds_expr p g f _ (by simp [exprPart, hd]))))
  · intro f hf n hn
    exact inBlock _ (block_binds p g f hf _ (Or.inl (field_binds_expr p g f _ (by simp [exprPart, hn]))))
  · intro n idx hca
    refine hb _ (by rw [bindsAll_eq]; refine List.mem_append_right _ (List.mem_append_right _ (List.mem_append_left _ ?_))
                    simp [afterStmts, hca, S2.binds, S1.binds, S0.binds, partsBinds, catchReqPart])
  · intro hca hun
    refine hb _ (by rw [bindsAll_eq]; refine List.mem_append_right _ (List.mem_append_right _ (List.mem_append_left _ ?_))
                    unfold afterStmts
                    cases hu : g.unknown with
                    | none => exact absurd hu hun
                    | raise => simp [hca, S2.binds, S1.binds, S0.binds, partsBinds, extraKeysPart, raiseUnknown]
                    | warn => simp [hca, S2.binds, S1.binds, S0.binds, partsBinds, extraKeysPart, warnPart])

/-- **the v1 load function generated for any class is well scoped under Python's rule**, provided each field's value expression
reads only `v1` and outside names and the outside names the skeleton itself uses are held outside and bound nowhere in the body -/
theorem wellScoped_all (p : Char → Bool) (g : VIn) (outer : List S) (hk : LookupsOk g)
    (ho : OuterOk (genScope p g outer) g) (he : ExprsOk (genScope p g outer) g) : wellScoped p g outer = true :=
  wellScoped_in p (genScope p g outer) g (localsOk_genScope p g outer hk) ho he hk


/-! ### the outside names of the skeleton are not bound by the body -/

/-- a name the body may bind: one of seven fixed locals, a field variable, or a name a value expression binds -/
def Bindable (g : VIn) (n : S) : Prop :=
  n ∈ fixedLocals ∨ (∃ m, n = fieldVar m) ∨ (∃ f ∈ g.fields, n ∈ f.exprWrites ∨ n ∈ f.exprBinds)

theorem skeletonOuter_sub (g : VIn) : ∀ n ∈ skeletonOuter g, n ∈ allOuter := by
  intro n hn
  simp only [skeletonOuter, List.mem_append] at hn
  rcases hn with (((h | h) | h) | h) | h
  · simp [allOuter] at h ⊢; rcases h with h | h | h | h | h | h | h <;> simp [h]
  · split at h <;> simp at h; simp [allOuter, h]
  · split at h <;> simp at h; rcases h with h | h <;> simp [allOuter, h]
  · split at h <;> simp at h <;> (rcases h with h | h <;> simp [allOuter, h])
  · split at h <;> simp at h; simp [allOuter, h]

theorem fixed_bindable (g : VIn) (n : S) (h : n ∈ fixedLocals) : Bindable g n := Or.inl h

theorem field_binds_bindable (p : Char → Bool) (g : VIn) (f : VField) (hf : f ∈ g.fields) :
    ∀ n ∈ (fieldStmts p g f).flatMap S1.binds, Bindable g n := by
  intro n hn
  simp only [fieldStmts, List.flatMap_cons, List.flatMap_nil, List.append_nil, S1.binds, List.mem_append] at hn
  rcases hn with h | (h | h) | h
  · -- the lookup line
    unfold lookupLine at h
    cases hlk : f.lookup <;> simp [hlk, S0.binds, partsBinds, fieldLit, getPart, pathPart] at h
    · rcases h with h | h <;> exact Or.inl (by simp [fixedLocals, h])
    · exact Or.inl (by simp [fixedLocals, h])
    · rcases h with h | h <;> exact Or.inl (by simp [fixedLocals, h])
    · exact Or.inl (by simp [fixedLocals, h])
  · -- what the condition surely binds
    unfold condWrites at h
    split at h <;> simp at h <;> exact Or.inl (by simp [fixedLocals, h])
  · exact Or.inr (Or.inr ⟨f, hf, Or.inr h⟩)
  · -- the assignment line
    simp only [assignLine, S0.binds, partsBinds, assignParts, List.flatMap_append, List.mem_append, List.flatMap_cons, List.flatMap_nil,
      List.append_nil] at h
    rcases h with h | h
    · split at h <;> simp [incPart] at h
      exact Or.inl (by simp [fixedLocals, h])
    · simp only [exprPart, List.mem_append] at h
      rcases h with h | h
      · exact Or.inr (Or.inr ⟨f, hf, Or.inl h⟩)
      · split at h <;> simp at h
        exact Or.inr (Or.inl ⟨f.name, h⟩)

theorem allFields_bindable (p : Char → Bool) (g : VIn) : ∀ (fs : List VField), (∀ f ∈ fs, f ∈ g.fields) →
    ∀ n ∈ (allFieldStmts p g fs).flatMap S1.binds, Bindable g n
  | [], _, n, hn => by simp [allFieldStmts] at hn
  | f :: r, hfs, n, hn => by
    simp only [allFieldStmts, List.flatMap_append, List.mem_append] at hn
    rcases hn with h | h
    · exact field_binds_bindable p g f (hfs f (by simp)) n h
    · exact allFields_bindable p g r (fun f' hf' => hfs f' (by simp [hf'])) n h

/-- everything the body binds is one of the seven fixed locals, a field variable, or bound by a value expression -/
theorem bindsAll_bindable (p : Char → Bool) (g : VIn) : ∀ n ∈ bindsAll p g, Bindable g n := by
  intro n hn
  rw [bindsAll_eq] at hn
  simp only [List.mem_append] at hn
  rcases hn with h | h | h | h
  · unfold headStmts at h
    simp only [List.flatMap_append, List.mem_append] at h
    rcases h with (h | h) | h <;> split at h <;>
      simp [S2.binds, S1.binds, S0.binds, partsBinds, prePart, kwPart, iPart] at h <;>
      exact Or.inl (by simp [fixedLocals, h])
  · unfold fieldBlock at h
    cases hfs : g.fields with
    | nil => simp [hfs] at h
    | cons f r =>
      simp only [hfs, List.flatMap_cons, List.flatMap_nil, List.append_nil, S2.binds] at h
      rcases List.mem_append.1 h with h | h
      · rcases List.mem_append.1 h with h | h
        · rw [List.flatMap_append] at h
          rcases List.mem_append.1 h with h | h
          · unfold tagStmts at h
            split at h
            · split at h
              · simp [S1.binds, S0.binds, partsBinds, fieldNone, incPart] at h
                rcases h with h | h <;> exact Or.inl (by simp [fixedLocals, h])
              · simp at h
            · simp at h
          · exact allFields_bindable p g (f :: r) (fun f' hf' => by rw [hfs]; exact hf') n h
        · simp [asNames] at h
          exact Or.inl (by simp [fixedLocals, h])
      · simp [handlerStmts, S0.binds, partsBinds, handlerPart] at h
  · unfold afterStmts at h
    cases hca : g.catchAll with
    | dflt m => simp [hca, S2.binds, S1.binds, S0.binds, partsBinds, catchDfltPart] at h
    | required m idx =>
      simp [hca, S2.binds, S1.binds, S0.binds, partsBinds, catchReqPart] at h
      exact Or.inr (Or.inl ⟨m, h⟩)
    | none =>
      cases hun : g.unknown <;> simp [hca, hun, S2.binds, S1.binds, S0.binds, partsBinds, extraKeysPart, raiseUnknown, warnPart] at h <;>
        exact Or.inl (by simp [fixedLocals, h])
  · simp [tailStmts, S2.binds, S0.binds, partsBinds, missingPart] at h

theorem allOuter_not_fixed : ∀ n ∈ allOuter, n ∉ fixedLocals := by decide

theorem getLast_fieldVar' (m : S) : (fieldVar m).getLast? = some 'v' := by
  have : fieldVar m = ('_' :: '_' :: m) ++ ['_', '_', 'v'] := by simp [fieldVar]
  rw [this, List.getLast?_append]; rfl

theorem allOuter_not_fieldVar : ∀ n ∈ allOuter, ∀ m, n ≠ fieldVar m := by
  intro n hn m h
  have hl : n.getLast? = some 'v' := by rw [h]; exact getLast_fieldVar' m
  have : ∀ x ∈ allOuter, x.getLast? ≠ some 'v' := by decide
  exact this n hn hl

/-- the `OuterOk` premise from two facts about the inputs: the outside names are held outside, and no value expression binds one -/
theorem outerOk_of (p : Char → Bool) (g : VIn) (outer : List S) (h1 : ∀ n ∈ skeletonOuter g, n ∈ outer)
    (h2 : ∀ f ∈ g.fields, ∀ n, (n ∈ f.exprWrites ∨ n ∈ f.exprBinds) → n ∉ allOuter) : OuterOk (genScope p g outer) g := by
  intro n hn
  refine ⟨?_, h1 n hn⟩
  have ha := skeletonOuter_sub g n hn
  intro hl
  simp only [genScope, List.mem_cons] at hl
  rcases hl with h | h
  · exact allOuter_not_fixed n ha (by simp [fixedLocals, h])
  · rcases bindsAll_bindable p g n h with h | ⟨m, h⟩ | ⟨f, hf, h⟩
    · exact allOuter_not_fixed n ha h
    · exact allOuter_not_fieldVar n ha m h
    · exact h2 f hf n h ha


/-- the `ExprsOk` premise from a fact about the inputs: what an expression reads besides `v1` is held outside and is not a name the
body can bind -/
theorem exprsOk_of (p : Char → Bool) (g : VIn) (outer : List S)
    (h : ∀ f ∈ g.fields, ∀ n ∈ f.exprReads, n = t "v1" ∨ (n ∈ outer ∧ ¬ Bindable g n)) : ExprsOk (genScope p g outer) g := by
  intro f hf n hn
  rcases h f hf n hn with h | ⟨h1, h2⟩
  · exact Or.inl h
  · refine Or.inr ⟨?_, h1⟩
    intro hl
    simp only [genScope, List.mem_cons] at hl
    rcases hl with hl | hl
    · exact h2 (Or.inl (by simp [fixedLocals, hl]))
    · exact h2 (bindsAll_bindable p g n hl)

/-- **the v1 skeleton theorem with premises about the inputs only** -/
theorem wellScoped_inputs (p : Char → Bool) (g : VIn) (outer : List S) (hk : LookupsOk g)
    (h1 : ∀ n ∈ skeletonOuter g, n ∈ outer)
    (h2 : ∀ f ∈ g.fields, ∀ n, (n ∈ f.exprWrites ∨ n ∈ f.exprBinds) → n ∉ allOuter)
    (h3 : ∀ f ∈ g.fields, ∀ n ∈ f.exprReads, n = t "v1" ∨ (n ∈ outer ∧ ¬ Bindable g n)) : wellScoped p g outer = true :=
  wellScoped_all p g outer hk (outerOk_of p g outer h1 h2) (exprsOk_of p g outer h3)


/-! ### the executable premises are sound -/

theorem shaped_fieldVar (m : S) : shaped (fieldVar m) = true := by
  have h2 : (t "__v").isSuffixOf (fieldVar m) = true := by
    rw [List.isSuffixOf_iff_suffix]
    exact ⟨'_' :: '_' :: m, by simp [fieldVar, t]⟩
  have h1 : (t "__").isPrefixOf (fieldVar m) = true := by simp [fieldVar, t, List.isPrefixOf]
  simp [shaped, h1, h2]

theorem not_bindable_of (g : VIn) (n : S) (h : bindableB g n = false) : ¬ Bindable g n := by
  simp only [bindableB, Bool.or_eq_false_iff] at h
  obtain ⟨⟨h1, h2⟩, h3⟩ := h
  rintro (hb | ⟨m, hb⟩ | ⟨f, hf, hb⟩)
  · simp [hb] at h1
  · rw [hb, shaped_fieldVar] at h2; cases h2
  · have : g.fields.any (fun f => f.exprWrites.contains n || f.exprBinds.contains n) = true := by
      rw [List.any_eq_true]
      exact ⟨f, hf, by rcases hb with hb | hb <;> simp [hb]⟩
    rw [this] at h3; cases h3

/-- **what the driver evaluates on every generated function: when the test on the inputs passes, the theorem applies** -/
theorem premisesB_sound (p : Char → Bool) (g : VIn) (outer : List S) (h : premisesB g outer = true) : wellScoped p g outer = true := by
  simp only [premisesB, Bool.and_eq_true, List.all_eq_true] at h
  obtain ⟨⟨⟨h0, h1⟩, h2⟩, h3⟩ := h
  refine wellScoped_inputs p g outer ?_ ?_ ?_ ?_
  · intro f hf
    have := h0 f hf
    simp only [lookupOkB, Bool.and_eq_true, bne_iff_ne, ne_eq] at this
    exact this
  · intro n hn
    simpa using h1 n hn
  · intro f hf n hn
    have := h2 f hf n (by simpa [List.mem_append] using hn)
    simpa using this
  · intro f hf n hn
    have := h3 f hf n hn
    simp only [Bool.or_eq_true, beq_iff_eq, Bool.and_eq_true, Bool.not_eq_true'] at this
    rcases this with h | ⟨h4, h5⟩
    · exact Or.inl h
    · exact Or.inr ⟨by simpa using h4, not_bindable_of g n h5⟩


/-! ### field names never collide with the template's own names -/

/-- a field variable is none of the template's own locals and none of its outside names, whatever the field is called -/
theorem fieldVar_fresh (m : S) : fieldVar m ∉ fixedLocals ∧ fieldVar m ∉ allOuter := by
  have h1 : ∀ x ∈ fixedLocals, x.getLast? ≠ some 'v' := by decide
  have h2 : ∀ x ∈ allOuter, x.getLast? ≠ some 'v' := by decide
  exact ⟨fun h => h1 _ h (getLast_fieldVar' m), fun h => h2 _ h (getLast_fieldVar' m)⟩

theorem fieldVar_inj (a b : S) (h : fieldVar a = fieldVar b) : a = b := by
  simp only [fieldVar, List.cons.injEq, true_and] at h
  exact List.append_cancel_right h

theorem nodup_map_inj {α β : Type} (f : α → β) (hf : ∀ a b, f a = f b → a = b) : ∀ l : List α, l.Nodup → (l.map f).Nodup
  | [], _ => List.nodup_nil
  | a :: r, h => by
    rw [List.nodup_cons] at h
    rw [List.map_cons, List.nodup_cons]
    refine ⟨?_, nodup_map_inj f hf r h.2⟩
    intro hm
    rw [List.mem_map] at hm
    obtain ⟨b, hb, he⟩ := hm
    rw [hf _ _ he] at hb
    exact h.1 hb

theorem nodup_insertAt (l : List S) (i : Nat) (x : S) (hl : l.Nodup) (hx : x ∉ l) : (insertAt l i x).Nodup := by
  unfold insertAt
  have hsplit : l = l.take i ++ l.drop i := (List.take_append_drop i l).symm
  rw [hsplit] at hl hx
  rw [List.nodup_append] at hl ⊢
  obtain ⟨h1, h2, h3⟩ := hl
  simp only [List.mem_append, not_or] at hx
  refine ⟨h1, ?_, ?_⟩
  · rw [List.nodup_cons]; exact ⟨hx.2, h2⟩
  · intro a ha b hb
    rcases List.mem_cons.1 hb with h | h
    · rw [h]; intro hab; rw [hab] at ha; exact hx.1 ha
    · exact h3 a ha b h

/-- distinct constructor fields get distinct variables, and the catch-all variable is none of them: the variables handed to the
constructor are pairwise distinct whatever the fields are called -/
theorem ctorVars_nodup (g : VIn) (hn : (g.fields.map (·.name)).Nodup)
    (hc : ∀ n idx, g.catchAll = .required n idx → n ∉ g.fields.map (·.name)) : (ctorVars g).Nodup := by
  have hreq : ((g.fields.filter (fun f => !f.hasDefault)).map (fun f => fieldVar f.name)).Nodup := by
    have h1 : ((g.fields.filter (fun f => !f.hasDefault)).map (·.name)).Nodup :=
      List.Nodup.sublist (List.Sublist.map _ (List.filter_sublist)) hn
    have : (g.fields.filter (fun f => !f.hasDefault)).map (fun f => fieldVar f.name) =
        ((g.fields.filter (fun f => !f.hasDefault)).map (·.name)).map fieldVar := by simp
    rw [this]
    exact nodup_map_inj fieldVar fieldVar_inj _ h1
  unfold ctorVars
  cases hca : g.catchAll with
  | none => exact hreq
  | dflt n => exact hreq
  | required n idx =>
    refine nodup_insertAt _ idx _ hreq ?_
    intro hm
    rw [List.mem_map] at hm
    obtain ⟨f, hf, he⟩ := hm
    have := fieldVar_inj _ _ he
    exact hc n idx hca (by rw [← this]; exact List.mem_map.2 ⟨f, (List.mem_filter.1 hf).1, rfl⟩)

/-- every required constructor field is handed to the constructor -/
theorem ctorVars_complete (g : VIn) (f : VField) (hf : f ∈ g.fields) (hd : f.hasDefault = false) : fieldVar f.name ∈ ctorVars g := by
  have hreq : fieldVar f.name ∈ (g.fields.filter (fun f => !f.hasDefault)).map (fun f => fieldVar f.name) :=
    List.mem_map.2 ⟨f, List.mem_filter.2 ⟨hf, by simp [hd]⟩, rfl⟩
  unfold ctorVars
  cases g.catchAll with
  | none => exact hreq
  | dflt n => exact hreq
  | required n idx =>
    simp only [insertAt, List.mem_append, List.mem_cons]
    have hsplit := List.take_append_drop idx ((g.fields.filter (fun f => !f.hasDefault)).map (fun f => fieldVar f.name))
    rw [← hsplit] at hreq
    rcases List.mem_append.1 hreq with h | h
    · exact Or.inl h
    · exact Or.inr (Or.inr h)

end DW.GenLoadV1
