/- Soundness of the default-engine loader for composite types: definitions (`Frag`, `Sound`) and the induction behind
`C05_sound`. -/
import DW.Lemmas.SoundScalar

namespace DW.Props.C05
open DW

/-- where the value of a field comes from when the document did not provide it -/
def fromDefault (ci : ClassInfo) (n : S) (v : PyVal) : Prop :=
  ∃ f ∈ ci.fields, f.name = n ∧ (f.dflt.map Dflt.toPy = some v ∨ f.postInit.map Lit.toPy = some v)

/-- the catch-all field: it receives the dictionary of unknown pairs -/
def catchAllOrigin (ci : ClassInfo) (n : S) : Prop := ∃ f ∈ ci.fields, f.isCatchAll = true ∧ f.name = n

/-- the declared type of field `n` (first entry, as the generated loader resolves it) -/
def tyOf (ftys : List (S × Ty)) (n : S) : Option Ty := (ftys.find? (fun p => p.1 == n)).map (·.2)

/-- `NoneType` as a Union argument -/
def isNoneArg : Ty → Bool
  | .none => true
  | _ => false

/-- the value is the declared default of the NamedTuple field -/
def ntDefault (f : S × Ty × Option Dflt) (x : PyVal) : Prop := f.2.2.map Dflt.toPy = some x

/-- the fragment of the type grammar covered by `C05_sound`: every scalar kind, Any, Optional, list / set / frozenset /
deque, variadic tuple, dict-like, dataclasses — nested arbitrarily -/
inductive Frag : Ty → Prop
  | scalar (t : Ty) : isScalarTy t = true → Frag t
  | any : Frag .any
  | optional (t : Ty) : Frag t → Frag (.optional t)
  | seq (k : SeqKind) (t : Ty) : Frag t → Frag (.seq k t)
  | vtuple (t : Ty) : Frag t → Frag (.vtuple t)
  | map (k : MapKind) (kt vt : Ty) : Frag kt → Frag vt → Frag (.map k kt vt)
  | cls (ci : ClassInfo) (ftys : List (S × Ty)) : (∀ p ∈ ftys, Frag p.2) → Frag (.cls ci ftys)
  | union (ts : List Ty) : (∀ t ∈ ts, isNoneArg t = false → Frag t) → Frag (.union ts)
  | tuple (ts : List Ty) : ts ≠ [] → (∀ t ∈ ts, acceptsNone t = false) → (∀ t ∈ ts, Frag t) → Frag (.tuple ts)
  | typeddict (name : S) (fields : List (S × Ty × Bool)) : (fields.map (·.1)).Nodup → (∀ f ∈ fields, Frag f.2.1) →
      Frag (.typeddict name fields)
  | ntuple (name : S) (fields : List (S × Ty × Option Dflt)) : (fields.map (·.1)).Nodup → (∀ f ∈ fields, Frag f.2.1) →
      Frag (.ntuple name fields)

/-- value `y` is an instance of type `t` (exact runtime types; fields not provided by the document hold their declared
default / `__post_init__` value, the catch-all field the captured pairs) -/
inductive Sound (C : Ty → PyVal → Bool) : Ty → PyVal → Prop
  | scalar (t : Ty) (y : PyVal) : C t y = true → Sound C t y
  | any (y : PyVal) : Sound C .any y
  | optNone (t : Ty) : Sound C (.optional t) .none
  | optSome (t : Ty) (y : PyVal) : Sound C t y → Sound C (.optional t) y
  | seq (k : SeqKind) (t : Ty) (xs : List PyVal) : (∀ x ∈ xs, Sound C t x) → Sound C (.seq k t) (.seq k xs)
  | vtuple (t : Ty) (xs : List PyVal) : (∀ x ∈ xs, Sound C t x) → Sound C (.vtuple t) (.tuple xs)
  | map (k : MapKind) (kt vt : Ty) (kvs : List (PyVal × PyVal)) : (∀ p ∈ kvs, Sound C kt p.1) → (∀ p ∈ kvs, Sound C vt p.2) →
      Sound C (.map k kt vt) (.map k kvs)
  | inst (ci : ClassInfo) (ftys : List (S × Ty)) (fs : List (S × PyVal)) : fs.map (·.1) = ci.fields.map (·.name) →
      (∀ p ∈ fs, fromDefault ci p.1 p.2 ∨ catchAllOrigin ci p.1 ∨ (tyOf ftys p.1).isSome = true) →
      (∀ p ∈ fs, ∀ t, tyOf ftys p.1 = some t → ¬ fromDefault ci p.1 p.2 → ¬ catchAllOrigin ci p.1 → Sound C t p.2) →
      Sound C (.cls ci ftys) (.inst ci fs)
  | union (ts : List Ty) (t : Ty) (y : PyVal) : t ∈ ts → isNoneArg t = false → Sound C t y → Sound C (.union ts) y
  | unionNone (ts : List Ty) : ts.any isNoneArg = true → Sound C (.union ts) .none
  | tuple (ts : List Ty) (xs : List PyVal) : xs.length = ts.length → (∀ p ∈ ts.zip xs, Sound C p.1 p.2) →
      Sound C (.tuple ts) (.tuple xs)
  | typeddict (name : S) (fields : List (S × Ty × Bool)) (ps : List (PyVal × PyVal)) :
      (∀ p ∈ ps, ∃ f ∈ fields, p.1 = .str f.1) →
      (∀ p ∈ ps, ∀ f ∈ fields, p.1 = .str f.1 → Sound C f.2.1 p.2) →
      (∀ f ∈ fields, f.2.2 = true → ∃ p ∈ ps, p.1 = .str f.1) →
      Sound C (.typeddict name fields) (.map .dict ps)
  | ntuple (name : S) (fields : List (S × Ty × Option Dflt)) (xs : List PyVal) : xs.length = fields.length →
      (∀ p ∈ fields.zip xs, ¬ ntDefault p.1 p.2 → Sound C p.1.2.1 p.2) →
      Sound C (.ntuple name fields) (.ntuple name (fields.map (·.1)) xs)

variable {C : Ty → PyVal → Bool}

theorem mapME_all {α β : Type} (f : α → Except LErr β) (P : β → Prop) (hf : ∀ x y, f x = .ok y → P y) :
    ∀ (xs : List α) (ys : List β), mapME f xs = .ok ys → ∀ y ∈ ys, P y
  | [], ys, h => by simp only [mapME, pure, Except.pure, Except.ok.injEq] at h; subst h; simp
  | x :: xs, ys, h => by
    simp only [mapME, bind, Except.bind] at h
    split at h
    · simp at h
    · next y hy =>
      split at h
      · simp at h
      · next ys' hys =>
        simp only [pure, Except.pure, Except.ok.injEq] at h; subst h
        intro z hz
        rcases List.mem_cons.1 hz with rfl | hz
        · exact hf x _ hy
        · exact mapME_all f P hf xs ys' hys z hz

theorem dedupKeep_subset (xs : List PyVal) : ∀ x ∈ dedupKeep xs, x ∈ xs := by
  unfold dedupKeep
  have key : ∀ (l acc : List PyVal), (∀ x ∈ acc, x ∈ xs) → (∀ x ∈ l, x ∈ xs) →
      ∀ x ∈ l.foldl (fun acc x => if acc.any (fun y => pyKeyEq y x) then acc else acc ++ [x]) acc, x ∈ xs := by
    intro l
    induction l with
    | nil => intro acc ha _; simpa using ha
    | cons a r ih =>
      intro acc ha hl
      simp only [List.foldl_cons]
      apply ih
      · split
        · exact ha
        · intro x hx
          rcases List.mem_append.1 hx with hx | hx
          · exact ha x hx
          · simp at hx; subst hx; exact hl _ (by simp)
      · intro x hx; exact hl x (by simp [hx])
  exact key xs [] (by simp) (fun x hx => hx)

theorem mkSeq_sound (t : Ty) (k : SeqKind) (ys : List PyVal) (r : PyVal) (hs : ∀ y ∈ ys, Sound C t y)
    (h : mkSeq k ys = .ok r) : Sound C (.seq k t) r := by
  cases k <;> simp only [mkSeq, pure, Except.pure] at h
  · cases h; exact Sound.seq _ t ys hs
  · split at h
    · cases h; exact Sound.seq _ t _ (fun x hx => hs x (dedupKeep_subset ys x hx))
    · simp [rawE] at h
  · split at h
    · cases h; exact Sound.seq _ t _ (fun x hx => hs x (dedupKeep_subset ys x hx))
    · simp [rawE] at h
  · cases h; exact Sound.seq _ t ys hs


theorem dictInsert_all (P Q : PyVal → Prop) (acc : List (PyVal × PyVal)) (k v : PyVal)
    (ha : ∀ p ∈ acc, P p.1 ∧ Q p.2) (hk : P k) (hv : Q v) : ∀ p ∈ dictInsert acc k v, P p.1 ∧ Q p.2 := by
  unfold dictInsert
  split
  · intro p hp
    obtain ⟨q, hq, rfl⟩ := List.mem_map.1 hp
    split
    · exact ⟨(ha q hq).1, hv⟩
    · exact ha q hq
  · intro p hp
    rcases List.mem_append.1 hp with hp | hp
    · exact ha p hp
    · simp at hp; subst hp; exact ⟨hk, hv⟩

theorem foldl_dictInsert_all (P Q : PyVal → Prop) : ∀ (ps acc : List (PyVal × PyVal)),
    (∀ p ∈ acc, P p.1 ∧ Q p.2) → (∀ p ∈ ps, P p.1 ∧ Q p.2) →
    ∀ p ∈ ps.foldl (fun acc p => dictInsert acc p.1 p.2) acc, P p.1 ∧ Q p.2
  | [], acc, ha, _ => by simpa using ha
  | q :: r, acc, ha, hp => by
    simp only [List.foldl_cons]
    exact foldl_dictInsert_all P Q r _ (dictInsert_all P Q acc q.1 q.2 ha (hp q (by simp)).1 (hp q (by simp)).2)
      (fun x hx => hp x (by simp [hx]))

theorem mkMap_sound (kt vt : Ty) (k : MapKind) (ps : List (PyVal × PyVal)) (r : PyVal)
    (hs : ∀ p ∈ ps, Sound C kt p.1 ∧ Sound C vt p.2) (h : mkMap k ps = .ok r) : Sound C (.map k kt vt) r := by
  unfold mkMap at h
  split at h
  · simp only [pure, Except.pure, Except.ok.injEq] at h; subst h
    have := foldl_dictInsert_all (Sound C kt) (Sound C vt) ps [] (by simp) hs
    exact Sound.map k kt vt _ (fun p hp => (this p hp).1) (fun p hp => (this p hp).2)
  · simp [rawE] at h

/-- the per-field loader returns a value of the field's declared type -/
theorem loadField_sound (std : Std) (cfg : Option MetaCfg) (f : S) (v : JVal) (y : PyVal) :
    ∀ (ftys : List (S × Ty)), (∀ p ∈ ftys, ∀ o z, loadD std cfg p.2 o = .ok z → Sound C p.2 z) →
      loadField std cfg f v ftys = .ok y → ∃ t, tyOf ftys f = some t ∧ Sound C t y
  | [], _, h => by simp [loadField] at h
  | (n, t) :: r, ih, h => by
    rw [loadField] at h
    by_cases hn : (n == f) = true
    · simp only [hn, if_true] at h
      exact ⟨t, by simp [tyOf, List.find?, hn], ih (n, t) (by simp) v y h⟩
    · have hb : (n == f) = false := by simpa using hn
      simp only [hb, Bool.false_eq_true, if_false] at h
      obtain ⟨t', ht', hs⟩ := loadField_sound std cfg f v y r (fun p hp => ih p (by simp [hp])) h
      exact ⟨t', by simpa [tyOf, List.find?, hb] using ht', hs⟩

/-- every keyword argument collected by the key loop was produced by the per-field loader -/
theorem loadKeysWith_sound (FL : S → JVal → LRes) (P : S → PyVal → Prop) (hFL : ∀ f v y, FL f v = .ok y → P f y)
    (eff : MetaCfg) (ci : ClassInfo) : ∀ (kvs : List (S × JVal)) (kw : List (S × PyVal)) (ca : List (PyVal × PyVal)),
      loadKeysWith FL eff ci kvs = .ok (kw, ca) → ∀ p ∈ kw, P p.1 p.2
  | [], kw, ca, h => by
    simp only [loadKeysWith, pure, Except.pure, Except.ok.injEq, Prod.mk.injEq] at h
    obtain ⟨rfl, _⟩ := h; simp
  | (k, v) :: r, kw, ca, h => by
    simp only [loadKeysWith, bind, Except.bind] at h
    split at h
    · simp at h
    · next res hres =>
      cases res with
      | field f =>
        simp only at h
        split at h
        · simp at h
        · next y hy =>
          split at h
          · simp at h
          · next rest hrest =>
            obtain ⟨kw', ca'⟩ := rest
            simp only [pure, Except.pure, Except.ok.injEq, Prod.mk.injEq] at h
            obtain ⟨rfl, rfl⟩ := h
            have hy' : FL f v = .ok y := by
              cases hfl : FL f v with
              | error e => simp [hfl, Except.mapError] at hy
              | ok z => simp [hfl, Except.mapError] at hy; rw [hy]
            intro p hp
            rcases List.mem_cons.1 hp with rfl | hp
            · exact hFL f v y hy'
            · exact loadKeysWith_sound FL P hFL eff ci r kw' ca' hrest p hp
      | ignored =>
        simp only at h
        exact loadKeysWith_sound FL P hFL eff ci r kw ca h
      | unknown =>
        simp only at h
        split at h
        · simp at h
        · split at h
          · simp at h
          · next rest hrest =>
            obtain ⟨kw', ca'⟩ := rest
            simp only at h
            split at h <;> simp only [pure, Except.pure, Except.ok.injEq, Prod.mk.injEq] at h
            · obtain ⟨rfl, rfl⟩ := h
              exact loadKeysWith_sound FL P hFL eff ci r kw' ca' hrest
            · obtain ⟨rfl, _⟩ := h
              exact loadKeysWith_sound FL P hFL eff ci r kw' ca' hrest


/-- `cls(**kwargs)`: every field of the result is a supplied argument, or the field's declared default / post-init value -/
theorem buildFields_origin (K : List (S × PyVal)) : ∀ (F : List FieldInfo) (fs : List (S × PyVal)),
    buildFields K F = .ok fs → fs.map (·.1) = F.map (·.name) ∧
      ∀ p ∈ fs, p ∈ K ∨ ∃ f ∈ F, f.name = p.1 ∧ (f.dflt.map Dflt.toPy = some p.2 ∨ f.postInit.map Lit.toPy = some p.2)
  | [], fs, h => by
    simp only [buildFields, pure, Except.pure, Except.ok.injEq] at h; subst h; simp
  | f :: r, fs, h => by
    rw [buildFields] at h
    split at h
    · rename_i p hfind
      simp only [bind, Except.bind] at h
      split at h
      · simp at h
      · next rest hrest =>
        simp only [pure, Except.pure, Except.ok.injEq] at h; subst h
        obtain ⟨hn, ho⟩ := buildFields_origin K r rest hrest
        have hpK : p ∈ K ∧ p.1 = f.name := by
          split at hfind
          · have := find?_mem_aux _ _ _ hfind
            exact ⟨List.mem_reverse.1 this.1, by simpa using this.2⟩
          · simp at hfind
        refine ⟨by simp [hn], ?_⟩
        intro q hq
        rcases List.mem_cons.1 hq with rfl | hq
        · left
          have : (f.name, p.2) = p := by rw [← hpK.2]
          rw [this]; exact hpK.1
        · rcases ho q hq with h1 | ⟨g, hg, hgn, hgo⟩
          · exact Or.inl h1
          · exact Or.inr ⟨g, by simp [hg], hgn, hgo⟩
    · rename_i d hnone hd
      simp only [bind, Except.bind] at h
      split at h
      · simp at h
      · next rest hrest =>
        simp only [pure, Except.pure, Except.ok.injEq] at h; subst h
        obtain ⟨hn, ho⟩ := buildFields_origin K r rest hrest
        refine ⟨by simp [hn], ?_⟩
        intro q hq
        rcases List.mem_cons.1 hq with rfl | hq
        · exact Or.inr ⟨f, by simp, rfl, Or.inl (by simp [hd])⟩
        · rcases ho q hq with h1 | ⟨g, hg, hgn, hgo⟩
          · exact Or.inl h1
          · exact Or.inr ⟨g, by simp [hg], hgn, hgo⟩
    · rename_i hnone hd
      split at h
      · next l hl =>
        simp only [bind, Except.bind] at h
        split at h
        · simp at h
        · next rest hrest =>
          simp only [pure, Except.pure, Except.ok.injEq] at h; subst h
          obtain ⟨hn, ho⟩ := buildFields_origin K r rest hrest
          refine ⟨by simp [hn], ?_⟩
          intro q hq
          rcases List.mem_cons.1 hq with rfl | hq
          · exact Or.inr ⟨f, by simp, rfl, Or.inr (by simp [hl])⟩
          · rcases ho q hq with h1 | ⟨g, hg, hgn, hgo⟩
            · exact Or.inl h1
            · exact Or.inr ⟨g, by simp [hg], hgn, hgo⟩
      · simp at h


/-- the instance `finishClass` builds: its fields, in declaration order, are loaded arguments, the captured catch-all
dictionary, or declared defaults -/
theorem finishClass_sound (ci : ClassInfo) (ftys : List (S × Ty)) (kw : List (S × PyVal)) (ca : List (PyVal × PyVal))
    (o : JVal) (r : PyVal) (hkw : ∀ p ∈ kw, ∃ t, tyOf ftys p.1 = some t ∧ Sound C t p.2)
    (h : finishClass ci kw ca o = .ok r) : Sound C (.cls ci ftys) r := by
  unfold finishClass at h
  simp only at h
  split at h
  · simp only [bind, Except.bind] at h
    split at h
    · simp at h
    · next fs hfs =>
      simp only [pure, Except.pure, Except.ok.injEq] at h; subst h
      obtain ⟨hn, ho⟩ := buildFields_origin _ ci.fields fs hfs
      have horigin : ∀ p ∈ fs, (∃ t, tyOf ftys p.1 = some t ∧ Sound C t p.2) ∨ fromDefault ci p.1 p.2 ∨ catchAllOrigin ci p.1 := by
        intro p hp
        rcases ho p hp with hK | ⟨g, hg, hgn, hgo⟩
        · -- an argument: loaded, or the catch-all dictionary
          unfold withCatchAll at hK
          split at hK
          · exact Or.inl (hkw p hK)
          · next cf hcf =>
            split at hK
            · rcases List.mem_append.1 hK with hK | hK
              · exact Or.inl (hkw p hK)
              · simp at hK; subst hK
                have := find?_mem_aux _ _ _ hcf
                exact Or.inr (Or.inr ⟨cf, this.1, this.2, rfl⟩)
            · exact Or.inl (hkw p hK)
        · exact Or.inr (Or.inl ⟨g, hg, hgn, hgo⟩)
      refine Sound.inst ci ftys fs hn ?_ ?_
      · intro p hp
        rcases horigin p hp with ⟨t, ht, _⟩ | h2 | h3
        · exact Or.inr (Or.inr (by simp [ht]))
        · exact Or.inl h2
        · exact Or.inr (Or.inl h3)
      · intro p hp t ht hnd hnc
        rcases horigin p hp with ⟨t', ht', hs⟩ | h2 | h3
        · rw [ht] at ht'; cases ht'; exact hs
        · exact absurd h2 hnd
        · exact absurd h3 hnc
  · simp at h

theorem loadJunkKeys_sound (eff : MetaCfg) (ci : ClassInfo) (ftys : List (S × Ty)) (o : JVal) (r : PyVal) :
    ∀ (xs : List JVal), loadJunkKeys eff ci o xs = .ok r → Sound C (.cls ci ftys) r
  | [], h => by
    rw [loadJunkKeys] at h
    exact finishClass_sound ci ftys [] [] o r (by simp) h
  | e :: rest, h => by
    cases e with
    | str k =>
      rw [loadJunkKeys] at h
      split at h
      · simp at h
      · simp at h
      · exact loadJunkKeys_sound eff ci ftys o r rest h
      · split at h
        · simp at h
        · split at h
          · simp at h
          · exact loadJunkKeys_sound eff ci ftys o r rest h
    | list _ => simp [loadJunkKeys] at h
    | dict _ => simp [loadJunkKeys] at h
    | null => simp [loadJunkKeys, rawE] at h
    | bool _ => simp [loadJunkKeys, rawE] at h
    | int _ => simp [loadJunkKeys, rawE] at h
    | float _ => simp [loadJunkKeys, rawE] at h

/-- what the first phase of the Union parser returns was produced by the parser of a non-dataclass member -/
theorem loadUnionTry_origin (std : Std) (cfg : Option MetaCfg) (o : JVal) (y : PyVal) : ∀ (ts : List Ty) (r : LRes),
    loadUnionTry std cfg ts o = some r → r = .ok y → ∃ t ∈ ts, isNoneArg t = false ∧ loadD std cfg t o = .ok y
  | [], r, h, _ => by simp [loadUnionTry] at h
  | t :: ts, r, h, hr => by
    have hrec : ∀ r', loadUnionTry std cfg ts o = some r' → r' = .ok y →
        ∃ t' ∈ t :: ts, isNoneArg t' = false ∧ loadD std cfg t' o = .ok y := by
      intro r' h' hr'
      obtain ⟨t', ht', hn', hl'⟩ := loadUnionTry_origin std cfg o y ts r' h' hr'
      exact ⟨t', by simp [ht'], hn', hl'⟩
    have hhere : ∀ (hn : isNoneArg t = false),
        (match parserContains t o with
          | none => some (rawE "TypeError")
          | some true => some (loadD std cfg t o)
          | some false => loadUnionTry std cfg ts o) = some r →
        ∃ t' ∈ t :: ts, isNoneArg t' = false ∧ loadD std cfg t' o = .ok y := by
      intro hn h'
      split at h'
      · simp only [Option.some.injEq] at h'; subst h'; simp [rawE] at hr
      · simp only [Option.some.injEq] at h'; subst h'; exact ⟨t, by simp, hn, hr⟩
      · exact hrec r h' hr
    cases t with
    | cls ci f => rw [loadUnionTry] at h; exact hrec r h hr
    | none => rw [loadUnionTry] at h; exact hrec r h hr
    | any =>
      rw [loadUnionTry] at h
      exact hhere rfl h
      all_goals (intros; rename_i hh; cases hh)
    | bool =>
      rw [loadUnionTry] at h
      exact hhere rfl h
      all_goals (intros; rename_i hh; cases hh)
    | int =>
      rw [loadUnionTry] at h
      exact hhere rfl h
      all_goals (intros; rename_i hh; cases hh)
    | float =>
      rw [loadUnionTry] at h
      exact hhere rfl h
      all_goals (intros; rename_i hh; cases hh)
    | str =>
      rw [loadUnionTry] at h
      exact hhere rfl h
      all_goals (intros; rename_i hh; cases hh)
    | bytes =>
      rw [loadUnionTry] at h
      exact hhere rfl h
      all_goals (intros; rename_i hh; cases hh)
    | bytearray =>
      rw [loadUnionTry] at h
      exact hhere rfl h
      all_goals (intros; rename_i hh; cases hh)
    | leaf k =>
      rw [loadUnionTry] at h
      exact hhere rfl h
      all_goals (intros; rename_i hh; cases hh)
    | timedelta =>
      rw [loadUnionTry] at h
      exact hhere rfl h
      all_goals (intros; rename_i hh; cases hh)
    | enum n ms =>
      rw [loadUnionTry] at h
      exact hhere rfl h
      all_goals (intros; rename_i hh; cases hh)
    | literal vs =>
      rw [loadUnionTry] at h
      exact hhere rfl h
      all_goals (intros; rename_i hh; cases hh)
    | optional t' =>
      rw [loadUnionTry] at h
      exact hhere rfl h
      all_goals (intros; rename_i hh; cases hh)
    | union ts' =>
      rw [loadUnionTry] at h
      exact hhere rfl h
      all_goals (intros; rename_i hh; cases hh)
    | seq k t' =>
      rw [loadUnionTry] at h
      exact hhere rfl h
      all_goals (intros; rename_i hh; cases hh)
    | tuple ts' =>
      rw [loadUnionTry] at h
      exact hhere rfl h
      all_goals (intros; rename_i hh; cases hh)
    | vtuple t' =>
      rw [loadUnionTry] at h
      exact hhere rfl h
      all_goals (intros; rename_i hh; cases hh)
    | map k kt vt =>
      rw [loadUnionTry] at h
      exact hhere rfl h
      all_goals (intros; rename_i hh; cases hh)
    | ntuple n fs =>
      rw [loadUnionTry] at h
      exact hhere rfl h
      all_goals (intros; rename_i hh; cases hh)
    | typeddict n fs =>
      rw [loadUnionTry] at h
      exact hhere rfl h
      all_goals (intros; rename_i hh; cases hh)

/-- what the tag dispatch returns was produced by the loader of a member dataclass -/
theorem loadTagged_origin (std : Std) (cfg : Option MetaCfg) (tg : S) (o : JVal) (y : PyVal) : ∀ (ts : List Ty),
    loadTagged std cfg tg ts o = .ok y → ∃ ci ftys, Ty.cls ci ftys ∈ ts ∧ loadD std cfg (.cls ci ftys) o = .ok y
  | [], h => by simp [loadTagged, parseE] at h
  | t :: ts, h => by
    have hrec : loadTagged std cfg tg ts o = .ok y → ∃ ci ftys, Ty.cls ci ftys ∈ t :: ts ∧ loadD std cfg (.cls ci ftys) o = .ok y := by
      intro h'
      obtain ⟨ci, ftys, hm, hl⟩ := loadTagged_origin std cfg tg o y ts h'
      exact ⟨ci, ftys, by simp [hm], hl⟩
    cases t with
    | cls ci ftys =>
      rw [loadTagged] at h
      split at h
      · exact ⟨ci, ftys, by simp, by rw [loadD]; exact h⟩
      · exact hrec h
    | _ =>
      rw [loadTagged] at h
      exact hrec h
      all_goals (intros; rename_i hh; cases hh)

theorem loadZip_sound (std : Std) (cfg : Option MetaCfg) : ∀ (ts : List Ty) (xs : List JVal) (ys : List PyVal),
    (∀ t ∈ ts, ∀ o z, loadD std cfg t o = .ok z → Sound C t z) → ts.length ≤ xs.length →
    loadZip std cfg ts xs = .ok ys → ys.length = ts.length ∧ ∀ p ∈ ts.zip ys, Sound C p.1 p.2
  | [], xs, ys, _, _, h => by
    simp only [loadZip, pure, Except.pure, Except.ok.injEq] at h; subst h; simp
  | t :: ts, [], ys, _, hl, _ => by simp at hl
  | t :: ts, x :: xs, ys, ih, hl, h => by
    simp only [loadZip, bind, Except.bind] at h
    split at h
    · simp at h
    · next y hy =>
      split at h
      · simp at h
      · next ys' hys =>
        simp only [pure, Except.pure, Except.ok.injEq] at h; subst h
        obtain ⟨h1, h2⟩ := loadZip_sound std cfg ts xs ys' (fun t' ht' => ih t' (by simp [ht'])) (by simpa using hl) hys
        refine ⟨by simp [h1], ?_⟩
        intro p hp
        simp only [List.zip_cons_cons, List.mem_cons] at hp
        rcases hp with rfl | hp
        · exact ih t (by simp) x y hy
        · exact h2 p hp

theorem filter_all_length {α} (p : α → Bool) (l : List α) (h : ∀ a ∈ l, p a = true) : (l.filter p).length = l.length := by
  rw [List.filter_eq_self.2 h]

theorem loadTd_sound (std : Std) (cfg : Option MetaCfg) (kvs : List (S × JVal)) (all : List (S × Ty × Bool)) :
    ∀ (fields : List (S × Ty × Bool)) (ps : List (PyVal × PyVal)),
    (∀ f ∈ fields, ∀ o z, loadD std cfg f.2.1 o = .ok z → Sound C f.2.1 z) →
    (∀ f ∈ fields, f ∈ all) →
    loadTd std cfg fields kvs = .ok ps →
      (∀ p ∈ ps, ∃ f ∈ fields, p.1 = .str f.1 ∧ Sound C f.2.1 p.2) ∧ (∀ f ∈ fields, f.2.2 = true → ∃ p ∈ ps, p.1 = .str f.1)
  | [], ps, _, _, h => by
    simp only [loadTd, pure, Except.pure, Except.ok.injEq] at h; subst h; simp
  | (k, t, req) :: r, ps, ih, hall, h => by
    rw [loadTd] at h
    split at h
    · next v hfind =>
      simp only [bind, Except.bind] at h
      split at h
      · simp at h
      · next y hy =>
        split at h
        · simp at h
        · next ys hys =>
          simp only [pure, Except.pure, Except.ok.injEq] at h; subst h
          obtain ⟨h1, h2⟩ := loadTd_sound std cfg kvs all r ys (fun f hf => ih f (by simp [hf])) (fun f hf => hall f (by simp [hf])) hys
          constructor
          · intro p hp
            rcases List.mem_cons.1 hp with rfl | hp
            · exact ⟨(k, t, req), by simp, rfl, ih (k, t, req) (by simp) _ y hy⟩
            · obtain ⟨f, hf, hk, hs⟩ := h1 p hp
              exact ⟨f, by simp [hf], hk, hs⟩
          · intro f hf hreq
            rcases List.mem_cons.1 hf with rfl | hf
            · exact ⟨(.str k, y), by simp, rfl⟩
            · obtain ⟨p, hp, hk⟩ := h2 f hf hreq
              exact ⟨p, by simp [hp], hk⟩
    · split at h
      · simp [parseE] at h
      · next hreq =>
        obtain ⟨h1, h2⟩ := loadTd_sound std cfg kvs all r ps (fun f hf => ih f (by simp [hf])) (fun f hf => hall f (by simp [hf])) h
        constructor
        · intro p hp
          obtain ⟨f, hf, hk, hs⟩ := h1 p hp
          exact ⟨f, by simp [hf], hk, hs⟩
        · intro f hf hr
          rcases List.mem_cons.1 hf with rfl | hf
          · simp at hr; simp [hr] at hreq
          · exact h2 f hf hr

theorem jLen_jIter (o : JVal) (n : Nat) (xs : List JVal) (h1 : jLen o = some n) (h2 : jIter o = some xs) : xs.length = n := by
  cases o <;> simp [jLen, jIter] at h1 h2 <;> (subst h1; subst h2; simp)

theorem nodup_key_inj {α : Type} (key : α → S) : ∀ (l : List α), (l.map key).Nodup → ∀ a ∈ l, ∀ b ∈ l, key a = key b → a = b
  | [], _, a, ha, _, _, _ => by simp at ha
  | x :: r, hnd, a, ha, b, hb, hk => by
    simp only [List.map_cons, List.nodup_cons] at hnd
    rcases List.mem_cons.1 ha with ha' | ha'
    · rcases List.mem_cons.1 hb with hb' | hb'
      · rw [ha', hb']
      · exfalso; apply hnd.1; rw [← ha', hk]; exact List.mem_map.2 ⟨b, hb', rfl⟩
    · rcases List.mem_cons.1 hb with hb' | hb'
      · exfalso; apply hnd.1; rw [← hb', ← hk]; exact List.mem_map.2 ⟨a, ha', rfl⟩
      · exact nodup_key_inj key r hnd.2 a ha' b hb' hk

theorem tdJunk_ok (fields : List (S × Ty × Bool)) (o : JVal) (y : PyVal) (h : tdJunk fields o = .ok y) :
    y = .map .dict [] ∧ fields.any (fun f => f.2.2) = false := by
  unfold tdJunk at h
  split at h
  · simp [parseE] at h
  · next hany =>
    refine ⟨?_, by simpa using hany⟩
    split at h
    · split at h
      · simp [parseE] at h
      · simp only [pure, Except.pure, Except.ok.injEq] at h; exact h.symm
    · split at h
      · simp [parseE] at h
      · simp only [pure, Except.pure, Except.ok.injEq] at h; exact h.symm
    · split at h
      · simp only [pure, Except.pure, Except.ok.injEq] at h; exact h.symm
      · simp [parseE] at h

/-! ### NamedTuple -/

theorem zip_take_left {α β : Type} : ∀ (l : List α) (r : List β), (l.take r.length).zip r = l.zip r
  | [], r => by simp
  | a :: l, [] => by simp
  | a :: l, b :: r => by simp [zip_take_left l r]

theorem filterMap_defaults (g : S × Ty × Option Dflt → Option PyVal) (hg : ∀ f, g f = f.2.2.map Dflt.toPy) :
    ∀ (rest : List (S × Ty × Option Dflt)), rest.all (fun f => f.2.2.isSome) = true →
      (rest.filterMap g).length = rest.length ∧ ∀ p ∈ rest.zip (rest.filterMap g), ntDefault p.1 p.2
  | [], _ => by simp
  | f :: r, h => by
    simp only [List.all_cons, Bool.and_eq_true] at h
    obtain ⟨d, hd⟩ := Option.isSome_iff_exists.1 h.1
    obtain ⟨h1, h2⟩ := filterMap_defaults g hg r h.2
    have hgf : g f = some d.toPy := by rw [hg, hd]; rfl
    simp only [List.filterMap_cons, hgf]
    refine ⟨by simp [h1], ?_⟩
    intro p hp
    simp only [List.zip_cons_cons, List.mem_cons] at hp
    rcases hp with rfl | hp
    · simp [ntDefault, hd]
    · exact h2 p hp

theorem loadNtList_sound {C : Ty → PyVal → Bool} (std : Std) (cfg : Option MetaCfg) :
    ∀ (fields : List (S × Ty × Option Dflt)) (xs : List JVal) (ys : List PyVal),
    (∀ f ∈ fields, ∀ o z, loadD std cfg f.2.1 o = .ok z → Sound C f.2.1 z) →
    loadNtList std cfg fields xs = .ok ys → ys.length ≤ fields.length ∧ ∀ p ∈ fields.zip ys, Sound C p.1.2.1 p.2
  | [], xs, ys, _, h => by
    simp only [loadNtList, pure, Except.pure, Except.ok.injEq] at h; subst h; simp
  | f :: fs, [], ys, _, h => by
    simp only [loadNtList, pure, Except.pure, Except.ok.injEq] at h; subst h; simp
  | (n, t, d) :: fs, x :: xs, ys, ih, h => by
    simp only [loadNtList, bind, Except.bind] at h
    split at h
    · simp at h
    · next y hy =>
      split at h
      · simp at h
      · next ys' hys =>
        simp only [pure, Except.pure, Except.ok.injEq] at h; subst h
        obtain ⟨h1, h2⟩ := loadNtList_sound std cfg fs xs ys' (fun f hf => ih f (by simp [hf])) hys
        refine ⟨by simp; omega, ?_⟩
        intro p hp
        simp only [List.zip_cons_cons, List.mem_cons] at hp
        rcases hp with rfl | hp
        · exact ih (n, t, d) (by simp) x y hy
        · exact h2 p hp

theorem loadNtField_sound {C : Ty → PyVal → Bool} (std : Std) (cfg : Option MetaCfg) (k : S) (v : JVal) (y : PyVal) :
    ∀ (fields : List (S × Ty × Option Dflt)), (∀ f ∈ fields, ∀ o z, loadD std cfg f.2.1 o = .ok z → Sound C f.2.1 z) →
      loadNtField std cfg k v fields = .ok y → ∃ f ∈ fields, f.1 = k ∧ Sound C f.2.1 y
  | [], _, h => by simp [loadNtField, rawE] at h
  | (n, t, d) :: r, ih, h => by
    rw [loadNtField] at h
    by_cases hn : (n == k) = true
    · simp only [hn, if_true] at h
      exact ⟨(n, t, d), by simp, by simpa using hn, ih (n, t, d) (by simp) v y h⟩
    · have hb : (n == k) = false := by simpa using hn
      simp only [hb, Bool.false_eq_true, if_false] at h
      obtain ⟨f, hf, hk, hs⟩ := loadNtField_sound std cfg k v y r (fun f hf => ih f (by simp [hf])) h
      exact ⟨f, by simp [hf], hk, hs⟩

/-- `base_type(**kwargs)`: every element is a supplied keyword value for that field, or the field's default -/
theorem ntFill_spec (vals : List (S × PyVal)) : ∀ (L : List (S × Option Dflt)) (xs : List PyVal), ntFill vals L = .ok xs →
    xs.length = L.length ∧ ∀ p ∈ L.zip xs, (∃ q ∈ vals, q.1 = p.1.1 ∧ q.2 = p.2) ∨ p.1.2.map Dflt.toPy = some p.2
  | [], xs, h => by
    simp only [ntFill, pure, Except.pure, Except.ok.injEq] at h; subst h; simp
  | (n, d) :: r, xs, h => by
    unfold ntFill at h
    cases hfind : vals.reverse.find? (fun p => p.1 == n) with
    | some p =>
      rw [hfind] at h
      simp only [bind, Except.bind] at h
      split at h
      · simp at h
      · next rest hrest =>
        simp only [pure, Except.pure, Except.ok.injEq] at h; subst h
        obtain ⟨h1, h2⟩ := ntFill_spec vals r rest hrest
        refine ⟨by simp [h1], ?_⟩
        intro q hq
        simp only [List.zip_cons_cons, List.mem_cons] at hq
        rcases hq with rfl | hq
        · have hm := List.mem_of_find?_eq_some hfind
          have hk : p.1 = n := by simpa using List.find?_some hfind
          exact Or.inl ⟨p, List.mem_reverse.1 hm, hk, rfl⟩
        · exact h2 q hq
    | none =>
      rw [hfind] at h
      cases d with
      | none => simp [rawE] at h
      | some dv =>
        simp only [bind, Except.bind] at h
        split at h
        · simp at h
        · next rest hrest =>
          simp only [pure, Except.pure, Except.ok.injEq] at h; subst h
          obtain ⟨h1, h2⟩ := ntFill_spec vals r rest hrest
          refine ⟨by simp [h1], ?_⟩
          intro q hq
          simp only [List.zip_cons_cons, List.mem_cons] at hq
          rcases hq with rfl | hq
          · exact Or.inr rfl
          · exact h2 q hq

theorem zip_map_left' {α β γ : Type} (f : α → γ) : ∀ (l : List α) (r : List β),
    (l.map f).zip r = (l.zip r).map (fun p => (f p.1, p.2))
  | [], r => by simp
  | a :: l, [] => by simp
  | a :: l, b :: r => by simp [zip_map_left' f l r]

/-- **soundness over the fragment** -/
theorem sound (std : Std) (cfg : Option MetaCfg) (t : Ty) (hf : Frag t) : ∀ (o : JVal) (y : PyVal),
    loadD std cfg t o = .ok y → Sound conformsScalar t y := by
  induction hf with
  | scalar t ht => intro o y h; exact Sound.scalar t y (sound_scalar std cfg t ht o y h)
  | any => intro o y h; exact Sound.any y
  | optional t _ ih =>
    intro o y h
    cases o with
    | null => simp only [loadD, pure, Except.pure, Except.ok.injEq] at h; subst h; exact Sound.optNone t
    | bool b => exact Sound.optSome t y (ih _ y (by simpa [loadD] using h))
    | int i => exact Sound.optSome t y (ih _ y (by simpa [loadD] using h))
    | float f => exact Sound.optSome t y (ih _ y (by simpa [loadD] using h))
    | str s => exact Sound.optSome t y (ih _ y (by simpa [loadD] using h))
    | list xs => exact Sound.optSome t y (ih _ y (by simpa [loadD] using h))
    | dict kvs => exact Sound.optSome t y (ih _ y (by simpa [loadD] using h))
  | seq k t _ ih =>
    intro o y h
    rw [loadD] at h
    split at h
    · simp [rawE] at h
    · next xs _ =>
      simp only [bind, Except.bind] at h
      split at h
      · simp at h
      · next ys hys =>
        exact mkSeq_sound t k ys y (mapME_all _ (Sound conformsScalar t) (fun x z hz => ih x z hz) xs ys hys) h
  | vtuple t _ ih =>
    intro o y h
    rw [loadD] at h
    split at h
    · simp [rawE] at h
    · next xs _ =>
      simp only [bind, Except.bind] at h
      split at h
      · simp at h
      · next ys hys =>
        simp only [pure, Except.pure, Except.ok.injEq] at h; subst h
        exact Sound.vtuple t ys (mapME_all _ (Sound conformsScalar t) (fun x z hz => ih x z hz) xs ys hys)
  | map k kt vt _ _ ihk ihv =>
    intro o y h
    cases o with
    | dict kvs =>
      rw [loadD] at h
      simp only [bind, Except.bind] at h
      split at h
      · simp at h
      · next ps hps =>
        refine mkMap_sound kt vt k ps y ?_ h
        refine mapME_all _ (fun p : PyVal × PyVal => Sound conformsScalar kt p.1 ∧ Sound conformsScalar vt p.2) ?_ kvs ps hps
        intro kv p hp
        split at hp
        · simp at hp
        · next k' hk' =>
          split at hp
          · simp at hp
          · next v' hv' =>
            simp only [pure, Except.pure, Except.ok.injEq] at hp; subst hp
            exact ⟨ihk _ k' hk', ihv _ v' hv'⟩
    | null => simp [loadD, rawE] at h
    | bool _ => simp [loadD, rawE] at h
    | int _ => simp [loadD, rawE] at h
    | float _ => simp [loadD, rawE] at h
    | str _ => simp [loadD, rawE] at h
    | list _ => simp [loadD, rawE] at h
  | cls ci ftys _ ih =>
    intro o y h
    rw [loadD] at h
    have hFL : ∀ f v z, loadField std cfg f v ftys = .ok z → ∃ t, tyOf ftys f = some t ∧ Sound conformsScalar t z :=
      fun f v z hz => loadField_sound std cfg f v z ftys (fun p hp o' z' hz' => ih p hp o' z' hz') hz
    cases o with
    | null => simp [loadClassWith] at h
    | dict kvs =>
      simp only [loadClassWith, bind, Except.bind] at h
      split at h
      · simp at h
      · next res hres =>
        obtain ⟨kw, ca⟩ := res
        simp only at h
        exact finishClass_sound ci ftys kw ca _ y
          (loadKeysWith_sound _ (fun f z => ∃ t, tyOf ftys f = some t ∧ Sound conformsScalar t z) hFL _ ci kvs kw ca hres) h
    | list xs => simp only [loadClassWith] at h; exact loadJunkKeys_sound _ ci ftys _ y xs h
    | str s => simp only [loadClassWith] at h; exact loadJunkKeys_sound _ ci ftys _ y _ h
    | bool _ => simp [loadClassWith] at h
    | int _ => simp [loadClassWith] at h
    | float _ => simp [loadClassWith] at h
  | union ts _ ih =>
    intro o y h
    rw [loadD] at h
    split at h
    · next hc =>
      simp only [pure, Except.pure, Except.ok.injEq] at h; subst h
      refine Sound.unionNone ts ?_
      have hany := (Bool.and_eq_true_iff.1 hc).2
      obtain ⟨t, ht, hm⟩ := List.any_eq_true.1 hany
      exact List.any_eq_true.2 ⟨t, ht, by cases t <;> simp_all [isNoneArg]⟩
    · split at h
      · next r hr =>
        obtain ⟨t, ht, hn, hl⟩ := loadUnionTry_origin std cfg o y ts r hr h
        exact Sound.union ts t y ht hn (ih t ht hn o y hl)
      · cases o with
        | dict kvs =>
          simp only at h
          split at h
          · simp [parseE] at h
          · next tagv _ =>
            cases tagv with
            | str tg =>
              simp only at h
              obtain ⟨ci, ftys, hm, hl⟩ := loadTagged_origin std cfg tg _ y ts h
              exact Sound.union ts _ y hm rfl (ih _ hm rfl _ y hl)
            | null => simp [parseE] at h
            | bool _ => simp [parseE] at h
            | int _ => simp [parseE] at h
            | float _ => simp [parseE] at h
            | list _ => simp [rawE] at h
            | dict _ => simp [rawE] at h
        | null => simp [parseE] at h
        | bool _ => simp [parseE] at h
        | int _ => simp [parseE] at h
        | float _ => simp [parseE] at h
        | str _ => simp [parseE] at h
        | list _ => simp [parseE] at h
  | tuple ts hne hacc _ ih =>
    intro o y h
    rw [loadD] at h
    split at h
    · next n xs hn hx =>
      have hemp : ts.isEmpty = false := by cases ts <;> simp_all
      have hreq : (ts.filter (fun t => !acceptsNone t)).length = ts.length :=
        filter_all_length _ _ (fun t ht => by simp [hacc t ht])
      simp only [hemp, hreq, Bool.false_eq_true, if_false] at h
      split at h
      · next hc =>
        simp only [bind, Except.bind] at h
        split at h
        · simp at h
        · next ys hys =>
          simp only [pure, Except.pure, Except.ok.injEq] at h; subst h
          have hlen := jLen_jIter o n xs hn hx
          have hle : ts.length ≤ xs.length := by
            simp only [Bool.and_eq_true, decide_eq_true_eq] at hc; omega
          obtain ⟨h1, h2⟩ := loadZip_sound std cfg ts xs ys ih hle hys
          exact Sound.tuple ts ys h1 h2
      · simp [parseE] at h
    · simp [rawE] at h
  | typeddict name fields hnd _ ih =>
    intro o y h
    have hjunk : tdJunk fields o = .ok y → Sound conformsScalar (.typeddict name fields) y := by
      intro hj
      obtain ⟨rfl, hany⟩ := tdJunk_ok fields o y hj
      refine Sound.typeddict name fields [] (by simp) (by simp) ?_
      intro f hf hr
      have := List.any_eq_false.1 hany f hf
      simp [hr] at this
    cases o with
    | dict kvs =>
      rw [loadD] at h
      split at h
      · next ps hps =>
        simp only [pure, Except.pure, Except.ok.injEq] at h; subst h
        obtain ⟨h1, h2⟩ := loadTd_sound std cfg kvs fields fields ps ih (fun f hf => hf) hps
        refine Sound.typeddict name fields ps ?_ ?_ h2
        · intro p hp; obtain ⟨f, hf, hk, _⟩ := h1 p hp; exact ⟨f, hf, hk⟩
        · intro p hp f hf hk
          obtain ⟨f', hf', hk', hs⟩ := h1 p hp
          have : f' = f := nodup_key_inj (fun g : S × Ty × Bool => g.1) fields hnd f' hf' f hf (by
            rw [hk] at hk'; exact (PyVal.str.inj hk').symm)
          subst this; exact hs
      · next e hk =>
        split at h
        · simp [parseE] at h
        · simp at h
      · simp at h
    | null =>
      rw [loadD] at h
      exact hjunk h
      all_goals (intros; rename_i hh; cases hh)
    | bool _ =>
      rw [loadD] at h
      exact hjunk h
      all_goals (intros; rename_i hh; cases hh)
    | int _ =>
      rw [loadD] at h
      exact hjunk h
      all_goals (intros; rename_i hh; cases hh)
    | float _ =>
      rw [loadD] at h
      exact hjunk h
      all_goals (intros; rename_i hh; cases hh)
    | str _ =>
      rw [loadD] at h
      exact hjunk h
      all_goals (intros; rename_i hh; cases hh)
    | list _ =>
      rw [loadD] at h
      exact hjunk h
      all_goals (intros; rename_i hh; cases hh)
  | ntuple name fields hnd _ ih =>
    intro o y h
    have hlist : ∀ xs' : List JVal,
        (do let ys ← loadNtList std cfg fields xs'
            let rest := fields.drop ys.length
            if rest.all (fun f => f.2.2.isSome) then
              pure (PyVal.ntuple name (fields.map (fun f : S × Ty × Option Dflt => f.1))
                (ys ++ rest.filterMap (fun f : S × Ty × Option Dflt => f.2.2.map Dflt.toPy)))
            else rawE "TypeError") = .ok y → Sound conformsScalar (.ntuple name fields) y := by
      intro xs' h'
      simp only [bind, Except.bind] at h'
      split at h'
      · simp at h'
      · next ys hys =>
        split at h'
        · next hall =>
          simp only [pure, Except.pure, Except.ok.injEq] at h'; subst h'
          obtain ⟨hle, hs⟩ := loadNtList_sound std cfg fields xs' ys ih hys
          obtain ⟨hd1, hd2⟩ := filterMap_defaults (fun f => f.2.2.map Dflt.toPy) (fun _ => rfl) (fields.drop ys.length) hall
          have hsplit : fields = fields.take ys.length ++ fields.drop ys.length := (List.take_append_drop _ _).symm
          have htl : (fields.take ys.length).length = ys.length := by simp; omega
          refine Sound.ntuple name fields _ ?_ ?_
          · simp [hd1]; omega
          · intro p hp hnd'
            have hz : fields.zip (ys ++ (fields.drop ys.length).filterMap (fun f : S × Ty × Option Dflt => f.2.2.map Dflt.toPy))
                = (fields.take ys.length).zip ys ++ (fields.drop ys.length).zip
                    ((fields.drop ys.length).filterMap (fun f : S × Ty × Option Dflt => f.2.2.map Dflt.toPy)) := by
              have hza := List.zip_append (r₁ := fields.drop ys.length)
                (r₂ := (fields.drop ys.length).filterMap (fun f : S × Ty × Option Dflt => f.2.2.map Dflt.toPy)) htl
              rw [List.take_append_drop] at hza
              exact hza
            rw [hz] at hp
            rcases List.mem_append.1 hp with hp | hp
            · rw [zip_take_left] at hp
              exact hs p hp
            · exact absurd (hd2 p hp) hnd'
        · simp [rawE] at h'
    cases o with
    | dict kvs =>
      rw [loadD] at h
      simp only [bind, Except.bind] at h
      split at h
      · simp at h
      · next vals hvals =>
        split at h
        · simp at h
        · next xs hxs =>
          simp only [pure, Except.pure, Except.ok.injEq] at h; subst h
          have hA : ∀ q ∈ vals, ∃ f ∈ fields, f.1 = q.1 ∧ Sound conformsScalar f.2.1 q.2 := by
            refine mapME_all _ (fun q : S × PyVal => ∃ f ∈ fields, f.1 = q.1 ∧ Sound conformsScalar f.2.1 q.2) ?_ kvs vals hvals
            intro kv q hq
            split at hq
            · simp at hq
            · next y' hy' =>
              simp only [pure, Except.pure, Except.ok.injEq] at hq; subst hq
              exact loadNtField_sound std cfg kv.1 kv.2 y' fields ih hy'
          obtain ⟨h1, h2⟩ := ntFill_spec vals _ xs hxs
          refine Sound.ntuple name fields xs (by simpa using h1) ?_
          intro p hp hnd'
          have hp' : ((p.1.1, p.1.2.2), p.2) ∈ (fields.map (fun f => (f.1, f.2.2))).zip xs := by
            rw [zip_map_left']; exact List.mem_map.2 ⟨p, hp, rfl⟩
          rcases h2 _ hp' with ⟨q, hq, hk, hv⟩ | hdef
          · obtain ⟨f, hf, hfk, hs⟩ := hA q hq
            have hpf : p.1 ∈ fields := (List.of_mem_zip hp).1
            have : f = p.1 := nodup_key_inj (fun g : S × Ty × Option Dflt => g.1) fields hnd f hf p.1 hpf (by rw [hfk, hk])
            subst this
            simp only at hv
            rw [← hv]; exact hs
          · exact absurd hdef hnd'
    | null =>
      rw [loadD] at h
      · simp [jIter, rawE] at h
      all_goals (intros; rename_i hh; cases hh)
    | bool _ =>
      rw [loadD] at h
      · simp [jIter, rawE] at h
      all_goals (intros; rename_i hh; cases hh)
    | int _ =>
      rw [loadD] at h
      · simp [jIter, rawE] at h
      all_goals (intros; rename_i hh; cases hh)
    | float _ =>
      rw [loadD] at h
      · simp [jIter, rawE] at h
      all_goals (intros; rename_i hh; cases hh)
    | str s =>
      rw [loadD] at h
      · exact hlist _ (by simpa [jIter] using h)
      all_goals (intros; rename_i hh; cases hh)
    | list xs =>
      rw [loadD] at h
      · exact hlist _ (by simpa [jIter] using h)
      all_goals (intros; rename_i hh; cases hh)

end DW.Props.C05