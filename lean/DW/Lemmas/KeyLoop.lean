/- The key loop of the generated default-engine loader, seen from the document: which keyword arguments it hands to the
constructor step, and how a run over a sub-document relates to a run over the whole document (C09: key deletion). -/
import DW.Model.Load
namespace DW.KeyLoop
open DW

/-- the keyword arguments the key loop collects: for every key that resolves to a field and whose value its loader
accepts, the field name with the converted value, in document order -/
def loadedPairs (fl : S → JVal → LRes) (eff : MetaCfg) (ci : ClassInfo) : List (S × JVal) → List (S × PyVal)
  | [] => []
  | (k, v) :: r =>
    match resolveKey eff ci k with
    | .ok (.field f) =>
      (match fl f v with
       | .ok y => (f, y) :: loadedPairs fl eff ci r
       | .error _ => loadedPairs fl eff ci r)
    | _ => loadedPairs fl eff ci r

/-- the fields the keys of a document resolve to, in document order -/
def resolvedFields (eff : MetaCfg) (ci : ClassInfo) : List (S × JVal) → List S
  | [] => []
  | (k, _) :: r =>
    match resolveKey eff ci k with
    | .ok (.field f) => f :: resolvedFields eff ci r
    | _ => resolvedFields eff ci r

/-- a successful run of the key loop returns exactly `loadedPairs`, and every key that resolved to a field was accepted -/
theorem loadKeysWith_ok (fl : S → JVal → LRes) (eff : MetaCfg) (ci : ClassInfo) :
    ∀ (kvs : List (S × JVal)) (kw : List (S × PyVal)) (ca : List (PyVal × PyVal)),
    loadKeysWith fl eff ci kvs = .ok (kw, ca) →
    kw = loadedPairs fl eff ci kvs ∧ kw.map (·.1) = resolvedFields eff ci kvs
  | [], kw, ca, h => by
    simp only [loadKeysWith, pure, Except.pure, Except.ok.injEq, Prod.mk.injEq] at h
    obtain ⟨rfl, rfl⟩ := h
    simp [loadedPairs, resolvedFields]
  | (k, v) :: r, kw, ca, h => by
    simp only [loadKeysWith, bind, Except.bind] at h
    cases hr : resolveKey eff ci k with
    | error e => simp [hr] at h
    | ok res =>
      simp only [hr] at h
      cases res with
      | field f =>
        simp only at h
        cases hf : fl f v with
        | error e => simp [hf, Except.mapError] at h
        | ok y =>
          simp only [hf, Except.mapError] at h
          cases hrest : loadKeysWith fl eff ci r with
          | error e => simp [hrest] at h
          | ok p =>
            obtain ⟨kw', ca'⟩ := p
            simp only [hrest, pure, Except.pure, Except.ok.injEq, Prod.mk.injEq] at h
            obtain ⟨rfl, rfl⟩ := h
            obtain ⟨h1, h2⟩ := loadKeysWith_ok fl eff ci r kw' ca' hrest
            simp [loadedPairs, resolvedFields, hr, hf, ← h1, h2]
      | ignored =>
        simp only at h
        obtain ⟨h1, h2⟩ := loadKeysWith_ok fl eff ci r kw ca h
        simp [loadedPairs, resolvedFields, hr, ← h1, h2]
      | unknown =>
        simp only at h
        split at h
        · simp at h
        · cases hrest : loadKeysWith fl eff ci r with
          | error e => simp [hrest] at h
          | ok p =>
            obtain ⟨kw', ca'⟩ := p
            simp only [hrest] at h
            obtain ⟨h1, h2⟩ := loadKeysWith_ok fl eff ci r kw' ca' hrest
            split at h <;>
              (simp only [pure, Except.pure, Except.ok.injEq, Prod.mk.injEq] at h
               obtain ⟨rfl, _⟩ := h
               simp [loadedPairs, resolvedFields, hr, ← h1, h2])

/-- the key loop treats every key on its own: when it gets through a document it gets through every sub-document -/
theorem loadKeysWith_filter (fl : S → JVal → LRes) (eff : MetaCfg) (ci : ClassInfo) (keep : S → Bool) :
    ∀ (kvs : List (S × JVal)) (r : List (S × PyVal) × List (PyVal × PyVal)),
    loadKeysWith fl eff ci kvs = .ok r →
    ∃ r', loadKeysWith fl eff ci (kvs.filter (fun kv => keep kv.1)) = .ok r'
  | [], r, _ => ⟨([], []), by simp [loadKeysWith, pure, Except.pure]⟩
  | (k, v) :: rest, r, h => by
    have hrest : ∃ r0, loadKeysWith fl eff ci rest = .ok r0 := by
      simp only [loadKeysWith, bind, Except.bind] at h
      cases hr : resolveKey eff ci k with
      | error e => simp [hr] at h
      | ok res =>
        simp only [hr] at h
        cases res with
        | field f =>
          simp only at h
          cases hf : (fl f v).mapError (setAttribution ci.name f) with
          | error e => simp [hf] at h
          | ok y =>
            simp only [hf] at h
            cases hx : loadKeysWith fl eff ci rest with
            | error e => simp [hx] at h
            | ok p => exact ⟨p, rfl⟩
        | ignored => exact ⟨r, h⟩
        | unknown =>
          simp only at h
          split at h
          · simp at h
          · cases hx : loadKeysWith fl eff ci rest with
            | error e => simp [hx] at h
            | ok p => exact ⟨p, rfl⟩
    obtain ⟨r0, hr0⟩ := hrest
    obtain ⟨r1, hr1⟩ := loadKeysWith_filter fl eff ci keep rest r0 hr0
    simp only [List.filter_cons]
    split
    · -- the key is kept: its own step succeeds as it did in the whole document
      simp only [loadKeysWith, bind, Except.bind] at h ⊢
      cases hr : resolveKey eff ci k with
      | error e => simp [hr] at h
      | ok res =>
        simp only [hr] at h ⊢
        cases res with
        | field f =>
          simp only at h ⊢
          cases hf : (fl f v).mapError (setAttribution ci.name f) with
          | error e => simp [hf] at h
          | ok y =>
            obtain ⟨kw1, ca1⟩ := r1
            simp only [hr1, pure, Except.pure]
            exact ⟨_, rfl⟩
        | ignored => exact ⟨r1, hr1⟩
        | unknown =>
          simp only at h ⊢
          split at h
          · simp at h
          · next hraise =>
            obtain ⟨kw1, ca1⟩ := r1
            simp only [hraise, hr1, if_false, Bool.false_eq_true]
            split <;> exact ⟨_, rfl⟩
    · exact ⟨r1, hr1⟩

end DW.KeyLoop
