/-
Lemmas about the EnvWizard `__init__` generator model `DW/Model/GenEnv.lean`: the body is well scoped for every class - whatever the
fields are called, including names the template uses itself (a field is a parameter: it is bound from the start).
-/
import DW.Model.GenEnv
import DW.Lemmas.GenLoadPy

namespace DW.GenEnv
open DW.Names
open DW.GenLoad (Part Stmt Scope Flow t checkList checkParts checkElifs checkElse writesList writesElifs writesElse asNames
  safePrefixWrites checkList_append writesList_append DefaultKind)

/-- the names the body binds -/
def fixedW : List S := [t "_vars", t "_name", t "_env_var", t "_var_name", t "e"]

/-! ### plain `if` statements: single lines that bind nothing -/

theorem mem_filter_self (l : List S) (n : S) : n ∈ l.filter l.contains ↔ n ∈ l := by
  simp [List.mem_filter]

theorem check_if_else (sc : Scope) (asg cr : List S) (c : S) (q1 q2 : Part) (h0 : sc.readsOk asg cr = true)
    (h1 : sc.readsOk asg q1.reads = true) (h2 : sc.readsOk asg q2.reads = true) (w1 : q1.writes = []) (w2 : q2.writes = []) :
    ∃ a, Stmt.check sc asg (.if_ c cr [.line [q1]] [] (some [.line [q2]])) = some (some a) ∧ ∀ n, n ∈ a ↔ n ∈ asg := by
  refine ⟨_, by simp only [Stmt.check, h0, checkList, checkParts, h1, h2, w1, w2, checkElifs, checkElse, Flow.meet, Option.map,
    if_true, List.nil_append]; rfl, ?_⟩
  intro n; simp [List.mem_filter]

theorem check_if_only (sc : Scope) (asg cr : List S) (c : S) (q1 : Part) (h0 : sc.readsOk asg cr = true)
    (h1 : sc.readsOk asg q1.reads = true) (w1 : q1.writes = []) :
    ∃ a, Stmt.check sc asg (.if_ c cr [.line [q1]] [] none) = some (some a) ∧ ∀ n, n ∈ a ↔ n ∈ asg := by
  refine ⟨_, by simp only [Stmt.check, h0, checkList, checkParts, h1, w1, checkElifs, checkElse, Flow.meet, Option.map,
    if_true, List.nil_append]; rfl, ?_⟩
  intro n; simp [List.mem_filter]

theorem check_if_elif (sc : Scope) (asg cr cr2 : List S) (c c2 : S) (q1 q2 : Part) (h0 : sc.readsOk asg cr = true)
    (h0' : sc.readsOk asg cr2 = true)
    (h1 : sc.readsOk asg q1.reads = true) (h2 : sc.readsOk asg q2.reads = true) (w1 : q1.writes = []) (w2 : q2.writes = []) :
    ∃ a, Stmt.check sc asg (.if_ c cr [.line [q1]] [(c2, cr2, [.line [q2]])] none) = some (some a) ∧ ∀ n, n ∈ a ↔ n ∈ asg := by
  refine ⟨_, by simp only [Stmt.check, h0, h0', checkList, checkParts, h1, h2, w1, w2, checkElifs, checkElse, Flow.meet, Option.map,
    if_true, List.nil_append]; rfl, ?_⟩
  intro n; simp [List.mem_filter]


/-! ### what the body binds, what it may read -/

theorem elsePart_writes (f : EField) : (elsePart f).writes = [] := by
  unfold elsePart; cases f.dflt <;> rfl

theorem writes_field (p : Char → Bool) (f : EField) : writesList (fieldStmts p f) = [t "_name", t "_env_var", t "_var_name"] := by
  simp [fieldStmts, writesList, Stmt.writes, writesElifs, writesElse, elsePart_writes]

theorem writes_allFields (p : Char → Bool) : ∀ (fs : List EField) (n : S), n ∈ writesList (allFieldStmts p fs) → n ∈ fixedW
  | [], n, h => by simp [allFieldStmts, writesList] at h
  | f :: r, n, h => by
    simp only [allFieldStmts, writesList_append, List.mem_append, writes_field] at h
    rcases h with h | h
    · simp [fixedW] at h ⊢; rcases h with h | h | h <;> simp [h]
    · exact writes_allFields p r n h

theorem writes_head (g : EIn) : writesList (headStmts g) = [t "_vars"] := by
  cases h : g.envFile <;> simp [headStmts, h, envLine, writesList, Stmt.writes, writesElifs, writesElse]

/-- every name the generated body binds is one of five fixed locals -/
theorem writes_fixed (p : Char → Bool) (g : EIn) : ∀ n ∈ writesList (genBody p g), n ∈ fixedW := by
  intro n hn
  simp only [genBody, writesList_append, List.mem_append, writes_head] at hn
  rcases hn with h | h | h
  · simp [fixedW] at h ⊢; simp [h]
  · unfold fieldBlock at h
    cases hf : g.fields with
    | nil => simp [hf, writesList] at h
    | cons f r =>
      simp only [hf, writesList, Stmt.writes, asNames, handlerStmts, List.append_nil, List.mem_append] at h
      rcases h with (h | h) | h
      · exact writes_allFields p _ n h
      · simp at h; simp [fixedW, h]
      · simp [writesList, Stmt.writes] at h
  · simp [tailStmts, writesList, Stmt.writes, writesElifs, writesElse] at h

/-- a name the body may take from outside: in the closure or the globals, and not one the body binds -/
def Outer (g : EIn) (n : S) : Prop := n ∈ genLocals g ++ genGlobals g ∧ n ∉ fixedW

theorem readOk_in (sc : Scope) (asg : List S) (n : S) (h : n ∈ asg) : sc.readOk asg n = true := by
  simp [Scope.readOk, h]

/-- an outside name is readable: when a field is called like it, the field is a parameter and bound from the start -/
theorem readOk_outer (p : Char → Bool) (g : EIn) (asg : List S) (n : S) (hp : ∀ m ∈ params g, m ∈ asg) (h : Outer g n) :
    (genScope p g).readOk asg n = true := by
  by_cases hl : n ∈ (genScope p g).locals
  · simp only [genScope, List.mem_append] at hl
    rcases hl with hl | hl
    · exact readOk_in _ _ _ (hp n hl)
    · exact absurd (writes_fixed p g n hl) h.2
  · have ho : n ∈ (genScope p g).outer := h.1
    simp [Scope.readOk, hl, ho]

theorem readsOk_of (p : Char → Bool) (g : EIn) (asg ns : List S) (hp : ∀ m ∈ params g, m ∈ asg)
    (h : ∀ n ∈ ns, n ∈ asg ∨ Outer g n) : (genScope p g).readsOk asg ns = true := by
  unfold Scope.readsOk
  rw [List.all_eq_true]
  intro n hn
  rcases h n hn with h | h
  · exact readOk_in _ _ _ h
  · exact readOk_outer p g asg n hp h

/-- the fixed outside names of the template -/
def okFixed : List S :=
  [t "Env", t "ParseError", t "get_env", t "lookup_exact", t "MissingVars", t "add", t "cls", t "handle_err", t "MISSING"]

theorem outer_fixed (g : EIn) : ∀ n ∈ okFixed, Outer g n := by
  intro n hn
  refine ⟨?_, ?_⟩
  · simp only [okFixed, List.mem_cons, List.not_mem_nil, or_false] at hn
    simp only [genLocals, genGlobals, List.mem_append, List.mem_cons]
    rcases hn with h | h | h | h | h | h | h | h | h <;> simp [h]
  · have : ∀ m ∈ okFixed, m ∉ fixedW := by decide
    exact this n hn

theorem outer_dotenv (g : EIn) (h : g.envFile = true) : Outer g (t "_dotenv_values") := by
  refine ⟨?_, by decide⟩
  simp [genLocals, genGlobals, h]

theorem mem_fieldGlobals (g : EIn) (f : EField) (hf : f ∈ g.fields) (n : S) (hn : n ∈ fieldGlobals f) :
    n ∈ genLocals g ++ genGlobals g := by
  simp only [genGlobals, List.mem_append, List.mem_flatMap]
  exact Or.inr (Or.inr ⟨f, hf, hn⟩)

theorem tp_not_fixed (n : S) : tpName n ∉ fixedW := by
  have h : tpName n = '_' :: 't' :: 'p' :: '_' :: n := rfl
  rw [h]; simp [fixedW, t]

theorem parser_not_fixed (n : S) : parserName n ∉ fixedW := by
  have h : parserName n = '_' :: 'p' :: 'a' :: 'r' :: 's' :: 'e' :: 'r' :: '_' :: n := rfl
  rw [h]; simp [fixedW, t]

theorem dflt_not_fixed (n : S) : dfltName n ∉ fixedW := by
  have h : dfltName n = '_' :: 'd' :: 'f' :: 'l' :: 't' :: '_' :: n := rfl
  rw [h]; simp [fixedW, t]

theorem outer_tp (g : EIn) (f : EField) (hf : f ∈ g.fields) : Outer g (tpName f.name) :=
  ⟨mem_fieldGlobals g f hf _ (by simp [fieldGlobals]), tp_not_fixed _⟩

theorem outer_parser (g : EIn) (f : EField) (hf : f ∈ g.fields) : Outer g (parserName f.name) :=
  ⟨mem_fieldGlobals g f hf _ (by simp [fieldGlobals]), parser_not_fixed _⟩

theorem outer_dflt (g : EIn) (f : EField) (hf : f ∈ g.fields) (hd : f.dflt ≠ .none) : Outer g (dfltName f.name) :=
  ⟨mem_fieldGlobals g f hf _ (by cases h : f.dflt <;> simp_all [fieldGlobals]), dflt_not_fixed _⟩

theorem outer_lookup (g : EIn) (f : EField) : Outer g (lookupFn f) := by
  unfold lookupFn
  cases f.var <;> exact outer_fixed g _ (by simp [okFixed])


/-! ### the parts of the body -/

theorem mem_params_fixed (g : EIn) (n : S) (h : n ∈ fixedParams) : n ∈ params g := by
  simp [params, h]

/-- reload / secrets / dotenv / `_vars = []` -/
theorem head_ok (p : Char → Bool) (g : EIn) (asg : List S) (hp : ∀ m ∈ params g, m ∈ asg) :
    ∃ a, checkList (genScope p g) asg (headStmts g) = some (some a) ∧ ∀ n, n ∈ a ↔ (n = t "_vars" ∨ n ∈ asg) := by
  have rd : ∀ (x : List S) (ns : List S), (∀ n, n ∈ x ↔ n ∈ asg) → (∀ n ∈ ns, n ∈ fixedParams ∨ Outer g n) →
      (genScope p g).readsOk x ns = true := by
    intro x ns hx h
    refine readsOk_of p g x ns (fun m hm => (hx m).2 (hp m hm)) (fun n hn => ?_)
    rcases h n hn with h | h
    · exact Or.inl ((hx n).2 (hp n (mem_params_fixed g n h)))
    · exact Or.inr h
  have oEnv : Outer g (t "Env") := outer_fixed g _ (by simp [okFixed])
  -- 1: if _reload / else
  obtain ⟨a1, h1, m1⟩ := check_if_else (genScope p g) asg [t "_reload"] (t "_reload")
    { text := t "Env.reload()", reads := ["Env"].map t } { text := t "Env.load_environ()", reads := ["Env"].map t }
    (rd asg _ (fun _ => Iff.rfl) (by simp [fixedParams]))
    (rd asg _ (fun _ => Iff.rfl) (by simp [oEnv])) (rd asg _ (fun _ => Iff.rfl) (by simp [oEnv])) rfl rfl
  -- 2: if _secrets_dir
  obtain ⟨a2, h2, m2⟩ := check_if_only (genScope p g) a1 [t "_secrets_dir"] (t "_secrets_dir")
    { text := t "Env.update_with_secret_values(_secrets_dir)", reads := ["Env", "_secrets_dir"].map t }
    (rd a1 _ m1 (by simp [fixedParams])) (rd a1 _ m1 (by simp [oEnv, fixedParams])) rfl
  have m12 : ∀ n, n ∈ a2 ↔ n ∈ asg := fun n => (m2 n).trans (m1 n)
  -- 3: the dotenv file(s)
  have h3 : ∃ a3, Stmt.check (genScope p g) a2 (if g.envFile then
      .if_ (t "_env_file is None") [t "_env_file"] [envLine "Env.update_with_dotenv(dotenv_values=_dotenv_values)" ["Env", "_dotenv_values"]]
        [(t "_env_file", [t "_env_file"], [envLine "Env.update_with_dotenv(_env_file)" ["Env", "_env_file"]])] none
    else
      .if_ (t "_env_file") [t "_env_file"] [envLine "Env.update_with_dotenv(_env_file)" ["Env", "_env_file"]] [] none)
      = some (some a3) ∧ ∀ n, n ∈ a3 ↔ n ∈ asg := by
    cases he : g.envFile
    · obtain ⟨a3, h3, m3⟩ := check_if_only (genScope p g) a2 [t "_env_file"] (t "_env_file")
        { text := t "Env.update_with_dotenv(_env_file)", reads := ["Env", "_env_file"].map t }
        (rd a2 _ m12 (by simp [fixedParams])) (rd a2 _ m12 (by simp [oEnv, fixedParams])) rfl
      exact ⟨a3, by simpa [envLine] using h3, fun n => (m3 n).trans (m12 n)⟩
    · obtain ⟨a3, h3, m3⟩ := check_if_elif (genScope p g) a2 [t "_env_file"] [t "_env_file"] (t "_env_file is None") (t "_env_file")
        { text := t "Env.update_with_dotenv(dotenv_values=_dotenv_values)", reads := ["Env", "_dotenv_values"].map t }
        { text := t "Env.update_with_dotenv(_env_file)", reads := ["Env", "_env_file"].map t }
        (rd a2 _ m12 (by simp [fixedParams])) (rd a2 _ m12 (by simp [fixedParams]))
        (rd a2 _ m12 (by simp [oEnv, outer_dotenv g he])) (rd a2 _ m12 (by simp [oEnv, fixedParams])) rfl rfl
      exact ⟨a3, by simpa [envLine] using h3, fun n => (m3 n).trans (m12 n)⟩
  obtain ⟨a3, h3, m3⟩ := h3
  refine ⟨[t "_vars"] ++ a3, ?_, fun n => by simp [m3 n]⟩
  have e0 : (genScope p g).readsOk a3 ([] : List S) = true := rfl
  have h4 : Stmt.check (genScope p g) a3 (.line [{ text := t "_vars = []", writes := [t "_vars"] }]) = some (some ([t "_vars"] ++ a3)) := by
    simp only [Stmt.check, checkParts, e0, if_true, Option.map]
  simp only [envLine] at h3
  simp only [headStmts, checkList, envLine, h1, h2, h3, h4]


/-- the two statements of one field -/
theorem field_ok (p : Char → Bool) (g : EIn) (f : EField) (asg : List S) (hf : f ∈ g.fields) (hp : ∀ m ∈ params g, m ∈ asg)
    (hv : t "_vars" ∈ asg) :
    ∃ a, checkList (genScope p g) asg (fieldStmts p f) = some (some a) ∧ ∀ n ∈ asg, n ∈ a := by
  have hfn : f.name ∈ params g := by
    simp only [params, fieldNames, List.mem_append, List.mem_map]
    exact Or.inr ⟨f, hf, rfl⟩
  have hpre : t "_env_prefix" ∈ params g := mem_params_fixed g _ (by simp [fixedParams])
  have hself : t "self" ∈ params g := mem_params_fixed g _ (by simp [fixedParams])
  -- the line: three bindings
  let a1 : List S := [t "_var_name"] ++ ([t "_env_var"] ++ ([t "_name"] ++ asg))
  have sub1 : ∀ n ∈ asg, n ∈ a1 := fun n hn => by simp [a1, hn]
  have hp1 : ∀ m ∈ params g, m ∈ a1 := fun m hm => sub1 m (hp m hm)
  have e0 : ∀ x : List S, (genScope p g).readsOk x ([] : List S) = true := fun _ => rfl
  have e1 : (genScope p g).readsOk ([t "_env_var"] ++ ([t "_name"] ++ asg)) [t "_env_prefix", t "_env_prefix"] = true :=
    readsOk_of p g _ _ (fun m hm => by simp [hp m hm]) (fun n hn => by
      simp only [List.mem_cons, List.not_mem_nil, or_false, or_self] at hn
      exact Or.inl (by rw [hn]; simp [hp _ hpre]))
  have hline : Stmt.check (genScope p g) asg
      (.line [{ text := t "_name=" ++ pyRepr p f.name, writes := [t "_name"], safe := true },
              { text := t "_env_var=" ++ f.var.repr p, writes := [t "_env_var"], safe := true },
              { text := t "_var_name=" ++ prefixed p f ++ t " if _env_prefix else " ++ varNameRepr p f,
                reads := [t "_env_prefix", t "_env_prefix"], writes := [t "_var_name"] }]) = some (some a1) := by
    simp only [Stmt.check, checkParts, e0, e1, if_true, Option.map, a1]
  -- the if / else
  have c0 : (genScope p g).readsOk a1 (condReads f) = true :=
    readsOk_of p g _ _ hp1 (fun n hn => by
      simp only [condReads, List.mem_cons, List.not_mem_nil, or_false] at hn
      rcases hn with h | h | h | h | h
      · exact Or.inl (by rw [h]; exact hp1 _ hfn)
      · exact Or.inr (by rw [h]; exact outer_fixed g _ (by simp [okFixed]))
      · exact Or.inr (by rw [h]; exact outer_lookup g f)
      · exact Or.inl (by rw [h]; simp [a1])
      · exact Or.inr (by rw [h]; exact outer_fixed g _ (by simp [okFixed])))
  have c1 : (genScope p g).readsOk a1 [parserName f.name, f.name, t "self"] = true :=
    readsOk_of p g _ _ hp1 (fun n hn => by
      simp only [List.mem_cons, List.not_mem_nil, or_false] at hn
      rcases hn with h | h | h
      · exact Or.inr (by rw [h]; exact outer_parser g f hf)
      · exact Or.inl (by rw [h]; exact hp1 _ hfn)
      · exact Or.inl (by rw [h]; exact hp1 _ hself))
  have c2 : (genScope p g).readsOk a1 (elsePart f).reads = true :=
    readsOk_of p g _ _ hp1 (fun n hn => by
      unfold elsePart at hn
      cases hd : f.dflt <;> simp only [hd, List.mem_cons, List.not_mem_nil, or_false] at hn
      · rcases hn with h | h | h | h | h | h
        · exact Or.inr (by rw [h]; exact outer_fixed g _ (by simp [okFixed]))
        · exact Or.inl (by rw [h]; exact sub1 _ hv)
        · exact Or.inl (by rw [h]; simp [a1])
        · exact Or.inl (by rw [h]; exact hp1 _ hpre)
        · exact Or.inl (by rw [h]; simp [a1])
        · exact Or.inr (by rw [h]; exact outer_tp g f hf)
      · rcases hn with h | h
        · exact Or.inr (by rw [h]; exact outer_dflt g f hf (by simp [hd]))
        · exact Or.inl (by rw [h]; exact hp1 _ hself)
      · rcases hn with h | h
        · exact Or.inr (by rw [h]; exact outer_dflt g f hf (by simp [hd]))
        · exact Or.inl (by rw [h]; exact hp1 _ hself))
  obtain ⟨a2, h2, m2⟩ := check_if_else (genScope p g) a1 (condReads f)
    (f.name ++ t " is not MISSING or (" ++ f.name ++ t " := " ++ lookupFn f ++ t "(_var_name)) is not MISSING")
    { text := t "self." ++ f.name ++ t " = " ++ parserName f.name ++ t "(" ++ f.name ++ t ")",
      reads := [parserName f.name, f.name, t "self"] } (elsePart f) c0 c1 c2 rfl (elsePart_writes f)
  refine ⟨a2, ?_, fun n hn => (m2 n).2 (sub1 n hn)⟩
  simp only [fieldStmts, checkList, hline, h2]

theorem fields_ok (p : Char → Bool) (g : EIn) : ∀ (fs : List EField) (asg : List S), (∀ f ∈ fs, f ∈ g.fields) →
    (∀ m ∈ params g, m ∈ asg) → t "_vars" ∈ asg →
    ∃ a, checkList (genScope p g) asg (allFieldStmts p fs) = some (some a) ∧ ∀ n ∈ asg, n ∈ a
  | [], asg, _, _, _ => ⟨asg, rfl, fun _ h => h⟩
  | f :: r, asg, hfs, hp, hv => by
    obtain ⟨a1, h1, s1⟩ := field_ok p g f asg (hfs f (by simp)) hp hv
    obtain ⟨a2, h2, s2⟩ := fields_ok p g r a1 (fun f' hf' => hfs f' (by simp [hf'])) (fun m hm => s1 m (hp m hm)) (s1 _ hv)
    refine ⟨a2, ?_, fun n hn => s2 n (s1 n hn)⟩
    simp only [allFieldStmts, checkList_append, h1, h2]

theorem mem_meet (a b asg : List S) (ha : ∀ n ∈ asg, n ∈ a) (hb : ∀ n ∈ asg, n ∈ b) : ∀ n ∈ asg, n ∈ a.filter b.contains := by
  intro n hn
  simp [List.mem_filter, ha n hn, hb n hn]

/-- the `try` block around the fields: when the handler runs, `_name` and `_env_var` of the first field are bound -/
theorem block_ok (p : Char → Bool) (g : EIn) (asg : List S) (hp : ∀ m ∈ params g, m ∈ asg) (hv : t "_vars" ∈ asg) :
    ∃ a, checkList (genScope p g) asg (fieldBlock p g) = some (some a) ∧ ∀ n ∈ asg, n ∈ a := by
  unfold fieldBlock
  cases hfs : g.fields with
  | nil => exact ⟨asg, rfl, fun _ h => h⟩
  | cons f r =>
    obtain ⟨a1, h1, s1⟩ := fields_ok p g (f :: r) asg (fun f' hf' => by rw [hfs]; exact hf') hp hv
    have hsp : safePrefixWrites (allFieldStmts p (f :: r)) = [t "_name", t "_env_var"] := by
      simp [allFieldStmts, fieldStmts, safePrefixWrites, List.takeWhile]
    let ah : List S := [t "_name", t "_env_var"] ++ asNames (some (t "e")) ++ asg
    have subh : ∀ n ∈ asg, n ∈ ah := fun n hn => by simp [ah, hn]
    have rh : (genScope p g).readsOk ah [t "handle_err", t "e", t "cls", t "_name", t "_env_prefix", t "_env_var"] = true :=
      readsOk_of p g _ _ (fun m hm => subh m (hp m hm)) (fun n hn => by
        simp only [List.mem_cons, List.not_mem_nil, or_false] at hn
        rcases hn with h | h | h | h | h | h
        · exact Or.inr (by rw [h]; exact outer_fixed g _ (by simp [okFixed]))
        · exact Or.inl (by rw [h]; simp [ah, asNames])
        · exact Or.inr (by rw [h]; exact outer_fixed g _ (by simp [okFixed]))
        · exact Or.inl (by rw [h]; simp [ah])
        · exact Or.inl (by rw [h]; exact subh _ (hp _ (mem_params_fixed g _ (by simp [fixedParams]))))
        · exact Or.inl (by rw [h]; simp [ah]))
    have hh : checkList (genScope p g) ah handlerStmts = some (some ([] ++ ah)) := by
      simp only [handlerStmts, checkList, Stmt.check, checkParts, rh, if_true, Option.map]
    have re : (genScope p g).readsOk asg [t "ParseError"] = true :=
      readsOk_of p g _ _ hp (fun n hn => by
        simp only [List.mem_cons, List.not_mem_nil, or_false] at hn
        exact Or.inr (by rw [hn]; exact outer_fixed g _ (by simp [okFixed])))
    refine ⟨a1.filter ([] ++ ah).contains, ?_, mem_meet a1 ([] ++ ah) asg s1 (fun n hn => by simp [subh n hn])⟩
    simp only [checkList, Stmt.check, re, if_true, h1, hsp, ah, hh, Flow.meet]

/-- `if _vars: raise MissingVars(cls, _vars) from None` -/
theorem tail_ok (p : Char → Bool) (g : EIn) (asg : List S) (hp : ∀ m ∈ params g, m ∈ asg) (hv : t "_vars" ∈ asg) :
    checkList (genScope p g) asg tailStmts = some (some asg) := by
  have r0 : (genScope p g).readsOk asg [t "_vars"] = true :=
    readsOk_of p g _ _ hp (fun n hn => by
      simp only [List.mem_cons, List.not_mem_nil, or_false] at hn
      exact Or.inl (by rw [hn]; exact hv))
  have r1 : (genScope p g).readsOk asg [t "MissingVars", t "cls", t "_vars"] = true :=
    readsOk_of p g _ _ hp (fun n hn => by
      simp only [List.mem_cons, List.not_mem_nil, or_false] at hn
      rcases hn with h | h | h
      · exact Or.inr (by rw [h]; exact outer_fixed g _ (by simp [okFixed]))
      · exact Or.inr (by rw [h]; exact outer_fixed g _ (by simp [okFixed]))
      · exact Or.inl (by rw [h]; exact hv))
  simp only [tailStmts, checkList, Stmt.check, r0, r1, if_true, checkElifs, checkElse, Flow.meet]

/-- **the `__init__` body `_create_methods` generates for any EnvWizard class is well scoped** - whatever the fields, their variable
names and the prefix are called -/
theorem wellScoped_all (p : Char → Bool) (g : EIn) : wellScoped p g = true := by
  unfold wellScoped genBody
  obtain ⟨a1, h1, m1⟩ := head_ok p g (params g) (fun _ h => h)
  have hp1 : ∀ m ∈ params g, m ∈ a1 := fun m hm => (m1 m).2 (Or.inr hm)
  have hv1 : t "_vars" ∈ a1 := (m1 _).2 (Or.inl rfl)
  obtain ⟨a2, h2, s2⟩ := block_ok p g a1 hp1 hv1
  have h3 := tail_ok p g a2 (fun m hm => s2 m (hp1 m hm)) (s2 _ hv1)
  simp only [checkList_append, h1, h2, h3, Option.isSome]

/-- … under Python's rule taken literally -/
theorem wellScopedPy_all (p : Char → Bool) (g : EIn) : wellScopedPy p g = true := by
  unfold wellScopedPy
  rw [DW.GenLoad.checkList_eq_py (genScope p g) (genBody p g) (params g)
    (fun n hn => by simp [genScope, hn]) (fun n hn => by simp [genScope, hn])]
  exact wellScoped_all p g

/-- the defaults and annotations of the parameter list are bound where the function is defined -/
theorem defsBound_all (g : EIn) : defsBound g = true := by
  unfold defsBound defReads
  rw [List.all_eq_true]
  intro n hn
  simp only [List.mem_append, List.mem_flatMap] at hn
  simp only [List.contains_eq_mem, decide_eq_true_eq]
  rcases hn with h | ⟨f, hf, h⟩
  · split at h
    · rename_i hs
      simp at h; simp [genLocals, hs, h]
    · simp at h
  · simp only [List.mem_cons, List.not_mem_nil, or_false] at h
    rcases h with h | h
    · rw [h]; exact mem_fieldGlobals g f hf _ (by simp [fieldGlobals])
    · rw [h]; simp [genGlobals]

end DW.GenEnv
