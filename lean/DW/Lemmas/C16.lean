/- Helper lemmas for DW/Props/C16.lean: insertion-ordered dicts, the metaclass fold, the `__init__` loop. -/
import DW.Model.C16

namespace DW.C16

/-! ### association lists -/

theorem get_put {α : Type} (k k' : Name) (v : α) (l : List (Name × α)) :
    get k' (put k v l) = if k = k' then some v else get k' l := by
  induction l with
  | nil => simp [put, get]
  | cons e r ih =>
    obtain ⟨k0, v0⟩ := e
    by_cases h0 : k0 = k
    · subst h0
      by_cases h1 : k0 = k' <;> simp [put, get, h1]
    · by_cases h1 : k0 = k'
      · subst h1
        simp [put, get, h0]
        intro h; exact absurd h.symm h0
      · simp [put, get, h0, h1, ih]

theorem get_put_self {α : Type} (k : Name) (v : α) (l : List (Name × α)) : get k (put k v l) = some v := by
  simp [get_put]

theorem get_put_ne {α : Type} (k k' : Name) (v : α) (l : List (Name × α)) (h : k ≠ k') :
    get k' (put k v l) = get k' l := by
  simp [get_put, h]

theorem get_del {α : Type} (k k' : Name) (l : List (Name × α)) :
    get k' (del k l) = if k = k' then none else get k' l := by
  induction l with
  | nil => simp [del, get]
  | cons e r ih =>
    obtain ⟨k0, v0⟩ := e
    by_cases h0 : k0 = k
    · subst h0
      by_cases h1 : k0 = k'
      · subst h1; simp [del, ih]
      · simp [del, get, h1, ih]
    · by_cases h1 : k0 = k'
      · subst h1
        simp [del, get, h0]
        intro h; exact absurd h.symm h0
      · simp [del, get, h0, h1, ih]

theorem get_del_ne {α : Type} (k k' : Name) (l : List (Name × α)) (h : k ≠ k') :
    get k' (del k l) = get k' l := by
  simp [get_del, h]

theorem keys_put {α : Type} (k : Name) (v : α) (l : List (Name × α)) :
    keys (put k v l) = if k ∈ keys l then keys l else keys l ++ [k] := by
  induction l with
  | nil => simp [put, keys]
  | cons e r ih =>
    obtain ⟨k0, v0⟩ := e
    by_cases h0 : k0 = k
    · subst h0; simp [put, keys]
    · have h0' : ¬ k = k0 := fun h => h0 h.symm
      unfold keys at ih
      by_cases hm : k ∈ List.map (fun x => x.fst) r
      · simp [put, keys, h0, h0', hm] at ih ⊢; exact ih
      · simp [put, keys, h0, h0', hm] at ih ⊢; exact ih

theorem put_ne_nil {α : Type} (k : Name) (v : α) (l : List (Name × α)) : put k v l ≠ [] := by
  cases l with
  | nil => simp [put]
  | cons e r =>
    obtain ⟨k0, v0⟩ := e
    by_cases h0 : k0 = k <;> simp [put, h0]

theorem nodup_keys_put {α : Type} (k : Name) (v : α) (l : List (Name × α)) (h : (keys l).Nodup) :
    (keys (put k v l)).Nodup := by
  rw [keys_put]
  by_cases hm : k ∈ keys l
  · simp [hm, h]
  · simp only [hm, if_false]
    rw [List.nodup_append]
    refine ⟨h, by simp, ?_⟩
    intro a ha b hb
    simp at hb
    subst hb
    intro hab; subst hab; exact hm ha

/-! ### dedup -/

theorem dedup_nodup : ∀ (l acc : List Name), (acc ++ l).Nodup → dedup acc l = acc ++ l := by
  intro l
  induction l with
  | nil => intro acc _; simp [dedup]
  | cons k r ih =>
    intro acc h
    have hk : k ∉ acc := by
      intro hm
      rw [List.nodup_append] at h
      exact h.2.2 k hm k (by simp) rfl
    simp only [dedup, hk, if_false]
    have h' : ((acc ++ [k]) ++ r).Nodup := by simpa using h
    rw [ih (acc ++ [k]) h']
    simp

theorem mem_dedup : ∀ (l acc : List Name) (x : Name), x ∈ dedup acc l ↔ x ∈ acc ∨ x ∈ l := by
  intro l
  induction l with
  | nil => intro acc x; simp [dedup]
  | cons k r ih =>
    intro acc x
    by_cases hk : k ∈ acc
    · simp only [dedup, hk, if_true]
      rw [ih]
      constructor
      · rintro (h | h)
        · exact Or.inl h
        · exact Or.inr (List.mem_cons_of_mem _ h)
      · rintro (h | h)
        · exact Or.inl h
        · rcases List.mem_cons.mp h with h | h
          · subst h; exact Or.inl hk
          · exact Or.inr h
    · simp only [dedup, hk, if_false]
      rw [ih]
      constructor
      · intro h
        rcases h with h | h
        · rcases List.mem_append.mp h with h | h
          · exact Or.inl h
          · exact Or.inr (by simp at h; simp [h])
        · exact Or.inr (List.mem_cons_of_mem _ h)
      · intro h
        rcases h with h | h
        · exact Or.inl (List.mem_append.mpr (Or.inl h))
        · rcases List.mem_cons.mp h with h | h
          · exact Or.inl (List.mem_append.mpr (Or.inr (by simp [h])))
          · exact Or.inr h

/-- the renaming dict comprehension: keys are the renamed keys, first occurrences, in order -/
theorem keys_foldl_put (g : Name → Name) : ∀ (l acc : List (Name × Ty)),
    keys (l.foldl (fun acc e => put (g e.1) e.2 acc) acc) = dedup (keys acc) ((keys l).map g) := by
  intro l
  induction l with
  | nil => intro acc; simp [keys, dedup]
  | cons e r ih =>
    intro acc
    simp only [List.foldl_cons]
    rw [ih]
    rw [keys_put]
    by_cases hm : g e.1 ∈ keys acc
    · simp [keys, dedup, hm] at *
      simp [hm]
    · simp [keys, dedup, hm] at *
      simp [hm]

theorem keys_renameAnns (repls : List (Name × Name)) (anns : List (Name × Ty)) :
    keys (renameAnns repls anns) = dedup [] ((keys anns).map (fun n => (get n repls).getD n)) := by
  unfold renameAnns
  have := keys_foldl_put (fun n => (get n repls).getD n) anns []
  simpa [keys] using this

/-! ### class bodies -/

theorem nodup_keys_exec_anns (b : Body) (m : Member) (h : (keys b.anns).Nodup) : (keys (b.exec m).anns).Nodup := by
  cases m <;> simp [Body.exec] <;> first | exact h | exact nodup_keys_put _ _ _ h

theorem nodup_keys_classDict_anns (ms : List Member) : (keys (classDict ms).anns).Nodup := by
  unfold classDict
  suffices h : ∀ (ms : List Member) (b : Body), (keys b.anns).Nodup → (keys (ms.foldl Body.exec b).anns).Nodup by
    exact h ms {} (by simp [keys])
  intro ms
  induction ms with
  | nil => intro b h; simpa using h
  | cons m r ih => intro b h; simp only [List.foldl_cons]; exact ih _ (nodup_keys_exec_anns b m h)

theorem nodup_keys_foldl_put (g : Name → Name) : ∀ (l acc : List (Name × Ty)), (keys acc).Nodup →
    (keys (l.foldl (fun acc e => put (g e.1) e.2 acc) acc)).Nodup := by
  intro l
  induction l with
  | nil => intro acc h; simpa using h
  | cons e r ih => intro acc h; simp only [List.foldl_cons]; exact ih _ (nodup_keys_put _ _ _ h)

theorem nodup_keys_renameAnns (repls : List (Name × Name)) (anns : List (Name × Ty)) :
    (keys (renameAnns repls anns)).Nodup := by
  unfold renameAnns
  exact nodup_keys_foldl_put (fun n => (get n repls).getD n) anns [] (by simp [keys])

/-! ### names -/

theorem isUnder_cons (c : Char) (r : Name) : isUnder (c :: r) = decide (c = '_') := by
  by_cases h : c = '_'
  · subst h; simp [isUnder]
  · simp only [h, decide_false]
    unfold isUnder
    split
    · rename_i heq; cases heq; exact absurd rfl h
    · rfl

theorem lstrip_of_not_under (f : Name) (h : isUnder f = false) : lstrip f = f := by
  cases f with
  | nil => simp [lstrip]
  | cons c r =>
    rw [isUnder_cons] at h
    have hc : c ≠ '_' := by simpa using h
    unfold lstrip
    split
    · rename_i heq; cases heq; exact absurd rfl hc
    · rfl

theorem lstrip_under (r : Name) : lstrip ('_' :: r) = lstrip r := by
  simp [lstrip]

theorem isUnder_lstrip (f : Name) : isUnder (lstrip f) = false := by
  induction f with
  | nil => simp [lstrip, isUnder]
  | cons c r ih =>
    by_cases hc : c = '_'
    · subst hc; rw [lstrip_under]; exact ih
    · have : isUnder (c :: r) = false := by rw [isUnder_cons]; simpa using hc
      rw [lstrip_of_not_under _ this]; exact this

theorem ne_of_isUnder {a b : Name} (ha : isUnder a = true) (hb : isUnder b = false) : a ≠ b := by
  intro h; subst h; rw [ha] at hb; cases hb

theorem isUnder_pubOf (f : Name) : isUnder (pubOf f) = false := by
  unfold pubOf
  by_cases h : isUnder f = true
  · simp [h, isUnder_lstrip]
  · simp at h; simp [h]

/-! ### the metaclass fold: annotation replacements -/

/-- the annotation key a settable property named `f` makes the metaclass rename -/
def replKey (anns : List (Name × Ty)) (f : Name) : Option Name :=
  if isUnder f then (if (get f anns).isSome then some f else none)
  else (if (get ('_' :: f) anns).isSome then some ('_' :: f) else none)

def addRepl (anns : List (Name × Ty)) (r : List (Name × Name)) (f : Name) : List (Name × Name) :=
  match replKey anns f with
  | some k => put k (lstrip k) r
  | none => r

theorem processPublic_repls (anns : List (Name × Ty)) (f : Name) (st : WState) (hf : isUnder f = false) :
    (processPublic anns f st).repls = addRepl anns st.repls f := by
  unfold processPublic addRepl replKey
  simp only [hf, Bool.false_eq_true, if_false]
  cases hu : get ('_' :: f) anns with
  | none =>
    cases hp : get f anns with
    | none => simp
    | some t => simp
  | some t =>
    have hl : lstrip ('_' :: f) = f := by rw [lstrip_under, lstrip_of_not_under f hf]
    simp only [Option.isSome_some, Option.isNone_some, Bool.and_false, Bool.false_eq_true, if_false, if_true, hl]
    cases ha : get ('_' :: f) st.attrs with
    | none => simp
    | some v => cases v <;> simp

theorem processUnder_repls (q : Quirks) (anns : List (Name × Ty)) (f : Name) (st : WState) (hf : isUnder f = true) :
    (processUnder q anns f st).repls = addRepl anns st.repls f := by
  unfold processUnder addRepl replKey
  simp only [hf, if_true]
  cases hu : get f anns with
  | none =>
    cases hp : get (lstrip f) anns with
    | none => simp
    | some t => simp
  | some t => simp

theorem stepNs_repls (q : Quirks) (anns : List (Name × Ty)) (st : WState) (e : Name × NsVal) :
    (stepNs q anns st e).repls =
      match e.2 with
      | .prop _ true _ => addRepl anns st.repls e.1
      | _ => st.repls := by
  obtain ⟨f, v⟩ := e
  cases v with
  | prop o s w =>
    cases s with
    | false => simp [stepNs]
    | true =>
      simp only [stepNs]
      by_cases hf : isUnder f = true
      · simp only [hf, if_true]; exact processUnder_repls q anns f st hf
      · have hf' : isUnder f = false := by simpa using hf
        simp only [hf', Bool.false_eq_true, if_false]; exact processPublic_repls anns f st hf'
  | _ => simp [stepNs]

theorem foldl_repls (q : Quirks) (anns : List (Name × Ty)) : ∀ (es : List (Name × NsVal)) (st : WState),
    (es.foldl (stepNs q anns) st).repls = (settableNames es).foldl (addRepl anns) st.repls := by
  intro es
  induction es with
  | nil => intro st; simp [settableNames]
  | cons e r ih =>
    intro st
    simp only [List.foldl_cons]
    rw [ih, stepNs_repls]
    obtain ⟨f, v⟩ := e
    cases v with
    | prop o s w => cases s <;> simp [settableNames, List.filterMap_cons]
    | _ => simp [settableNames, List.filterMap_cons]

theorem get_foldl_addRepl (anns : List (Name × Ty)) (n : Name) : ∀ (fs : List Name) (r : List (Name × Name)),
    get n (fs.foldl (addRepl anns) r) =
      if (fs.any (fun f => replKey anns f == some n)) then some (lstrip n) else get n r := by
  intro fs
  induction fs with
  | nil => intro r; simp
  | cons f rest ih =>
    intro r
    simp only [List.foldl_cons, List.any_cons]
    rw [ih]
    by_cases hr : rest.any (fun f => replKey anns f == some n) = true
    · simp [hr]
    · simp only [hr, Bool.or_false]
      unfold addRepl
      cases hk : replKey anns f with
      | none => simp
      | some k =>
        by_cases hkn : k = n
        · subst hkn; simp [get_put_self]
        · simp [get_put_ne _ _ _ _ hkn, hkn]

theorem foldl_addRepl_nil_iff (anns : List (Name × Ty)) : ∀ (fs : List Name) (r : List (Name × Name)),
    (fs.foldl (addRepl anns) r).isEmpty = (r.isEmpty && fs.all (fun f => (replKey anns f).isNone)) := by
  intro fs
  induction fs with
  | nil => intro r; simp
  | cons f rest ih =>
    intro r
    simp only [List.foldl_cons, List.all_cons]
    rw [ih]
    unfold addRepl
    cases hk : replKey anns f with
    | none => simp
    | some k =>
      have : (put k (lstrip k) r).isEmpty = false := by
        cases hp : put k (lstrip k) r with
        | nil => exact absurd hp (put_ne_nil _ _ _)
        | cons _ _ => rfl
      simp [this]

theorem any_replKey_eq_exposed (b : Body) (n : Name) :
    (settableNames b.ns).any (fun f => replKey b.anns f == some n) = exposed b n := by
  rw [Bool.eq_iff_iff]
  simp only [List.any_eq_true, beq_iff_eq]
  constructor
  · rintro ⟨f, hf, hk⟩
    unfold replKey at hk
    by_cases hu : isUnder f = true
    · simp only [hu, if_true] at hk
      by_cases hg : (get f b.anns).isSome = true
      · simp only [hg, if_true, Option.some.injEq] at hk
        subst hk
        unfold exposed
        simp [hu, hg, hf]
      · simp [hg] at hk
    · have hu' : isUnder f = false := by simpa using hu
      simp only [hu', Bool.false_eq_true, if_false] at hk
      by_cases hg : (get ('_' :: f) b.anns).isSome = true
      · simp only [hg, if_true, Option.some.injEq] at hk
        subst hk
        unfold exposed
        have h1 : isUnder ('_' :: f) = true := by simp [isUnder]
        simp only [h1, hg, Bool.and_self, Bool.true_and, hu', Bool.not_false, List.contains_eq_mem, hf, decide_true,
          Bool.or_true]
      · simp [hg] at hk
  · intro he
    unfold exposed at he
    simp only [Bool.and_eq_true, Bool.or_eq_true, List.contains_eq_mem, decide_eq_true_eq] at he
    obtain ⟨⟨hu, hg⟩, hc⟩ := he
    rcases hc with hc | hc
    · exact ⟨n, hc, by simp [replKey, hu, hg]⟩
    · cases n with
      | nil => simp at hc
      | cons c p =>
        simp only [Bool.and_eq_true, Bool.not_eq_true', List.contains_eq_mem, decide_eq_true_eq] at hc
        rw [isUnder_cons] at hu
        have hc' : c = '_' := by simpa using hu
        subst hc'
        exact ⟨p, hc.2, by simp [replKey, hc.1, hg]⟩

/-- field names after the metaclass: the annotation names, exposed ones under their public name, first
occurrences, in order -/
theorem keys_propertyWizard_anns (q : Quirks) (ms : List Member) :
    keys (propertyWizard q ms).anns = dedup [] ((keys (classDict ms).anns).map (expose (classDict ms))) := by
  have hR : (wizardState q (classDict ms)).repls
      = (settableNames (classDict ms).ns).foldl (addRepl (classDict ms).anns) [] := by
    unfold wizardState
    rw [foldl_repls]
  have hget : ∀ n, (get n (wizardState q (classDict ms)).repls).getD n = expose (classDict ms) n := by
    intro n
    rw [hR, get_foldl_addRepl, any_replKey_eq_exposed]
    unfold expose
    by_cases he : exposed (classDict ms) n = true
    · simp [he]
    · simp [he, get]
  unfold propertyWizard
  simp only
  by_cases hE : (wizardState q (classDict ms)).repls.isEmpty = true
  · simp only [hE, if_true]
    have hall : ∀ n, expose (classDict ms) n = n := by
      intro n
      rw [← hget n]
      have : (wizardState q (classDict ms)).repls = [] := by simpa using hE
      simp [this, get]
    have hmap : (keys (classDict ms).anns).map (expose (classDict ms)) = keys (classDict ms).anns := by
      have hid : expose (classDict ms) = id := funext hall
      rw [hid]; simp
    rw [hmap, dedup_nodup _ [] (by simpa using nodup_keys_classDict_anns ms)]
    rfl
  · simp only [hE, Bool.false_eq_true, if_false]
    rw [keys_renameAnns]
    congr 1
    apply List.map_congr_left
    intro n _
    exact hget n

theorem nodup_keys_propertyWizard_anns (q : Quirks) (ms : List Member) :
    (keys (propertyWizard q ms).anns).Nodup := by
  unfold propertyWizard
  simp only
  split
  · exact nodup_keys_classDict_anns ms
  · exact nodup_keys_renameAnns _ _

/-! ### the metaclass fold: the class `__dict__` -/

theorem processPublic_frame (anns : List (Name × Ty)) (f : Name) (st : WState) (k : Name)
    (h1 : f ≠ k) (h2 : ('_' :: f) ≠ k) : get k (processPublic anns f st).attrs = get k st.attrs := by
  unfold processPublic
  cases hu : get ('_' :: f) anns with
  | none =>
    cases hp : get f anns with
    | none => simp [hu, hp]
    | some t => simp [hu, hp, get_put_ne _ _ _ _ h1]
  | some t =>
    cases ha : get ('_' :: f) st.attrs with
    | none => simp [hu, ha, get_put_ne _ _ _ _ h1]
    | some v => cases v <;> simp [hu, ha, get_put_ne _ _ _ _ h1, get_del_ne _ _ _ h2]

theorem processUnder_frame (q : Quirks) (anns : List (Name × Ty)) (f : Name) (st : WState) (k : Name)
    (h1 : f ≠ k) (h2 : lstrip f ≠ k) : get k (processUnder q anns f st).attrs = get k st.attrs := by
  unfold processUnder
  cases hu : get f anns with
  | none =>
    cases hp : get (lstrip f) anns with
    | none => simp [hu, hp]
    | some t => simp [hu, hp, get_put_ne _ _ _ _ h2, get_del_ne _ _ _ h1]
  | some t => simp [hu, get_put_ne _ _ _ _ h2, get_del_ne _ _ _ h1]

theorem stepNs_frame (q : Quirks) (anns : List (Name × Ty)) (st : WState) (f : Name) (v : NsVal) (k : Name)
    (h : ∀ o w, v = .prop o true w → f ≠ k ∧ partner f ≠ k) :
    get k (stepNs q anns st (f, v)).attrs = get k st.attrs := by
  cases v with
  | prop o s w =>
    cases s with
    | false => simp [stepNs]
    | true =>
      obtain ⟨h1, h2⟩ := h o w rfl
      simp only [stepNs]
      unfold partner at h2
      by_cases hf : isUnder f = true
      · simp only [hf, if_true] at h2 ⊢; exact processUnder_frame q anns f st k h1 h2
      · have hf' : isUnder f = false := by simpa using hf
        simp only [hf', Bool.false_eq_true, if_false] at h2 ⊢; exact processPublic_frame anns f st k h1 h2
  | _ => simp [stepNs]

theorem mem_settableNames_cons_prop (f : Name) (o : Name) (w : Option FieldSpec) (r : List (Name × NsVal)) :
    settableNames ((f, .prop o true w) :: r) = f :: settableNames r := by
  simp [settableNames, List.filterMap_cons]

theorem settableNames_cons_other (f : Name) (v : NsVal) (r : List (Name × NsVal))
    (h : ∀ o w, v ≠ .prop o true w) : settableNames ((f, v) :: r) = settableNames r := by
  cases v with
  | prop o s w =>
    cases s with
    | true => exact absurd rfl (h o w)
    | false => simp [settableNames, List.filterMap_cons]
  | _ => simp [settableNames, List.filterMap_cons]

/-- a key no processed property touches keeps its binding -/
theorem foldl_frame (q : Quirks) (anns : List (Name × Ty)) (k : Name) : ∀ (es : List (Name × NsVal)) (st : WState),
    (∀ f ∈ settableNames es, paired anns f = true → f ≠ k ∧ partner f ≠ k) →
    get k (es.foldl (stepNs q anns) st).attrs = get k st.attrs := by
  intro es
  induction es with
  | nil => intro st _; rfl
  | cons e r ih =>
    intro st h
    obtain ⟨f, v⟩ := e
    simp only [List.foldl_cons]
    by_cases hv : ∃ o w, v = .prop o true w
    · obtain ⟨o, w, hv⟩ := hv
      subst hv
      rw [mem_settableNames_cons_prop] at h
      rw [ih _ (fun g hg => h g (List.mem_cons_of_mem _ hg))]
      by_cases hp : paired anns f = true
      · exact stepNs_frame q anns st f _ k (fun _ _ _ => h f (by simp) hp)
      · -- an unpaired property is skipped altogether
        have hp' : paired anns f = false := by simpa using hp
        unfold paired at hp'
        simp only [Bool.or_eq_false_iff] at hp'
        simp only [stepNs]
        unfold partner at hp'
        by_cases hf : isUnder f = true
        · simp only [hf, if_true] at hp' ⊢
          unfold processUnder
          have a : (get (lstrip f) anns).isNone = true := by cases h1 : get (lstrip f) anns <;> simp [h1] at hp' ⊢
          have b : (get f anns).isNone = true := by cases h1 : get f anns <;> simp [h1] at hp' ⊢
          simp [a, b]
        · have hf' : isUnder f = false := by simpa using hf
          simp only [hf', Bool.false_eq_true, if_false] at hp' ⊢
          unfold processPublic
          have a : (get ('_' :: f) anns).isNone = true := by cases h1 : get ('_' :: f) anns <;> simp [h1] at hp' ⊢
          have b : (get f anns).isNone = true := by cases h1 : get f anns <;> simp [h1] at hp' ⊢
          simp [a, b]
    · have hv' : ∀ o w, v ≠ .prop o true w := fun o w hh => hv ⟨o, w, hh⟩
      rw [settableNames_cons_other f v r hv'] at h
      rw [ih _ h]
      exact stepNs_frame q anns st f v k (fun o w hh => absurd hh (hv' o w))

theorem processPublic_value (q : Quirks) (anns : List (Name × Ty)) (f : Name) (st : WState)
    (hf : isUnder f = false) (hp : paired anns f = true) :
    get f (processPublic anns f st).attrs
      = some (.prop f true (some (declaredDefaultWith q anns f (get ('_' :: f) st.attrs)))) := by
  unfold paired partner at hp
  simp only [hf, Bool.false_eq_true, if_false] at hp
  unfold processPublic declaredDefaultWith
  simp only [hf, Bool.false_eq_true, if_false]
  cases hu : get ('_' :: f) anns with
  | none =>
    cases hq : get f anns with
    | none => simp [hu, hq] at hp
    | some t => simp [get_put_self]
  | some t =>
    cases ha : get ('_' :: f) st.attrs with
    | none => simp [get_put_self, explicitDefault]
    | some v =>
      cases v with
      | field fs i =>
        by_cases hs : fs.isSet = true
        · simp [get_put_self, explicitDefault, processField, hs]
        · simp [get_put_self, explicitDefault, processField, hs]
      | lit l => simp [get_put_self, explicitDefault]
      | prop o s w => simp [get_put_self, explicitDefault]
      | method n => simp [get_put_self, explicitDefault]

theorem processUnder_value (q : Quirks) (anns : List (Name × Ty)) (f : Name) (st : WState)
    (hf : isUnder f = true) (hp : paired anns f = true) :
    get (lstrip f) (processUnder q anns f st).attrs
      = some (.prop f true (some (declaredDefaultWith q anns f (get (lstrip f) st.attrs)))) := by
  unfold paired partner at hp
  simp only [hf, if_true] at hp
  have hne : f ≠ lstrip f := ne_of_isUnder hf (isUnder_lstrip f)
  unfold processUnder declaredDefaultWith
  simp only [hf, if_true]
  cases hq : get (lstrip f) anns with
  | none =>
    cases hu : get f anns with
    | none => simp [hu, hq] at hp
    | some t => simp [get_del_ne _ _ _ hne, get_put_self]
  | some t =>
    cases ha : get (lstrip f) st.attrs with
    | none => cases hu : get f anns <;> simp [get_del_ne _ _ _ hne, get_put_self, ha]
    | some v =>
      cases v with
      | field fs i =>
        by_cases hs : fs.isSet = true
        · cases hu : get f anns <;> simp [get_del_ne _ _ _ hne, get_put_self, ha, processField, hs]
        · cases hu : get f anns <;> simp [get_del_ne _ _ _ hne, get_put_self, ha, processField, hs]
      | lit l => cases hu : get f anns <;> simp [get_del_ne _ _ _ hne, get_put_self, ha]
      | prop o s w => cases hu : get f anns <;> simp [get_del_ne _ _ _ hne, get_put_self, ha]
      | method n => cases hu : get f anns <;> simp [get_del_ne _ _ _ hne, get_put_self, ha]

/-- processing a paired settable property leaves a wrapped property under its public name, whose default is the
declared one as read from the class `__dict__` at that moment -/
theorem stepNs_value (q : Quirks) (anns : List (Name × Ty)) (st : WState) (f o : Name) (w : Option FieldSpec)
    (hp : paired anns f = true) :
    get (pubOf f) (stepNs q anns st (f, .prop o true w)).attrs
      = some (.prop f true (some (declaredDefaultWith q anns f (get (partner f) st.attrs)))) := by
  simp only [stepNs]
  unfold pubOf partner
  by_cases hf : isUnder f = true
  · simp only [hf, if_true]; exact processUnder_value q anns f st hf hp
  · have hf' : isUnder f = false := by simpa using hf
    simp only [hf', Bool.false_eq_true, if_false]; exact processPublic_value q anns f st hf' hp

theorem stepNs_unpaired (q : Quirks) (anns : List (Name × Ty)) (st : WState) (f o : Name) (w : Option FieldSpec)
    (hp : paired anns f = false) : stepNs q anns st (f, .prop o true w) = st := by
  unfold paired at hp
  simp only [Bool.or_eq_false_iff] at hp
  simp only [stepNs]
  unfold partner at hp
  by_cases hf : isUnder f = true
  · simp only [hf, if_true] at hp ⊢
    unfold processUnder
    have a : (get (lstrip f) anns).isNone = true := by cases h1 : get (lstrip f) anns <;> simp [h1] at hp ⊢
    have b : (get f anns).isNone = true := by cases h1 : get f anns <;> simp [h1] at hp ⊢
    simp [a, b]
  · have hf' : isUnder f = false := by simpa using hf
    simp only [hf', Bool.false_eq_true, if_false] at hp ⊢
    unfold processPublic
    have a : (get ('_' :: f) anns).isNone = true := by cases h1 : get ('_' :: f) anns <;> simp [h1] at hp ⊢
    have b : (get f anns).isNone = true := by cases h1 : get f anns <;> simp [h1] at hp ⊢
    simp [a, b]

/-- `p` is bound to a property whose setter has been wrapped -/
def Wrapped (attrs : List (Name × NsVal)) (p : Name) : Prop :=
  ∃ o fv, get p attrs = some (.prop o true (some fv))

theorem touch_pub (g p : Name) (hp : isUnder p = false) (h : g = p ∨ partner g = p) : pubOf g = p := by
  unfold pubOf
  unfold partner at h
  by_cases hg : isUnder g = true
  · simp only [hg, if_true] at h ⊢
    rcases h with h | h
    · subst h; rw [hg] at hp; cases hp
    · exact h
  · have hg' : isUnder g = false := by simpa using hg
    simp only [hg', Bool.false_eq_true, if_false] at h ⊢
    rcases h with h | h
    · exact h
    · subst h; simp [isUnder] at hp

theorem stepNs_wrapped (q : Quirks) (anns : List (Name × Ty)) (st : WState) (e : Name × NsVal) (p : Name)
    (hp : isUnder p = false) (h : Wrapped st.attrs p) : Wrapped (stepNs q anns st e).attrs p := by
  obtain ⟨g, v⟩ := e
  by_cases hv : ∃ o w, v = .prop o true w
  · obtain ⟨o, w, hv⟩ := hv
    subst hv
    by_cases hpa : paired anns g = true
    · by_cases ht : g = p ∨ partner g = p
      · have := stepNs_value q anns st g o w hpa
        rw [touch_pub g p hp ht] at this
        exact ⟨g, _, this⟩
      · have h1 : g ≠ p := fun hh => ht (Or.inl hh)
        have h2 : partner g ≠ p := fun hh => ht (Or.inr hh)
        unfold Wrapped
        rw [stepNs_frame q anns st g _ p (fun _ _ _ => ⟨h1, h2⟩)]
        exact h
    · have hpa' : paired anns g = false := by simpa using hpa
      rw [stepNs_unpaired q anns st g o w hpa']; exact h
  · unfold Wrapped
    rw [stepNs_frame q anns st g v p (fun o w hh => absurd ⟨o, w, hh⟩ hv)]
    exact h

theorem foldl_wrapped_preserved (q : Quirks) (anns : List (Name × Ty)) (p : Name) (hp : isUnder p = false) :
    ∀ (es : List (Name × NsVal)) (st : WState), Wrapped st.attrs p → Wrapped (es.foldl (stepNs q anns) st).attrs p := by
  intro es
  induction es with
  | nil => intro st h; exact h
  | cons e r ih => intro st h; simp only [List.foldl_cons]; exact ih _ (stepNs_wrapped q anns st e p hp h)

/-- every paired settable property ends up wrapped under its public name -/
theorem foldl_wrapped (q : Quirks) (anns : List (Name × Ty)) (f : Name) (hpa : paired anns f = true) :
    ∀ (es : List (Name × NsVal)) (st : WState), f ∈ settableNames es →
      Wrapped (es.foldl (stepNs q anns) st).attrs (pubOf f) := by
  intro es
  induction es with
  | nil => intro st h; simp [settableNames] at h
  | cons e r ih =>
    intro st h
    obtain ⟨g, v⟩ := e
    simp only [List.foldl_cons]
    by_cases hv : ∃ o w, v = .prop o true w
    · obtain ⟨o, w, hv⟩ := hv
      subst hv
      rw [mem_settableNames_cons_prop] at h
      rcases List.mem_cons.mp h with h | h
      · subst h
        apply foldl_wrapped_preserved q anns _ (isUnder_pubOf f)
        exact ⟨f, _, stepNs_value q anns st f o w hpa⟩
      · exact ih _ h
    · rw [settableNames_cons_other g v r (fun o w hh => hv ⟨o, w, hh⟩)] at h
      exact ih _ h

/-! ### independence -/

theorem disjoint_touch {f g : Name} (h : disjoint (touch f) (touch g) = true) :
    f ≠ g ∧ f ≠ partner g ∧ partner f ≠ g ∧ partner f ≠ partner g := by
  unfold disjoint touch at h
  simp only [List.all_cons, List.all_nil, Bool.and_true, Bool.and_eq_true, Bool.not_eq_true',
    List.contains_eq_mem, List.mem_cons, List.not_mem_nil, or_false, decide_eq_false_iff_not, not_or] at h
  exact ⟨h.1.1, h.1.2, h.2.1, h.2.2⟩

theorem pubOf_mem_touch (f : Name) : pubOf f = f ∨ pubOf f = partner f := by
  unfold pubOf partner
  by_cases hf : isUnder f = true
  · simp [hf]
  · simp [hf]

/-- Under independence each paired property is wrapped with exactly the declared default, as read from the class
body's own namespace `ns0`. -/
theorem foldl_default_chosen (q : Quirks) (anns : List (Name × Ty)) (ns0 : List (Name × NsVal)) (f : Name)
    (hpa : paired anns f = true) :
    ∀ (es : List (Name × NsVal)) (st : WState), independent (settableNames es) = true → f ∈ settableNames es →
      get (partner f) st.attrs = get (partner f) ns0 →
      get (pubOf f) (es.foldl (stepNs q anns) st).attrs
        = some (.prop f true (some (declaredDefaultWith q anns f (get (partner f) ns0)))) := by
  intro es
  induction es with
  | nil => intro st _ h; simp [settableNames] at h
  | cons e r ih =>
    intro st hind hmem hst
    obtain ⟨g, v⟩ := e
    simp only [List.foldl_cons]
    by_cases hv : ∃ o w, v = .prop o true w
    · obtain ⟨o, w, hv⟩ := hv
      subst hv
      rw [mem_settableNames_cons_prop] at hind hmem
      simp only [independent, Bool.and_eq_true, List.all_eq_true] at hind
      obtain ⟨hhead, htail⟩ := hind
      by_cases hfg : f = g
      · subst hfg
        -- f is processed now; nothing later touches its public name
        rw [foldl_frame q anns (pubOf f) r _ (by
          intro h hh _
          have := disjoint_touch (hhead h hh)
          rcases pubOf_mem_touch f with hp | hp
          · rw [hp]; exact ⟨fun e => this.1 e.symm, fun e => this.2.1 e.symm⟩
          · rw [hp]; exact ⟨fun e => this.2.2.1 e.symm, fun e => this.2.2.2 e.symm⟩)]
        rw [stepNs_value q anns st f o w hpa, hst]
      · have hmem' : f ∈ settableNames r := by
          rcases List.mem_cons.mp hmem with h | h
          · exact absurd h hfg
          · exact h
        have hd := disjoint_touch (hhead f hmem')
        apply ih _ htail hmem'
        rw [← hst]
        exact stepNs_frame q anns st g _ (partner f) (fun _ _ _ => ⟨hd.2.1, hd.2.2.2⟩)
    · rw [settableNames_cons_other g v r (fun o w hh => hv ⟨o, w, hh⟩)] at hind hmem
      apply ih _ hind hmem
      rw [← hst]
      exact stepNs_frame q anns st g v (partner f) (fun o w hh => absurd ⟨o, w, hh⟩ hv)

/-! ### instances -/

/-- the setter of a property slot: wrapped (`some fv`) or as the user wrote it (`none`) -/
def wrapW (w : Option FieldSpec) (v : Val) (c : Nat) : Val × Nat :=
  match w with
  | none => (v, c)
  | some fv => wrapSet fv v c

theorem wrapSet_mono (fv : FieldSpec) (v : Val) (c : Nat) : c ≤ (wrapSet fv v c).2 := by
  unfold wrapSet
  cases v <;> simp
  cases fv.factory <;> simp

theorem wrapW_mono (w : Option FieldSpec) (v : Val) (c : Nat) : c ≤ (wrapW w v c).2 := by
  cases w with
  | none => simp [wrapW]
  | some fv => exact wrapSet_mono fv v c

theorem logOf_append (p : Name) (i : Inst) (n : Name) (v : Val) (st : List (Name × Val)) :
    logOf p { log := i.log ++ [(n, v)], store := st } = if n = p then logOf p i ++ [(n, v)] else logOf p i := by
  unfold logOf
  by_cases h : n = p <;> simp [List.filter_append, h]

theorem setAttr_prop (attrs : List (Name × NsVal)) (i : Inst) (c : Nat) (p o : Name) (w : Option FieldSpec) (v : Val)
    (hp : get p attrs = some (.prop o true w)) :
    setAttr attrs i c p v = .ok ({ log := i.log ++ [(p, (wrapW w v c).1)], store := put p (wrapW w v c).1 i.store },
      (wrapW w v c).2) := by
  unfold setAttr
  cases w <;> simp [hp, wrapW]

theorem setAttr_other (attrs : List (Name × NsVal)) (i : Inst) (c : Nat) (n : Name) (v : Val) (i2 : Inst) (c2 : Nat)
    (p : Name) (h : setAttr attrs i c n v = .ok (i2, c2)) (hn : n ≠ p) :
    logOf p i2 = logOf p i ∧ get p i2.store = get p i.store ∧ c ≤ c2 := by
  unfold setAttr at h
  split at h
  · cases h
  · simp only [Except.ok.injEq, Prod.mk.injEq] at h
    obtain ⟨h1, h2⟩ := h
    subst h1 h2
    simp [logOf_append, hn, get_put_ne _ _ _ _ hn]
  · simp only [Except.ok.injEq, Prod.mk.injEq] at h
    obtain ⟨h1, h2⟩ := h
    subst h1 h2
    simp [logOf_append, hn, get_put_ne _ _ _ _ hn, wrapSet_mono]
  · simp only [Except.ok.injEq, Prod.mk.injEq] at h
    obtain ⟨h1, h2⟩ := h
    subst h1 h2
    simp [logOf, get_put_ne _ _ _ _ hn]

theorem bindField_mono (args : List (Name × Val)) (fd : DField) (c : Nat) : c ≤ (bindField args fd c).2 := by
  unfold bindField
  cases fd.init <;> cases fd.dflt <;> simp
  all_goals (cases get fd.name args <;> simp)

theorem initLoop_other (attrs : List (Name × NsVal)) (args : List (Name × Val)) (p : Name) :
    ∀ (fs : List DField) (i : Inst) (c : Nat) (i' : Inst) (c' : Nat),
      initLoop attrs args fs i c = .ok (i', c') → (∀ fd ∈ fs, fd.name ≠ p) →
      logOf p i' = logOf p i ∧ get p i'.store = get p i.store ∧ c ≤ c' := by
  intro fs
  induction fs with
  | nil =>
    intro i c i' c' h _
    simp only [initLoop, Except.ok.injEq, Prod.mk.injEq] at h
    obtain ⟨h1, h2⟩ := h
    subst h1 h2
    exact ⟨rfl, rfl, Nat.le_refl _⟩
  | cons fd r ih =>
    intro i c i' c' h hne
    have hmono := bindField_mono args fd c
    unfold initLoop at h
    cases hb : bindField args fd c with
    | mk ov c1 =>
      rw [hb] at h hmono
      cases ov with
      | none =>
        simp only at h
        have := ih i c1 i' c' h (fun x hx => hne x (List.mem_cons_of_mem _ hx))
        exact ⟨this.1, this.2.1, Nat.le_trans hmono this.2.2⟩
      | some v =>
        simp only at h
        cases hs : setAttr attrs i c1 fd.name v with
        | error e => rw [hs] at h; cases h
        | ok pr =>
          obtain ⟨i2, c2⟩ := pr
          rw [hs] at h
          simp only at h
          have h1 := setAttr_other attrs i c1 fd.name v i2 c2 p hs (hne fd (by simp))
          have h2 := ih i2 c2 i' c' h (fun x hx => hne x (List.mem_cons_of_mem _ hx))
          exact ⟨h2.1.trans h1.1, h2.2.1.trans h1.2.1, Nat.le_trans hmono (Nat.le_trans h1.2.2 h2.2.2)⟩

/-- the field bound to property slot `p` contributes exactly one setter call, with the bound value passed through the
(possibly wrapped) setter at some allocation count `n` inside the construction's range -/
theorem initLoop_field (attrs : List (Name × NsVal)) (args : List (Name × Val)) (p o : Name) (w : Option FieldSpec)
    (hp : get p attrs = some (.prop o true w)) (v : Val) :
    ∀ (fs : List DField) (i : Inst) (c : Nat) (i' : Inst) (c' : Nat),
      (fs.map (·.name)).Nodup → initLoop attrs args fs i c = .ok (i', c') →
      (∃ fd ∈ fs, fd.name = p ∧ ∀ c1, bindField args fd c1 = (some v, c1)) →
      ∃ n, c ≤ n ∧ (wrapW w v n).2 ≤ c' ∧ logOf p i' = logOf p i ++ [(p, (wrapW w v n).1)]
        ∧ get p i'.store = some (wrapW w v n).1 := by
  intro fs
  induction fs with
  | nil => intro i c i' c' _ _ h; obtain ⟨fd, hfd, _⟩ := h; cases hfd
  | cons fd0 r ih =>
    intro i c i' c' hnd h hex
    obtain ⟨fd, hfd, hname, hbind⟩ := hex
    simp only [List.map_cons, List.nodup_cons, List.mem_map, not_exists, not_and] at hnd
    obtain ⟨hhead, hndr⟩ := hnd
    unfold initLoop at h
    by_cases h0 : fd0.name = p
    · -- this is the field
      have hfd0 : fd = fd0 := by
        rcases List.mem_cons.mp hfd with hh | hh
        · exact hh
        · exact absurd (hname.trans h0.symm) (hhead fd hh)
      subst hfd0
      rw [hbind c] at h
      simp only at h
      rw [hname, setAttr_prop attrs i c p o w v hp] at h
      simp only at h
      have hrest := initLoop_other attrs args p r _ _ i' c' h (by
        intro x hx hxp
        exact hhead x hx (hxp.trans hname.symm))
      refine ⟨c, Nat.le_refl _, hrest.2.2, ?_, ?_⟩
      · rw [hrest.1, logOf_append]; simp
      · rw [hrest.2.1]; simp [get_put_self]
    · have hfdr : fd ∈ r := by
        rcases List.mem_cons.mp hfd with hh | hh
        · subst hh; exact absurd hname h0
        · exact hh
      have hmono := bindField_mono args fd0 c
      cases hb : bindField args fd0 c with
      | mk ov c1 =>
        rw [hb] at h hmono
        cases ov with
        | none =>
          simp only at h
          obtain ⟨n, hn1, hn2, hn3, hn4⟩ := ih i c1 i' c' hndr h ⟨fd, hfdr, hname, hbind⟩
          exact ⟨n, Nat.le_trans hmono hn1, hn2, hn3, hn4⟩
        | some v0 =>
          simp only at h
          cases hs : setAttr attrs i c1 fd0.name v0 with
          | error e => rw [hs] at h; cases h
          | ok pr =>
            obtain ⟨i2, c2⟩ := pr
            rw [hs] at h
            simp only at h
            have h1 := setAttr_other attrs i c1 fd0.name v0 i2 c2 p hs h0
            obtain ⟨n, hn1, hn2, hn3, hn4⟩ := ih i2 c2 i' c' hndr h ⟨fd, hfdr, hname, hbind⟩
            exact ⟨n, Nat.le_trans hmono (Nat.le_trans h1.2.2 hn1), hn2, by rw [hn3, h1.1], hn4⟩

theorem mem_keys_of_get {α : Type} (k : Name) (l : List (Name × α)) (h : (get k l).isSome = true) : k ∈ keys l := by
  induction l with
  | nil => simp [get] at h
  | cons e r ih =>
    obtain ⟨k0, v0⟩ := e
    by_cases h0 : k0 = k
    · subst h0; simp [keys]
    · simp only [get, h0, if_false] at h
      have := ih h
      simp only [keys, List.map_cons, List.mem_cons] at this ⊢
      exact Or.inr this

theorem dfieldOf_name (attrs : List (Name × NsVal)) (n : Name) : (dfieldOf attrs n).name = n := by
  unfold dfieldOf
  cases get n attrs with
  | none => rfl
  | some v => cases v <;> rfl

theorem map_dfieldOf_name (attrs : List (Name × NsVal)) (l : List Name) :
    l.map ((fun x => x.name) ∘ dfieldOf attrs) = l := by
  induction l with
  | nil => rfl
  | cons n r ih => simp [dfieldOf_name, ih]

/-- field names of the dataclass: annotation names, exposed ones under their public name, in order -/
theorem fieldNames_eq (q : Quirks) (ms : List Member) :
    (dataclassFields (propertyWizard q ms)).map (·.name)
      = dedup [] ((keys (classDict ms).anns).map (expose (classDict ms))) := by
  unfold dataclassFields
  rw [← keys_propertyWizard_anns q ms, List.map_map]
  exact map_dfieldOf_name _ _

/-- the public name of a paired settable property is among the field names -/
theorem pubOf_mem_fields (q : Quirks) (ms : List Member) (f : Name)
    (hf : f ∈ settableNames (classDict ms).ns) (hp : paired (classDict ms).anns f = true) :
    pubOf f ∈ (dataclassFields (propertyWizard q ms)).map (·.name) := by
  rw [fieldNames_eq, mem_dedup]
  right
  rw [List.mem_map]
  unfold paired partner at hp
  unfold pubOf
  by_cases hu : isUnder f = true
  · simp only [hu, if_true] at hp ⊢
    by_cases h1 : (get f (classDict ms).anns).isSome = true
    · refine ⟨f, mem_keys_of_get _ _ h1, ?_⟩
      unfold expose exposed
      simp [hu, h1, hf]
    · have h2 : (get (lstrip f) (classDict ms).anns).isSome = true := by simpa [h1] using hp
      refine ⟨lstrip f, mem_keys_of_get _ _ h2, ?_⟩
      unfold expose exposed
      simp [isUnder_lstrip]
  · have hu' : isUnder f = false := by simpa using hu
    simp only [hu', Bool.false_eq_true, if_false] at hp ⊢
    by_cases h1 : (get f (classDict ms).anns).isSome = true
    · refine ⟨f, mem_keys_of_get _ _ h1, ?_⟩
      unfold expose exposed
      simp [hu']
    · have h2 : (get ('_' :: f) (classDict ms).anns).isSome = true := by simpa [h1] using hp
      refine ⟨'_' :: f, mem_keys_of_get _ _ h2, ?_⟩
      have h3 : isUnder ('_' :: f) = true := by simp [isUnder]
      unfold expose exposed
      simp only [h3, h2, Bool.and_self, Bool.true_and, hu', Bool.not_false, List.contains_eq_mem, hf, decide_true,
        Bool.or_true, if_true]
      rw [lstrip_under, lstrip_of_not_under f hu']

theorem wrapW_omitted (fv : FieldSpec) (n : Nat) :
    (wrapW (some fv) .propObj n).1 = routedDefault fv n
    ∧ (wrapW (some fv) .propObj n).2 = (if fv.factory.isSome then n + 1 else n) := by
  unfold wrapW wrapSet routedDefault
  cases h : fv.factory <;> simp [h]

theorem construct_ok {c0 : Cls} {fs : List DField} {args : List (Name × Val)} {c : Nat} {i : Inst} {c' : Nat}
    (h : construct c0 fs args c = .ok (i, c')) : initLoop c0.attrs args fs {} c = .ok (i, c') := by
  unfold construct at h
  split at h
  · exact h
  · cases h


end DW.C16
