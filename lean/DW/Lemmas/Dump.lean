/- Helper lemmas about the dump model: hook resolution against the generated registration table. -/
import DW.Model.Dump

namespace DW
open DW

@[simp] theorem hookFor_none : hookFor .none = .null := by
  simp only [hookFor, PyVal.mro]; decide
@[simp] theorem hookFor_bool (b : Bool) : hookFor (.bool b) = .bool := by
  simp only [hookFor, PyVal.mro]; decide
@[simp] theorem hookFor_int (i : Int) : hookFor (.int i) = .int := by
  simp only [hookFor, PyVal.mro]; decide
@[simp] theorem hookFor_float (f : PyFloat) : hookFor (.float f) = .float := by
  simp only [hookFor, PyVal.mro]; decide
@[simp] theorem hookFor_str (s : S) : hookFor (.str s) = .str := by
  simp only [hookFor, PyVal.mro]; decide
@[simp] theorem hookFor_bytes (m : Bool) (b : List Nat) : hookFor (.bytes m b) = .bytes := by
  cases m <;> (simp only [hookFor, PyVal.mro]; decide)
@[simp] theorem hookFor_timedelta (us : Int) : hookFor (.timedelta us) = .timedelta := by
  simp only [hookFor, PyVal.mro]; decide
@[simp] theorem hookFor_enum (c m : S) (v : Lit) : hookFor (.enum c m v) = .enum := by
  simp only [hookFor, PyVal.mro]; decide
@[simp] theorem hookFor_decimal (sub : Bool) (t : S) : hookFor (.leaf .decimal sub t) = .decimal := by
  cases sub <;> (simp only [hookFor, PyVal.mro]; decide)
@[simp] theorem hookFor_uuid (sub : Bool) (t : S) : hookFor (.leaf .uuid sub t) = .uuid := by
  cases sub <;> (simp only [hookFor, PyVal.mro]; decide)
@[simp] theorem hookFor_date (sub : Bool) (t : S) : hookFor (.leaf .date sub t) = .date := by
  cases sub <;> (simp only [hookFor, PyVal.mro]; decide)
@[simp] theorem hookFor_time (sub : Bool) (t : S) : hookFor (.leaf .time sub t) = .time := by
  cases sub <;> (simp only [hookFor, PyVal.mro]; decide)
@[simp] theorem hookFor_datetime (sub : Bool) (t : S) : hookFor (.leaf .datetime sub t) = .datetime := by
  cases sub <;> (simp only [hookFor, PyVal.mro]; decide)
@[simp] theorem hookFor_path (sub : Bool) (t : S) : hookFor (.leaf .path sub t) = .default := by
  cases sub <;> (simp only [hookFor, PyVal.mro]; decide)
@[simp] theorem hookFor_list : hookFor (.seq .list []) = .listOrTuple := by
  simp only [hookFor, PyVal.mro]; decide
@[simp] theorem hookFor_set : hookFor (.seq .set []) = .iterable := by
  simp only [hookFor, PyVal.mro]; decide
@[simp] theorem hookFor_frozenset : hookFor (.seq .frozenset []) = .iterable := by
  simp only [hookFor, PyVal.mro]; decide
@[simp] theorem hookFor_deque : hookFor (.seq .deque []) = .iterable := by
  simp only [hookFor, PyVal.mro]; decide
@[simp] theorem hookFor_tuple : hookFor (.tuple []) = .listOrTuple := by
  simp only [hookFor, PyVal.mro]; decide
@[simp] theorem hookFor_dict : hookFor (.map .dict []) = .dict := by
  simp only [hookFor, PyVal.mro]; decide
@[simp] theorem hookFor_defaultdict : hookFor (.map .defaultdict []) = .defaultdict := by
  simp only [hookFor, PyVal.mro]; decide
@[simp] theorem hookFor_ordereddict : hookFor (.map .ordereddict []) = .dict := by
  simp only [hookFor, PyVal.mro]; decide

end DW
