/-
C08 — round trips of the key-casing transforms on canonical snake_case names.

A canonical name is represented by its *word list* (`joinWords ws`): lower-case letters / digits,
single underscores between non-empty words, not starting with a digit.  We prove

* `lisp_roundtrip`, `snake_idem`        — for every canonical name;
* `camel_roundtrip`, `pascal_roundtrip` — for the (weakest, see `chainOk`) sub-class on which the
  statement is true; `camel_roundtrip_witness` / `pascal_roundtrip_witness` are concrete
  counterexamples showing that the statement over all canonical names is false.
-/
import DW.Model.Strings

namespace DW.C08Case
open DW.Str

/-! ### Definitions -/

/-- `'a' ≤ c ≤ 'z'`. -/
def isLoLetter (c : Char) : Bool := c.isLower

/-- A character allowed inside a word of a canonical snake_case name: `[a-z0-9]`. -/
def isWordChar (c : Char) : Bool := c.isLower || c.isDigit

/-- `sep w₁ sep w₂ … sep wₙ` — every word preceded by the separator. -/
def sepTail (sep : Char) : List S → S
  | [] => []
  | w :: ws => sep :: (w ++ sepTail sep ws)

/-- The words joined by a single `sep`: `[w₀, w₁, w₂] ↦ w₀ ++ sep :: w₁ ++ sep :: w₂`, `[] ↦ []`. -/
def joinSep (sep : Char) : List S → S
  | [] => []
  | w :: ws => w ++ sepTail sep ws

/-- The snake_case name with the given words: joined by a single `'_'`. -/
def joinWords (ws : List S) : S := joinSep '_' ws

/-- A non-empty word made of `[a-z0-9]` only. -/
def wordOk (w : S) : Bool := !w.isEmpty && w.all isWordChar

/-- The word starts with a lower-case letter. -/
def startsLower : S → Bool
  | c :: _ => isLoLetter c
  | [] => false

/-- Bool version of `CanonWords`. -/
def canonWords : List S → Bool
  | [] => false
  | w :: ws => startsLower w && (w :: ws).all wordOk

/-- Canonical snake_case, as a word list: at least one word, every word non-empty and made of
lower-case letters / digits, the first word starts with a lower-case letter.  (So `joinWords ws`
matches `[a-z][a-z0-9]*(_[a-z0-9]+)*`.) -/
def CanonWords (ws : List S) : Prop := canonWords ws = true

instance (ws : List S) : Decidable (CanonWords ws) := by unfold CanonWords; infer_instance

/-! ### Character facts -/

theorem isLower_iff (c : Char) : c.isLower = true ↔ 97 ≤ c.val.toNat ∧ c.val.toNat ≤ 122 := by
  simp [Char.isLower, UInt32.le_iff_toNat_le]

theorem isUpper_iff (c : Char) : c.isUpper = true ↔ 65 ≤ c.val.toNat ∧ c.val.toNat ≤ 90 := by
  simp [Char.isUpper, UInt32.le_iff_toNat_le]

theorem isDigit_iff (c : Char) : c.isDigit = true ↔ 48 ≤ c.val.toNat ∧ c.val.toNat ≤ 57 := by
  simp [Char.isDigit, UInt32.le_iff_toNat_le]

theorem toUpper_val_of_lower (c : Char) (h : c.isLower = true) :
    c.toUpper.val.toNat = c.val.toNat - 32 := by
  have h' := (isLower_iff c).1 h
  have hc : 'a'.val ≤ c.val ∧ c.val ≤ 'z'.val := by
    simp [UInt32.le_iff_toNat_le]; exact h'
  unfold Char.toUpper
  rw [dif_pos hc]
  show (c.val + ('A'.val - 'a'.val)).toNat = _
  rw [UInt32.toNat_add]
  have : ('A'.val - 'a'.val).toNat = 4294967264 := by decide
  rw [this]
  omega

theorem toLower_val_of_upper (c : Char) (h : c.isUpper = true) :
    c.toLower.val.toNat = c.val.toNat + 32 := by
  have h' := (isUpper_iff c).1 h
  have hc : c.val ≥ 'A'.val ∧ c.val ≤ 'Z'.val := by
    simp [UInt32.le_iff_toNat_le]; exact h'
  unfold Char.toLower
  rw [dif_pos hc]
  show (c.val + ('a'.val - 'A'.val)).toNat = _
  rw [UInt32.toNat_add]
  have : ('a'.val - 'A'.val).toNat = 32 := by decide
  rw [this]
  omega

theorem toLower_of_not_upper (c : Char) (h : c.isUpper = false) : c.toLower = c := by
  have hc : ¬ (c.val ≥ 'A'.val ∧ c.val ≤ 'Z'.val) := by
    intro hh
    have : c.isUpper = true := by simp [Char.isUpper]; exact hh
    rw [h] at this; exact Bool.noConfusion this
  unfold Char.toLower
  rw [dif_neg hc]

theorem toUpper_of_not_lower (c : Char) (h : c.isLower = false) : c.toUpper = c := by
  have hc : ¬ ('a'.val ≤ c.val ∧ c.val ≤ 'z'.val) := by
    intro hh
    have : c.isLower = true := by simp [Char.isLower]; exact hh
    rw [h] at this; exact Bool.noConfusion this
  unfold Char.toUpper
  rw [dif_neg hc]

theorem char_ext_nat (a b : Char) (h : a.val.toNat = b.val.toNat) : a = b :=
  Char.ext (UInt32.toNat_inj.1 h)

/-- upper-casing a lower-case letter gives an upper-case letter -/
theorem isUpper_toUpper (c : Char) (h : c.isLower = true) : c.toUpper.isUpper = true := by
  rw [isUpper_iff, toUpper_val_of_lower c h]
  have := (isLower_iff c).1 h
  omega

/-- `lower ∘ upper` is the identity on lower-case letters -/
theorem toLower_toUpper (c : Char) (h : c.isLower = true) : c.toUpper.toLower = c := by
  apply char_ext_nat
  rw [toLower_val_of_upper _ (isUpper_toUpper c h), toUpper_val_of_lower c h]
  have := (isLower_iff c).1 h
  omega

theorem wordChar_val (c : Char) (h : isWordChar c = true) :
    (97 ≤ c.val.toNat ∧ c.val.toNat ≤ 122) ∨ (48 ≤ c.val.toNat ∧ c.val.toNat ≤ 57) := by
  unfold isWordChar at h
  rw [Bool.or_eq_true] at h
  rcases h with h | h
  · exact Or.inl ((isLower_iff c).1 h)
  · exact Or.inr ((isDigit_iff c).1 h)

theorem wordChar_not_upper (c : Char) (h : isWordChar c = true) : c.isUpper = false := by
  have hv := wordChar_val c h
  cases hu : c.isUpper with
  | false => rfl
  | true => have := (isUpper_iff c).1 hu; omega

/-- a word character is none of the separators / special characters of the transforms -/
theorem wordChar_ne (c d : Char) (h : isWordChar c = true)
    (hd : d.val.toNat < 48 ∨ (57 < d.val.toNat ∧ d.val.toNat < 97) ∨ 122 < d.val.toNat) : c ≠ d := by
  intro hcd
  subst hcd
  have hv := wordChar_val c h
  omega

theorem upper_ne (c d : Char) (h : c.isUpper = true)
    (hd : d.val.toNat < 65 ∨ 90 < d.val.toNat) : c ≠ d := by
  intro hcd
  subst hcd
  have hv := (isUpper_iff c).1 h
  omega

/-! ### Generic facts about the scanners -/

/-- every character of the word is in `[a-z0-9]` -/
def Plain (w : S) : Prop := ∀ c ∈ w, isWordChar c = true

/-- every word is non-empty and plain -/
def Words (ws : List S) : Prop := ∀ w ∈ ws, w ≠ [] ∧ Plain w

theorem plain_cons {c : Char} {r : S} (h : Plain (c :: r)) : isWordChar c = true ∧ Plain r :=
  ⟨h c (by simp), fun d hd => h d (by simp [hd])⟩

theorem words_cons {w : S} {ws : List S} (h : Words (w :: ws)) : (w ≠ [] ∧ Plain w) ∧ Words ws :=
  ⟨h w (by simp), fun v hv => h v (by simp [hv])⟩

theorem words_of_all {ws : List S} (h : ws.all wordOk = true) : Words ws := by
  intro w hw
  have := List.all_eq_true.1 h w hw
  unfold wordOk at this
  rw [Bool.and_eq_true] at this
  refine ⟨?_, ?_⟩
  · intro he; subst he; simp at this
  · intro c hc; exact List.all_eq_true.1 this.2 c hc

theorem canon_cases {ws : List S} (h : CanonWords ws) :
    ∃ c r rest, ws = (c :: r) :: rest ∧ c.isLower = true ∧ Words ws := by
  unfold CanonWords at h
  match ws, h with
  | (c :: r) :: rest, h =>
    unfold canonWords at h
    rw [Bool.and_eq_true] at h
    exact ⟨c, r, rest, rfl, h.1, words_of_all h.2⟩
  | [] :: rest, h => simp [canonWords, startsLower] at h

theorem replaceChar_id (a b : Char) (s : S) (h : ∀ c ∈ s, c ≠ a) : replaceChar a b s = s := by
  induction s with
  | nil => rfl
  | cons c r ih =>
    have hc : c ≠ a := h c (by simp)
    have hr : ∀ d ∈ r, d ≠ a := fun d hd => h d (by simp [hd])
    have ih' := ih hr
    unfold replaceChar at ih' ⊢
    rw [List.map_cons, ih', if_neg hc]

theorem replaceChar_append (a b : Char) (s t : S) :
    replaceChar a b (s ++ t) = replaceChar a b s ++ replaceChar a b t := by
  simp [replaceChar]

theorem replaceChar_cons (a b c : Char) (s : S) :
    replaceChar a b (c :: s) = (if c = a then b else c) :: replaceChar a b s := by
  simp [replaceChar]

/-- replacing the separator of a joined name (the words do not contain it) -/
theorem replaceChar_sepTail (a b : Char) (ws : List S) (h : ∀ w ∈ ws, ∀ c ∈ w, c ≠ a) :
    replaceChar a b (sepTail a ws) = sepTail b ws := by
  induction ws with
  | nil => rfl
  | cons w ws ih =>
    have hw : ∀ c ∈ w, c ≠ a := h w (by simp)
    have hws : ∀ v ∈ ws, ∀ c ∈ v, c ≠ a := fun v hv => h v (by simp [hv])
    simp only [sepTail]
    rw [replaceChar_cons, if_pos rfl, replaceChar_append, replaceChar_id a b w hw, ih hws]

theorem replaceChar_joinSep (a b : Char) (ws : List S) (h : ∀ w ∈ ws, ∀ c ∈ w, c ≠ a) :
    replaceChar a b (joinSep a ws) = joinSep b ws := by
  cases ws with
  | nil => rfl
  | cons w ws =>
    have hw : ∀ c ∈ w, c ≠ a := h w (by simp)
    have hws : ∀ v ∈ ws, ∀ c ∈ v, c ≠ a := fun v hv => h v (by simp [hv])
    simp only [joinSep]
    rw [replaceChar_append, replaceChar_id a b w hw, replaceChar_sepTail a b ws hws]

theorem mem_sepTail {sep : Char} {ws : List S} {c : Char} (h : c ∈ sepTail sep ws) :
    c = sep ∨ ∃ w ∈ ws, c ∈ w := by
  induction ws with
  | nil => simp [sepTail] at h
  | cons w ws ih =>
    simp only [sepTail, List.mem_cons, List.mem_append] at h
    rcases h with h | h | h
    · exact Or.inl h
    · exact Or.inr ⟨w, by simp, h⟩
    · rcases ih h with h | ⟨v, hv, hc⟩
      · exact Or.inl h
      · exact Or.inr ⟨v, by simp [hv], hc⟩

theorem mem_joinSep {sep : Char} {ws : List S} {c : Char} (h : c ∈ joinSep sep ws) :
    c = sep ∨ ∃ w ∈ ws, c ∈ w := by
  cases ws with
  | nil => simp [joinSep] at h
  | cons w ws =>
    simp only [joinSep, List.mem_append] at h
    rcases h with h | h
    · exact Or.inr ⟨w, by simp, h⟩
    · rcases mem_sepTail h with h | ⟨v, hv, hc⟩
      · exact Or.inl h
      · exact Or.inr ⟨v, by simp [hv], hc⟩

/-- no upper-case letter: the regex of `to_snake_case` never matches -/
theorem snakeSub_noUp (sep : Char) (s : S) (h : ∀ c ∈ s, c.isUpper = false) :
    ∀ prev, snakeSub sep prev s = s := by
  induction s with
  | nil => intro prev; rfl
  | cons c r ih =>
    intro prev
    have hc : c.isUpper = false := h c (by simp)
    have hr : ∀ d ∈ r, d.isUpper = false := fun d hd => h d (by simp [hd])
    simp only [snakeSub, isUp, hc, Bool.false_and, Bool.false_eq_true, if_false, ih hr]

theorem lowerS_noUp (s : S) (h : ∀ c ∈ s, c.isUpper = false) : lowerS s = s := by
  induction s with
  | nil => rfl
  | cons c r ih =>
    have hc : c.isUpper = false := h c (by simp)
    have hr : ∀ d ∈ r, d.isUpper = false := fun d hd => h d (by simp [hd])
    have ih' := ih hr
    unfold lowerS at ih' ⊢
    rw [List.map_cons, ih', toLower_of_not_upper c hc]

/-- both branches of `toSepCase` agree: when the `islower()` shortcut is taken there is no
upper-case letter, so the regex substitution and `.lower()` are the identity anyway. -/
theorem toSepCase_eq (sep other : Char) (s : S) :
    toSepCase sep other s
      = collapse sep (lowerS (snakeSub sep none (replaceChar ' ' sep (replaceChar other sep s)))) := by
  unfold toSepCase
  simp only
  split
  · rename_i h
    unfold pyIsLower at h
    rw [Bool.and_eq_true] at h
    have hno : ∀ c ∈ replaceChar ' ' sep (replaceChar other sep s), c.isUpper = false := by
      intro c hc
      cases hu : c.isUpper with
      | false => rfl
      | true =>
        have : (replaceChar ' ' sep (replaceChar other sep s)).any isUp = true :=
          List.any_eq_true.2 ⟨c, hc, hu⟩
        rw [this] at h
        simp at h
    rw [snakeSub_noUp sep _ hno none, lowerS_noUp _ hno]
  · rfl

theorem collapse_cons_ne (ch c : Char) (rest : S) (h : c ≠ ch) :
    collapse ch (c :: rest) = c :: collapse ch rest := by
  cases rest with
  | nil => simp [collapse]
  | cons d r =>
    rw [collapse]
    rw [if_neg (fun hh => h hh.1)]

theorem collapse_cons_cons_ne (ch c d : Char) (rest : S) (h : d ≠ ch) :
    collapse ch (c :: d :: rest) = c :: collapse ch (d :: rest) := by
  rw [collapse]
  rw [if_neg (fun hh => h hh.2)]

theorem collapse_append_ne (ch : Char) (w X : S) (h : ∀ c ∈ w, c ≠ ch) :
    collapse ch (w ++ X) = w ++ collapse ch X := by
  induction w with
  | nil => rfl
  | cons c r ih =>
    have hc : c ≠ ch := h c (by simp)
    have hr : ∀ d ∈ r, d ≠ ch := fun d hd => h d (by simp [hd])
    rw [List.cons_append, collapse_cons_ne ch c _ hc, ih hr, List.cons_append]

/-- single separators between non-empty separator-free words: nothing to collapse -/
theorem collapse_sepTail (ch : Char) (ws : List S)
    (h : ∀ w ∈ ws, w ≠ [] ∧ ∀ c ∈ w, c ≠ ch) : collapse ch (sepTail ch ws) = sepTail ch ws := by
  induction ws with
  | nil => rfl
  | cons w ws ih =>
    have hw := h w (by simp)
    have hws : ∀ v ∈ ws, v ≠ [] ∧ ∀ c ∈ v, c ≠ ch := fun v hv => h v (by simp [hv])
    cases w with
    | nil => exact absurd rfl hw.1
    | cons c r =>
      have hc : c ≠ ch := hw.2 c (by simp)
      simp only [sepTail, List.cons_append]
      rw [collapse_cons_cons_ne ch ch c _ hc, ← List.cons_append,
        collapse_append_ne ch (c :: r) _ hw.2, ih hws]

theorem collapse_joinSep (ch : Char) (ws : List S)
    (h : ∀ w ∈ ws, w ≠ [] ∧ ∀ c ∈ w, c ≠ ch) : collapse ch (joinSep ch ws) = joinSep ch ws := by
  cases ws with
  | nil => rfl
  | cons w ws =>
    have hw := h w (by simp)
    have hws : ∀ v ∈ ws, v ≠ [] ∧ ∀ c ∈ v, c ≠ ch := fun v hv => h v (by simp [hv])
    simp only [joinSep]
    rw [collapse_append_ne ch w _ hw.2, collapse_sepTail ch ws hws]

/-! ### snake / lisp on canonical names -/

/-- a character that is neither a word character nor an upper-case letter (`'_'`, `'-'`, `' '`, `'\n'`) -/
def Special (d : Char) : Prop :=
  d.val.toNat < 48 ∨ (57 < d.val.toNat ∧ d.val.toNat < 65) ∨ (90 < d.val.toNat ∧ d.val.toNat < 97)
    ∨ 122 < d.val.toNat

theorem special_underscore : Special '_' := by unfold Special; decide
theorem special_dash : Special '-' := by unfold Special; decide
theorem special_space : Special ' ' := by unfold Special; decide
theorem special_nl : Special '\n' := by unfold Special; decide

theorem wordChar_ne_special {c d : Char} (h : isWordChar c = true) (hd : Special d) : c ≠ d := by
  apply wordChar_ne c d h
  unfold Special at hd
  omega

theorem upper_ne_special {c d : Char} (h : c.isUpper = true) (hd : Special d) : c ≠ d := by
  apply upper_ne c d h
  unfold Special at hd
  omega

theorem special_not_upper {d : Char} (hd : Special d) : d.isUpper = false := by
  cases hu : d.isUpper with
  | false => rfl
  | true => exact absurd rfl (upper_ne_special hu hd)

theorem words_ne_special {ws : List S} (hW : Words ws) {d : Char} (hd : Special d) :
    ∀ w ∈ ws, ∀ c ∈ w, c ≠ d :=
  fun w hw c hc => wordChar_ne_special ((hW w hw).2 c hc) hd

theorem words_collapse_hyp {ws : List S} (hW : Words ws) {d : Char} (hd : Special d) :
    ∀ w ∈ ws, w ≠ [] ∧ ∀ c ∈ w, c ≠ d :=
  fun w hw => ⟨(hW w hw).1, fun c hc => wordChar_ne_special ((hW w hw).2 c hc) hd⟩

/-- `to_snake_case` / `to_lisp_case` of a name whose words are joined by either separator:
the words joined by the target separator. -/
theorem toSepCase_join (sep other j : Char) (ws : List S) (hW : Words ws)
    (hsep : Special sep) (hother : Special other) (hj : j = other ∨ (j = sep ∧ sep ≠ other))
    (hsp : sep ≠ ' ') :
    toSepCase sep other (joinSep j ws) = joinSep sep ws := by
  rw [toSepCase_eq]
  have h1 : replaceChar other sep (joinSep j ws) = joinSep sep ws := by
    rcases hj with hj | ⟨hj, hne⟩
    · subst hj
      exact replaceChar_joinSep j sep ws (words_ne_special hW hother)
    · subst hj
      apply replaceChar_id
      intro c hc
      rcases mem_joinSep hc with h | ⟨w, hw, hcw⟩
      · rw [h]; exact hne
      · exact words_ne_special hW hother w hw c hcw
  have h2 : replaceChar ' ' sep (joinSep sep ws) = joinSep sep ws := by
    apply replaceChar_id
    intro c hc
    rcases mem_joinSep hc with h | ⟨w, hw, hcw⟩
    · rw [h]; exact hsp
    · exact words_ne_special hW special_space w hw c hcw
  have hno : ∀ c ∈ joinSep sep ws, c.isUpper = false := by
    intro c hc
    rcases mem_joinSep hc with h | ⟨w, hw, hcw⟩
    · rw [h]; exact special_not_upper hsep
    · exact wordChar_not_upper c ((hW w hw).2 c hcw)
  rw [h1, h2, snakeSub_noUp _ _ hno, lowerS_noUp _ hno,
    collapse_joinSep sep ws (words_collapse_hyp hW hsep)]

/-- `to_lisp_case` of a canonical snake_case name: the same words joined by `'-'`. -/
theorem lisp_of_canon {ws : List S} (h : CanonWords ws) :
    toLisp (joinWords ws) = joinSep '-' ws := by
  obtain ⟨_, _, _, _, _, hW⟩ := canon_cases h
  exact toSepCase_join '-' '_' '_' ws hW special_dash special_underscore (Or.inl rfl) (by decide)

/-- **Property 2.** `to_snake_case` is the identity on canonical snake_case names. -/
theorem snake_idem {ws : List S} (h : CanonWords ws) : toSnake (joinWords ws) = joinWords ws := by
  obtain ⟨_, _, _, _, _, hW⟩ := canon_cases h
  exact toSepCase_join '_' '-' '_' ws hW special_underscore special_dash
    (Or.inr ⟨rfl, by decide⟩) (by decide)

/-- **Property 1.** snake → lisp → snake is the identity on canonical snake_case names. -/
theorem lisp_roundtrip {ws : List S} (h : CanonWords ws) :
    toSnake (toLisp (joinWords ws)) = joinWords ws := by
  rw [lisp_of_canon h]
  obtain ⟨_, _, _, _, _, hW⟩ := canon_cases h
  exact toSepCase_join '_' '-' '-' ws hW special_underscore special_dash (Or.inl rfl) (by decide)

/-- **Counterexample (camel).** `a_b_c ↦ aBC ↦ a_bc`: the camel round trip is *not* the identity on
every canonical name (see `camel_witness_canon`: `a_b_c` is canonical). -/
theorem camel_roundtrip_witness :
    toCamel "a_b_c".toList = some "aBC".toList ∧ toSnake "aBC".toList = "a_bc".toList := by
  decide

/-- the camel counterexample is a canonical name -/
theorem camel_witness_canon :
    CanonWords ["a".toList, "b".toList, "c".toList]
    ∧ joinWords ["a".toList, "b".toList, "c".toList] = "a_b_c".toList := by
  decide

/-- **Counterexample (pascal).** `a_b1 ↦ AB1 ↦ ab1` (the same name survives the camel round trip). -/
theorem pascal_roundtrip_witness :
    toPascal "a_b1".toList = some "AB1".toList ∧ toSnake "AB1".toList = "ab1".toList := by
  decide

/-- the pascal counterexample is a canonical name -/
theorem pascal_witness_canon :
    CanonWords ["a".toList, "b1".toList]
    ∧ joinWords ["a".toList, "b1".toList] = "a_b1".toList := by
  decide

/-! ### camel / pascal -/

/-- The capitalised words concatenated: `[w₁, w₂] ↦ W₁ ++ W₂` where `W` is `w` with its first
character upper-cased.  `to_pascal_case (joinWords ws) = capTail ws` and
`to_camel_case (joinWords (w₀ :: ws)) = w₀ ++ capTail ws` (see `toPascal_join`, `toCamel_join`). -/
def capTail : List S → S
  | [] => []
  | [] :: ws => capTail ws
  | (c :: r) :: ws => c.toUpper :: (r ++ capTail ws)

/-- the second character of the first word exists and is a lower-case letter -/
def secondLower : List S → Bool
  | (_ :: d :: _) :: _ => isLoLetter d
  | _ => false

/-- Every *capitalised* word that is followed by another word either has length ≥ 2 (so the
character before the next capital is `[a-z0-9]`, second alternative of the regex) or is a single
letter and the next word's second character is a lower-case letter (first alternative
`(?<!_)[A-Z][a-z]+`).  This is exactly the condition under which `to_snake_case` re-inserts every
underscore: `a_b_c ↦ aBC ↦ a_bc` violates it, `a_b_cd ↦ aBCd ↦ a_b_cd` satisfies it. -/
def chainOk : List S → Bool
  | [] => true
  | w :: ws => (decide (2 ≤ w.length) || ws.isEmpty || secondLower ws) && chainOk ws

/-- Canonical names on which snake → camel → snake is the identity: every word after the first
starts with a lower-case letter (a leading digit has no upper case, `a_1b ↦ a1b`), and the words
after the first satisfy `chainOk`.  Implied by "every word after the first is `[a-z][a-z0-9]+`"
(`camelSafe_of_len2`). -/
def CamelSafe (ws : List S) : Prop :=
  CanonWords ws ∧ ws.tail.all startsLower = true ∧ chainOk ws.tail = true

/-- Same for pascal: here the first word is capitalised as well, so it takes part in `chainOk`
(`a_b1 ↦ AB1 ↦ ab1` fails, `a_bc ↦ ABc ↦ a_bc` and `ab_c1 ↦ AbC1 ↦ ab_c1` are fine). -/
def PascalSafe (ws : List S) : Prop :=
  CanonWords ws ∧ ws.tail.all startsLower = true ∧ chainOk ws = true

instance (ws : List S) : Decidable (CamelSafe ws) := by unfold CamelSafe; infer_instance
instance (ws : List S) : Decidable (PascalSafe ws) := by unfold PascalSafe; infer_instance

theorem camelTail_cons_ne (c : Char) (X : S) (h : c ≠ '_') :
    camelTail (c :: X) = c :: camelTail X := by
  cases X with
  | nil => simp [camelTail]
  | cons d r => rw [camelTail, if_neg h]

theorem camelTail_append (w X : S) (h : ∀ c ∈ w, c ≠ '_') :
    camelTail (w ++ X) = w ++ camelTail X := by
  induction w with
  | nil => rfl
  | cons c r ih =>
    have hc : c ≠ '_' := h c (by simp)
    have hr : ∀ d ∈ r, d ≠ '_' := fun d hd => h d (by simp [hd])
    rw [List.cons_append, camelTail_cons_ne c _ hc, ih hr, List.cons_append]

theorem camelTail_sepTail (ws : List S) (hW : Words ws) :
    camelTail (sepTail '_' ws) = capTail ws := by
  induction ws with
  | nil => rfl
  | cons w ws ih =>
    obtain ⟨⟨hne, hp⟩, hws⟩ := words_cons hW
    cases w with
    | nil => exact absurd rfl hne
    | cons c r =>
      obtain ⟨hc, hr⟩ := plain_cons hp
      have hnl : c ≠ '\n' := wordChar_ne_special hc special_nl
      have hr' : ∀ d ∈ r, d ≠ '_' := fun d hd => wordChar_ne_special (hr d hd) special_underscore
      simp only [sepTail, capTail, List.cons_append]
      rw [camelTail, if_pos rfl, if_neg hnl, camelTail_append r _ hr', ih hws]

theorem normSep_join (ws : List S) (hW : Words ws) : normSep (joinWords ws) = joinWords ws := by
  unfold normSep joinWords
  have hmem : ∀ d, Special d → d ≠ '_' → ∀ c ∈ joinSep '_' ws, c ≠ d := by
    intro d hd hne c hc
    rcases mem_joinSep hc with h | ⟨w, hw, hcw⟩
    · rw [h]; exact fun e => hne e.symm
    · exact words_ne_special hW hd w hw c hcw
  rw [replaceChar_id '-' '_' _ (hmem '-' special_dash (by decide)),
    replaceChar_id ' ' '_' _ (hmem ' ' special_space (by decide)),
    collapse_joinSep '_' ws (words_collapse_hyp hW special_underscore)]

theorem toCamel_join (c : Char) (r : S) (rest : List S)
    (hW : Words ((c :: r) :: rest)) :
    toCamel (joinWords ((c :: r) :: rest)) = some (c :: (r ++ capTail rest)) := by
  obtain ⟨⟨_, hp⟩, hrest⟩ := words_cons hW
  obtain ⟨hcw, hr⟩ := plain_cons hp
  have hr' : ∀ d ∈ r, d ≠ '_' := fun d hd => wordChar_ne_special (hr d hd) special_underscore
  unfold toCamel
  rw [normSep_join _ hW]
  simp only [joinWords, joinSep, List.cons_append]
  rw [camelTail_append r _ hr', camelTail_sepTail rest hrest,
    toLower_of_not_upper c (wordChar_not_upper c hcw)]

theorem toPascal_join (c : Char) (r : S) (rest : List S)
    (hW : Words ((c :: r) :: rest)) :
    toPascal (joinWords ((c :: r) :: rest)) = some (capTail ((c :: r) :: rest)) := by
  obtain ⟨⟨_, hp⟩, hrest⟩ := words_cons hW
  obtain ⟨hcw, hr⟩ := plain_cons hp
  have hr' : ∀ d ∈ r, d ≠ '_' := fun d hd => wordChar_ne_special (hr d hd) special_underscore
  unfold toPascal
  rw [normSep_join _ hW]
  simp only [joinWords, joinSep, List.cons_append, capTail]
  rw [camelTail_append r _ hr', camelTail_sepTail rest hrest]

/-! #### back to snake -/

theorem lowerS_cons (c : Char) (s : S) : lowerS (c :: s) = c.toLower :: lowerS s := rfl

theorem snakeSub_cons_noUp (sep : Char) (prev : Option Char) (c : Char) (r : S)
    (h : c.isUpper = false) : snakeSub sep prev (c :: r) = c :: snakeSub sep (some c) r := by
  simp only [snakeSub, isUp, h, Bool.false_and, Bool.false_eq_true, if_false]

theorem snakeSub_none_cons (sep : Char) (c : Char) (r : S) :
    snakeSub sep none (c :: r) = c :: snakeSub sep (some c) r := by
  simp [snakeSub]

/-- second alternative `(?<=[a-z0-9])[A-Z]` -/
theorem snakeSub_cons_up_alt2 (sep p c : Char) (r : S) (hc : c.isUpper = true)
    (hp : isLoOrDig p = true) :
    snakeSub sep (some p) (c :: r) = sep :: c :: snakeSub sep (some c) r := by
  simp [snakeSub, isUp, hc, hp]

/-- first alternative `(?!^)(?<!SEP)[A-Z][a-z]+` -/
theorem snakeSub_cons_up_alt1 (sep p c d : Char) (r : S) (hc : c.isUpper = true)
    (hp : p ≠ sep) (hd : d.isLower = true) :
    snakeSub sep (some p) (c :: d :: r) = sep :: c :: snakeSub sep (some c) (d :: r) := by
  simp [snakeSub, isUp, isLo, hc, hp, hd]

theorem wordChar_isLoOrDig {c : Char} (h : isWordChar c = true) : isLoOrDig c = true := h

/-- walking through the rest of a word: nothing is inserted, the state stays "previous is `[a-z0-9]`" -/
theorem snake_plain_append (X Y : S)
    (hX : ∀ p, isLoOrDig p = true → lowerS (snakeSub '_' (some p) X) = Y) :
    ∀ r, Plain r → ∀ p, isLoOrDig p = true →
      lowerS (snakeSub '_' (some p) (r ++ X)) = r ++ Y := by
  intro r
  induction r with
  | nil => intro _ p hp; exact hX p hp
  | cons c r ih =>
    intro hpl p _
    obtain ⟨hc, hr⟩ := plain_cons hpl
    have hnu := wordChar_not_upper c hc
    rw [List.cons_append, snakeSub_cons_noUp '_' _ c _ hnu, lowerS_cons,
      toLower_of_not_upper c hnu, ih hr c (wordChar_isLoOrDig hc), List.cons_append]

/-- the state in which the scanner re-inserts the underscore before the next capital -/
def PrevOk (p : Char) (ws : List S) : Prop :=
  isLoOrDig p = true ∨ ws = [] ∨ (p ≠ '_' ∧ secondLower ws = true)

/-- after a capital `C`: the rest `r` of its word, then the remaining capitalised words -/
theorem snake_after_cap (C : Char) (r : S) (ws : List S) (hC : C.isUpper = true) (hr : Plain r)
    (hlen : (decide (2 ≤ (C :: r).length) || ws.isEmpty || secondLower ws) = true)
    (HM : ∀ p, PrevOk p ws → lowerS (snakeSub '_' (some p) (capTail ws)) = sepTail '_' ws) :
    lowerS (snakeSub '_' (some C) (r ++ capTail ws)) = r ++ sepTail '_' ws := by
  cases r with
  | nil =>
    simp only [List.nil_append]
    apply HM
    simp only [List.length_cons, List.length_nil, Bool.or_eq_true, decide_eq_true_eq,
      List.isEmpty_iff] at hlen
    rcases hlen with (h | h) | h
    · omega
    · exact Or.inr (Or.inl h)
    · exact Or.inr (Or.inr ⟨upper_ne_special hC special_underscore, h⟩)
  | cons d r2 =>
    obtain ⟨hd, hr2⟩ := plain_cons hr
    have hnu := wordChar_not_upper d hd
    rw [List.cons_append, snakeSub_cons_noUp '_' _ d _ hnu, lowerS_cons,
      toLower_of_not_upper d hnu,
      snake_plain_append (capTail ws) (sepTail '_' ws) (fun p hp => HM p (Or.inl hp)) r2 hr2 d
        (wordChar_isLoOrDig hd), List.cons_append]

/-- **Key lemma.** On the capitalised tail of a safe word list, `to_snake_case`'s regex
substitution followed by `.lower()` re-creates `_w₁_w₂…`. -/
theorem snake_capTail : ∀ ws : List S, Words ws → ws.all startsLower = true → chainOk ws = true →
    ∀ p, PrevOk p ws → lowerS (snakeSub '_' (some p) (capTail ws)) = sepTail '_' ws := by
  intro ws
  induction ws with
  | nil => intro _ _ _ p _; rfl
  | cons w ws ih =>
    intro hW hS hC p hp
    obtain ⟨⟨hne, hpl⟩, hWs⟩ := words_cons hW
    rw [List.all_cons, Bool.and_eq_true] at hS
    cases w with
    | nil => exact absurd rfl hne
    | cons c r =>
      obtain ⟨_, hr⟩ := plain_cons hpl
      have hcl : c.isLower = true := hS.1
      have hup := isUpper_toUpper c hcl
      rw [chainOk, Bool.and_eq_true] at hC
      have hins : snakeSub '_' (some p) (capTail ((c :: r) :: ws))
          = '_' :: c.toUpper :: snakeSub '_' (some c.toUpper) (r ++ capTail ws) := by
        simp only [capTail]
        rcases hp with hp | hp | ⟨hp, h2⟩
        · exact snakeSub_cons_up_alt2 '_' p _ _ hup hp
        · exact absurd hp (by simp)
        · cases r with
          | nil => simp [secondLower] at h2
          | cons d r2 =>
            rw [List.cons_append]
            exact snakeSub_cons_up_alt1 '_' p _ d _ hup hp h2
      have hlen : (decide (2 ≤ (c.toUpper :: r).length) || ws.isEmpty || secondLower ws) = true := by
        simpa using hC.1
      rw [hins, lowerS_cons, lowerS_cons, toLower_toUpper c hcl,
        snake_after_cap c.toUpper r ws hup hr hlen (ih hWs hS.2 hC.2)]
      simp [sepTail]

theorem mem_capTail {ws : List S} (hW : Words ws) {c : Char} (h : c ∈ capTail ws) :
    isWordChar c = true ∨ c.isUpper = true := by
  induction ws with
  | nil => simp [capTail] at h
  | cons w ws ih =>
    obtain ⟨⟨hne, hpl⟩, hWs⟩ := words_cons hW
    cases w with
    | nil => exact absurd rfl hne
    | cons c0 r =>
      obtain ⟨hc0, hr⟩ := plain_cons hpl
      simp only [capTail, List.mem_cons, List.mem_append] at h
      rcases h with h | h | h
      · subst h
        cases hl : c0.isLower with
        | true => exact Or.inr (isUpper_toUpper c0 hl)
        | false => rw [toUpper_of_not_lower c0 hl]; exact Or.inl hc0
      · exact Or.inl (hr c h)
      · exact ih hWs h

/-- a camel / pascal string contains none of the characters `to_snake_case` replaces -/
theorem camelChar_ne_special {c d : Char} (h : isWordChar c = true ∨ c.isUpper = true)
    (hd : Special d) : c ≠ d := by
  rcases h with h | h
  · exact wordChar_ne_special h hd
  · exact upper_ne_special h hd

/-- `to_snake_case` of a string without `'-'`, `' '`, given what the scanner produces -/
theorem toSnake_of_scan (cs : S) (ws : List S) (hW : Words ws)
    (hmem : ∀ c ∈ cs, isWordChar c = true ∨ c.isUpper = true)
    (hscan : lowerS (snakeSub '_' none cs) = joinSep '_' ws) : toSnake cs = joinWords ws := by
  unfold toSnake joinWords
  rw [toSepCase_eq,
    replaceChar_id '-' '_' cs (fun c hc => camelChar_ne_special (hmem c hc) special_dash),
    replaceChar_id ' ' '_' cs (fun c hc => camelChar_ne_special (hmem c hc) special_space),
    hscan, collapse_joinSep '_' ws (words_collapse_hyp hW special_underscore)]

/-- **Property 4.** snake → camel → snake is the identity on `CamelSafe` names. -/
theorem camel_roundtrip {ws : List S} (h : CamelSafe ws) :
    ∃ c, toCamel (joinWords ws) = some c ∧ toSnake c = joinWords ws := by
  obtain ⟨hcan, hS, hC⟩ := h
  obtain ⟨c, r, rest, rfl, hcl, hW⟩ := canon_cases hcan
  obtain ⟨⟨_, hpl⟩, hWs⟩ := words_cons hW
  obtain ⟨hcw, hr⟩ := plain_cons hpl
  simp only [List.tail_cons] at hS hC
  refine ⟨_, toCamel_join c r rest hW, ?_⟩
  apply toSnake_of_scan _ _ hW
  · intro d hd
    simp only [List.mem_cons, List.mem_append] at hd
    rcases hd with hd | hd | hd
    · subst hd; exact Or.inl hcw
    · exact Or.inl (hr d hd)
    · exact mem_capTail hWs hd
  · have hnu := wordChar_not_upper c hcw
    rw [snakeSub_none_cons, lowerS_cons, toLower_of_not_upper c hnu,
      snake_plain_append (capTail rest) (sepTail '_' rest)
        (fun p hp => snake_capTail rest hWs hS hC p (Or.inl hp)) r hr c (wordChar_isLoOrDig hcw)]
    simp [joinSep]

/-- **Property 5.** snake → pascal → snake is the identity on `PascalSafe` names. -/
theorem pascal_roundtrip {ws : List S} (h : PascalSafe ws) :
    ∃ c, toPascal (joinWords ws) = some c ∧ toSnake c = joinWords ws := by
  obtain ⟨hcan, hS, hC⟩ := h
  obtain ⟨c, r, rest, rfl, hcl, hW⟩ := canon_cases hcan
  obtain ⟨⟨_, hpl⟩, hWs⟩ := words_cons hW
  obtain ⟨hcw, hr⟩ := plain_cons hpl
  simp only [List.tail_cons] at hS
  rw [chainOk, Bool.and_eq_true] at hC
  have hup := isUpper_toUpper c hcl
  refine ⟨_, toPascal_join c r rest hW, ?_⟩
  apply toSnake_of_scan _ _ hW
  · intro d hd; exact mem_capTail hW hd
  · have hlen : (decide (2 ≤ (c.toUpper :: r).length) || rest.isEmpty || secondLower rest) = true := by
      simpa using hC.1
    simp only [capTail]
    rw [snakeSub_none_cons, lowerS_cons, toLower_toUpper c hcl,
      snake_after_cap c.toUpper r rest hup hr hlen (snake_capTail rest hWs hS hC.2)]
    simp [joinSep]

/-! ### Readable characterisations and sufficient conditions -/

/-- `CanonWords` unfolded: at least one word, every word non-empty and in `[a-z0-9]*`, the first
word starts with a lower-case letter. -/
theorem canonWords_iff (ws : List S) :
    CanonWords ws ↔
      (∀ w ∈ ws, w ≠ [] ∧ ∀ c ∈ w, isWordChar c = true)
      ∧ ∃ c r rest, ws = (c :: r) :: rest ∧ isLoLetter c = true := by
  constructor
  · intro h
    obtain ⟨c, r, rest, hws, hc, hW⟩ := canon_cases h
    exact ⟨hW, c, r, rest, hws, hc⟩
  · rintro ⟨hW, c, r, rest, rfl, hc⟩
    unfold CanonWords canonWords
    rw [Bool.and_eq_true]
    refine ⟨hc, List.all_eq_true.2 ?_⟩
    intro w hw
    obtain ⟨hne, hpl⟩ := hW w hw
    unfold wordOk
    rw [Bool.and_eq_true]
    refine ⟨?_, List.all_eq_true.2 hpl⟩
    cases w with
    | nil => exact absurd rfl hne
    | cons _ _ => rfl

theorem chainOk_of_len2 (ws : List S) (h : ∀ w ∈ ws, 2 ≤ w.length) : chainOk ws = true := by
  induction ws with
  | nil => rfl
  | cons w ws ih =>
    have hw : 2 ≤ w.length := h w (by simp)
    have hws : ∀ v ∈ ws, 2 ≤ v.length := fun v hv => h v (by simp [hv])
    rw [chainOk, ih hws]
    simp [hw]

theorem chainOk_tail (ws : List S) (h : chainOk ws = true) : chainOk ws.tail = true := by
  cases ws with
  | nil => rfl
  | cons w ws =>
    rw [chainOk, Bool.and_eq_true] at h
    exact h.2

/-- the pascal-safe names are camel-safe -/
theorem camelSafe_of_pascalSafe {ws : List S} (h : PascalSafe ws) : CamelSafe ws :=
  ⟨h.1, h.2.1, chainOk_tail ws h.2.2⟩

/-- The simple sufficient condition: a canonical name all of whose words after the first are
`[a-z][a-z0-9]+` (start with a letter, length ≥ 2) is camel-safe. -/
theorem camelSafe_of_len2 {ws : List S} (h : CanonWords ws)
    (ht : ∀ w ∈ ws.tail, startsLower w = true ∧ 2 ≤ w.length) : CamelSafe ws :=
  ⟨h, List.all_eq_true.2 (fun w hw => (ht w hw).1),
    chainOk_of_len2 _ (fun w hw => (ht w hw).2)⟩

/-- The simple sufficient condition for pascal: additionally the first word has length ≥ 2
(only needed when there is a second word whose second character is not a lower-case letter,
see `chainOk`). -/
theorem pascalSafe_of_len2 {ws : List S} (h : CanonWords ws)
    (ht : ∀ w ∈ ws.tail, startsLower w = true ∧ 2 ≤ w.length)
    (h0 : ∀ w ∈ ws.head?, 2 ≤ w.length) : PascalSafe ws := by
  refine ⟨h, List.all_eq_true.2 (fun w hw => (ht w hw).1), chainOk_of_len2 _ ?_⟩
  intro w hw
  cases ws with
  | nil => simp at hw
  | cons w0 rest =>
    rcases List.mem_cons.1 hw with hw | hw
    · subst hw; exact h0 w (by simp)
    · exact (ht w hw).2

/-- The class the Python property test draws from: every word is `[a-z]{2,}[0-9]*`, here relaxed to
"non-empty list of words in `[a-z][a-z0-9]+`".  Such names are canonical, camel- and pascal-safe. -/
theorem safe_of_property_class {ws : List S} (hne : ws ≠ [])
    (h : ∀ w ∈ ws, wordOk w = true ∧ startsLower w = true ∧ 2 ≤ w.length) :
    CanonWords ws ∧ CamelSafe ws ∧ PascalSafe ws := by
  have hcan : CanonWords ws := by
    cases ws with
    | nil => exact absurd rfl hne
    | cons w rest =>
      unfold CanonWords canonWords
      rw [Bool.and_eq_true]
      exact ⟨(h w (by simp)).2.1, List.all_eq_true.2 (fun v hv => (h v hv).1)⟩
  have hp : PascalSafe ws := by
    apply pascalSafe_of_len2 hcan
    · intro w hw
      have := h w (List.mem_of_mem_tail hw)
      exact ⟨this.2.1, this.2.2⟩
    · intro w hw
      exact (h w (List.mem_of_mem_head? hw)).2.2
  exact ⟨hcan, camelSafe_of_pascalSafe hp, hp⟩

/-- the three round trips on the property's class, in one statement -/
theorem roundtrips_property_class {ws : List S} (hne : ws ≠ [])
    (h : ∀ w ∈ ws, wordOk w = true ∧ startsLower w = true ∧ 2 ≤ w.length) :
    toSnake (toLisp (joinWords ws)) = joinWords ws
    ∧ (∃ c, toCamel (joinWords ws) = some c ∧ toSnake c = joinWords ws)
    ∧ (∃ c, toPascal (joinWords ws) = some c ∧ toSnake c = joinWords ws) := by
  obtain ⟨hcan, hc, hp⟩ := safe_of_property_class hne h
  exact ⟨lisp_roundtrip hcan, camel_roundtrip hc, pascal_roundtrip hp⟩

/-! ### The safe classes are not just sufficient (exhaustive check on a small universe)

`camel_roundtrip` / `pascal_roundtrip` above are the general theorems.  The following is only a
sanity check of the *converse* (that `CamelSafe` / `PascalSafe` cannot be weakened): over every
canonical list of at most three words drawn from `a, 1, ab, a1, 1a` the round trip holds **iff** the
name is in the safe class.  (Outside the kernel the same equivalence was checked with `#eval` on
the 40586 canonical lists of ≤ 3 words of ≤ 3 characters over `{a, z, 1}`.) -/

/-- `to_snake_case (to_camel_case s) == s` -/
def camelRT (ws : List S) : Bool := (toCamel (joinWords ws)).map toSnake == some (joinWords ws)
/-- `to_snake_case (to_pascal_case s) == s` -/
def pascalRT (ws : List S) : Bool := (toPascal (joinWords ws)).map toSnake == some (joinWords ws)

def smallWords : List S := [['a'], ['1'], ['a', 'b'], ['a', '1'], ['1', 'a']]
def smallLists : List (List S) :=
  smallWords.map (fun a => [a])
  ++ smallWords.flatMap (fun a => smallWords.map (fun b => [a, b]))
  ++ smallWords.flatMap (fun a => smallWords.flatMap (fun b => smallWords.map (fun c => [a, b, c])))

theorem safe_classes_exact_small :
    smallLists.all (fun ws => !canonWords ws ||
      (camelRT ws == decide (CamelSafe ws) && pascalRT ws == decide (PascalSafe ws))) = true := by
  decide

end DW.C08Case
