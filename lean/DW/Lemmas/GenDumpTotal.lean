/-
The interpreter of the generated dump function agrees with a reference run *including the calls that raise*: no assumption
about the skip comparisons.  A comparison that raises makes the call raise (in the order the generated code evaluates them:
all skip-defaults tests first, then field by field), and the body generated for a class never reaches a statement form the
interpreter does not know.
-/
import DW.Lemmas.GenDumpSem

namespace DW.GenDump
open DW DW.Names

/-- an error of a comparison of the dump model, as the call's exception -/
def liftB (r : Except DErr Bool) : Except SErr Bool :=
  match r with
  | .ok b => .ok b
  | .error e => .error (.raised e)

theorem condResult_eq_liftB (c : Cond) (v : PyVal) : condResult c v = liftB (evalCondE c v) := by
  unfold condResult evalCondE liftB
  cases evalCond c v <;> rfl

/-- the right-hand side of a skip-defaults line, whatever the test does -/
theorem evalB_sd_rhs_gen (p : Char → Bool) (ρ : Env) (eff : MetaCfg) (args : DumpArgs) (fks : List (FieldInfo × S))
    (vals : S → PyVal) (W : World p eff args fks vals ρ) (vars : S → Option Bool) (i : Nat) (fi : FieldInfo) (k : S) (d : Dflt)
    (hi : fks[i]? = some (fi, k)) (hd : fi.dflt = some d) :
    evalB ρ vars (sdRhs p (ginOf eff fks) i (gfieldOf fi k)) = liftB (defaultTest eff fi (vals fi.name)) := by
  cases hr : defaultTest eff fi (vals fi.name) with
  | ok b => exact evalB_sd_rhs p ρ eff args fks vals W vars i fi k d hi hd b hr
  | error e =>
    unfold defaultTest at hr
    simp only [hd] at hr
    unfold sdRhs
    have hname : (gfieldOf fi k).name = fi.name := rfl
    rw [hname]
    cases hs : eff.skipDefaultsIf with
    | none => simp [hs, pure, Except.pure] at hr
    | some c =>
      simp only [hs] at hr
      simp only [ginOf, hs, Option.map]
      rw [evalB_final p ρ vars c fi.name (vals fi.name) skipDefaultsValue (W.field _)
        (fun hbd => W.skipDefaultsValue c hs hbd) (by decide), condResult_eq_liftB, hr]

/-- the bookkeeping value of a field after the `if skip_defaults:` block (when the block runs) -/
def sk2On (eff : MetaCfg) (args : DumpArgs) (fi : FieldInfo) (v : PyVal) : Except SErr Bool :=
  if excluded args fi then .ok true else liftB (defaultTest eff fi v)

/-- all of them, in field order: the first test that raises ends the call -/
def phase2On (eff : MetaCfg) (args : DumpArgs) (vals : S → PyVal) : List (FieldInfo × S) → Except SErr (List Bool)
  | [] => .ok []
  | q :: r => do
    let b ← sk2On eff args q.1 (vals q.1.name)
    let bs ← phase2On eff args vals r
    pure (b :: bs)

theorem execL1s_cons_err (ρ : Env) (σ : St) (s : Simple) (sep : S) (r : List L1) (e : SErr) (h : execSimple ρ σ s = .error e) :
    execL1s ρ σ (L1.line { parts := [s], sep := sep } :: r) = .error e := by
  simp [execL1s, L1.exec, L0.exec, execSimples, h, bind, Except.bind]

theorem exec_assign_err (ρ : Env) (σ : St) (n : S) (l r : Expr) (o : Op) (tight : Bool) (e : SErr)
    (he : evalB ρ σ.get (.bin l o r) = .error e) :
    execSimple ρ σ (.assign tight [.name n] (.bin l o r)) = .error e := by
  simp [execSimple, he, bind, Except.bind]

/-- the lines under `if skip_defaults:`, in general: they compute `phase2On`, or raise where it raises -/
theorem exec_sdLines_gen (p : Char → Bool) (ρ : Env) (eff : MetaCfg) (args : DumpArgs) (fks : List (FieldInfo × S))
    (vals : S → PyVal) (W : World p eff args fks vals ρ) :
    ∀ (fs : List (FieldInfo × S)) (i : Nat) (σ : St), fks.drop i = fs →
      (∀ j (hj : j < fs.length), σ.get (skipName (i + j)) = some (excluded args (fs[j]).1)) →
      (∀ bs, phase2On eff args vals fs = .ok bs →
        ∃ σ', execL1s ρ σ (skipDefaultLines p (ginOf eff fks) i (fs.map (fun q => gfieldOf q.1 q.2))) = .ok σ' ∧
          σ'.out = σ.out ∧ bs.length = fs.length ∧
          (∀ j, j < fs.length → σ'.get (skipName (i + j)) = bs[j]?) ∧
          (∀ m, (∀ j, j < fs.length → m ≠ skipName (i + j)) → σ'.get m = σ.get m)) ∧
      (∀ e, phase2On eff args vals fs = .error e →
        execL1s ρ σ (skipDefaultLines p (ginOf eff fks) i (fs.map (fun q => gfieldOf q.1 q.2))) = .error e)
  | [], _, σ, _, _ => by
    refine ⟨?_, ?_⟩
    · intro bs h
      simp only [phase2On, Except.ok.injEq] at h; subst h
      exact ⟨σ, rfl, rfl, rfl, by simp, fun _ _ => rfl⟩
    · intro e h; simp [phase2On] at h
  | (fi, k) :: r, i, σ, hdrop, hvars => by
    obtain ⟨hget, hdrop'⟩ := drop_cons_get fks i (fi, k) r hdrop
    have ha0 : σ.get (skipName i) = some (excluded args fi) := by
      have := hvars 0 (by simp)
      simpa only [Nat.add_zero, List.getElem_cons_zero] using this
    -- this field's step: either its `_skip_<i>` now holds `b` (= its sk2On value), or the call raises
    have step : (∀ b, sk2On eff args fi (vals fi.name) = .ok b →
          ∃ σ1, execL1s ρ σ (skipDefaultLines p (ginOf eff fks) i (((fi, k) :: r).map (fun q => gfieldOf q.1 q.2))) =
              execL1s ρ σ1 (skipDefaultLines p (ginOf eff fks) (i + 1) (r.map (fun q => gfieldOf q.1 q.2))) ∧
            σ1.out = σ.out ∧ σ1.get (skipName i) = some b ∧ (∀ m, m ≠ skipName i → σ1.get m = σ.get m)) ∧
        (∀ e, sk2On eff args fi (vals fi.name) = .error e →
          execL1s ρ σ (skipDefaultLines p (ginOf eff fks) i (((fi, k) :: r).map (fun q => gfieldOf q.1 q.2))) = .error e) := by
      cases hd : fi.dflt with
      | none =>
        have hdt : defaultTest eff fi (vals fi.name) = .ok false := by unfold defaultTest; simp [hd, pure, Except.pure]
        have hsk : sk2On eff args fi (vals fi.name) = .ok (excluded args fi) := by
          unfold sk2On; rw [hdt]; cases excluded args fi <;> rfl
        refine ⟨?_, ?_⟩
        · intro b hb
          rw [hsk] at hb; simp only [Except.ok.injEq] at hb; subst hb
          refine ⟨σ, ?_, rfl, ha0, fun _ _ => rfl⟩
          rw [List.map_cons, sdl_cons_nodefault _ _ _ _ _ (by simp [gfieldOf, hd])]
        · intro e he; rw [hsk] at he; cases he
      | some d =>
        have hrhs := evalB_sd_rhs_gen p ρ eff args fks vals W σ.get i fi k d hget hd
        have hev : evalB ρ σ.get (.bin (.name (skipName i)) .or_ (sdRhs p (ginOf eff fks) i (gfieldOf fi k))) =
            sk2On eff args fi (vals fi.name) := by
          rw [evalB_or' ρ σ.get _ _ _ (evalB_skipVar ρ σ i _ ha0), hrhs]
          unfold sk2On
          cases excluded args fi <;> rfl
        have hshape := sdl_cons_default p (ginOf eff fks) i (gfieldOf fi k) (r.map (fun q => gfieldOf q.1 q.2))
          (by simp [gfieldOf, hd])
        refine ⟨?_, ?_⟩
        · intro b hb
          refine ⟨σ.set (skipName i) b, ?_, by simp [St.set], get_set_same _ _ _, fun m hm => get_set_ne σ _ m _ hm⟩
          rw [List.map_cons, hshape]
          exact execL1s_cons_line1 ρ σ _ _ _ _
            (exec_assign_bool ρ σ (skipName i) _ b false (by rw [hev, hb]) (fun _ _ _ _ => trivial) ⟨_, _, _, rfl⟩)
        · intro e he
          rw [List.map_cons, hshape]
          exact execL1s_cons_err ρ σ _ _ _ e (exec_assign_err ρ σ _ _ _ _ _ e (by rw [hev, he]))
    obtain ⟨stepOk, stepErr⟩ := step
    refine ⟨?_, ?_⟩
    · intro bs h
      simp only [phase2On, bind, Except.bind] at h
      cases hb : sk2On eff args fi (vals fi.name) with
      | error e => simp [hb] at h
      | ok b =>
        simp only [hb] at h
        cases hbs : phase2On eff args vals r with
        | error e => simp [hbs] at h
        | ok bs' =>
          simp only [hbs, pure, Except.pure, Except.ok.injEq] at h; subst h
          obtain ⟨σ1, hs1, hs2, hs3, hs4⟩ := stepOk b hb
          have hvars1 : ∀ j (hj : j < r.length), σ1.get (skipName (i + 1 + j)) = some (excluded args (r[j]).1) := by
            intro j hj
            rw [hs4 _ (skipName_ne _ _ (by omega))]
            have := hvars (j + 1) (by simp; omega)
            simpa [show i + (j + 1) = i + 1 + j by omega] using this
          obtain ⟨σ', h1, h2, hl, h3, h4⟩ := (exec_sdLines_gen p ρ eff args fks vals W r (i + 1) σ1 hdrop' hvars1).1 bs' hbs
          refine ⟨σ', by rw [hs1]; exact h1, by rw [h2, hs2], by simp [hl], ?_, ?_⟩
          · intro j hj
            cases j with
            | zero =>
              simp only [Nat.add_zero, List.getElem?_cons_zero]
              rw [h4 (skipName i) (fun j _ => skipName_ne _ _ (by omega))]
              exact hs3
            | succ j =>
              have := h3 j (by simpa using hj)
              simpa [show i + 1 + j = i + (j + 1) by omega] using this
          · intro m hm
            rw [h4 m (fun j hj => by
              have := hm (j + 1) (by simp; omega)
              rwa [show i + (j + 1) = i + 1 + j by omega] at this)]
            exact hs4 m (by simpa using hm 0 (by simp))
    · intro e h
      simp only [phase2On, bind, Except.bind] at h
      cases hb : sk2On eff args fi (vals fi.name) with
      | error e' =>
        simp only [hb, Except.error.injEq] at h; subst h
        exact stepErr e' hb
      | ok b =>
        simp only [hb] at h
        cases hbs : phase2On eff args vals r with
        | ok bs' => simp [hbs, pure, Except.pure] at h
        | error e' =>
          simp only [hbs, Except.error.injEq] at h; subst h
          obtain ⟨σ1, hs1, hs2, hs3, hs4⟩ := stepOk b hb
          have hvars1 : ∀ j (hj : j < r.length), σ1.get (skipName (i + 1 + j)) = some (excluded args (r[j]).1) := by
            intro j hj
            rw [hs4 _ (skipName_ne _ _ (by omega))]
            have := hvars (j + 1) (by simp; omega)
            simpa [show i + (j + 1) = i + 1 + j by omega] using this
          rw [hs1]
          exact (exec_sdLines_gen p ρ eff args fks vals W r (i + 1) σ1 hdrop' hvars1).2 e' hbs

/-- the bookkeeping values after the `if skip_defaults:` block -/
def phase2 (eff : MetaCfg) (args : DumpArgs) (vals : S → PyVal) (fks : List (FieldInfo × S)) : Except SErr (List Bool) :=
  if skipDefaultsOn eff args then phase2On eff args vals fks else .ok (fks.map (fun q => excluded args q.1))

theorem exec_sdBlock_gen (p : Char → Bool) (ρ : Env) (eff : MetaCfg) (args : DumpArgs) (fks : List (FieldInfo × S))
    (vals : S → PyVal) (W : World p eff args fks vals ρ) (σ : St)
    (hvars : ∀ j (hj : j < fks.length), σ.get (skipName j) = some (excluded args (fks[j]).1)) :
    (∀ bs, phase2 eff args vals fks = .ok bs →
      ∃ σ', execL2s ρ σ (sdBlock p (ginOf eff fks)) = .ok σ' ∧ σ'.out = σ.out ∧ bs.length = fks.length ∧
        ∀ j, j < fks.length → σ'.get (skipName j) = bs[j]?) ∧
    (∀ e, phase2 eff args vals fks = .error e → execL2s ρ σ (sdBlock p (ginOf eff fks)) = .error e) := by
  obtain ⟨gok, gerr⟩ := exec_sdLines_gen p ρ eff args fks vals W fks 0 σ (by simp) (fun j hj => by simpa using hvars j hj)
  have hfields : (ginOf eff fks).fields = fks.map (fun q => gfieldOf q.1 q.2) := rfl
  unfold phase2 sdBlock
  rw [hfields]
  by_cases hon : skipDefaultsOn eff args = true
  · simp only [hon, if_true]
    refine ⟨?_, ?_⟩
    · intro bs h
      obtain ⟨σ', h1, h2, hl, h3, _⟩ := gok bs h
      refine ⟨σ', ?_, h2, hl, fun j hj => by simpa using h3 j hj⟩
      split
      · next hnil => rw [hnil] at h1; simp only [execL1s] at h1; simp only [execL2s]; exact h1
      · rw [exec_if_single ρ σ _ _ true (by rw [evalB_skip_defaults, W.skipDefaults, hon])]
        simpa using h1
    · intro e h
      have h1 := gerr e h
      split
      · next hnil => rw [hnil] at h1; simp [execL1s] at h1
      · rw [exec_if_single ρ σ _ _ true (by rw [evalB_skip_defaults, W.skipDefaults, hon])]
        simpa using h1
  · have hoff : skipDefaultsOn eff args = false := by simpa using hon
    simp only [hoff, Bool.false_eq_true, if_false]
    refine ⟨?_, ?_⟩
    · intro bs h
      simp only [Except.ok.injEq] at h; subst h
      refine ⟨σ, ?_, rfl, by simp, fun j hj => by simpa [List.getElem?_eq_getElem hj] using hvars j hj⟩
      split
      · rfl
      · rw [exec_if_single ρ σ _ _ false (by rw [evalB_skip_defaults, W.skipDefaults, hoff])]
        rfl
    · intro e h; cases h

/-! ### phase 3 in general -/

/-- what a field contributes, given its bookkeeping value; a comparison of its own that raises makes the call raise -/
def fieldEmitE (eff : MetaCfg) (sk2 : Bool) (fi : FieldInfo) (k : S) (v : PyVal) : Except SErr (List Emit) :=
  if fi.isCatchAll then .ok (if isDefaultVal fi v || sk2 then [] else [.catchAll fi.name])
  else if fi.dumpSkip then .ok []
  else if sk2 then .ok []
  else match liftB (ownCond eff fi v) with
    | .ok oc => .ok (if oc then [] else [.entry k fi.name])
    | .error e => .error e

theorem exec_if_err (ρ : Env) (σ : St) (c : Expr) (thn : List L1) (els : Option (List L1)) (e : SErr)
    (hc : evalB ρ σ.get c = .error e) : execL2s ρ σ [L2.if_ c thn els] = .error e := by
  simp [execL2s, L2.exec, hc, bind, Except.bind]

theorem evalB_fieldCond_gen (p : Char → Bool) (ρ : Env) (eff : MetaCfg) (args : DumpArgs) (fks : List (FieldInfo × S))
    (vals : S → PyVal) (W : World p eff args fks vals ρ) (σ : St) (i : Nat) (fi : FieldInfo) (k : S)
    (hi : fks[i]? = some (fi, k)) (sk2 : Bool) (hsk : σ.get (skipName i) = some sk2) :
    evalB ρ σ.get (fieldCond p (ginOf eff fks) i (gfieldOf fi k)) =
      if sk2 then .ok false else match liftB (ownCond eff fi (vals fi.name)) with
        | .ok oc => .ok (!oc)
        | .error e => .error e := by
  cases ho : ownCond eff fi (vals fi.name) with
  | ok oc =>
    rw [evalB_fieldCond p ρ eff args fks vals W σ i fi k hi sk2 oc hsk ho]
    cases sk2 <;> simp [liftB]
  | error e0 =>
    have hskv := evalB_skipVar ρ σ i sk2 hsk
    have fin : ∀ (c : Cond) (op2 : S), ((condOf c).binds p = true → ρ.closure op2 = some (.lit c.val)) →
        op2 ≠ "exclude".toList → evalCondE c (vals fi.name) = .error e0 →
        evalB ρ σ.get (.not_ (.paren (.bin (.name (skipName i)) .or_ ((condOf c).final p (oAttr fi.name) op2)))) =
          if sk2 then .ok false else .error (.raised e0) := by
      intro c op2 h2 hne hc
      have hf := evalB_final p ρ σ.get c fi.name (vals fi.name) op2 (W.field _) h2 hne
      rw [condResult_eq_liftB, hc] at hf
      have hor : evalB ρ σ.get (.bin (.name (skipName i)) .or_ ((condOf c).final p (oAttr fi.name) op2)) =
          if sk2 then .ok true else .error (.raised e0) := by
        rw [evalB_or' ρ σ.get _ _ sk2 hskv, hf]; rfl
      cases sk2
      · have : evalB ρ σ.get (.not_ (.paren (.bin (.name (skipName i)) .or_ ((condOf c).final p (oAttr fi.name) op2)))) =
            (do let b ← evalB ρ σ.get (.paren (.bin (.name (skipName i)) .or_ ((condOf c).final p (oAttr fi.name) op2))); pure (!b)) := by
          simp only [evalB]
        rw [this, evalB_paren', hor]; rfl
      · rw [evalB_not' ρ σ.get _ true (by rw [evalB_paren', hor]; rfl)]; rfl
    unfold ownCond at ho
    unfold fieldCond
    have hname : (gfieldOf fi k).name = fi.name := rfl
    have hsi : (gfieldOf fi k).skipIf = fi.skipIf.map condOf := rfl
    have hgs : (ginOf eff fks).skipIf = eff.skipIf.map condOf := rfl
    rw [hname, hsi, hgs]
    cases hf : fi.skipIf with
    | some c =>
      simp only [hf] at ho
      simp only [Option.map]
      rw [fin c _ (fun hb => W.skipIf i fi k c hi hf hb) (skipName_ne_exclude i) ho]
      cases sk2 <;> simp [liftB]
    | none =>
      simp only [hf] at ho
      simp only [Option.map]
      cases hm : eff.skipIf with
      | some c =>
        simp only [hm] at ho
        rw [fin c _ (fun hb => W.skipValue c hm hb) (by decide) ho]
        cases sk2 <;> simp [liftB]
      | none => simp [hm, pure, Except.pure] at ho

/-- the statements of one field, in general -/
theorem exec_fieldStmt_gen (p : Char → Bool) (ρ : Env) (eff : MetaCfg) (args : DumpArgs) (fks : List (FieldInfo × S))
    (vals : S → PyVal) (W : World p eff args fks vals ρ) (σ : St) (i : Nat) (fi : FieldInfo) (k : S)
    (hi : fks[i]? = some (fi, k)) (sk2 : Bool) (hsk : σ.get (skipName i) = some sk2) :
    execL2s ρ σ (fieldStmt p (ginOf eff fks) i (gfieldOf fi k)) =
      match fieldEmitE eff sk2 fi k (vals fi.name) with
      | .ok es => .ok { σ with out := σ.out ++ es }
      | .error e => .error e := by
  cases ho : ownCond eff fi (vals fi.name) with
  | ok oc =>
    rw [exec_fieldStmt p ρ eff args fks vals W σ i fi k hi sk2 oc hsk ho]
    unfold fieldEmitE refFieldEmit
    by_cases hca : fi.isCatchAll = true
    · simp [hca]
    · have hca' : fi.isCatchAll = false := by simpa using hca
      cases hds : fi.dumpSkip <;> cases sk2 <;> cases oc <;> simp [hca', hds, ho, liftB]
  | error e0 =>
    unfold fieldEmitE
    by_cases hca : fi.isCatchAll = true
    · -- a catch-all field has no condition of its own: use the ok-case lemma with any value for it
      have hcond : ∀ oc, execL2s ρ σ (fieldStmt p (ginOf eff fks) i (gfieldOf fi k)) =
          .ok { σ with out := σ.out ++ refFieldEmit sk2 oc fi k (vals fi.name) } := by
        intro oc
        -- the catch-all branch of `exec_fieldStmt` never looks at `ownCond`
        have hskv := evalB_skipVar ρ σ i sk2 hsk
        unfold fieldStmt refFieldEmit
        have hkey : (gfieldOf fi k).key = .null := by simp [gfieldOf, hca]
        have hca' : (gfieldOf fi k).isCatchAll = true := hca
        have hname : (gfieldOf fi k).name = fi.name := rfl
        have hhd : (gfieldOf fi k).hasDefault = fi.dflt.isSome := rfl
        simp only [hkey, hca', if_true, hca, hname, hhd]
        have hfor : L1.exec ρ σ (.for_ ["k".toList, "v".toList] (.call0 (.attr (oAttr fi.name) "items".toList))
            [{ parts := [appendStmt (nm "k") (nm "v")] }]) = .ok (σ.emit (.catchAll fi.name)) := by
          simp [L1.exec, forField, oAttr, nm]
        cases hd : fi.dflt with
        | none =>
          simp only [isDefaultVal, hd, Option.isSome_none, Bool.false_eq_true, if_false, Bool.false_or]
          exact catchall_step ρ σ _ _ fi.name false sk2 (by simpa using evalB_not' ρ σ.get _ sk2 hskv) hfor
        | some d =>
          simp only [isDefaultVal, hd, Option.isSome_some, if_true]
          have h1 := operand_oAttr ρ fi.name (vals fi.name) (W.field _)
          have hne : defaultName i ≠ "exclude".toList := by
            have : defaultName i = '_' :: 'd' :: 'e' :: 'f' :: 'a' :: 'u' :: 'l' :: 't' :: '_' :: dec i := by unfold defaultName; rfl
            rw [this]; simp
          have h2 : operand ρ (.name (defaultName i)) = some (.dflt d) := by
            simp only [operand]; rw [if_neg hne, W.dflt i fi k d hi hd]
          have hcmp : evalB ρ σ.get (.bin (oAttr fi.name) (.cmp .ne) (.name (defaultName i))) = .ok (!pyEqDflt (vals fi.name) d) := by
            simp only [evalB, cmpOp, h1, h2]
          have hc : evalB ρ σ.get (.bin (.bin (oAttr fi.name) (.cmp .ne) (.name (defaultName i))) .and_ (.not_ (.name (skipName i)))) =
              .ok (!pyEqDflt (vals fi.name) d && !sk2) := by
            rw [evalB_and' ρ σ.get _ _ _ hcmp]
            cases pyEqDflt (vals fi.name) d
            · simpa using evalB_not' ρ σ.get _ sk2 hskv
            · rfl
          exact catchall_step ρ σ _ _ fi.name _ sk2 hc hfor
      rw [hcond false]
      simp [refFieldEmit, hca]
    · have hca' : fi.isCatchAll = false := by simpa using hca
      simp only [hca', Bool.false_eq_true, if_false]
      unfold fieldStmt
      cases hds : fi.dumpSkip
      · have hkey : (gfieldOf fi k).key = .key k := by simp [gfieldOf, hca', hds]
        have hname : (gfieldOf fi k).name = fi.name := rfl
        simp only [hkey, Bool.false_eq_true, if_false, hname]
        have hc := evalB_fieldCond_gen p ρ eff args fks vals W σ i fi k hi sk2 hsk
        rw [ho] at hc
        cases sk2
        · simp only [Bool.false_eq_true, if_false, liftB] at hc ⊢
          rw [ho]
          exact exec_if_err ρ σ _ _ _ _ hc
        · simp only [if_true] at hc ⊢
          rw [exec_if_single ρ σ _ _ false hc]
          simp
      · have hkey : (gfieldOf fi k).key = .null := by simp [gfieldOf, hds]
        have hcag : (gfieldOf fi k).isCatchAll = false := hca'
        simp [hkey, hcag, execL2s]

/-- all fields, given the bookkeeping values `bs` -/
def phase3 (eff : MetaCfg) (vals : S → PyVal) : List (FieldInfo × S) → List Bool → Except SErr (List Emit)
  | [], _ => .ok []
  | (fi, k) :: r, bs => do
    let es ← fieldEmitE eff (bs.head?.getD false) fi k (vals fi.name)
    let rest ← phase3 eff vals r bs.tail
    pure (es ++ rest)

theorem exec_fieldStmts_gen (p : Char → Bool) (ρ : Env) (eff : MetaCfg) (args : DumpArgs) (fks : List (FieldInfo × S))
    (vals : S → PyVal) (W : World p eff args fks vals ρ) :
    ∀ (fs : List (FieldInfo × S)) (bs : List Bool) (i : Nat) (σ : St), fks.drop i = fs → bs.length = fs.length →
      (∀ j, j < fs.length → σ.get (skipName (i + j)) = bs[j]?) →
      execL2s ρ σ (fieldStmts p (ginOf eff fks) i (fs.map (fun q => gfieldOf q.1 q.2))) =
        match phase3 eff vals fs bs with
        | .ok es => .ok { σ with out := σ.out ++ es }
        | .error e => .error e
  | [], _, _, σ, _, _, _ => by simp [fieldStmts, execL2s, phase3]
  | (fi, k) :: r, bs, i, σ, hdrop, hlen, hvars => by
    obtain ⟨hget, hdrop'⟩ := drop_cons_get fks i (fi, k) r hdrop
    cases bs with
    | nil => simp at hlen
    | cons b bs' =>
      have hb : σ.get (skipName i) = some b := by simpa using hvars 0 (by simp)
      have h0 := exec_fieldStmt_gen p ρ eff args fks vals W σ i fi k hget b hb
      simp only [List.map_cons, fieldStmts, phase3, List.head?_cons, Option.getD_some, List.tail_cons, bind, Except.bind]
      rw [execL2s_append, h0]
      cases hfe : fieldEmitE eff b fi k (vals fi.name) with
      | error e => rfl
      | ok es =>
        simp only [Except.bind]
        have hrec := exec_fieldStmts_gen p ρ eff args fks vals W r bs' (i + 1) { σ with out := σ.out ++ es } hdrop'
          (by simpa using hlen)
          (fun j hj => by
            have := hvars (j + 1) (by simp; omega)
            have h2 : σ.get (skipName (i + 1 + j)) = bs'[j]? := by
              simpa [show i + (j + 1) = i + 1 + j by omega] using this
            exact h2)
        rw [hrec]
        cases phase3 eff vals r bs' with
        | error e => rfl
        | ok rest => simp [pure, Except.pure, List.append_assoc]

/-! ### the whole call, in general -/

/-- the reference run: bookkeeping values first (the call raises at the first skip-defaults test that raises), then the fields in
order (it raises at the first own condition that raises), then the tag -/
def refRun (eff : MetaCfg) (args : DumpArgs) (vals : S → PyVal) (fks : List (FieldInfo × S)) : Except SErr (List Emit) := do
  let bs ← phase2 eff args vals fks
  let es ← phase3 eff vals fks bs
  pure (es ++ tagEmits (ginOf eff fks))

/-- **What the generated body does, for every instance** — no assumption about the comparisons. -/
theorem run_genBody_total (p : Char → Bool) (ρ : Env) (eff : MetaCfg) (args : DumpArgs) (fks : List (FieldInfo × S))
    (vals : S → PyVal) (W : World p eff args fks vals ρ) :
    run ρ (genBody p (ginOf eff fks)) = refRun eff args vals fks := by
  have hpre : (ginOf eff fks).preDict = false := rfl
  have hpaths := ginOf_hasPaths eff fks
  have hfields : (ginOf eff fks).fields = fks.map (fun q => gfieldOf q.1 q.2) := rfl
  have hres : ∀ σ : St, L2.exec ρ σ (L2.s (.line { parts := [.assign false [.name "result".toList] .emptyList] })) = .ok σ := by
    intro σ; simp [L2.exec, L1.exec, L0.exec, execSimples, execSimple, bind, Except.bind]
  have hresL : ∀ σ : St, execL2s ρ σ [L2.s (.line { parts := [.assign false [.name "result".toList] .emptyList] })] = .ok σ := by
    intro σ; simp only [execL2s, hres, bind, Except.bind]
  unfold run refRun
  by_cases hemp : (ginOf eff fks).fields.isEmpty = true
  · have hnil : fks = [] := by
      have : (fks.map (fun q => gfieldOf q.1 q.2)).isEmpty = true := by rw [← hfields]; exact hemp
      simpa using this
    have hshape : genBody p (ginOf eff fks) =
        [L2.s (.line { parts := [.assign false [.name "result".toList] .emptyList] })] ++ tailStmts (ginOf eff fks) := by
      unfold genBody; simp [hpre, hpaths, hemp]
    rw [hshape, execL2s_append, hresL]
    simp only [Except.bind]
    rw [exec_tail]
    subst hnil
    unfold phase2
    cases skipDefaultsOn eff args <;> simp [phase2On, phase3, bind, Except.bind, pure, Except.pure]
  · have hemp' : (ginOf eff fks).fields.isEmpty = false := by simpa using hemp
    have hshape : genBody p (ginOf eff fks) =
        [L2.s (.line { parts := [.assign false [.name "result".toList] .emptyList] })] ++
        ([L2.if_ (.bin (nm "exclude") (.cmp .is_) (.lit .none))
            [.line { parts := [.assign true (skipTargets 0 (ginOf eff fks).fields) (.lit .false_)] }]
            (some [.line { parts := excludeAssigns p 0 (ginOf eff fks).fields, sep := [';'] }])] ++
         (sdBlock p (ginOf eff fks) ++ (fieldStmts p (ginOf eff fks) 0 (ginOf eff fks).fields ++ tailStmts (ginOf eff fks)))) := by
      unfold genBody; simp [hpre, hpaths, hemp']
    obtain ⟨σ1, e1, o1, v1, _⟩ := exec_ifelse p ρ (ginOf eff fks).fields {}
    have hv1 : ∀ j (hj : j < fks.length), σ1.get (skipName j) = some (excluded args (fks[j]).1) := by
      intro j hj
      have := v1 j (by rw [hfields]; simpa using hj)
      rw [this, W.exclude]
      simp only [hfields, List.getElem_map, excluded]
      cases args.exclude <;> rfl
    have e1' : execL2s ρ {} [L2.if_ (.bin (nm "exclude") (.cmp .is_) (.lit .none))
        [.line { parts := [.assign true (skipTargets 0 (ginOf eff fks).fields) (.lit .false_)] }]
        (some [.line { parts := excludeAssigns p 0 (ginOf eff fks).fields, sep := [';'] }])] = .ok σ1 := by
      simp only [execL2s, e1, bind, Except.bind]
    obtain ⟨g2ok, g2err⟩ := exec_sdBlock_gen p ρ eff args fks vals W σ1 hv1
    rw [hshape, execL2s_append, hresL]
    simp only [Except.bind]
    rw [execL2s_append, e1']
    simp only [Except.bind]
    rw [execL2s_append]
    cases h2 : phase2 eff args vals fks with
    | error e =>
      rw [g2err e h2]
      rfl
    | ok bs =>
      obtain ⟨σ2, e2, o2, hl, v2⟩ := g2ok bs h2
      rw [e2]
      simp only [Except.bind, bind]
      rw [execL2s_append, hfields]
      rw [exec_fieldStmts_gen p ρ eff args fks vals W fks bs 0 σ2 (by simp) hl (fun j hj => by simpa using v2 j hj)]
      cases h3 : phase3 eff vals fks bs with
      | error e => rfl
      | ok es =>
        simp only [Except.bind]
        rw [exec_tail]
        simp [o1, o2, pure, Except.pure]

/-- the reference run never reports a statement form outside the interpreter: every error is a Python exception -/
theorem refRun_not_stuck (eff : MetaCfg) (args : DumpArgs) (vals : S → PyVal) (fks : List (FieldInfo × S)) :
    refRun eff args vals fks ≠ .error .stuck := by
  have hl : ∀ r : Except DErr Bool, liftB r ≠ .error .stuck := by
    intro r; cases r <;> simp [liftB]
  have h2on : ∀ fs : List (FieldInfo × S), phase2On eff args vals fs ≠ .error .stuck := by
    intro fs
    induction fs with
    | nil => simp [phase2On]
    | cons q r ih =>
      simp only [phase2On, bind, Except.bind]
      cases hb : sk2On eff args q.1 (vals q.1.name) with
      | error e =>
        intro h; simp only [Except.error.injEq] at h; subst h
        unfold sk2On at hb
        split at hb
        · cases hb
        · exact hl _ hb
      | ok b =>
        simp only
        cases hr : phase2On eff args vals r with
        | error e => intro h; simp only [Except.error.injEq] at h; subst h; exact ih hr
        | ok bs => simp [pure, Except.pure]
  have h2 : phase2 eff args vals fks ≠ .error .stuck := by
    unfold phase2; split
    · exact h2on fks
    · simp
  have hfe : ∀ (sk2 : Bool) (fi : FieldInfo) (k : S) (v : PyVal), fieldEmitE eff sk2 fi k v ≠ .error .stuck := by
    intro sk2 fi k v
    unfold fieldEmitE
    split
    · simp
    · split
      · simp
      · split
        · simp
        · cases hr : liftB (ownCond eff fi v) with
          | ok oc => simp
          | error e => intro h; simp only [Except.error.injEq] at h; subst h; exact hl _ hr
  have h3 : ∀ (fs : List (FieldInfo × S)) (bs : List Bool), phase3 eff vals fs bs ≠ .error .stuck := by
    intro fs
    induction fs with
    | nil => intro bs; simp [phase3]
    | cons q r ih =>
      intro bs
      obtain ⟨fi, k⟩ := q
      simp only [phase3, bind, Except.bind]
      cases hf : fieldEmitE eff (bs.head?.getD false) fi k (vals fi.name) with
      | error e => intro h; simp only [Except.error.injEq] at h; subst h; exact hfe _ _ _ _ hf
      | ok es =>
        simp only
        cases hr : phase3 eff vals r bs.tail with
        | error e => intro h; simp only [Except.error.injEq] at h; subst h; exact ih _ hr
        | ok rest => simp [pure, Except.pure]
  unfold refRun
  simp only [bind, Except.bind]
  cases hp : phase2 eff args vals fks with
  | error e => intro h; simp only [Except.error.injEq] at h; subst h; exact h2 hp
  | ok bs =>
    simp only
    cases hq : phase3 eff vals fks bs with
    | error e => intro h; simp only [Except.error.injEq] at h; subst h; exact h3 _ _ hq
    | ok es => simp [pure, Except.pure]

end DW.GenDump
