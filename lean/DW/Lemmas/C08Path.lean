/-
C08 (object paths): a parse / print round trip for `split_object_path`.

A small token grammar (`Tok`, `PTok`) is rendered to text (`render`) and the tokenizer model
`DW.ObjPath.splitObjectPath` is shown to give back exactly the denotations of the tokens
(`split_render`), by induction over the token list.  Corollaries: a bare `true` / `false`
after any sequence of (possibly quoted) components is a bool key (`bool_after_any`), the same
for integers (`int_after_any`).
-/
import DW.Model.ObjPath

namespace DW.C08Path
open DW.Str DW.ObjPath

/-! ## Token grammar -/

/-- One path component, as written in the source text. -/
inductive Tok
  /-- bare identifier -/
  | bare (s : S)
  /-- `true` / `false` (`cap = false`) or `True` / `False` (`cap = true`) -/
  | bool (b : Bool) (cap : Bool)
  /-- optional `-` then the decimal digits `ds` -/
  | int (neg : Bool) (ds : S)
  /-- `q s' q` where `s'` is `s` with every occurrence of `q` escaped as `\q` -/
  | quoted (q : Char) (s : S)
  deriving Repr, DecidableEq

/-- A token with its separator style: `bracket = false` is rendered `.body`, `bracket = true` is
rendered `[body]`. -/
structure PTok where
  tok : Tok
  bracket : Bool
  deriving Repr, DecidableEq

/-- the four words `split_object_path` reads as a bool -/
def boolWords : List S := ["True".toList, "true".toList, "False".toList, "false".toList]

/-- the text of a bool token -/
def boolWord (b cap : Bool) : S :=
  match b, cap with
  | true, false => "true".toList
  | true, true => "True".toList
  | false, false => "false".toList
  | false, true => "False".toList

/-- a character that is none of the separators `.`, `[`, `]` -/
def NoSep (c : Char) : Prop := c ≠ '.' ∧ c ≠ '[' ∧ c ≠ ']'

/-- a character that can start a bare identifier: no quote, no sign, no digit -/
def FirstOk (c : Char) : Prop := c ≠ '"' ∧ c ≠ '\'' ∧ c ≠ '+' ∧ c ≠ '-' ∧ isDig c = false

instance (c : Char) : Decidable (NoSep c) := by unfold NoSep; infer_instance
instance (c : Char) : Decidable (FirstOk c) := by unfold FirstOk; infer_instance

/-- Well-formed tokens.
* `bare s`: `s` is non-empty, contains no `.`, `[`, `]`, does not start with a quote, a sign or a
  digit, and is not one of the four bool words;
* `int _ ds`: `ds` is a non-empty string of ASCII digits;
* `quoted q s`: `q` is `"` or `'`, `s` is non-empty and contains no backslash (it MAY contain
  `.`, `[`, `]`, the other quote and `q` itself, which is escaped on rendering);
* `bool`: always. -/
def Tok.WF : Tok → Prop
  | .bare s => s ≠ [] ∧ (∀ c ∈ s, NoSep c) ∧ (∀ c ∈ s.head?, FirstOk c) ∧ s ∉ boolWords
  | .bool _ _ => True
  | .int _ ds => ds ≠ [] ∧ ∀ c ∈ ds, isDig c = true
  | .quoted q s => (q = '"' ∨ q = '\'') ∧ s ≠ [] ∧ '\\' ∉ s

instance : (t : Tok) → Decidable t.WF
  | .bare _ => by unfold Tok.WF; infer_instance
  | .bool _ _ => by unfold Tok.WF; infer_instance
  | .int _ _ => by unfold Tok.WF; infer_instance
  | .quoted _ _ => by unfold Tok.WF; infer_instance

/-- `s` with every occurrence of `q` escaped as `\q` -/
def escape (q : Char) : S → S
  | [] => []
  | c :: r => if c = q then '\\' :: q :: escape q r else c :: escape q r

/-- the text of a token between the separators -/
def Tok.body : Tok → S
  | .bare s => s
  | .bool b cap => boolWord b cap
  | .int neg ds => if neg then '-' :: ds else ds
  | .quoted q s => q :: (escape q s ++ [q])

/-- the text of one token with its separator(s) -/
def PTok.render (t : PTok) : S :=
  if t.bracket then '[' :: (t.tok.body ++ [']']) else '.' :: t.tok.body

/-- the path text: the concatenation of the rendered tokens -/
def render : List PTok → S
  | [] => []
  | t :: r => t.render ++ render r

/-- the component a token stands for -/
def Tok.denote : Tok → Comp
  | .bare s => .str s
  | .bool b _ => .bool b
  | .int neg ds => .int (if neg then - Int.ofNat (natOfDigits ds) else Int.ofNat (natOfDigits ds))
  | .quoted _ s => .str s

example : (Tok.bare "ab".toList).WF := by decide
example : ¬ (Tok.bare "true".toList).WF := by decide
example : (Tok.quoted '"' "a.b]".toList).WF := by decide

/-! ## State shapes -/

/-- between components: nothing pending, all flags reset -/
def Clean (R : List Comp) (b : Bool) : PState :=
  { res := R, s := [], startNew := true, inBraces := b }

/-- a pending token `acc` (reversed) outside a literal -/
def PendS (R : List Comp) (acc : S) (num lit b : Bool) : PState :=
  { res := R, s := acc, startNew := false, inBraces := b, possibleNumber := num,
    parsedStringLiteral := lit }

/-- inside a string literal opened by `q` -/
def Lit (R : List Comp) (acc : S) (q : Char) (b : Bool) : PState :=
  { res := R, s := acc, startNew := false, inLiteral := true, quoteChar := some q, inBraces := b }

/-- what `flush` appends for a pending token -/
def compOf (acc : S) (num lit : Bool) : Comp :=
  if num then classifyNumber acc.reverse
  else if lit then .str acc.reverse
  else classifyPlain acc.reverse

theorem init_eq_Clean : ({} : PState) = Clean [] false := rfl

/-! ## Single steps -/

theorem step_Clean_dot (R : List Comp) : step (Clean R false) '.' = Clean R false := by
  simp [step, flush, Clean]

theorem step_Clean_lbr (R : List Comp) (b : Bool) : step (Clean R b) '[' = Clean R true := by
  simp [step, flush, Clean]

theorem step_Lit (R : List Comp) (acc : S) (q : Char) (b : Bool) (c : Char)
    (hc : c ≠ '\\') (hq : c ≠ q) : step (Lit R acc q b) c = Lit R (c :: acc) q b := by
  simp [step, Lit, hc, hq]

theorem step_Lit_esc (R : List Comp) (acc : S) (q : Char) (b : Bool)
    (hq : q = '"' ∨ q = '\'') :
    step (step (Lit R acc q b) '\\') q = Lit R (q :: acc) q b := by
  rcases hq with rfl | rfl <;> simp [step, Lit]

theorem step_Lit_open (R : List Comp) (q : Char) (b : Bool) (hq : q = '"' ∨ q = '\'') :
    step (Clean R b) q = Lit R [] q b := by
  rcases hq with rfl | rfl <;> simp [step, Lit, Clean]

theorem step_Lit_close (R : List Comp) (acc : S) (q : Char) (b : Bool)
    (hq : q = '"' ∨ q = '\'') :
    step (Lit R acc q b) q = PendS R acc false true b := by
  rcases hq with rfl | rfl <;> simp [step, Lit, PendS]

theorem step_Clean_first (R : List Comp) (b : Bool) (c : Char) (hs : NoSep c) (hf : FirstOk c) :
    step (Clean R b) c = PendS R [c] false false b := by
  obtain ⟨h1, h2, h3⟩ := hs
  obtain ⟨h4, h5, h6, h7, h8⟩ := hf
  simp [step, Clean, PendS, h1, h2, h4, h5, h6, h7, h8]

theorem step_Clean_minus (R : List Comp) (b : Bool) :
    step (Clean R b) '-' = PendS R ['-'] true false b := by
  simp [step, Clean, PendS]

theorem step_PendS (R : List Comp) (acc : S) (num lit b : Bool) (c : Char) (hs : NoSep c) :
    step (PendS R acc num lit b) c = PendS R (c :: acc) num lit b := by
  obtain ⟨h1, h2, h3⟩ := hs
  simp [step, PendS, h1, h2, h3]

theorem step_PendS_rbr (R : List Comp) (acc : S) (num lit b : Bool) :
    step (PendS R acc num lit b) ']' = PendS R acc num lit false := by
  simp [step, PendS]

theorem flush_PendS (R : List Comp) (acc : S) (num lit b : Bool) (h : acc ≠ []) :
    (flush (PendS R acc num lit b)).res = compOf acc num lit :: R := by
  cases num <;> cases lit <;> simp [flush, PendS, compOf, h]

theorem step_PendS_dot (R : List Comp) (acc : S) (num lit : Bool) (h : acc ≠ [])
    (hnl : (num && lit) = false) :
    step (PendS R acc num lit false) '.' = Clean (compOf acc num lit :: R) false := by
  cases num <;> cases lit <;> simp [step, flush, PendS, Clean, compOf, h] at hnl ⊢

theorem step_PendS_lbr (R : List Comp) (acc : S) (num lit b : Bool) (h : acc ≠ [])
    (hnl : (num && lit) = false) :
    step (PendS R acc num lit b) '[' = Clean (compOf acc num lit :: R) true := by
  cases num <;> cases lit <;> simp [step, flush, PendS, Clean, compOf, h] at hnl ⊢

/-! ## Character facts -/

theorem isDig_ne {c d : Char} (h : isDig c = true) (hd : isDig d = false) : c ≠ d := by
  intro e; subst e; simp [hd] at h

theorem isDig_noSep {c : Char} (h : isDig c = true) : NoSep c :=
  ⟨isDig_ne h (by decide), isDig_ne h (by decide), isDig_ne h (by decide)⟩

theorem isDig_not_space {c : Char} (h : isDig c = true) : isPySpace c = false := by
  simp [isDig, Char.isDigit, UInt32.le_iff_toNat_le] at h
  simp [isPySpace]
  omega

theorem step_Clean_digit (R : List Comp) (b : Bool) (c : Char) (h : isDig c = true) :
    step (Clean R b) c = PendS R [c] true false b := by
  have h1 : c ≠ '.' := isDig_ne h (by decide)
  have h2 : c ≠ '[' := isDig_ne h (by decide)
  have h3 : c ≠ '"' := isDig_ne h (by decide)
  have h4 : c ≠ '\'' := isDig_ne h (by decide)
  simp [step, Clean, PendS, h1, h2, h3, h4, h]

/-! ## Folding over a token body -/

theorem fold_PendS (R : List Comp) (num lit b : Bool) (s : S) (hs : ∀ c ∈ s, NoSep c) :
    ∀ acc, s.foldl step (PendS R acc num lit b) = PendS R (s.reverse ++ acc) num lit b := by
  induction s with
  | nil => intro acc; rfl
  | cons c r ih =>
    intro acc
    have hc : NoSep c := hs c (by simp)
    have hr : ∀ d ∈ r, NoSep d := fun d hd => hs d (by simp [hd])
    rw [List.foldl_cons, step_PendS _ _ _ _ _ _ hc, ih hr]
    simp

theorem fold_escape (R : List Comp) (q : Char) (b : Bool) (hq : q = '"' ∨ q = '\'') (s : S)
    (hb : '\\' ∉ s) :
    ∀ acc, (escape q s).foldl step (Lit R acc q b) = Lit R (s.reverse ++ acc) q b := by
  induction s with
  | nil => intro acc; rfl
  | cons c r ih =>
    intro acc
    have hc : c ≠ '\\' := by intro e; apply hb; simp [e]
    have hr : '\\' ∉ r := by intro e; apply hb; simp [e]
    by_cases hcq : c = q
    · subst hcq
      simp only [escape, ↓reduceIte, List.foldl_cons]
      rw [step_Lit_esc _ _ _ _ hq, ih hr]
      simp
    · simp only [escape, hcq, ↓reduceIte, List.foldl_cons]
      rw [step_Lit _ _ _ _ _ hc hcq, ih hr]
      simp

/-- the *content* of a token: what ends up in the tokenizer's buffer -/
def Tok.content : Tok → S
  | .bare s => s
  | .bool b cap => boolWord b cap
  | .int neg ds => if neg then '-' :: ds else ds
  | .quoted _ s => s

/-- does the tokenizer flag the token as a possible number? -/
def Tok.isNum : Tok → Bool
  | .int _ _ => true
  | _ => false

/-- does the tokenizer flag the token as a parsed string literal? -/
def Tok.isLit : Tok → Bool
  | .quoted _ _ => true
  | _ => false

/-- the state after reading the body of `t`: the token is pending -/
def Pend (t : Tok) (R : List Comp) (b : Bool) : PState :=
  PendS R t.content.reverse t.isNum t.isLit b

theorem fold_plain (R : List Comp) (b : Bool) (s : S) (hs : ∀ c ∈ s, NoSep c)
    (hf : ∀ c ∈ s.head?, FirstOk c) (hne : s ≠ []) :
    s.foldl step (Clean R b) = PendS R s.reverse false false b := by
  cases s with
  | nil => exact absurd rfl hne
  | cons c r =>
    have hc : NoSep c := hs c (by simp)
    have hr : ∀ d ∈ r, NoSep d := fun d hd => hs d (by simp [hd])
    have hfc : FirstOk c := hf c (by simp)
    rw [List.foldl_cons, step_Clean_first _ _ _ hc hfc, fold_PendS _ _ _ _ _ hr]
    simp

theorem boolWord_plain (b cap : Bool) :
    (∀ c ∈ boolWord b cap, NoSep c) ∧ (∀ c ∈ (boolWord b cap).head?, FirstOk c) ∧
      boolWord b cap ≠ [] := by
  cases b <;> cases cap <;> decide

/-- Lemma A: reading the body of a well-formed token from a clean state leaves it pending. -/
theorem fold_body (t : Tok) (h : t.WF) (R : List Comp) (b : Bool) :
    t.body.foldl step (Clean R b) = Pend t R b := by
  cases t with
  | bare s =>
    obtain ⟨hne, hs, hf, _⟩ := h
    exact fold_plain R b s hs hf hne
  | bool v cap =>
    obtain ⟨hs, hf, hne⟩ := boolWord_plain v cap
    exact fold_plain R b _ hs hf hne
  | int neg ds =>
    obtain ⟨hne, hd⟩ := h
    have hs : ∀ c ∈ ds, NoSep c := fun c hc => isDig_noSep (hd c hc)
    cases neg with
    | true =>
      simp only [Tok.body, ↓reduceIte, List.foldl_cons, Pend, Tok.content, Tok.isNum, Tok.isLit]
      rw [step_Clean_minus, fold_PendS _ _ _ _ _ hs]
      simp
    | false =>
      cases ds with
      | nil => exact absurd rfl hne
      | cons c r =>
        have hc : isDig c = true := hd c (by simp)
        have hr : ∀ d ∈ r, NoSep d := fun d hd' => hs d (by simp [hd'])
        simp only [Tok.body, Bool.false_eq_true, ↓reduceIte, List.foldl_cons, Pend, Tok.content,
          Tok.isNum, Tok.isLit]
        rw [step_Clean_digit _ _ _ hc, fold_PendS _ _ _ _ _ hr]
        simp
  | quoted q s =>
    obtain ⟨hq, _, hb⟩ := h
    simp only [Tok.body, List.foldl_cons, List.foldl_append, List.foldl_nil, Pend, Tok.content,
      Tok.isNum, Tok.isLit]
    rw [step_Lit_open _ _ _ hq, fold_escape _ _ _ hq _ hb, step_Lit_close _ _ _ _ hq]
    simp

/-! ## Classification of the pending token -/

theorem dropWhile_head_false {p : Char → Bool} (l : S) (h : ∀ c ∈ l.head?, p c = false) :
    l.dropWhile p = l := by
  cases l with
  | nil => rfl
  | cons c r => simp [List.dropWhile, h c (by simp)]

theorem stripSpace_id (s : S) (h : ∀ c ∈ s, isPySpace c = false) : stripSpace s = s := by
  unfold stripSpace
  rw [dropWhile_head_false s (fun c hc => h c (List.mem_of_mem_head? hc))]
  rw [dropWhile_head_false s.reverse
    (fun c hc => h c (List.mem_reverse.mp (List.mem_of_mem_head? hc)))]
  simp

theorem digitPartAux_true (ds : S) (hd : ∀ c ∈ ds, isDig c = true) :
    digitPartAux true ds = some ds := by
  induction ds with
  | nil => simp [digitPartAux]
  | cons c r ih =>
    have hc : isDig c = true := hd c (by simp)
    have hr : ∀ d ∈ r, isDig d = true := fun d hd' => hd d (by simp [hd'])
    simp [digitPartAux, hc, ih hr]

theorem digitPart_digits (ds : S) (hne : ds ≠ []) (hd : ∀ c ∈ ds, isDig c = true) :
    digitPart ds = some ds := by
  cases ds with
  | nil => exact absurd rfl hne
  | cons c r =>
    have hc : isDig c = true := hd c (by simp)
    have hr : ∀ d ∈ r, isDig d = true := fun d hd' => hd d (by simp [hd'])
    simp [digitPart, digitPartAux, hc, digitPartAux_true r hr]

theorem pyIntOfStr_neg (ds : S) (hne : ds ≠ []) (hd : ∀ c ∈ ds, isDig c = true) :
    pyIntOfStr ('-' :: ds) = some (- Int.ofNat (natOfDigits ds)) := by
  have hsp : ∀ c ∈ '-' :: ds, isPySpace c = false := by
    intro c hc
    rcases List.mem_cons.mp hc with rfl | hc
    · decide
    · exact isDig_not_space (hd c hc)
  simp [pyIntOfStr, stripSpace_id _ hsp, digitPart_digits ds hne hd]

theorem pyIntOfStr_pos (ds : S) (hne : ds ≠ []) (hd : ∀ c ∈ ds, isDig c = true) :
    pyIntOfStr ds = some (Int.ofNat (natOfDigits ds)) := by
  have hsp : ∀ c ∈ ds, isPySpace c = false := fun c hc => isDig_not_space (hd c hc)
  cases ds with
  | nil => exact absurd rfl hne
  | cons c r =>
    have hc : isDig c = true := hd c (by simp)
    have h1 : c ≠ '-' := isDig_ne hc (by decide)
    have h2 : c ≠ '+' := isDig_ne hc (by decide)
    simp [pyIntOfStr, stripSpace_id _ hsp, digitPart_digits (c :: r) hne hd, h1, h2]

theorem classifyPlain_bare (s : S) (h : s ∉ boolWords) : classifyPlain s = .str s := by
  simp [boolWords] at h
  simp [classifyPlain, h]

/-- Lemma B: the pending well-formed token is classified as its denotation. -/
theorem compOf_content (t : Tok) (h : t.WF) :
    compOf t.content.reverse t.isNum t.isLit = t.denote := by
  cases t with
  | bare s =>
    obtain ⟨_, _, _, hw⟩ := h
    simp [compOf, Tok.content, Tok.isNum, Tok.isLit, Tok.denote, classifyPlain_bare s hw]
  | bool v cap => cases v <;> cases cap <;> decide
  | int neg ds =>
    obtain ⟨hne, hd⟩ := h
    cases neg with
    | true =>
      simp [compOf, Tok.content, Tok.isNum, Tok.denote, classifyNumber, pyIntOfStr_neg ds hne hd]
    | false =>
      simp [compOf, Tok.content, Tok.isNum, Tok.denote, classifyNumber, pyIntOfStr_pos ds hne hd]
  | quoted q s => simp [compOf, Tok.content, Tok.isNum, Tok.isLit, Tok.denote]

theorem content_ne_nil (t : Tok) (h : t.WF) : t.content.reverse ≠ [] := by
  cases t with
  | bare s => simpa [Tok.content] using h.1
  | bool v cap => cases v <;> cases cap <;> decide
  | int neg ds => cases neg <;> simp [Tok.content, h.1]
  | quoted q s => simpa [Tok.content] using h.2.1

theorem isNum_isLit (t : Tok) : (t.isNum && t.isLit) = false := by
  cases t <;> rfl

/-! ## The main induction -/

/-- A state from which a separator starts a fresh component on top of the result `R'`:
either the initial state, or a state with a pending well-formed token outside brackets. -/
structure Ready (σ : PState) (R' : List Comp) : Prop where
  dot : step σ '.' = Clean R' false
  lbr : step σ '[' = Clean R' true
  fin : (flush σ).res = R'

theorem ready_init : Ready ({} : PState) [] :=
  ⟨step_Clean_dot [], step_Clean_lbr [] false, rfl⟩

/-- Lemmas B and C: a pending well-formed token is flushed as its denotation by either
separator and by the end of the input. -/
theorem ready_Pend (t : Tok) (h : t.WF) (R : List Comp) :
    Ready (Pend t R false) (t.denote :: R) := by
  have hne := content_ne_nil t h
  have hnl := isNum_isLit t
  have hc := compOf_content t h
  refine ⟨?_, ?_, ?_⟩
  · rw [Pend, step_PendS_dot _ _ _ _ hne hnl, hc]
  · rw [Pend, step_PendS_lbr _ _ _ _ _ hne hnl, hc]
  · rw [Pend, flush_PendS _ _ _ _ _ hne, hc]

/-- reading one rendered token from a ready state leaves that token pending outside brackets -/
theorem fold_ptok (t : PTok) (h : t.tok.WF) (σ : PState) (R' : List Comp) (hσ : Ready σ R') :
    t.render.foldl step σ = Pend t.tok R' false := by
  obtain ⟨tok, br⟩ := t
  cases br with
  | false =>
    simp only [PTok.render, Bool.false_eq_true, ↓reduceIte, List.foldl_cons]
    rw [hσ.dot, fold_body tok h]
  | true =>
    simp only [PTok.render, ↓reduceIte, List.foldl_cons, List.foldl_append, List.foldl_nil]
    rw [hσ.lbr, fold_body tok h, Pend, step_PendS_rbr, Pend]

/-- the generalised round trip: from any ready state, over the accumulated result `R'` -/
theorem fold_render (toks : List PTok) :
    ∀ (σ : PState) (R' : List Comp), Ready σ R' → (∀ t ∈ toks, t.tok.WF) →
      (flush ((render toks).foldl step σ)).res
        = (toks.map (fun t => t.tok.denote)).reverse ++ R' := by
  induction toks with
  | nil => intro σ R' hσ _; simpa [render] using hσ.fin
  | cons t rest ih =>
    intro σ R' hσ h
    have ht : t.tok.WF := h t (by simp)
    have hrest : ∀ u ∈ rest, u.tok.WF := fun u hu => h u (by simp [hu])
    rw [render, List.foldl_append, fold_ptok t ht σ R' hσ,
      ih _ _ (ready_Pend t.tok ht R') hrest]
    simp

/-- **Round trip**: splitting the rendering of well-formed tokens gives back their denotations. -/
theorem split_render (toks : List PTok) (h : ∀ t ∈ toks, t.tok.WF) :
    splitObjectPath (render toks) = toks.map (fun t => t.tok.denote) := by
  unfold splitObjectPath
  rw [fold_render toks _ _ ready_init h]
  simp

/-- **State reset**: a bare `true` / `false` / `True` / `False` is a bool key whatever
(possibly quoted) components precede it. -/
theorem bool_after_any (pre : List PTok) (h : ∀ t ∈ pre, t.tok.WF) (b cap br : Bool) :
    splitObjectPath (render (pre ++ [⟨.bool b cap, br⟩]))
      = pre.map (fun t => t.tok.denote) ++ [.bool b] := by
  rw [split_render]
  · simp [Tok.denote]
  · intro t ht
    rcases List.mem_append.mp ht with ht | ht
    · exact h t ht
    · simp at ht; subst ht; trivial

/-- an integer is an int key whatever (possibly quoted) components precede it -/
theorem int_after_any (pre : List PTok) (h : ∀ t ∈ pre, t.tok.WF) (neg : Bool) (ds : S)
    (hw : (Tok.int neg ds).WF) (br : Bool) :
    splitObjectPath (render (pre ++ [⟨.int neg ds, br⟩]))
      = pre.map (fun t => t.tok.denote) ++ [(Tok.int neg ds).denote] := by
  rw [split_render]
  · simp
  · intro t ht
    rcases List.mem_append.mp ht with ht | ht
    · exact h t ht
    · simp at ht; subst ht; exact hw

/-- a quoted `"true"` stays a string -/
theorem quoted_true_is_string :
    splitObjectPath (render [⟨.quoted '"' "true".toList, false⟩]) = [.str "true".toList] :=
  split_render [⟨.quoted '"' "true".toList, false⟩] (by decide)

/-- `."true".true` : the string key `true` then the bool key `true` -/
example :
    splitObjectPath (render [⟨.quoted '"' "true".toList, false⟩, ⟨.bool true false, false⟩])
      = [.str "true".toList, .bool true] :=
  split_render _ (by decide)

/-- what the rendering looks like, escaping included -/
example :
    render [⟨.quoted '"' "a\"b".toList, true⟩, ⟨.bool true false, false⟩,
        ⟨.int true "12".toList, true⟩]
      = "[\"a\\\"b\"].true[-12]".toList := by decide

end DW.C08Path
