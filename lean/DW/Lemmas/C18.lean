/- Helper lemmas for C18 (association-list dicts, the cache patching functions, the invariants of the
`Env` state machine).  Property theorems are in DW/Props/C18.lean. -/
import DW.Model.C18

set_option linter.unusedSimpArgs false
set_option linter.unusedVariables false

namespace DW.Env
open DW.Str

/-! ### association lists -/

theorem dget_dset (k v k' : S) (d : Dict) :
    dget k' (dset k v d) = if k' = k then some v else dget k' d := by
  induction d with
  | nil =>
    by_cases h : k' = k
    · simp [dset, dget, h]
    · have h' : ¬ k = k' := fun e => h e.symm
      simp [dset, dget, h, h']
  | cons p r ih =>
    by_cases hp : p.1 = k
    · by_cases h : k' = k
      · simp [dset, dget, hp, h]
      · have h' : ¬ k = k' := fun e => h e.symm
        have h'' : ¬ p.1 = k' := fun e => h (e.symm.trans hp)
        simp [dset, dget, hp, h, h', h'']
    · by_cases hk : p.1 = k'
      · have h : ¬ k' = k := fun e => hp (hk.trans e)
        simp [dset, dget, hp, hk, h]
      · simp [dset, dget, hp, hk, ih]

theorem mem_dset {x : S × S} {k v : S} {d : Dict} (h : x ∈ dset k v d) : x = (k, v) ∨ x ∈ d := by
  induction d with
  | nil => simp [dset] at h; exact Or.inl h
  | cons p r ih =>
    by_cases hp : p.1 = k
    · simp [dset, hp] at h
      rcases h with h | h
      · exact Or.inl h
      · exact Or.inr (List.mem_cons_of_mem _ h)
    · simp [dset, hp] at h
      rcases h with h | h
      · exact Or.inr (by simp [h])
      · rcases ih h with h | h
        · exact Or.inl h
        · exact Or.inr (List.mem_cons_of_mem _ h)

theorem dget_some_mem {k v : S} {d : Dict} (h : dget k d = some v) : (k, v) ∈ d := by
  induction d with
  | nil => simp [dget] at h
  | cons p r ih =>
    by_cases hp : p.1 = k
    · simp [dget, hp] at h
      have : p = (k, v) := by cases p; simp_all
      simp [this]
    · simp [dget, hp] at h
      exact List.mem_cons_of_mem _ (ih h)

theorem dget_isSome_of_mem {k v : S} {d : Dict} (h : (k, v) ∈ d) : (dget k d).isSome = true := by
  induction d with
  | nil => simp at h
  | cons p r ih =>
    by_cases hp : p.1 = k
    · simp [dget, hp]
    · simp [dget, hp]
      rcases List.mem_cons.mp h with h | h
      · exact absurd (by rw [← h]) hp
      · exact ih h

theorem dget_isSome_iff_keys (k : S) (d : Dict) : (dget k d).isSome = true ↔ k ∈ keys d := by
  constructor
  · intro h
    cases hv : dget k d with
    | none => simp [hv] at h
    | some v =>
      have := dget_some_mem hv
      exact List.mem_map.mpr ⟨(k, v), this, rfl⟩
  · intro h
    obtain ⟨p, hp, hk⟩ := List.mem_map.mp h
    have : (k, p.2) ∈ d := by rw [← hk]; exact hp
    exact dget_isSome_of_mem this

theorem dgetLast_isSome_iff_keys (k : S) (d : Dict) : (dgetLast k d).isSome = true ↔ k ∈ keys d := by
  induction d with
  | nil => simp [dgetLast, keys]
  | cons p r ih =>
    cases hr : dgetLast k r with
    | some v =>
      have : k ∈ keys r := ih.mp (by simp [hr])
      simp [dgetLast, hr, keys] at this ⊢
      exact Or.inr this
    | none =>
      have hn : k ∉ keys r := fun hm => by have := ih.mpr hm; simp [hr] at this
      by_cases hp : p.1 = k
      · simp [dgetLast, hr, hp, keys]
      · have hp' : ¬ k = p.1 := fun e => hp e.symm
        simp [dgetLast, hr, hp, keys, hp'] at hn ⊢
        exact hn

theorem dget_dupdate (n : S) (d ov : Dict) :
    dget n (dupdate d ov) = match dgetLast n ov with
      | some v => some v
      | none => dget n d := by
  induction ov generalizing d with
  | nil => simp [dupdate, dgetLast]
  | cons p r ih =>
    have : dupdate d (p :: r) = dupdate (dset p.1 p.2 d) r := by simp [dupdate]
    rw [this, ih, dget_dset]
    cases hr : dgetLast n r with
    | some v => simp [dgetLast, hr]
    | none =>
      by_cases hp : p.1 = n
      · simp [dgetLast, hr, hp]
      · have hp' : ¬ n = p.1 := fun e => hp e.symm
        simp [dgetLast, hr, hp, hp']

theorem dget_foldl_dupdate (n : S) (fs : List Dict) (d : Dict) :
    dget n (fs.foldl dupdate d) = match layersGet fs n with
      | some v => some v
      | none => dget n d := by
  induction fs generalizing d with
  | nil => simp [layersGet]
  | cons f r ih =>
    simp only [List.foldl_cons]
    rw [ih, dget_dupdate]
    cases hr : layersGet r n with
    | some v => simp [layersGet, hr]
    | none => simp [layersGet, hr]

theorem dget_mergeFiles (n : S) (fs : List Dict) : dget n (mergeFiles fs) = layersGet fs n := by
  unfold mergeFiles
  rw [dget_foldl_dupdate]
  cases layersGet fs n <;> simp [dget]

theorem keys_dset (k v : S) (d : Dict) : keys (dset k v d) = if k ∈ keys d then keys d else keys d ++ [k] := by
  induction d with
  | nil => simp [dset, keys]
  | cons p r ih =>
    by_cases hp : p.1 = k
    · simp [dset, hp, keys]
    · have hp' : ¬ k = p.1 := fun e => hp e.symm
      simp only [keys] at ih
      by_cases hm : k ∈ List.map Prod.fst r
      · simp [dset, hp, keys, hp', hm, ih]
      · simp [dset, hp, keys, hp', hm, ih]

theorem nodup_keys_dset (k v : S) (d : Dict) (h : (keys d).Nodup) : (keys (dset k v d)).Nodup := by
  rw [keys_dset]
  by_cases hm : k ∈ keys d
  · simp [hm, h]
  · simp only [hm, ↓reduceIte]
    rw [List.nodup_append]
    refine ⟨h, by simp, ?_⟩
    intro a ha b hb
    simp at hb
    intro e
    exact hm (by rw [← hb, ← e]; exact ha)

theorem nodup_keys_dupdate (d ov : Dict) (h : (keys d).Nodup) : (keys (dupdate d ov)).Nodup := by
  induction ov generalizing d with
  | nil => simpa [dupdate] using h
  | cons p r ih =>
    have : dupdate d (p :: r) = dupdate (dset p.1 p.2 d) r := by simp [dupdate]
    rw [this]
    exact ih _ (nodup_keys_dset _ _ _ h)

theorem nodup_keys_mergeFiles (fs : List Dict) : (keys (mergeFiles fs)).Nodup := by
  unfold mergeFiles
  suffices ∀ d : Dict, (keys d).Nodup → (keys (fs.foldl dupdate d)).Nodup from this [] (by simp [keys])
  induction fs with
  | nil => intro d h; simpa using h
  | cons f r ih => intro d h; simp only [List.foldl_cons]; exact ih _ (nodup_keys_dupdate _ _ h)

theorem dgetLast_eq_dget_of_nodup (n : S) (d : Dict) (h : (keys d).Nodup) : dgetLast n d = dget n d := by
  induction d with
  | nil => simp [dgetLast, dget]
  | cons p r ih =>
    have hr : (keys r).Nodup := by simp [keys] at h ⊢; exact h.2
    have hp : p.1 ∉ keys r := by simp [keys] at h ⊢; exact h.1
    rw [dgetLast, ih hr]
    by_cases e : p.1 = n
    · have : dget n r = none := by
        cases hv : dget n r with
        | none => rfl
        | some v =>
          have := (dget_isSome_iff_keys n r).mp (by simp [hv])
          exact absurd (e ▸ this) hp
      simp [dget, e, this]
    · simp [dget, e]
      cases dget n r <;> rfl

theorem dgetLast_mergeFiles (n : S) (fs : List Dict) : dgetLast n (mergeFiles fs) = layersGet fs n := by
  rw [dgetLast_eq_dget_of_nodup _ _ (nodup_keys_mergeFiles fs), dget_mergeFiles]

theorem layersGet_isSome {fs : List Dict} {n : S} (h : (layersGet fs n).isSome = true) : ∃ f ∈ fs, n ∈ keys f := by
  induction fs with
  | nil => simp [layersGet] at h
  | cons f r ih =>
    cases hr : layersGet r n with
    | some v =>
      obtain ⟨g, hg, hn⟩ := ih (by simp [hr])
      exact ⟨g, List.mem_cons_of_mem _ hg, hn⟩
    | none =>
      simp [layersGet, hr] at h
      exact ⟨f, by simp, (dgetLast_isSome_iff_keys n f).mp h⟩

theorem mem_keys_mergeFiles {fs : List Dict} {n : S} (h : n ∈ keys (mergeFiles fs)) : n ∈ fs.flatMap keys := by
  have := (dget_isSome_iff_keys n _).mpr h
  rw [dget_mergeFiles] at this
  obtain ⟨f, hf, hn⟩ := layersGet_isSome this
  exact List.mem_flatMap.mpr ⟨f, hf, hn⟩

/-! ### patching the cleaned-name cache -/

theorem mem_iterOrder (rank xs : List S) (x : S) : x ∈ iterOrder rank xs ↔ x ∈ xs := by
  unfold iterOrder
  simp only [List.mem_append, List.mem_filter, decide_eq_true_eq]
  constructor
  · rintro (⟨h, _⟩ | ⟨_, h⟩) <;> exact h
  · intro h
    by_cases hr : x ∈ rank
    · exact Or.inr ⟨hr, h⟩
    · exact Or.inl ⟨h, hr⟩

/-- the fold both `patch` and `buildCleaned` are made of -/
def patchL (cl : Dict) (l : List S) : Dict := l.foldl (fun d v => dset (clean v) v d) cl

theorem patch_eq (rank : List S) (cl : Dict) (vars : List S) : patch rank cl vars = patchL cl (iterOrder rank vars) := rfl

theorem mem_patchL {p : S × S} {cl : Dict} {l : List S} (h : p ∈ patchL cl l) :
    p ∈ cl ∨ ∃ v ∈ l, p = (clean v, v) := by
  induction l generalizing cl with
  | nil => exact Or.inl h
  | cons a r ih =>
    have : patchL cl (a :: r) = patchL (dset (clean a) a cl) r := rfl
    rw [this] at h
    rcases ih h with h | ⟨v, hv, e⟩
    · rcases mem_dset h with h | h
      · exact Or.inr ⟨a, by simp, h⟩
      · exact Or.inl h
    · exact Or.inr ⟨v, List.mem_cons_of_mem _ hv, e⟩

theorem patchL_mono {k : S} {cl : Dict} {l : List S} (h : (dget k cl).isSome = true) :
    (dget k (patchL cl l)).isSome = true := by
  induction l generalizing cl with
  | nil => exact h
  | cons a r ih =>
    have : patchL cl (a :: r) = patchL (dset (clean a) a cl) r := rfl
    rw [this]
    apply ih
    rw [dget_dset]
    by_cases e : k = clean a <;> simp [e, h]

theorem patchL_complete {v : S} {cl : Dict} {l : List S} (h : v ∈ l) :
    (dget (clean v) (patchL cl l)).isSome = true := by
  induction l generalizing cl with
  | nil => simp at h
  | cons a r ih =>
    have : patchL cl (a :: r) = patchL (dset (clean a) a cl) r := rfl
    rw [this]
    rcases List.mem_cons.mp h with e | h
    · apply patchL_mono
      rw [dget_dset]; simp [e]
    · exact ih h

theorem mem_patch {p : S × S} {rank : List S} {cl : Dict} {vars : List S} (h : p ∈ patch rank cl vars) :
    p ∈ cl ∨ ∃ v ∈ vars, p = (clean v, v) := by
  rw [patch_eq] at h
  rcases mem_patchL h with h | ⟨v, hv, e⟩
  · exact Or.inl h
  · exact Or.inr ⟨v, (mem_iterOrder _ _ _).mp hv, e⟩

theorem patch_mono {k : S} {rank : List S} {cl : Dict} {vars : List S} (h : (dget k cl).isSome = true) :
    (dget k (patch rank cl vars)).isSome = true := by
  rw [patch_eq]; exact patchL_mono h

theorem patch_complete {v : S} {rank : List S} {cl : Dict} {vars : List S} (h : v ∈ vars) :
    (dget (clean v) (patch rank cl vars)).isSome = true := by
  rw [patch_eq]; exact patchL_complete ((mem_iterOrder _ _ _).mpr h)

theorem mem_buildCleaned {p : S × S} {rank vn : List S} (h : p ∈ buildCleaned rank vn) : ∃ v ∈ vn, p = (clean v, v) := by
  rcases mem_patch h with h | h
  · simp at h
  · exact h

/-! ### the lookup phase on a state whose caches describe the effective environment `look` -/

/-- the library state faithfully describes the effective environment `look` -/
structure Ready (look : S → Option S) (st : EnvSt) : Prop where
  env : ∃ e, st.environ = some e ∧ ∀ n, dget n e = look n
  vn : ∃ vn, st.varNames = some vn ∧ ∀ n, n ∈ vn ↔ (look n).isSome = true
  valid : ∀ cl, st.cleaned = some cl → ∀ p ∈ cl, p.1 = clean p.2 ∧ (look p.2).isSome = true
  complete : ∀ cl, st.cleaned = some cl → ∀ n, (look n).isSome = true → (dget (clean n) cl).isSome = true

theorem Ready.congr {look look' : S → Option S} {st : EnvSt} (e : ∀ n, look n = look' n) (h : Ready look st) :
    Ready look' st := by
  have : look = look' := funext e
  rw [← this]; exact h

theorem Ready.forceVN_eq {look : S → Option S} {st : EnvSt} (h : Ready look st) : forceVN st = st := by
  obtain ⟨vn, hvn, _⟩ := h.vn
  cases st
  simp_all [forceVN, EnvSt.virtVN]

theorem Ready.virtVN_mem {look : S → Option S} {st : EnvSt} (h : Ready look st) (n : S) :
    n ∈ st.virtVN ↔ (look n).isSome = true := by
  obtain ⟨vn, hvn, hm⟩ := h.vn
  simp [EnvSt.virtVN, hvn, hm]

theorem Ready.forceCleaned {look : S → Option S} {st : EnvSt} (rank : List S) (h : Ready look st) :
    Ready look (forceCleaned rank st) ∧ (forceCleaned rank st).cleaned.isSome = true := by
  unfold DW.Env.forceCleaned
  cases hc : st.cleaned with
  | some cl => simp [hc]; exact h
  | none =>
    simp only
    rw [h.forceVN_eq]
    refine ⟨⟨h.env, h.vn, ?_, ?_⟩, by simp⟩
    · intro cl hcl p hp
      simp at hcl
      subst hcl
      obtain ⟨v, hv, e⟩ := mem_buildCleaned hp
      subst e
      exact ⟨rfl, (h.virtVN_mem v).mp hv⟩
    · intro cl hcl n hn
      simp at hcl
      subst hcl
      exact patch_complete ((h.virtVN_mem n).mpr hn)

theorem Ready.envVal_some {look : S → Option S} {st : EnvSt} (h : Ready look st) {n v : S} (hl : look n = some v) :
    envVal st n = .val v := by
  obtain ⟨e, he, hle⟩ := h.env
  simp [DW.Env.envVal, he, hle, hl]

/-- what a cleaned-key lookup may return -/
def Got.sound (look : S → Option S) (key : S) : Got → Prop
  | .val v => ∃ n, clean n = clean key ∧ look n = some v
  | .unset => ∀ n, clean n = clean key → look n = none
  | .keyError => False

theorem tryCleaned_spec {look : S → Option S} {st : EnvSt} (rank : List S) (key : S) (h : Ready look st) :
    Ready look (tryCleaned rank key st).2 ∧ (tryCleaned rank key st).1.sound look key := by
  obtain ⟨h1, hs⟩ := h.forceCleaned rank
  unfold tryCleaned
  simp only
  cases hc : (forceCleaned rank st).cleaned with
  | none => simp [hc] at hs
  | some cl =>
    simp only [Option.getD_some]
    cases hd : dget (clean key) cl with
    | none =>
      refine ⟨h1, ?_⟩
      intro n hn
      cases hl : look n with
      | none => rfl
      | some v =>
        have := h1.complete cl hc n (by simp [hl])
        rw [hn, hd] at this
        simp at this
    | some v =>
      have hm := dget_some_mem hd
      obtain ⟨hk, hv⟩ := h1.valid cl hc _ hm
      simp only at hk hv
      refine ⟨h1, ?_⟩
      dsimp only
      cases hl : look v with
      | none => simp [hl] at hv
      | some x =>
        rw [h1.envVal_some hl]
        exact ⟨v, hk.symm, hl⟩

theorem find_some_findSome {look : S → Option S} {vn : List S} (hvn : ∀ n, n ∈ vn ↔ (look n).isSome = true)
    {l : List S} {n : S} (h : l.find? (fun n => decide (n ∈ vn)) = some n) :
    l.findSome? look = look n ∧ (look n).isSome = true := by
  induction l with
  | nil => simp at h
  | cons a r ih =>
    by_cases ha : a ∈ vn
    · simp [List.find?_cons, ha] at h
      subst h
      have := (hvn a).mp ha
      cases hl : look a with
      | none => simp [hl] at this
      | some v => simp [List.findSome?_cons, hl]
    · simp [List.find?_cons, ha] at h
      have hn : look a = none := by
        cases hl : look a with
        | none => rfl
        | some v => exact absurd ((hvn a).mpr (by simp [hl])) ha
      have := ih (by simpa using h)
      simp [List.findSome?_cons, hn, this]

theorem find_none_findSome {look : S → Option S} {vn : List S} (hvn : ∀ n, n ∈ vn ↔ (look n).isSome = true)
    {l : List S} (h : l.find? (fun n => decide (n ∈ vn)) = none) : l.findSome? look = none := by
  induction l with
  | nil => simp
  | cons a r ih =>
    by_cases ha : a ∈ vn
    · simp [List.find?_cons, ha] at h
    · have hn : look a = none := by
        cases hl : look a with
        | none => rfl
        | some v => exact absurd ((hvn a).mpr (by simp [hl])) ha
      have hr : r.find? (fun n => decide (n ∈ vn)) = none := by
        simpa [List.find?_cons, ha] using h
      simp [List.findSome?_cons, hn, ih hr]

/-- a lookup result against the reference's optional list of admissible strings -/
def Got.meetsOpt : Got → Option (List S) → Prop
  | .val v, some vs => v ∈ vs
  | .unset, none => True
  | _, _ => False

theorem getEnv_spec {look : S → Option S} {st : EnvSt} (rank dom : List S) (prio : Priority) (key : S)
    (h : Ready look st) (hdom : ∀ n, (look n).isSome = true → n ∈ dom) :
    Ready look (getEnv rank prio key st).2 ∧ (getEnv rank prio key st).1.meetsOpt (refImplicit look dom prio key) := by
  unfold getEnv
  simp only
  rw [h.forceVN_eq]
  have hvn : ∀ n, n ∈ st.virtVN ↔ (look n).isSome = true := h.virtVN_mem
  cases hf : (tiers prio key).find? (fun n => decide (n ∈ st.virtVN)) with
  | some n =>
    obtain ⟨h1, h2⟩ := find_some_findSome hvn hf
    simp only
    refine ⟨h, ?_⟩
    unfold refImplicit
    rw [h1]
    cases hl : look n with
    | none => simp [hl] at h2
    | some v => rw [h.envVal_some hl]; simp [Got.meetsOpt]
  | none =>
    have h1 := find_none_findSome hvn hf
    simp only
    obtain ⟨hr, hs⟩ := tryCleaned_spec rank key h
    refine ⟨hr, ?_⟩
    unfold refImplicit
    rw [h1]
    simp only
    cases hg : (tryCleaned rank key st).1 with
    | keyError => rw [hg] at hs; exact hs.elim
    | val v =>
      rw [hg] at hs
      obtain ⟨n, hn, hl⟩ := hs
      have hmem : v ∈ (dom.filter (fun n => decide (clean n = clean key))).filterMap look := by
        refine List.mem_filterMap.mpr ⟨n, ?_, hl⟩
        exact List.mem_filter.mpr ⟨hdom n (by simp [hl]), by simp [hn]⟩
      cases hc : (dom.filter (fun n => decide (clean n = clean key))).filterMap look with
      | nil => rw [hc] at hmem; simp at hmem
      | cons a r => rw [hc] at hmem; simpa [Got.meetsOpt] using hmem
    | unset =>
      rw [hg] at hs
      have hnil : (dom.filter (fun n => decide (clean n = clean key))).filterMap look = [] := by
        apply List.eq_nil_iff_forall_not_mem.mpr
        intro v hv
        obtain ⟨n, hn, hl⟩ := List.mem_filterMap.mp hv
        have := (List.mem_filter.mp hn).2
        simp at this
        rw [hs n this] at hl
        simp at hl
      rw [hnil]
      simp [Got.meetsOpt]

theorem lookupExact_spec {look : S → Option S} {st : EnvSt} (names : List S) (h : Ready look st) :
    (lookupExact names st).2 = st ∧
    (lookupExact names st).1 = match names.findSome? look with
      | some v => .val v
      | none => .unset := by
  unfold lookupExact
  simp only
  rw [h.forceVN_eq]
  have hvn : ∀ n, n ∈ st.virtVN ↔ (look n).isSome = true := h.virtVN_mem
  cases hf : names.find? (fun n => decide (n ∈ st.virtVN)) with
  | some n =>
    obtain ⟨h1, h2⟩ := find_some_findSome hvn hf
    simp only
    rw [h1]
    cases hl : look n with
    | none => simp [hl] at h2
    | some v => rw [h.envVal_some hl]; simp
  | none =>
    have h1 := find_none_findSome hvn hf
    simp [h1]

/-- the reference's source for a field that got no keyword argument -/
def refSource (look : S → Option S) (dom : List S) (prio : Priority) (pfx : S) (f : FieldDef) : Option (List S) :=
  match (f.explicit.map (pfx ++ ·)).findSome? look with
  | some v => some [v]
  | none => refImplicit look dom prio (pfx ++ f.name)

theorem refField_eq (look : S → Option S) (dom : List S) (prio : Priority) (pfx : S) (kw : Dict) (f : FieldDef) :
    refField look dom prio pfx kw f = match dget f.name kw with
      | some v => .oneOf [v]
      | none => match refSource look dom prio pfx f with
        | some vs => .oneOf vs
        | none => if f.hasDefault then .dflt else .missing := by
  unfold refField refSource
  cases dget f.name kw with
  | some v => rfl
  | none =>
    simp only
    cases (f.explicit.map (pfx ++ ·)).findSome? look with
    | some v => rfl
    | none => rfl

theorem explicitArg_eq {q : Quirks} {pfx : S} {names : List S}
    (h : q.multiExplicitRaw = true → names.length ≤ 1 ∨ pfx = []) :
    explicitArg q pfx names = names.map (pfx ++ ·) := by
  unfold explicitArg
  by_cases hp : pfx = []
  · simp [hp]
  · simp only [hp, ↓reduceIte]
    by_cases hq : q.multiExplicitRaw = true
    · rcases h hq with h | h
      · have : ¬ (2 ≤ names.length) := by omega
        simp [hq, this]
      · exact absurd h hp
    · simp [hq]

theorem lookupField_spec {look : S → Option S} {st : EnvSt} (q : Quirks) (rank dom : List S) (prio : Priority)
    (pfx : S) (kw : Dict) (f : FieldDef)
    (h : Ready look st) (hdom : ∀ n, (look n).isSome = true → n ∈ dom)
    (hok : FieldOK q look dom prio pfx kw f) (hkw : dget f.name kw = none) :
    Ready look (lookupField q rank prio pfx f st).2 ∧
      (lookupField q rank prio pfx f st).1.meetsOpt (refSource look dom prio pfx f) := by
  unfold lookupField
  by_cases hex : f.explicit = []
  · simp only [hex, ↓reduceIte]
    have : refSource look dom prio pfx f = refImplicit look dom prio (pfx ++ f.name) := by
      simp [refSource, hex]
    rw [this]
    exact getEnv_spec rank dom prio _ h hdom
  · simp only [hex, ↓reduceIte]
    rw [explicitArg_eq hok.1]
    obtain ⟨h2, h1⟩ := lookupExact_spec (f.explicit.map (pfx ++ ·)) h
    cases hr : lookupExact (f.explicit.map (pfx ++ ·)) st with
    | mk g st1 =>
      rw [hr] at h1 h2
      simp only at h1 h2
      subst h2
      cases hs : (f.explicit.map (pfx ++ ·)).findSome? look with
      | some v =>
        rw [hs] at h1
        simp only at h1
        subst h1
        simp only
        refine ⟨h, ?_⟩
        simp [refSource, hs, Got.meetsOpt]
      | none =>
        rw [hs] at h1
        simp only at h1
        subst h1
        simp only
        have hsrc : refSource look dom prio pfx f = refImplicit look dom prio (pfx ++ f.name) := by
          simp [refSource, hs]
        rw [hsrc]
        by_cases hq : q.explicitNoFallback = true
        · simp only [hq, ↓reduceIte]
          refine ⟨h, ?_⟩
          rcases hok.2 hq with h' | h' | h' | h'
          · exact absurd h' hex
          · simp [hkw] at h'
          · simp [hs] at h'
          · rw [h']; simp [Got.meetsOpt]
        · simp only [hq]
          exact getEnv_spec rank dom prio _ h hdom

theorem resolveField_spec {look : S → Option S} {st : EnvSt} (q : Quirks) (rank dom : List S) (prio : Priority)
    (pfx : S) (kw : Dict) (f : FieldDef)
    (h : Ready look st) (hdom : ∀ n, (look n).isSome = true → n ∈ dom)
    (hok : FieldOK q look dom prio pfx kw f) :
    Ready look (resolveField q rank prio pfx kw f st).2 ∧
      (resolveField q rank prio pfx kw f st).1.meets (refField look dom prio pfx kw f) = true := by
  rw [refField_eq]
  unfold resolveField
  cases hkw : dget f.name kw with
  | some v => simp [FieldRes.meets, h]
  | none =>
    simp only
    obtain ⟨hr, hm⟩ := lookupField_spec q rank dom prio pfx kw f h hdom hok hkw
    cases hg : (lookupField q rank prio pfx f st).1 with
    | val v =>
      rw [hg] at hm
      simp only
      refine ⟨hr, ?_⟩
      cases hsrc : refSource look dom prio pfx f with
      | none => rw [hsrc] at hm; exact hm.elim
      | some vs => rw [hsrc] at hm; simpa [FieldRes.meets, Got.meetsOpt] using hm
    | keyError =>
      rw [hg] at hm
      cases hsrc : refSource look dom prio pfx f <;> (rw [hsrc] at hm; exact hm.elim)
    | unset =>
      rw [hg] at hm
      simp only
      cases hsrc : refSource look dom prio pfx f with
      | some vs => rw [hsrc] at hm; exact hm.elim
      | none =>
        by_cases hd : f.hasDefault = true
        · simp [hd, FieldRes.meets, hr]
        · simp only [hd]
          refine ⟨?_, by simp [FieldRes.meets]⟩
          by_cases hex : f.explicit = []
          · simp only [hex, ↓reduceIte]
            exact (hr.forceCleaned rank).1
          · simp only [hex, ↓reduceIte]
            exact hr

theorem resolveAll_spec {look : S → Option S} (q : Quirks) (rank dom : List S) (prio : Priority)
    (pfx : S) (kw : Dict) (hdom : ∀ n, (look n).isSome = true → n ∈ dom) (fields : List FieldDef) :
    ∀ st : EnvSt, Ready look st → (∀ f ∈ fields, FieldOK q look dom prio pfx kw f) →
      Ready look (resolveAll q rank prio pfx kw fields st).2 ∧
      meetsAll (resolveAll q rank prio pfx kw fields st).1
        (fields.map (fun f => (f.name, refField look dom prio pfx kw f))) = true := by
  induction fields with
  | nil => intro st h _; exact ⟨h, rfl⟩
  | cons f r ih =>
    intro st h hok
    obtain ⟨h1, m1⟩ := resolveField_spec q rank dom prio pfx kw f h hdom (hok f (by simp))
    obtain ⟨h2, m2⟩ := ih _ h1 (fun g hg => hok g (List.mem_cons_of_mem _ hg))
    refine ⟨h2, ?_⟩
    simp only [resolveAll, List.map_cons, meetsAll]
    simp [m1, m2]

theorem meetsAll_missing : ∀ (rs : List (S × FieldRes)) (es : List (S × Expect)), meetsAll rs es = true →
    missingNames rs = refMissing es ∧ rs.any (fun p => decide (p.2 = .keyError)) = false
  | [], [], _ => by simp [missingNames, refMissing]
  | [], _ :: _, h => by simp [meetsAll] at h
  | _ :: _, [], h => by simp [meetsAll] at h
  | r :: rs, e :: es, h => by
    simp only [meetsAll, Bool.and_eq_true, decide_eq_true_eq] at h
    obtain ⟨⟨hn, hm⟩, hrest⟩ := h
    obtain ⟨ih1, ih2⟩ := meetsAll_missing rs es hrest
    have hk : r.2 ≠ .keyError := by
      intro e'; rw [e'] at hm; cases e.2 <;> simp [FieldRes.meets] at hm
    have hiff : (r.2 = .missing) ↔ (e.2 = .missing) := by
      cases hr : r.2 <;> cases he : e.2 <;> simp [hr, he, FieldRes.meets] at hm ⊢
    refine ⟨?_, by simp [hk, ih2]⟩
    unfold missingNames refMissing at ih1 ⊢
    simp only [List.filterMap_cons]
    by_cases hmiss : r.2 = .missing
    · have he := hiff.mp hmiss
      simp [hmiss, he, hn, ih1]
    · have he : ¬ e.2 = .missing := fun x => hmiss (hiff.mpr x)
      simp [hmiss, he, ih1]

theorem outcomeOf_meets {rs : List (S × FieldRes)} {es : List (S × Expect)} (h : meetsAll rs es = true) :
    (outcomeOf rs).meets es = true := by
  obtain ⟨h1, h2⟩ := meetsAll_missing rs es h
  unfold outcomeOf
  rw [h2]
  simp only [Bool.false_eq_true, ↓reduceIte]
  by_cases hm : missingNames rs = []
  · simp only [hm, ↓reduceIte, Outcome.meets]
    rw [← h1, hm]
    simp [h]
  · simp only [hm, ↓reduceIte, Outcome.meets]
    have : ¬ refMissing es = [] := by rw [← h1]; exact hm
    simp [hm, h1, this]

/-! ### establishing `Ready`: overlays, then the forced reload -/

theorem dget_dupdate_or (n : S) (d ov : Dict) : dget n (dupdate d ov) = (dgetLast n ov).or (dget n d) := by
  rw [dget_dupdate]; cases dgetLast n ov <;> rfl

theorem refLookup_eq (os : Dict) (secs dots : List Dict) (n : S) :
    refLookup os secs dots n = (layersGet dots n).or ((layersGet secs n).or (dget n os)) := by
  unfold refLookup
  cases layersGet dots n <;> cases layersGet secs n <;> rfl

theorem updateWith_ready {look : S → Option S} {st : EnvSt} (rank : List S) (ov : Dict) (h : Ready look st) :
    Ready (fun n => (dgetLast n ov).or (look n)) (updateWith rank ov st) := by
  obtain ⟨e, he, hl⟩ := h.env
  obtain ⟨vn, hvn, hm⟩ := h.vn
  have hvirt : st.virtVN = vn := by simp [EnvSt.virtVN, hvn]
  have hkeys : ∀ n, (dgetLast n ov).isSome = true ↔ n ∈ keys ov := fun n => dgetLast_isSome_iff_keys n ov
  unfold updateWith reloadWith
  simp only [hvirt, he, Option.getD_some]
  refine ⟨⟨_, rfl, fun n => by rw [dget_dupdate_or, hl]⟩, ⟨_, rfl, ?_⟩, ?_, ?_⟩
  · intro n
    simp only [List.mem_append, List.mem_filter, decide_eq_true_eq, Option.isSome_or, Bool.or_eq_true, hkeys, hm]
    constructor
    · rintro (h1 | ⟨h1, _⟩)
      · exact Or.inr h1
      · exact Or.inl h1
    · rintro (h1 | h1)
      · by_cases h2 : (look n).isSome = true
        · exact Or.inl h2
        · exact Or.inr ⟨h1, h2⟩
      · exact Or.inl h1
  · intro cl hcl p hp
    cases hc : st.cleaned with
    | none => simp [hc] at hcl
    | some cl0 =>
      simp [hc] at hcl
      subst hcl
      rcases mem_patch hp with hp | ⟨v, hv, e'⟩
      · obtain ⟨h1, h2⟩ := h.valid cl0 hc p hp
        exact ⟨h1, by simp [Option.isSome_or, h2]⟩
      · subst e'
        have : v ∈ keys ov := (List.mem_filter.mp hv).1
        exact ⟨rfl, by simp [Option.isSome_or, (hkeys v).mpr this]⟩
  · intro cl hcl n hn
    cases hc : st.cleaned with
    | none => simp [hc] at hcl
    | some cl0 =>
      simp [hc] at hcl
      subst hcl
      by_cases h2 : (look n).isSome = true
      · exact patch_mono (h.complete cl0 hc n h2)
      · simp only [Option.isSome_or, Bool.or_eq_true, h2, or_false, Bool.false_eq_true] at hn
        apply patch_complete
        exact List.mem_filter.mpr ⟨(hkeys n).mp hn, by simpa [hm] using h2⟩

/-- history invariant needed while the stale-cache quirk is on -/
structure Sync (U : List S) (st : EnvSt) : Prop where
  valid : ∀ cl, st.cleaned = some cl → ∀ p ∈ cl, p.1 = clean p.2 ∧ p.2 ∈ U
  complete : ∀ cl, st.cleaned = some cl → ∀ v ∈ st.virtVN, (dget (clean v) cl).isSome = true
  names : ∀ n ∈ st.virtVN, n ∈ U

/-- invariant of every reachable library state -/
structure Inv (q : Quirks) (U : List S) (st : EnvSt) : Prop where
  fresh : st.environ = none → st.varNames = none ∧ st.cleaned = none
  sync : q.staleCleaned = true → Sync U st

theorem reloadOs_ready {q : Quirks} {U : List S} {st : EnvSt} (rank : List S) (os : Dict)
    (hinv : Inv q U st) (hU : q.staleCleaned = true → CleanInj U ∧ ∀ n ∈ keys os, n ∈ U) :
    Ready (fun n => dget n os) (reloadOs q rank os st) := by
  have hkeys : ∀ n, n ∈ keys os ↔ (dget n os).isSome = true := fun n => (dget_isSome_iff_keys n os).symm
  cases he : st.environ with
  | none =>
    obtain ⟨hv, hc⟩ := hinv.fresh he
    have hvirt : st.virtVN = [] := by simp [EnvSt.virtVN, hv, he]
    unfold reloadOs loadEnviron forceVN
    simp only [hvirt, he, hc, Option.isNone_none, ↓reduceIte, Option.map_none]
    refine ⟨⟨_, rfl, fun _ => rfl⟩, ⟨_, rfl, ?_⟩, ?_, ?_⟩
    · intro n; simp [hkeys]
    · intro cl hcl; simp at hcl
    · intro cl hcl; simp at hcl
  | some e0 =>
    unfold reloadOs loadEnviron forceVN
    simp only [he, Option.isNone_some, Bool.false_eq_true, ↓reduceIte]
    refine ⟨⟨_, rfl, fun _ => rfl⟩, ⟨_, rfl, fun n => hkeys n⟩, ?_, ?_⟩
    · intro cl hcl p hp
      cases hc : st.cleaned with
      | none => simp [hc] at hcl
      | some cl0 =>
        simp only [hc, Option.map_some, Option.some.injEq] at hcl
        subst hcl
        rcases mem_patch hp with hp | ⟨v, hv, e'⟩
        · by_cases hq : q.staleCleaned = true
          · simp only [hq, ↓reduceIte] at hp
            obtain ⟨hp1, hp2⟩ := List.mem_filter.mp hp
            simp only [decide_eq_true_eq] at hp2
            exact ⟨(((hinv.sync hq).valid cl0 hc p hp1)).1, (hkeys _).mp hp2⟩
          · simp only [hq] at hp
            obtain ⟨v, hv, e'⟩ := mem_buildCleaned hp
            subst e'
            exact ⟨rfl, (hkeys _).mp hv⟩
        · subst e'
          exact ⟨rfl, (hkeys _).mp (List.mem_filter.mp hv).1⟩
    · intro cl hcl n hn
      have hnk : n ∈ keys os := (hkeys n).mpr hn
      cases hc : st.cleaned with
      | none => simp [hc] at hcl
      | some cl0 =>
        simp only [hc, Option.map_some, Option.some.injEq] at hcl
        subst hcl
        by_cases hq : q.staleCleaned = true
        · simp only [hq, ↓reduceIte]
          by_cases hold : n ∈ st.virtVN
          · apply patch_mono
            have hs := hinv.sync hq
            have hsome := hs.complete cl0 hc n hold
            cases hd : dget (clean n) cl0 with
            | none => simp [hd] at hsome
            | some v' =>
              have hmem := dget_some_mem hd
              obtain ⟨hk, hvU⟩ := hs.valid cl0 hc _ hmem
              simp only at hk hvU
              have : v' = n := (hU hq).1 v' hvU n (hs.names n hold) hk.symm
              subst this
              exact dget_isSome_of_mem (List.mem_filter.mpr ⟨hmem, by simpa using hnk⟩)
          · exact patch_complete (List.mem_filter.mpr ⟨hnk, by simpa using hold⟩)
        · simp only [hq]
          exact patch_mono (patch_complete hnk)

theorem prepare_ready {q : Quirks} {U : List S} {st : EnvSt} (os : Dict) (c : ClassDef) (a : InstArgs)
    (hr : a.reload = true) (hinv : Inv q U st) (hU : q.staleCleaned = true → CleanInj U ∧ ∀ n ∈ keys os, n ∈ U) :
    Ready (refLookup os (effSecrets c a) (effDotenv c a)) (prepare q os c a st) := by
  have h1 := reloadOs_ready a.rank os hinv hU
  unfold prepare
  simp only [hr, ↓reduceIte]
  have h2 : Ready (fun n => (layersGet (effSecrets c a) n).or (dget n os))
      (if effSecrets c a = [] then reloadOs q a.rank os st
       else updateWith a.rank (mergeFiles (effSecrets c a)) (reloadOs q a.rank os st)) := by
    by_cases hs : effSecrets c a = []
    · simp only [hs, ↓reduceIte]
      exact h1.congr (fun n => by simp [layersGet])
    · simp only [hs, ↓reduceIte]
      exact (updateWith_ready a.rank _ h1).congr (fun n => by rw [dgetLast_mergeFiles])
  by_cases hd : effDotenv c a = []
  · simp only [hd, ↓reduceIte]
    exact h2.congr (fun n => by rw [refLookup_eq]; simp [layersGet])
  · simp only [hd, ↓reduceIte]
    exact (updateWith_ready a.rank _ h2).congr (fun n => by rw [refLookup_eq, dgetLast_mergeFiles])

theorem refLookup_isSome_names {os : Dict} {secs dots : List Dict} {n : S}
    (h : (refLookup os secs dots n).isSome = true) : n ∈ refNames os secs dots := by
  rw [refLookup_eq] at h
  simp only [Option.isSome_or, Bool.or_eq_true] at h
  unfold refNames
  simp only [List.mem_append]
  rcases h with h | h | h
  · obtain ⟨f, hf, hn⟩ := layersGet_isSome h
    exact Or.inr (List.mem_flatMap.mpr ⟨f, hf, hn⟩)
  · obtain ⟨f, hf, hn⟩ := layersGet_isSome h
    exact Or.inl (Or.inr (List.mem_flatMap.mpr ⟨f, hf, hn⟩))
  · exact Or.inl (Or.inl ((dget_isSome_iff_keys n os).mp h))

/-! ### what the lookup phase can do to the state: only fire the two cached properties -/

theorem tryCleaned_preserves (P : EnvSt → Prop) (rank : List S) (hc : ∀ st, P st → P (forceCleaned rank st))
    (key : S) (st : EnvSt) (h : P st) : P (tryCleaned rank key st).2 := by
  unfold tryCleaned
  simp only
  cases dget (clean key) ((forceCleaned rank st).cleaned.getD []) <;> exact hc st h

theorem getEnv_preserves (P : EnvSt → Prop) (rank : List S) (hv : ∀ st, P st → P (forceVN st))
    (hc : ∀ st, P st → P (forceCleaned rank st)) (prio : Priority) (key : S) (st : EnvSt) (h : P st) :
    P (getEnv rank prio key st).2 := by
  unfold getEnv
  simp only
  cases (tiers prio key).find? (fun n => decide (n ∈ (forceVN st).virtVN)) with
  | some n => exact hv st h
  | none => exact tryCleaned_preserves P rank hc key _ (hv st h)

theorem lookupExact_preserves (P : EnvSt → Prop) (hv : ∀ st, P st → P (forceVN st))
    (names : List S) (st : EnvSt) (h : P st) : P (lookupExact names st).2 := by
  unfold lookupExact
  simp only
  cases names.find? (fun n => decide (n ∈ (forceVN st).virtVN)) <;> exact hv st h

theorem lookupField_preserves (P : EnvSt → Prop) (q : Quirks) (rank : List S) (hv : ∀ st, P st → P (forceVN st))
    (hc : ∀ st, P st → P (forceCleaned rank st)) (prio : Priority) (pfx : S) (f : FieldDef) (st : EnvSt) (h : P st) :
    P (lookupField q rank prio pfx f st).2 := by
  unfold lookupField
  by_cases hex : f.explicit = []
  · simp only [hex, ↓reduceIte]
    exact getEnv_preserves P rank hv hc prio _ st h
  · simp only [hex, ↓reduceIte]
    have h1 := lookupExact_preserves P hv (explicitArg q pfx f.explicit) st h
    cases hr : lookupExact (explicitArg q pfx f.explicit) st with
    | mk g st1 =>
      rw [hr] at h1
      cases g with
      | val v => exact h1
      | keyError => exact h1
      | unset =>
        simp only
        by_cases hq : q.explicitNoFallback = true
        · simp only [hq, ↓reduceIte]; exact h1
        · simp only [hq]; exact getEnv_preserves P rank hv hc prio _ st1 h1

theorem resolveField_preserves (P : EnvSt → Prop) (q : Quirks) (rank : List S) (hv : ∀ st, P st → P (forceVN st))
    (hc : ∀ st, P st → P (forceCleaned rank st)) (prio : Priority) (pfx : S) (kw : Dict) (f : FieldDef)
    (st : EnvSt) (h : P st) : P (resolveField q rank prio pfx kw f st).2 := by
  unfold resolveField
  cases dget f.name kw with
  | some v => exact h
  | none =>
    simp only
    have h1 := lookupField_preserves P q rank hv hc prio pfx f st h
    cases hg : (lookupField q rank prio pfx f st).1 with
    | val v => exact h1
    | keyError => exact h1
    | unset =>
      simp only
      by_cases hd : f.hasDefault = true
      · simp only [hd, ↓reduceIte]; exact h1
      · simp only [hd]
        by_cases hex : f.explicit = []
        · simp only [hex, ↓reduceIte]; exact hc _ h1
        · simp only [hex, ↓reduceIte]; exact h1

theorem resolveAll_preserves (P : EnvSt → Prop) (q : Quirks) (rank : List S) (hv : ∀ st, P st → P (forceVN st))
    (hc : ∀ st, P st → P (forceCleaned rank st)) (prio : Priority) (pfx : S) (kw : Dict) (fields : List FieldDef) :
    ∀ st, P st → P (resolveAll q rank prio pfx kw fields st).2 := by
  induction fields with
  | nil => intro st h; exact h
  | cons f r ih =>
    intro st h
    simp only [resolveAll]
    exact ih _ (resolveField_preserves P q rank hv hc prio pfx kw f st h)

/-! ### the invariant along histories -/

theorem virtVN_forceVN (st : EnvSt) : (forceVN st).virtVN = st.virtVN := by
  simp [forceVN, EnvSt.virtVN]

theorem sync_of_ready {look : S → Option S} {U : List S} {st : EnvSt} (h : Ready look st)
    (hU : ∀ n, (look n).isSome = true → n ∈ U) : Sync U st := by
  refine ⟨?_, ?_, ?_⟩
  · intro cl hcl p hp
    obtain ⟨h1, h2⟩ := h.valid cl hcl p hp
    exact ⟨h1, hU _ h2⟩
  · intro cl hcl v hv
    exact h.complete cl hcl v ((h.virtVN_mem v).mp hv)
  · intro n hn
    exact hU n ((h.virtVN_mem n).mp hn)

theorem sync_forceVN {U : List S} (st : EnvSt) (h : Sync U st) : Sync U (forceVN st) := by
  refine ⟨h.valid, ?_, ?_⟩
  · intro cl hcl v hv
    rw [virtVN_forceVN] at hv
    exact h.complete cl hcl v hv
  · intro n hn
    rw [virtVN_forceVN] at hn
    exact h.names n hn

theorem sync_forceCleaned {U : List S} (rank : List S) (st : EnvSt) (h : Sync U st) : Sync U (forceCleaned rank st) := by
  unfold forceCleaned
  cases hc : st.cleaned with
  | some cl => exact h
  | none =>
    simp only
    have hvirt : EnvSt.virtVN { forceVN st with cleaned := some (buildCleaned rank st.virtVN) } = st.virtVN := by
      simp [forceVN, EnvSt.virtVN]
    refine ⟨?_, ?_, ?_⟩
    · intro cl hcl p hp
      simp at hcl
      subst hcl
      obtain ⟨v, hv, e⟩ := mem_buildCleaned hp
      subst e
      exact ⟨rfl, h.names v hv⟩
    · intro cl hcl v hv
      simp at hcl
      subst hcl
      rw [hvirt] at hv
      exact patch_complete hv
    · intro n hn
      rw [hvirt] at hn
      exact h.names n hn

theorem sync_updateWith {U : List S} (rank : List S) (ov : Dict) (hov : ∀ n ∈ keys ov, n ∈ U) (st : EnvSt)
    (h : Sync U st) : Sync U (updateWith rank ov st) := by
  unfold updateWith reloadWith
  have hvirt : ∀ (e : Option Dict) (c : Option Dict) (l : List S),
      EnvSt.virtVN { environ := e, varNames := some l, cleaned := c } = l := by
    intro e c l; simp [EnvSt.virtVN]
  refine ⟨?_, ?_, ?_⟩
  · intro cl hcl p hp
    cases hc : st.cleaned with
    | none => simp [hc] at hcl
    | some cl0 =>
      simp only [hc, Option.map_some, Option.some.injEq] at hcl
      subst hcl
      rcases mem_patch hp with hp | ⟨v, hv, e'⟩
      · exact h.valid cl0 hc p hp
      · subst e'
        exact ⟨rfl, hov v (List.mem_filter.mp hv).1⟩
  · intro cl hcl v hv
    simp only [hvirt, List.mem_append] at hv
    cases hc : st.cleaned with
    | none => simp [hc] at hcl
    | some cl0 =>
      simp only [hc, Option.map_some, Option.some.injEq] at hcl
      subst hcl
      rcases hv with hv | hv
      · exact patch_mono (h.complete cl0 hc v hv)
      · exact patch_complete hv
  · intro n hn
    simp only [hvirt, List.mem_append] at hn
    rcases hn with hn | hn
    · exact h.names n hn
    · exact hov n (List.mem_filter.mp hn).1

theorem sync_loadEnviron_false {U : List S} (q : Quirks) (rank : List S) (os : Dict) (hos : ∀ n ∈ keys os, n ∈ U)
    (st : EnvSt) (hf : st.environ = none → st.varNames = none ∧ st.cleaned = none) (h : Sync U st) :
    Sync U (loadEnviron q rank os false st) := by
  unfold loadEnviron
  cases he : st.environ with
  | some e => simp only [Bool.false_eq_true, ↓reduceIte]; exact h
  | none =>
    obtain ⟨hv, hc⟩ := hf he
    simp only
    refine ⟨?_, ?_, ?_⟩
    · intro cl hcl; simp [hc] at hcl
    · intro cl hcl; simp [hc] at hcl
    · intro n hn
      simp [EnvSt.virtVN, hv] at hn
      exact hos n hn

theorem forceCleaned_environ (rank : List S) (st : EnvSt) : (forceCleaned rank st).environ = st.environ := by
  unfold forceCleaned
  cases st.cleaned <;> rfl

theorem loadEnviron_isSome (q : Quirks) (rank : List S) (os : Dict) (force : Bool) (st : EnvSt) :
    (loadEnviron q rank os force st).environ.isSome = true := by
  unfold loadEnviron
  cases he : st.environ with
  | none => rfl
  | some e => cases force <;> simp [he]

theorem reloadOs_isSome (q : Quirks) (rank : List S) (os : Dict) (st : EnvSt) :
    (reloadOs q rank os st).environ.isSome = true := by
  unfold reloadOs
  exact loadEnviron_isSome q rank os true (forceVN st)

theorem prepare_isSome (q : Quirks) (os : Dict) (c : ClassDef) (a : InstArgs) (st : EnvSt) :
    (prepare q os c a st).environ.isSome = true := by
  unfold prepare
  have h1 : (if a.reload = true then reloadOs q a.rank os st else loadEnviron q a.rank os false st).environ.isSome = true := by
    cases a.reload
    · exact loadEnviron_isSome _ _ _ _ _
    · exact reloadOs_isSome _ _ _ _
  by_cases hd : effDotenv c a = []
  · simp only [hd, ↓reduceIte]
    by_cases hs : effSecrets c a = []
    · simp only [hs, ↓reduceIte]; exact h1
    · simp only [hs, ↓reduceIte]; rfl
  · simp only [hd, ↓reduceIte]; rfl

theorem instantiate_isSome (q : Quirks) (os : Dict) (c : ClassDef) (a : InstArgs) (st : EnvSt) :
    (instantiate q os c a st).2.environ.isSome = true := by
  unfold instantiate
  simp only
  exact resolveAll_preserves (fun s => s.environ.isSome = true) q a.rank (fun _ h => h)
    (fun s h => by rw [forceCleaned_environ]; exact h) c.prio _ a.kw c.fields _ (prepare_isSome q os c a st)

theorem prepare_sync {q : Quirks} {U : List S} {st : EnvSt} (os : Dict) (c : ClassDef) (a : InstArgs)
    (hq : q.staleCleaned = true) (hinv : Inv q U st) (hinj : CleanInj U) (hos : ∀ n ∈ keys os, n ∈ U)
    (hov : ∀ n ∈ Op.names (.inst c a), n ∈ U) : Sync U (prepare q os c a st) := by
  unfold prepare
  have h1 : Sync U (if a.reload = true then reloadOs q a.rank os st else loadEnviron q a.rank os false st) := by
    by_cases hr : a.reload = true
    · simp only [hr, ↓reduceIte]
      have := reloadOs_ready (U := U) a.rank os hinv (fun _ => ⟨hinj, hos⟩)
      exact sync_of_ready this (fun n hn => hos n ((dget_isSome_iff_keys n os).mp hn))
    · simp only [hr]
      exact sync_loadEnviron_false q a.rank os hos st hinv.fresh (hinv.sync hq)
  have hsec : ∀ n ∈ keys (mergeFiles (effSecrets c a)), n ∈ U := fun n hn =>
    hov n (by simp only [Op.names, List.mem_append]; exact Or.inl (mem_keys_mergeFiles hn))
  have hdot : ∀ n ∈ keys (mergeFiles (effDotenv c a)), n ∈ U := fun n hn =>
    hov n (by simp only [Op.names, List.mem_append]; exact Or.inr (mem_keys_mergeFiles hn))
  have h2 : Sync U (if effSecrets c a = [] then
        (if a.reload = true then reloadOs q a.rank os st else loadEnviron q a.rank os false st)
      else updateWith a.rank (mergeFiles (effSecrets c a))
        (if a.reload = true then reloadOs q a.rank os st else loadEnviron q a.rank os false st)) := by
    by_cases hs : effSecrets c a = []
    · simp only [hs, ↓reduceIte]; exact h1
    · simp only [hs, ↓reduceIte]; exact sync_updateWith _ _ hsec _ h1
  by_cases hd : effDotenv c a = []
  · simp only [hd, ↓reduceIte]; exact h2
  · simp only [hd, ↓reduceIte]; exact sync_updateWith _ _ hdot _ h2

theorem instantiate_inv {q : Quirks} {U : List S} {st : EnvSt} (os : Dict) (c : ClassDef) (a : InstArgs)
    (hinv : Inv q U st)
    (hU : q.staleCleaned = true → CleanInj U ∧ (∀ n ∈ keys os, n ∈ U) ∧ ∀ n ∈ Op.names (.inst c a), n ∈ U) :
    Inv q U (instantiate q os c a st).2 := by
  refine ⟨?_, ?_⟩
  · intro hn
    have := instantiate_isSome q os c a st
    rw [hn] at this
    simp at this
  · intro hq
    obtain ⟨hinj, hos, hov⟩ := hU hq
    unfold instantiate
    simp only
    exact resolveAll_preserves (Sync U) q a.rank sync_forceVN (sync_forceCleaned a.rank) c.prio _ a.kw c.fields _
      (prepare_sync os c a hq hinv hinj hos hov)

theorem reloadOs_inv {q : Quirks} {U : List S} {st : EnvSt} (rank : List S) (os : Dict) (hinv : Inv q U st)
    (hU : q.staleCleaned = true → CleanInj U ∧ ∀ n ∈ keys os, n ∈ U) : Inv q U (reloadOs q rank os st) := by
  refine ⟨?_, ?_⟩
  · intro hn
    have := reloadOs_isSome q rank os st
    rw [hn] at this
    simp at this
  · intro hq
    have := reloadOs_ready rank os hinv hU
    exact sync_of_ready this (fun n hn => (hU hq).2 n ((dget_isSome_iff_keys n os).mp hn))

theorem mem_keys_dset {n k v : S} {d : Dict} (h : n ∈ keys (dset k v d)) : n = k ∨ n ∈ keys d := by
  rw [keys_dset] at h
  by_cases hm : k ∈ keys d
  · simp only [hm, ↓reduceIte] at h; exact Or.inr h
  · simp only [hm, ↓reduceIte, List.mem_append, List.mem_singleton] at h
    rcases h with h | h
    · exact Or.inr h
    · exact Or.inl h

theorem mem_keys_ddel {n k : S} {d : Dict} (h : n ∈ keys (ddel k d)) : n ∈ keys d := by
  unfold keys ddel at h
  obtain ⟨p, hp, e⟩ := List.mem_map.mp h
  exact List.mem_map.mpr ⟨p, (List.mem_filter.mp hp).1, e⟩

theorem reachable_inv {q : Quirks} {U : List S} (hinj : q.staleCleaned = true → CleanInj U) {w : World}
    (hw : Reachable q U w) : Inv q U w.env ∧ (q.staleCleaned = true → ∀ n ∈ keys w.os, n ∈ U) := by
  induction hw with
  | init os h =>
    refine ⟨⟨fun _ => ⟨rfl, rfl⟩, fun _ => ⟨?_, ?_, ?_⟩⟩, h⟩
    · intro cl hcl; simp at hcl
    · intro cl hcl; simp at hcl
    · intro n hn; simp [EnvSt.virtVN] at hn
  | step op hw h ih =>
    obtain ⟨hinv, hos⟩ := ih
    cases op with
    | setOs k v =>
      refine ⟨hinv, fun hq n hn => ?_⟩
      simp only [step] at hn
      rcases mem_keys_dset hn with e | hn
      · subst e; exact h hq n (by simp [Op.names])
      · exact hos hq n hn
    | delOs k =>
      refine ⟨hinv, fun hq n hn => ?_⟩
      simp only [step] at hn
      exact hos hq n (mem_keys_ddel hn)
    | reload rank =>
      refine ⟨?_, hos⟩
      simp only [step]
      exact reloadOs_inv rank _ hinv (fun hq => ⟨hinj hq, hos hq⟩)
    | inst c a =>
      refine ⟨?_, hos⟩
      simp only [step]
      exact instantiate_inv _ c a hinv (fun hq => ⟨hinj hq, hos hq, h hq⟩)

theorem Reach.reachable {q : Quirks} {w : World} (hq : q.staleCleaned = false) (h : Reach q w) : Reachable q [] w := by
  induction h with
  | init os => exact .init os (fun h => by rw [hq] at h; cases h)
  | step op _ ih => exact .step op ih (fun h => by rw [hq] at h; cases h)

theorem fieldOK_clean (look : S → Option S) (dom : List S) (prio : Priority) (pfx : S) (kw : Dict) (f : FieldDef) :
    FieldOK Quirks.clean look dom prio pfx kw f :=
  ⟨fun h => by simp [Quirks.clean] at h, fun h => by simp [Quirks.clean] at h⟩

/-- the core of C18_resolve, for any quirk setting -/
theorem instantiate_meets {q : Quirks} {U : List S} {w : World} (hinj : q.staleCleaned = true → CleanInj U)
    (hw : Reachable q U w) (c : ClassDef) (a : InstArgs) (hr : a.reload = true)
    (hok : ∀ f ∈ c.fields, FieldOK q (refLookup w.os (effSecrets c a) (effDotenv c a))
      (refNames w.os (effSecrets c a) (effDotenv c a)) c.prio (effPrefix c a) a.kw f) :
    (instantiate q w.os c a w.env).1.meets (refResolve w.os c a) = true := by
  obtain ⟨hinv, hos⟩ := reachable_inv hinj hw
  have hready := prepare_ready w.os c a hr hinv (fun hq => ⟨hinj hq, hos hq⟩)
  obtain ⟨_, hm⟩ := resolveAll_spec q a.rank _ c.prio (effPrefix c a) a.kw
    (fun n hn => refLookup_isSome_names hn) c.fields _ hready hok
  unfold instantiate refResolve
  exact outcomeOf_meets hm

theorem reloadOs_environ (q : Quirks) (rank : List S) (os : Dict) (st : EnvSt) :
    (reloadOs q rank os st).environ = some os := by
  unfold reloadOs loadEnviron forceVN
  cases st.environ <;> simp

theorem prepare_environ (q : Quirks) (os : Dict) (c : ClassDef) (a : InstArgs) (st : EnvSt) (hr : a.reload = true) :
    ∃ e, (prepare q os c a st).environ = some e ∧
      ∀ n, dget n e = refLookup os (effSecrets c a) (effDotenv c a) n := by
  unfold prepare
  simp only [hr, ↓reduceIte]
  have h2 : ∃ e, (if effSecrets c a = [] then reloadOs q a.rank os st
       else updateWith a.rank (mergeFiles (effSecrets c a)) (reloadOs q a.rank os st)).environ = some e ∧
       ∀ n, dget n e = (layersGet (effSecrets c a) n).or (dget n os) := by
    by_cases hs : effSecrets c a = []
    · simp only [hs, ↓reduceIte]
      exact ⟨os, reloadOs_environ _ _ _ _, fun n => by simp [layersGet]⟩
    · simp only [hs, ↓reduceIte]
      refine ⟨dupdate os (mergeFiles (effSecrets c a)), ?_, fun n => ?_⟩
      · simp [updateWith, reloadWith, reloadOs_environ]
      · rw [dget_dupdate_or, dgetLast_mergeFiles]
  obtain ⟨e, he, hl⟩ := h2
  by_cases hd : effDotenv c a = []
  · simp only [hd, ↓reduceIte]
    exact ⟨e, he, fun n => by rw [hl, refLookup_eq]; simp [layersGet]⟩
  · simp only [hd, ↓reduceIte]
    refine ⟨dupdate e (mergeFiles (effDotenv c a)), ?_, fun n => ?_⟩
    · show some (dupdate (Option.getD _ []) _) = _
      have : ∀ (s : EnvSt), s.environ = some e → (reloadWith a.rank (mergeFiles (effDotenv c a)) s).environ = some e :=
        fun s hs => hs
      rw [this _ he]
      rfl
    · rw [dget_dupdate_or, dgetLast_mergeFiles, hl, refLookup_eq]

theorem layersGet_append_singleton (fs : List Dict) (f : Dict) (n : S) :
    layersGet (fs ++ [f]) n = (dgetLast n f).or (layersGet fs n) := by
  induction fs with
  | nil => simp [layersGet]
  | cons g r ih =>
    simp only [List.cons_append, layersGet, ih]
    cases dgetLast n f <;> cases layersGet r n <;> simp

theorem outcome_meets_missing {o : Outcome} {es : List (S × Expect)} (h : o.meets es = true) :
    (refMissing es ≠ [] → o = .missing (refMissing es)) ∧ (refMissing es = [] → ∃ rs, o = .ok rs ∧ meetsAll rs es = true) := by
  cases o with
  | raised => simp [Outcome.meets] at h
  | missing ns =>
    simp only [Outcome.meets, Bool.and_eq_true, decide_eq_true_eq] at h
    refine ⟨fun _ => by rw [h.2], fun he => ?_⟩
    rw [he] at h
    exact absurd h.2 h.1
  | ok rs =>
    simp only [Outcome.meets, Bool.and_eq_true, decide_eq_true_eq] at h
    exact ⟨fun hne => absurd h.1 hne, fun _ => ⟨rs, rfl, h.2⟩⟩

/-! ### witness data -/

def wField : FieldDef := { name := "myVar".toList, explicit := [], hasDefault := true }
def wClass : ClassDef := { fields := [wField], pfx := [], prio := .screamingSnake, metaDotenv := [], metaSecrets := [] }
def wArgs : InstArgs := { kw := [], reload := true, pfx := none, envFile := none, secrets := none, rank := [] }
def wOs : Dict := [("my_var".toList, "lower".toList)]
/-- instantiate (cache: myvar -> my_var), set MY_VAR (a new name: the cache entry is patched to MY_VAR), instantiate,
delete MY_VAR; no two names are ever candidates at the same moment, so the outcome does not depend on any `rank` -/
def wOps : List Op :=
  [.inst wClass wArgs, .setOs "MY_VAR".toList "upper".toList, .inst wClass wArgs, .delOs "MY_VAR".toList]

def wClassMulti : ClassDef :=
  { fields := [{ name := "x".toList, explicit := ["A".toList, "B".toList], hasDefault := true }], pfx := "P_".toList,
    prio := .screamingSnake, metaDotenv := [], metaSecrets := [] }
def wOsMulti : Dict := [("P_A".toList, "pa".toList), ("P_B".toList, "pb".toList)]

def wClassNoFall : ClassDef :=
  { fields := [{ name := "a".toList, explicit := ["NOPE".toList], hasDefault := true }], pfx := [],
    prio := .screamingSnake, metaDotenv := [], metaSecrets := [] }
def wOsNoFall : Dict := [("A".toList, "a".toList)]

end DW.Env
