/- The structural dump/load round trip of the default engine over the fragment int / str / bool / Optional / list /
dict[str, ·] / plain dataclasses (arbitrary nesting): definitions (`toJ`, `PlainCls`, `Conf`) and the induction behind
`C01_roundtrip_struct`. -/
import DW.Model.Load
import DW.Model.StdLaws
import DW.Lemmas.Dump
import DW.Lemmas.Strings
import DW.Lemmas.Tagged
namespace DW.RT
open DW DW.Str DW.Tagged

/-- the key of a JSON object entry as `json.dumps` writes it (string keys only in the fragment) -/
def keyStr : DVal → S
  | .str s => s
  | _ => []

mutual
/-- what `json.loads(json.dumps(d))` makes of a dump result -/
def toJ : DVal → JVal
  | .null => .null
  | .bool b => .bool b
  | .int i => .int i
  | .float f => .float f
  | .str s => .str s
  | .list xs => .list (toJList xs)
  | .tuple xs => .list (toJList xs)
  | .ntuple _ xs => .list (toJList xs)
  | .dict _ kvs => .dict (toJPairs kvs)
  | .bad _ => .null
def toJList : List DVal → List JVal
  | [] => []
  | x :: xs => toJ x :: toJList xs
def toJPairs : List (DVal × DVal) → List (S × JVal)
  | [] => []
  | (k, v) :: r => (keyStr k, toJ v) :: toJPairs r
end

/-- the default effective Meta (no Meta anywhere) -/
abbrev eff0 : MetaCfg := {}

/-- the effective Meta has no skip rule and ISO date/times -/
structure NoSkip (eff : MetaCfg) : Prop where
  sd : eff.skipDefaults.getD false = false
  sdi : eff.skipDefaultsIf = none
  si : eff.skipIf = none
  ts : eff.marshalTimestamp.getD false = false

/-- the tag key a class's dumper writes / its loader ignores -/
abbrev tagKeyOf (eff : MetaCfg) : S := eff.tagKey.getD Generated.tagKey.toList

/-- what a *tagged* class (tag `t`) needs for its tag entry to be harmless on the way back: the tag the Union dispatch
knows the class by is the one its dumper writes; the tag key the dumper uses is the one the dispatch reads (that of the
travelling config); and the tag key is no field name, alias or dump key of the class -/
structure TagFacts (cfg : Option MetaCfg) (ci : ClassInfo) (t : S) : Prop where
  member : memberTag cfg ci = some t
  keyAgree : tagKeyOf (effMeta ci.cmeta cfg) = (cfg.bind (·.tagKey)).getD Generated.tagKey.toList
  notField : tagKeyOf (effMeta ci.cmeta cfg) ∉ initFieldNames ci
  notAlias : (aliasTable ci).reverse.find? (fun p => p.1 == tagKeyOf (effMeta ci.cmeta cfg)) = none
  notDumpKey : ∀ f ∈ ci.fields, dumpKey (effMeta ci.cmeta cfg) f ≠ .ok (tagKeyOf (effMeta ci.cmeta cfg))

/-- a dataclass — with or without a Meta of its own, below any travelling config `cfg` — whose effective Meta
(`effMeta ci.cmeta cfg`: key transforms, recursive root settings …) has no skip rule / TIMESTAMP mode and carries the tag
`tg` (none = untagged), without catch-all or init=False fields, and whose dump keys (first alias when `all=True`, else the
effective dump transform of the name) lead the loader (effective load transform, aliases) back to their fields -/
structure ClsOK (cfg : Option MetaCfg) (ci : ClassInfo) (ftys : List (S × Ty)) (tg : Option S) : Prop where
  noSkip : NoSkip (effMeta ci.cmeta cfg)
  tag : (effMeta ci.cmeta cfg).tag = tg
  names : ci.fields.map (·.name) = ftys.map (·.1)
  nodup : (ci.fields.map (·.name)).Nodup
  plain : ∀ f ∈ ci.fields, f.init = true ∧ f.isCatchAll = false ∧ f.dumpSkip = false ∧ f.skipIf = none
  keys : ∀ f ∈ ci.fields, ∃ k, dumpKey (effMeta ci.cmeta cfg) f = .ok k ∧
            resolveKey (effMeta ci.cmeta cfg) ci k = .ok (.field f.name)
  tagFacts : ∀ t, tg = some t → TagFacts cfg ci t

/-- an untagged class of the fragment -/
abbrev PlainCls (cfg : Option MetaCfg) (ci : ClassInfo) (ftys : List (S × Ty)) : Prop := ClsOK cfg ci ftys none

/-- `NoneType` as a Union argument -/
def isNoneTy : Ty → Bool
  | .none => true
  | _ => false

/-- the other members of a Union of tagged dataclasses: dataclasses answering to other tags, or `None` -/
def OtherMember (cfg : Option MetaCfg) (tg : S) (t : Ty) : Prop :=
  (isCls t = true ∨ t = .none) ∧ tagOf cfg t ≠ some tg

/-- types whose dump is never JSON null -/
def nonNullTy : Ty → Bool
  | .int => true | .str => true | .bool => true | .float => true | .timedelta => true
  | .leaf _ => true
  | .seq .list _ => true
  | .seq .deque _ => true
  | .vtuple _ => true
  | .tuple (_ :: _) => true
  | .map .dict .str _ => true
  | .seq .set _ => true
  | .seq .frozenset _ => true
  | .map .defaultdict .str _ => true
  | .map .ordereddict .str _ => true
  | .ntuple _ _ => true
  | .typeddict _ _ => true
  | .cls _ _ => true
  | _ => false

/-- the entries of a TypedDict value: one optional value per declared key, in declaration order (`none` = key absent) -/
def tdPresent : List (S × Ty × Bool) → List (Option PyVal) → List (S × PyVal)
  | f :: fs, some v :: vs => (f.1, v) :: tdPresent fs vs
  | _ :: fs, none :: vs => tdPresent fs vs
  | _, _ => []

/-- value `v` conforms to type `t`, for the fragment: int, str, bool, Optional, list, dict[str, ·], plain dataclasses -/
inductive Conf (std : Std) (cfg : Option MetaCfg) : Ty → PyVal → Prop
  | int (i : Int) : Conf std cfg .int (.int i)
  | float (f : PyFloat) : Conf std cfg .float (.float f)
  | leaf (k : LeafKind) (t : S) : std.validTok k t = true → Conf std cfg (.leaf k) (.leaf k false t)
  | timedelta (us : Int) : 0 ≤ us → Conf std cfg .timedelta (.timedelta us)
  | str (s : S) : Conf std cfg .str (.str s)
  | bool (b : Bool) : Conf std cfg .bool (.bool b)
  | optNone (t : Ty) : Conf std cfg (.optional t) .none
  | optSome (t : Ty) (v : PyVal) : nonNullTy t = true → Conf std cfg t v → Conf std cfg (.optional t) v
  | list (t : Ty) (xs : List PyVal) : (∀ x ∈ xs, Conf std cfg t x) → Conf std cfg (.seq .list t) (.seq .list xs)
  | vtuple (t : Ty) (xs : List PyVal) : (∀ x ∈ xs, Conf std cfg t x) → Conf std cfg (.vtuple t) (.tuple xs)
  | deque (t : Ty) (xs : List PyVal) : (∀ x ∈ xs, Conf std cfg t x) → Conf std cfg (.seq .deque t) (.seq .deque xs)
  | tuple (ts : List Ty) (xs : List PyVal) : ts ≠ [] → xs.length = ts.length → (∀ p ∈ ts.zip xs, Conf std cfg p.1 p.2) →
      Conf std cfg (.tuple ts) (.tuple xs)
  | enum (name : S) (members : List (S × Lit)) (m : S) (v : Lit) : (m, v) ∈ members → jEqLit v.toJ v = true →
      (∀ m' ∈ members, jEqLit v.toJ m'.2 = true → m' = (m, v)) → Conf std cfg (.enum name members) (.enum name m v)
  | dict (t : Ty) (kvs : List (S × PyVal)) : (kvs.map (·.1)).Nodup → (∀ p ∈ kvs, Conf std cfg t p.2) →
      Conf std cfg (.map .dict .str t) (.map .dict (kvs.map (fun p => (.str p.1, p.2))))
  | inst (ci : ClassInfo) (ftys : List (S × Ty)) (vals : List PyVal) (tg : Option S) : ClsOK cfg ci ftys tg →
      vals.length = ftys.length → (∀ p ∈ ftys.zip vals, Conf std cfg p.1.2 p.2) →
      Conf std cfg (.cls ci ftys) (.inst ci ((ftys.map (·.1)).zip vals))
  | unionTagged (pre post : List Ty) (ci : ClassInfo) (ftys : List (S × Ty)) (vals : List PyVal) (tg : S) :
      ClsOK cfg ci ftys (some tg) → vals.length = ftys.length → (∀ p ∈ ftys.zip vals, Conf std cfg p.1.2 p.2) →
      (∀ t ∈ pre, OtherMember cfg tg t) → (∀ t ∈ post, OtherMember cfg tg t) →
      Conf std cfg (.union (pre ++ .cls ci ftys :: post)) (.inst ci ((ftys.map (·.1)).zip vals))
  | unionNone (ts : List Ty) : ts.any isNoneTy = true → Conf std cfg (.union ts) .none
  | set (t : Ty) (xs : List PyVal) : xs.all PyVal.hashable = true → dedupKeep xs = xs → (∀ x ∈ xs, Conf std cfg t x) →
      Conf std cfg (.seq .set t) (.seq .set xs)
  | frozenset (t : Ty) (xs : List PyVal) : xs.all PyVal.hashable = true → dedupKeep xs = xs → (∀ x ∈ xs, Conf std cfg t x) →
      Conf std cfg (.seq .frozenset t) (.seq .frozenset xs)
  | defaultdict (t : Ty) (kvs : List (S × PyVal)) : (kvs.map (·.1)).Nodup → (∀ p ∈ kvs, Conf std cfg t p.2) →
      Conf std cfg (.map .defaultdict .str t) (.map .defaultdict (kvs.map (fun p => (.str p.1, p.2))))
  | ordereddict (t : Ty) (kvs : List (S × PyVal)) : (kvs.map (·.1)).Nodup → (∀ p ∈ kvs, Conf std cfg t p.2) →
      Conf std cfg (.map .ordereddict .str t) (.map .ordereddict (kvs.map (fun p => (.str p.1, p.2))))
  | literal (vs : List Lit) (l : Lit) : vs.find? (fun l' => jEqLit l.toJ l') = some l →
      Conf std cfg (.literal vs) l.toPy
  | ntuple (name : S) (fields : List (S × Ty × Option Dflt)) (xs : List PyVal) : xs.length = fields.length →
      (∀ p ∈ (fields.map (·.2.1)).zip xs, Conf std cfg p.1 p.2) →
      Conf std cfg (.ntuple name fields) (.ntuple name (fields.map (·.1)) xs)
  | typeddict (name : S) (fields : List (S × Ty × Bool)) (vals : List (Option PyVal)) :
      (fields.map (·.1)).Nodup → vals.length = fields.length →
      (∀ p ∈ fields.zip vals, p.2 = none → p.1.2.2 = false) →
      (∀ p ∈ fields.zip vals, ∀ v, p.2 = some v → Conf std cfg p.1.2.1 v) →
      Conf std cfg (.typeddict name fields) (.map .dict ((tdPresent fields vals).map (fun p => (.str p.1, p.2))))


/-- the round-trip statement for one value -/
def RT (std : Std) (cfg : Option MetaCfg) (t : Ty) (v : PyVal) : Prop :=
  ∀ d, dumpV std false cfg v = .ok d → loadD std cfg t (toJ d) = .ok v

theorem dump_int (std : Std) (cfg : Option MetaCfg) (i : Int) : dumpV std false cfg (.int i) = .ok (.int i) := by
  simp [dumpV, dumpScalar, pure, Except.pure]
theorem dump_str (std : Std) (cfg : Option MetaCfg) (s : S) : dumpV std false cfg (.str s) = .ok (.str s) := by
  simp [dumpV, dumpScalar, pure, Except.pure]
theorem dump_bool (std : Std) (cfg : Option MetaCfg) (b : Bool) : dumpV std false cfg (.bool b) = .ok (.bool b) := by
  simp [dumpV, dumpScalar, pure, Except.pure]
theorem dump_none (std : Std) (cfg : Option MetaCfg) : dumpV std false cfg .none = .ok .null := by
  simp [dumpV, dumpScalar, pure, Except.pure]

theorem rt_int (std : Std) (cfg : Option MetaCfg) (i : Int) : RT std cfg .int (.int i) := by
  intro d h; rw [dump_int] at h; cases h; simp [toJ, loadD, asInt, pure, Except.pure]
theorem rt_str (std : Std) (cfg : Option MetaCfg) (s : S) : RT std cfg .str (.str s) := by
  intro d h; rw [dump_str] at h; cases h; simp [toJ, loadD, asStr, pure, Except.pure]
theorem rt_bool (std : Std) (cfg : Option MetaCfg) (b : Bool) : RT std cfg .bool (.bool b) := by
  intro d h; rw [dump_bool] at h; cases h; simp [toJ, loadD, asBool, pure, Except.pure]
theorem rt_optNone (std : Std) (cfg : Option MetaCfg) (t : Ty) : RT std cfg (.optional t) .none := by
  intro d h; rw [dump_none] at h; cases h; simp [toJ, loadD, pure, Except.pure]


theorem dumpV_list (std : Std) (cfg : Option MetaCfg) (xs : List PyVal) :
    dumpV std false cfg (.seq .list xs) = (dumpList std false cfg xs).map DVal.list := by
  rw [dumpV]
  simp only [hookFor_list, bind, Except.bind, pure, Except.pure, Except.map]

theorem dumpV_dict (std : Std) (cfg : Option MetaCfg) (kvs : List (PyVal × PyVal)) :
    dumpV std false cfg (.map .dict kvs) = (dumpPairs std false cfg kvs).map (DVal.dict false) := by
  rw [dumpV]
  simp only [hookFor_dict, bind, Except.bind, pure, Except.pure, Except.map]
  cases dumpPairs std false cfg kvs <;> simp

theorem loadD_optional_nonnull (std : Std) (cfg : Option MetaCfg) (t : Ty) (o : JVal) (h : o ≠ .null) :
    loadD std cfg (.optional t) o = loadD std cfg t o := by
  rw [loadD]
  cases o <;> simp_all

theorem mapME_list (std : Std) (cfg : Option MetaCfg) (t : Ty) : ∀ (xs : List PyVal) (ds : List DVal),
    (∀ x ∈ xs, RT std cfg t x) → dumpList std false cfg xs = .ok ds →
    mapME (fun x => loadD std cfg t x) (toJList ds) = .ok xs
  | [], ds, _, h => by
    simp only [dumpList, pure, Except.pure, Except.ok.injEq] at h; subst h; rfl
  | x :: xs, ds, ih, h => by
    simp only [dumpList, bind, Except.bind] at h
    split at h
    · simp at h
    · next y hy =>
      split at h
      · simp at h
      · next ys hys =>
        simp only [pure, Except.pure, Except.ok.injEq] at h; subst h
        have h1 := ih x (by simp) y hy
        have h2 := mapME_list std cfg t xs ys (fun z hz => ih z (by simp [hz])) hys
        simp [toJList, mapME, h1, h2, bind, Except.bind, pure, Except.pure]

theorem rt_list (std : Std) (cfg : Option MetaCfg) (t : Ty) (xs : List PyVal) (ih : ∀ x ∈ xs, RT std cfg t x) : RT std cfg (.seq .list t) (.seq .list xs) := by
  intro d h
  rw [dumpV_list] at h
  cases hd : dumpList std false cfg xs with
  | error e => simp [hd, Except.map] at h
  | ok ds =>
    simp [hd, Except.map] at h; subst h
    rw [loadD]
    simp only [toJ, jIter, bind, Except.bind, mapME_list std cfg t xs ds ih hd, mkSeq, pure, Except.pure]


/-- the Python-side pair of a `dict[str, ·]` entry -/
abbrev pyPair (p : S × PyVal) : PyVal × PyVal := (.str p.1, p.2)

/-- the per-entry loader of `dict[str, t]` (the function `loadD` maps over the entries) -/
def pairLoader (std : Std) (cfg : Option MetaCfg) (t : Ty) (kv : S × JVal) : Except LErr (PyVal × PyVal) := do
  let k' ← loadD std cfg .str (.str kv.1)
  let v' ← loadD std cfg t kv.2
  pure (k', v')

theorem pairLoader_eq (std : Std) (cfg : Option MetaCfg) (t : Ty) (k : S) (j : JVal) (v : PyVal) (h : loadD std cfg t j = .ok v) :
    pairLoader std cfg t (k, j) = .ok (.str k, v) := by
  simp [pairLoader, loadD, asStr, h, bind, Except.bind, pure, Except.pure]

theorem mapME_pairs (std : Std) (cfg : Option MetaCfg) (t : Ty) : ∀ (kvs : List (S × PyVal)) (ps : List (DVal × DVal)),
    (∀ p ∈ kvs, RT std cfg t p.2) → dumpPairs std false cfg (kvs.map pyPair) = .ok ps →
    mapME (pairLoader std cfg t) (toJPairs ps) = .ok (kvs.map pyPair)
  | [], ps, _, h => by
    simp only [List.map_nil, dumpPairs, pure, Except.pure, Except.ok.injEq] at h; subst h; rfl
  | (k, v) :: r, ps, ih, h => by
    simp only [List.map_cons, pyPair, dumpPairs, bind, Except.bind, dump_str] at h
    split at h
    · simp at h
    · next v' hv =>
      split at h
      · simp at h
      · next r' hr =>
        simp only [pure, Except.pure, Except.ok.injEq] at h; subst h
        have h1 := pairLoader_eq std cfg t k (toJ v') v (ih (k, v) (by simp) v' hv)
        have h2 := mapME_pairs std cfg t r r' (fun z hz => ih z (by simp [hz])) hr
        simp only [toJPairs, keyStr, mapME, h1, h2, bind, Except.bind, pure, Except.pure, List.map_cons, pyPair]

theorem pyKeyEq_str (a b : S) : pyKeyEq (.str a) (.str b) = (a == b) := by
  simp [pyKeyEq, PyVal.num?]

theorem foldl_dictInsert (kvs : List (S × PyVal)) : ∀ (acc : List (S × PyVal)),
    (acc.map (·.1) ++ kvs.map (·.1)).Nodup →
    (kvs.map pyPair).foldl (fun a p => dictInsert a p.1 p.2) (acc.map pyPair) = (acc ++ kvs).map pyPair := by
  induction kvs with
  | nil => intro acc _; simp
  | cons p r ih =>
    intro acc hnd
    have hnot : (acc.map pyPair).any (fun q => pyKeyEq q.1 (.str p.1)) = false := by
      rw [List.any_eq_false]
      intro q hq
      obtain ⟨q0, hq0, rfl⟩ := List.mem_map.1 hq
      simp only [pyPair, pyKeyEq_str]
      have : p.1 ∉ acc.map (·.1) := by
        intro hmem
        have := List.nodup_append.1 hnd
        exact this.2.2 _ hmem _ (by simp) rfl
      intro heq
      exact this (List.mem_map.2 ⟨q0, hq0, by simpa using heq⟩)
    have hstep : dictInsert (acc.map pyPair) (pyPair p).1 (pyPair p).2 = (acc ++ [p]).map pyPair := by
      unfold dictInsert
      rw [show (pyPair p).1 = PyVal.str p.1 from rfl, hnot]
      simp
    rw [List.map_cons, List.foldl_cons, hstep]
    have := ih (acc ++ [p]) (by simpa [List.append_assoc] using hnd)
    simpa [List.append_assoc] using this


theorem rt_dict (std : Std) (cfg : Option MetaCfg) (t : Ty) (kvs : List (S × PyVal)) (hnd : (kvs.map (·.1)).Nodup)
    (ih : ∀ p ∈ kvs, RT std cfg t p.2) : RT std cfg (.map .dict .str t) (.map .dict (kvs.map pyPair)) := by
  intro d h
  rw [dumpV_dict] at h
  cases hd : dumpPairs std false cfg (kvs.map pyPair) with
  | error e => simp [hd, Except.map] at h
  | ok ps =>
    simp [hd, Except.map] at h; subst h
    have hm := mapME_pairs std cfg t kvs ps ih hd
    have hall : (kvs.map pyPair).all (fun p => p.1.hashable) = true := by
      simp [List.all_eq_true, pyPair, PyVal.hashable]
    have hfold := foldl_dictInsert kvs [] (by simpa using hnd)
    have htj : toJ (.dict false ps) = .dict (toJPairs ps) := by rw [toJ]
    rw [htj, loadD]
    show (do let ps ← mapME (pairLoader std cfg t) (toJPairs ps); mkMap .dict ps) = _
    simp only [hm, bind, Except.bind, mkMap, hall, if_true, pure, Except.pure]
    simp only [List.map_nil, List.nil_append] at hfold
    rw [hfold]


/-! ### TypedDict values -/

theorem tdPresent_keys_sublist : ∀ (fs : List (S × Ty × Bool)) (vals : List (Option PyVal)),
    ((tdPresent fs vals).map (·.1)).Sublist (fs.map (·.1))
  | [], vals => by cases vals <;> simp [tdPresent]
  | f :: fs, [] => by simp [tdPresent]
  | f :: fs, some v :: vs => by
    simp only [tdPresent, List.map_cons]
    exact (tdPresent_keys_sublist fs vs).cons_cons _
  | f :: fs, none :: vs => by
    simp only [tdPresent, List.map_cons]
    exact (tdPresent_keys_sublist fs vs).cons _

theorem tdPresent_mem : ∀ (fs : List (S × Ty × Bool)) (vals : List (Option PyVal)) (f : S × Ty × Bool) (v : PyVal),
    (f, some v) ∈ fs.zip vals → (f.1, v) ∈ tdPresent fs vals
  | [], vals, f, v, h => by simp at h
  | g :: fs, [], f, v, h => by simp at h
  | g :: fs, some w :: vs, f, v, h => by
    simp only [List.zip_cons_cons, List.mem_cons, Prod.mk.injEq, Option.some.injEq] at h
    simp only [tdPresent, List.mem_cons, Prod.mk.injEq]
    rcases h with ⟨rfl, rfl⟩ | h
    · exact Or.inl ⟨rfl, rfl⟩
    · exact Or.inr (tdPresent_mem fs vs f v h)
  | g :: fs, none :: vs, f, v, h => by
    simp only [List.zip_cons_cons, List.mem_cons, Prod.mk.injEq, reduceCtorEq, and_false, false_or] at h
    simp only [tdPresent]
    exact tdPresent_mem fs vs f v h

theorem tdPresent_absent : ∀ (fs : List (S × Ty × Bool)) (vals : List (Option PyVal)) (f : S × Ty × Bool),
    (fs.map (·.1)).Nodup → (f, none) ∈ fs.zip vals → f.1 ∉ (tdPresent fs vals).map (·.1)
  | [], vals, f, _, h => by simp at h
  | g :: fs, [], f, _, h => by simp at h
  | g :: fs, some w :: vs, f, hnd, h => by
    simp only [List.zip_cons_cons, List.mem_cons, Prod.mk.injEq, reduceCtorEq, and_false, false_or] at h
    simp only [List.map_cons, List.nodup_cons] at hnd
    simp only [tdPresent, List.map_cons, List.mem_cons, not_or]
    refine ⟨?_, tdPresent_absent fs vs f hnd.2 h⟩
    intro heq
    exact hnd.1 (heq ▸ List.mem_map.2 ⟨f, (List.of_mem_zip h).1, rfl⟩)
  | g :: fs, none :: vs, f, hnd, h => by
    simp only [List.zip_cons_cons, List.mem_cons, Prod.mk.injEq, and_true] at h
    simp only [List.map_cons, List.nodup_cons] at hnd
    simp only [tdPresent]
    rcases h with rfl | h
    · intro hmem
      exact hnd.1 ((tdPresent_keys_sublist fs vs).subset hmem)
    · exact tdPresent_absent fs vs f hnd.2 h

/-- what the dumped pairs of a `dict[str, ·]` value look like from the loader's side: a key that is not there is not
found, and (distinct keys) each key is found with the dump of its own value -/
theorem dumpPairs_find (std : Std) (cfg : Option MetaCfg) : ∀ (kvs : List (S × PyVal)) (ps : List (DVal × DVal)),
    dumpPairs std false cfg (kvs.map pyPair) = .ok ps →
    (∀ k, k ∉ kvs.map (·.1) → (toJPairs ps).find? (fun kv => kv.1 == k) = none) ∧
    ((kvs.map (·.1)).Nodup → ∀ p ∈ kvs, ∃ d, dumpV std false cfg p.2 = .ok d ∧
      (toJPairs ps).find? (fun kv => kv.1 == p.1) = some (p.1, toJ d))
  | [], ps, h => by
    simp only [List.map_nil, dumpPairs, pure, Except.pure, Except.ok.injEq] at h; subst h
    simp [toJPairs]
  | (k, v) :: r, ps, h => by
    simp only [List.map_cons, pyPair, dumpPairs, bind, Except.bind, dump_str] at h
    split at h
    · simp at h
    · next v' hv =>
      split at h
      · simp at h
      · next r' hr =>
        simp only [pure, Except.pure, Except.ok.injEq] at h; subst h
        obtain ⟨ih1, ih2⟩ := dumpPairs_find std cfg r r' hr
        refine ⟨?_, ?_⟩
        · intro k' hk'
          simp only [List.map_cons, List.mem_cons, not_or] at hk'
          simp only [toJPairs, keyStr, List.find?_cons]
          have : (k == k') = false := by
            simp only [beq_eq_false_iff_ne, ne_eq]; exact fun e => hk'.1 e.symm
          simp only [this]
          exact ih1 k' hk'.2
        · intro hnd p hp
          simp only [List.map_cons, List.nodup_cons] at hnd
          simp only [List.mem_cons] at hp
          rcases hp with rfl | hp
          · exact ⟨v', hv, by simp [toJPairs, keyStr]⟩
          · obtain ⟨d, hd1, hd2⟩ := ih2 hnd.2 p hp
            refine ⟨d, hd1, ?_⟩
            simp only [toJPairs, keyStr, List.find?_cons]
            have : (k == p.1) = false := by
              simp only [beq_eq_false_iff_ne, ne_eq]
              intro e
              exact hnd.1 (e ▸ List.mem_map.2 ⟨p, hp, rfl⟩)
            simp only [this]
            exact hd2

/-- `load_to_typed_dict` over a document in which every present key holds the dump of a value that round-trips and
every absent key is optional -/
theorem loadTd_present (std : Std) (cfg : Option MetaCfg) (J : List (S × JVal)) :
    ∀ (fs : List (S × Ty × Bool)) (vals : List (Option PyVal)), vals.length = fs.length →
    (∀ p ∈ fs.zip vals, p.2 = none → p.1.2.2 = false ∧ J.find? (fun kv => kv.1 == p.1.1) = none) →
    (∀ p ∈ fs.zip vals, ∀ v, p.2 = some v → ∃ d, dumpV std false cfg v = .ok d ∧
        J.find? (fun kv => kv.1 == p.1.1) = some (p.1.1, toJ d) ∧ RT std cfg p.1.2.1 v) →
    loadTd std cfg fs J = .ok ((tdPresent fs vals).map pyPair)
  | [], vals, _, _, _ => by cases vals <;> simp [loadTd, tdPresent, pure, Except.pure]
  | f :: fs, [], hl, _, _ => by simp at hl
  | (k, t, req) :: fs, none :: vs, hl, hn, hs => by
    obtain ⟨hreq, hfind⟩ := hn ((k, t, req), none) (by simp) rfl
    simp only at hreq hfind
    have ih := loadTd_present std cfg J fs vs (by simpa using hl)
      (fun p hp => hn p (by simp [hp])) (fun p hp => hs p (by simp [hp]))
    subst hreq
    simp only [loadTd, hfind, tdPresent, ih]
    simp
  | (k, t, req) :: fs, some v :: vs, hl, hn, hs => by
    obtain ⟨d, hd, hfind, hrt⟩ := hs ((k, t, req), some v) (by simp) v rfl
    simp only at hfind hrt
    have ih := loadTd_present std cfg J fs vs (by simpa using hl)
      (fun p hp => hn p (by simp [hp])) (fun p hp => hs p (by simp [hp]))
    simp only [loadTd, hfind, tdPresent, ih, hrt d hd, bind, Except.bind, pure, Except.pure, List.map_cons, pyPair]

theorem rt_typeddict (std : Std) (cfg : Option MetaCfg) (name : S) (fields : List (S × Ty × Bool)) (vals : List (Option PyVal))
    (hnd : (fields.map (·.1)).Nodup) (hl : vals.length = fields.length)
    (hopt : ∀ p ∈ fields.zip vals, p.2 = none → p.1.2.2 = false)
    (ih : ∀ p ∈ fields.zip vals, ∀ v, p.2 = some v → RT std cfg p.1.2.1 v) :
    RT std cfg (.typeddict name fields) (.map .dict ((tdPresent fields vals).map pyPair)) := by
  intro d h
  rw [dumpV_dict] at h
  cases hd : dumpPairs std false cfg ((tdPresent fields vals).map pyPair) with
  | error e => simp [hd, Except.map] at h
  | ok ps =>
    simp [hd, Except.map] at h; subst h
    obtain ⟨hnone, hsome⟩ := dumpPairs_find std cfg (tdPresent fields vals) ps hd
    have hndp : ((tdPresent fields vals).map (·.1)).Nodup := (tdPresent_keys_sublist fields vals).nodup hnd
    have hload := loadTd_present std cfg (toJPairs ps) fields vals hl
      (fun p hp hpn => ⟨hopt p hp hpn, hnone p.1.1 (tdPresent_absent fields vals p.1 hnd (by
        have : p = (p.1, none) := by rw [← hpn]
        rw [← this]; exact hp))⟩)
      (fun p hp v hpv => by
        obtain ⟨d, hd1, hd2⟩ := hsome hndp (p.1.1, v) (tdPresent_mem fields vals p.1 v (by
          have : p = (p.1, some v) := by rw [← hpv]
          rw [← this]; exact hp))
        exact ⟨d, hd1, hd2, ih p hp v hpv⟩)
    have htj : toJ (.dict false ps) = .dict (toJPairs ps) := by rw [toJ]
    rw [htj, loadD]
    simp only [hload, pure, Except.pure]

theorem dumpV_tuple (std : Std) (cfg : Option MetaCfg) (xs : List PyVal) :
    dumpV std false cfg (.tuple xs) = (dumpList std false cfg xs).map DVal.tuple := by
  rw [dumpV]
  simp only [hookFor_tuple, bind, Except.bind, pure, Except.pure, Except.map]

theorem rt_vtuple (std : Std) (cfg : Option MetaCfg) (t : Ty) (xs : List PyVal) (ih : ∀ x ∈ xs, RT std cfg t x) : RT std cfg (.vtuple t) (.tuple xs) := by
  intro d h
  rw [dumpV_tuple] at h
  cases hd : dumpList std false cfg xs with
  | error e => simp [hd, Except.map] at h
  | ok ds =>
    simp [hd, Except.map] at h; subst h
    have htj : toJ (.tuple ds) = .list (toJList ds) := by rw [toJ]
    rw [htj, loadD]
    simp only [jIter, bind, Except.bind, mapME_list std cfg t xs ds ih hd, pure, Except.pure]

theorem toJ_litToD (v : Lit) : toJ v.toD = v.toJ := by
  cases v <;> (simp only [Lit.toD, Lit.toJ]; rw [toJ])

theorem dump_enum (std : Std) (cfg : Option MetaCfg) (name m : S) (v : Lit) : dumpV std false cfg (.enum name m v) = .ok v.toD := by
  simp [dumpV, dumpScalar, pure, Except.pure]

theorem rt_enum (std : Std) (cfg : Option MetaCfg) (name : S) (members : List (S × Lit)) (m : S) (v : Lit) (hm : (m, v) ∈ members)
    (hrefl : jEqLit v.toJ v = true) (huniq : ∀ m' ∈ members, jEqLit v.toJ m'.2 = true → m' = (m, v)) :
    RT std cfg (.enum name members) (.enum name m v) := by
  intro d h
  rw [dump_enum] at h; cases h
  rw [toJ_litToD, loadD]
  unfold asEnum
  cases hf : members.find? (fun m' => jEqLit v.toJ m'.2) with
  | none =>
    have := List.find?_eq_none.1 hf (m, v) hm
    simp [hrefl] at this
  | some m' =>
    have hmem := List.mem_of_find?_eq_some hf
    have hp : jEqLit v.toJ m'.2 = true := by simpa using List.find?_some hf
    rw [huniq m' hmem hp]
    rfl

theorem mem_replaceFirst_dot (c : Char) (hc : c ≠ '.') : ∀ (s : S), c ∈ s → c ∈ replaceFirst ['.'] [] s
  | [], h => by simp at h
  | x :: r, h => by
    by_cases hp : ['.'] <+: x :: r
    · rw [replaceFirst_cons_pos _ _ _ _ hp]
      have hx : x = '.' := by
        obtain ⟨t, ht⟩ := hp
        simp at ht; exact ht.1.symm
      subst hx
      rcases List.mem_cons.1 h with h | h
      · exact absurd h hc
      · simpa using h
    · rw [replaceFirst_cons_neg _ _ _ _ hp]
      rcases List.mem_cons.1 h with h | h
      · simp [h]
      · exact List.mem_cons_of_mem _ (mem_replaceFirst_dot c hc r h)

theorem looksNumeric_false (s : S) (h : ':' ∈ s) : looksNumeric s = false := by
  unfold looksNumeric
  have hm := mem_replaceFirst_dot ':' (by decide) s h
  have : (replaceFirst ['.'] [] s).all isDig = false := by
    rw [List.all_eq_false]
    exact ⟨':', hm, by decide⟩
  simp only [this, Bool.and_false]

theorem colon_mem_tdStr (us : Int) : ':' ∈ tdStr us := by
  unfold tdStr
  simp only
  split <;> split <;> simp


theorem dump_timedelta (std : Std) (cfg : Option MetaCfg) (us : Int) : dumpV std false cfg (.timedelta us) = .ok (.str (tdStr us)) := by
  simp [dumpV, dumpScalar, pure, Except.pure]

theorem rt_timedelta (std : Std) (cfg : Option MetaCfg) (laws : StdLaws std) (us : Int) (h0 : 0 ≤ us) : RT std cfg .timedelta (.timedelta us) := by
  intro d h
  rw [dump_timedelta] at h; cases h
  obtain ⟨n, hn, hs⟩ := laws.timedelta_rt us h0
  have htj : toJ (.str (tdStr us)) = .str (tdStr us) := by rw [toJ]
  rw [htj, loadD]
  simp only [asTimedelta, looksNumeric_false (tdStr us) (colon_mem_tdStr us), Bool.false_eq_true, if_false, hn, hs,
    pure, Except.pure]

theorem dumpV_deque (std : Std) (cfg : Option MetaCfg) (xs : List PyVal) :
    dumpV std false cfg (.seq .deque xs) = (dumpList std false cfg xs).map DVal.list := by
  rw [dumpV]
  simp only [hookFor_deque, bind, Except.bind, pure, Except.pure, Except.map]

theorem rt_deque (std : Std) (cfg : Option MetaCfg) (t : Ty) (xs : List PyVal) (ih : ∀ x ∈ xs, RT std cfg t x) : RT std cfg (.seq .deque t) (.seq .deque xs) := by
  intro d h
  rw [dumpV_deque] at h
  cases hd : dumpList std false cfg xs with
  | error e => simp [hd, Except.map] at h
  | ok ds =>
    simp [hd, Except.map] at h; subst h
    have htj : toJ (.list ds) = .list (toJList ds) := by rw [toJ]
    rw [htj, loadD]
    simp only [jIter, bind, Except.bind, mapME_list std cfg t xs ds ih hd, mkSeq, pure, Except.pure]

theorem toJList_length (ds : List DVal) : (toJList ds).length = ds.length := by
  induction ds with
  | nil => rfl
  | cons x r ih => simp [toJList, ih]

theorem dumpList_length (std : Std) (cfg : Option MetaCfg) : ∀ (xs : List PyVal) (ds : List DVal), dumpList std false cfg xs = .ok ds → ds.length = xs.length
  | [], ds, h => by simp only [dumpList, pure, Except.pure, Except.ok.injEq] at h; subst h; rfl
  | x :: xs, ds, h => by
    simp only [dumpList, bind, Except.bind] at h
    split at h
    · simp at h
    · split at h
      · simp at h
      · next ys hys =>
        simp only [pure, Except.pure, Except.ok.injEq] at h; subst h
        simp [dumpList_length std cfg xs ys hys]

theorem loadZip_ok (std : Std) (cfg : Option MetaCfg) : ∀ (ts : List Ty) (xs : List PyVal) (ds : List DVal), xs.length = ts.length →
    (∀ p ∈ ts.zip xs, RT std cfg p.1 p.2) → dumpList std false cfg xs = .ok ds →
    loadZip std cfg ts (toJList ds) = .ok xs
  | [], xs, ds, hl, _, h => by
    have : xs = [] := by simpa using hl
    subst this
    simp only [dumpList, pure, Except.pure, Except.ok.injEq] at h; subst h; rfl
  | t :: ts, [], ds, hl, _, _ => by simp at hl
  | t :: ts, x :: xs, ds, hl, ih, h => by
    simp only [dumpList, bind, Except.bind] at h
    split at h
    · simp at h
    · next y hy =>
      split at h
      · simp at h
      · next ys hys =>
        simp only [pure, Except.pure, Except.ok.injEq] at h; subst h
        have h1 := ih (t, x) (by simp) y hy
        have h2 := loadZip_ok std cfg ts xs ys (by simpa using hl) (fun p hp => ih p (by simp [hp])) hys
        simp only at h1
        simp [toJList, loadZip, h1, h2, bind, Except.bind, pure, Except.pure]

theorem rt_tuple (std : Std) (cfg : Option MetaCfg) (ts : List Ty) (xs : List PyVal) (hne : ts ≠ []) (hl : xs.length = ts.length)
    (ih : ∀ p ∈ ts.zip xs, RT std cfg p.1 p.2) : RT std cfg (.tuple ts) (.tuple xs) := by
  intro d h
  rw [dumpV_tuple] at h
  cases hd : dumpList std false cfg xs with
  | error e => simp [hd, Except.map] at h
  | ok ds =>
    simp [hd, Except.map] at h; subst h
    have htj : toJ (.tuple ds) = .list (toJList ds) := by rw [toJ]
    have hlen : (toJList ds).length = ts.length := by rw [toJList_length, dumpList_length std cfg xs ds hd, hl]
    have hreq : (ts.filter (fun t => !acceptsNone t)).length ≤ ts.length := List.length_filter_le _ _
    have hemp : ts.isEmpty = false := by cases ts <;> simp_all
    rw [htj, loadD]
    simp only [jLen, jIter, hemp, Bool.false_eq_true, if_false, hlen]
    simp only [hreq, decide_true, Nat.le_refl, Bool.and_self, if_true, loadZip_ok std cfg ts xs ds hl ih hd, bind, Except.bind,
      pure, Except.pure]

theorem dump_float (std : Std) (cfg : Option MetaCfg) (f : PyFloat) : dumpV std false cfg (.float f) = .ok (.float f) := by
  simp [dumpV, dumpScalar, pure, Except.pure]
theorem rt_float (std : Std) (cfg : Option MetaCfg) (f : PyFloat) : RT std cfg .float (.float f) := by
  intro d h; rw [dump_float] at h; cases h; simp [toJ, loadD, asFloat, pure, Except.pure]

/-- what the dump writes for a leaf value (ISO mode): the token, with a trailing `+00:00` as `Z` for time / datetime -/
def leafText (k : LeafKind) (t : S) : S :=
  match k with
  | .time => isoZ t
  | .datetime => isoZ t
  | _ => t

theorem dump_leaf (std : Std) (cfg : Option MetaCfg) (k : LeafKind) (t : S) : dumpV std false cfg (.leaf k false t) = .ok (.str (leafText k t)) := by
  cases k <;> simp [dumpV, dumpScalar, leafText, pure, Except.pure]

theorem rt_leaf (std : Std) (cfg : Option MetaCfg) (laws : StdLaws std) (k : LeafKind) (t : S) (ht : std.validTok k t = true) :
    RT std cfg (.leaf k) (.leaf k false t) := by
  intro d h
  rw [dump_leaf] at h; cases h
  cases k
  · simp only [toJ, leafText, loadD, asDecimal, strOfJ]; rw [laws.decimal_rt t ht]; rfl
  · simp only [toJ, leafText, loadD, asPath, strOfJ]; rw [laws.path_rt t ht]; rfl
  · simp only [toJ, leafText, loadD, asUuid]; rw [laws.uuid_rt t ht]; rfl
  · simp only [toJ, leafText, loadD, asDate]; rw [laws.date_rt t ht]; rfl
  · simp only [toJ, leafText, loadD, asTime]
    have hz : zToOffset (isoZ t) = t := zToOffset_isoZ t (laws.time_noZ t ht)
    rw [hz, laws.time_rt t ht]; rfl
  · simp only [toJ, leafText, loadD, asDatetime]
    have hz : zToOffset (isoZ t) = t := zToOffset_isoZ t (laws.datetime_noZ t ht)
    rw [hz, laws.datetime_rt t ht]; rfl

/-! ### further container kinds: set / frozenset, defaultdict / OrderedDict, Literal, NamedTuple -/

theorem dumpV_set (std : Std) (cfg : Option MetaCfg) (xs : List PyVal) :
    dumpV std false cfg (.seq .set xs) = (dumpList std false cfg xs).map DVal.list := by
  rw [dumpV]
  simp only [hookFor_set, bind, Except.bind, pure, Except.pure, Except.map]

theorem dumpV_frozenset (std : Std) (cfg : Option MetaCfg) (xs : List PyVal) :
    dumpV std false cfg (.seq .frozenset xs) = (dumpList std false cfg xs).map DVal.list := by
  rw [dumpV]
  simp only [hookFor_frozenset, bind, Except.bind, pure, Except.pure, Except.map]

theorem rt_set (std : Std) (cfg : Option MetaCfg) (t : Ty) (xs : List PyVal) (hh : xs.all PyVal.hashable = true)
    (hd' : dedupKeep xs = xs) (ih : ∀ x ∈ xs, RT std cfg t x) : RT std cfg (.seq .set t) (.seq .set xs) := by
  intro d h
  rw [dumpV_set] at h
  cases hd : dumpList std false cfg xs with
  | error e => simp [hd, Except.map] at h
  | ok ds =>
    simp [hd, Except.map] at h; subst h
    have htj : toJ (.list ds) = .list (toJList ds) := by rw [toJ]
    rw [htj, loadD]
    simp only [jIter, bind, Except.bind, mapME_list std cfg t xs ds ih hd, mkSeq, hh, if_true, hd', pure, Except.pure]

theorem rt_frozenset (std : Std) (cfg : Option MetaCfg) (t : Ty) (xs : List PyVal) (hh : xs.all PyVal.hashable = true)
    (hd' : dedupKeep xs = xs) (ih : ∀ x ∈ xs, RT std cfg t x) : RT std cfg (.seq .frozenset t) (.seq .frozenset xs) := by
  intro d h
  rw [dumpV_frozenset] at h
  cases hd : dumpList std false cfg xs with
  | error e => simp [hd, Except.map] at h
  | ok ds =>
    simp [hd, Except.map] at h; subst h
    have htj : toJ (.list ds) = .list (toJList ds) := by rw [toJ]
    rw [htj, loadD]
    simp only [jIter, bind, Except.bind, mapME_list std cfg t xs ds ih hd, mkSeq, hh, if_true, hd', pure, Except.pure]

theorem hookFor_defaultdict : hookFor (.map .defaultdict []) = .defaultdict := by decide +kernel
theorem hookFor_ordereddict : hookFor (.map .ordereddict []) = .dict := by decide +kernel

theorem dumpV_defaultdict (std : Std) (cfg : Option MetaCfg) (kvs : List (PyVal × PyVal)) :
    dumpV std false cfg (.map .defaultdict kvs) = (dumpPairs std false cfg kvs).map (DVal.dict false) := by
  rw [dumpV]
  simp only [hookFor_defaultdict, bind, Except.bind, pure, Except.pure, Except.map]

theorem dumpV_ordereddict (std : Std) (cfg : Option MetaCfg) (kvs : List (PyVal × PyVal)) :
    dumpV std false cfg (.map .ordereddict kvs) = (dumpPairs std false cfg kvs).map (DVal.dict true) := by
  rw [dumpV]
  simp only [hookFor_ordereddict, bind, Except.bind, pure, Except.pure, Except.map]
  cases dumpPairs std false cfg kvs <;> first | rfl | simp

theorem rt_mapk (std : Std) (cfg : Option MetaCfg) (k : MapKind) (ord : Bool) (t : Ty) (kvs : List (S × PyVal))
    (hdump : ∀ kvs', dumpV std false cfg (.map k kvs') = (dumpPairs std false cfg kvs').map (DVal.dict ord))
    (hnd : (kvs.map (·.1)).Nodup)
    (ih : ∀ p ∈ kvs, RT std cfg t p.2) : RT std cfg (.map k .str t) (.map k (kvs.map pyPair)) := by
  intro d h
  rw [hdump] at h
  cases hd : dumpPairs std false cfg (kvs.map pyPair) with
  | error e => simp [hd, Except.map] at h
  | ok ps =>
    simp [hd, Except.map] at h; subst h
    have hm := mapME_pairs std cfg t kvs ps ih hd
    have hall : (kvs.map pyPair).all (fun p => p.1.hashable) = true := by
      simp [List.all_eq_true, pyPair, PyVal.hashable]
    have hfold := foldl_dictInsert kvs [] (by simpa using hnd)
    have htj : toJ (.dict ord ps) = .dict (toJPairs ps) := by rw [toJ]
    rw [htj, loadD]
    show (do let ps ← mapME (pairLoader std cfg t) (toJPairs ps); mkMap k ps) = _
    simp only [hm, bind, Except.bind, mkMap, hall, if_true, pure, Except.pure]
    simp only [List.map_nil, List.nil_append] at hfold
    rw [hfold]

theorem dump_lit (std : Std) (cfg : Option MetaCfg) (l : Lit) : dumpV std false cfg l.toPy = .ok l.toD := by
  cases l <;> simp [Lit.toPy, Lit.toD, dumpV, dumpScalar, pure, Except.pure]

theorem lit_hashable (l : Lit) : l.toJ.hashable = true := by
  cases l <;> rfl

theorem rt_literal (std : Std) (cfg : Option MetaCfg) (vs : List Lit) (l : Lit)
    (hf : vs.find? (fun l' => jEqLit l.toJ l') = some l) : RT std cfg (.literal vs) l.toPy := by
  intro d h
  rw [dump_lit] at h; cases h
  rw [toJ_litToD, loadD]
  unfold asLiteral
  simp only [lit_hashable, Bool.not_true, Bool.false_eq_true, if_false, hf]
  cases l <;> simp [Lit.toJ, pure, Except.pure]

theorem dumpV_ntuple (std : Std) (cfg : Option MetaCfg) (c : S) (names : List S) (xs : List PyVal) :
    dumpV std false cfg (.ntuple c names xs) = (dumpList std false cfg xs).map (DVal.ntuple c) := by
  rw [dumpV]
  simp only [bind, Except.bind, pure, Except.pure, Except.map]

theorem loadNtList_ok (std : Std) (cfg : Option MetaCfg) : ∀ (fields : List (S × Ty × Option Dflt)) (xs : List PyVal) (ds : List DVal),
    xs.length = fields.length → (∀ p ∈ (fields.map (·.2.1)).zip xs, RT std cfg p.1 p.2) → dumpList std false cfg xs = .ok ds →
    loadNtList std cfg fields (toJList ds) = .ok xs
  | [], xs, ds, hl, _, h => by
    have : xs = [] := by simpa using hl
    subst this
    simp only [dumpList, pure, Except.pure, Except.ok.injEq] at h; subst h; rfl
  | f :: fs, [], ds, hl, _, _ => by simp at hl
  | (n, t, dd) :: fs, x :: xs, ds, hl, ih, h => by
    simp only [dumpList, bind, Except.bind] at h
    split at h
    · simp at h
    · next y hy =>
      split at h
      · simp at h
      · next ys hys =>
        simp only [pure, Except.pure, Except.ok.injEq] at h; subst h
        have h1 := ih (t, x) (by simp) y hy
        have h2 := loadNtList_ok std cfg fs xs ys (by simpa using hl) (fun p hp => ih p (by simp [hp])) hys
        simp only at h1
        simp [toJList, loadNtList, h1, h2, bind, Except.bind, pure, Except.pure]

theorem rt_ntuple (std : Std) (cfg : Option MetaCfg) (name : S) (fields : List (S × Ty × Option Dflt)) (xs : List PyVal)
    (hl : xs.length = fields.length) (ih : ∀ p ∈ (fields.map (·.2.1)).zip xs, RT std cfg p.1 p.2) :
    RT std cfg (.ntuple name fields) (.ntuple name (fields.map (·.1)) xs) := by
  intro d h
  rw [dumpV_ntuple] at h
  cases hd : dumpList std false cfg xs with
  | error e => simp [hd, Except.map] at h
  | ok ds =>
    simp [hd, Except.map] at h; subst h
    have htj : toJ (.ntuple name ds) = .list (toJList ds) := by rw [toJ]
    rw [htj, loadD]
    · simp only [jIter, bind, Except.bind, loadNtList_ok std cfg fields xs ds hl ih hd, hl, List.drop_length, List.all_nil,
        if_true, List.filterMap_nil, List.append_nil, pure, Except.pure]
    · intro kvs hk; cases hk

theorem dump_nonnull (std : Std) (cfg : Option MetaCfg) (t : Ty) (v : PyVal) (hc : Conf std cfg t v) (hn : nonNullTy t = true) (d : DVal)
    (h : dumpV std false cfg v = .ok d) : toJ d ≠ .null := by
  cases hc with
  | int i => rw [dump_int] at h; cases h; simp [toJ]
  | float f => rw [dump_float] at h; cases h; simp [toJ]
  | leaf k t _ => rw [dump_leaf] at h; cases h; simp [toJ]
  | timedelta us _ => rw [dump_timedelta] at h; cases h; simp [toJ]
  | str s => rw [dump_str] at h; cases h; simp [toJ]
  | bool b => rw [dump_bool] at h; cases h; simp [toJ]
  | optNone t => simp [nonNullTy] at hn
  | optSome t v _ _ => simp [nonNullTy] at hn
  | list t xs _ =>
    rw [dumpV_list] at h
    cases hd : dumpList std false cfg xs <;> simp [hd, Except.map] at h
    subst h; simp [toJ]
  | vtuple t xs _ =>
    rw [dumpV_tuple] at h
    cases hd : dumpList std false cfg xs <;> simp [hd, Except.map] at h
    subst h; simp [toJ]
  | tuple ts xs _ _ _ =>
    rw [dumpV_tuple] at h
    cases hd : dumpList std false cfg xs <;> simp [hd, Except.map] at h
    subst h; simp [toJ]
  | deque t xs _ =>
    rw [dumpV_deque] at h
    cases hd : dumpList std false cfg xs <;> simp [hd, Except.map] at h
    subst h; simp [toJ]
  | enum name members m v _ _ _ => simp [nonNullTy] at hn
  | dict t kvs _ _ =>
    rw [dumpV_dict] at h
    cases hd : dumpPairs std false cfg (kvs.map (fun p => (PyVal.str p.1, p.2))) <;> simp [hd, Except.map] at h
    subst h; simp [toJ]
  | inst ci ftys vals tg _ _ _ =>
    rw [dumpV] at h
    simp only [bind, Except.bind] at h
    split at h
    · simp at h
    · simp only [pure, Except.pure, Except.ok.injEq] at h
      subst h
      unfold finishInst
      split <;> simp [toJ]
  | unionTagged pre post ci ftys vals tg _ _ _ _ _ => simp [nonNullTy] at hn
  | unionNone ts _ => simp [nonNullTy] at hn
  | set t xs _ _ _ =>
    rw [dumpV_set] at h
    cases hd : dumpList std false cfg xs <;> simp [hd, Except.map] at h
    subst h; simp [toJ]
  | frozenset t xs _ _ _ =>
    rw [dumpV_frozenset] at h
    cases hd : dumpList std false cfg xs <;> simp [hd, Except.map] at h
    subst h; simp [toJ]
  | defaultdict t kvs _ _ =>
    rw [dumpV_defaultdict] at h
    cases hd : dumpPairs std false cfg (kvs.map (fun p => (PyVal.str p.1, p.2))) <;> simp [hd, Except.map] at h
    subst h; simp [toJ]
  | ordereddict t kvs _ _ =>
    rw [dumpV_ordereddict] at h
    cases hd : dumpPairs std false cfg (kvs.map (fun p => (PyVal.str p.1, p.2))) <;> simp [hd, Except.map] at h
    subst h; simp [toJ]
  | literal vs l _ => simp [nonNullTy] at hn
  | typeddict name fields vals _ _ _ _ =>
    rw [dumpV_dict] at h
    cases hd : dumpPairs std false cfg ((tdPresent fields vals).map (fun p => (PyVal.str p.1, p.2))) <;> simp [hd, Except.map] at h
    subst h; simp [toJ]
  | ntuple name fields xs _ _ =>
    rw [dumpV_ntuple] at h
    cases hd : dumpList std false cfg xs <;> simp [hd, Except.map] at h
    subst h; simp [toJ]

theorem rt_optSome (std : Std) (cfg : Option MetaCfg) (t : Ty) (v : PyVal) (hn : nonNullTy t = true) (hc : Conf std cfg t v) (ih : RT std cfg t v) :
    RT std cfg (.optional t) v := by
  intro d h
  rw [loadD_optional_nonnull std cfg t (toJ d) (dump_nonnull std cfg t v hc hn d h)]
  exact ih d h


/-! ### dataclasses -/

theorem find_unique {α : Type} (key : α → S) : ∀ (l : List α) (a : α), (l.map key).Nodup → a ∈ l →
    l.find? (fun p => key p == key a) = some a
  | [], a, _, h => by simp at h
  | x :: r, a, hnd, h => by
    simp only [List.map_cons, List.nodup_cons] at hnd
    by_cases hx : key x = key a
    · have : x = a := by
        rcases List.mem_cons.1 h with h | h
        · exact h.symm
        · exact absurd (List.mem_map.2 ⟨a, h, hx.symm⟩) hnd.1
      subst this; simp
    · have ha : a ∈ r := by
        rcases List.mem_cons.1 h with h | h
        · exact absurd (by rw [h]) hx
        · exact h
      have hb : (key x == key a) = false := by simpa using hx
      simp [List.find?, hb, find_unique key r a hnd.2 ha]

theorem nodup_reverse' {α : Type} (l : List α) (h : l.Nodup) : l.reverse.Nodup := by
  unfold List.Nodup at *
  rw [List.pairwise_reverse]
  exact h.imp (fun hab => fun e => hab e.symm)

theorem find_unique_rev {α : Type} (key : α → S) (l : List α) (a : α) (hnd : (l.map key).Nodup) (h : a ∈ l) :
    l.reverse.find? (fun p => key p == key a) = some a :=
  find_unique key l.reverse a (by rw [List.map_reverse]; exact nodup_reverse' _ hnd) (List.mem_reverse.2 h)

theorem buildFields_ok : ∀ (suf pre : List (S × PyVal)) (F : List FieldInfo),
    F.map (·.name) = suf.map (·.1) → ((pre ++ suf).map (·.1)).Nodup → (∀ f ∈ F, f.init = true) →
    buildFields (pre ++ suf) F = .ok suf
  | [], pre, F, hn, _, _ => by
    have : F = [] := by simpa using hn
    subst this; rfl
  | (n, v) :: suf, pre, F, hn, hnd, hi => by
    cases F with
    | nil => simp at hn
    | cons f F' =>
      simp only [List.map_cons, List.cons.injEq] at hn
      have hfind : (pre ++ (n, v) :: suf).reverse.find? (fun p => p.1 == f.name) = some (n, v) := by
        have := find_unique_rev (fun p : S × PyVal => p.1) (pre ++ (n, v) :: suf) (n, v) hnd (by simp)
        simpa [hn.1] using this
      have hrest := buildFields_ok suf (pre ++ [(n, v)]) F' hn.2 (by simpa [List.append_assoc] using hnd)
        (fun g hg => hi g (by simp [hg]))
      rw [buildFields]
      simp only [hi f (by simp), if_true, hfind]
      rw [show pre ++ (n, v) :: suf = (pre ++ [(n, v)]) ++ suf by simp, hrest]
      simp [bind, Except.bind, pure, Except.pure, hn.1]


/-- unfolding of the field loop for a field that is not the catch-all field -/
theorem dumpFields_cons_plain (std : Std) (ts : Bool) (cfg : Option MetaCfg) (eff : MetaCfg) (args : DumpArgs) (ci : ClassInfo)
    (n : S) (v : PyVal) (rest : List (S × PyVal))
    (hca : ((ci.fields.find? (fun f => f.name == n)).getD { name := n }).isCatchAll = false) :
    dumpFields std ts cfg eff args ci ((n, v) :: rest) = (do
      let fi := (ci.fields.find? (fun f => f.name == n)).getD { name := n }
      let skipped ← fieldSkipped eff args fi v
      let here ← if skipped then pure [] else do
        let k ← dumpKey eff fi
        let d ← dumpV std ts cfg v
        pure [(DVal.str k, d)]
      let more ← dumpFields std ts cfg eff args ci rest
      pure (here ++ more)) := by
  cases v <;> (rw [dumpFields] <;> simp [hca])


/-- name / value of an entry -/
abbrev nv (e : (S × Ty) × PyVal) : S × PyVal := (e.1.1, e.2)

structure GoodEntry (std : Std) (cfg : Option MetaCfg) (ci : ClassInfo) (ftys : List (S × Ty)) (e : (S × Ty) × PyVal) : Prop where
  fi : ∃ f ∈ ci.fields, f.name = e.1.1
  ty : ∀ j, loadField std cfg e.1.1 j ftys = loadD std cfg e.1.2 j
  rt : RT std cfg e.1.2 e.2

theorem fieldSkipped_plain (eff : MetaCfg) (hn : NoSkip eff) (f : FieldInfo) (v : PyVal) (h1 : f.dumpSkip = false)
    (h2 : f.skipIf = none) : fieldSkipped eff {} f v = .ok false := by
  simp [fieldSkipped, excluded, skipDefaultsOn, ownCond, hn.sd, hn.sdi, hn.si, h1, h2, bind, Except.bind, pure, Except.pure]

theorem toJPairs_append (a b : List (DVal × DVal)) : toJPairs (a ++ b) = toJPairs a ++ toJPairs b := by
  induction a with
  | nil => rfl
  | cons x r ih => obtain ⟨k, v⟩ := x; simp [toJPairs, ih]

theorem fields_chain (std : Std) (cfg : Option MetaCfg) (ci : ClassInfo) (ftys : List (S × Ty)) (tg : Option S)
    (hp : ClsOK cfg ci ftys tg) (sfx : List (S × JVal)) (res : List (S × PyVal) × List (PyVal × PyVal))
    (hsfx : loadKeysWith (fun f v => loadField std cfg f v ftys) (effMeta ci.cmeta cfg) ci sfx = .ok res) :
    ∀ (l : List ((S × Ty) × PyVal)) (body : List (DVal × DVal)), (∀ e ∈ l, GoodEntry std cfg ci ftys e) →
      dumpFields std false cfg (effMeta ci.cmeta cfg) {} ci (l.map nv) = .ok body →
      loadKeysWith (fun f v => loadField std cfg f v ftys) (effMeta ci.cmeta cfg) ci (toJPairs body ++ sfx)
        = .ok (l.map nv ++ res.1, res.2)
  | [], body, _, h => by
    simp only [List.map_nil, dumpFields, pure, Except.pure, Except.ok.injEq] at h; subst h
    simpa [toJPairs] using hsfx
  | e :: r, body, hg, h => by
    obtain ⟨f, hf, hname⟩ := (hg e (by simp)).fi
    have hpl := hp.plain f hf
    obtain ⟨k, hkey, hres⟩ := hp.keys f hf
    have hfind : ci.fields.find? (fun g => g.name == e.1.1) = some f := by
      have := find_unique (fun g : FieldInfo => g.name) ci.fields f hp.nodup hf
      simpa [hname] using this
    rw [List.map_cons, show nv e = (e.1.1, e.2) from rfl,
      dumpFields_cons_plain std false cfg (effMeta ci.cmeta cfg) {} ci e.1.1 e.2 (r.map nv) (by simp [hfind, hpl.2.1])] at h
    simp only [hfind, Option.getD_some, fieldSkipped_plain _ hp.noSkip f e.2 hpl.2.2.1 hpl.2.2.2, bind, Except.bind,
      Bool.false_eq_true, if_false] at h
    rw [hkey] at h
    simp only at h
    split at h
    · simp at h
    · next d hd =>
      simp only [pure, Except.pure] at h
      split at h
      · simp at h
      · next more hmore =>
        simp only [Except.ok.injEq] at h; subst h
        have hload : loadField std cfg e.1.1 (toJ d) ftys = .ok e.2 := by
          rw [(hg e (by simp)).ty]; exact (hg e (by simp)).rt d hd
        have ih := fields_chain std cfg ci ftys tg hp sfx res hsfx r more (fun x hx => hg x (by simp [hx])) hmore
        simp only [List.singleton_append, toJPairs, keyStr, List.cons_append, loadKeysWith, hname ▸ hres, bind, Except.bind]
        simp [hload, ih, Except.mapError, pure, Except.pure, nv]

/-- every key of the dumped body is the dump key of a field -/
theorem body_keys (std : Std) (cfg : Option MetaCfg) (ci : ClassInfo) (ftys : List (S × Ty)) (tg : Option S)
    (hp : ClsOK cfg ci ftys tg) :
    ∀ (l : List ((S × Ty) × PyVal)) (body : List (DVal × DVal)), (∀ e ∈ l, ∃ f ∈ ci.fields, f.name = e.1.1) →
      dumpFields std false cfg (effMeta ci.cmeta cfg) {} ci (l.map nv) = .ok body →
      ∀ p ∈ toJPairs body, ∃ f ∈ ci.fields, dumpKey (effMeta ci.cmeta cfg) f = .ok p.1
  | [], body, _, h => by
    simp only [List.map_nil, dumpFields, pure, Except.pure, Except.ok.injEq] at h; subst h
    intro p hp'; simp [toJPairs] at hp'
  | e :: r, body, hg, h => by
    obtain ⟨f, hf, hname⟩ := hg e (by simp)
    have hpl := hp.plain f hf
    obtain ⟨k, hkey, _⟩ := hp.keys f hf
    have hfind : ci.fields.find? (fun g => g.name == e.1.1) = some f := by
      have := find_unique (fun g : FieldInfo => g.name) ci.fields f hp.nodup hf
      simpa [hname] using this
    rw [List.map_cons, show nv e = (e.1.1, e.2) from rfl,
      dumpFields_cons_plain std false cfg (effMeta ci.cmeta cfg) {} ci e.1.1 e.2 (r.map nv) (by simp [hfind, hpl.2.1])] at h
    simp only [hfind, Option.getD_some, fieldSkipped_plain _ hp.noSkip f e.2 hpl.2.2.1 hpl.2.2.2, bind, Except.bind,
      Bool.false_eq_true, if_false] at h
    rw [hkey] at h
    simp only at h
    split at h
    · simp at h
    · next d hd =>
      simp only [pure, Except.pure] at h
      split at h
      · simp at h
      · next more hmore =>
        simp only [Except.ok.injEq] at h; subst h
        have ih := body_keys std cfg ci ftys tg hp r more (fun x hx => hg x (by simp [hx])) hmore
        intro p hp'
        simp only [List.singleton_append, toJPairs, keyStr, List.mem_cons] at hp'
        rcases hp' with rfl | hp'
        · exact ⟨f, hf, hkey⟩
        · exact ih p hp'


theorem loadField_lookup (std : Std) (cfg : Option MetaCfg) (j : JVal) : ∀ (ftys : List (S × Ty)) (n : S) (t : Ty), (ftys.map (·.1)).Nodup →
    (n, t) ∈ ftys → loadField std cfg n j ftys = loadD std cfg t j
  | [], _, _, _, h => by simp at h
  | (m, u) :: r, n, t, hnd, h => by
    simp only [List.map_cons, List.nodup_cons] at hnd
    rw [loadField]
    by_cases hm : m = n
    · subst hm
      have : u = t := by
        rcases List.mem_cons.1 h with h | h
        · exact (Prod.mk.inj h).2.symm
        · exact absurd (List.mem_map.2 ⟨(m, t), h, rfl⟩) hnd.1
      subst this; simp
    · have ht : (n, t) ∈ r := by
        rcases List.mem_cons.1 h with h | h
        · exact absurd (Prod.mk.inj h).1.symm hm
        · exact h
      have hb : (m == n) = false := by simpa using hm
      simp only [hb, Bool.false_eq_true, if_false]
      exact loadField_lookup std cfg j r n t hnd.2 ht

theorem finishClass_ok (cfg : Option MetaCfg) (ci : ClassInfo) (ftys : List (S × Ty)) (tg : Option S) (hp : ClsOK cfg ci ftys tg) (K : List (S × PyVal))
    (hK : K.map (·.1) = ci.fields.map (·.name)) (o : JVal) : finishClass ci K [] o = .ok (.inst ci K) := by
  have hca : ci.fields.find? (·.isCatchAll) = none := by
    rw [List.find?_eq_none]; intro f hf; simp [(hp.plain f hf).2.1]
  have hmiss : missingInit ci (K.map (·.1)) = [] := by
    unfold missingInit
    rw [List.filter_eq_nil_iff]
    intro f hf
    have : (K.map (·.1)).contains f.name = true := by
      rw [hK]; simp; exact ⟨f, hf, rfl⟩
    simp only [this, Bool.not_true, Bool.and_false]
    simp
  have hb := buildFields_ok K [] ci.fields hK.symm (by simpa [hK] using hp.nodup) (fun f hf => (hp.plain f hf).1)
  simp only [List.nil_append] at hb
  simp [finishClass, withCatchAll, hca, hmiss, hb, bind, Except.bind, pure, Except.pure]

/-- the JSON pairs of the tag entry a class's dumper appends -/
def tagSfx (eff : MetaCfg) : Option S → List (S × JVal)
  | none => []
  | some t => [(tagKeyOf eff, .str t)]

theorem toJ_finishInst (eff : MetaCfg) (tg : Option S) (ht : eff.tag = tg) (body : List (DVal × DVal)) :
    toJ (finishInst eff body) = .dict (toJPairs body ++ tagSfx eff tg) := by
  subst ht
  unfold finishInst
  cases htag : eff.tag with
  | none => simp only [tagSfx, List.append_nil]; rw [toJ]
  | some t => simp only [tagSfx]; rw [toJ, toJPairs_append]; simp [toJPairs, keyStr, toJ]

/-- the tag entry is skipped by the key loop of the class's own loader -/
theorem loadKeys_tagSfx (std : Std) (cfg : Option MetaCfg) (ci : ClassInfo) (ftys : List (S × Ty)) (tg : Option S)
    (hp : ClsOK cfg ci ftys tg) :
    loadKeysWith (fun f v => loadField std cfg f v ftys) (effMeta ci.cmeta cfg) ci (tagSfx (effMeta ci.cmeta cfg) tg) = .ok ([], []) := by
  cases tg with
  | none => rfl
  | some t =>
    have hf := hp.tagFacts t rfl
    have hres : resolveKey (effMeta ci.cmeta cfg) ci (tagKeyOf (effMeta ci.cmeta cfg)) = .ok .ignored := by
      have hnf := hf.notField
      have hna := hf.notAlias
      simp only [tagKeyOf] at hnf hna
      simp [resolveKey, hna, hp.tag, hnf, pure, Except.pure]
    simp only [tagSfx, loadKeysWith, hres, bind, Except.bind]
    rfl

/-- the generated `cls_fromdict` of a class of the fragment (tagged or not) reads back what its `cls_asdict` wrote -/
theorem cls_roundtrip (std : Std) (cfg : Option MetaCfg) (ci : ClassInfo) (ftys : List (S × Ty)) (vals : List PyVal) (tg : Option S)
    (hp : ClsOK cfg ci ftys tg) (hlen : vals.length = ftys.length) (ih : ∀ p ∈ ftys.zip vals, RT std cfg p.1.2 p.2)
    (d : DVal) (h : dumpV std false cfg (.inst ci ((ftys.map (·.1)).zip vals)) = .ok d) :
    ∃ body, toJ d = .dict (toJPairs body ++ tagSfx (effMeta ci.cmeta cfg) tg) ∧
      (∀ p ∈ toJPairs body, ∃ f ∈ ci.fields, dumpKey (effMeta ci.cmeta cfg) f = .ok p.1) ∧
      loadClassWith (fun f v => loadField std cfg f v ftys) (effMeta ci.cmeta cfg) ci (toJ d)
        = .ok (.inst ci ((ftys.map (·.1)).zip vals)) := by
  have hnames : (ftys.map (·.1)).Nodup := by rw [← hp.names]; exact hp.nodup
  have hl : (ftys.zip vals).map nv = (ftys.map (·.1)).zip vals := by
    rw [List.zip_map_left]; rfl
  have hfi : ∀ e ∈ ftys.zip vals, ∃ f ∈ ci.fields, f.name = e.1.1 := by
    intro e he
    have hmem : e.1 ∈ ftys := (List.of_mem_zip he).1
    have : e.1.1 ∈ ci.fields.map (·.name) := by rw [hp.names]; exact List.mem_map.2 ⟨e.1, hmem, rfl⟩
    obtain ⟨f, hf, hfn⟩ := List.mem_map.1 this
    exact ⟨f, hf, hfn⟩
  have hgood : ∀ e ∈ ftys.zip vals, GoodEntry std cfg ci ftys e := by
    intro e he
    have hmem : e.1 ∈ ftys := (List.of_mem_zip he).1
    exact ⟨hfi e he, fun j => loadField_lookup std cfg j ftys e.1.1 e.1.2 hnames hmem, ih e he⟩
  rw [dumpV] at h
  simp only [hp.noSkip.ts, bind, Except.bind] at h
  split at h
  · simp at h
  · next body hb =>
    simp only [pure, Except.pure, Except.ok.injEq] at h; subst h
    have hb' : dumpFields std false cfg (effMeta ci.cmeta cfg) {} ci ((ftys.zip vals).map nv) = .ok body := by
      rw [hl]; exact hb
    have hchain := fields_chain std cfg ci ftys tg hp _ _ (loadKeys_tagSfx std cfg ci ftys tg hp) (ftys.zip vals) body hgood hb'
    have hK : ((ftys.zip vals).map nv).map (·.1) = ci.fields.map (·.name) := by
      rw [hl, hp.names, List.map_fst_zip]; simp; omega
    have htj := toJ_finishInst (effMeta ci.cmeta cfg) tg hp.tag body
    have hfin := finishClass_ok cfg ci ftys tg hp ((ftys.zip vals).map nv) hK (.dict (toJPairs body ++ tagSfx (effMeta ci.cmeta cfg) tg))
    refine ⟨body, htj, body_keys std cfg ci ftys tg hp (ftys.zip vals) body hfi hb', ?_⟩
    rw [htj]
    simp only [loadClassWith, hchain, List.append_nil, bind, Except.bind, hfin]
    rw [hl]

theorem rt_inst (std : Std) (cfg : Option MetaCfg) (ci : ClassInfo) (ftys : List (S × Ty)) (vals : List PyVal) (tg : Option S)
    (hp : ClsOK cfg ci ftys tg) (hlen : vals.length = ftys.length) (ih : ∀ p ∈ ftys.zip vals, RT std cfg p.1.2 p.2) :
    RT std cfg (.cls ci ftys) (.inst ci ((ftys.map (·.1)).zip vals)) := by
  intro d h
  obtain ⟨_, _, _, hload⟩ := cls_roundtrip std cfg ci ftys vals tg hp hlen ih d h
  rw [loadD]
  exact hload

theorem find_none_of_keys (k : S) : ∀ (kvs : List (S × JVal)), (∀ p ∈ kvs, p.1 ≠ k) → kvs.find? (fun kv => kv.1 == k) = none
  | [], _ => rfl
  | p :: r, h => by
    have hp : (p.1 == k) = false := by simpa using h p (by simp)
    simp only [List.find?, hp]
    exact find_none_of_keys k r (fun q hq => h q (by simp [hq]))

/-- a tagged dataclass inside a Union of dataclasses: the dump carries the tag, the Union loader dispatches on it and the
member's own loader reads the rest back -/
theorem rt_unionTagged (std : Std) (cfg : Option MetaCfg) (pre post : List Ty) (ci : ClassInfo) (ftys : List (S × Ty))
    (vals : List PyVal) (tg : S) (hp : ClsOK cfg ci ftys (some tg)) (hlen : vals.length = ftys.length)
    (ih : ∀ p ∈ ftys.zip vals, RT std cfg p.1.2 p.2)
    (hpre : ∀ t ∈ pre, OtherMember cfg tg t) (hpost : ∀ t ∈ post, OtherMember cfg tg t) :
    RT std cfg (.union (pre ++ .cls ci ftys :: post)) (.inst ci ((ftys.map (·.1)).zip vals)) := by
  intro d h
  obtain ⟨body, htj, hkeys, hload⟩ := cls_roundtrip std cfg ci ftys vals (some tg) hp hlen ih d h
  have hf := hp.tagFacts tg rfl
  rw [htj] at hload ⊢
  have hclaim : NoDictClaim (pre ++ .cls ci ftys :: post) (.dict (toJPairs body ++ tagSfx (effMeta ci.cmeta cfg) (some tg))) := by
    intro t ht
    rcases List.mem_append.1 ht with ht | ht
    · rcases (hpre t ht).1 with h1 | h1
      · exact Or.inl h1
      · exact Or.inr (Or.inl h1)
    · rcases List.mem_cons.1 ht with rfl | ht
      · exact Or.inl rfl
      · rcases (hpost t ht).1 with h1 | h1
        · exact Or.inl h1
        · exact Or.inr (Or.inl h1)
  have hfind : (toJPairs body ++ tagSfx (effMeta ci.cmeta cfg) (some tg)).find?
        (fun kv => kv.1 == (cfg.bind (·.tagKey)).getD Generated.tagKey.toList)
      = some ((cfg.bind (·.tagKey)).getD Generated.tagKey.toList, .str tg) := by
    rw [← hf.keyAgree, List.find?_append]
    have hnone : (toJPairs body).find? (fun kv => kv.1 == tagKeyOf (effMeta ci.cmeta cfg)) = none := by
      apply find_none_of_keys
      intro p hp' heq
      obtain ⟨f, hfm, hk⟩ := hkeys p hp'
      exact hf.notDumpKey f hfm (by rw [hk, heq])
    rw [hnone]
    simp [tagSfx]
  rw [C13_dispatch_core std cfg tg pre post ci ftys _ hf.member (fun t ht => (hpre t ht).2) (fun t ht => (hpost t ht).2) hclaim hfind]
  exact hload

theorem rt_unionNone (std : Std) (cfg : Option MetaCfg) (ts : List Ty)
    (h : ts.any isNoneTy = true) : RT std cfg (.union ts) .none := by
  intro d hd; rw [dump_none] at hd; cases hd
  have : toJ .null = .null := by rw [toJ]
  rw [this, loadD]
  split
  · rfl
  · next hneg =>
    exfalso; apply hneg
    obtain ⟨t, ht, hh⟩ := List.any_eq_true.1 h
    have hk : (JVal.null.kind == JKind.null) = true := rfl
    rw [hk, Bool.true_and, List.any_eq_true]
    exact ⟨t, ht, by cases t <;> simp_all [isNoneTy]⟩

/-- **structural round trip** over the fragment -/
theorem roundtrip (std : Std) (cfg : Option MetaCfg) (laws : StdLaws std) (t : Ty) (v : PyVal) (hc : Conf std cfg t v) : RT std cfg t v := by
  induction hc with
  | int i => exact rt_int std cfg i
  | float f => exact rt_float std cfg f
  | leaf k t ht => exact rt_leaf std cfg laws k t ht
  | timedelta us h0 => exact rt_timedelta std cfg laws us h0
  | str s => exact rt_str std cfg s
  | bool b => exact rt_bool std cfg b
  | optNone t => exact rt_optNone std cfg t
  | optSome t v hn hc ih => exact rt_optSome std cfg t v hn hc ih
  | list t xs _ ih => exact rt_list std cfg t xs ih
  | vtuple t xs _ ih => exact rt_vtuple std cfg t xs ih
  | deque t xs _ ih => exact rt_deque std cfg t xs ih
  | tuple ts xs hne hl _ ih => exact rt_tuple std cfg ts xs hne hl ih
  | enum name members m v hm hr hu => exact rt_enum std cfg name members m v hm hr hu
  | dict t kvs hnd _ ih => exact rt_dict std cfg t kvs hnd ih
  | inst ci ftys vals tg hp hlen _ ih => exact rt_inst std cfg ci ftys vals tg hp hlen ih
  | unionTagged pre post ci ftys vals tg hp hlen _ hpre hpost ih => exact rt_unionTagged std cfg pre post ci ftys vals tg hp hlen ih hpre hpost
  | unionNone ts h => exact rt_unionNone std cfg ts h
  | set t xs hh hd _ ih => exact rt_set std cfg t xs hh hd ih
  | frozenset t xs hh hd _ ih => exact rt_frozenset std cfg t xs hh hd ih
  | defaultdict t kvs hnd _ ih => exact rt_mapk std cfg .defaultdict false t kvs (dumpV_defaultdict std cfg) hnd ih
  | ordereddict t kvs hnd _ ih => exact rt_mapk std cfg .ordereddict true t kvs (dumpV_ordereddict std cfg) hnd ih
  | literal vs l hf => exact rt_literal std cfg vs l hf
  | ntuple name fields xs hl _ ih => exact rt_ntuple std cfg name fields xs hl ih
  | typeddict name fields vals hnd hl hopt _ ih => exact rt_typeddict std cfg name fields vals hnd hl hopt ih


theorem orElse_self (o : MetaCfg) : o.orElse o = o := by
  cases o; simp [MetaCfg.orElse]

/-- the effective Meta of a main class is the one it has below its own travelling config -/
theorem effMeta_root (own : Option MetaCfg) : effMeta own (rootConfig own) = effMeta own none := by
  cases own with
  | none => rfl
  | some o =>
    simp only [rootConfig]
    split
    · simp [effMeta, orElse_self]
    · rfl

/-- at the top level: `fromdict(cls, json(asdict(x))) = x` for a main class (any Meta whose effective settings are
`PlainCls` below its own travelling config `rootConfig ci.cmeta`) -/
theorem roundtrip_root (std : Std) (laws : StdLaws std) (ci : ClassInfo) (ftys : List (S × Ty)) (v : PyVal)
    (hc : Conf std (rootConfig ci.cmeta) (.cls ci ftys) v)
    (d : DVal) (h : asdict std {} v = .ok d) : fromdict std (.cls ci ftys) (toJ d) = .ok v := by
  cases hc with
  | inst _ _ vals tg hp hlen hall =>
    have hrt := roundtrip std (rootConfig ci.cmeta) laws (.cls ci ftys) _ (Conf.inst ci ftys vals tg hp hlen hall) d (by
      rw [dumpV]
      simp only [effMeta_root]
      simpa [asdict] using h)
    rw [loadD] at hrt
    simp only [effMeta_root] at hrt
    simp only [fromdict]
    rw [hrt]

/-- a nested, *configured* model of the fragment (non-vacuity of `PlainCls` / `Conf`): the main class declares
`key_transform_with_dump = 'LISP'`, which travels to the nested class; one field carries aliases with `all=True` -/
def exMeta : MetaCfg := { keyTransformDump := some .lisp }
def exCfg : Option MetaCfg := rootConfig (some exMeta)
def exInner : ClassInfo :=
  { name := "Inner".toList,
    fields := [{ name := "val_one".toList }, { name := "tags".toList, loadKeys := ["TAGS".toList, "labels".toList], dumpAll := true }] }
def exInnerTys : List (S × Ty) := [("val_one".toList, .int), ("tags".toList, .seq .list .str)]
def exRoot : ClassInfo :=
  { name := "Root".toList, cmeta := some exMeta,
    fields := [{ name := "inner_obj".toList }, { name := "by_name".toList }, { name := "maybe".toList }] }
def exRootTys : List (S × Ty) :=
  [("inner_obj".toList, .cls exInner exInnerTys), ("by_name".toList, .map .dict .str (.cls exInner exInnerTys)), ("maybe".toList, .optional .bool)]

theorem exInner_plain : PlainCls exCfg exInner exInnerTys := by
  refine ⟨⟨rfl, rfl, rfl, rfl⟩, rfl, rfl, by decide, by decide, ?_, fun t ht => by cases ht⟩
  intro f hf
  simp only [exInner, List.mem_cons, List.not_mem_nil, or_false] at hf
  rcases hf with rfl | rfl
  · exact ⟨"val-one".toList, by rfl, by rfl⟩
  · exact ⟨"TAGS".toList, by rfl, by rfl⟩

theorem exRoot_plain : PlainCls exCfg exRoot exRootTys := by
  refine ⟨⟨rfl, rfl, rfl, rfl⟩, rfl, rfl, by decide, by decide, ?_, fun t ht => by cases ht⟩
  intro f hf
  simp only [exRoot, List.mem_cons, List.not_mem_nil, or_false] at hf
  rcases hf with rfl | rfl | rfl
  · exact ⟨"inner-obj".toList, by rfl, by rfl⟩
  · exact ⟨"by-name".toList, by rfl, by rfl⟩
  · exact ⟨"maybe".toList, by rfl, by rfl⟩

end DW.RT
