/- Helper lemmas about list-of-char string functions. -/
import DW.Model.Std

namespace DW

theorem prefix_append_drop (p l : S) (h : p <+: l) : p ++ l.drop p.length = l := by
  obtain ⟨t, rfl⟩ := h
  simp

theorem replaceFirst_cons_pos (old new : S) (c : Char) (r : S) (h : old <+: c :: r) :
    replaceFirst old new (c :: r) = new ++ (c :: r).drop old.length := by
  have : old.isPrefixOf (c :: r) = true := List.isPrefixOf_iff_prefix.mpr h
  rw [replaceFirst]
  rw [if_pos this]

theorem replaceFirst_cons_neg (old new : S) (c : Char) (r : S) (h : ¬ old <+: c :: r) :
    replaceFirst old new (c :: r) = c :: replaceFirst old new r := by
  have : ¬ old.isPrefixOf (c :: r) = true := fun hh => h (List.isPrefixOf_iff_prefix.mp hh)
  rw [replaceFirst]
  rw [if_neg this]

/-- `s.replace('Z', '+00:00', 1)` undoes `s.replace('+00:00', 'Z', 1)` on any text without a `Z`. -/
theorem zToOffset_isoZ_aux (off : S) (t : S) (h : 'Z' ∉ t) :
    replaceFirst ['Z'] off (replaceFirst off ['Z'] t) = t ∨ off = [] := by
  by_cases hoff : off = []
  · exact Or.inr hoff
  left
  induction t with
  | nil =>
    cases off with
    | nil => exact absurd rfl hoff
    | cons a o => simp [replaceFirst]
  | cons c r ih =>
    have hc : c ≠ 'Z' := by
      intro hc; apply h; simp [hc]
    have hr : 'Z' ∉ r := by
      intro hr; apply h; simp [hr]
    by_cases hp : off <+: (c :: r)
    · rw [replaceFirst_cons_pos off ['Z'] c r hp]
      have hz : ['Z'] <+: (['Z'] ++ (c :: r).drop off.length) := List.prefix_append _ _
      have : ['Z'] ++ List.drop off.length (c :: r) = 'Z' :: List.drop off.length (c :: r) := rfl
      rw [this] at hz ⊢
      rw [replaceFirst_cons_pos ['Z'] off 'Z' _ hz]
      simp only [List.length_singleton, List.drop_succ_cons, List.drop_zero]
      exact prefix_append_drop _ _ hp
    · rw [replaceFirst_cons_neg off ['Z'] c r hp]
      have hz : ¬ ['Z'] <+: (c :: replaceFirst off ['Z'] r) := by
        intro hh
        obtain ⟨t, ht⟩ := hh
        simp at ht
        exact hc ht.1.symm
      rw [replaceFirst_cons_neg ['Z'] off c _ hz, ih hr]

theorem zToOffset_isoZ (t : S) (h : 'Z' ∉ t) :
    replaceFirst ['Z'] "+00:00".toList (replaceFirst "+00:00".toList ['Z'] t) = t := by
  rcases zToOffset_isoZ_aux "+00:00".toList t h with h1 | h2
  · exact h1
  · exact absurd h2 (by decide)

end DW
