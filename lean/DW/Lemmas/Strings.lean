/- Helper lemmas about list-of-char string functions. -/
import DW.Model.Std

namespace DW

theorem prefix_append_drop (p l : S) (h : p <+: l) : p ++ l.drop p.length = l := by
  obtain ⟨t, rfl⟩ := h
  simp

theorem replaceFirst_cons_pos (old new : S) (c : Char) (r : S) (h : old <+: c :: r) :
    replaceFirst old new (c :: r) = new ++ (c :: r).drop old.length := by
  have : old.isPrefixOf (c :: r) = true := List.isPrefixOf_iff_prefix.mpr h
  rw [replaceFirst]
  rw [if_pos this]

theorem replaceFirst_cons_neg (old new : S) (c : Char) (r : S) (h : ¬ old <+: c :: r) :
    replaceFirst old new (c :: r) = c :: replaceFirst old new r := by
  have : ¬ old.isPrefixOf (c :: r) = true := fun hh => h (List.isPrefixOf_iff_prefix.mp hh)
  rw [replaceFirst]
  rw [if_neg this]

/-- replacing the first `Z` in `a ++ 'Z' :: b` when `a` has none -/
theorem replaceFirst_Z_append (new a b : S) (h : 'Z' ∉ a) :
    replaceFirst ['Z'] new (a ++ 'Z' :: b) = a ++ new ++ b := by
  induction a with
  | nil =>
    have hz : ['Z'] <+: ('Z' :: b) := ⟨b, rfl⟩
    simp only [List.nil_append]
    rw [replaceFirst_cons_pos ['Z'] new 'Z' b hz]
    simp
  | cons c r ih =>
    have hc : c ≠ 'Z' := by
      intro hc; apply h; simp [hc]
    have hr : 'Z' ∉ r := by
      intro hr; apply h; simp [hr]
    have hz : ¬ ['Z'] <+: (c :: (r ++ 'Z' :: b)) := by
      intro hh
      obtain ⟨t, ht⟩ := hh
      simp at ht
      exact hc ht.1.symm
    simp only [List.cons_append]
    rw [replaceFirst_cons_neg ['Z'] new c _ hz, ih hr]

/-- text without a `Z` is left alone by `s.replace('Z', '+00:00', 1)` -/
theorem replaceFirst_Z_none (new t : S) (h : 'Z' ∉ t) : replaceFirst ['Z'] new t = t := by
  induction t with
  | nil => simp [replaceFirst]
  | cons c r ih =>
    have hc : c ≠ 'Z' := by
      intro hc; apply h; simp [hc]
    have hr : 'Z' ∉ r := by
      intro hr; apply h; simp [hr]
    have hz : ¬ ['Z'] <+: (c :: r) := by
      intro hh
      obtain ⟨t, ht⟩ := hh
      simp at ht
      exact hc ht.1.symm
    rw [replaceFirst_cons_neg ['Z'] new c _ hz, ih hr]

/-- `s.replace('Z', '+00:00', 1)` (load side) undoes the dump side's rewrite of a trailing `+00:00` into `Z`
on any text without a `Z`. -/
theorem zToOffset_isoZ (t : S) (h : 'Z' ∉ t) :
    replaceFirst ['Z'] "+00:00".toList
      (if "+00:00".toList.isSuffixOf t then t.take (t.length - 6) ++ ['Z'] else t) = t := by
  by_cases hs : "+00:00".toList.isSuffixOf t = true
  · simp only [hs, ↓reduceIte]
    have hsuf : "+00:00".toList <:+ t := List.isSuffixOf_iff_suffix.mp hs
    obtain ⟨a, ha⟩ := hsuf
    have hlen : t.length - 6 = a.length := by
      rw [← ha]; simp
    have htake : t.take (t.length - 6) = a := by
      rw [hlen, ← ha]; simp
    rw [htake]
    have hza : 'Z' ∉ a := by
      intro hz; apply h; rw [← ha]; simp [hz]
    have := replaceFirst_Z_append "+00:00".toList a [] hza
    simp only [List.append_nil] at this
    rw [this, ha]
  · simp only [hs, Bool.false_eq_true, ↓reduceIte]
    exact replaceFirst_Z_none _ t h

end DW
