/- Helper definitions and lemmas about tag dispatch in a Union of dataclasses (default engine), shared by the C13 property
theorems and by the structural round trip (`DW.RT`). -/
import DW.Generated.Tables
import DW.Model.Load

namespace DW.Tagged
open DW

def isCls : Ty → Bool
  | .cls _ _ => true
  | _ => false

/-- no non-dataclass member of the Union claims a dict value (`o in parser` is False for it) -/
def NoDictClaim (ts : List Ty) (o : JVal) : Prop :=
  ∀ t ∈ ts, isCls t = true ∨ t = .none ∨ parserContains t o = some false

theorem loadUnionTry_none (std : Std) (cfg : Option MetaCfg) (ts : List Ty) (o : JVal)
    (h : NoDictClaim ts o) : loadUnionTry std cfg ts o = none := by
  induction ts with
  | nil => rfl
  | cons t r ih =>
    have hr : NoDictClaim r o := fun t' ht' => h t' (by simp [ht'])
    have ht := h t (by simp)
    cases t <;> simp [loadUnionTry, isCls] at ht ⊢ <;> first
      | exact ih hr
      | (simp [ht]; exact ih hr)

/-- the tag a member class answers to -/
def tagOf (cfg : Option MetaCfg) : Ty → Option S
  | .cls ci _ => memberTag cfg ci
  | _ => none

/-- Dispatch depends on the tag alone: if exactly one member class answers to tag `tg` — wherever it stands in
the Union, whatever the other members' fields look like — then the value is built by *that* class's loader. -/
theorem loadTagged_dispatch (std : Std) (cfg : Option MetaCfg) (tg : S) (pre post : List Ty)
    (ci : ClassInfo) (ftys : List (S × Ty)) (o : JVal)
    (hk : memberTag cfg ci = some tg)
    (hpre : ∀ t ∈ pre, tagOf cfg t ≠ some tg) (hpost : ∀ t ∈ post, tagOf cfg t ≠ some tg) :
    loadTagged std cfg tg (pre ++ .cls ci ftys :: post) o
      = loadClassWith (fun f v => loadField std cfg f v ftys) (effMeta ci.cmeta cfg) ci o := by
  induction pre with
  | nil =>
    simp only [List.nil_append, loadTagged]
    have : (post.any (tyHasTag cfg tg)) = false := by
      rw [List.any_eq_false]
      intro t' ht'
      have := hpost t' ht'
      cases t' <;> simp [tagOf, tyHasTag] at this ⊢
      exact this
    rw [this]
    simp [hk]
  | cons t r ih =>
    have hr : ∀ t ∈ r, tagOf cfg t ≠ some tg := fun t' ht' => hpre t' (by simp [ht'])
    have ht := hpre t (by simp)
    cases t <;> simp only [List.cons_append, loadTagged] <;> try exact ih hr
    case cls ci' ftys' =>
      simp [tagOf] at ht
      simp [ht]
      exact ih hr

/-- dispatch at a Union annotation: a dict whose tag key holds K's tag is loaded by K's own loader -/
theorem C13_dispatch_core (std : Std) (cfg : Option MetaCfg) (tg : S) (pre post : List Ty)
    (ci : ClassInfo) (ftys : List (S × Ty)) (kvs : List (S × JVal))
    (hk : memberTag cfg ci = some tg)
    (hpre : ∀ t ∈ pre, tagOf cfg t ≠ some tg) (hpost : ∀ t ∈ post, tagOf cfg t ≠ some tg)
    (hclaim : NoDictClaim (pre ++ .cls ci ftys :: post) (.dict kvs))
    (htag : kvs.find? (fun kv => kv.1 == (cfg.bind (·.tagKey)).getD Generated.tagKey.toList)
              = some ((cfg.bind (·.tagKey)).getD Generated.tagKey.toList, .str tg)) :
    loadD std cfg (.union (pre ++ .cls ci ftys :: post)) (.dict kvs)
      = loadClassWith (fun f v => loadField std cfg f v ftys) (effMeta ci.cmeta cfg) ci (.dict kvs) := by
  simp only [loadD, JVal.kind]
  have hk' : (JKind.dict == JKind.null) = false := by decide
  simp only [hk', Bool.false_and, Bool.false_eq_true, ↓reduceIte]
  rw [loadUnionTry_none std cfg _ _ hclaim]
  simp only [htag]
  exact loadTagged_dispatch std cfg tg pre post ci ftys (.dict kvs) hk hpre hpost

end DW.Tagged
