/- Soundness of the scalar loaders of the default engine (definitions + the case analysis behind `C05_sound_scalar`). -/
import DW.Generated.Tables
import DW.Model.Load

namespace DW.Props.C05
open DW

/-- a value is the Literal member `l`: same value *and* same type -/
def litIs (l : Lit) (v : PyVal) : Bool :=
  match l, v with
  | .none, .none => true
  | .bool a, .bool b => a == b
  | .int a, .int b => a == b
  | .float a, .float b => a == b
  | .str a, .str b => a == b
  | _, _ => false

theorem litIs_toPy (l : Lit) : litIs l l.toPy = true := by
  cases l <;> simp [litIs, Lit.toPy]

/-- conformance of a scalar result to its annotation (exact type; Literal by value *and* type) -/
def conformsScalar : Ty → PyVal → Bool
  | .int, .int _ => true
  | .float, .float _ => true
  | .str, .str _ => true
  | .bool, .bool _ => true
  | .leaf k, .leaf k' false _ => k == k'
  | .timedelta, .timedelta _ => true
  | .enum n ms, .enum n' m v => n == n' && ms.contains (m, v)
  | .literal vs, v => vs.any (fun l => litIs l v)
  | _, _ => false

def isScalarTy : Ty → Bool
  | .int | .float | .str | .bool | .leaf _ | .timedelta | .enum _ _ | .literal _ => true
  | _ => false

theorem find?_mem_aux {α} (p : α → Bool) (l : List α) (a : α) (h : l.find? p = some a) : a ∈ l ∧ p a = true := by
  exact ⟨List.mem_of_find?_eq_some h, List.find?_some h⟩

/-- Soundness at scalar annotations, for *every* JSON input (nan, inf, huge, junk, containers):
whatever the default engine returns for `int`, `float`, `str`, `bool`, Decimal/Path/UUID/date/time/datetime,
`timedelta`, an Enum or a `Literal` is a value of that exact type. -/
theorem sound_scalar (std : Std) (cfg : Option MetaCfg) (t : Ty) (ht : isScalarTy t = true) (o : JVal) (y : PyVal)
    (h : loadD std cfg t o = .ok y) : conformsScalar t y = true := by
  cases t <;> simp [isScalarTy] at ht
  case int =>
    simp only [loadD] at h
    cases o <;> simp [asInt, pure, Except.pure, rawE] at h
    case int i => subst h; rfl
    case float f => split at h <;> simp at h; subst h; rfl
    case str s =>
      split at h
      · simp at h; subst h; rfl
      · split at h
        · split at h
          · simp at h
          · split at h <;> simp at h; subst h; rfl
        · split at h <;> simp at h; subst h; rfl
    case null => subst h; rfl
    case list xs => split at h <;> simp at h; subst h; rfl
    case dict kvs => split at h <;> simp at h; subst h; rfl
  case float =>
    simp only [loadD] at h
    cases o <;> simp [asFloat, pure, Except.pure, rawE] at h
    case float f => subst h; rfl
    case int i => split at h <;> simp at h; subst h; rfl
    case bool b => split at h <;> simp at h; subst h; rfl
    case str s => split at h <;> simp at h; subst h; rfl
  case str =>
    simp only [loadD] at h
    cases o <;> simp [asStr, pure, Except.pure] at h <;> (subst h; rfl)
  case bool =>
    simp [loadD, pure, Except.pure] at h; subst h; rfl
  case leaf k =>
    cases k <;> simp only [loadD] at h
    case decimal =>
      cases o <;> simp [asDecimal, strOfJ, pure, Except.pure, rawE] at h <;>
        (split at h <;> simp at h; subst h; rfl)
    case path =>
      cases o <;> simp [asPath, strOfJ, pure, Except.pure] at h <;> (subst h; rfl)
    case uuid =>
      cases o <;> simp [asUuid, pure, Except.pure, rawE] at h
      split at h <;> simp at h; subst h; rfl
    case date =>
      cases o <;> simp [asDate, jNumExact?, pure, Except.pure, rawE] at h <;>
        (split at h <;> simp at h; subst h; rfl)
    case time =>
      cases o <;> simp [asTime, pure, Except.pure, rawE] at h
      split at h <;> simp at h; subst h; rfl
    case datetime =>
      cases o <;> simp [asDatetime, jNumExact?, pure, Except.pure, rawE] at h <;>
        (split at h <;> simp at h; subst h; rfl)
  case timedelta =>
    simp only [loadD] at h
    cases o <;> simp [asTimedelta, jNumExact?, pure, Except.pure, rawE] at h
    case int i => split at h <;> simp at h; subst h; rfl
    case float f => split at h <;> simp at h; subst h; rfl
    case str s =>
      split at h
      · simp at h
      · split at h <;> simp at h; subst h; rfl
  case enum n ms =>
    simp only [loadD, asEnum] at h
    split at h
    · rename_i m hm
      simp [pure, Except.pure] at h; subst h
      have := List.mem_of_find?_eq_some hm
      simp [conformsScalar, this]
    · simp [rawE] at h
  case literal vs =>
    simp only [loadD, asLiteral] at h
    split at h
    · simp [rawE] at h
    · split at h
      · simp [parseE] at h
      · rename_i l hl
        have hy : y = l.toPy := by
          split at h <;> simp [pure, Except.pure, parseE] at h <;> exact h.symm
        subst hy
        have hm := List.mem_of_find?_eq_some hl
        simp only [conformsScalar, List.any_eq_true]
        exact ⟨l, hm, litIs_toPy l⟩


end DW.Props.C05
