/-
The relaxed reading rule of the definite-assignment checker and Python's literal rule accept the same bodies, as long as the scope
lists every written name (and the initially assigned ones) among its locals — which `genScope` does by construction.
-/
import DW.Lemmas.GenDump

namespace DW.GenDump
open DW.Names

/-- the scope knows its locals: `L` ⊆ locals -/
def Knows (sc : Scope) (L : List S) : Prop := ∀ n ∈ L, n ∈ sc.locals

theorem readsOk_eq_py (sc : Scope) (asg ns : List S) (h : Knows sc asg) : sc.readsOk asg ns = sc.readsOkPy asg ns := by
  unfold Scope.readsOk Scope.readsOkPy
  induction ns with
  | nil => rfl
  | cons n r ih => simp only [List.all_cons, ih, readOk_eq_py sc asg n h]

theorem checkSimples_eq_py (sc : Scope) : ∀ (ps : List Simple) (asg : List S), Knows sc asg → Knows sc (ps.flatMap Simple.writes) →
    checkSimplesPy sc asg ps = checkSimples sc asg ps
  | [], _, _, _ => rfl
  | s :: r, asg, ha, hw => by
    simp only [checkSimplesPy, checkSimples, readsOk_eq_py sc asg s.reads ha]
    split
    · exact checkSimples_eq_py sc r (s.writes ++ asg)
        (fun n hn => by
          rcases List.mem_append.1 hn with h | h
          · exact hw n (by simp [h])
          · exact ha n h)
        (fun n hn => hw n (by simp [hn]))
    · rfl

theorem checkSimples_out (sc : Scope) : ∀ (ps : List Simple) (asg out : List S), checkSimples sc asg ps = some out →
    ∀ n ∈ out, n ∈ asg ∨ n ∈ ps.flatMap Simple.writes
  | [], asg, out, h => by
    simp only [checkSimples, Option.some.injEq] at h; subst h; exact fun n hn => Or.inl hn
  | s :: r, asg, out, h => by
    simp only [checkSimples] at h
    split at h
    · intro n hn
      rcases checkSimples_out sc r _ _ h n hn with h1 | h1
      · rcases List.mem_append.1 h1 with h2 | h2
        · exact Or.inr (by simp [h2])
        · exact Or.inl h2
      · exact Or.inr (by simp [h1])
    · simp at h

theorem checkL0s_eq_py (sc : Scope) : ∀ (ls : List L0) (asg : List S), Knows sc asg → Knows sc (ls.flatMap L0.writes) →
    checkL0sPy sc asg ls = checkL0s sc asg ls
  | [], _, _, _ => rfl
  | l :: r, asg, ha, hw => by
    have hl : Knows sc (l.parts.flatMap Simple.writes) := fun n hn => hw n (by simp [L0.writes, hn])
    simp only [checkL0sPy, checkL0s, L0.check, checkSimples_eq_py sc l.parts asg ha hl]
    cases hc : checkSimples sc asg l.parts with
    | none => rfl
    | some a =>
      exact checkL0s_eq_py sc r a
        (fun n hn => by
          rcases checkSimples_out sc l.parts asg a hc n hn with h | h
          · exact ha n h
          · exact hl n h)
        (fun n hn => hw n (by simp [hn]))

theorem L1_check_eq_py (sc : Scope) (x : L1) (asg : List S) (ha : Knows sc asg) (hw : Knows sc x.writes) :
    x.checkPy sc asg = x.check sc asg := by
  cases x with
  | line l => exact checkSimples_eq_py sc l.parts asg ha (fun n hn => hw n (by simpa [L1.writes, L0.writes] using hn))
  | for_ ts it body =>
    simp only [L1.checkPy, L1.check, readsOk_eq_py sc asg it.reads ha]
    rw [checkL0s_eq_py sc body (ts ++ asg)
      (fun n hn => by
        rcases List.mem_append.1 hn with h | h
        · exact hw n (by simp [L1.writes, h])
        · exact ha n h)
      (fun n hn => hw n (by simp [L1.writes, hn]))]

theorem L1_check_out (sc : Scope) (x : L1) (asg out : List S) (h : x.check sc asg = some out) :
    ∀ n ∈ out, n ∈ asg ∨ n ∈ x.writes := by
  cases x with
  | line l =>
    intro n hn
    rcases checkSimples_out sc l.parts asg out h n hn with h1 | h1
    · exact Or.inl h1
    · exact Or.inr (by simpa [L1.writes, L0.writes] using h1)
  | for_ ts it body =>
    simp only [L1.check] at h
    split at h
    · split at h
      · simp only [Option.some.injEq] at h; subst h; exact fun n hn => Or.inl hn
      · simp at h
    · simp at h

theorem checkL1s_eq_py (sc : Scope) : ∀ (xs : List L1) (asg : List S), Knows sc asg → Knows sc (xs.flatMap L1.writes) →
    checkL1sPy sc asg xs = checkL1s sc asg xs
  | [], _, _, _ => rfl
  | x :: r, asg, ha, hw => by
    have hx : Knows sc x.writes := fun n hn => hw n (by simp [hn])
    simp only [checkL1sPy, checkL1s, L1_check_eq_py sc x asg ha hx]
    cases hc : x.check sc asg with
    | none => rfl
    | some a =>
      exact checkL1s_eq_py sc r a
        (fun n hn => by
          rcases L1_check_out sc x asg a hc n hn with h | h
          · exact ha n h
          · exact hx n h)
        (fun n hn => hw n (by simp [hn]))

theorem checkL1s_out (sc : Scope) : ∀ (xs : List L1) (asg out : List S), checkL1s sc asg xs = some out →
    ∀ n ∈ out, n ∈ asg ∨ n ∈ xs.flatMap L1.writes
  | [], asg, out, h => by
    simp only [checkL1s, Option.some.injEq] at h; subst h; exact fun n hn => Or.inl hn
  | x :: r, asg, out, h => by
    simp only [checkL1s] at h
    split at h
    · next a ha =>
      intro n hn
      rcases checkL1s_out sc r a out h n hn with h1 | h1
      · rcases L1_check_out sc x asg a ha n h1 with h2 | h2
        · exact Or.inl h2
        · exact Or.inr (by simp [h2])
      · exact Or.inr (by simp [h1])
    · simp at h

theorem L2_check_eq_py (sc : Scope) (x : L2) (asg : List S) (ha : Knows sc asg) (hw : Knows sc x.writes) :
    x.checkPy sc asg = x.check sc asg := by
  cases x with
  | s y => exact L1_check_eq_py sc y asg ha (fun n hn => hw n (by simpa [L2.writes] using hn))
  | if_ c thn els =>
    have h1 : Knows sc (thn.flatMap L1.writes) := fun n hn => hw n (by simp [L2.writes, hn])
    simp only [L2.checkPy, L2.check, readsOk_eq_py sc asg c.reads ha, checkL1s_eq_py sc thn asg ha h1]
    cases els with
    | none => rfl
    | some e =>
      have h2 : Knows sc (e.flatMap L1.writes) := fun n hn => hw n (by simp [L2.writes, hn])
      simp only [checkL1s_eq_py sc e asg ha h2]

theorem L2_check_out (sc : Scope) (x : L2) (asg out : List S) (h : x.check sc asg = some out) :
    ∀ n ∈ out, n ∈ asg ∨ n ∈ x.writes := by
  cases x with
  | s y =>
    intro n hn
    rcases L1_check_out sc y asg out h n hn with h1 | h1
    · exact Or.inl h1
    · exact Or.inr (by simpa [L2.writes] using h1)
  | if_ c thn els =>
    simp only [L2.check] at h
    split at h
    · split at h
      · next a b ha hb =>
        simp only [Option.some.injEq] at h; subst h
        intro n hn
        have hna : n ∈ a := (List.mem_filter.1 hn).1
        rcases checkL1s_out sc thn asg a ha n hna with h1 | h1
        · exact Or.inl h1
        · exact Or.inr (by simp [L2.writes, h1])
      · simp at h
    · simp at h

theorem checkL2s_eq_py (sc : Scope) : ∀ (xs : List L2) (asg : List S), Knows sc asg → Knows sc (xs.flatMap L2.writes) →
    checkL2sPy sc asg xs = checkL2s sc asg xs
  | [], _, _, _ => rfl
  | x :: r, asg, ha, hw => by
    have hx : Knows sc x.writes := fun n hn => hw n (by simp [hn])
    simp only [checkL2sPy, checkL2s, L2_check_eq_py sc x asg ha hx]
    cases hc : x.check sc asg with
    | none => rfl
    | some a =>
      exact checkL2s_eq_py sc r a
        (fun n hn => by
          rcases L2_check_out sc x asg a hc n hn with h | h
          · exact ha n h
          · exact hx n h)
        (fun n hn => hw n (by simp [hn]))

/-- **the generated body passes Python's scoping rule taken literally** -/
theorem wellScopedPy_all (p : Char → Bool) (g : GIn) : wellScopedPy p g = true := by
  unfold wellScopedPy
  rw [checkL2s_eq_py (genScope p g) (genBody p g) params
    (fun n hn => by simp [genScope, genScopeQ, hn])
    (fun n hn => by simp [genScope, genScopeQ, hn])]
  exact wellScoped_all p g

end DW.GenDump
