/- The structural dump/load round trip of the **v1** engine (Meta `v1 = True`, `v1_key_case = 'CAMEL'`, default dump
transform) over the same fragment as `DW.RT`: the induction behind `C02_roundtrip_struct`. -/
import DW.Model.LoadV1
import DW.Lemmas.RoundTrip

namespace DW.RTV1
open DW DW.RT DW.Str

/-- the root Meta of the theorem: `class _(JSONWizard.Meta): v1 = True; v1_key_case = 'CAMEL'` -/
def mV1 : MetaCfg := { v1 := some true, v1KeyCase := some .camel }

/-- the travelling config below a root with that Meta -/
abbrev cV1 : Option MetaCfg := some mV1

theorem eff_nested : effMeta none cV1 = mV1 := by decide
theorem eff_of (own : Option MetaCfg) (h : own = none ∨ own = some mV1) : effMeta own cV1 = mV1 := by
  rcases h with rfl | rfl <;> decide
theorem eff_root : effMeta (some mV1) none = mV1 := rfl
theorem root_cfg : rootConfig (some mV1) = cV1 := by decide

/-- a dataclass without customisation of its own whose camelCase keys are pairwise distinct -/
structure PlainCls (ci : ClassInfo) (ftys : List (S × Ty)) : Prop where
  cmetaOk : ci.cmeta = none ∨ ci.cmeta = some mV1      -- no Meta of its own, or the v1 Meta itself (a main class)
  names : ci.fields.map (·.name) = ftys.map (·.1)
  nodup : (ci.fields.map (·.name)).Nodup
  plain : ∀ f ∈ ci.fields, f.init = true ∧ f.isCatchAll = false ∧ f.dumpSkip = false ∧ f.skipIf = none ∧
            f.dumpAll = false ∧ f.loadKeys = []
  camel : ∀ f ∈ ci.fields, ∃ k, toCamel f.name = some k
  keysNodup : (ci.fields.map (fun f => (toCamel f.name).getD f.name)).Nodup

inductive Conf (std : Std) : Ty → PyVal → Prop
  | int (i : Int) : Conf std .int (.int i)
  | float (f : PyFloat) : Conf std .float (.float f)
  | leaf (k : LeafKind) (t : S) : std.validTok k t = true → Conf std (.leaf k) (.leaf k false t)
  | timedelta (us : Int) : 0 ≤ us → Conf std .timedelta (.timedelta us)
  | enum (name : S) (members : List (S × Lit)) (m : S) (v : Lit) : (m, v) ∈ members → jEqLit v.toJ v = true →
      (∀ m' ∈ members, jEqLit v.toJ m'.2 = true → m' = (m, v)) → Conf std (.enum name members) (.enum name m v)
  | str (s : S) : Conf std .str (.str s)
  | bool (b : Bool) : Conf std .bool (.bool b)
  | optNone (t : Ty) : Conf std (.optional t) .none
  | optSome (t : Ty) (v : PyVal) : nonNullTy t = true → Conf std t v → Conf std (.optional t) v
  | list (t : Ty) (xs : List PyVal) : (∀ x ∈ xs, Conf std t x) → Conf std (.seq .list t) (.seq .list xs)
  | deque (t : Ty) (xs : List PyVal) : (∀ x ∈ xs, Conf std t x) → Conf std (.seq .deque t) (.seq .deque xs)
  | vtuple (t : Ty) (xs : List PyVal) : (∀ x ∈ xs, Conf std t x) → Conf std (.vtuple t) (.tuple xs)
  | dict (t : Ty) (kvs : List (S × PyVal)) : (kvs.map (·.1)).Nodup → (∀ p ∈ kvs, Conf std t p.2) →
      Conf std (.map .dict .str t) (.map .dict (kvs.map (fun p => (.str p.1, p.2))))
  | inst (ci : ClassInfo) (ftys : List (S × Ty)) (vals : List PyVal) : PlainCls ci ftys → vals.length = ftys.length →
      (∀ p ∈ ftys.zip vals, Conf std p.1.2 p.2) →
      Conf std (.cls ci ftys) (.inst ci ((ftys.map (·.1)).zip vals))
  | bytes (b : List Nat) : Conf std .bytes (.bytes false b)
  | bytearray (b : List Nat) : Conf std .bytearray (.bytes true b)
  | set (t : Ty) (xs : List PyVal) : xs.all PyVal.hashable = true → dedupKeep xs = xs → (∀ x ∈ xs, Conf std t x) →
      Conf std (.seq .set t) (.seq .set xs)
  | frozenset (t : Ty) (xs : List PyVal) : xs.all PyVal.hashable = true → dedupKeep xs = xs → (∀ x ∈ xs, Conf std t x) →
      Conf std (.seq .frozenset t) (.seq .frozenset xs)
  | tuple (ts : List Ty) (xs : List PyVal) : ts ≠ [] → xs.length = ts.length → (∀ p ∈ ts.zip xs, Conf std p.1 p.2) →
      Conf std (.tuple ts) (.tuple xs)
  | defaultdict (t : Ty) (kvs : List (S × PyVal)) : (kvs.map (·.1)).Nodup → (∀ p ∈ kvs, Conf std t p.2) →
      Conf std (.map .defaultdict .str t) (.map .defaultdict (kvs.map (fun p => (.str p.1, p.2))))
  | ordereddict (t : Ty) (kvs : List (S × PyVal)) : (kvs.map (·.1)).Nodup → (∀ p ∈ kvs, Conf std t p.2) →
      Conf std (.map .ordereddict .str t) (.map .ordereddict (kvs.map (fun p => (.str p.1, p.2))))
  | literal (vs : List Lit) (l : Lit) : l ∈ vs → jEqLit l.toJ l = true → Conf std (.literal vs) l.toPy
  | ntuple (name : S) (fields : List (S × Ty × Option Dflt)) (xs : List PyVal) : xs.length = fields.length →
      (∀ p ∈ (fields.map (·.2.1)).zip xs, Conf std p.1 p.2) →
      Conf std (.ntuple name fields) (.ntuple name (fields.map (·.1)) xs)

/-- the round-trip statement for one value below the v1 root -/
def RT1 (std : Std) (t : Ty) (v : PyVal) : Prop :=
  ∀ d, dumpV std false cV1 v = .ok d → loadV1 std cV1 t (toJ d) = .ok v

theorem dump_int (std : Std) (i : Int) : dumpV std false cV1 (.int i) = .ok (.int i) := by
  simp [dumpV, dumpScalar, pure, Except.pure]
theorem dump_float (std : Std) (f : PyFloat) : dumpV std false cV1 (.float f) = .ok (.float f) := by
  simp [dumpV, dumpScalar, pure, Except.pure]
theorem dump_str (std : Std) (s : S) : dumpV std false cV1 (.str s) = .ok (.str s) := by
  simp [dumpV, dumpScalar, pure, Except.pure]
theorem dump_bool (std : Std) (b : Bool) : dumpV std false cV1 (.bool b) = .ok (.bool b) := by
  simp [dumpV, dumpScalar, pure, Except.pure]
theorem dump_none (std : Std) : dumpV std false cV1 .none = .ok .null := by
  simp [dumpV, dumpScalar, pure, Except.pure]
theorem dump_leaf (std : Std) (k : LeafKind) (t : S) : dumpV std false cV1 (.leaf k false t) = .ok (.str (leafText k t)) := by
  cases k <;> simp [dumpV, dumpScalar, leafText, pure, Except.pure]

theorem rt_int (std : Std) (i : Int) : RT1 std .int (.int i) := by
  intro d h; rw [dump_int] at h; cases h; simp [toJ, loadV1, v1Int, pure, Except.pure]
theorem rt_float (std : Std) (f : PyFloat) : RT1 std .float (.float f) := by
  intro d h; rw [dump_float] at h; cases h; simp [toJ, loadV1, v1Float, asFloat, Except.mapError, pure, Except.pure]
theorem rt_str (std : Std) (s : S) : RT1 std .str (.str s) := by
  intro d h; rw [dump_str] at h; cases h; simp [toJ, loadV1, v1Str, asStr, pure, Except.pure]
theorem rt_bool (std : Std) (b : Bool) : RT1 std .bool (.bool b) := by
  intro d h; rw [dump_bool] at h; cases h; simp [toJ, loadV1, v1Bool, pure, Except.pure]
theorem rt_optNone (std : Std) (t : Ty) : RT1 std (.optional t) .none := by
  intro d h; rw [dump_none] at h; cases h; simp [toJ, loadV1, pure, Except.pure]

theorem rt_leaf (std : Std) (laws : StdLaws std) (k : LeafKind) (t : S) (ht : std.validTok k t = true) :
    RT1 std (.leaf k) (.leaf k false t) := by
  intro d h
  rw [dump_leaf] at h; cases h
  cases k
  · simp only [toJ, leafText, loadV1, v1Decimal]; rw [laws.decimal_rt t ht]; rfl
  · simp only [toJ, leafText, loadV1, v1Path]; rw [laws.path_rt t ht]; rfl
  · simp only [toJ, leafText, loadV1, v1Uuid]; rw [laws.uuid_rt t ht]; rfl
  · simp only [toJ, leafText, loadV1, v1Date]; rw [laws.date_rt t ht]; rfl
  · simp only [toJ, leafText, loadV1, v1Time]; rw [laws.time_rt_z t ht]; rfl
  · simp only [toJ, leafText, loadV1, v1Datetime]; rw [laws.datetime_rt_z t ht]; rfl


theorem dump_timedelta (std : Std) (us : Int) : dumpV std false cV1 (.timedelta us) = .ok (.str (tdStr us)) := by
  simp [dumpV, dumpScalar, pure, Except.pure]

theorem rt_timedelta (std : Std) (laws : StdLaws std) (us : Int) (h0 : 0 ≤ us) : RT1 std .timedelta (.timedelta us) := by
  intro d h
  rw [dump_timedelta] at h; cases h
  obtain ⟨n, hn, hs⟩ := laws.timedelta_rt us h0
  have htj : toJ (.str (tdStr us)) = .str (tdStr us) := by rw [toJ]
  rw [htj, loadV1]
  simp only [v1Timedelta, asTimedelta, looksNumeric_false (tdStr us) (colon_mem_tdStr us), Bool.false_eq_true, if_false, hn, hs,
    pure, Except.pure, Except.mapError]

theorem dump_enum (std : Std) (name m : S) (v : Lit) : dumpV std false cV1 (.enum name m v) = .ok v.toD := by
  simp [dumpV, dumpScalar, pure, Except.pure]

theorem rt_enum (std : Std) (name : S) (members : List (S × Lit)) (m : S) (v : Lit) (hm : (m, v) ∈ members)
    (hrefl : jEqLit v.toJ v = true) (huniq : ∀ m' ∈ members, jEqLit v.toJ m'.2 = true → m' = (m, v)) :
    RT1 std (.enum name members) (.enum name m v) := by
  intro d h
  rw [dump_enum] at h; cases h
  rw [toJ_litToD, loadV1]
  unfold v1Enum asEnum
  cases hf : members.find? (fun m' => jEqLit v.toJ m'.2) with
  | none =>
    have := List.find?_eq_none.1 hf (m, v) hm
    simp [hrefl] at this
  | some m' =>
    have hmem := List.mem_of_find?_eq_some hf
    have hp : jEqLit v.toJ m'.2 = true := by simpa using List.find?_some hf
    rw [huniq m' hmem hp]
    rfl

theorem dumpV_list (std : Std) (xs : List PyVal) :
    dumpV std false cV1 (.seq .list xs) = (dumpList std false cV1 xs).map DVal.list := by
  rw [dumpV]
  simp only [hookFor_list, bind, Except.bind, pure, Except.pure, Except.map]

theorem dumpV_dict (std : Std) (kvs : List (PyVal × PyVal)) :
    dumpV std false cV1 (.map .dict kvs) = (dumpPairs std false cV1 kvs).map (DVal.dict false) := by
  rw [dumpV]
  simp only [hookFor_dict, bind, Except.bind, pure, Except.pure, Except.map]
  cases dumpPairs std false cV1 kvs <;> simp

theorem loadV1_optional_nonnull (std : Std) (t : Ty) (o : JVal) (h : o ≠ .null) :
    loadV1 std cV1 (.optional t) o = loadV1 std cV1 t o := by
  rw [loadV1]
  cases o <;> simp_all

theorem mapME_list (std : Std) (t : Ty) : ∀ (xs : List PyVal) (ds : List DVal),
    (∀ x ∈ xs, RT1 std t x) → dumpList std false cV1 xs = .ok ds →
    mapME (fun x => loadV1 std cV1 t x) (toJList ds) = .ok xs
  | [], ds, _, h => by
    simp only [dumpList, pure, Except.pure, Except.ok.injEq] at h; subst h; rfl
  | x :: xs, ds, ih, h => by
    simp only [dumpList, bind, Except.bind] at h
    split at h
    · simp at h
    · next y hy =>
      split at h
      · simp at h
      · next ys hys =>
        simp only [pure, Except.pure, Except.ok.injEq] at h; subst h
        have h1 := ih x (by simp) y hy
        have h2 := mapME_list std t xs ys (fun z hz => ih z (by simp [hz])) hys
        simp [toJList, mapME, h1, h2, bind, Except.bind, pure, Except.pure]

theorem rt_list (std : Std) (t : Ty) (xs : List PyVal) (ih : ∀ x ∈ xs, RT1 std t x) : RT1 std (.seq .list t) (.seq .list xs) := by
  intro d h
  rw [dumpV_list] at h
  cases hd : dumpList std false cV1 xs with
  | error e => simp [hd, Except.map] at h
  | ok ds =>
    simp [hd, Except.map] at h; subst h
    have htj : toJ (.list ds) = .list (toJList ds) := by rw [toJ]
    rw [htj, loadV1]
    simp only [jIter, bind, Except.bind, mapME_list std t xs ds ih hd, mkSeq, pure, Except.pure, Except.mapError]

theorem dumpV_deque (std : Std) (xs : List PyVal) :
    dumpV std false cV1 (.seq .deque xs) = (dumpList std false cV1 xs).map DVal.list := by
  rw [dumpV]
  simp only [hookFor_deque, bind, Except.bind, pure, Except.pure, Except.map]

theorem dumpV_tuple (std : Std) (xs : List PyVal) :
    dumpV std false cV1 (.tuple xs) = (dumpList std false cV1 xs).map DVal.tuple := by
  rw [dumpV]
  simp only [hookFor_tuple, bind, Except.bind, pure, Except.pure, Except.map]

theorem rt_deque (std : Std) (t : Ty) (xs : List PyVal) (ih : ∀ x ∈ xs, RT1 std t x) : RT1 std (.seq .deque t) (.seq .deque xs) := by
  intro d h
  rw [dumpV_deque] at h
  cases hd : dumpList std false cV1 xs with
  | error e => simp [hd, Except.map] at h
  | ok ds =>
    simp [hd, Except.map] at h; subst h
    have htj : toJ (.list ds) = .list (toJList ds) := by rw [toJ]
    rw [htj, loadV1]
    simp only [jIter, bind, Except.bind, mapME_list std t xs ds ih hd, mkSeq, pure, Except.pure, Except.mapError]

theorem rt_vtuple (std : Std) (t : Ty) (xs : List PyVal) (ih : ∀ x ∈ xs, RT1 std t x) : RT1 std (.vtuple t) (.tuple xs) := by
  intro d h
  rw [dumpV_tuple] at h
  cases hd : dumpList std false cV1 xs with
  | error e => simp [hd, Except.map] at h
  | ok ds =>
    simp [hd, Except.map] at h; subst h
    have htj : toJ (.tuple ds) = .list (toJList ds) := by rw [toJ]
    rw [htj, loadV1]
    simp only [jIter, bind, Except.bind, mapME_list std t xs ds ih hd, pure, Except.pure]

def pairLoader (std : Std) (t : Ty) (kv : S × JVal) : Except LErr (PyVal × PyVal) := do
  let k' ← loadV1 std cV1 .str (.str kv.1)
  let v' ← loadV1 std cV1 t kv.2
  pure (k', v')

theorem pairLoader_eq (std : Std) (t : Ty) (k : S) (j : JVal) (v : PyVal) (h : loadV1 std cV1 t j = .ok v) :
    pairLoader std t (k, j) = .ok (.str k, v) := by
  simp [pairLoader, loadV1, v1Str, asStr, h, bind, Except.bind, pure, Except.pure]

theorem mapME_pairs (std : Std) (t : Ty) : ∀ (kvs : List (S × PyVal)) (ps : List (DVal × DVal)),
    (∀ p ∈ kvs, RT1 std t p.2) → dumpPairs std false cV1 (kvs.map pyPair) = .ok ps →
    mapME (pairLoader std t) (toJPairs ps) = .ok (kvs.map pyPair)
  | [], ps, _, h => by
    simp only [List.map_nil, dumpPairs, pure, Except.pure, Except.ok.injEq] at h; subst h; rfl
  | (k, v) :: r, ps, ih, h => by
    simp only [List.map_cons, pyPair, dumpPairs, bind, Except.bind, dump_str] at h
    split at h
    · simp at h
    · next v' hv =>
      split at h
      · simp at h
      · next r' hr =>
        simp only [pure, Except.pure, Except.ok.injEq] at h; subst h
        have h1 := pairLoader_eq std t k (toJ v') v (ih (k, v) (by simp) v' hv)
        have h2 := mapME_pairs std t r r' (fun z hz => ih z (by simp [hz])) hr
        simp only [toJPairs, keyStr, mapME, h1, h2, bind, Except.bind, pure, Except.pure, List.map_cons, pyPair]

theorem rt_dict (std : Std) (t : Ty) (kvs : List (S × PyVal)) (hnd : (kvs.map (·.1)).Nodup)
    (ih : ∀ p ∈ kvs, RT1 std t p.2) : RT1 std (.map .dict .str t) (.map .dict (kvs.map pyPair)) := by
  intro d h
  rw [dumpV_dict] at h
  cases hd : dumpPairs std false cV1 (kvs.map pyPair) with
  | error e => simp [hd, Except.map] at h
  | ok ps =>
    simp [hd, Except.map] at h; subst h
    have hm := mapME_pairs std t kvs ps ih hd
    have hall : (kvs.map pyPair).all (fun p => p.1.hashable) = true := by
      simp [List.all_eq_true, PyVal.hashable]
    have hfold := foldl_dictInsert kvs [] (by simpa using hnd)
    have htj : toJ (.dict false ps) = .dict (toJPairs ps) := by rw [toJ]
    rw [htj, loadV1]
    show (do let ps ← mapME (pairLoader std t) (toJPairs ps); (mkMap .dict ps).mapError v1Wrap) = _
    simp only [hm, bind, Except.bind, mkMap, hall, if_true, pure, Except.pure, Except.mapError]
    simp only [List.map_nil, List.nil_append] at hfold
    rw [hfold]


/-! ### dataclasses -/

/-- the key a field is dumped under and looked up under -/
def ckey (n : S) : S := (toCamel n).getD n

/-! ### further kinds: bytes / bytearray, set / frozenset, fixed tuples, defaultdict / OrderedDict, Literal, NamedTuple -/

theorem dump_bytes (std : Std) (m : Bool) (b : List Nat) : dumpV std false cV1 (.bytes m b) = .ok (.str (std.b64encode b)) := by
  simp [dumpV, dumpScalar, pure, Except.pure]

theorem rt_bytes (std : Std) (laws : StdLaws std) (b : List Nat) : RT1 std .bytes (.bytes false b) := by
  intro d h; rw [dump_bytes] at h; cases h
  have htj : toJ (.str (std.b64encode b)) = .str (std.b64encode b) := by rw [toJ]
  rw [htj, loadV1]
  simp [v1Bytes, laws.b64_rt b, pure, Except.pure]

theorem rt_bytearray (std : Std) (laws : StdLaws std) (b : List Nat) : RT1 std .bytearray (.bytes true b) := by
  intro d h; rw [dump_bytes] at h; cases h
  have htj : toJ (.str (std.b64encode b)) = .str (std.b64encode b) := by rw [toJ]
  rw [htj, loadV1]
  simp [v1Bytes, laws.b64_rt b, pure, Except.pure]

theorem rt_set (std : Std) (t : Ty) (xs : List PyVal) (hh : xs.all PyVal.hashable = true)
    (hd' : dedupKeep xs = xs) (ih : ∀ x ∈ xs, RT1 std t x) : RT1 std (.seq .set t) (.seq .set xs) := by
  intro d h
  rw [dumpV_set] at h
  cases hd : dumpList std false cV1 xs with
  | error e => simp [hd, Except.map] at h
  | ok ds =>
    simp [hd, Except.map] at h; subst h
    have htj : toJ (.list ds) = .list (toJList ds) := by rw [toJ]
    rw [htj, loadV1]
    simp only [jIter, bind, Except.bind, mapME_list std t xs ds ih hd, mkSeq, hh, if_true, hd', pure, Except.pure, Except.mapError]

theorem rt_frozenset (std : Std) (t : Ty) (xs : List PyVal) (hh : xs.all PyVal.hashable = true)
    (hd' : dedupKeep xs = xs) (ih : ∀ x ∈ xs, RT1 std t x) : RT1 std (.seq .frozenset t) (.seq .frozenset xs) := by
  intro d h
  rw [dumpV_frozenset] at h
  cases hd : dumpList std false cV1 xs with
  | error e => simp [hd, Except.map] at h
  | ok ds =>
    simp [hd, Except.map] at h; subst h
    have htj : toJ (.list ds) = .list (toJList ds) := by rw [toJ]
    rw [htj, loadV1]
    simp only [jIter, bind, Except.bind, mapME_list std t xs ds ih hd, mkSeq, hh, if_true, hd', pure, Except.pure, Except.mapError]

/-- the generated element expressions `e_k(v1[k])` of a fixed-length tuple, from position `pre.length` on -/
theorem v1Tuple_ok (std : Std) : ∀ (ts : List Ty) (xs : List PyVal) (ds : List DVal) (pre : List JVal), xs.length = ts.length →
    (∀ p ∈ ts.zip xs, RT1 std p.1 p.2) → dumpList std false cV1 xs = .ok ds →
    v1Tuple std cV1 ts pre.length (.list (pre ++ toJList ds)) = .ok xs
  | [], xs, ds, pre, hl, _, h => by
    have : xs = [] := by simpa using hl
    subst this
    simp only [dumpList, pure, Except.pure, Except.ok.injEq] at h; subst h; rfl
  | t :: ts, [], ds, pre, hl, _, _ => by simp at hl
  | t :: ts, x :: xs, ds, pre, hl, ih, h => by
    simp only [dumpList, bind, Except.bind] at h
    split at h
    · simp at h
    · next y hy =>
      split at h
      · simp at h
      · next ys hys =>
        simp only [pure, Except.pure, Except.ok.injEq] at h; subst h
        have h1 := ih (t, x) (by simp) y hy
        have h2 := v1Tuple_ok std ts xs ys (pre ++ [toJ y]) (by simpa using hl) (fun p hp => ih p (by simp [hp])) hys
        simp only at h1
        have hidx : jIndex (.list (pre ++ toJList (y :: ys))) pre.length = some (toJ y) := by
          simp [jIndex, toJList]
        have happ : pre ++ toJList (y :: ys) = (pre ++ [toJ y]) ++ toJList ys := by simp [toJList]
        rw [v1Tuple, hidx]
        simp only [h1, bind, Except.bind]
        rw [happ]
        have hlen : (pre ++ [toJ y]).length = pre.length + 1 := by simp
        rw [hlen] at h2
        simp only [h2, pure, Except.pure]

theorem rt_tuple (std : Std) (ts : List Ty) (xs : List PyVal) (hne : ts ≠ []) (hl : xs.length = ts.length)
    (ih : ∀ p ∈ ts.zip xs, RT1 std p.1 p.2) : RT1 std (.tuple ts) (.tuple xs) := by
  intro d h
  rw [dumpV_tuple] at h
  cases hd : dumpList std false cV1 xs with
  | error e => simp [hd, Except.map] at h
  | ok ds =>
    simp [hd, Except.map] at h; subst h
    have htj : toJ (.tuple ds) = .list (toJList ds) := by rw [toJ]
    have hemp : ts.isEmpty = false := by cases ts <;> simp_all
    have h0 := v1Tuple_ok std ts xs ds [] hl ih hd
    simp only [List.length_nil, List.nil_append] at h0
    rw [htj, loadV1]
    simp only [hemp, Bool.false_eq_true, if_false, h0, bind, Except.bind, pure, Except.pure]

theorem rt_mapk (std : Std) (k : MapKind) (ord : Bool) (t : Ty) (kvs : List (S × PyVal))
    (hdump : ∀ kvs', dumpV std false cV1 (.map k kvs') = (dumpPairs std false cV1 kvs').map (DVal.dict ord))
    (hnd : (kvs.map (·.1)).Nodup)
    (ih : ∀ p ∈ kvs, RT1 std t p.2) : RT1 std (.map k .str t) (.map k (kvs.map pyPair)) := by
  intro d h
  rw [hdump] at h
  cases hd : dumpPairs std false cV1 (kvs.map pyPair) with
  | error e => simp [hd, Except.map] at h
  | ok ps =>
    simp [hd, Except.map] at h; subst h
    have hm := mapME_pairs std t kvs ps ih hd
    have hall : (kvs.map pyPair).all (fun p => p.1.hashable) = true := by
      simp [List.all_eq_true, PyVal.hashable]
    have hfold := foldl_dictInsert kvs [] (by simpa using hnd)
    have htj : toJ (.dict ord ps) = .dict (toJPairs ps) := by rw [toJ]
    rw [htj, loadV1]
    show (do let ps ← mapME (pairLoader std t) (toJPairs ps); (mkMap k ps).mapError v1Wrap) = _
    simp only [hm, bind, Except.bind, mkMap, hall, if_true, pure, Except.pure, Except.mapError]
    simp only [List.map_nil, List.nil_append] at hfold
    rw [hfold]

theorem litJ_toPy (l : Lit) : l.toJ.toPy = l.toPy := by
  cases l <;> rfl

theorem rt_literal (std : Std) (vs : List Lit) (l : Lit) (hm : l ∈ vs) (hr : jEqLit l.toJ l = true) :
    RT1 std (.literal vs) l.toPy := by
  intro d h
  rw [dump_lit] at h; cases h
  rw [toJ_litToD, loadV1]
  unfold v1Literal
  have hst : jSameType l.toJ l = true := by cases l <;> rfl
  have hany : vs.any (fun l' => jEqLit l.toJ l' && jSameType l.toJ l') = true :=
    List.any_eq_true.2 ⟨l, hm, by rw [hr, hst]; rfl⟩
  simp only [lit_hashable, Bool.not_true, Bool.false_eq_true, if_false, hany, if_true, litJ_toPy, pure, Except.pure]

/-- the positional field expressions of a NamedTuple, from position `pre.length` on -/
theorem v1NtSeq_ok (std : Std) (name : S) : ∀ (fields : List (S × Ty × Option Dflt)) (xs : List PyVal) (ds : List DVal) (pre : List JVal),
    xs.length = fields.length → (∀ p ∈ (fields.map (·.2.1)).zip xs, RT1 std p.1 p.2) → dumpList std false cV1 xs = .ok ds →
    v1NtSeq std cV1 name fields pre.length (pre.length + ds.length) (.list (pre ++ toJList ds)) = .ok xs
  | [], xs, ds, pre, hl, _, h => by
    have : xs = [] := by simpa using hl
    subst this
    simp only [dumpList, pure, Except.pure, Except.ok.injEq] at h; subst h; rfl
  | f :: fs, [], ds, pre, hl, _, _ => by simp at hl
  | (n, t, dd) :: fs, x :: xs, ds, pre, hl, ih, h => by
    simp only [dumpList, bind, Except.bind] at h
    split at h
    · simp at h
    · next y hy =>
      split at h
      · simp at h
      · next ys hys =>
        simp only [pure, Except.pure, Except.ok.injEq] at h; subst h
        have h1 := ih (t, x) (by simp) y hy
        have h2 := v1NtSeq_ok std name fs xs ys (pre ++ [toJ y]) (by simpa using hl) (fun p hp => ih p (by simp [hp])) hys
        simp only at h1
        have hidx : jIndex (.list (pre ++ toJList (y :: ys))) pre.length = some (toJ y) := by
          simp [jIndex, toJList]
        have happ : pre ++ toJList (y :: ys) = (pre ++ [toJ y]) ++ toJList ys := by simp [toJList]
        have hlt : pre.length < pre.length + (y :: ys).length := by simp
        rw [v1NtSeq, if_pos hlt, hidx]
        simp only [h1, bind, Except.bind]
        rw [happ]
        have hlen : (pre ++ [toJ y]).length = pre.length + 1 := by simp
        have hn : pre.length + (y :: ys).length = pre.length + 1 + ys.length := by simp; omega
        rw [hlen] at h2
        rw [hn]
        simp only [h2, pure, Except.pure]

theorem rt_ntuple (std : Std) (name : S) (fields : List (S × Ty × Option Dflt)) (xs : List PyVal)
    (hl : xs.length = fields.length) (ih : ∀ p ∈ (fields.map (·.2.1)).zip xs, RT1 std p.1 p.2) :
    RT1 std (.ntuple name fields) (.ntuple name (fields.map (·.1)) xs) := by
  intro d h
  rw [dumpV_ntuple] at h
  cases hd : dumpList std false cV1 xs with
  | error e => simp [hd, Except.map] at h
  | ok ds =>
    simp [hd, Except.map] at h; subst h
    have htj : toJ (.ntuple name ds) = .list (toJList ds) := by rw [toJ]
    have h0 := v1NtSeq_ok std name fields xs ds [] hl ih hd
    simp only [List.length_nil, List.nil_append, Nat.zero_add] at h0
    rw [htj, loadV1]
    · simp only [jLen, toJList_length, h0, bind, Except.bind, hl, List.drop_length, List.filterMap_nil, List.append_nil,
        pure, Except.pure]
    · intro kvs hk; cases hk

theorem dump_nonnull (std : Std) (t : Ty) (v : PyVal) (hc : Conf std t v) (hn : nonNullTy t = true) (d : DVal)
    (h : dumpV std false cV1 v = .ok d) : toJ d ≠ .null := by
  cases hc with
  | int i => rw [dump_int] at h; cases h; simp [toJ]
  | float f => rw [dump_float] at h; cases h; simp [toJ]
  | leaf k t _ => rw [dump_leaf] at h; cases h; simp [toJ]
  | timedelta us _ => rw [dump_timedelta] at h; cases h; simp [toJ]
  | enum name members m v _ _ _ => simp [nonNullTy] at hn
  | str s => rw [dump_str] at h; cases h; simp [toJ]
  | bool b => rw [dump_bool] at h; cases h; simp [toJ]
  | optNone t => simp [nonNullTy] at hn
  | optSome t v _ _ => simp [nonNullTy] at hn
  | list t xs _ =>
    rw [dumpV_list] at h
    cases hd : dumpList std false cV1 xs <;> simp [hd, Except.map] at h
    subst h; simp [toJ]
  | deque t xs _ =>
    rw [dumpV_deque] at h
    cases hd : dumpList std false cV1 xs <;> simp [hd, Except.map] at h
    subst h; simp [toJ]
  | vtuple t xs _ =>
    rw [dumpV_tuple] at h
    cases hd : dumpList std false cV1 xs <;> simp [hd, Except.map] at h
    subst h; simp [toJ]
  | dict t kvs _ _ =>
    rw [dumpV_dict] at h
    cases hd : dumpPairs std false cV1 (kvs.map (fun p => (PyVal.str p.1, p.2))) <;> simp [hd, Except.map] at h
    subst h; simp [toJ]
  | inst ci ftys vals _ _ _ =>
    rw [dumpV] at h
    simp only [bind, Except.bind] at h
    split at h
    · simp at h
    · simp only [pure, Except.pure, Except.ok.injEq] at h
      subst h
      unfold finishInst
      split <;> simp [toJ]
  | bytes b => simp [nonNullTy] at hn
  | bytearray b => simp [nonNullTy] at hn
  | set t xs _ _ _ =>
    rw [dumpV_set] at h
    cases hd : dumpList std false cV1 xs <;> simp [hd, Except.map] at h
    subst h; simp [toJ]
  | frozenset t xs _ _ _ =>
    rw [dumpV_frozenset] at h
    cases hd : dumpList std false cV1 xs <;> simp [hd, Except.map] at h
    subst h; simp [toJ]
  | tuple ts xs _ _ _ =>
    rw [dumpV_tuple] at h
    cases hd : dumpList std false cV1 xs <;> simp [hd, Except.map] at h
    subst h; simp [toJ]
  | defaultdict t kvs _ _ =>
    rw [dumpV_defaultdict] at h
    cases hd : dumpPairs std false cV1 (kvs.map (fun p => (PyVal.str p.1, p.2))) <;> simp [hd, Except.map] at h
    subst h; simp [toJ]
  | ordereddict t kvs _ _ =>
    rw [dumpV_ordereddict] at h
    cases hd : dumpPairs std false cV1 (kvs.map (fun p => (PyVal.str p.1, p.2))) <;> simp [hd, Except.map] at h
    subst h; simp [toJ]
  | literal vs l _ _ => simp [nonNullTy] at hn
  | ntuple name fields xs _ _ =>
    rw [dumpV_ntuple] at h
    cases hd : dumpList std false cV1 xs <;> simp [hd, Except.map] at h
    subst h; simp [toJ]

theorem rt_optSome (std : Std) (t : Ty) (v : PyVal) (hn : nonNullTy t = true) (hc : Conf std t v) (ih : RT1 std t v) :
    RT1 std (.optional t) v := by
  intro d h
  rw [loadV1_optional_nonnull std t (toJ d) (dump_nonnull std t v hc hn d h)]
  exact ih d h

theorem fieldSkipped_plain (f : FieldInfo) (v : PyVal) (h1 : f.dumpSkip = false) (h2 : f.skipIf = none) :
    fieldSkipped mV1 {} f v = .ok false := by
  simp [fieldSkipped, excluded, skipDefaultsOn, ownCond, mV1, h1, h2, bind, Except.bind, pure, Except.pure]

/-- the dump of the fields of a plain class: one entry per field, under its camelCase key -/
theorem dumpFields_shape (std : Std) (ci : ClassInfo) (ftys : List (S × Ty)) (hp : PlainCls ci ftys) :
    ∀ (l : List ((S × Ty) × PyVal)) (body : List (DVal × DVal)), (∀ e ∈ l, ∃ f ∈ ci.fields, f.name = e.1.1) →
      dumpFields std false cV1 mV1 {} ci (l.map nv) = .ok body →
      ∃ ds : List DVal, ds.length = l.length ∧ body = (l.zip ds).map (fun p => (DVal.str (ckey p.1.1.1), p.2)) ∧
        ∀ p ∈ l.zip ds, dumpV std false cV1 p.1.2 = .ok p.2
  | [], body, _, h => by
    simp only [List.map_nil, dumpFields, pure, Except.pure, Except.ok.injEq] at h; subst h
    exact ⟨[], rfl, rfl, by simp⟩
  | e :: r, body, hg, h => by
    obtain ⟨f, hf, hname⟩ := hg e (by simp)
    have hpl := hp.plain f hf
    obtain ⟨k, hk⟩ := hp.camel f hf
    have hfind : ci.fields.find? (fun g => g.name == e.1.1) = some f := by
      have := find_unique (fun g : FieldInfo => g.name) ci.fields f hp.nodup hf
      simpa [hname] using this
    rw [List.map_cons, show nv e = (e.1.1, e.2) from rfl,
      dumpFields_cons_plain std false cV1 mV1 {} ci e.1.1 e.2 (r.map nv) (by simp [hfind, hpl.2.1])] at h
    simp only [hfind, Option.getD_some, fieldSkipped_plain f e.2 hpl.2.2.1 hpl.2.2.2.1, bind, Except.bind,
      Bool.false_eq_true, if_false] at h
    have hkey : dumpKey mV1 f = .ok (ckey e.1.1) := by
      simp [dumpKey, hpl.2.2.2.2.1, mV1, LetterCaseOpt.toLC, LetterCase.apply, hk, ckey, ← hname]
    rw [hkey] at h
    simp only at h
    split at h
    · simp at h
    · next d hd =>
      simp only [pure, Except.pure] at h
      split at h
      · simp at h
      · next more hmore =>
        simp only [Except.ok.injEq] at h; subst h
        obtain ⟨ds, hlen, hbody, hall⟩ := dumpFields_shape std ci ftys hp r more (fun x hx => hg x (by simp [hx])) hmore
        refine ⟨d :: ds, by simp [hlen], by simp [hbody], ?_⟩
        intro p hp'
        simp only [List.zip_cons_cons, List.mem_cons] at hp'
        rcases hp' with rfl | hp'
        · exact hd
        · exact hall p hp'


theorem v1Field_lookup (std : Std) (j : JVal) : ∀ (ftys : List (S × Ty)) (n : S) (t : Ty), (ftys.map (·.1)).Nodup →
    (n, t) ∈ ftys → v1Field std cV1 n j ftys = loadV1 std cV1 t j
  | [], _, _, _, h => by simp at h
  | (m, u) :: r, n, t, hnd, h => by
    simp only [List.map_cons, List.nodup_cons] at hnd
    rw [v1Field]
    by_cases hm : m = n
    · subst hm
      have : u = t := by
        rcases List.mem_cons.1 h with h | h
        · exact (Prod.mk.inj h).2.symm
        · exact absurd (List.mem_map.2 ⟨(m, t), h, rfl⟩) hnd.1
      subst this; simp
    · have ht : (n, t) ∈ r := by
        rcases List.mem_cons.1 h with h | h
        · exact absurd (Prod.mk.inj h).1.symm hm
        · exact h
      have hb : (m == n) = false := by simpa using hm
      simp only [hb, Bool.false_eq_true, if_false]
      exact v1Field_lookup std j r n t hnd.2 ht

/-- the field loop of the generated v1 function finds every field of a plain class in the dumped document -/
theorem v1Fields_ok (std : Std) (ci : ClassInfo) (ftys : List (S × Ty)) (kvs : List (S × JVal))
    (hnd : (kvs.map (·.1)).Nodup) :
    ∀ (l : List ((S × Ty) × PyVal)) (F : List FieldInfo), F.map (·.name) = l.map (·.1.1) →
      (∀ f ∈ F, f.init = true ∧ f.isCatchAll = false ∧ f.loadKeys = []) →
      (∀ e ∈ l, ∃ j, (ckey e.1.1, j) ∈ kvs ∧ v1Field std cV1 e.1.1 j ftys = .ok e.2) →
      v1Fields (fun f v => v1Field std cV1 f v ftys) mV1 ci kvs F = .ok (l.map nv, l.length)
  | [], F, hn, _, _ => by
    have : F = [] := by simpa using hn
    subst this; rfl
  | e :: l, F, hn, hpl, hg => by
    cases F with
    | nil => simp at hn
    | cons fi F' =>
      simp only [List.map_cons, List.cons.injEq] at hn
      obtain ⟨j, hmem, hload⟩ := hg e (by simp)
      have hp := hpl fi (by simp)
      have hfind : kvs.find? (fun kv => kv.1 == ckey e.1.1) = some (ckey e.1.1, j) := by
        have := find_unique (fun kv : S × JVal => kv.1) kvs (ckey e.1.1, j) hnd hmem
        simpa using this
      have hkeys : v1Keys mV1 fi = [ckey e.1.1] := by
        simp [v1Keys, hp.2.2, mV1, ckey, hn.1]
      have ih := v1Fields_ok std ci ftys kvs hnd l F' hn.2 (fun g hg' => hpl g (by simp [hg'])) (fun x hx => hg x (by simp [hx]))
      rw [v1Fields]
      simp only [hp.1, hp.2.1, Bool.not_true, Bool.or_false, Bool.false_eq_true, if_false, hkeys, lookupFirst, hfind]
      simp only [hn.1, hload, Except.mapError, bind, Except.bind, ih, pure, Except.pure, List.map_cons, List.length_cons, nv]

theorem finishKw_ok (ci : ClassInfo) (ftys : List (S × Ty)) (hp : PlainCls ci ftys) (K : List (S × PyVal))
    (hK : K.map (·.1) = ci.fields.map (·.name)) : finishKw ci K = .ok (.inst ci K) := by
  have hmiss : missingInit ci (K.map (·.1)) = [] := by
    unfold missingInit
    rw [List.filter_eq_nil_iff]
    intro f hf
    have : (K.map (·.1)).contains f.name = true := by
      rw [hK]; simp; exact ⟨f, hf, rfl⟩
    simp only [this, Bool.not_true, Bool.and_false]
    simp
  have hb := buildFields_ok K [] ci.fields hK.symm (by simpa [hK] using hp.nodup) (fun f hf => (hp.plain f hf).1)
  simp only [List.nil_append] at hb
  simp [finishKw, hmiss, hb, bind, Except.bind, pure, Except.pure]

theorem v1Finish_ok (ci : ClassInfo) (ftys : List (S × Ty)) (hp : PlainCls ci ftys) (kvs : List (S × JVal))
    (K : List (S × PyVal)) (n : Nat) (hK : K.map (·.1) = ci.fields.map (·.name)) :
    v1Finish mV1 ci kvs K n = .ok (.inst ci K) := by
  have hca : ci.fields.find? (·.isCatchAll) = none := by
    rw [List.find?_eq_none]; intro f hf; simp [(hp.plain f hf).2.1]
  have hraise : (mV1.v1OnUnknown == some KeyAct.raise) = false := by decide
  simp only [v1Finish, hraise, Bool.and_false, Bool.false_and, Bool.false_eq_true, if_false, v1WithCatchAll, hca]
  exact finishKw_ok ci ftys hp K hK


theorem exists_zip {α β : Type} : ∀ (l : List α) (ds : List β), ds.length = l.length → ∀ e ∈ l, ∃ d, (e, d) ∈ l.zip ds
  | [], _, _, e, h => by simp at h
  | x :: l, [], hlen, _, _ => by simp at hlen
  | x :: l, d :: ds, hlen, e, h => by
    rcases List.mem_cons.1 h with rfl | h
    · exact ⟨d, by simp⟩
    · obtain ⟨d', hd'⟩ := exists_zip l ds (by simpa using hlen) e h
      exact ⟨d', by simp [hd']⟩

theorem toJPairs_map {α : Type} (key : α → S) (val : α → DVal) (l : List α) :
    toJPairs (l.map (fun p => (DVal.str (key p), val p))) = l.map (fun p => (key p, toJ (val p))) := by
  induction l with
  | nil => rfl
  | cons x r ih => simp [toJPairs, keyStr, ih]

theorem rt_inst (std : Std) (ci : ClassInfo) (ftys : List (S × Ty)) (vals : List PyVal) (hp : PlainCls ci ftys)
    (hlen : vals.length = ftys.length) (ih : ∀ p ∈ ftys.zip vals, RT1 std p.1.2 p.2) :
    RT1 std (.cls ci ftys) (.inst ci ((ftys.map (·.1)).zip vals)) := by
  intro d h
  have hnames : (ftys.map (·.1)).Nodup := by rw [← hp.names]; exact hp.nodup
  have hl : (ftys.zip vals).map nv = (ftys.map (·.1)).zip vals := by
    rw [List.zip_map_left]; rfl
  have hl1 : (ftys.zip vals).map (·.1.1) = ftys.map (·.1) := by
    have : (ftys.zip vals).map (·.1) = ftys := by rw [List.map_fst_zip]; omega
    calc (ftys.zip vals).map (·.1.1) = ((ftys.zip vals).map (·.1)).map (·.1) := by simp
      _ = ftys.map (·.1) := by rw [this]
  have hfield : ∀ e ∈ ftys.zip vals, ∃ f ∈ ci.fields, f.name = e.1.1 := by
    intro e he
    have hmem : e.1 ∈ ftys := (List.of_mem_zip he).1
    have : e.1.1 ∈ ci.fields.map (·.name) := by rw [hp.names]; exact List.mem_map.2 ⟨e.1, hmem, rfl⟩
    obtain ⟨f, hf, hfn⟩ := List.mem_map.1 this
    exact ⟨f, hf, hfn⟩
  rw [dumpV] at h
  simp only [eff_of ci.cmeta hp.cmetaOk, bind, Except.bind] at h
  split at h
  · simp at h
  · next body hb =>
    simp only [pure, Except.pure, Except.ok.injEq] at h; subst h
    have hb' : dumpFields std false cV1 mV1 {} ci ((ftys.zip vals).map nv) = .ok body := by
      rw [hl]; simpa [mV1] using hb
    obtain ⟨ds, hdlen, hbody, hall⟩ := dumpFields_shape std ci ftys hp (ftys.zip vals) body hfield hb'
    -- the document
    have hkvs : toJPairs body = ((ftys.zip vals).zip ds).map (fun p => (ckey p.1.1.1, toJ p.2)) := by
      rw [hbody]; exact toJPairs_map (fun p : ((S × Ty) × PyVal) × DVal => ckey p.1.1.1) (fun p => p.2) _
    have hkeys : (toJPairs body).map (·.1) = (ci.fields.map (fun f => (toCamel f.name).getD f.name)) := by
      rw [hkvs, List.map_map]
      have h1 : (((ftys.zip vals).zip ds).map (fun p => p.1)) = ftys.zip vals := by rw [List.map_fst_zip]; omega
      calc ((ftys.zip vals).zip ds).map ((fun kv : S × JVal => kv.1) ∘ fun p => (ckey p.1.1.1, toJ p.2))
          = (((ftys.zip vals).zip ds).map (fun p => p.1)).map (fun e => ckey e.1.1) := by simp [Function.comp_def]
        _ = (ftys.zip vals).map (fun e => ckey e.1.1) := by rw [h1]
        _ = ((ftys.zip vals).map (·.1.1)).map ckey := by simp
        _ = (ftys.map (·.1)).map ckey := by rw [hl1]
        _ = ci.fields.map (fun f => (toCamel f.name).getD f.name) := by rw [← hp.names]; simp [ckey, Function.comp_def]
    have hnd : ((toJPairs body).map (·.1)).Nodup := by rw [hkeys]; exact hp.keysNodup
    have hentries : ∀ e ∈ ftys.zip vals, ∃ j, (ckey e.1.1, j) ∈ toJPairs body ∧ v1Field std cV1 e.1.1 j ftys = .ok e.2 := by
      intro e he
      obtain ⟨dv, hdv⟩ := exists_zip (ftys.zip vals) ds hdlen e he
      refine ⟨toJ dv, ?_, ?_⟩
      · rw [hkvs]; exact List.mem_map.2 ⟨(e, dv), hdv, rfl⟩
      · rw [v1Field_lookup std (toJ dv) ftys e.1.1 e.1.2 hnames (List.of_mem_zip he).1]
        exact ih e he dv (hall (e, dv) hdv)
    have hF := v1Fields_ok std ci ftys (toJPairs body) hnd (ftys.zip vals) ci.fields (by rw [hl1, hp.names])
      (fun f hf => ⟨(hp.plain f hf).1, (hp.plain f hf).2.1, (hp.plain f hf).2.2.2.2.2⟩) hentries
    have hK : ((ftys.zip vals).map nv).map (·.1) = ci.fields.map (·.name) := by
      rw [hl, hp.names, List.map_fst_zip]; simp; omega
    have hfin := v1Finish_ok ci ftys hp (toJPairs body) ((ftys.zip vals).map nv) (ftys.zip vals).length hK
    have htj : toJ (finishInst mV1 body) = .dict (toJPairs body) := by
      simp [finishInst, mV1]; rw [toJ]
    rw [htj, loadV1]
    simp only [eff_of ci.cmeta hp.cmetaOk, v1ClassWith, hF, bind, Except.bind, hfin]
    rw [hl]

/-- **structural round trip, v1 engine** -/
theorem roundtrip (std : Std) (laws : StdLaws std) (t : Ty) (v : PyVal) (hc : Conf std t v) : RT1 std t v := by
  induction hc with
  | int i => exact rt_int std i
  | float f => exact rt_float std f
  | leaf k t ht => exact rt_leaf std laws k t ht
  | timedelta us h0 => exact rt_timedelta std laws us h0
  | enum name members m v hm hr hu => exact rt_enum std name members m v hm hr hu
  | str s => exact rt_str std s
  | bool b => exact rt_bool std b
  | optNone t => exact rt_optNone std t
  | optSome t v hn hc ih => exact rt_optSome std t v hn hc ih
  | list t xs _ ih => exact rt_list std t xs ih
  | deque t xs _ ih => exact rt_deque std t xs ih
  | vtuple t xs _ ih => exact rt_vtuple std t xs ih
  | dict t kvs hnd _ ih => exact rt_dict std t kvs hnd ih
  | inst ci ftys vals hp hlen _ ih => exact rt_inst std ci ftys vals hp hlen ih
  | bytes b => exact rt_bytes std laws b
  | bytearray b => exact rt_bytearray std laws b
  | set t xs hh hd _ ih => exact rt_set std t xs hh hd ih
  | frozenset t xs hh hd _ ih => exact rt_frozenset std t xs hh hd ih
  | tuple ts xs hne hl _ ih => exact rt_tuple std ts xs hne hl ih
  | defaultdict t kvs hnd _ ih => exact rt_mapk std .defaultdict false t kvs (dumpV_defaultdict std cV1) hnd ih
  | ordereddict t kvs hnd _ ih => exact rt_mapk std .ordereddict true t kvs (dumpV_ordereddict std cV1) hnd ih
  | literal vs l hm hr => exact rt_literal std vs l hm hr
  | ntuple name fields xs hl _ ih => exact rt_ntuple std name fields xs hl ih


/-- at the top level: `fromdict(cls, json(asdict(x))) = x` for a main class that declares the v1 Meta -/
theorem roundtrip_root (std : Std) (laws : StdLaws std) (ci : ClassInfo) (ftys : List (S × Ty)) (v : PyVal)
    (hm : ci.cmeta = some mV1) (hc : Conf std (.cls ci ftys) v) (d : DVal) (h : asdict std {} v = .ok d) :
    fromdictV1 std (.cls ci ftys) (toJ d) = .ok v := by
  cases hc with
  | inst _ _ vals hp hlen hall =>
    have hrt := roundtrip std laws (.cls ci ftys) _ (Conf.inst ci ftys vals hp hlen hall) d (by
      rw [dumpV]
      simp only [eff_of ci.cmeta hp.cmetaOk]
      simpa [asdict, hm, eff_root, root_cfg] using h)
    rw [loadV1] at hrt
    simp only [fromdictV1, hm, root_cfg, eff_root]
    simp only [eff_of ci.cmeta hp.cmetaOk] at hrt
    exact hrt

def exInner : ClassInfo := { name := "Inner".toList, fields := [{ name := "val_one".toList }, { name := "tags".toList }] }
def exInnerTys : List (S × Ty) := [("val_one".toList, .int), ("tags".toList, .seq .list .str)]
def exRoot : ClassInfo :=
  { name := "Root".toList, cmeta := some mV1,
    fields := [{ name := "inner_obj".toList }, { name := "by_name".toList }, { name := "when_at".toList }] }
def exRootTys : List (S × Ty) :=
  [("inner_obj".toList, .cls exInner exInnerTys), ("by_name".toList, .map .dict .str (.cls exInner exInnerTys)),
   ("when_at".toList, .optional (.leaf .datetime))]

theorem exInner_plain : PlainCls exInner exInnerTys := by
  refine ⟨Or.inl rfl, rfl, by decide, by decide, ?_, by decide⟩
  intro f hf
  simp only [exInner, List.mem_cons, List.not_mem_nil, or_false] at hf
  rcases hf with rfl | rfl
  · exact ⟨"valOne".toList, by decide⟩
  · exact ⟨"tags".toList, by decide⟩

theorem exRoot_plain : PlainCls exRoot exRootTys := by
  refine ⟨Or.inr rfl, rfl, by decide, by decide, ?_, by decide⟩
  intro f hf
  simp only [exRoot, List.mem_cons, List.not_mem_nil, or_false] at hf
  rcases hf with rfl | rfl | rfl
  · exact ⟨"innerObj".toList, by decide⟩
  · exact ⟨"byName".toList, by decide⟩
  · exact ⟨"whenAt".toList, by decide⟩

end DW.RTV1
