/- The structural dump/load round trip of the **v1** engine (Meta `v1 = True`, `v1_key_case = 'CAMEL'`, default dump
transform) over the same fragment as `DW.RT`: the induction behind `C02_roundtrip_struct`. -/
import DW.Model.LoadV1
import DW.Lemmas.RoundTrip
import DW.Lemmas.TaggedV1

namespace DW.RTV1
open DW DW.RT DW.Str DW.Tagged

/-- the Meta of a v1 main class together with the key function on which its dump transform and its load key case agree:
what the theorem needs to know about the configuration -/
structure Setup where
  m : MetaCfg
  kf : S → S
  effNested : effMeta none (some m) = m          -- a nested class without Meta runs under the root's settings
  effSelf : effMeta (some m) (some m) = m
  rootCfg : rootConfig (some m) = some m         -- the Meta travels (recursive is not False)
  sd : m.skipDefaults.getD false = false
  sdi : m.skipDefaultsIf = none
  si : m.skipIf = none
  tag : m.tag = none
  ts : m.marshalTimestamp.getD false = false
  noRaise : (m.v1OnUnknown == some KeyAct.raise) = false

variable {su : Setup}

local notation "mV1" => Setup.m su
local notation "cV1" => (some (Setup.m su) : Option MetaCfg)

theorem eff_nested : effMeta none cV1 = mV1 := su.effNested
theorem eff_of (own : Option MetaCfg) (h : own = none ∨ own = some mV1) : effMeta own cV1 = mV1 := by
  rcases h with rfl | rfl
  · exact su.effNested
  · exact su.effSelf
theorem eff_root : effMeta (some mV1) none = mV1 := rfl
theorem root_cfg : rootConfig (some mV1) = cV1 := su.rootCfg

/-- the effective Meta of a class below the root: the root's settings plus the class's own tag (never inherited) -/
abbrev effT (su : Setup) (tg : Option S) : MetaCfg := { su.m with tag := tg }

theorem effT_none (su : Setup) : effT su none = su.m := by
  have := su.tag
  cases hm : su.m
  simp only [effT, hm] at this ⊢
  simp_all

/-- a dataclass whose only customisation of its own is a tag `tg` (none = untagged), and whose keys — the same function `kf`
of the field name on the dump side and as the first key tried on the load side — are pairwise distinct; a tagged class is
known to the Union dispatch under the tag its dumper writes, and its tag key is none of its field keys -/
structure ClsOK (su : Setup) (ci : ClassInfo) (ftys : List (S × Ty)) (tg : Option S) : Prop where
  effOk : effMeta ci.cmeta (some su.m) = effT su tg
  names : ci.fields.map (·.name) = ftys.map (·.1)
  nodup : (ci.fields.map (·.name)).Nodup
  plain : ∀ f ∈ ci.fields, f.init = true ∧ f.isCatchAll = false ∧ f.dumpSkip = false ∧ f.skipIf = none
  dkey : ∀ f ∈ ci.fields, dumpKey su.m f = .ok (su.kf f.name)
  lkey : ∀ f ∈ ci.fields, ∃ rest, v1Keys su.m f = su.kf f.name :: rest
  keysNodup : (ci.fields.map (fun f => su.kf f.name)).Nodup
  member : ∀ t, tg = some t → memberTag (some su.m) ci = some t
  tagKeyFresh : ∀ t, tg = some t → ∀ f ∈ ci.fields, su.kf f.name ≠ tagKeyOf su.m

/-- an untagged class of the fragment -/
abbrev PlainCls (su : Setup) (ci : ClassInfo) (ftys : List (S × Ty)) : Prop := ClsOK su ci ftys none

inductive Conf (su : Setup) (std : Std) : Ty → PyVal → Prop
  | int (i : Int) : Conf su std .int (.int i)
  | float (f : PyFloat) : Conf su std .float (.float f)
  | leaf (k : LeafKind) (t : S) : std.validTok k t = true → Conf su std (.leaf k) (.leaf k false t)
  | timedelta (us : Int) : 0 ≤ us → Conf su std .timedelta (.timedelta us)
  | enum (name : S) (members : List (S × Lit)) (m : S) (v : Lit) : (m, v) ∈ members → jEqLit v.toJ v = true →
      (∀ m' ∈ members, jEqLit v.toJ m'.2 = true → m' = (m, v)) → Conf su std (.enum name members) (.enum name m v)
  | str (s : S) : Conf su std .str (.str s)
  | bool (b : Bool) : Conf su std .bool (.bool b)
  | optNone (t : Ty) : Conf su std (.optional t) .none
  | optSome (t : Ty) (v : PyVal) : nonNullTy t = true → Conf su std t v → Conf su std (.optional t) v
  | list (t : Ty) (xs : List PyVal) : (∀ x ∈ xs, Conf su std t x) → Conf su std (.seq .list t) (.seq .list xs)
  | deque (t : Ty) (xs : List PyVal) : (∀ x ∈ xs, Conf su std t x) → Conf su std (.seq .deque t) (.seq .deque xs)
  | vtuple (t : Ty) (xs : List PyVal) : (∀ x ∈ xs, Conf su std t x) → Conf su std (.vtuple t) (.tuple xs)
  | dict (t : Ty) (kvs : List (S × PyVal)) : (kvs.map (·.1)).Nodup → (∀ p ∈ kvs, Conf su std t p.2) →
      Conf su std (.map .dict .str t) (.map .dict (kvs.map (fun p => (.str p.1, p.2))))
  | inst (ci : ClassInfo) (ftys : List (S × Ty)) (vals : List PyVal) (tg : Option S) : ClsOK su ci ftys tg →
      vals.length = ftys.length → (∀ p ∈ ftys.zip vals, Conf su std p.1.2 p.2) →
      Conf su std (.cls ci ftys) (.inst ci ((ftys.map (·.1)).zip vals))
  | unionTagged (pre post : List Ty) (ci : ClassInfo) (ftys : List (S × Ty)) (vals : List PyVal) (tg : S) :
      ClsOK su ci ftys (some tg) → vals.length = ftys.length → (∀ p ∈ ftys.zip vals, Conf su std p.1.2 p.2) →
      (∀ t ∈ pre, tagOf (some su.m) t ≠ some tg) → (∀ t ∈ post, tagOf (some su.m) t ≠ some tg) →
      Conf su std (.union (pre ++ .cls ci ftys :: post)) (.inst ci ((ftys.map (·.1)).zip vals))
  | unionNone (ts : List Ty) : ts.any isNoneTy = true → Conf su std (.union ts) .none
  | bytes (b : List Nat) : Conf su std .bytes (.bytes false b)
  | bytearray (b : List Nat) : Conf su std .bytearray (.bytes true b)
  | set (t : Ty) (xs : List PyVal) : xs.all PyVal.hashable = true → dedupKeep xs = xs → (∀ x ∈ xs, Conf su std t x) →
      Conf su std (.seq .set t) (.seq .set xs)
  | frozenset (t : Ty) (xs : List PyVal) : xs.all PyVal.hashable = true → dedupKeep xs = xs → (∀ x ∈ xs, Conf su std t x) →
      Conf su std (.seq .frozenset t) (.seq .frozenset xs)
  | tuple (ts : List Ty) (xs : List PyVal) : ts ≠ [] → xs.length = ts.length → (∀ p ∈ ts.zip xs, Conf su std p.1 p.2) →
      Conf su std (.tuple ts) (.tuple xs)
  | defaultdict (t : Ty) (kvs : List (S × PyVal)) : (kvs.map (·.1)).Nodup → (∀ p ∈ kvs, Conf su std t p.2) →
      Conf su std (.map .defaultdict .str t) (.map .defaultdict (kvs.map (fun p => (.str p.1, p.2))))
  | ordereddict (t : Ty) (kvs : List (S × PyVal)) : (kvs.map (·.1)).Nodup → (∀ p ∈ kvs, Conf su std t p.2) →
      Conf su std (.map .ordereddict .str t) (.map .ordereddict (kvs.map (fun p => (.str p.1, p.2))))
  | literal (vs : List Lit) (l : Lit) : l ∈ vs → jEqLit l.toJ l = true → Conf su std (.literal vs) l.toPy
  | ntuple (name : S) (fields : List (S × Ty × Option Dflt)) (xs : List PyVal) : xs.length = fields.length →
      (∀ p ∈ (fields.map (·.2.1)).zip xs, Conf su std p.1 p.2) →
      Conf su std (.ntuple name fields) (.ntuple name (fields.map (·.1)) xs)
  | typeddict (name : S) (fields : List (S × Ty × Bool)) (vals : List (Option PyVal)) :
      (fields.map (·.1)).Nodup → vals.length = fields.length →
      (∀ p ∈ fields.zip vals, p.2 = none → p.1.2.2 = false) →
      (∀ p ∈ fields.zip vals, ∀ v, p.2 = some v → Conf su std p.1.2.1 v) →
      Conf su std (.typeddict name fields) (.map .dict ((tdPresent fields vals).map (fun p => (.str p.1, p.2))))

/-- the round-trip statement for one value below the v1 root -/
def RT1 (su : Setup) (std : Std) (t : Ty) (v : PyVal) : Prop :=
  ∀ d, dumpV std false (some su.m) v = .ok d → loadV1 std (some su.m) t (toJ d) = .ok v

theorem dump_int (std : Std) (i : Int) : dumpV std false cV1 (.int i) = .ok (.int i) := by
  simp [dumpV, dumpScalar, pure, Except.pure]
theorem dump_float (std : Std) (f : PyFloat) : dumpV std false cV1 (.float f) = .ok (.float f) := by
  simp [dumpV, dumpScalar, pure, Except.pure]
theorem dump_str (std : Std) (s : S) : dumpV std false cV1 (.str s) = .ok (.str s) := by
  simp [dumpV, dumpScalar, pure, Except.pure]
theorem dump_bool (std : Std) (b : Bool) : dumpV std false cV1 (.bool b) = .ok (.bool b) := by
  simp [dumpV, dumpScalar, pure, Except.pure]
theorem dump_none (std : Std) : dumpV std false cV1 .none = .ok .null := by
  simp [dumpV, dumpScalar, pure, Except.pure]
theorem dump_leaf (std : Std) (k : LeafKind) (t : S) : dumpV std false cV1 (.leaf k false t) = .ok (.str (leafText k t)) := by
  cases k <;> simp [dumpV, dumpScalar, leafText, pure, Except.pure]

theorem rt_int (std : Std) (i : Int) : RT1 su std .int (.int i) := by
  intro d h; rw [dump_int] at h; cases h; simp [toJ, loadV1, v1Int, pure, Except.pure]
theorem rt_float (std : Std) (f : PyFloat) : RT1 su std .float (.float f) := by
  intro d h; rw [dump_float] at h; cases h; simp [toJ, loadV1, v1Float, asFloat, Except.mapError, pure, Except.pure]
theorem rt_str (std : Std) (s : S) : RT1 su std .str (.str s) := by
  intro d h; rw [dump_str] at h; cases h; simp [toJ, loadV1, v1Str, asStr, pure, Except.pure]
theorem rt_bool (std : Std) (b : Bool) : RT1 su std .bool (.bool b) := by
  intro d h; rw [dump_bool] at h; cases h; simp [toJ, loadV1, v1Bool, pure, Except.pure]
theorem rt_optNone (std : Std) (t : Ty) : RT1 su std (.optional t) .none := by
  intro d h; rw [dump_none] at h; cases h; simp [toJ, loadV1, pure, Except.pure]

theorem rt_leaf (std : Std) (laws : StdLaws std) (k : LeafKind) (t : S) (ht : std.validTok k t = true) :
    RT1 su std (.leaf k) (.leaf k false t) := by
  intro d h
  rw [dump_leaf] at h; cases h
  cases k
  · simp only [toJ, leafText, loadV1, v1Decimal]; rw [laws.decimal_rt t ht]; rfl
  · simp only [toJ, leafText, loadV1, v1Path]; rw [laws.path_rt t ht]; rfl
  · simp only [toJ, leafText, loadV1, v1Uuid]; rw [laws.uuid_rt t ht]; rfl
  · simp only [toJ, leafText, loadV1, v1Date]; rw [laws.date_rt t ht]; rfl
  · simp only [toJ, leafText, loadV1, v1Time]; rw [laws.time_rt_z t ht]; rfl
  · simp only [toJ, leafText, loadV1, v1Datetime]; rw [laws.datetime_rt_z t ht]; rfl


theorem dump_timedelta (std : Std) (us : Int) : dumpV std false cV1 (.timedelta us) = .ok (.str (tdStr us)) := by
  simp [dumpV, dumpScalar, pure, Except.pure]

theorem rt_timedelta (std : Std) (laws : StdLaws std) (us : Int) (h0 : 0 ≤ us) : RT1 su std .timedelta (.timedelta us) := by
  intro d h
  rw [dump_timedelta] at h; cases h
  obtain ⟨n, hn, hs⟩ := laws.timedelta_rt us h0
  have htj : toJ (.str (tdStr us)) = .str (tdStr us) := by rw [toJ]
  rw [htj, loadV1]
  simp only [v1Timedelta, asTimedelta, looksNumeric_false (tdStr us) (colon_mem_tdStr us), Bool.false_eq_true, if_false, hn, hs,
    pure, Except.pure, Except.mapError]

theorem dump_enum (std : Std) (name m : S) (v : Lit) : dumpV std false cV1 (.enum name m v) = .ok v.toD := by
  simp [dumpV, dumpScalar, pure, Except.pure]

theorem rt_enum (std : Std) (name : S) (members : List (S × Lit)) (m : S) (v : Lit) (hm : (m, v) ∈ members)
    (hrefl : jEqLit v.toJ v = true) (huniq : ∀ m' ∈ members, jEqLit v.toJ m'.2 = true → m' = (m, v)) :
    RT1 su std (.enum name members) (.enum name m v) := by
  intro d h
  rw [dump_enum] at h; cases h
  rw [toJ_litToD, loadV1]
  unfold v1Enum asEnum
  cases hf : members.find? (fun m' => jEqLit v.toJ m'.2) with
  | none =>
    have := List.find?_eq_none.1 hf (m, v) hm
    simp [hrefl] at this
  | some m' =>
    have hmem := List.mem_of_find?_eq_some hf
    have hp : jEqLit v.toJ m'.2 = true := by simpa using List.find?_some hf
    rw [huniq m' hmem hp]
    rfl

theorem dumpV_list (std : Std) (xs : List PyVal) :
    dumpV std false cV1 (.seq .list xs) = (dumpList std false cV1 xs).map DVal.list := by
  rw [dumpV]
  simp only [hookFor_list, bind, Except.bind, pure, Except.pure, Except.map]

theorem dumpV_dict (std : Std) (kvs : List (PyVal × PyVal)) :
    dumpV std false cV1 (.map .dict kvs) = (dumpPairs std false cV1 kvs).map (DVal.dict false) := by
  rw [dumpV]
  simp only [hookFor_dict, bind, Except.bind, pure, Except.pure, Except.map]
  cases dumpPairs std false cV1 kvs <;> simp

theorem loadV1_optional_nonnull (std : Std) (t : Ty) (o : JVal) (h : o ≠ .null) :
    loadV1 std cV1 (.optional t) o = loadV1 std cV1 t o := by
  rw [loadV1]
  cases o <;> simp_all

theorem mapME_list (std : Std) (t : Ty) : ∀ (xs : List PyVal) (ds : List DVal),
    (∀ x ∈ xs, RT1 su std t x) → dumpList std false cV1 xs = .ok ds →
    mapME (fun x => loadV1 std cV1 t x) (toJList ds) = .ok xs
  | [], ds, _, h => by
    simp only [dumpList, pure, Except.pure, Except.ok.injEq] at h; subst h; rfl
  | x :: xs, ds, ih, h => by
    simp only [dumpList, bind, Except.bind] at h
    split at h
    · simp at h
    · next y hy =>
      split at h
      · simp at h
      · next ys hys =>
        simp only [pure, Except.pure, Except.ok.injEq] at h; subst h
        have h1 := ih x (by simp) y hy
        have h2 := mapME_list std t xs ys (fun z hz => ih z (by simp [hz])) hys
        simp [toJList, mapME, h1, h2, bind, Except.bind, pure, Except.pure]

theorem rt_list (std : Std) (t : Ty) (xs : List PyVal) (ih : ∀ x ∈ xs, RT1 su std t x) : RT1 su std (.seq .list t) (.seq .list xs) := by
  intro d h
  rw [dumpV_list] at h
  cases hd : dumpList std false cV1 xs with
  | error e => simp [hd, Except.map] at h
  | ok ds =>
    simp [hd, Except.map] at h; subst h
    have htj : toJ (.list ds) = .list (toJList ds) := by rw [toJ]
    rw [htj, loadV1]
    simp only [jIter, bind, Except.bind, mapME_list std t xs ds ih hd, mkSeq, pure, Except.pure, Except.mapError]

theorem dumpV_deque (std : Std) (xs : List PyVal) :
    dumpV std false cV1 (.seq .deque xs) = (dumpList std false cV1 xs).map DVal.list := by
  rw [dumpV]
  simp only [hookFor_deque, bind, Except.bind, pure, Except.pure, Except.map]

theorem dumpV_tuple (std : Std) (xs : List PyVal) :
    dumpV std false cV1 (.tuple xs) = (dumpList std false cV1 xs).map DVal.tuple := by
  rw [dumpV]
  simp only [hookFor_tuple, bind, Except.bind, pure, Except.pure, Except.map]

theorem rt_deque (std : Std) (t : Ty) (xs : List PyVal) (ih : ∀ x ∈ xs, RT1 su std t x) : RT1 su std (.seq .deque t) (.seq .deque xs) := by
  intro d h
  rw [dumpV_deque] at h
  cases hd : dumpList std false cV1 xs with
  | error e => simp [hd, Except.map] at h
  | ok ds =>
    simp [hd, Except.map] at h; subst h
    have htj : toJ (.list ds) = .list (toJList ds) := by rw [toJ]
    rw [htj, loadV1]
    simp only [jIter, bind, Except.bind, mapME_list std t xs ds ih hd, mkSeq, pure, Except.pure, Except.mapError]

theorem rt_vtuple (std : Std) (t : Ty) (xs : List PyVal) (ih : ∀ x ∈ xs, RT1 su std t x) : RT1 su std (.vtuple t) (.tuple xs) := by
  intro d h
  rw [dumpV_tuple] at h
  cases hd : dumpList std false cV1 xs with
  | error e => simp [hd, Except.map] at h
  | ok ds =>
    simp [hd, Except.map] at h; subst h
    have htj : toJ (.tuple ds) = .list (toJList ds) := by rw [toJ]
    rw [htj, loadV1]
    simp only [jIter, bind, Except.bind, mapME_list std t xs ds ih hd, pure, Except.pure]

def pairLoader (su : Setup) (std : Std) (t : Ty) (kv : S × JVal) : Except LErr (PyVal × PyVal) := do
  let k' ← loadV1 std (some su.m) .str (.str kv.1)
  let v' ← loadV1 std (some su.m) t kv.2
  pure (k', v')

theorem pairLoader_eq (std : Std) (t : Ty) (k : S) (j : JVal) (v : PyVal) (h : loadV1 std cV1 t j = .ok v) :
    pairLoader su std t (k, j) = .ok (.str k, v) := by
  simp [pairLoader, loadV1, v1Str, asStr, h, bind, Except.bind, pure, Except.pure]

theorem mapME_pairs (std : Std) (t : Ty) : ∀ (kvs : List (S × PyVal)) (ps : List (DVal × DVal)),
    (∀ p ∈ kvs, RT1 su std t p.2) → dumpPairs std false cV1 (kvs.map pyPair) = .ok ps →
    mapME (pairLoader su std t) (toJPairs ps) = .ok (kvs.map pyPair)
  | [], ps, _, h => by
    simp only [List.map_nil, dumpPairs, pure, Except.pure, Except.ok.injEq] at h; subst h; rfl
  | (k, v) :: r, ps, ih, h => by
    simp only [List.map_cons, pyPair, dumpPairs, bind, Except.bind, dump_str] at h
    split at h
    · simp at h
    · next v' hv =>
      split at h
      · simp at h
      · next r' hr =>
        simp only [pure, Except.pure, Except.ok.injEq] at h; subst h
        have h1 := pairLoader_eq std t k (toJ v') v (ih (k, v) (by simp) v' hv)
        have h2 := mapME_pairs std t r r' (fun z hz => ih z (by simp [hz])) hr
        simp only [toJPairs, keyStr, mapME, h1, h2, bind, Except.bind, pure, Except.pure, List.map_cons, pyPair]

theorem rt_dict (std : Std) (t : Ty) (kvs : List (S × PyVal)) (hnd : (kvs.map (·.1)).Nodup)
    (ih : ∀ p ∈ kvs, RT1 su std t p.2) : RT1 su std (.map .dict .str t) (.map .dict (kvs.map pyPair)) := by
  intro d h
  rw [dumpV_dict] at h
  cases hd : dumpPairs std false cV1 (kvs.map pyPair) with
  | error e => simp [hd, Except.map] at h
  | ok ps =>
    simp [hd, Except.map] at h; subst h
    have hm := mapME_pairs std t kvs ps ih hd
    have hall : (kvs.map pyPair).all (fun p => p.1.hashable) = true := by
      simp [List.all_eq_true, PyVal.hashable]
    have hfold := foldl_dictInsert kvs [] (by simpa using hnd)
    have htj : toJ (.dict false ps) = .dict (toJPairs ps) := by rw [toJ]
    rw [htj, loadV1]
    show (do let ps ← mapME (pairLoader su std t) (toJPairs ps); (mkMap .dict ps).mapError v1Wrap) = _
    simp only [hm, bind, Except.bind, mkMap, hall, if_true, pure, Except.pure, Except.mapError]
    simp only [List.map_nil, List.nil_append] at hfold
    rw [hfold]


/-! ### dataclasses -/


/-! ### further kinds: bytes / bytearray, set / frozenset, fixed tuples, defaultdict / OrderedDict, Literal, NamedTuple -/

theorem dump_bytes (std : Std) (m : Bool) (b : List Nat) : dumpV std false cV1 (.bytes m b) = .ok (.str (std.b64encode b)) := by
  simp [dumpV, dumpScalar, pure, Except.pure]

theorem rt_bytes (std : Std) (laws : StdLaws std) (b : List Nat) : RT1 su std .bytes (.bytes false b) := by
  intro d h; rw [dump_bytes] at h; cases h
  have htj : toJ (.str (std.b64encode b)) = .str (std.b64encode b) := by rw [toJ]
  rw [htj, loadV1]
  simp [v1Bytes, laws.b64_rt b, pure, Except.pure]

theorem rt_bytearray (std : Std) (laws : StdLaws std) (b : List Nat) : RT1 su std .bytearray (.bytes true b) := by
  intro d h; rw [dump_bytes] at h; cases h
  have htj : toJ (.str (std.b64encode b)) = .str (std.b64encode b) := by rw [toJ]
  rw [htj, loadV1]
  simp [v1Bytes, laws.b64_rt b, pure, Except.pure]

theorem rt_set (std : Std) (t : Ty) (xs : List PyVal) (hh : xs.all PyVal.hashable = true)
    (hd' : dedupKeep xs = xs) (ih : ∀ x ∈ xs, RT1 su std t x) : RT1 su std (.seq .set t) (.seq .set xs) := by
  intro d h
  rw [dumpV_set] at h
  cases hd : dumpList std false cV1 xs with
  | error e => simp [hd, Except.map] at h
  | ok ds =>
    simp [hd, Except.map] at h; subst h
    have htj : toJ (.list ds) = .list (toJList ds) := by rw [toJ]
    rw [htj, loadV1]
    simp only [jIter, bind, Except.bind, mapME_list std t xs ds ih hd, mkSeq, hh, if_true, hd', pure, Except.pure, Except.mapError]

theorem rt_frozenset (std : Std) (t : Ty) (xs : List PyVal) (hh : xs.all PyVal.hashable = true)
    (hd' : dedupKeep xs = xs) (ih : ∀ x ∈ xs, RT1 su std t x) : RT1 su std (.seq .frozenset t) (.seq .frozenset xs) := by
  intro d h
  rw [dumpV_frozenset] at h
  cases hd : dumpList std false cV1 xs with
  | error e => simp [hd, Except.map] at h
  | ok ds =>
    simp [hd, Except.map] at h; subst h
    have htj : toJ (.list ds) = .list (toJList ds) := by rw [toJ]
    rw [htj, loadV1]
    simp only [jIter, bind, Except.bind, mapME_list std t xs ds ih hd, mkSeq, hh, if_true, hd', pure, Except.pure, Except.mapError]

/-- the generated element expressions `e_k(v1[k])` of a fixed-length tuple, from position `pre.length` on -/
theorem v1Tuple_ok (std : Std) : ∀ (ts : List Ty) (xs : List PyVal) (ds : List DVal) (pre : List JVal), xs.length = ts.length →
    (∀ p ∈ ts.zip xs, RT1 su std p.1 p.2) → dumpList std false cV1 xs = .ok ds →
    v1Tuple std cV1 ts pre.length (.list (pre ++ toJList ds)) = .ok xs
  | [], xs, ds, pre, hl, _, h => by
    have : xs = [] := by simpa using hl
    subst this
    simp only [dumpList, pure, Except.pure, Except.ok.injEq] at h; subst h; rfl
  | t :: ts, [], ds, pre, hl, _, _ => by simp at hl
  | t :: ts, x :: xs, ds, pre, hl, ih, h => by
    simp only [dumpList, bind, Except.bind] at h
    split at h
    · simp at h
    · next y hy =>
      split at h
      · simp at h
      · next ys hys =>
        simp only [pure, Except.pure, Except.ok.injEq] at h; subst h
        have h1 := ih (t, x) (by simp) y hy
        have h2 := v1Tuple_ok std ts xs ys (pre ++ [toJ y]) (by simpa using hl) (fun p hp => ih p (by simp [hp])) hys
        simp only at h1
        have hidx : jIndex (.list (pre ++ toJList (y :: ys))) pre.length = some (toJ y) := by
          simp [jIndex, toJList]
        have happ : pre ++ toJList (y :: ys) = (pre ++ [toJ y]) ++ toJList ys := by simp [toJList]
        rw [v1Tuple, hidx]
        simp only [h1, bind, Except.bind]
        rw [happ]
        have hlen : (pre ++ [toJ y]).length = pre.length + 1 := by simp
        rw [hlen] at h2
        simp only [h2, pure, Except.pure]

theorem rt_tuple (std : Std) (ts : List Ty) (xs : List PyVal) (hne : ts ≠ []) (hl : xs.length = ts.length)
    (ih : ∀ p ∈ ts.zip xs, RT1 su std p.1 p.2) : RT1 su std (.tuple ts) (.tuple xs) := by
  intro d h
  rw [dumpV_tuple] at h
  cases hd : dumpList std false cV1 xs with
  | error e => simp [hd, Except.map] at h
  | ok ds =>
    simp [hd, Except.map] at h; subst h
    have htj : toJ (.tuple ds) = .list (toJList ds) := by rw [toJ]
    have hemp : ts.isEmpty = false := by cases ts <;> simp_all
    have h0 := v1Tuple_ok std ts xs ds [] hl ih hd
    simp only [List.length_nil, List.nil_append] at h0
    rw [htj, loadV1]
    simp only [hemp, Bool.false_eq_true, if_false, h0, bind, Except.bind, pure, Except.pure]

theorem rt_mapk (std : Std) (k : MapKind) (ord : Bool) (t : Ty) (kvs : List (S × PyVal))
    (hdump : ∀ kvs', dumpV std false cV1 (.map k kvs') = (dumpPairs std false cV1 kvs').map (DVal.dict ord))
    (hnd : (kvs.map (·.1)).Nodup)
    (ih : ∀ p ∈ kvs, RT1 su std t p.2) : RT1 su std (.map k .str t) (.map k (kvs.map pyPair)) := by
  intro d h
  rw [hdump] at h
  cases hd : dumpPairs std false cV1 (kvs.map pyPair) with
  | error e => simp [hd, Except.map] at h
  | ok ps =>
    simp [hd, Except.map] at h; subst h
    have hm := mapME_pairs std t kvs ps ih hd
    have hall : (kvs.map pyPair).all (fun p => p.1.hashable) = true := by
      simp [List.all_eq_true, PyVal.hashable]
    have hfold := foldl_dictInsert kvs [] (by simpa using hnd)
    have htj : toJ (.dict ord ps) = .dict (toJPairs ps) := by rw [toJ]
    rw [htj, loadV1]
    show (do let ps ← mapME (pairLoader su std t) (toJPairs ps); (mkMap k ps).mapError v1Wrap) = _
    simp only [hm, bind, Except.bind, mkMap, hall, if_true, pure, Except.pure, Except.mapError]
    simp only [List.map_nil, List.nil_append] at hfold
    rw [hfold]

theorem litJ_toPy (l : Lit) : l.toJ.toPy = l.toPy := by
  cases l <;> rfl

theorem rt_literal (std : Std) (vs : List Lit) (l : Lit) (hm : l ∈ vs) (hr : jEqLit l.toJ l = true) :
    RT1 su std (.literal vs) l.toPy := by
  intro d h
  rw [dump_lit] at h; cases h
  rw [toJ_litToD, loadV1]
  unfold v1Literal
  have hst : jSameType l.toJ l = true := by cases l <;> rfl
  have hany : vs.any (fun l' => jEqLit l.toJ l' && jSameType l.toJ l') = true :=
    List.any_eq_true.2 ⟨l, hm, by rw [hr, hst]; rfl⟩
  simp only [lit_hashable, Bool.not_true, Bool.false_eq_true, if_false, hany, if_true, litJ_toPy, pure, Except.pure]

/-- the positional field expressions of a NamedTuple, from position `pre.length` on -/
theorem v1NtSeq_ok (std : Std) (name : S) : ∀ (fields : List (S × Ty × Option Dflt)) (xs : List PyVal) (ds : List DVal) (pre : List JVal),
    xs.length = fields.length → (∀ p ∈ (fields.map (·.2.1)).zip xs, RT1 su std p.1 p.2) → dumpList std false cV1 xs = .ok ds →
    v1NtSeq std cV1 name fields pre.length (pre.length + ds.length) (.list (pre ++ toJList ds)) = .ok xs
  | [], xs, ds, pre, hl, _, h => by
    have : xs = [] := by simpa using hl
    subst this
    simp only [dumpList, pure, Except.pure, Except.ok.injEq] at h; subst h; rfl
  | f :: fs, [], ds, pre, hl, _, _ => by simp at hl
  | (n, t, dd) :: fs, x :: xs, ds, pre, hl, ih, h => by
    simp only [dumpList, bind, Except.bind] at h
    split at h
    · simp at h
    · next y hy =>
      split at h
      · simp at h
      · next ys hys =>
        simp only [pure, Except.pure, Except.ok.injEq] at h; subst h
        have h1 := ih (t, x) (by simp) y hy
        have h2 := v1NtSeq_ok std name fs xs ys (pre ++ [toJ y]) (by simpa using hl) (fun p hp => ih p (by simp [hp])) hys
        simp only at h1
        have hidx : jIndex (.list (pre ++ toJList (y :: ys))) pre.length = some (toJ y) := by
          simp [jIndex, toJList]
        have happ : pre ++ toJList (y :: ys) = (pre ++ [toJ y]) ++ toJList ys := by simp [toJList]
        have hlt : pre.length < pre.length + (y :: ys).length := by simp
        rw [v1NtSeq, if_pos hlt, hidx]
        simp only [h1, bind, Except.bind]
        rw [happ]
        have hlen : (pre ++ [toJ y]).length = pre.length + 1 := by simp
        have hn : pre.length + (y :: ys).length = pre.length + 1 + ys.length := by simp; omega
        rw [hlen] at h2
        rw [hn]
        simp only [h2, pure, Except.pure]

theorem rt_ntuple (std : Std) (name : S) (fields : List (S × Ty × Option Dflt)) (xs : List PyVal)
    (hl : xs.length = fields.length) (ih : ∀ p ∈ (fields.map (·.2.1)).zip xs, RT1 su std p.1 p.2) :
    RT1 su std (.ntuple name fields) (.ntuple name (fields.map (·.1)) xs) := by
  intro d h
  rw [dumpV_ntuple] at h
  cases hd : dumpList std false cV1 xs with
  | error e => simp [hd, Except.map] at h
  | ok ds =>
    simp [hd, Except.map] at h; subst h
    have htj : toJ (.ntuple name ds) = .list (toJList ds) := by rw [toJ]
    have h0 := v1NtSeq_ok std name fields xs ds [] hl ih hd
    simp only [List.length_nil, List.nil_append, Nat.zero_add] at h0
    rw [htj, loadV1]
    · simp only [jLen, toJList_length, h0, bind, Except.bind, hl, List.drop_length, List.filterMap_nil, List.append_nil,
        pure, Except.pure]
    · intro kvs hk; cases hk


/-! ### TypedDict values -/

/-- the generated TypedDict loader over a document in which every present key holds the dump of a value that round-trips
and every absent key is optional -/
theorem v1Td_present (std : Std) (J : List (S × JVal)) :
    ∀ (fs : List (S × Ty × Bool)) (vals : List (Option PyVal)), vals.length = fs.length →
    (∀ p ∈ fs.zip vals, p.2 = none → p.1.2.2 = false ∧ J.find? (fun kv => kv.1 == p.1.1) = none) →
    (∀ p ∈ fs.zip vals, ∀ v, p.2 = some v → ∃ d, dumpV std false cV1 v = .ok d ∧
        J.find? (fun kv => kv.1 == p.1.1) = some (p.1.1, toJ d) ∧ RT1 su std p.1.2.1 v) →
    v1Td std cV1 fs J = .ok ((tdPresent fs vals).map pyPair)
  | [], vals, _, _, _ => by cases vals <;> simp [v1Td, tdPresent, pure, Except.pure]
  | f :: fs, [], hl, _, _ => by simp at hl
  | (k, t, req) :: fs, none :: vs, hl, hn, hs => by
    obtain ⟨hreq, hfind⟩ := hn ((k, t, req), none) (by simp) rfl
    simp only at hreq hfind
    have ih := v1Td_present std J fs vs (by simpa using hl)
      (fun p hp => hn p (by simp [hp])) (fun p hp => hs p (by simp [hp]))
    subst hreq
    simp only [v1Td, hfind, tdPresent, ih]
    simp
  | (k, t, req) :: fs, some v :: vs, hl, hn, hs => by
    obtain ⟨d, hd, hfind, hrt⟩ := hs ((k, t, req), some v) (by simp) v rfl
    simp only at hfind hrt
    have ih := v1Td_present std J fs vs (by simpa using hl)
      (fun p hp => hn p (by simp [hp])) (fun p hp => hs p (by simp [hp]))
    simp only [v1Td, hfind, tdPresent, ih, hrt d hd, bind, Except.bind, pure, Except.pure, List.map_cons, pyPair]

theorem rt_typeddict (std : Std) (name : S) (fields : List (S × Ty × Bool)) (vals : List (Option PyVal))
    (hnd : (fields.map (·.1)).Nodup) (hl : vals.length = fields.length)
    (hopt : ∀ p ∈ fields.zip vals, p.2 = none → p.1.2.2 = false)
    (ih : ∀ p ∈ fields.zip vals, ∀ v, p.2 = some v → RT1 su std p.1.2.1 v) :
    RT1 su std (.typeddict name fields) (.map .dict ((tdPresent fields vals).map pyPair)) := by
  intro d h
  rw [dumpV_dict] at h
  cases hd : dumpPairs std false cV1 ((tdPresent fields vals).map pyPair) with
  | error e => simp [hd, Except.map] at h
  | ok ps =>
    simp [hd, Except.map] at h; subst h
    obtain ⟨hnone, hsome⟩ := dumpPairs_find std cV1 (tdPresent fields vals) ps hd
    have hndp : ((tdPresent fields vals).map (·.1)).Nodup := (tdPresent_keys_sublist fields vals).nodup hnd
    have hload := v1Td_present (su := su) std (toJPairs ps) fields vals hl
      (fun p hp hpn => ⟨hopt p hp hpn, hnone p.1.1 (tdPresent_absent fields vals p.1 hnd (by
        have : p = (p.1, none) := by rw [← hpn]
        rw [← this]; exact hp))⟩)
      (fun p hp v hpv => by
        obtain ⟨d, hd1, hd2⟩ := hsome hndp (p.1.1, v) (tdPresent_mem fields vals p.1 v (by
          have : p = (p.1, some v) := by rw [← hpv]
          rw [← this]; exact hp))
        exact ⟨d, hd1, hd2, ih p hp v hpv⟩)
    have htj : toJ (.dict false ps) = .dict (toJPairs ps) := by rw [toJ]
    rw [htj, loadV1]
    simp only [hload, pure, Except.pure]

theorem dump_nonnull (std : Std) (t : Ty) (v : PyVal) (hc : Conf su std t v) (hn : nonNullTy t = true) (d : DVal)
    (h : dumpV std false cV1 v = .ok d) : toJ d ≠ .null := by
  cases hc with
  | int i => rw [dump_int] at h; cases h; simp [toJ]
  | float f => rw [dump_float] at h; cases h; simp [toJ]
  | leaf k t _ => rw [dump_leaf] at h; cases h; simp [toJ]
  | timedelta us _ => rw [dump_timedelta] at h; cases h; simp [toJ]
  | enum name members m v _ _ _ => simp [nonNullTy] at hn
  | str s => rw [dump_str] at h; cases h; simp [toJ]
  | bool b => rw [dump_bool] at h; cases h; simp [toJ]
  | optNone t => simp [nonNullTy] at hn
  | optSome t v _ _ => simp [nonNullTy] at hn
  | list t xs _ =>
    rw [dumpV_list] at h
    cases hd : dumpList std false cV1 xs <;> simp [hd, Except.map] at h
    subst h; simp [toJ]
  | deque t xs _ =>
    rw [dumpV_deque] at h
    cases hd : dumpList std false cV1 xs <;> simp [hd, Except.map] at h
    subst h; simp [toJ]
  | vtuple t xs _ =>
    rw [dumpV_tuple] at h
    cases hd : dumpList std false cV1 xs <;> simp [hd, Except.map] at h
    subst h; simp [toJ]
  | dict t kvs _ _ =>
    rw [dumpV_dict] at h
    cases hd : dumpPairs std false cV1 (kvs.map (fun p => (PyVal.str p.1, p.2))) <;> simp [hd, Except.map] at h
    subst h; simp [toJ]
  | unionTagged pre post ci ftys vals tg _ _ _ _ _ => simp [nonNullTy] at hn
  | unionNone ts _ => simp [nonNullTy] at hn
  | inst ci ftys vals tg _ _ _ =>
    rw [dumpV] at h
    simp only [bind, Except.bind] at h
    split at h
    · simp at h
    · simp only [pure, Except.pure, Except.ok.injEq] at h
      subst h
      unfold finishInst
      split <;> simp [toJ]
  | bytes b => simp [nonNullTy] at hn
  | bytearray b => simp [nonNullTy] at hn
  | set t xs _ _ _ =>
    rw [dumpV_set] at h
    cases hd : dumpList std false cV1 xs <;> simp [hd, Except.map] at h
    subst h; simp [toJ]
  | frozenset t xs _ _ _ =>
    rw [dumpV_frozenset] at h
    cases hd : dumpList std false cV1 xs <;> simp [hd, Except.map] at h
    subst h; simp [toJ]
  | tuple ts xs _ _ _ =>
    rw [dumpV_tuple] at h
    cases hd : dumpList std false cV1 xs <;> simp [hd, Except.map] at h
    subst h; simp [toJ]
  | defaultdict t kvs _ _ =>
    rw [dumpV_defaultdict] at h
    cases hd : dumpPairs std false cV1 (kvs.map (fun p => (PyVal.str p.1, p.2))) <;> simp [hd, Except.map] at h
    subst h; simp [toJ]
  | ordereddict t kvs _ _ =>
    rw [dumpV_ordereddict] at h
    cases hd : dumpPairs std false cV1 (kvs.map (fun p => (PyVal.str p.1, p.2))) <;> simp [hd, Except.map] at h
    subst h; simp [toJ]
  | literal vs l _ _ => simp [nonNullTy] at hn
  | typeddict name fields vals _ _ _ _ =>
    rw [dumpV_dict] at h
    cases hd : dumpPairs std false cV1 ((tdPresent fields vals).map (fun p => (PyVal.str p.1, p.2))) <;> simp [hd, Except.map] at h
    subst h; simp [toJ]
  | ntuple name fields xs _ _ =>
    rw [dumpV_ntuple] at h
    cases hd : dumpList std false cV1 xs <;> simp [hd, Except.map] at h
    subst h; simp [toJ]

theorem rt_optSome (std : Std) (t : Ty) (v : PyVal) (hn : nonNullTy t = true) (hc : Conf su std t v) (ih : RT1 su std t v) :
    RT1 su std (.optional t) v := by
  intro d h
  rw [loadV1_optional_nonnull std t (toJ d) (dump_nonnull std t v hc hn d h)]
  exact ih d h

theorem fieldSkipped_plain (tg : Option S) (f : FieldInfo) (v : PyVal) (h1 : f.dumpSkip = false) (h2 : f.skipIf = none) :
    fieldSkipped (effT su tg) {} f v = .ok false := by
  simp [fieldSkipped, excluded, skipDefaultsOn, ownCond, effT, su.sd, su.sdi, su.si, h1, h2, bind, Except.bind, pure, Except.pure]

/-- the dump of the fields of a plain class: one entry per field, under its camelCase key -/
theorem dumpFields_shape (std : Std) (ci : ClassInfo) (ftys : List (S × Ty)) (tg : Option S) (hp : ClsOK su ci ftys tg) :
    ∀ (l : List ((S × Ty) × PyVal)) (body : List (DVal × DVal)), (∀ e ∈ l, ∃ f ∈ ci.fields, f.name = e.1.1) →
      dumpFields std false cV1 (effT su tg) {} ci (l.map nv) = .ok body →
      ∃ ds : List DVal, ds.length = l.length ∧ body = (l.zip ds).map (fun p => (DVal.str (su.kf p.1.1.1), p.2)) ∧
        ∀ p ∈ l.zip ds, dumpV std false cV1 p.1.2 = .ok p.2
  | [], body, _, h => by
    simp only [List.map_nil, dumpFields, pure, Except.pure, Except.ok.injEq] at h; subst h
    exact ⟨[], rfl, rfl, by simp⟩
  | e :: r, body, hg, h => by
    obtain ⟨f, hf, hname⟩ := hg e (by simp)
    have hpl := hp.plain f hf
    have hfind : ci.fields.find? (fun g => g.name == e.1.1) = some f := by
      have := find_unique (fun g : FieldInfo => g.name) ci.fields f hp.nodup hf
      simpa [hname] using this
    rw [List.map_cons, show nv e = (e.1.1, e.2) from rfl,
      dumpFields_cons_plain std false cV1 (effT su tg) {} ci e.1.1 e.2 (r.map nv) (by simp [hfind, hpl.2.1])] at h
    simp only [hfind, Option.getD_some, fieldSkipped_plain tg f e.2 hpl.2.2.1 hpl.2.2.2, bind, Except.bind,
      Bool.false_eq_true, if_false] at h
    have hkey : dumpKey (effT su tg) f = .ok (su.kf e.1.1) := by
      rw [← hname]; exact hp.dkey f hf
    rw [hkey] at h
    simp only at h
    split at h
    · simp at h
    · next d hd =>
      simp only [pure, Except.pure] at h
      split at h
      · simp at h
      · next more hmore =>
        simp only [Except.ok.injEq] at h; subst h
        obtain ⟨ds, hlen, hbody, hall⟩ := dumpFields_shape std ci ftys tg hp r more (fun x hx => hg x (by simp [hx])) hmore
        refine ⟨d :: ds, by simp [hlen], by simp [hbody], ?_⟩
        intro p hp'
        simp only [List.zip_cons_cons, List.mem_cons] at hp'
        rcases hp' with rfl | hp'
        · exact hd
        · exact hall p hp'


theorem v1Field_lookup (std : Std) (j : JVal) : ∀ (ftys : List (S × Ty)) (n : S) (t : Ty), (ftys.map (·.1)).Nodup →
    (n, t) ∈ ftys → v1Field std cV1 n j ftys = loadV1 std cV1 t j
  | [], _, _, _, h => by simp at h
  | (m, u) :: r, n, t, hnd, h => by
    simp only [List.map_cons, List.nodup_cons] at hnd
    rw [v1Field]
    by_cases hm : m = n
    · subst hm
      have : u = t := by
        rcases List.mem_cons.1 h with h | h
        · exact (Prod.mk.inj h).2.symm
        · exact absurd (List.mem_map.2 ⟨(m, t), h, rfl⟩) hnd.1
      subst this; simp
    · have ht : (n, t) ∈ r := by
        rcases List.mem_cons.1 h with h | h
        · exact absurd (Prod.mk.inj h).1.symm hm
        · exact h
      have hb : (m == n) = false := by simpa using hm
      simp only [hb, Bool.false_eq_true, if_false]
      exact v1Field_lookup std j r n t hnd.2 ht

/-- the field loop of the generated v1 function finds every field of a plain class in the dumped document -/
theorem v1Fields_ok (std : Std) (ci : ClassInfo) (ftys : List (S × Ty)) (tg : Option S) (kvs : List (S × JVal))
    (hnd : (kvs.map (·.1)).Nodup) :
    ∀ (l : List ((S × Ty) × PyVal)) (F : List FieldInfo), F.map (·.name) = l.map (·.1.1) →
      (∀ f ∈ F, f.init = true ∧ f.isCatchAll = false ∧ ∃ rest, v1Keys mV1 f = su.kf f.name :: rest) →
      (∀ e ∈ l, ∃ j, (su.kf e.1.1, j) ∈ kvs ∧ v1Field std cV1 e.1.1 j ftys = .ok e.2) →
      v1Fields (fun f v => v1Field std cV1 f v ftys) (effT su tg) ci kvs F = .ok (l.map nv, l.length)
  | [], F, hn, _, _ => by
    have : F = [] := by simpa using hn
    subst this; rfl
  | e :: l, F, hn, hpl, hg => by
    cases F with
    | nil => simp at hn
    | cons fi F' =>
      simp only [List.map_cons, List.cons.injEq] at hn
      obtain ⟨j, hmem, hload⟩ := hg e (by simp)
      have hp := hpl fi (by simp)
      have hfind : kvs.find? (fun kv => kv.1 == su.kf e.1.1) = some (su.kf e.1.1, j) := by
        have := find_unique (fun kv : S × JVal => kv.1) kvs (su.kf e.1.1, j) hnd hmem
        simpa using this
      obtain ⟨rest, hkeys0⟩ := hp.2.2
      rw [hn.1] at hkeys0
      have hkeys : v1Keys (effT su tg) fi = su.kf e.1.1 :: rest := hkeys0
      have ih := v1Fields_ok std ci ftys tg kvs hnd l F' hn.2 (fun g hg' => hpl g (by simp [hg'])) (fun x hx => hg x (by simp [hx]))
      rw [v1Fields]
      simp only [hp.1, hp.2.1, Bool.not_true, Bool.or_false, Bool.false_eq_true, if_false, hkeys, lookupFirst, hfind]
      simp only [hn.1, hload, Except.mapError, bind, Except.bind, ih, pure, Except.pure, List.map_cons, List.length_cons, nv]

theorem finishKw_ok (ci : ClassInfo) (ftys : List (S × Ty)) (tg : Option S) (hp : ClsOK su ci ftys tg) (K : List (S × PyVal))
    (hK : K.map (·.1) = ci.fields.map (·.name)) : finishKw ci K = .ok (.inst ci K) := by
  have hmiss : missingInit ci (K.map (·.1)) = [] := by
    unfold missingInit
    rw [List.filter_eq_nil_iff]
    intro f hf
    have : (K.map (·.1)).contains f.name = true := by
      rw [hK]; simp; exact ⟨f, hf, rfl⟩
    simp only [this, Bool.not_true, Bool.and_false]
    simp
  have hb := buildFields_ok K [] ci.fields hK.symm (by simpa [hK] using hp.nodup) (fun f hf => (hp.plain f hf).1)
  simp only [List.nil_append] at hb
  simp [finishKw, hmiss, hb, bind, Except.bind, pure, Except.pure]

theorem v1Finish_ok (ci : ClassInfo) (ftys : List (S × Ty)) (tg : Option S) (hp : ClsOK su ci ftys tg) (kvs : List (S × JVal))
    (K : List (S × PyVal)) (n : Nat) (hK : K.map (·.1) = ci.fields.map (·.name)) :
    v1Finish (effT su tg) ci kvs K n = .ok (.inst ci K) := by
  have hca : ci.fields.find? (·.isCatchAll) = none := by
    rw [List.find?_eq_none]; intro f hf; simp [(hp.plain f hf).2.1]
  have hraise : ((effT su tg).v1OnUnknown == some KeyAct.raise) = false := su.noRaise
  simp only [v1Finish, hraise, Bool.and_false, Bool.false_and, Bool.false_eq_true, if_false, v1WithCatchAll, hca]
  exact finishKw_ok ci ftys tg hp K hK


theorem exists_zip {α β : Type} : ∀ (l : List α) (ds : List β), ds.length = l.length → ∀ e ∈ l, ∃ d, (e, d) ∈ l.zip ds
  | [], _, _, e, h => by simp at h
  | x :: l, [], hlen, _, _ => by simp at hlen
  | x :: l, d :: ds, hlen, e, h => by
    rcases List.mem_cons.1 h with rfl | h
    · exact ⟨d, by simp⟩
    · obtain ⟨d', hd'⟩ := exists_zip l ds (by simpa using hlen) e h
      exact ⟨d', by simp [hd']⟩

theorem toJPairs_map {α : Type} (key : α → S) (val : α → DVal) (l : List α) :
    toJPairs (l.map (fun p => (DVal.str (key p), val p))) = l.map (fun p => (key p, toJ (val p))) := by
  induction l with
  | nil => rfl
  | cons x r ih => simp [toJPairs, keyStr, ih]

theorem nodup_append_singleton {α : Type} (l : List α) (a : α) (h : l.Nodup) (ha : a ∉ l) : (l ++ [a]).Nodup := by
  induction l with
  | nil => simp
  | cons x r ih =>
    simp only [List.nodup_cons, List.mem_cons, not_or] at h ha ⊢
    simp only [List.cons_append, List.nodup_cons, List.mem_append, List.mem_singleton, not_or]
    exact ⟨⟨h.1, fun e => ha.1 e.symm⟩, ih h.2 ha.2⟩

/-- the generated v1 function of a class of the fragment (tagged or not) reads back what the class's dumper wrote; the
document is the field entries under their keys followed by the tag entry -/
theorem cls_roundtrip (std : Std) (ci : ClassInfo) (ftys : List (S × Ty)) (vals : List PyVal) (tg : Option S)
    (hp : ClsOK su ci ftys tg) (hlen : vals.length = ftys.length) (ih : ∀ p ∈ ftys.zip vals, RT1 su std p.1.2 p.2)
    (d : DVal) (h : dumpV std false cV1 (.inst ci ((ftys.map (·.1)).zip vals)) = .ok d) :
    ∃ body, toJ d = .dict (toJPairs body ++ tagSfx (effT su tg) tg) ∧
      (toJPairs body).map (·.1) = ci.fields.map (fun f => su.kf f.name) ∧
      v1ClassWith (fun f v => v1Field std cV1 f v ftys) (effT su tg) ci (toJ d) = .ok (.inst ci ((ftys.map (·.1)).zip vals)) := by
  have hnames : (ftys.map (·.1)).Nodup := by rw [← hp.names]; exact hp.nodup
  have hl : (ftys.zip vals).map nv = (ftys.map (·.1)).zip vals := by
    rw [List.zip_map_left]; rfl
  have hl1 : (ftys.zip vals).map (·.1.1) = ftys.map (·.1) := by
    have : (ftys.zip vals).map (·.1) = ftys := by rw [List.map_fst_zip]; omega
    calc (ftys.zip vals).map (·.1.1) = ((ftys.zip vals).map (·.1)).map (·.1) := by simp
      _ = ftys.map (·.1) := by rw [this]
  have hfield : ∀ e ∈ ftys.zip vals, ∃ f ∈ ci.fields, f.name = e.1.1 := by
    intro e he
    have hmem : e.1 ∈ ftys := (List.of_mem_zip he).1
    have : e.1.1 ∈ ci.fields.map (·.name) := by rw [hp.names]; exact List.mem_map.2 ⟨e.1, hmem, rfl⟩
    obtain ⟨f, hf, hfn⟩ := List.mem_map.1 this
    exact ⟨f, hf, hfn⟩
  rw [dumpV] at h
  simp only [hp.effOk, bind, Except.bind] at h
  split at h
  · simp at h
  · next body hb =>
    simp only [pure, Except.pure, Except.ok.injEq] at h; subst h
    have hts : (effT su tg).marshalTimestamp.getD false = false := su.ts
    have hb' : dumpFields std false cV1 (effT su tg) {} ci ((ftys.zip vals).map nv) = .ok body := by
      rw [hl]; simpa [hts] using hb
    obtain ⟨ds, hdlen, hbody, hall⟩ := dumpFields_shape std ci ftys tg hp (ftys.zip vals) body hfield hb'
    -- the document
    have hkvs : toJPairs body = ((ftys.zip vals).zip ds).map (fun p => (su.kf p.1.1.1, toJ p.2)) := by
      rw [hbody]; exact toJPairs_map (fun p : ((S × Ty) × PyVal) × DVal => su.kf p.1.1.1) (fun p => p.2) _
    have hkeys : (toJPairs body).map (·.1) = (ci.fields.map (fun f => su.kf f.name)) := by
      rw [hkvs, List.map_map]
      have h1 : (((ftys.zip vals).zip ds).map (fun p => p.1)) = ftys.zip vals := by rw [List.map_fst_zip]; omega
      calc ((ftys.zip vals).zip ds).map ((fun kv : S × JVal => kv.1) ∘ fun p => (su.kf p.1.1.1, toJ p.2))
          = (((ftys.zip vals).zip ds).map (fun p => p.1)).map (fun e => su.kf e.1.1) := by simp [Function.comp_def]
        _ = (ftys.zip vals).map (fun e => su.kf e.1.1) := by rw [h1]
        _ = ((ftys.zip vals).map (·.1.1)).map su.kf := by simp
        _ = (ftys.map (·.1)).map su.kf := by rw [hl1]
        _ = ci.fields.map (fun f => su.kf f.name) := by rw [← hp.names]; simp [Function.comp_def]
    have htj := toJ_finishInst (effT su tg) tg rfl body
    -- keys of the whole document (fields, then the tag entry) are pairwise distinct
    have hnd : ((toJPairs body ++ tagSfx (effT su tg) tg).map (·.1)).Nodup := by
      rw [List.map_append, hkeys]
      cases tg with
      | none => simpa [tagSfx] using hp.keysNodup
      | some t =>
        simp only [tagSfx, List.map_cons, List.map_nil]
        apply nodup_append_singleton _ _ hp.keysNodup
        intro hmem
        obtain ⟨f, hf, hfk⟩ := List.mem_map.1 hmem
        exact hp.tagKeyFresh t rfl f hf hfk
    have hentries : ∀ e ∈ ftys.zip vals, ∃ j, (su.kf e.1.1, j) ∈ toJPairs body ++ tagSfx (effT su tg) tg ∧
        v1Field std cV1 e.1.1 j ftys = .ok e.2 := by
      intro e he
      obtain ⟨dv, hdv⟩ := exists_zip (ftys.zip vals) ds hdlen e he
      refine ⟨toJ dv, ?_, ?_⟩
      · apply List.mem_append_left
        rw [hkvs]; exact List.mem_map.2 ⟨(e, dv), hdv, rfl⟩
      · rw [v1Field_lookup std (toJ dv) ftys e.1.1 e.1.2 hnames (List.of_mem_zip he).1]
        exact ih e he dv (hall (e, dv) hdv)
    have hF := v1Fields_ok std ci ftys tg (toJPairs body ++ tagSfx (effT su tg) tg) hnd (ftys.zip vals) ci.fields (by rw [hl1, hp.names])
      (fun f hf => ⟨(hp.plain f hf).1, (hp.plain f hf).2.1, hp.lkey f hf⟩) hentries
    have hK : ((ftys.zip vals).map nv).map (·.1) = ci.fields.map (·.name) := by
      rw [hl, hp.names, List.map_fst_zip]; simp; omega
    have hfin := v1Finish_ok ci ftys tg hp (toJPairs body ++ tagSfx (effT su tg) tg) ((ftys.zip vals).map nv) (ftys.zip vals).length hK
    refine ⟨body, htj, hkeys, ?_⟩
    rw [htj]
    simp only [v1ClassWith, hF, bind, Except.bind, hfin]
    rw [hl]

theorem rt_inst (std : Std) (ci : ClassInfo) (ftys : List (S × Ty)) (vals : List PyVal) (tg : Option S)
    (hp : ClsOK su ci ftys tg) (hlen : vals.length = ftys.length) (ih : ∀ p ∈ ftys.zip vals, RT1 su std p.1.2 p.2) :
    RT1 su std (.cls ci ftys) (.inst ci ((ftys.map (·.1)).zip vals)) := by
  intro d h
  obtain ⟨_, _, _, hload⟩ := cls_roundtrip std ci ftys vals tg hp hlen ih d h
  rw [loadV1, hp.effOk]
  exact hload

/-- a tagged dataclass inside a Union (v1): the dump carries the tag, the generated Union helper dispatches on it —
whatever the other members are, as long as none answers to the same tag — and the member's own function reads the rest -/
theorem rt_unionTagged (std : Std) (pre post : List Ty) (ci : ClassInfo) (ftys : List (S × Ty))
    (vals : List PyVal) (tg : S) (hp : ClsOK su ci ftys (some tg)) (hlen : vals.length = ftys.length)
    (ih : ∀ p ∈ ftys.zip vals, RT1 su std p.1.2 p.2)
    (hpre : ∀ t ∈ pre, tagOf (some su.m) t ≠ some tg) (hpost : ∀ t ∈ post, tagOf (some su.m) t ≠ some tg) :
    RT1 su std (.union (pre ++ .cls ci ftys :: post)) (.inst ci ((ftys.map (·.1)).zip vals)) := by
  intro d h
  obtain ⟨body, htj, hkeys, hload⟩ := cls_roundtrip std ci ftys vals (some tg) hp hlen ih d h
  rw [htj] at hload ⊢
  have hfind : (toJPairs body ++ tagSfx (effT su (some tg)) (some tg)).find?
        (fun kv => kv.1 == ((some su.m : Option MetaCfg).bind (·.tagKey)).getD Generated.tagKey.toList)
      = some (((some su.m : Option MetaCfg).bind (·.tagKey)).getD Generated.tagKey.toList, .str tg) := by
    have hk : ((some su.m : Option MetaCfg).bind (·.tagKey)).getD Generated.tagKey.toList = tagKeyOf su.m := rfl
    rw [hk, List.find?_append]
    have hnone : (toJPairs body).find? (fun kv => kv.1 == tagKeyOf su.m) = none := by
      apply find_none_of_keys
      intro p hp' heq
      have : p.1 ∈ (toJPairs body).map (·.1) := List.mem_map.2 ⟨p, hp', rfl⟩
      rw [hkeys] at this
      obtain ⟨f, hf, hfk⟩ := List.mem_map.1 this
      exact hp.tagKeyFresh tg rfl f hf (by rw [hfk, heq])
    rw [hnone]
    simp [tagSfx, tagKeyOf, effT]
  rw [v1_dispatch_core std (some su.m) tg pre post ci ftys _ (hp.member tg rfl) hpre hpost hfind, hp.effOk]
  exact hload

theorem rt_unionNone (std : Std) (ts : List Ty) (h : ts.any isNoneTy = true) : RT1 su std (.union ts) .none := by
  intro d hd; rw [dump_none] at hd; cases hd
  have : toJ .null = .null := by rw [toJ]
  rw [this, loadV1]
  split
  · rfl
  · next hneg =>
    exfalso; apply hneg
    obtain ⟨t, ht, hh⟩ := List.any_eq_true.1 h
    have hk : (JVal.null.kind == JKind.null) = true := rfl
    rw [hk, Bool.true_and, List.any_eq_true]
    exact ⟨t, ht, by cases t <;> simp_all [isNoneTy]⟩

/-- **structural round trip, v1 engine** -/
theorem roundtrip (std : Std) (laws : StdLaws std) (t : Ty) (v : PyVal) (hc : Conf su std t v) : RT1 su std t v := by
  induction hc with
  | int i => exact rt_int std i
  | float f => exact rt_float std f
  | leaf k t ht => exact rt_leaf std laws k t ht
  | timedelta us h0 => exact rt_timedelta std laws us h0
  | enum name members m v hm hr hu => exact rt_enum std name members m v hm hr hu
  | str s => exact rt_str std s
  | bool b => exact rt_bool std b
  | optNone t => exact rt_optNone std t
  | optSome t v hn hc ih => exact rt_optSome std t v hn hc ih
  | list t xs _ ih => exact rt_list std t xs ih
  | deque t xs _ ih => exact rt_deque std t xs ih
  | vtuple t xs _ ih => exact rt_vtuple std t xs ih
  | dict t kvs hnd _ ih => exact rt_dict std t kvs hnd ih
  | inst ci ftys vals tg hp hlen _ ih => exact rt_inst std ci ftys vals tg hp hlen ih
  | unionTagged pre post ci ftys vals tg hp hlen _ hpre hpost ih => exact rt_unionTagged std pre post ci ftys vals tg hp hlen ih hpre hpost
  | unionNone ts h => exact rt_unionNone std ts h
  | bytes b => exact rt_bytes std laws b
  | bytearray b => exact rt_bytearray std laws b
  | set t xs hh hd _ ih => exact rt_set std t xs hh hd ih
  | frozenset t xs hh hd _ ih => exact rt_frozenset std t xs hh hd ih
  | tuple ts xs hne hl _ ih => exact rt_tuple std ts xs hne hl ih
  | defaultdict t kvs hnd _ ih => exact rt_mapk std .defaultdict false t kvs (dumpV_defaultdict std cV1) hnd ih
  | ordereddict t kvs hnd _ ih => exact rt_mapk std .ordereddict true t kvs (dumpV_ordereddict std cV1) hnd ih
  | literal vs l hm hr => exact rt_literal std vs l hm hr
  | ntuple name fields xs hl _ ih => exact rt_ntuple std name fields xs hl ih
  | typeddict name fields vals hnd hl hopt _ ih => exact rt_typeddict std name fields vals hnd hl hopt ih


/-- at the top level: `fromdict(cls, json(asdict(x))) = x` for a main class that declares the v1 Meta -/
theorem roundtrip_root (std : Std) (laws : StdLaws std) (ci : ClassInfo) (ftys : List (S × Ty)) (v : PyVal)
    (hm : ci.cmeta = some mV1) (hc : Conf su std (.cls ci ftys) v) (d : DVal) (h : asdict std {} v = .ok d) :
    fromdictV1 std (.cls ci ftys) (toJ d) = .ok v := by
  cases hc with
  | inst _ _ vals tg hp hlen hall =>
    have heff : effMeta ci.cmeta cV1 = mV1 := by rw [hm]; exact su.effSelf
    have hrt := roundtrip std laws (.cls ci ftys) _ (Conf.inst ci ftys vals tg hp hlen hall) d (by
      rw [dumpV]
      simp only [heff]
      simpa [asdict, hm, eff_root, root_cfg] using h)
    rw [loadV1] at hrt
    simp only [fromdictV1, hm, root_cfg, eff_root]
    simp only [heff] at hrt
    exact hrt

/-! ### the configurations of the property: camelCase (the default dump transform with `v1_key_case = 'CAMEL'`), keys as they
are, the other explicit key cases, and AUTO -/

/-- `v1 = True; v1_key_case = 'CAMEL'` with the default (camelCase) dump transform -/
def camelSetup : Setup :=
  { m := { v1 := some true, v1KeyCase := some .camel }, kf := fun n => (toCamel n).getD n,
    effNested := by decide, effSelf := by decide, rootCfg := by decide,
    sd := rfl, sdi := rfl, si := rfl, tag := rfl, ts := rfl, noRaise := by decide }

/-- `v1 = True; key_transform_with_dump = 'NONE'`, no key case: keys are the field names as they are -/
def asIsSetup : Setup :=
  { m := { v1 := some true, keyTransformDump := some .none }, kf := fun n => n,
    effNested := by decide, effSelf := by decide, rootCfg := by decide,
    sd := rfl, sdi := rfl, si := rfl, tag := rfl, ts := rfl, noRaise := by decide }

/-- `v1 = True; v1_key_case = 'AUTO'; key_transform_with_dump = 'NONE'`: AUTO tries the field's own name first -/
def autoSetup : Setup :=
  { m := { v1 := some true, v1KeyCase := some .auto, keyTransformDump := some .none }, kf := fun n => n,
    effNested := by decide, effSelf := by decide, rootCfg := by decide,
    sd := rfl, sdi := rfl, si := rfl, tag := rfl, ts := rfl, noRaise := by decide }

/-- `v1 = True; v1_key_case = 'KEBAB'; key_transform_with_dump = 'LISP'` -/
def kebabSetup : Setup :=
  { m := { v1 := some true, v1KeyCase := some .kebab, keyTransformDump := some .lisp }, kf := toLisp,
    effNested := by decide, effSelf := by decide, rootCfg := by decide,
    sd := rfl, sdi := rfl, si := rfl, tag := rfl, ts := rfl, noRaise := by decide }

/-- `v1 = True; v1_key_case = 'SNAKE'; key_transform_with_dump = 'SNAKE'` -/
def snakeSetup : Setup :=
  { m := { v1 := some true, v1KeyCase := some .snake, keyTransformDump := some .snake }, kf := toSnake,
    effNested := by decide, effSelf := by decide, rootCfg := by decide,
    sd := rfl, sdi := rfl, si := rfl, tag := rfl, ts := rfl, noRaise := by decide }

/-- `v1 = True; v1_key_case = 'PASCAL'; key_transform_with_dump = 'PASCAL'` -/
def pascalSetup : Setup :=
  { m := { v1 := some true, v1KeyCase := some .pascal, keyTransformDump := some .pascal }, kf := fun n => (toPascal n).getD n,
    effNested := by decide, effSelf := by decide, rootCfg := by decide,
    sd := rfl, sdi := rfl, si := rfl, tag := rfl, ts := rfl, noRaise := by decide }

/-- the class-level conditions in the old, concrete form: plain fields without aliases; for the camel / pascal cases the
transform is defined on every field name -/
structure Unaliased (ci : ClassInfo) (ftys : List (S × Ty)) : Prop where
  names : ci.fields.map (·.name) = ftys.map (·.1)
  nodup : (ci.fields.map (·.name)).Nodup
  plain : ∀ f ∈ ci.fields, f.init = true ∧ f.isCatchAll = false ∧ f.dumpSkip = false ∧ f.skipIf = none ∧
            f.dumpAll = false ∧ f.loadKeys = []

theorem plain_of (su : Setup) (ci : ClassInfo) (ftys : List (S × Ty)) (hu : Unaliased ci ftys)
    (hm : ci.cmeta = none ∨ ci.cmeta = some su.m)
    (hd : ∀ f : FieldInfo, f ∈ ci.fields → f.dumpAll = false → dumpKey su.m f = .ok (su.kf f.name))
    (hl : ∀ f : FieldInfo, f ∈ ci.fields → f.loadKeys = [] → ∃ rest, v1Keys su.m f = su.kf f.name :: rest)
    (hk : (ci.fields.map (fun f => su.kf f.name)).Nodup) : PlainCls su ci ftys :=
  { effOk := (by
      rw [effT_none]
      rcases hm with h | h <;> rw [h]
      · exact su.effNested
      · exact su.effSelf),
    names := hu.names, nodup := hu.nodup,
    plain := fun f hf => ⟨(hu.plain f hf).1, (hu.plain f hf).2.1, (hu.plain f hf).2.2.1, (hu.plain f hf).2.2.2.1⟩,
    dkey := fun f hf => hd f hf (hu.plain f hf).2.2.2.2.1,
    lkey := fun f hf => hl f hf (hu.plain f hf).2.2.2.2.2,
    keysNodup := hk,
    member := (fun t ht => by cases ht),
    tagKeyFresh := (fun t ht => by cases ht) }

/-- camelCase: the keys must be defined (`to_camel_case` fails on some names) and pairwise distinct -/
theorem plain_camel (ci : ClassInfo) (ftys : List (S × Ty)) (hu : Unaliased ci ftys)
    (hm : ci.cmeta = none ∨ ci.cmeta = some camelSetup.m) (hc : ∀ f ∈ ci.fields, ∃ k, toCamel f.name = some k)
    (hk : (ci.fields.map (fun f => (toCamel f.name).getD f.name)).Nodup) : PlainCls camelSetup ci ftys :=
  plain_of camelSetup ci ftys hu hm
    (fun f hf hda => by
      obtain ⟨k, hk'⟩ := hc f hf
      simp [dumpKey, hda, camelSetup, LetterCaseOpt.toLC, LetterCase.apply, hk'])
    (fun f _ hlk => ⟨[], by simp [v1Keys, hlk, camelSetup]⟩) hk

/-- keys as they are: no condition beyond distinct field names -/
theorem plain_asIs (ci : ClassInfo) (ftys : List (S × Ty)) (hu : Unaliased ci ftys)
    (hm : ci.cmeta = none ∨ ci.cmeta = some asIsSetup.m) : PlainCls asIsSetup ci ftys :=
  plain_of asIsSetup ci ftys hu hm
    (fun f _ hda => by simp [dumpKey, hda, asIsSetup, LetterCaseOpt.toLC, LetterCase.apply])
    (fun f _ hlk => ⟨[], by simp [v1Keys, hlk, asIsSetup]⟩) (by simpa [asIsSetup] using hu.nodup)

/-- AUTO with keys dumped as they are: the own name is the first key tried -/
theorem plain_auto (ci : ClassInfo) (ftys : List (S × Ty)) (hu : Unaliased ci ftys)
    (hm : ci.cmeta = none ∨ ci.cmeta = some autoSetup.m) : PlainCls autoSetup ci ftys :=
  plain_of autoSetup ci ftys hu hm
    (fun f _ hda => by simp [dumpKey, hda, autoSetup, LetterCaseOpt.toLC, LetterCase.apply])
    (fun f _ hlk => ⟨(possibleJsonKeys f.name).getD [], by simp [v1Keys, hlk, autoSetup]⟩) (by simpa [autoSetup] using hu.nodup)

/-- kebab-case / LISP: total transforms; the keys must be pairwise distinct -/
theorem plain_kebab (ci : ClassInfo) (ftys : List (S × Ty)) (hu : Unaliased ci ftys)
    (hm : ci.cmeta = none ∨ ci.cmeta = some kebabSetup.m) (hk : (ci.fields.map (fun f => toLisp f.name)).Nodup) :
    PlainCls kebabSetup ci ftys :=
  plain_of kebabSetup ci ftys hu hm
    (fun f _ hda => by simp [dumpKey, hda, kebabSetup, LetterCaseOpt.toLC, LetterCase.apply])
    (fun f _ hlk => ⟨[], by simp [v1Keys, hlk, kebabSetup]⟩) hk

theorem plain_snake (ci : ClassInfo) (ftys : List (S × Ty)) (hu : Unaliased ci ftys)
    (hm : ci.cmeta = none ∨ ci.cmeta = some snakeSetup.m) (hk : (ci.fields.map (fun f => toSnake f.name)).Nodup) :
    PlainCls snakeSetup ci ftys :=
  plain_of snakeSetup ci ftys hu hm
    (fun f _ hda => by simp [dumpKey, hda, snakeSetup, LetterCaseOpt.toLC, LetterCase.apply])
    (fun f _ hlk => ⟨[], by simp [v1Keys, hlk, snakeSetup]⟩) hk

theorem plain_pascal (ci : ClassInfo) (ftys : List (S × Ty)) (hu : Unaliased ci ftys)
    (hm : ci.cmeta = none ∨ ci.cmeta = some pascalSetup.m) (hc : ∀ f ∈ ci.fields, ∃ k, toPascal f.name = some k)
    (hk : (ci.fields.map (fun f => (toPascal f.name).getD f.name)).Nodup) : PlainCls pascalSetup ci ftys :=
  plain_of pascalSetup ci ftys hu hm
    (fun f hf hda => by
      obtain ⟨k, hk'⟩ := hc f hf
      simp [dumpKey, hda, pascalSetup, LetterCaseOpt.toLC, LetterCase.apply, hk'])
    (fun f _ hlk => ⟨[], by simp [v1Keys, hlk, pascalSetup]⟩) hk

def exInner : ClassInfo := { name := "Inner".toList, fields := [{ name := "val_one".toList }, { name := "tags".toList }] }
def exInnerTys : List (S × Ty) := [("val_one".toList, .int), ("tags".toList, .seq .list .str)]
def exRoot : ClassInfo :=
  { name := "Root".toList, cmeta := some camelSetup.m,
    fields := [{ name := "inner_obj".toList }, { name := "by_name".toList }, { name := "when_at".toList }] }
def exRootTys : List (S × Ty) :=
  [("inner_obj".toList, .cls exInner exInnerTys), ("by_name".toList, .map .dict .str (.cls exInner exInnerTys)),
   ("when_at".toList, .optional (.leaf .datetime))]

theorem exInner_un : Unaliased exInner exInnerTys := by
  refine ⟨rfl, by decide, ?_⟩
  intro f hf
  simp only [exInner, List.mem_cons, List.not_mem_nil, or_false] at hf
  rcases hf with rfl | rfl <;> exact ⟨rfl, rfl, rfl, rfl, rfl, rfl⟩

theorem exRoot_un : Unaliased exRoot exRootTys := by
  refine ⟨rfl, by decide, ?_⟩
  intro f hf
  simp only [exRoot, List.mem_cons, List.not_mem_nil, or_false] at hf
  rcases hf with rfl | rfl | rfl <;> exact ⟨rfl, rfl, rfl, rfl, rfl, rfl⟩

theorem exInner_plain : PlainCls camelSetup exInner exInnerTys := by
  refine plain_camel _ _ exInner_un (Or.inl rfl) ?_ (by decide)
  intro f hf
  simp only [exInner, List.mem_cons, List.not_mem_nil, or_false] at hf
  rcases hf with rfl | rfl
  · exact ⟨"valOne".toList, by decide⟩
  · exact ⟨"tags".toList, by decide⟩

theorem exRoot_plain : PlainCls camelSetup exRoot exRootTys := by
  refine plain_camel _ _ exRoot_un (Or.inr rfl) ?_ (by decide)
  intro f hf
  simp only [exRoot, List.mem_cons, List.not_mem_nil, or_false] at hf
  rcases hf with rfl | rfl | rfl
  · exact ⟨"innerObj".toList, by decide⟩
  · exact ⟨"byName".toList, by decide⟩
  · exact ⟨"whenAt".toList, by decide⟩

/-- the same inner class under AUTO / keys as they are -/
theorem exInner_plain_auto : PlainCls autoSetup exInner exInnerTys := plain_auto _ _ exInner_un (Or.inl rfl)
theorem exInner_plain_asIs : PlainCls asIsSetup exInner exInnerTys := plain_asIs _ _ exInner_un (Or.inl rfl)

end DW.RTV1
