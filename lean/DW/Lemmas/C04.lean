/-
Helper lemmas for C04 (v1 and EnvWizard parts): `mapME` (element-wise lifting), the string splitting functions
of `as_list` / `as_dict`, the numeric-form test, and the nesting-context machinery used by the
position-independence theorems.
-/
import DW.Model.LoadV1
import DW.Model.EnvLoad

namespace DW.Lemmas.C04
open DW DW.Str

/-! ### `mapME`: element-wise lifting -/

theorem mapME_nil {α β} (f : α → Except LErr β) : mapME f [] = .ok [] := rfl

theorem mapME_cons {α β} (f : α → Except LErr β) (x : α) (xs : List α) :
    mapME f (x :: xs) = (f x >>= fun y => mapME f xs >>= fun ys => pure (y :: ys)) := rfl

/-- `R` holds position by position (and the lists have the same length) -/
inductive Pointwise {α β} (R : α → β → Prop) : List α → List β → Prop
  | nil : Pointwise R [] []
  | cons {x y xs ys} : R x y → Pointwise R xs ys → Pointwise R (x :: xs) (y :: ys)

theorem Pointwise.length_eq {α β} {R : α → β → Prop} {xs : List α} {ys : List β} (h : Pointwise R xs ys) :
    xs.length = ys.length := by
  induction h with
  | nil => rfl
  | cons _ _ ih => simp [ih]

/-- `mapME f xs` succeeds with `ys` exactly when `f` succeeds on every element, position by position -/
theorem mapME_ok_iff {α β} (f : α → Except LErr β) (xs : List α) (ys : List β) :
    mapME f xs = .ok ys ↔ Pointwise (fun x y => f x = .ok y) xs ys := by
  induction xs generalizing ys with
  | nil =>
    constructor
    · intro h
      simp [mapME, pure, Except.pure] at h
      subst h; exact .nil
    · intro h; cases h; rfl
  | cons x xs ih =>
    constructor
    · intro h
      simp only [mapME, bind, Except.bind] at h
      cases hx : f x with
      | error e => simp [hx] at h
      | ok y =>
        simp only [hx] at h
        cases hr : mapME f xs with
        | error e => simp [hr] at h
        | ok r =>
          simp only [hr, pure, Except.pure] at h
          injection h with h
          subst h
          exact .cons hx ((ih r).1 hr)
    · intro h
      cases h with
      | cons hx hr =>
        rename_i y r
        simp [mapME, bind, Except.bind, hx, (ih r).2 hr, pure, Except.pure]

theorem mapME_length {α β} (f : α → Except LErr β) (xs : List α) (ys : List β) (h : mapME f xs = .ok ys) :
    ys.length = xs.length := by
  have := (mapME_ok_iff f xs ys).1 h
  exact this.length_eq.symm

/-- the first failing element decides the error -/
theorem mapME_error_of_first {α β} (f : α → Except LErr β) (pre : List α) (x : α) (post : List α) (e : LErr)
    (hpre : ∀ a ∈ pre, ∃ b, f a = .ok b) (hx : f x = .error e) :
    mapME f (pre ++ x :: post) = .error e := by
  induction pre with
  | nil => simp [mapME, bind, Except.bind, hx]
  | cons a pre ih =>
    obtain ⟨b, hb⟩ := hpre a (by simp)
    have := ih (fun a' h' => hpre a' (by simp [h']))
    simp [mapME, bind, Except.bind, hb, this]

theorem mapME_congr {α β} (f g : α → Except LErr β) (xs : List α) (h : ∀ x ∈ xs, f x = g x) :
    mapME f xs = mapME g xs := by
  induction xs with
  | nil => rfl
  | cons x xs ih =>
    have hx := h x (by simp)
    have := ih (fun a ha => h a (by simp [ha]))
    simp [mapME, hx, this]

theorem mapME_map {α β γ} (f : β → Except LErr γ) (g : α → β) (xs : List α) :
    mapME f (xs.map g) = mapME (fun x => f (g x)) xs := by
  induction xs with
  | nil => rfl
  | cons x xs ih => simp [mapME, ih]

theorem mapME_singleton {α β} (f : α → Except LErr β) (x : α) :
    mapME f [x] = (f x >>= fun y => pure [y]) := by
  simp [mapME, bind, Except.bind, pure, Except.pure]

/-! ### `splitOn` / `joinSep` -/

theorem splitOn_ne_nil (sep : Char) (s : S) : splitOn sep s ≠ [] := by
  cases s with
  | nil => simp [splitOn]
  | cons c r =>
    simp only [splitOn]
    split
    · simp
    · cases splitOn sep r <;> simp [consHead]

/-- joining the pieces gives the string back — for every string -/
theorem joinSep_splitOn (sep : Char) (s : S) : joinSep sep (splitOn sep s) = s := by
  induction s with
  | nil => rfl
  | cons c r ih =>
    simp only [splitOn]
    have hne := splitOn_ne_nil sep r
    cases hsp : splitOn sep r with
    | nil => exact absurd hsp hne
    | cons p ps =>
      rw [hsp] at ih
      split
      · rename_i hc
        simp [joinSep, ih, hc]
      · cases ps with
        | nil => simp [consHead, joinSep] at ih ⊢; exact ih
        | cons q qs => simp [consHead, joinSep] at ih ⊢; exact ih

theorem splitOn_noSep (sep : Char) (s : S) (h : sep ∉ s) : splitOn sep s = [s] := by
  induction s with
  | nil => rfl
  | cons c r ih =>
    have hc : ¬ c = sep := fun e => h (by simp [e])
    have hr : sep ∉ r := fun e => h (by simp [e])
    simp [splitOn, hc, ih hr, consHead]

theorem splitOn_append_sep (sep : Char) (a b : S) (h : sep ∉ a) :
    splitOn sep (a ++ sep :: b) = a :: splitOn sep b := by
  induction a with
  | nil => simp [splitOn]
  | cons c r ih =>
    have hc : ¬ c = sep := fun e => h (by simp [e])
    have hr : sep ∉ r := fun e => h (by simp [e])
    simp [splitOn, hc, ih hr, consHead]

/-- splitting the join of separator-free items gives the items back (induction over the item list) -/
theorem splitOn_joinSep (sep : Char) (xs : List S) (hne : xs ≠ []) (h : ∀ x ∈ xs, sep ∉ x) :
    splitOn sep (joinSep sep xs) = xs := by
  induction xs with
  | nil => exact absurd rfl hne
  | cons x r ih =>
    cases r with
    | nil => simpa [joinSep] using splitOn_noSep sep x (h x (by simp))
    | cons y r' =>
      have hx : sep ∉ x := h x (by simp)
      have := ih (by simp) (fun a ha => h a (by simp [ha]))
      simp only [joinSep] at this ⊢
      rw [splitOn_append_sep sep x _ hx, this]

theorem splitOn_length_le (sep : Char) (s : S) : (splitOn sep s).length ≤ s.length + 1 := by
  induction s with
  | nil => simp [splitOn]
  | cons c r ih =>
    simp only [splitOn]
    split
    · simp; omega
    · cases hsp : splitOn sep r with
      | nil => simp [consHead]
      | cons p ps => rw [hsp] at ih; simp [consHead] at ih ⊢; omega

/-! ### `partitionAt` -/

theorem partitionAt_noSep (sep : Char) (s : S) (h : sep ∉ s) : partitionAt sep s = (s, none) := by
  induction s with
  | nil => rfl
  | cons c r ih =>
    have hc : ¬ c = sep := fun e => h (by simp [e])
    have hr : sep ∉ r := fun e => h (by simp [e])
    simp [partitionAt, hc, ih hr]

theorem partitionAt_append_sep (sep : Char) (k v : S) (h : sep ∉ k) :
    partitionAt sep (k ++ sep :: v) = (k, some v) := by
  induction k with
  | nil => simp [partitionAt]
  | cons c r ih =>
    have hc : ¬ c = sep := fun e => h (by simp [e])
    have hr : sep ∉ r := fun e => h (by simp [e])
    simp [partitionAt, hc, ih hr]

/-! ### the numeric-form test `s.replace('.', '', 1).isdigit()` -/

theorem replaceFirst_dot_noDot (s : S) (h : '.' ∉ s) : replaceFirst ['.'] [] s = s := by
  induction s with
  | nil => rfl
  | cons c r ih =>
    have hc : ¬ c = '.' := fun e => h (by simp [e])
    have hr : '.' ∉ r := fun e => h (by simp [e])
    have hc' : ('.' == c) = false := by
      simp only [beq_eq_false_iff_ne, ne_eq]; exact fun e => hc e.symm
    simp [replaceFirst, List.isPrefixOf, hc', ih hr]

theorem replaceFirst_dot_at (a b : S) (h : '.' ∉ a) : replaceFirst ['.'] [] (a ++ '.' :: b) = a ++ b := by
  induction a with
  | nil => simp [replaceFirst, List.isPrefixOf]
  | cons c r ih =>
    have hc : ¬ c = '.' := fun e => h (by simp [e])
    have hr : '.' ∉ r := fun e => h (by simp [e])
    have hc' : ('.' == c) = false := by
      simp only [beq_eq_false_iff_ne, ne_eq]; exact fun e => hc e.symm
    simp [replaceFirst, List.isPrefixOf, hc', ih hr]

theorem dot_not_digit : isDig '.' = false := by decide

theorem noDot_of_allDigits (s : S) (h : s.all isDig = true) : '.' ∉ s := by
  intro hm
  have := (List.all_eq_true.1 h) '.' hm
  simp [dot_not_digit] at this

/-! ### nesting contexts

A context is a list of layers, outermost first.  Each layer wraps a type, embeds a document as the single
element / value of that layer, and lifts the result of the inner load. -/

inductive Layer
  | seq (k : SeqKind)
  | vtuple
  | mapVal (mk : MapKind) (key : S)
  | opt
  deriving Repr

def Layer.wrapTy : Layer → Ty → Ty
  | .seq k, t => .seq k t
  | .vtuple, t => .vtuple t
  | .mapVal mk _, t => .map mk .str t
  | .opt, t => .optional t

def Layer.wrapDoc : Layer → JVal → JVal
  | .seq _, v => .list [v]
  | .vtuple, v => .list [v]
  | .mapVal _ key, v => .dict [(key, v)]
  | .opt, v => v

def wrapTys : List Layer → Ty → Ty
  | [], t => t
  | l :: ls, t => l.wrapTy (wrapTys ls t)

def wrapDocs : List Layer → JVal → JVal
  | [], v => v
  | l :: ls, v => l.wrapDoc (wrapDocs ls v)

/-- every `Optional[...]` layer sits above a non-null document (an Optional directly above a null leaf keeps None) -/
def optOk : List Layer → JVal → Bool
  | [], _ => true
  | .opt :: ls, v => (wrapDocs ls v).kind != .null && optOk ls v
  | _ :: ls, v => optOk ls v

theorem wrapDoc_container_kind (l : Layer) (v : JVal) (h : match l with | .opt => False | _ => True) :
    (l.wrapDoc v).kind ≠ .null := by
  cases l <;> simp [Layer.wrapDoc, JVal.kind] at h ⊢

/-- how the v1 engine lifts the result of the inner load through one layer -/
def Layer.liftV1 : Layer → LRes → LRes
  | .seq k, r => r >>= fun y => (mkSeq k [y]).mapError v1Wrap
  | .vtuple, r => r >>= fun y => pure (.tuple [y])
  | .mapVal mk key, r => r >>= fun y => (mkMap mk [(.str key, y)]).mapError v1Wrap
  | .opt, r => r

def liftsV1 : List Layer → LRes → LRes
  | [], r => r
  | l :: ls, r => l.liftV1 (liftsV1 ls r)

/-- the same for the default-engine Parser classes used by `EnvLoader` (no error rewriting) -/
def Layer.liftE : Layer → LRes → LRes
  | .seq k, r => r >>= fun y => mkSeq k [y]
  | .vtuple, r => r >>= fun y => pure (.tuple [y])
  | .mapVal mk key, r => r >>= fun y => mkMap mk [(.str key, y)]
  | .opt, r => r

def liftsE : List Layer → LRes → LRes
  | [], r => r
  | l :: ls, r => l.liftE (liftsE ls r)

end DW.Lemmas.C04
