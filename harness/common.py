"""Shared machinery of the /verif checks: path setup, Lean build + audit, driver I/O,
correspondence bookkeeping, verdict logic, evidence and replay files.

Runs under /venv/bin/python (CPython 3.12.1) with /repo first on sys.path.
"""
from __future__ import annotations

import fcntl
import hashlib
import json
import os
import random
import re
import subprocess
import sys
import time
import traceback
from pathlib import Path

VERIF = Path(__file__).resolve().parent.parent
LEAN = VERIF / 'lean'
REPO = Path(os.environ.get('VERIF_REPO', '/repo'))
DRIVER = Path(os.environ.get('VERIF_DRIVER') or (LEAN / '.lake' / 'build' / 'bin' / 'dwdriver'))
_OUT = Path(os.environ.get('VERIF_OUT') or VERIF)      # development only: evidence / replays of experiments go elsewhere
EVIDENCE = _OUT / 'evidence'
REPLAYS = _OUT / 'replays'
KNOWN_FINDINGS = VERIF / 'KNOWN_FINDINGS.jsonl'
GUARD = 'DATACLASS_WIZARD_VERIF'

ALLOWED_AXIOMS = {'propext', 'Classical.choice', 'Quot.sound'}
FORBIDDEN_RE = re.compile(
    r'\b(sorry|admit|native_decide|bv_decide|implemented_by|unsafe)\b|^\s*axiom\s|maxHeartbeats\s+0\b',
    re.M)


def setup_repo_path():
    """Make `import dataclass_wizard` resolve to the working tree under test."""
    p = str(REPO)
    if p in sys.path:
        sys.path.remove(p)
    sys.path.insert(0, p)
    os.environ[GUARD] = '1'
    import dataclass_wizard  # noqa
    f = os.path.realpath(dataclass_wizard.__file__)
    assert f.startswith(os.path.realpath(p) + os.sep), \
        f'dataclass_wizard imported from {f}, expected under {p}'
    return dataclass_wizard


# --------------------------------------------------------------------------- Lean side

class BuildLock:
    def __enter__(self):
        (LEAN / '.lake').mkdir(exist_ok=True)
        self.f = open(LEAN / '.lake' / 'verif.lock', 'w')
        fcntl.flock(self.f, fcntl.LOCK_EX)
        return self

    def __exit__(self, *a):
        fcntl.flock(self.f, fcntl.LOCK_UN)
        self.f.close()


def run_translator():
    """Regenerate DW/Generated/*.lean from /repo's working tree.
    Returns (ok, changed_files, message)."""
    cmd = ['/venv/bin/python', str(VERIF / 'tools' / 'extract_tables.py')]
    env = dict(os.environ, VERIF_REPO=str(REPO))
    p = subprocess.run(cmd, capture_output=True, text=True, env=env, timeout=300)
    changed = [l[len('CHANGED '):] for l in p.stdout.splitlines() if l.startswith('CHANGED ')]
    return p.returncode == 0, changed, (p.stdout + p.stderr)[-4000:]


def lake_build(targets, timeout=1500):
    p = subprocess.run(['lake', 'build', *targets], cwd=LEAN, capture_output=True,
                       text=True, timeout=timeout)
    return p.returncode == 0, (p.stdout + p.stderr)


def leanchecker(prop_id, timeout=1500):
    """replay the compiled module DW.Props.<id> (and its imports) through the toolchain's independent checker"""
    try:
        p = subprocess.run(['lake', 'env', 'leanchecker', f'DW.Props.{prop_id}'], cwd=LEAN, capture_output=True, text=True, timeout=timeout)
    except Exception as e:      # noqa
        return False, f'leanchecker did not run: {e!r}'
    return p.returncode == 0, (p.stdout + p.stderr)


def theorem_names(prop_id):
    """Names of the property theorems in DW/Props/<id>.lean (`theorem Cxx_*`)."""
    f = LEAN / 'DW' / 'Props' / f'{prop_id}.lean'
    if not f.exists():
        return []
    src = strip_lean_comments(f.read_text())
    return re.findall(r'^\s*(?:private\s+|protected\s+)?theorem\s+(' + prop_id + r'_[A-Za-z0-9_\'.]*)', src, re.M)


def strip_lean_comments(src):
    out, i, depth = [], 0, 0
    n = len(src)
    while i < n:
        if src.startswith('/-', i):
            depth += 1
            i += 2
        elif depth and src.startswith('-/', i):
            depth -= 1
            i += 2
        elif depth:
            i += 1
        elif src.startswith('--', i):
            while i < n and src[i] != '\n':
                i += 1
        else:
            out.append(src[i])
            i += 1
    return ''.join(out)


def module_closure(prop_id):
    """Lean source files (under lean/DW) transitively imported by Props/<id>.lean."""
    seen, todo = set(), [f'DW.Props.{prop_id}']
    while todo:
        m = todo.pop()
        if m in seen:
            continue
        f = LEAN / (m.replace('.', '/') + '.lean')
        if not f.exists():
            continue
        seen.add(m)
        for imp in re.findall(r'^\s*import\s+([\w.]+)', f.read_text(), re.M):
            if imp.startswith('DW.') or imp == 'DW':
                todo.append(imp)
    return sorted(seen)


def audit(prop_id):
    """`#print axioms` on every property theorem + grep for forbidden constructs.
    Returns dict(theorems=[...], axioms={thm: [...]}, bad=[...], forbidden=[...])."""
    names = theorem_names(prop_id)
    ns = 'DW.Props.' + prop_id
    audit_dir = LEAN / 'DW' / 'Audit'
    audit_dir.mkdir(exist_ok=True)
    af = audit_dir / f'{prop_id}.lean'
    body = [f'import DW.Props.{prop_id}', f'open {ns} in', 'section', 'end']
    body = [f'import DW.Props.{prop_id}']
    for n in names:
        body.append(f'#print axioms {ns}.{n}')
    af.write_text('\n'.join(body) + '\n')
    p = subprocess.run(['lake', 'env', 'lean', str(af)], cwd=LEAN, capture_output=True,
                       text=True, timeout=900)
    out = p.stdout + p.stderr
    axioms, bad = {}, []
    # outputs: "'X' depends on axioms: [a, b]" (may wrap lines) / "'X' does not depend on any axioms"
    flat = re.sub(r'\s+', ' ', out)
    for n in names:
        full = f'{ns}.{n}'
        m = re.search(r"'" + re.escape(full) + r"' depends on axioms: \[([^\]]*)\]", flat)
        if m:
            ax = [a.strip() for a in m.group(1).split(',') if a.strip()]
            axioms[n] = ax
            if not set(ax) <= ALLOWED_AXIOMS:
                bad.append((n, ax))
        elif re.search(r"'" + re.escape(full) + r"' does not depend on any axioms", flat):
            axioms[n] = []
        else:
            bad.append((n, 'no #print axioms output'))
    forbidden = []
    for m in module_closure(prop_id):
        f = LEAN / (m.replace('.', '/') + '.lean')
        src = strip_lean_comments(f.read_text())
        for hit in FORBIDDEN_RE.finditer(src):
            forbidden.append((m, hit.group(0).strip()))
    return dict(theorems=names, axioms=axioms, bad=bad, forbidden=forbidden,
                ok=(p.returncode == 0), raw=out[-3000:])


def broken_theorems(build_output, prop_id):
    """Best-effort: which property theorems does a failed build mention."""
    hits = set(re.findall(r'(' + prop_id + r'_[A-Za-z0-9_\']+)', build_output))
    files = set(re.findall(r'error: (DW/[\w/]+\.lean):(\d+)', build_output))
    return sorted(hits), sorted(files)


class Driver:
    """Batch interface to the compiled Lean driver."""

    def __init__(self):
        self.calls = 0
        self.lines = 0

    def run(self, reqs, timeout=1200):
        if not reqs:
            return []
        payload = '\n'.join(json.dumps(dict(r, id=i), ensure_ascii=False) for i, r in enumerate(reqs)) + '\n'
        p = subprocess.run([str(DRIVER)], input=payload.encode('utf-8', 'surrogatepass'),
                           capture_output=True, timeout=timeout)
        self.calls += 1
        self.lines += len(reqs)
        if p.returncode != 0:
            raise RuntimeError(f'dwdriver exited {p.returncode}: {p.stderr[-2000:]!r}')
        outs = [None] * len(reqs)
        for line in p.stdout.decode('utf-8', 'replace').split('\n'):
            if not line.strip():
                continue
            o = json.loads(line)
            if 'id' in o and o['id'] is not None:
                outs[o['id']] = o
        for i, o in enumerate(outs):
            if o is None:
                outs[i] = {'err': 'no output line'}
        return outs


# --------------------------------------------------------------------------- bookkeeping

def canon(o):
    return json.dumps(o, sort_keys=True, ensure_ascii=False, default=repr)


def case_hash(o):
    return hashlib.sha1(canon(o).encode('utf-8', 'surrogatepass')).hexdigest()[:16]


class Ctx:
    """Per-run context handed to a property module's `run(ctx)`."""

    def __init__(self, prop_id, tier, seed, search=False):
        self.prop_id = prop_id
        self.tier = tier
        self.seed = seed
        self.search = search          # True in the failing-input search after a broken obligation
        self.rng = random.Random(f'{prop_id}:{seed}')
        self.driver = Driver()
        self.t0 = time.time()
        self.evaluations = 0
        self.hashes_nontrivial = set()
        self.kind_counts = {}
        self.samples = []
        self.disagreements = []       # correspondence breaks (model != impl)
        self.failures = []            # oracle failures (property violated on impl)
        self.notes = {}
        self.traces_validated = 0
        self.trusted = []
        self.assumptions = []
        self.rule = ''
        self.exhaustive = False
        self.deadline = None
        self.only = None              # replay: evaluate only this case index
        self.current = None
        self.model_available = True

    # -- counting
    def count(self, kind, n=1):
        self.kind_counts[kind] = self.kind_counts.get(kind, 0) + n

    def seen(self, kind, case, nontrivial=True):
        self.evaluations += 1
        self.count(kind)
        if nontrivial:
            self.hashes_nontrivial.add(case_hash([kind, case]))
        if len(self.samples) < 12 and self.kind_counts[kind] <= 2:
            self.samples.append({'kind': kind, 'case': _short(case)})

    def begin_case(self, i):
        """Call after the case has been *generated* (so the RNG stream is identical in replays);
        returns False when the case must not be evaluated (replay of another index / out of time)."""
        self.current = i
        if self.only is not None:
            return i == self.only
        return True

    def done(self, i):
        """True when a replay has passed its case, or the time budget is used up"""
        if self.only is not None and i > self.only:
            return True
        return self.deadline is not None and time.time() > self.deadline

    def quick(self, q, t):
        return q if self.tier == 'quick' else t

    def time_left(self):
        return None if self.deadline is None else self.deadline - time.time()

    # -- recording
    def agree(self, kind, case, impl_out, model_out, note=''):
        """Record one correspondence comparison (already canonicalised by the caller)."""
        self.traces_validated += 1
        if canon(impl_out) != canon(model_out):
            if len(self.disagreements) < 200:
                self.disagreements.append(dict(kind=kind, case=case, impl=impl_out,
                                               model=model_out, note=note))
            else:
                self.count('disagreements_dropped')
            return False
        return True

    def fail(self, kind, case, what, key=None, detail=None):
        """Record a violation of the property observed on the implementation.
        `key` identifies a known-finding class when the failure is attributable to one."""
        if len(self.failures) < 200:
            self.failures.append(dict(kind=kind, case=case, what=what, key=key, detail=detail,
                                      index=self.current, seed=self.seed, tier=self.tier))
        else:
            self.count('failures_dropped')


def _short(o, limit=600):
    s = canon(o)
    if len(s) <= limit:
        return o
    return s[:limit] + '…'


def load_known_findings(prop_id):
    known, fixed = {}, {}
    if KNOWN_FINDINGS.exists():
        for line in KNOWN_FINDINGS.read_text().splitlines():
            line = line.strip()
            if not line or line.startswith('#'):
                continue
            e = json.loads(line)
            if prop_id not in e.get('properties', [e.get('property')]):
                continue
            (known if e['status'] == 'known' else fixed)[e['key']] = e
    return known, fixed


def write_replay(prop_id, seed, n, obj):
    REPLAYS.mkdir(parents=True, exist_ok=True)
    p = REPLAYS / f'{prop_id}-{seed}-{n}.json'
    p.write_text(json.dumps(obj, indent=1, ensure_ascii=False, default=repr))
    return p


def write_evidence(prop_id, tier, seed, coverage, assumptions, wall, violations):
    EVIDENCE.mkdir(parents=True, exist_ok=True)
    ev = dict(property_id=prop_id, tier=tier, seed=seed, level='proof', coverage=coverage,
              assumptions=assumptions, wall_s=round(wall, 2), violations=violations)
    (EVIDENCE / f'{prop_id}.json').write_text(json.dumps(ev, indent=1, ensure_ascii=False, default=repr))


BASE_TRUSTED = [
    "Lean 4.33.0 kernel (thorough tier: also leanchecker on the property module)",
    "axioms ⊆ {propext, Classical.choice, Quot.sound}, audited by #print axioms on every property theorem each run",
    "tools/extract_tables.py reports the live objects / AST facts of /repo faithfully",
    "Lean.Data.Json and the decoding glue in lean/DW/Driver/*.lean and lean/Main.lean",
    "harness generators, rendering of class models to Python source, canonicalisation of outcomes",
    "correspondence is differential testing of the hand-written model against the code: it samples",
]
