"""A fixed battery of class models that makes every code generator of the library emit each of its code shapes once,
with user names carrying the marker `Zq7` so that generator-internal names can be told from user-derived ones.
Used by the translator (tables of generator-internal names, scope rows) and by the C15 harness."""
from __future__ import annotations

MARK = 'Zq7'

SRC = '''
from dataclasses import dataclass, field
from typing import *
from datetime import date, time, datetime, timedelta
from decimal import Decimal
from enum import Enum
from uuid import UUID
from pathlib import Path
from collections import deque
from dataclass_wizard import (JSONWizard, fromdict, asdict, json_field, json_key, CatchAll, skip_if_field, EQ, IS, NE, IS_TRUTHY, SkipIf,
                              path_field, KeyPath, LoadMeta, DumpMeta, DatePattern, TimePattern, DateTimePattern, Pattern, EnvWizard)


class Zq7Color(Enum):
    R = 'r'
    G = 'g'


class Zq7Nt(NamedTuple):
    zq7_a: int
    zq7_b: str = 'x'
    zq7_c: Optional[datetime] = None


class Zq7Td(TypedDict):
    zq7_k: int
    zq7_w: datetime


class Zq7Td2(TypedDict, total=False):
    zq7_k: int


class Zq7Str(str):
    pass


class Zq7Dt(datetime):
    pass


@dataclass
class Zq7In:
    zq7_z: int = 1
    zq7_when: Optional[datetime] = None


@dataclass
class Zq7M1(JSONWizard):
    class _(JSONWizard.Meta):
        tag = 'zq7-one'
    zq7_v: int = 0


@dataclass
class Zq7M2(JSONWizard):
    class _(JSONWizard.Meta):
        tag = 'zq7-two'
    zq7_v: str = ''


def make(v1, variant):
    @dataclass
    class Zq7Root(JSONWizard):
        class _(JSONWizard.Meta):
            tag_key = 'zq7 tag'
            if variant == 1:
                skip_if = EQ(2.5)
                skip_defaults_if = EQ(1.5)
            if variant == 2:
                raise_on_unknown_json_key = True
                marshal_date_time_as = 'TIMESTAMP'
                key_transform_with_dump = 'SNAKE'
        zq7_i: int
        zq7_s: Optional[str]
        zq7_c: Zq7Color
        zq7_nt: Zq7Nt
        zq7_td: Zq7Td
        zq7_td2: Zq7Td2
        zq7_inn: Zq7In
        zq7_l: list[Zq7In]
        zq7_d: dict[str, Decimal]
        zq7_u: Union[int, str, None]
        zq7_t: tuple[int, str]
        zq7_vt: tuple[int, ...]
        zq7_dt: datetime
        zq7_tdl: timedelta
        zq7_lit: Literal['a', 1]
        zq7_st: set[int]
        zq7_dd: DefaultDict[str, list[int]]
        zq7_uu: UUID
        zq7_fl: float
        zq7_bo: bool
        zq7_da: date
        zq7_ti: time
        zq7_pa: Path
        zq7_fs: frozenset[str]
        zq7_dq: Deque[int]
        zq7_sub: Zq7Str
        zq7_sdt: Zq7Dt
        zq7_mem: Union[Zq7M1, Zq7M2, None]
        zq7_col: Union[Zq7Color, int]
        zq7_any: Any
        zq7_al: int = json_field('ZQ7 ALIAS', all=True, default=1)
        zq7_ak: Annotated[str, json_key('zq7-k1', 'zq7-k2', all=True)] = 'q'
        zq7_sk: Optional[str] = skip_if_field(IS(None), default=None)
        zq7_sk2: Annotated[float, SkipIf(EQ(7.5))] = 7.5
        zq7_hid: int = json_field('zq7hid', dump=False, default=2)
        zq7_fac: list[int] = field(default_factory=list)
    if variant != 2:
        Zq7Root.__annotations__  # noqa
    if v1:
        LoadMeta(v1=True, v1_key_case='AUTO').bind_to(Zq7Root)
    return Zq7Root


def make_paths(v1):
    if v1:
        from dataclass_wizard.v1 import AliasPath, Alias

        @dataclass
        class Zq7P(JSONWizard):
            class _(JSONWizard.Meta):
                v1 = True
            zq7_x: int = AliasPath('zq7a.zq7b[0]', default=3)
            zq7_y: str = Alias('ZQ7Y', 'zq7yy', default='d')
            zq7_rest: CatchAll = None
        return Zq7P

    @dataclass
    class Zq7P(JSONWizard):
        zq7_x: int = path_field('zq7a.zq7b[0]', default=3)
        zq7_y: Annotated[str, KeyPath('zq7c."zq7 d"')] = 'd'
        zq7_rest: CatchAll = None
    return Zq7P


def make_patterns(v1):
    if v1:
        from dataclass_wizard.v1 import DatePattern as DP, DateTimePattern as DTP, TimePattern as TP

        @dataclass
        class Zq7Pat(JSONWizard):
            class _(JSONWizard.Meta):
                v1 = True
            zq7_d: DP['%d/%m/%Y']
            zq7_dt: DTP['%d/%m/%Y %H:%M']
            zq7_t: TP['%Hh%M']
        return Zq7Pat

    @dataclass
    class Zq7Pat(JSONWizard):
        zq7_d: DatePattern['%d/%m/%Y']
        zq7_dt: DateTimePattern['%d/%m/%Y %H:%M']
        zq7_t: TimePattern['%Hh%M']
    return Zq7Pat


def make_env():
    class Zq7Env(EnvWizard, reload_env=True):
        zq7_var: int
        zq7_list: list[int]
        zq7_opt: Optional[str] = None
    return Zq7Env
'''

DOC = {'zq7_i': 1, 'zq7_s': None, 'zq7_c': 'r', 'zq7_nt': [1], 'zq7_td': {'zq7_k': 1, 'zq7_w': '2020-01-01T00:00:00'}, 'zq7_td2': {},
       'zq7_inn': {}, 'zq7_l': [{'zq7_z': 2}], 'zq7_d': {'a': '1.5'}, 'zq7_u': 1, 'zq7_t': [1, 'a'], 'zq7_vt': [1, 2],
       'zq7_dt': '2020-01-01T00:00:00', 'zq7_tdl': '1:00:00', 'zq7_lit': 'a', 'zq7_st': [1], 'zq7_dd': {'k': [1]},
       'zq7_uu': '12345678123456781234567812345678', 'zq7_fl': 1.5, 'zq7_bo': True, 'zq7_da': '2020-01-02', 'zq7_ti': '01:02:03',
       'zq7_pa': '/tmp', 'zq7_fs': ['a'], 'zq7_dq': [1], 'zq7_sub': 's', 'zq7_sdt': '2020-01-01T00:00:00',
       'zq7_mem': {'zq7 tag': 'zq7-two', 'zq7_v': 'x'}, 'zq7_col': 3, 'zq7_any': [1]}


def run_all():
    """exercise every generator; returns nothing (the caller captures)"""
    import logging
    import warnings
    logging.disable(logging.CRITICAL)
    warnings.simplefilter('ignore')
    import sys
    import types
    mod = types.ModuleType('dwv_battery15')
    sys.modules['dwv_battery15'] = mod
    ns = mod.__dict__
    exec(compile(SRC, '<battery15>', 'exec', dont_inherit=True), ns)
    from dataclass_wizard import fromdict, asdict
    for v1 in (False, True):
        for variant in (0, 1, 2):
            cls = ns['make'](v1, variant)
            x = fromdict(cls, dict(DOC))
            asdict(x)
            asdict(x, skip_defaults=True, exclude=['zq7_i'])
            x.to_json()
        p = ns['make_paths'](v1)
        px = fromdict(p, {'zq7a': {'zq7b': [5]}, 'other': 1})
        asdict(px)
        pat = ns['make_patterns'](v1)
        q = fromdict(pat, {'zq7_d': '01/02/2020', 'zq7_dt': '01/02/2020 10:30', 'zq7_t': '10h30'})
        asdict(q)
    # EnvWizard
    import os
    os.environ['ZQ7_VAR'] = '5'
    os.environ['ZQ7_LIST'] = '1,2'
    Zq7Env = ns['make_env']()
    e = Zq7Env()
    e.dict()
    e.to_dict()
    logging.disable(logging.NOTSET)
