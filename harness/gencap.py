"""Capture of the code the library generates (C15): every FunctionBuilder.create_functions call is recorded with the
source of each function, the names it closes over and the globals it is executed in; scope analysis with `symtable`."""
from __future__ import annotations

import ast
import builtins
import contextlib
import symtable

BUILTINS = set(dir(builtins))


class Capture:
    def __init__(self):
        self.batches = []      # [{'functions': {name: {'args', 'code', 'locals': [names]}}, 'globals': set, 'text': str}]

    @contextlib.contextmanager
    def on(self):
        from dataclass_wizard.utils.function_builder import FunctionBuilder
        orig = FunctionBuilder.create_functions
        cap = self

        def wrapped(fb, _globals=None):
            fns = {k: {'args': list(v['args']), 'code': v['code'], 'locals': None, 'ret': v['return_type']} for k, v in fb.functions.items()}
            g_in = set(fb.globals if _globals is None else (_globals | fb.globals))
            try:
                out = orig(fb, _globals)
            except BaseException as e:      # noqa
                for k, v in fb.functions.items():
                    fns[k]['locals'] = sorted(v['locals'])
                cap.batches.append({'functions': fns, 'globals': g_in, 'error': repr(e)})
                raise
            for k, v in fb.functions.items():
                fns[k]['locals'] = sorted(v['locals'])
                fns[k]['locals_ordered'] = list(v['locals'])      # = the parameters of __create_<name>_fn__
                fns[k]['locals_values'] = dict(v['locals'])       # what the closure holds
            cap.batches.append({'functions': fns, 'globals': g_in, 'error': None})
            return out
        FunctionBuilder.create_functions = wrapped
        try:
            yield self
        finally:
            FunctionBuilder.create_functions = orig


def fn_source(name, f):
    return f"def {name}({','.join(f['args'])}):\n{f['code']}"


def scope_report(name, f, globals_names, batch_names):
    """-> (problems, bound_names, referenced_names).  A generated function may refer to: its parameters and the names
    it assigns, the names of its closure (`locals` of the builder), the globals it is executed in, the other functions
    of the same batch (stored into those globals afterwards) and builtins."""
    src = fn_source(name, f)
    try:
        tree = ast.parse(src)
    except SyntaxError as e:
        return [f'does not compile: {e.msg} (line {e.lineno})'], set(), set()
    closure = set(f['locals'] or [])
    problems = []
    bound, referenced = set(), set()

    def walk(tab, inherited):
        local = set()
        for sym in tab.get_symbols():
            n = sym.get_name()
            if sym.is_parameter() or sym.is_assigned() or sym.is_imported():
                if not sym.is_global():
                    local.add(n)
        here = inherited | local
        for sym in tab.get_symbols():
            n = sym.get_name()
            if sym.is_referenced():
                referenced.add(n)
                if n in here or n in closure or n in globals_names or n in batch_names or n in BUILTINS:
                    continue
                problems.append(f'free name {n!r} in {tab.get_name()}')
        bound.update(local)
        for ch in tab.get_children():
            # class scopes do not occur; comprehension / lambda scopes see the enclosing function's names
            walk(ch, here)

    top = symtable.symtable(src, '<generated>', 'exec')
    for ch in top.get_children():
        walk(ch, set())
    return problems, bound, referenced


def analyse(cap: Capture):
    """-> rows [(function name, 'ok' | problems)], all bound names, all referenced names"""
    rows, bound_all, ref_all = [], set(), set()
    for b in cap.batches:
        names = set(b['functions'])
        for name, f in b['functions'].items():
            probs, bound, ref = scope_report(name, f, b['globals'], names)
            if b['error']:
                probs = probs + [f'batch failed: {b["error"][:200]}']
            rows.append((name, 'ok' if not probs else '; '.join(sorted(set(probs)))))
            bound_all |= bound | set(f['locals'] or [])
            ref_all |= ref
    return rows, bound_all, ref_all


MUTATORS = {'pop', 'popitem', 'clear', 'update', 'setdefault', 'append', 'extend', 'insert', 'remove', 'sort', 'reverse', 'add',
            'discard', 'appendleft', 'extendleft', 'rotate', '__setitem__', '__delitem__', '__iadd__', 'move_to_end'}


def param_writes(name, f):
    """statements of a generated function that write *through one of its parameters* (the document / the instance it was
    given): item or attribute assignment / deletion / augmented assignment whose target is rooted in a parameter, and calls
    of mutating container methods on an expression rooted in a parameter.  Names re-bound inside the function (e.g. a loop
    variable shadowing a parameter) no longer count as the parameter.  -> list of descriptions"""
    src = fn_source(name, f)
    try:
        tree = ast.parse(src)
    except SyntaxError:
        return []
    fn = tree.body[0]
    params = {a.arg for a in fn.args.args + fn.args.kwonlyargs + fn.args.posonlyargs}
    if fn.args.vararg:
        params.add(fn.args.vararg.arg)
    if fn.args.kwarg:
        params.add(fn.args.kwarg.arg)
    # a parameter that is assigned anywhere in the body is treated as a local from then on: drop it (conservative for the
    # claim "no write through the caller's object" only if the new value is fresh; the generators never re-bind `o`)
    rebound = set()
    for node in ast.walk(fn):
        if isinstance(node, ast.Name) and isinstance(node.ctx, ast.Store) and node.id in params:
            rebound.add(node.id)
    # aliases: `v1 = o.get(...)`-style locals hold *parts* of the input: track simple aliases rooted in a parameter
    rooted = set(params)
    changed = True
    while changed:
        changed = False
        for node in ast.walk(fn):
            if isinstance(node, ast.Assign) and len(node.targets) == 1 and isinstance(node.targets[0], ast.Name):
                if node.targets[0].id not in rooted and _root(node.value) in rooted:
                    rooted.add(node.targets[0].id)
                    changed = True
            elif isinstance(node, ast.For) and isinstance(node.target, ast.Name):
                if node.target.id not in rooted and _root(node.iter) in rooted:
                    rooted.add(node.target.id)
                    changed = True
    out = []
    for node in ast.walk(fn):
        targets = []
        if isinstance(node, ast.Assign):
            targets = node.targets
        elif isinstance(node, (ast.AugAssign, ast.AnnAssign)):
            targets = [node.target]
        elif isinstance(node, ast.Delete):
            targets = node.targets
        for t in targets:
            for tt in (t.elts if isinstance(t, (ast.Tuple, ast.List)) else [t]):
                if isinstance(tt, (ast.Subscript, ast.Attribute)) and _root(tt.value) in rooted:
                    out.append(f'line {node.lineno}: writes {ast.unparse(tt)}')
        if isinstance(node, ast.Call) and isinstance(node.func, ast.Attribute) and node.func.attr in MUTATORS:
            if _root(node.func.value) in rooted:
                out.append(f'line {node.lineno}: calls {ast.unparse(node.func)}(...)')
    return out


def _root(e):
    """the name an expression is rooted in: `o['a'].b[0]` -> 'o'; calls of non-mutating accessors keep the root
    (`o.get(k)`, `o.items()`); anything else -> None"""
    while True:
        if isinstance(e, ast.Name):
            return e.id
        if isinstance(e, (ast.Subscript, ast.Attribute)):
            e = e.value
        elif isinstance(e, ast.Call) and isinstance(e.func, ast.Attribute) and e.func.attr in ('get', 'items', 'values', 'keys'):
            e = e.func.value
        else:
            return None
