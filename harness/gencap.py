"""Capture of the code the library generates (C15): every FunctionBuilder.create_functions call is recorded with the
source of each function, the names it closes over and the globals it is executed in; scope analysis with `symtable`."""
from __future__ import annotations

import ast
import builtins
import contextlib
import symtable

BUILTINS = set(dir(builtins))


class Capture:
    def __init__(self):
        self.batches = []      # [{'functions': {name: {'args', 'code', 'locals': [names]}}, 'globals': set, 'text': str}]

    @contextlib.contextmanager
    def on(self):
        from dataclass_wizard.utils.function_builder import FunctionBuilder
        orig = FunctionBuilder.create_functions
        cap = self

        def wrapped(fb, _globals=None):
            fns = {k: {'args': list(v['args']), 'code': v['code'], 'locals': None, 'ret': v['return_type']} for k, v in fb.functions.items()}
            g_in = set(fb.globals if _globals is None else (_globals | fb.globals))
            try:
                out = orig(fb, _globals)
            except BaseException as e:      # noqa
                for k, v in fb.functions.items():
                    fns[k]['locals'] = sorted(v['locals'])
                cap.batches.append({'functions': fns, 'globals': g_in, 'error': repr(e)})
                raise
            for k, v in fb.functions.items():
                fns[k]['locals'] = sorted(v['locals'])
            cap.batches.append({'functions': fns, 'globals': g_in, 'error': None})
            return out
        FunctionBuilder.create_functions = wrapped
        try:
            yield self
        finally:
            FunctionBuilder.create_functions = orig


def fn_source(name, f):
    return f"def {name}({','.join(f['args'])}):\n{f['code']}"


def scope_report(name, f, globals_names, batch_names):
    """-> (problems, bound_names, referenced_names).  A generated function may refer to: its parameters and the names
    it assigns, the names of its closure (`locals` of the builder), the globals it is executed in, the other functions
    of the same batch (stored into those globals afterwards) and builtins."""
    src = fn_source(name, f)
    try:
        tree = ast.parse(src)
    except SyntaxError as e:
        return [f'does not compile: {e.msg} (line {e.lineno})'], set(), set()
    closure = set(f['locals'] or [])
    problems = []
    bound, referenced = set(), set()

    def walk(tab, inherited):
        local = set()
        for sym in tab.get_symbols():
            n = sym.get_name()
            if sym.is_parameter() or sym.is_assigned() or sym.is_imported():
                if not sym.is_global():
                    local.add(n)
        here = inherited | local
        for sym in tab.get_symbols():
            n = sym.get_name()
            if sym.is_referenced():
                referenced.add(n)
                if n in here or n in closure or n in globals_names or n in batch_names or n in BUILTINS:
                    continue
                problems.append(f'free name {n!r} in {tab.get_name()}')
        bound.update(local)
        for ch in tab.get_children():
            # class scopes do not occur; comprehension / lambda scopes see the enclosing function's names
            walk(ch, here)

    top = symtable.symtable(src, '<generated>', 'exec')
    for ch in top.get_children():
        walk(ch, set())
    return problems, bound, referenced


def analyse(cap: Capture):
    """-> rows [(function name, 'ok' | problems)], all bound names, all referenced names"""
    rows, bound_all, ref_all = [], set(), set()
    for b in cap.batches:
        names = set(b['functions'])
        for name, f in b['functions'].items():
            probs, bound, ref = scope_report(name, f, b['globals'], names)
            if b['error']:
                probs = probs + [f'batch failed: {b["error"][:200]}']
            rows.append((name, 'ok' if not probs else '; '.join(sorted(set(probs)))))
            bound_all |= bound | set(f['locals'] or [])
            ref_all |= ref
    return rows, bound_all, ref_all
