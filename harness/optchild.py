"""C05 under another interpreter setting: the child side.

Started by harness/props/c05_ext.py as `/venv/bin/python -O -m harness.optchild` (cwd = the machinery's directory, the tree
under test named by VERIF_REPO as for every harness process). Reads one JSON document from stdin:

    {"min_optimize": 1, "cases": [{"i": <case index>, "ty": <class model>, "doc": <document>}, ...]}

rebuilds the classes of every case from its class model (rendering is a function of the model alone), loads the document
through the root class and applies the *same* oracle as the parent (c05.conforms, c05.strict_eq on the input, c05._known
for attribution); writes one JSON line per case to stdout:

    {"i": .., "raised": "<exception type>"} | {"i": .., "returned": true, "conforms": bool, "repr": "..", "key": ..}
    (+ "mutated": [before, after] when the input changed), last line {"done": n, "optimize": sys.flags.optimize}

No `assert` statement is relied upon here (they are compiled away, which is the point of the exercise).
"""
from __future__ import annotations

import copy
import json
import os
import sys


def main():
    req = json.loads(sys.stdin.read())
    if sys.flags.optimize < req.get('min_optimize', 0):
        sys.stderr.write(f'optchild: interpreter runs with optimize={sys.flags.optimize}\n')
        return 3
    from harness import common as C
    dw = C.setup_repo_path()
    f = os.path.realpath(dw.__file__)
    if not f.startswith(os.path.realpath(str(C.REPO)) + os.sep):        # setup_repo_path checks this with an assert
        sys.stderr.write(f'optchild: dataclass_wizard imported from {f}\n')
        return 3
    from dataclass_wizard import fromdict
    from harness import model
    from harness.props import c05
    out = sys.stdout
    n = 0
    for case in req['cases']:
        ty, doc = case['ty'], case['doc']
        res = {'i': case['i']}
        try:
            built = model.Built(ty)
        except Exception as e:          # the parent built the same model: report, do not judge
            res['build_error'] = repr(e)[:300]
            out.write(json.dumps(res) + '\n')
            continue
        try:
            before = copy.deepcopy(doc)
            try:
                y = fromdict(built.root, doc)
            except Exception as e:
                res['raised'] = type(e).__name__
            else:
                try:
                    okc = bool(c05.conforms(y, ty, built))
                except Exception:
                    okc = False
                res.update(returned=True, conforms=okc, repr=repr(y)[:1200])
                if not okc:
                    try:
                        res['key'] = c05._known(y, ty, built)
                    except Exception:
                        res['key'] = None
            if not c05.strict_eq(doc, before):
                res['mutated'] = [repr(before)[:600], repr(doc)[:600]]
        finally:
            built.close()
        out.write(json.dumps(res) + '\n')
        n += 1
    out.write(json.dumps({'done': n, 'optimize': sys.flags.optimize}) + '\n')
    out.flush()
    return 0


if __name__ == '__main__':
    sys.exit(main())
