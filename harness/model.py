"""Class models as data: type grammar (JSON, mirrored by DW/Model/Values.lean `Ty`), rendering to real
Python source, building the classes, encoding Python values for the Lean driver, computing the stdlib
tables (`Std`) by calling the stdlib itself, and canonicalising outcomes.
"""
from __future__ import annotations

import base64
import collections
import dataclasses
import datetime as dt
import decimal
import enum
import itertools
import json
import math
import pathlib
import sys
import types
import uuid
from typing import Any

_counter = itertools.count()


def fresh(prefix='K'):
    return f'{prefix}{next(_counter)}'


# --------------------------------------------------------------------------- type constructors (JSON)

def T(k, *a, **kw):
    d = {'k': k}
    if a:
        d['a'] = list(a)
    d.update(kw)
    return d


SCALARS = ['int', 'float', 'str', 'bool', 'none', 'any', 'decimal', 'path', 'uuid', 'date', 'time', 'datetime', 'timedelta']
PY_NAME = {'int': 'int', 'float': 'float', 'str': 'str', 'bool': 'bool', 'none': 'None', 'any': 'Any',
           'decimal': 'Decimal', 'path': 'Path', 'uuid': 'UUID', 'date': 'date', 'time': 'time',
           'datetime': 'datetime', 'timedelta': 'timedelta', 'bytes': 'bytes', 'bytearray': 'bytearray'}


SAFE = False     # C15: render every library / builtin name qualified, so that adversarial field and class names cannot shadow it
QUAL = {'int': '_b.int', 'float': '_b.float', 'str': '_b.str', 'bool': '_b.bool', 'None': 'None', 'Any': '_t.Any',
        'Decimal': '_dec.Decimal', 'Path': '_pl.Path', 'UUID': '_uu.UUID', 'date': '_dtm.date', 'time': '_dtm.time',
        'datetime': '_dtm.datetime', 'timedelta': '_dtm.timedelta', 'bytes': '_b.bytes', 'bytearray': '_b.bytearray',
        'Optional': '_t.Optional', 'Union': '_t.Union', 'list': '_b.list', 'set': '_b.set', 'frozenset': '_b.frozenset',
        'Deque': '_t.Deque', 'tuple': '_b.tuple', 'dict': '_b.dict', 'DefaultDict': '_t.DefaultDict', 'OrderedDict': '_t.OrderedDict',
        'Literal': '_t.Literal', 'Enum': '_en.Enum', 'NamedTuple': '_t.NamedTuple', 'TypedDict': '_t.TypedDict',
        'NotRequired': '_te.NotRequired', 'dataclass': '_dc.dataclass', 'field': '_dc.field', 'json_field': '_dw.json_field',
        'skip_if_field': '_dw.skip_if_field', 'CatchAll': '_dw.CatchAll', 'JSONWizard': '_dw.JSONWizard',
        'JSONPyWizard': '_dw.JSONPyWizard', 'YAMLWizard': '_wm.YAMLWizard', 'TOMLWizard': '_wm.TOMLWizard',
        'JSONFileWizard': '_wm.JSONFileWizard', 'BaseJSONWizardMeta': '_bm.BaseJSONWizardMeta', 'type': '_b.type', 'float(': '_b.float('}
QUAL.update({'Annotated': '_t.Annotated', 'IntEnum': '_en.IntEnum', 'StrEnum': '_en.StrEnum', 'DumpMixin': '_dw.DumpMixin',
             'LoadMixin': '_dw.LoadMixin'})
for _n in ('EQ', 'NE', 'LT', 'LE', 'GT', 'GE', 'IS', 'IS_NOT', 'IS_TRUTHY', 'IS_FALSY'):
    QUAL[_n] = '_dw.' + _n


def q(name):
    return QUAL[name] if SAFE else name


def wrap_def(bind, pyname, src, tail=''):
    """a class-like definition whose __name__ is `pyname` but which is bound at module level as `bind`"""
    if pyname is None or pyname == bind:
        return src + tail
    body = '\n'.join('    ' + ln if ln else ln for ln in src.rstrip('\n').split('\n'))
    return f'def _mk_{bind}():\n{body}\n    return {pyname}\n{bind} = _mk_{bind}()\n' + tail


def lit_src(v):
    if isinstance(v, float):
        if math.isnan(v):
            return q('float(') + "'nan')"
        if math.isinf(v):
            return q('float(') + ("'inf')" if v > 0 else "'-inf')")
    return repr(v)


def ty_src(t, defs):
    """Python annotation source for type `t`; class-like definitions are appended to `defs` (ordered dict name -> src)."""
    k = t['k']
    if k in PY_NAME:
        return q(PY_NAME[k])
    a = t.get('a', [])
    if k == 'clsobj':
        # a position whose *values are class objects* (C03): spelled `type`, `Type[Any]` or `Any`
        return {'type': q('type'), 'Type': '_t.Type[_t.Any]', 'Any': q('Any')}[t.get('sp') or 'type']
    if k == 'optional':
        if t.get('sp') == 'none_first':
            return f'{q("Union")}[None, {ty_src(a[0], defs)}]'
        return f'{q("Optional")}[{ty_src(a[0], defs)}]'
    if k == 'union':
        # optional `fwd`: the dataclass members are written as forward references inside a real typing.Union - Union['Cat', 'Dog', int] -
        # (True: the classes are defined before the class that refers to them; 'late': after it, see Built)
        parts = [ty_src(x, defs) for x in a]
        if t.get('fwd'):
            parts = [repr(sx) if x['k'] == 'cls' else sx for sx, x in zip(parts, a)]
        return q('Union') + '[' + ', '.join(parts) + ']'
    if k in ('list', 'set', 'frozenset'):
        return f'{q(k)}[{ty_src(a[0], defs)}]'
    if k == 'deque':
        return f'{q("Deque")}[{ty_src(a[0], defs)}]'
    if k == 'tuple':
        return q('tuple') + '[' + (', '.join(ty_src(x, defs) for x in a) if a else '()') + ']' if a else q('tuple')
    if k == 'vtuple':
        return f'{q("tuple")}[{ty_src(a[0], defs)}, ...]'
    if k == 'dict':
        return f'{q("dict")}[{ty_src(a[0], defs)}, {ty_src(a[1], defs)}]'
    if k == 'defaultdict':
        return f'{q("DefaultDict")}[{ty_src(a[0], defs)}, {ty_src(a[1], defs)}]'
    if k == 'ordereddict':
        return f'{q("OrderedDict")}[{ty_src(a[0], defs)}, {ty_src(a[1], defs)}]'
    if k == 'literal':
        return q('Literal') + '[' + ', '.join(lit_src(v) for v in t['vs']) + ']'
    if k == 'enum':
        if t['name'] not in defs:
            # optional `body`: further lines of the class body (a `_missing_` hook, ...)
            body = '\n'.join(f'    {m} = {lit_src(v)}' for m, v in t['members']) + ('\n' + t['body'] if t.get('body') else '')
            pn = t.get('pyname') or t['name']
            defs[t['name']] = wrap_def(t['name'], t.get('pyname'), f'class {pn}({enum_bases(t)}):\n{body}\n')
        return t['name']
    if k == 'annpat':
        # Annotated[<type>, Pattern(fmt)] (default engine); `const` names a module-level Pattern object that several
        # annotations share
        inner = ty_src(a[0], defs)
        if t.get('const'):
            if t['const'] not in defs:
                defs[t['const']] = f'{t["const"]} = _dw.Pattern({t["fmt"]!r})\n'
            pat = t['const']
        else:
            pat = f'_dw.Pattern({t["fmt"]!r})'
        return f'{q("Annotated")}[{inner}, {pat}]'
    if k == 'alias':
        # PEP 695 alias: `type <name> = <inner>` (lazily evaluated, so it may precede the classes it mentions)
        if t['name'] not in defs:
            defs[t['name']] = None
            inner = ty_src(a[0], defs)
            del defs[t['name']]
            defs[t['name']] = f'type {t["name"]} = {inner}\n'
        return t['name']
    if k == 'annotated':
        # Annotated[<inner>, <metadata the library has no use for>]
        return f'{q("Annotated")}[{ty_src(a[0], defs)}, {t.get("note", "note")!r}]'
    if k == 'sub':
        # a user-defined subclass of a stdlib leaf type (class SubN(date): pass)
        if t['name'] not in defs:
            defs[t['name']] = f'class {t["name"]}({q(PY_NAME[t["base"]])}):\n    pass\n'
        return t['name']
    if k == 'namedtuple':
        if t['name'] not in defs:
            defs[t['name']] = None
            lines = []
            for n, ft, d in t['fields']:
                s = f'    {n}: {ty_src(ft, defs)}'
                if d is not None:
                    s += f' = {dflt_src(d)}'
                lines.append(s)
            del defs[t['name']]
            pn = t.get('pyname') or t['name']
            defs[t['name']] = wrap_def(t['name'], t.get('pyname'), f'class {pn}({q("NamedTuple")}):\n' + '\n'.join(lines) + '\n')
        return t['name']
    if k == 'typeddict' and t.get('own') is not None:
        # declaration form (additive): `own` = the keys of this class body as [name, type, marker] with marker None /
        # 'req' / 'notreq', `total` = the class's totality, `bases` = TypedDict nodes it inherits from; t['fields'] then is
        # the effective key list td_fields(t)
        if t['name'] not in defs:
            defs[t['name']] = None
            bases = [ty_src(b, defs) for b in t.get('bases') or []]
            lines = []
            for n, ft, mk in t['own']:
                inner = ty_src(ft, defs)
                if mk == 'req':
                    inner = f'{"_te.Required" if SAFE else "Required"}[{inner}]'
                elif mk == 'notreq':
                    inner = f'{q("NotRequired")}[{inner}]'
                lines.append(f'    {n}: {inner}')
            del defs[t['name']]
            pn = t.get('pyname') or t['name']
            head = ', '.join(bases or [q('TypedDict')]) + ('' if t.get('total', True) else ', total=False')
            defs[t['name']] = wrap_def(t['name'], t.get('pyname'), f'class {pn}({head}):\n' + '\n'.join(lines or ['    pass']) + '\n')
        return t['name']
    if k == 'typeddict':
        if t['name'] not in defs:
            defs[t['name']] = None
            lines = []
            for n, ft, req in t['fields']:
                inner = ty_src(ft, defs)
                if req and t.get('req_spelled'):
                    inner = f'{"_te.Required" if SAFE else "Required"}[{inner}]'
                lines.append(f'    {n}: {inner}' if req else f'    {n}: {q("NotRequired")}[{inner}]')
            del defs[t['name']]
            pn = t.get('pyname') or t['name']
            defs[t['name']] = wrap_def(t['name'], t.get('pyname'), f'class {pn}({q("TypedDict")}):\n' + '\n'.join(lines or ['    pass']) + '\n')
        return t['name']
    if k in ('selfref', 'ref'):
        # selfref: a reference to a class of the model by name, written as a string (forward reference): the class itself (self-referential
        # models need Meta.recursive_classes on the default engine) or one that is defined elsewhere in the module
        # ref: a position that leads back to a class model enclosing it (self-referential / mutually recursive dataclasses): written as a
        # forward reference, resolved by the library against the class's module on first use
        return repr(t['name'])
    if k == 'cls':
        name = t['info']['name']
        if name not in defs:
            defs[name] = None
            src = cls_src(t, defs)
            del defs[name]
            defs[name] = src
        return name
    raise ValueError(k)


def td_fields(t):
    """Effective keys [name, type, required] of a TypedDict node in declaration form, by the documented rule (PEP 589 /
    PEP 655, i.e. what `__required_keys__` / `__optional_keys__` mean): a key is required or not according to the class
    body that *declares* it - a Required[..] / NotRequired[..] marker, else that class's own totality - and is inherited
    unchanged, whatever the totality of the inheriting class."""
    if t.get('own') is None:
        return [list(f) for f in t['fields']]
    out = {}
    for b in t.get('bases') or []:
        for n, ft, req in td_fields(b):
            out[n] = [n, ft, req]
    for n, ft, mk in t['own']:
        out[n] = [n, ft, True if mk == 'req' else False if mk == 'notreq' else bool(t.get('total', True))]
    return list(out.values())


def enum_bases(t):
    """base list of an Enum definition: plain Enum, or (optional `mixin`) a data-type mix-in / IntEnum / StrEnum"""
    mx = t.get('mixin')
    if mx in (None, ''):
        return q('Enum')
    if mx in ('IntEnum', 'StrEnum'):
        return q(mx) if SAFE else '_en.' + mx
    if mx in ('Flag', 'IntFlag'):
        return '_en.' + mx
    return f'{q(mx)}, {q("Enum")}'


def dflt_src(d):
    if d[0] == 'lit':
        return lit_src(d[1])
    return {'list': '[]', 'dict': '{}', 'set': q('set') + '()', 'tuple': '()'}[d[0]]


def dflt_factory_src(d):
    return q({'list': 'list', 'dict': 'dict', 'set': 'set', 'tuple': 'tuple'}[d[0]])


def cond_src(c):
    op = c['op']
    name = {'==': 'EQ', '!=': 'NE', '<': 'LT', '<=': 'LE', '>': 'GT', '>=': 'GE', 'is': 'IS', 'is not': 'IS_NOT',
            '+': 'IS_TRUTHY', '!': 'IS_FALSY'}[op]
    if op in '+!':
        return f'{q(name)}()'
    return f'{q(name)}({lit_src(c.get("val"))})'


META_KEYS = ['key_transform_with_load', 'key_transform_with_dump', 'marshal_date_time_as', 'skip_defaults',
             'skip_if', 'skip_defaults_if', 'raise_on_unknown_json_key', 'tag_key', 'auto_assign_tags',
             'recursive_classes', 'tag', 'recursive',
             'v1', 'v1_key_case', 'v1_on_unknown_key', 'v1_unsafe_parse_dataclass_in_union', 'v1_field_to_alias',
             'debug_enabled', 'v1_debug']


def meta_items(meta):
    out = []
    for k in META_KEYS:
        if k in meta and meta[k] is not None:
            v = meta[k]
            if k in ('skip_if', 'skip_defaults_if'):
                out.append((k, cond_src(v)))
            else:
                out.append((k, repr(v)))
    return out


_DW = "__import__('dataclass_wizard')."
_V1 = "__import__('dataclass_wizard.v1', fromlist=['AliasPath'])."
_TP = "__import__('typing')."


def cls_src(t, defs):
    info = t['info']
    ftys = dict((n, ft) for n, ft in t['ftys'])
    wizard = info.get('wizard', True)
    base = {'py': f'({q("JSONPyWizard")})', 'yaml': f'({q("YAMLWizard")})', 'toml': f'({q("TOMLWizard")})',
            'file': f'({q("JSONWizard")}, {q("JSONFileWizard")})', True: f'({q("JSONWizard")})', False: ''}[wizard]
    pyname = info.get('pyname') or info['name']
    # optional `inherits`: {'base': <class model>, 'n': k} — the class derives from that class (instead of the wizard base); `fields` / `ftys`
    # list ALL its fields (what an instance has, what the driver's flat class model sees), the first k of them are the inherited ones
    if info.get('class_kw') and wizard is True:
        # optional `class_kw`: keyword arguments of the class statement, e.g. {'debug': True} -> class X(JSONWizard, debug=True)
        base = f'({q("JSONWizard")}, ' + ', '.join(f'{k}={v!r}' for k, v in info['class_kw'].items()) + ')'
    inh = info.get('inherits')
    own_fields = info['fields']
    # optional `mixins`: {'names': ['DumpMixin', 'LoadMixin'], 'pos': 'pre' | 'post'} — a wizard class that is its own dumper / loader:
    # the mix-ins are listed before / after the wizard base
    mx = info.get('mixins')
    if mx and not inh and wizard in (True, 'py', 'file'):
        names = [q(n) for n in mx['names']]
        base = '(' + ', '.join(names + [base[1:-1]] if mx.get('pos') == 'pre' else [base[1:-1]] + names) + ')'
    if inh:
        base = f'({ty_src(inh["base"], defs)})'
        own_fields = info['fields'][inh['n']:]
    lines = ['@' + q('dataclass'), f'class {pyname}{base}:']
    meta = info.get('meta')
    # optional `meta_steps`: the class's Meta arrives in several bindings, in this order — [{'via': 'inner' | 'load' | 'dump' | 'base',
    # 'meta': {...}}, ...] ('inner': the inner Meta class, first step of a wizard class only; 'load' / 'dump': LoadMeta / DumpMeta(..).bind_to
    # after the class statement; 'base': a BaseJSONWizardMeta subclass bound the same way).  `info['meta']` is then the merged result
    # (a later binding wins), which is what the class model of the driver and own_meta() see.
    steps = info.get('meta_steps')
    if steps is not None:
        inner_first = bool(steps) and steps[0]['via'] == 'inner'
        assert not inner_first or wizard in (True, 'py', 'file')
        meta = steps[0]['meta'] if inner_first else None
        steps = steps[1:] if inner_first else steps
    if meta is not None and wizard in (True, 'py', 'file'):
        lines.append(f'    class _({q("JSONWizard")}.Meta):')
        items = meta_items(meta)
        for k, v in items:
            lines.append(f'        {k} = {v}')
        if not items:
            lines.append('        pass')
    for f in own_fields:
        ann = q('CatchAll') if f.get('catch_all') else ty_src(ftys[f['name']], defs)
        if f.get('ann_str'):      # optional: the annotation is written as a string (forward reference, resolved by the library on first use)
            ann = repr(ann)
        path = f.get('path')      # optional: {'keys': 'a.b' | ['a', 'b'], 'style': 'path_field' | 'keypath_ann' | 'aliaspath' | 'aliaspath_ann'}
        if path and path['style'].endswith('_ann'):
            fn = (_DW + 'KeyPath') if path['style'] == 'keypath_ann' else (_V1 + 'AliasPath')
            ann = f'{_TP}Annotated[{ann}, {fn}({path["keys"]!r})]'
        opts = []
        d = f.get('dflt')
        if d is not None:
            if f.get('factory'):
                opts.append(f'default_factory={dflt_factory_src(d)}')
            else:
                opts.append(f'default={dflt_src(d)}')
        if not f.get('init', True):
            opts.append('init=False')
        if f.get('kw_only'):
            opts.append('kw_only=True')
        lk = f.get('load_keys') or []
        va = f.get('v1_alias')      # v1 engine: how `load_keys` are declared — Alias('a', 'b') ('all'), Alias(load=(...)) ('load'), Meta.v1_field_to_alias ('meta')
        if path and not path['style'].endswith('_ann'):
            fn = (_DW + 'path_field') if path['style'] == 'path_field' else (_V1 + 'AliasPath')
            rhs = f'{fn}({", ".join([repr(path["keys"])] + opts)})'
        elif va in ('all', 'load') and lk:
            keys = ', '.join(repr(k) for k in lk) if va == 'all' else f'load={tuple(lk)!r}'
            rhs = f'V1Alias({", ".join([keys] + opts)})'
        elif va == 'meta' and lk:
            rhs = (opts[0][len('default='):] if len(opts) == 1 and opts[0].startswith('default=') else f'{q("field")}({", ".join(opts)})') if opts else None
        elif lk or f.get('dump_skip'):
            keys = repr(lk[0]) if len(lk) == 1 else repr(tuple(lk)) if lk else repr(f['name'])
            extra = []
            if f.get('dump_all'):
                extra.append('all=True')
            if f.get('dump_skip'):
                extra.append('dump=False')
            rhs = f'{q("json_field")}({", ".join([keys] + extra + opts)})'
        elif f.get('skip_if') is not None:
            rhs = f'{q("skip_if_field")}({", ".join([cond_src(f["skip_if"])] + opts)})'
        elif opts:
            if len(opts) == 1 and opts[0].startswith('default='):
                rhs = opts[0][len('default='):]
            else:
                rhs = f'{q("field")}({", ".join(opts)})'
        else:
            rhs = None
        lines.append(f'    {f["name"]}: {ann}' + (f' = {rhs}' if rhs is not None else ''))
    if not own_fields:
        lines.append('    pass')
    posts = [f for f in own_fields if f.get('post') is not None]
    if posts:
        lines.append('    def __post_init__(self):')
        if inh and any(f.get('post') is not None for f in info['fields'][:inh['n']]):
            lines.append('        super().__post_init__()')      # an ancestor assigns its own init=False fields there
        for f in posts:
            lines.append(f'        self.{f["name"]} = {lit_src(f["post"])}')
    src = '\n'.join(lines) + '\n'
    tail = ''
    if steps is not None:
        for sn, st in enumerate(steps):
            assert st['via'] in ('load', 'dump', 'base'), st
            args = ', '.join(f'{k}={v}' for k, v in meta_items(st['meta']))
            if st['via'] == 'base':
                tail += (f'_m{sn}_{info["name"]} = {q("type")}("Meta", ({q("BaseJSONWizardMeta")},), dict(__slots__=(), {args}))\n'
                         f'_m{sn}_{info["name"]}.bind_to({info["name"]})\n')
            else:
                tail += f'_dw.{"LoadMeta" if st["via"] == "load" else "DumpMeta"}({args}).bind_to({info["name"]})\n'
    elif meta is not None and not wizard:
        items = meta_items(meta)
        tail = f'_m_{info["name"]} = {q("type")}("Meta", ({q("BaseJSONWizardMeta")},), dict(__slots__=(), ' + \
               ', '.join(f'{k}={v}' for k, v in items) + f'))\n_m_{info["name"]}.bind_to({info["name"]})\n'
    return wrap_def(info['name'], info.get('pyname'), src, tail)


PRELUDE = '''from __future__ import annotations as _ann_off
'''
PRELUDE = '''
from dataclasses import dataclass, field
from typing import *
from typing import NamedTuple, TypedDict, Optional, Union, Any, Literal, Deque, DefaultDict, OrderedDict
from typing_extensions import NotRequired
from collections import defaultdict, deque
from datetime import date, time, datetime, timedelta
from decimal import Decimal
from enum import Enum
from pathlib import Path
from uuid import UUID
from dataclass_wizard import (JSONWizard, JSONPyWizard, json_field, json_key, KeyPath, path_field, skip_if_field, SkipIf, CatchAll,
                              EQ, NE, LT, LE, GT, GE, IS, IS_NOT, IS_TRUTHY, IS_FALSY, LoadMeta, DumpMeta, fromdict, asdict,
                              DumpMixin, LoadMixin)
from dataclass_wizard.bases_meta import BaseJSONWizardMeta
from dataclass_wizard.v1 import Alias as V1Alias
from dataclass_wizard.wizard_mixins import YAMLWizard, TOMLWizard, JSONFileWizard
import builtins as _b, typing as _t, datetime as _dtm, decimal as _dec, pathlib as _pl, uuid as _uu, enum as _en, dataclasses as _dc
import typing_extensions as _te, dataclass_wizard as _dw, dataclass_wizard.wizard_mixins as _wm, dataclass_wizard.bases_meta as _bm
'''


class Built:
    """A class model materialised as real classes in a registered module."""

    def __init__(self, root_ty, extra_src=''):
        defs = collections.OrderedDict()
        self.root_name = ty_src(root_ty, defs)
        for late in _late_names(root_ty, []):      # classes only referred to by forward references: defined after everything else
            defs.move_to_end(late)
        self.source = PRELUDE + '\n' + '\n'.join(s for s in defs.values() if s) + '\n' + extra_src
        self.modname = fresh('dwv_mod_')
        self.mod = types.ModuleType(self.modname)
        sys.modules[self.modname] = self.mod
        self.root_ty = root_ty
        try:
            exec(compile(self.source, f'<{self.modname}>', 'exec', dont_inherit=True), self.mod.__dict__)
        except Exception:
            self.close()
            raise
        self.infos = {}
        _collect_infos(root_ty, self.infos)

    @property
    def root(self):
        return getattr(self.mod, self.root_name)

    def get(self, name):
        return getattr(self.mod, name)

    def close(self):
        sys.modules.pop(self.modname, None)


def _late_names(t, out):
    k = t['k']
    if k == 'union' and t.get('fwd') == 'late':
        out.extend(x['info']['name'] for x in t['a'] if x['k'] == 'cls' and x['info']['name'] not in out)
    if k == 'cls':
        for _, ft in t['ftys']:
            _late_names(ft, out)
    elif k in ('namedtuple', 'typeddict'):
        for fld in t['fields']:
            _late_names(fld[1], out)
    else:
        for x in t.get('a', []):
            _late_names(x, out)
    return out


def _collect_infos(t, out):
    k = t['k']
    if k == 'cls':
        out[t['info']['name']] = t
        for _, ft in t['ftys']:
            _collect_infos(ft, out)
    elif k == 'namedtuple':
        for _, ft, _d in t['fields']:
            _collect_infos(ft, out)
    elif k == 'typeddict':
        for _, ft, _r in t['fields']:
            _collect_infos(ft, out)
    else:
        for x in t.get('a', []):
            _collect_infos(x, out)


# --------------------------------------------------------------------------- encoding values for the driver

def enc_float(x: float):
    if math.isnan(x):
        return {'$f': 'nan'}
    if math.isinf(x):
        return {'$f': 'inf' if x > 0 else '-inf'}
    sign, digits, exp = decimal.Decimal(x).as_tuple()
    m = int(''.join(map(str, digits))) if digits else 0
    while m and m % 10 == 0:
        m //= 10
        exp += 1
    if m == 0:
        exp = 0
    return {'$f': [bool(sign), str(m), exp, repr(x)]}


def enc_lit(v):
    if isinstance(v, float):
        return enc_float(v)
    return v


def enc_j(v):
    """JSON-ish Python value -> JVal encoding."""
    if v is None or isinstance(v, (bool, str)):
        return v
    if isinstance(v, int):
        return v
    if isinstance(v, float):
        return enc_float(v)
    if isinstance(v, (list, tuple)):
        return [enc_j(x) for x in v]
    if isinstance(v, dict):
        return {'$d': [[k, enc_j(x)] for k, x in v.items()]}
    raise TypeError(f'not a JSON value: {v!r}')


def enc_dflt(d):
    if d is None:
        return None
    if d[0] == 'lit':
        return ['lit', enc_lit(d[1])]
    return [d[0]]


def enc_cond(c):
    return None if c is None else {'op': c['op'], 'val': enc_lit(c.get('val'))}


def own_meta(info):
    """the class's own Meta as the library sees it (JSONPyWizard pre-binds DumpMeta(key_transform='NONE'))"""
    meta = info.get('meta')
    w = info.get('wizard', True)
    if w == 'py':
        base = {'key_transform_with_dump': 'NONE'}
        base.update({k: v for k, v in (meta or {}).items() if v is not None})
        return base
    if w == 'yaml':
        return {'key_transform_with_dump': 'LISP'}
    if w == 'toml':
        return {'key_transform_with_dump': 'NONE'}
    return meta


def enc_info(info):
    meta = own_meta(info)
    m = None
    if meta is not None:
        m = {k: (enc_cond(v) if k in ('skip_if', 'skip_defaults_if') else v) for k, v in meta.items() if v is not None}
    return {'name': info['name'], 'wizard': bool(info.get('wizard', True)), 'meta': m,
            'fields': [{'name': f['name'], 'dflt': enc_dflt(f.get('dflt')), 'factory': bool(f.get('factory')),
                        'init': f.get('init', True), 'load_keys': list(f.get('load_keys') or []),
                        'dump_all': bool(f.get('dump_all')), 'dump_skip': bool(f.get('dump_skip')),
                        'skip_if': enc_cond(f.get('skip_if')), 'catch_all': bool(f.get('catch_all')),
                        'post': enc_lit(f.get('post'))}
                       for f in info['fields']]}


def plain_ty(t):
    """the type without its transparent spellings (PEP 695 aliases, Annotated[..] with foreign metadata, Required[..])"""
    if isinstance(t, list):
        return [plain_ty(x) for x in t]
    if not isinstance(t, dict):
        return t
    if t.get('k') in ('alias', 'annotated'):
        return plain_ty(t['a'][0])
    return {k_: plain_ty(v) for k_, v in t.items() if k_ != 'req_spelled'}


def unroll(t, depth, env=None):
    """a recursive class model ('ref' nodes) as the finite tree that is enough for values of at most `depth` hops through a 'ref':
    every 'ref' is replaced by a copy of the class model it names, `depth` times; below that by `int` (such a position then only ever
    holds None / an empty container, which load the same under any item type)"""
    env = env or {}
    k = t['k']
    if k == 'ref':
        return T('int') if depth <= 0 else unroll(env[t['name']], depth - 1, env)
    if k == 'cls':
        env = dict(env)
        env[t['info']['name']] = t
        return {'k': 'cls', 'info': t['info'], 'ftys': [[n, unroll(ft, depth, env)] for n, ft in t['ftys']]}
    if k in ('namedtuple', 'typeddict'):
        return dict(t, fields=[[f[0], unroll(f[1], depth, env), f[2]] for f in t['fields']])
    if 'a' in t:
        return dict(t, a=[unroll(x, depth, env) for x in t['a']])
    return t


def enc_ty(t):
    k = t['k']
    if k in ('alias', 'annotated'):
        return enc_ty(t['a'][0])
    if k == 'cls':
        return {'k': 'cls', 'info': enc_info(t['info']), 'ftys': [[n, enc_ty(ft)] for n, ft in t['ftys']
                                                                   if not _is_catch_all(t['info'], n)]
                + [[n, {'k': 'any'}] for n, ft in t['ftys'] if _is_catch_all(t['info'], n)]}
    if k == 'enum':
        return {'k': 'enum', 'name': t['name'], 'members': [[m, enc_lit(v)] for m, v in t['members']]}
    if k == 'literal':
        return {'k': 'literal', 'vs': [enc_lit(v) for v in t['vs']]}
    if k == 'namedtuple':
        return {'k': k, 'name': t['name'], 'fields': [[n, enc_ty(ft), enc_dflt(d)] for n, ft, d in t['fields']]}
    if k == 'typeddict':
        return {'k': k, 'name': t['name'], 'fields': [[n, enc_ty(ft), bool(r)] for n, ft, r in t['fields']]}
    d = {'k': k}
    if 'a' in t:
        d['a'] = [enc_ty(x) for x in t['a']]
    return d


def contains_kind(t, kind):
    """does the type expression contain a node of the given kind"""
    if t['k'] == kind:
        return True
    if t['k'] == 'cls':
        return any(contains_kind(ft, kind) for _n, ft in t['ftys'])
    if t['k'] in ('namedtuple', 'typeddict'):
        return any(contains_kind(f[1], kind) for f in t['fields'])
    return any(contains_kind(x, kind) for x in t.get('a', []))


def _is_catch_all(info, name):
    return any(f['name'] == name and f.get('catch_all') for f in info['fields'])


def iso_tok(v):
    return v.isoformat()


def td_us(td: dt.timedelta) -> int:
    return (td.days * 86400 + td.seconds) * 10 ** 6 + td.microseconds


def enc_py(v, built: Built | None = None, full_inst=True, sort_sets=False):
    """Python value -> PyVal encoding. Instances carry their ClassInfo when `full_inst` (dump input),
    else just the class name (load output)."""
    if v is None:
        return ['none']
    tv = type(v)
    if tv is bool:
        return ['bool', v]
    if tv is int:
        return ['int', v]
    if tv is float:
        return ['float', enc_float(v)]
    if tv is str:
        return ['str', v]
    if tv is bytes:
        return ['bytes', False, list(v)]
    if tv is bytearray:
        return ['bytes', True, list(v)]
    if isinstance(v, enum.Enum):
        return ['enum', tv.__name__, v.name, enc_lit(v.value)]
    if isinstance(v, decimal.Decimal):
        return ['leaf' if tv is decimal.Decimal else 'subleaf', 'decimal', str(v)]
    if isinstance(v, pathlib.PurePath):
        return ['leaf', 'path', str(v)]
    if isinstance(v, uuid.UUID):
        return ['leaf' if tv is uuid.UUID else 'subleaf', 'uuid', v.hex]
    if isinstance(v, dt.datetime):
        return ['leaf' if tv is dt.datetime else 'subleaf', 'datetime', v.isoformat()]
    if isinstance(v, dt.date):
        return ['leaf' if tv is dt.date else 'subleaf', 'date', v.isoformat()]
    if isinstance(v, dt.time):
        return ['leaf' if tv is dt.time else 'subleaf', 'time', v.isoformat()]
    if isinstance(v, dt.timedelta):
        return ['td', td_us(v)]
    if dataclasses.is_dataclass(v) and not isinstance(v, type):
        name = tv.__name__
        if built is not None and getattr(built, 'bind_of', None):     # opt-in: classes that share a __name__ are told apart by their binding
            name = built.bind_of.get(tv, name)
        fields = []
        for f in dataclasses.fields(v):
            if hasattr(v, f.name):
                fields.append([f.name, enc_py(getattr(v, f.name), built, full_inst, sort_sets)])
        if full_inst:
            info = built.infos[name]['info']
            return ['inst', enc_info(info), fields]
        return ['inst', name, fields]
    if isinstance(v, tuple) and hasattr(v, '_fields'):
        return ['nt', tv.__name__, list(v._fields), [enc_py(x, built, full_inst, sort_sets) for x in v]]
    if tv is tuple:
        return ['tuple', [enc_py(x, built, full_inst, sort_sets) for x in v]]
    if tv is list:
        return ['seq', 'list', [enc_py(x, built, full_inst, sort_sets) for x in v]]
    if tv in (set, frozenset):
        xs = [enc_py(x, built, full_inst, sort_sets) for x in v]
        if sort_sets:
            xs = sorted(xs, key=lambda e: json.dumps(e, sort_keys=True))
        return ['seq', 'set' if tv is set else 'frozenset', xs]
    if tv is collections.deque:
        return ['seq', 'deque', [enc_py(x, built, full_inst, sort_sets) for x in v]]
    if isinstance(v, dict):
        kind = 'defaultdict' if tv is collections.defaultdict else 'ordereddict' if tv is collections.OrderedDict else 'dict'
        kvs = [[enc_py(k, built, full_inst, sort_sets), enc_py(x, built, full_inst, sort_sets)] for k, x in v.items()]
        if sort_sets and kind != 'ordereddict':
            kvs = sorted(kvs, key=lambda e: json.dumps(e[0], sort_keys=True))
        return ['map', kind, kvs]
    return ['opaque', tv.__name__, repr(v)]


def canon_py(e):
    """Canonical form of a PyVal encoding for comparison: sets sorted+deduped, plain dict entries sorted."""
    tag = e[0]
    if tag == 'seq':
        xs = [canon_py(x) for x in e[2]]
        if e[1] in ('set', 'frozenset'):
            seen, out = set(), []
            for x in sorted(xs, key=lambda z: json.dumps(z, sort_keys=True)):
                s = json.dumps(x, sort_keys=True)
                if s not in seen:
                    seen.add(s)
                    out.append(x)
            xs = out
        return ['seq', e[1], xs]
    if tag == 'tuple':
        return ['tuple', [canon_py(x) for x in e[1]]]
    if tag == 'map':
        kvs = [[canon_py(k), canon_py(v)] for k, v in e[2]]
        if e[1] != 'ordereddict':
            kvs = sorted(kvs, key=lambda z: json.dumps(z[0], sort_keys=True))
        return ['map', e[1], kvs]
    if tag == 'nt':
        return ['nt', e[1], e[2], [canon_py(x) for x in e[3]]]
    if tag == 'inst':
        name = e[1] if isinstance(e[1], str) else e[1]['name']
        return ['inst', name, [[n, canon_py(v)] for n, v in e[2]]]
    return e


def enc_d(v):
    """asdict() output (real Python object) -> DVal encoding."""
    if v is None or isinstance(v, (bool, str)):
        return v
    tv = type(v)
    if tv is int:
        return v
    if tv is float:
        return enc_float(v)
    if isinstance(v, tuple) and hasattr(v, '_fields'):
        return ['nt', tv.__name__, [enc_d(x) for x in v]]
    if tv is tuple:
        return ['tuple', [enc_d(x) for x in v]]
    if tv is list:
        return ['list', [enc_d(x) for x in v]]
    if isinstance(v, dict):
        return ['dict', tv is collections.OrderedDict, [[enc_d(k), enc_d(x)] for k, x in v.items()]]
    if isinstance(v, enum.Enum):
        return ['bad', 'enum-member']
    return ['bad', tv.__name__]


def canon_d(e, sort_lists_from_sets=None):
    return e


# --------------------------------------------------------------------------- Std tables

def _opt(f, *a):
    try:
        return f(*a)
    except Exception:
        return None


def _num_key(x):
    return enc_float(x) if isinstance(x, float) else x


class StdTables:
    """Evaluates the stdlib primitives the model leaves abstract, for the strings / numbers in play."""

    def __init__(self):
        self.strings = set()
        self.nums = []
        self.num_keys = set()
        self.bytes_vals = set()
        self.dt_toks = set()
        self.date_toks = set()

    def add_str(self, s):
        if s in self.strings:
            return
        self.strings.add(s)
        for d in (s.replace('Z', '+00:00', 1), s.replace('+00:00', 'Z', 1), s.lower()):
            self.strings.add(d)
        if len(s) < 40:
            self.strings.update(s)          # iterating a string where a list was expected yields its characters

    def add_num(self, x):
        if isinstance(x, bool):
            x = int(x)
        k = json.dumps(_num_key(x))
        if k not in self.num_keys:
            self.num_keys.add(k)
            self.nums.append(x)
        self.add_str(repr(x))

    def add_json(self, v):
        if isinstance(v, str):
            self.add_str(v)
        elif isinstance(v, bool) or v is None:
            return
        elif isinstance(v, (int, float)):
            self.add_num(v)
        elif isinstance(v, (list, tuple)):
            for x in v:
                self.add_json(x)
        elif isinstance(v, dict):
            for k, x in v.items():
                self.add_json(k)
                self.add_json(x)

    def add_py(self, v):
        """walk a Python value (instance) collecting what dumping it can need"""
        if isinstance(v, (bytes, bytearray)):
            self.bytes_vals.add(bytes(v))
        elif isinstance(v, dt.datetime):
            self.dt_toks.add(v)
        elif isinstance(v, dt.date):
            self.date_toks.add(v)
        elif isinstance(v, enum.Enum):
            self.add_py(v.value)
        elif dataclasses.is_dataclass(v) and not isinstance(v, type):
            for f in dataclasses.fields(v):
                if hasattr(v, f.name):
                    self.add_py(getattr(v, f.name))
        elif isinstance(v, dict):
            for k, x in v.items():
                self.add_py(k)
                self.add_py(x)
        elif isinstance(v, (list, tuple, set, frozenset, collections.deque)):
            for x in v:
                self.add_py(x)

    def build(self):
        import pytimeparse
        for extra in ('None', 'True', 'False'):
            self.strings.add(extra)
        for x in (0, 1):
            self.add_num(x)
        S = sorted(self.strings)

        def fl(s):
            try:
                return enc_float(float(s))
            except (ValueError, OverflowError):
                return None

        def flint(i):
            try:
                return enc_float(float(i))
            except OverflowError:
                return None

        def dec(s):
            try:
                return str(decimal.Decimal(s))
            except Exception:
                return None

        def tparse(s):
            try:
                r = pytimeparse.parse(s)
            except Exception:
                return None
            if r is None:
                return None
            return _num_key(r)

        def td(x):
            try:
                return td_us(dt.timedelta(seconds=x))
            except Exception:
                return None

        def b64d(s):
            try:
                return list(base64.b64decode(s))
            except Exception:
                return None

        t = {
            'float_of_str': [[s, fl(s)] for s in S],
            'float_of_int': [[x, flint(x)] for x in self.nums if isinstance(x, int)],
            'decimal': [[s, dec(s)] for s in S],
            'path': [[s, _opt(lambda z: str(pathlib.Path(z)), s) or ''] for s in S if '\x00' not in s],
            'uuid': [[s, _opt(lambda z: uuid.UUID(z).hex, s)] for s in S],
            'date_iso': [[s, _opt(lambda z: dt.date.fromisoformat(z).isoformat(), s)] for s in S],
            'time_iso': [[s, _opt(lambda z: dt.time.fromisoformat(z).isoformat(), s)] for s in S],
            'datetime_iso': [[s, _opt(lambda z: dt.datetime.fromisoformat(z).isoformat(), s)] for s in S],
            'date_ts': [[_num_key(x), _opt(lambda z: dt.date.fromtimestamp(z).isoformat(), x)] for x in self.nums],
            'datetime_ts_utc': [[_num_key(x), _opt(lambda z: dt.datetime.fromtimestamp(z, tz=dt.timezone.utc).isoformat(), x)] for x in self.nums],
            'datetime_ts_local': [[_num_key(x), _opt(lambda z: dt.datetime.fromtimestamp(z).isoformat(), x)] for x in self.nums],
            'timeparse': [[s, tparse(s)] for s in S],
            'td': [[_num_key(x), td(x)] for x in self.nums],
            'b64d': [[s, b64d(s)] for s in S],
            'b64e': [[list(b), base64.b64encode(b).decode()] for b in sorted(self.bytes_vals)],
            'dt_timestamp': [[v.isoformat(), _opt(lambda z: round(z.timestamp()), v)] for v in sorted(self.dt_toks, key=lambda z: z.isoformat())],
            'date_timestamp': [[v.isoformat(), _opt(_date_ts, v)] for v in sorted(self.date_toks | {x for x in self.dt_toks}, key=lambda z: z.isoformat())],
        }
        # timeparse results may be floats the td table needs
        for s, r in list(t['timeparse']):
            if r is not None:
                x = float(r['$f'][3]) if isinstance(r, dict) else r
                k = json.dumps(_num_key(x))
                if k not in self.num_keys:
                    self.num_keys.add(k)
                    self.nums.append(x)
                    t['td'].append([_num_key(x), td(x)])
        # float(str) results feed td / rounding (as_timedelta on numeric strings)
        for s, r in t['float_of_str']:
            if r is not None and isinstance(r['$f'], list):
                x = float(r['$f'][3])
                k = json.dumps(_num_key(x))
                if k not in self.num_keys:
                    self.num_keys.add(k)
                    self.nums.append(x)
                    t['td'].append([_num_key(x), td(x)])
        return t


def _date_ts(d):
    from dataclass_wizard.utils.type_conv import date_to_timestamp  # noqa (library helper, used as a stdlib-level primitive)
    x = dt.datetime.combine(d, dt.time.min)
    return round(x.timestamp())


MISS = 'STDMISS'
MISS_INT = '314159265358979323846264338327950288'


def has_miss(o):
    if isinstance(o, dict) and o.get('stdmiss'):
        return True
    s = json.dumps(o)
    return MISS in s or MISS_INT in s
