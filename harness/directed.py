"""Directed reproductions of recorded findings.

Every entry of KNOWN_FINDINGS.jsonl may name a stand-alone script (`"script": "findings/<key>.py"`): a few lines against
the library (tree under test = $VERIF_REPO, default /repo) that exit 1 — after printing one line saying what was
observed — when the recorded defect manifests, and 0 when it does not.  Each check runs the scripts of the entries that
list its property, each in a process of its own (the defects are mostly about per-class state, so a fresh interpreter is
part of the input):

* a `known` entry that manifests is reported through its key (the check prints the KNOWN-FINDING line and exits 0); when
  it no longer manifests nothing is printed (evidence: notes.known_findings_not_reproduced);
* a `fixed` entry that manifests again is a violation like any other (no key: "a fixed entry suppresses nothing").

The generators of the checks keep these exact shapes out of their random streams (comments there name the scripts), so the
scripts are what keeps the recorded inputs under observation.
"""
from __future__ import annotations

import os
import subprocess

from harness import common as C

PY = '/venv/bin/python'
DIRECTED_INDEX = 900_000_000       # case index space of directed reproductions (never produced by a generator)


def run_script(script):
    p = C.VERIF / script
    r = subprocess.run([PY, str(p)], env=dict(os.environ, VERIF_REPO=str(C.REPO), PYTHONDONTWRITEBYTECODE='1'),
                       capture_output=True, text=True, timeout=120, cwd=str(C.VERIF))
    out = (r.stdout + r.stderr).strip().splitlines()
    return r.returncode, (out[-1] if out else '')[:600], '\n'.join(out[-15:])[:3000]


def run(ctx, prop_id):
    """run the directed scripts of all entries listing `prop_id`; records failures on ctx"""
    known, fixed = C.load_known_findings(prop_id)
    saved = ctx.current
    n = 0
    for status, table in (('known', known), ('fixed', fixed)):
        for key, e in sorted(table.items()):
            script = e.get('script')
            if not script or not (C.VERIF / script).exists():
                continue
            if ctx.only is not None:
                continue
            n += 1
            ctx.current = DIRECTED_INDEX + n
            try:
                rc, last, tail = run_script(script)
            except Exception as ex:          # a broken script is a broken check, not a violation
                ctx.notes.setdefault('directed_errors', []).append(f'{script}: {ex!r}'[:300])
                continue
            ctx.count('directed:' + status)
            case = {'script': script, 'entry': key, 'status': status}
            if rc == 1:
                if status == 'known':
                    ctx.fail('directed:' + key, case, last, key=key, detail={'output': tail})
                else:
                    ctx.fail('directed:regression:' + key, case,
                             f'the defect repaired by {e.get("commit")} manifests again: {last}', detail={'output': tail})
            elif rc != 0:
                ctx.notes.setdefault('directed_errors', []).append(f'{script}: exit {rc}: {last}'[:300])
    ctx.current = saved


def replay(obj, prop_id):
    """replay of a directed failure: run the script again"""
    script = obj['case']['script']
    rc, last, tail = run_script(script)
    print(tail)
    known, _ = C.load_known_findings(prop_id)
    key = obj['case'].get('entry')
    if rc == 1 and obj['case'].get('status') == 'known' and key in known:
        print(f'KNOWN-FINDING: property={prop_id} {known[key]["what"]}')
        return 0
    return 1 if rc == 1 else 0
