"""How a nested dataclass is *reached* from the main class — a dimension shared by C09 (absent keys) and C10 (unknown keys).

The engines hand a nested dataclass to different pieces of machinery depending on the annotation that holds it:
    direct / Optional / list / dict            the generated load function calls the nested function (or a container parser)
    Union[A, B] of tagged dataclasses          UnionParser: reads the tag key, looks the member up in a table, calls it
       (explicit Meta.tag, or auto_assign_tags on the main class: tag = class name; default or custom tag key;
        also list[Union[..]], dict[str, Union[..]], Union[.., None])
    a value of a TypedDict                     TypedDictParser: per-key parsers inside its own error handling
       (the value is a dataclass, a list of dataclasses, or a tagged Union)
Whatever a nested load raises has to travel through that machinery unchanged: the properties speak about the outcome "at
whatever nesting depth", so the error type, the class it names and its key / field list are the same for every way of reaching
the class.

This module builds main classes with *holder* fields of those shapes around member classes supplied by the caller, complete
documents for them, and walks (type, document) pairs.  Type nodes are the ones of harness/model.py with two annotations that
the renderer and the model encoding ignore:  union['tagkey'] (the key the Union dispatches on) and cls['utag'] (the tag a member
answers to).  A TypedDict node holds at most ONE dataclass-bearing value: the default engine iterates the required keys of a
TypedDict as a frozenset, so with two failing values the one reported first would depend on the process's hash seed.
"""
from __future__ import annotations

import json

from harness import gen
from harness.model import T
from harness.props.c05 import plain_doc

PLAIN_SHAPES = ['direct', 'list', 'optional', 'dict']
UNION_SHAPES = ['union', 'list_union', 'opt_union', 'dict_union']
TD_SHAPES = ['td', 'list_td', 'td_list', 'td_union', 'td_optional']
SHAPES = PLAIN_SHAPES + UNION_SHAPES * 2 + TD_SHAPES

TAG_MODES = ['explicit', 'explicit', 'auto', 'explicit+key', 'auto+key']
TAG_KEYS = ['type', 'kind', 'my tag', '$t']
HOLDER_NAMES = ['held', 'shape_of', 'item_box', 'node', 'payload_x']


def set_tag(member, tag, own_meta=True):
    """make `member` (a cls node) answer to `tag` in a Union: explicit Meta.tag (`own_meta`) or only the annotation (auto-assigned)"""
    member['utag'] = tag
    if own_meta:
        member['info']['meta'] = dict(member['info'].get('meta') or {}, tag=tag)
    return member


def gen_holder(rng, shape, mk_member, nm, tag_mode, tagkey):
    """type of one holder field: member classes (fresh from `mk_member()`) reached through `shape`"""
    def union(with_none=False):
        ms = []
        for _ in range(rng.choice([2, 2, 3])):
            m = mk_member()
            tag = m['info']['name'] if tag_mode.startswith('auto') else nm('tg')
            ms.append(set_tag(m, tag, own_meta=not tag_mode.startswith('auto')))
        if with_none:
            ms.insert(rng.randint(0, len(ms)), T('none'))
        return T('union', *ms, tagkey=tagkey)

    def td(inner, required=None):
        req = rng.random() < 0.7 if required is None else required
        fields = [[rng.choice(['val_of', 'inner_v', 'obj']), inner, req]]
        for extra in rng.sample([['n', T('int'), True], ['label', T('str'), False], ['flags', T('list', T('bool')), True]], rng.choice([0, 1, 2])):
            fields.insert(rng.randint(0, len(fields)), extra)
        return T('typeddict', name=nm('TD'), fields=fields)

    if shape == 'direct':
        return mk_member()
    if shape == 'list':
        return T('list', mk_member())
    if shape == 'optional':
        return T('optional', mk_member())
    if shape == 'dict':
        return T('dict', T('str'), mk_member())
    if shape == 'union':
        return union()
    if shape == 'list_union':
        return T('list', union())
    if shape == 'opt_union':
        return union(with_none=True)
    if shape == 'dict_union':
        return T('dict', T('str'), union())
    if shape == 'td':
        return td(mk_member())
    if shape == 'list_td':
        return T('list', td(mk_member()))
    if shape == 'td_list':
        return td(T('list', mk_member()))
    if shape == 'td_union':
        return td(union())
    if shape == 'td_optional':
        return td(T('optional', mk_member()))
    raise ValueError(shape)


def gen_root(rng, nm, mk_member, root_meta=None, shapes=None, n_holders=(1, 1, 2), wizard=True):
    """(root cls node, facts): a main class with holder fields (no default) and a few scalar fields; the Meta of the main class
    states what the tag mode needs (auto_assign_tags / tag_key) plus `root_meta`"""
    tag_mode = rng.choice(TAG_MODES)
    tagkey = rng.choice(TAG_KEYS) if tag_mode.endswith('+key') else '__tag__'
    meta = dict(root_meta or {})
    if tag_mode.startswith('auto'):
        meta['auto_assign_tags'] = True
    if tag_mode.endswith('+key'):
        meta['tag_key'] = tagkey
    fields, ftys, picked = [], [], []
    names = rng.sample(HOLDER_NAMES, rng.choice(n_holders))
    for name in names:
        shape = rng.choice(shapes or SHAPES)
        picked.append(shape)
        fields.append({'name': name})
        ftys.append([name, gen_holder(rng, shape, mk_member, nm, tag_mode, tagkey)])
    # scalar fields around the holders: required ones first (dataclass rule), defaulted ones last
    if rng.random() < 0.6:
        pos = rng.randint(0, len(fields))
        fields.insert(pos, {'name': 'num_id'})
        ftys.insert(pos, ['num_id', T('int')])
    if rng.random() < 0.5:
        fields.append({'name': 'note', 'dflt': ['lit', 'dflt'], 'factory': False})
        ftys.append(['note', T('str')])
    info = {'name': nm('R'), 'fields': fields, 'wizard': wizard, 'meta': meta or None}
    return {'k': 'cls', 'info': info, 'ftys': ftys}, {'tag_mode': tag_mode, 'tag_key': tagkey, 'shapes': picked}


# --------------------------------------------------------------------------- walking (type, document)

def member_of(t, doc):
    """the member of Union node `t` that document `doc` selects (None: the None member / no dataclass member)"""
    if isinstance(doc, dict):
        tg = doc.get(t.get('tagkey', '__tag__'))
        for m in t['a']:
            if m['k'] == 'cls' and m.get('utag') is not None and m.get('utag') == tg:
                return m
    return None


def children(t, doc):
    """(step, child type, child document) for every position of `doc` below a non-class node `t`, in the order the default
    engine visits them; a class node is the caller's business"""
    k = t['k']
    if k == 'list' and isinstance(doc, list):
        return [(i, t['a'][0], v) for i, v in enumerate(doc)]
    if k == 'dict' and isinstance(doc, dict):
        return [(kk, t['a'][1], v) for kk, v in doc.items()]
    if k == 'optional' and doc is not None:
        return [(None, t['a'][0], doc)]
    if k == 'tuple' and isinstance(doc, list):
        return [(i, m, v) for i, (m, v) in enumerate(zip(t['a'], doc))]
    if k == 'union':
        m = member_of(t, doc)
        return [(None, m, doc)] if m is not None else []
    if k == 'typeddict' and isinstance(doc, dict):
        return [(n, ft, doc[n]) for n, ft, _r in t['fields'] if n in doc]
    return []


def class_objects(t, doc, path=()):
    """(path, cls node, object) of every dataclass object of `doc`, outermost first"""
    out = []
    if t['k'] == 'cls':
        if isinstance(doc, dict):
            out.append((path, t, doc))
            for n, ft in t['ftys']:
                if n in doc:
                    out += class_objects(ft, doc[n], path + (n,))
        return out
    for step, ct, cd in children(t, doc):
        out += class_objects(ct, cd, path if step is None else path + (step,))
    return out


def at_path(doc, path):
    for s in path:
        doc = doc[s]
    return doc


# --------------------------------------------------------------------------- complete documents

def _scalar_doc(rng, t, built):
    return json.loads(json.dumps(plain_doc(gen.gen_value(rng, t, built), t, built)))


def gen_doc(rng, t, built, as_member_of=None):
    """a complete, well-typed document for type `t`: every constructor field of every class present, the tag key of Union
    members at a random position"""
    k = t['k']
    if k == 'cls':
        ftys = dict((n, ft) for n, ft in t['ftys'])
        out = {}
        for f in t['info']['fields']:
            if not f.get('init', True) or f.get('catch_all'):
                continue
            out[f['name']] = gen_doc(rng, ftys[f['name']], built)
        if as_member_of is not None:
            items = list(out.items())
            items.insert(rng.choice([0, len(items), rng.randint(0, len(items))]), (as_member_of.get('tagkey', '__tag__'), t['utag']))
            out = dict(items)
        return out
    if k == 'union':
        ms = [m for m in t['a'] if m['k'] == 'cls']
        if any(m['k'] == 'none' for m in t['a']) and rng.random() < 0.12:
            return None
        return gen_doc(rng, rng.choice(ms), built, as_member_of=t)
    if k == 'list' and _bears_class(t):
        return [gen_doc(rng, t['a'][0], built) for _ in range(rng.choice([1, 2, 2, 3]))]
    if k == 'dict' and _bears_class(t):
        return {kk: gen_doc(rng, t['a'][1], built) for kk in rng.sample(['k', 'a b', 'Z9', 'x'], rng.choice([1, 2]))}
    if k == 'optional' and _bears_class(t):
        return None if rng.random() < 0.1 else gen_doc(rng, t['a'][0], built)
    if k == 'tuple' and _bears_class(t):
        return [gen_doc(rng, m, built) for m in t['a']]
    if k == 'typeddict':
        return {n: gen_doc(rng, ft, built) for n, ft, req in t['fields'] if req or _bears_class(ft) or rng.random() < 0.6}
    return _scalar_doc(rng, t, built)


def _bears_class(t):
    if t['k'] == 'cls':
        return True
    if t['k'] == 'typeddict':
        return any(_bears_class(ft) for _n, ft, _r in t['fields'])
    return any(_bears_class(m) for m in t.get('a', []))
