"""C06 — results do not depend on call history: caches are transparent."""
from __future__ import annotations

import copy
import json

from harness import common as C
from harness import gen, hist, model
from harness.model import T

DT = "datetime(2021, 3, 4, 5, 6, 7, tzinfo=timezone.utc)"


def fam_strict(rng):
    name = model.fresh('S')
    ty = {'k': 'cls', 'info': {'name': name, 'fields': [{'name': 'my_val'}, {'name': 'other_one', 'dflt': ['lit', 0], 'factory': False}],
                               'wizard': rng.random() < 0.5, 'meta': {'raise_on_unknown_json_key': True}},
          'ftys': [['my_val', T('int')], ['other_one', T('int')]]}
    ops = [{'op': 'def', 'ty': ty}]
    docs = [{'my_val': 1}, {'my_val': 1, 'zzz': 2}, {'myVal': 3, 'Zzz': 1}, {'my_val': 1, 'zzz': 2}, {'MY_VAL': 5, 'otherOne': 2},
            {'my_val': 'bad'}, {'zzz': 2}, {}]
    for _ in range(rng.randint(4, 9)):
        ops.append({'op': 'load', 'cls': name, 'doc': rng.choice(docs), 'via': rng.choice(['fromdict', 'method']) if ty['info']['wizard'] else 'fromdict'})
    return ops


def fam_spellings(rng):
    name = model.fresh('K')
    meta = rng.choice([None, {'key_transform_with_load': 'SNAKE'}, {'key_transform_with_dump': 'SNAKE'}, {'key_transform_with_load': 'NONE'}])
    ty = {'k': 'cls', 'info': {'name': name, 'fields': [{'name': 'my_val'}, {'name': 'other_one', 'dflt': ['lit', 'd'], 'factory': False}],
                               'wizard': rng.random() < 0.5, 'meta': meta},
          'ftys': [['my_val', T('int')], ['other_one', T('str')]]}
    ops = [{'op': 'def', 'ty': ty}]
    keys1 = ['my_val', 'myVal', 'MyVal', 'my-val', 'MY_VAL', 'My_Val', 'My-Val', 'MYVAL', 'myval', 'my__val']
    keys2 = ['other_one', 'otherOne', 'OTHER_ONE', 'Other-One', 'otherone']
    for _ in range(rng.randint(4, 10)):
        r = rng.random()
        if r < 0.7:
            doc = {rng.choice(keys1): rng.choice([1, 2, '3', 'bad', None])}
            if rng.random() < 0.5:
                doc[rng.choice(keys2)] = rng.choice(['x', 5, None])
            if rng.random() < 0.2:
                doc[rng.choice(['extra', 'Extra_Key'])] = 1
            ops.append({'op': 'load', 'cls': name, 'doc': doc})
        else:
            ops.append({'op': 'dump', 'cls': name, 'expr': f'{name}(my_val={rng.choice([1, 2])}, other_one={rng.choice(["a", "b"])!r})'})
    return ops


def fam_subclass(rng):
    p, q = model.fresh('P'), model.fresh('Q')
    wizard = rng.random() < 0.75
    meta_p = rng.choice([None, None, {'key_transform_with_dump': 'SNAKE'}])
    ty = {'k': 'cls', 'info': {'name': p, 'fields': [{'name': 'base_val'}], 'wizard': wizard, 'meta': meta_p}, 'ftys': [['base_val', T('int')]]}
    sub_src = f'@dataclass\nclass {q}({p}):\n    sub_val: int = 7\n    other_txt: str = "s"\n'
    ops = [{'op': 'def', 'ty': ty}]
    use_p = [{'op': 'load', 'cls': p, 'doc': {'base_val': 1}, 'via': 'method' if wizard and rng.random() < 0.6 else 'fromdict'},
             {'op': 'dump', 'cls': p, 'expr': f'{p}(base_val=2)', 'via': 'method' if wizard and rng.random() < 0.6 else 'asdict'}]
    rng.shuffle(use_p)
    ops += use_p[:rng.randint(0, 2)]
    ops.append({'op': 'src', 'src': sub_src, 'defines': [q], 'requires': [p]})
    tail = [{'op': 'load', 'cls': q, 'doc': {'base_val': 1, 'sub_val': 5, 'otherTxt': 'z'}, 'via': 'method' if wizard else 'fromdict', 'uses': [q, p]},
            {'op': 'dump', 'cls': q, 'expr': f'{q}(base_val=3, sub_val=4)', 'via': 'method' if wizard else 'asdict', 'uses': [q, p]},
            {'op': 'load', 'cls': q, 'doc': {'base_val': 1, 'sub_val': 5}, 'via': 'fromdict', 'uses': [q, p]},
            {'op': 'dump', 'cls': q, 'expr': f'{q}(base_val=3, sub_val=4)', 'via': 'asdict', 'uses': [q, p]},
            {'op': 'load', 'cls': p, 'doc': {'baseVal': 9}, 'via': 'fromdict'},
            {'op': 'dump', 'cls': p, 'expr': f'{p}(base_val=8)'}]
    rng.shuffle(tail)
    ops += tail[:rng.randint(2, 6)]
    return ops


def fam_subtype(rng):
    name = model.fresh('D')
    meta = rng.choice([None, {'marshal_date_time_as': 'TIMESTAMP'}])
    ty = {'k': 'cls', 'info': {'name': name, 'fields': [{'name': 'when_at'}, {'name': 'any_val', 'dflt': ['lit', None], 'factory': False}],
                               'wizard': True, 'meta': meta},
          'ftys': [['when_at', T('datetime')], ['any_val', T('any')]]}
    ops = [{'op': 'def', 'ty': ty}]
    vals = [DT, f'SubDateTime(2021, 3, 4, 5, 6, 7, tzinfo=timezone.utc)', 'datetime(2020, 1, 1)']
    anys = ['None', 'SubDecimal("1.5")', 'Decimal("2.5")', f'SubDate(2020, 1, 2)', 'date(2020, 1, 2)', 'Path("a/b")', 'SubUUID(int=5)', '{1, 2}',
            'frozenset([3])', 'deque([1])', 'timedelta(seconds=5)', 'SubTime(1, 2, 3)', '[SubDateTime(2020, 1, 1, tzinfo=timezone.utc)]']
    for _ in range(rng.randint(3, 8)):
        ops.append({'op': 'dumpnew', 'cls': name, 'expr': f'{name}(when_at={rng.choice(vals)}, any_val={rng.choice(anys)})'})
    return ops


def fam_bind(rng):
    name = model.fresh('B')
    ty = {'k': 'cls', 'info': {'name': name, 'fields': [{'name': 'my_val'}, {'name': 'when_at', 'dflt': ['lit', None], 'factory': False}],
                               'wizard': False, 'meta': None},
          'ftys': [['my_val', T('int')], ['when_at', T('optional', T('datetime'))]]}
    ops = [{'op': 'def', 'ty': ty}]
    if rng.random() < 0.7:
        ops.append({'op': 'bind', 'cls': name, 'kind': 'load', 'meta': rng.choice([{'key_transform': 'CAMEL'}, {'raise_on_unknown_json_key': True}, {'key_transform': 'NONE'}])})
    if rng.random() < 0.7:
        ops.append({'op': 'bind', 'cls': name, 'kind': 'dump', 'meta': rng.choice([{'key_transform': 'SNAKE'}, {'marshal_date_time_as': 'TIMESTAMP'}, {'skip_defaults': True}])})
    for _ in range(rng.randint(3, 7)):
        if rng.random() < 0.5:
            ops.append({'op': 'load', 'cls': name, 'doc': rng.choice([{'my_val': 1}, {'myVal': 2}, {'my_val': 1, 'zz': 1}, {'MyVal': 'x'}, {'myVal': 2, 'whenAt': '2020-01-01T00:00:00Z'}])})
        else:
            ops.append({'op': 'dump', 'cls': name, 'expr': f'{name}(my_val=1, when_at={rng.choice(["None", DT])})'})
    return ops


def fam_nested_sub(rng):
    """a subclass that also nests its base class, with a strict recursive Meta; then the base class on its own"""
    e, b = model.fresh('Ev'), model.fresh('Batch')
    src = (f'@dataclass\nclass {e}(JSONWizard):\n    id_val: int\n    note_txt: str = "n"\n\n'
           f'@dataclass\nclass {b}({e}):\n    class _(JSONWizard.Meta):\n        raise_on_unknown_json_key = True\n'
           f'        key_transform_with_dump = "SNAKE"\n    events: list[{e}] = field(default_factory=list)\n')
    ops = [{'op': 'src', 'src': src, 'defines': [e, b], 'nests': {b: [e]}, 'configured': [b]}]
    pool = [{'op': 'load', 'cls': b, 'doc': {'id_val': 1, 'events': [{'id_val': 2}, {'idVal': 3}]}, 'uses': [b, e]},
            {'op': 'load', 'cls': e, 'doc': {'id_val': 7, 'comment': 'x'}, 'uses': [e]},
            {'op': 'dump', 'cls': b, 'expr': f'{b}(id_val=1, events=[{e}(id_val=2)])', 'uses': [b, e]},
            {'op': 'dump', 'cls': e, 'expr': f'{e}(id_val=5)', 'uses': [e]},
            {'op': 'load', 'cls': b, 'doc': {'id_val': 1, 'events': [{'id_val': 2, 'zz': 1}]}, 'uses': [b, e]},
            {'op': 'load', 'cls': e, 'doc': {'idVal': 8}, 'uses': [e], 'via': 'method'},
            {'op': 'dump', 'cls': e, 'expr': f'{e}(id_val=5)', 'uses': [e], 'via': 'method'}]
    for _ in range(rng.randint(3, 8)):
        ops.append(copy.deepcopy(rng.choice(pool)))
    return ops


def fam_path(rng):
    """a class with a JSON path field and a strict Meta: dump-before-load vs load-before-dump"""
    c = model.fresh('Cfg')
    style = rng.choice(['keypath', 'path_field'])
    if style == 'keypath':
        fld = 'port_num: Annotated[int, KeyPath("server.port")]'
    else:
        fld = 'port_num: int = path_field("server.port", default=80)'
    src = (f'@dataclass\nclass {c}(JSONWizard):\n    class _(JSONWizard.Meta):\n        raise_on_unknown_json_key = True\n'
           f'    name_txt: str\n    {fld}\n')
    ops = [{'op': 'src', 'src': src, 'defines': [c]}]
    pool = [{'op': 'dump', 'cls': c, 'expr': f'{c}(name_txt="web", port_num=81)'},
            {'op': 'load', 'cls': c, 'doc': {'name_txt': 'web', 'server': {'port': 82}}},
            {'op': 'load', 'cls': c, 'doc': {'nameTxt': 'web', 'server': {'port': 83}, 'zzz': 1}},
            {'op': 'load', 'cls': c, 'doc': {'name_txt': 'web'}}]
    for _ in range(rng.randint(2, 6)):
        ops.append(copy.deepcopy(rng.choice(pool)))
    return ops


def fam_bad_condition(rng):
    """a class whose first dump fails during set-up (a Condition in Annotated not wrapped in SkipIf)"""
    c = model.fresh('Bad')
    src = (f'@dataclass\nclass {c}(JSONWizard):\n    amount_val: Annotated[int, LT(5)]\n'
           f'    my_note: str = json_field("NOTE", all=True, default="hi")\n')
    ops = [{'op': 'src', 'src': src, 'defines': [c]}]
    for _ in range(rng.randint(2, 4)):
        ops.append(rng.choice([{'op': 'dump', 'cls': c, 'expr': f'{c}(amount_val=3)'}, {'op': 'load', 'cls': c, 'doc': {'amount_val': 3, 'NOTE': 'q'}}]))
    return ops


FAMILIES = [fam_nested_sub, fam_path, fam_path, fam_bad_condition, fam_strict, fam_spellings, fam_subclass, fam_subclass, fam_subtype, fam_bind]


def gen_history(rng):
    k = rng.choice([1, 1, 2, 3])
    parts = [rng.choice(FAMILIES)(rng) for _ in range(k)]
    # interleave the families' op lists, keeping each family's internal order
    ops = []
    idx = [0] * len(parts)
    while any(i < len(p) for i, p in zip(idx, parts)):
        j = rng.choice([q for q in range(len(parts)) if idx[q] < len(parts[q])])
        ops.append(parts[j][idx[j]])
        idx[j] += 1
    return ops


def nest_info(ops):
    """root class -> nested classes, and the set of classes that carry a (recursive) Meta, from the definition ops"""
    nests, configured = {}, set()
    for op in ops:
        if op['op'] == 'src':
            for r, ns in (op.get('nests') or {}).items():
                nests.setdefault(r, set()).update(ns)
            configured |= set(op.get('configured') or [])
        elif op['op'] == 'def':
            def walk(t, root):
                k = t['k']
                if k == 'cls':
                    name = t['info']['name']
                    if root is not None:
                        nests.setdefault(root, set()).add(name)
                    m = model.own_meta(t['info'])
                    if m and m.get('recursive') is not False:
                        configured.add(name)
                    for _, ft in t['ftys']:
                        walk(ft, root or name)
                        if root is not None:
                            walk(ft, name)
                elif k in ('namedtuple', 'typeddict'):
                    for f in t['fields']:
                        walk(f[1], root)
                else:
                    for x in t.get('a', []):
                        walk(x, root)
            walk(op['ty'], None)
        elif op['op'] == 'bind':
            configured.add(op['cls'])
    return nests, configured


def _norm_dump(o):
    """a dump outcome with the two leaking aspects (key style, datetime-as-timestamp) normalised away"""
    import datetime as _dt

    def norm(v):
        if isinstance(v, dict):
            out = {}
            for k, x in v.items():
                nk = k.lower().replace('_', '').replace('-', '') if isinstance(k, str) else k
                if nk in ('whenat',) and isinstance(x, int):
                    x = _dt.datetime.fromtimestamp(x, tz=_dt.timezone.utc).isoformat().replace('+00:00', 'Z')
                out[nk] = norm(x)
            return out
        if isinstance(v, list):
            return [norm(x) for x in v]
        return v
    return norm(o)


def attribute_nested_leak(ops, i, got, alone):
    """known finding: class c was reached earlier *through a configured root that nests it* (per-class dumper/loader
    attributes and key caches were rebound under the root's Meta), and is now used on its own or under another root"""
    # the recorded leak only concerns the key style and the TIMESTAMP hooks of dumps: anything else that differs is new
    if ops[i]['op'] not in ('dump', 'dumpnew'):
        return None
    if json.dumps(_norm_dump(got), sort_keys=True) != json.dumps(_norm_dump(alone), sort_keys=True):
        return None
    nests, configured = nest_info(ops)
    used_now = set(ops[i].get('uses') or [ops[i]['cls']])
    for r, ns in nests.items():
        used_now |= (ns if r in used_now else set())
    for j in range(i):
        oj = ops[j]
        if oj['op'] not in ('load', 'dump', 'dumpnew'):
            continue
        rj = oj['cls']
        if rj in configured and (nests.get(rj, set()) & used_now) and rj != ops[i]['cls']:
            return 'shared-nested-config-leak'
        # the other direction: the nested class was first used on its own (or under another root), and is now reached
        # through a configured root
        ci = ops[i]['cls']
        used_j = set(oj.get('uses') or [rj]) | nests.get(rj, set())
        if ci in configured and rj != ci and (nests.get(ci, set()) & used_j):
            return 'shared-nested-config-leak'
    return None


def check_history(ctx, kind, case_index, ops, attribute=attribute_nested_leak):
    """C06 oracle: every op's outcome in the history equals its outcome after only the definitions it needs, in a fresh process"""
    solo = []
    positions = [i for i, op in enumerate(ops) if op['op'] in ('load', 'dump', 'dumpnew')]
    runs = [ops] + [hist.needed_defs(ops, i) + [ops[i]] for i in positions]
    res = hist.run_forked(runs)
    full = res[0]
    if full and full[0] and full[0][0] == 'harness-error':
        ctx.count('harness_error')
        ctx.notes.setdefault('harness_errors', []).append(full[0][1][-300:])
        return full
    for i, r in zip(positions, res[1:]):
        if r and r[0] and r[0][0] == 'harness-error':
            ctx.count('harness_error')
            ctx.notes.setdefault('harness_errors', []).append(r[0][1][-300:])
            continue
        alone = r[-1]
        ctx.seen(kind, {'i': i, 'op': ops[i]}, nontrivial=(i != positions[0]))
        if json.dumps(full[i], sort_keys=True) != json.dumps(alone, sort_keys=True):
            key = attribute(ops, i, full[i], alone) if attribute else None
            ctx.fail(kind, {'history': ops, 'position': i}, f'op #{i} {json.dumps(ops[i])[:200]} gave {json.dumps(full[i])[:300]} in the history, '
                     f'but {json.dumps(alone)[:300]} when run first in a fresh process', key=key)
    return full


def run(ctx: C.Ctx):
    rng = ctx.rng
    ctx.rule = ('histories of 4..40 operations over 1..3 interleaved class families (strict unknown-key class; key-spelling class; base '
                'class + subclass defined after use; novel value subtypes on dump; Meta bound before first use), each run in a forked '
                'pristine child; every load/dump position is re-run alone (needed definitions + the op) in another pristine child and the '
                'two outcomes compared. Non-trivial = distinct (history, position) after the first op.')
    n = ctx.quick(110, 1500)
    for i in range(n):
        if ctx.done(i):
            break
        ops = gen_history(rng)
        if not ctx.begin_case(i):
            continue
        check_history(ctx, 'history', i, ops)
    from harness.props import c07
    c07.caches_stream(ctx, ctx.quick(60, 800))
