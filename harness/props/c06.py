"""C06 — results do not depend on call history: caches are transparent."""
from __future__ import annotations

import copy
import json

from harness import common as C
from harness import gen, hist, model
from harness.model import T

DT = "datetime(2021, 3, 4, 5, 6, 7, tzinfo=timezone.utc)"


def fam_strict(rng):
    name = model.fresh('S')
    ty = {'k': 'cls', 'info': {'name': name, 'fields': [{'name': 'my_val'}, {'name': 'other_one', 'dflt': ['lit', 0], 'factory': False}],
                               'wizard': rng.random() < 0.5, 'meta': {'raise_on_unknown_json_key': True}},
          'ftys': [['my_val', T('int')], ['other_one', T('int')]]}
    ops = [{'op': 'def', 'ty': ty}]
    docs = [{'my_val': 1}, {'my_val': 1, 'zzz': 2}, {'myVal': 3, 'Zzz': 1}, {'my_val': 1, 'zzz': 2}, {'MY_VAL': 5, 'otherOne': 2},
            {'my_val': 'bad'}, {'zzz': 2}, {}]
    for _ in range(rng.randint(4, 9)):
        ops.append({'op': 'load', 'cls': name, 'doc': rng.choice(docs), 'via': rng.choice(['fromdict', 'method']) if ty['info']['wizard'] else 'fromdict'})
    return ops


def fam_spellings(rng):
    name = model.fresh('K')
    meta = rng.choice([None, {'key_transform_with_load': 'SNAKE'}, {'key_transform_with_dump': 'SNAKE'}, {'key_transform_with_load': 'NONE'}])
    ty = {'k': 'cls', 'info': {'name': name, 'fields': [{'name': 'my_val'}, {'name': 'other_one', 'dflt': ['lit', 'd'], 'factory': False}],
                               'wizard': rng.random() < 0.5, 'meta': meta},
          'ftys': [['my_val', T('int')], ['other_one', T('str')]]}
    ops = [{'op': 'def', 'ty': ty}]
    keys1 = ['my_val', 'myVal', 'MyVal', 'my-val', 'MY_VAL', 'My_Val', 'My-Val', 'MYVAL', 'myval', 'my__val']
    keys2 = ['other_one', 'otherOne', 'OTHER_ONE', 'Other-One', 'otherone']
    for _ in range(rng.randint(4, 10)):
        r = rng.random()
        if r < 0.7:
            doc = {rng.choice(keys1): rng.choice([1, 2, '3', 'bad', None])}
            if rng.random() < 0.5:
                doc[rng.choice(keys2)] = rng.choice(['x', 5, None])
            if rng.random() < 0.2:
                doc[rng.choice(['extra', 'Extra_Key'])] = 1
            ops.append({'op': 'load', 'cls': name, 'doc': doc})
        else:
            ops.append({'op': 'dump', 'cls': name, 'expr': f'{name}(my_val={rng.choice([1, 2])}, other_one={rng.choice(["a", "b"])!r})'})
    return ops


def fam_subclass(rng):
    p, q = model.fresh('P'), model.fresh('Q')
    wizard = rng.random() < 0.75
    meta_p = rng.choice([None, None, {'key_transform_with_dump': 'SNAKE'}])
    ty = {'k': 'cls', 'info': {'name': p, 'fields': [{'name': 'base_val'}], 'wizard': wizard, 'meta': meta_p}, 'ftys': [['base_val', T('int')]]}
    sub_src = f'@dataclass\nclass {q}({p}):\n    sub_val: int = 7\n    other_txt: str = "s"\n'
    ops = [{'op': 'def', 'ty': ty}]
    use_p = [{'op': 'load', 'cls': p, 'doc': {'base_val': 1}, 'via': 'method' if wizard and rng.random() < 0.6 else 'fromdict'},
             {'op': 'dump', 'cls': p, 'expr': f'{p}(base_val=2)', 'via': 'method' if wizard and rng.random() < 0.6 else 'asdict'}]
    rng.shuffle(use_p)
    ops += use_p[:rng.randint(0, 2)]
    ops.append({'op': 'src', 'src': sub_src, 'defines': [q], 'requires': [p]})
    tail = [{'op': 'load', 'cls': q, 'doc': {'base_val': 1, 'sub_val': 5, 'otherTxt': 'z'}, 'via': 'method' if wizard else 'fromdict', 'uses': [q, p]},
            {'op': 'dump', 'cls': q, 'expr': f'{q}(base_val=3, sub_val=4)', 'via': 'method' if wizard else 'asdict', 'uses': [q, p]},
            {'op': 'load', 'cls': q, 'doc': {'base_val': 1, 'sub_val': 5}, 'via': 'fromdict', 'uses': [q, p]},
            {'op': 'dump', 'cls': q, 'expr': f'{q}(base_val=3, sub_val=4)', 'via': 'asdict', 'uses': [q, p]},
            {'op': 'load', 'cls': p, 'doc': {'baseVal': 9}, 'via': 'fromdict'},
            {'op': 'dump', 'cls': p, 'expr': f'{p}(base_val=8)'}]
    rng.shuffle(tail)
    ops += tail[:rng.randint(2, 6)]
    return ops


def fam_subtype(rng):
    name = model.fresh('D')
    meta = rng.choice([None, {'marshal_date_time_as': 'TIMESTAMP'}])
    ty = {'k': 'cls', 'info': {'name': name, 'fields': [{'name': 'when_at'}, {'name': 'any_val', 'dflt': ['lit', None], 'factory': False}],
                               'wizard': True, 'meta': meta},
          'ftys': [['when_at', T('datetime')], ['any_val', T('any')]]}
    ops = [{'op': 'def', 'ty': ty}]
    vals = [DT, f'SubDateTime(2021, 3, 4, 5, 6, 7, tzinfo=timezone.utc)', 'datetime(2020, 1, 1)']
    anys = ['None', 'SubDecimal("1.5")', 'Decimal("2.5")', f'SubDate(2020, 1, 2)', 'date(2020, 1, 2)', 'Path("a/b")', 'SubUUID(int=5)', '{1, 2}',
            'frozenset([3])', 'deque([1])', 'timedelta(seconds=5)', 'SubTime(1, 2, 3)', '[SubDateTime(2020, 1, 1, tzinfo=timezone.utc)]']
    for _ in range(rng.randint(3, 8)):
        ops.append({'op': 'dumpnew', 'cls': name, 'expr': f'{name}(when_at={rng.choice(vals)}, any_val={rng.choice(anys)})'})
    return ops


def fam_bind(rng):
    name = model.fresh('B')
    ty = {'k': 'cls', 'info': {'name': name, 'fields': [{'name': 'my_val'}, {'name': 'when_at', 'dflt': ['lit', None], 'factory': False}],
                               'wizard': False, 'meta': None},
          'ftys': [['my_val', T('int')], ['when_at', T('optional', T('datetime'))]]}
    ops = [{'op': 'def', 'ty': ty}]
    if rng.random() < 0.7:
        ops.append({'op': 'bind', 'cls': name, 'kind': 'load', 'meta': rng.choice([{'key_transform': 'CAMEL'}, {'raise_on_unknown_json_key': True}, {'key_transform': 'NONE'}])})
    if rng.random() < 0.7:
        ops.append({'op': 'bind', 'cls': name, 'kind': 'dump', 'meta': rng.choice([{'key_transform': 'SNAKE'}, {'marshal_date_time_as': 'TIMESTAMP'}, {'skip_defaults': True}])})
    for _ in range(rng.randint(3, 7)):
        if rng.random() < 0.5:
            ops.append({'op': 'load', 'cls': name, 'doc': rng.choice([{'my_val': 1}, {'myVal': 2}, {'my_val': 1, 'zz': 1}, {'MyVal': 'x'}, {'myVal': 2, 'whenAt': '2020-01-01T00:00:00Z'}])})
        else:
            ops.append({'op': 'dump', 'cls': name, 'expr': f'{name}(my_val=1, when_at={rng.choice(["None", DT])})'})
    return ops


def fam_nested_sub(rng):
    """a subclass that also nests its base class, with a strict recursive Meta; then the base class on its own"""
    e, b = model.fresh('Ev'), model.fresh('Batch')
    src = (f'@dataclass\nclass {e}(JSONWizard):\n    id_val: int\n    note_txt: str = "n"\n\n'
           f'@dataclass\nclass {b}({e}):\n    class _(JSONWizard.Meta):\n        raise_on_unknown_json_key = True\n'
           f'        key_transform_with_dump = "SNAKE"\n    events: list[{e}] = field(default_factory=list)\n')
    ops = [{'op': 'src', 'src': src, 'defines': [e, b], 'nests': {b: [e]}, 'configured': [b]}]
    pool = [{'op': 'load', 'cls': b, 'doc': {'id_val': 1, 'events': [{'id_val': 2}, {'idVal': 3}]}, 'uses': [b, e]},
            {'op': 'load', 'cls': e, 'doc': {'id_val': 7, 'comment': 'x'}, 'uses': [e]},
            {'op': 'dump', 'cls': b, 'expr': f'{b}(id_val=1, events=[{e}(id_val=2)])', 'uses': [b, e]},
            {'op': 'dump', 'cls': e, 'expr': f'{e}(id_val=5)', 'uses': [e]},
            {'op': 'load', 'cls': b, 'doc': {'id_val': 1, 'events': [{'id_val': 2, 'zz': 1}]}, 'uses': [b, e]},
            {'op': 'load', 'cls': e, 'doc': {'idVal': 8}, 'uses': [e], 'via': 'method'},
            {'op': 'dump', 'cls': e, 'expr': f'{e}(id_val=5)', 'uses': [e], 'via': 'method'}]
    for _ in range(rng.randint(3, 8)):
        ops.append(copy.deepcopy(rng.choice(pool)))
    return ops


def fam_path(rng):
    """a class with a JSON path field and a strict Meta: dump-before-load vs load-before-dump"""
    c = model.fresh('Cfg')
    style = rng.choice(['keypath', 'path_field'])
    if style == 'keypath':
        fld = 'port_num: Annotated[int, KeyPath("server.port")]'
    else:
        fld = 'port_num: int = path_field("server.port", default=80)'
    src = (f'@dataclass\nclass {c}(JSONWizard):\n    class _(JSONWizard.Meta):\n        raise_on_unknown_json_key = True\n'
           f'    name_txt: str\n    {fld}\n')
    ops = [{'op': 'src', 'src': src, 'defines': [c]}]
    pool = [{'op': 'dump', 'cls': c, 'expr': f'{c}(name_txt="web", port_num=81)'},
            {'op': 'load', 'cls': c, 'doc': {'name_txt': 'web', 'server': {'port': 82}}},
            {'op': 'load', 'cls': c, 'doc': {'nameTxt': 'web', 'server': {'port': 83}, 'zzz': 1}},
            {'op': 'load', 'cls': c, 'doc': {'name_txt': 'web'}}]
    for _ in range(rng.randint(2, 6)):
        ops.append(copy.deepcopy(rng.choice(pool)))
    return ops


def fam_bad_condition(rng):
    """a class whose first dump fails during set-up (a Condition in Annotated not wrapped in SkipIf)"""
    c = model.fresh('Bad')
    src = (f'@dataclass\nclass {c}(JSONWizard):\n    amount_val: Annotated[int, LT(5)]\n'
           f'    my_note: str = json_field("NOTE", all=True, default="hi")\n')
    ops = [{'op': 'src', 'src': src, 'defines': [c]}]
    for _ in range(rng.randint(2, 4)):
        ops.append(rng.choice([{'op': 'dump', 'cls': c, 'expr': f'{c}(amount_val=3)'}, {'op': 'load', 'cls': c, 'doc': {'amount_val': 3, 'NOTE': 'q'}}]))
    return ops


# ---------------------------------------------------------------------------------------------------------------------------
# classes that are their own dumper / loader (DumpMixin / LoadMixin subclasses with overridden hooks)

# value kind -> annotation, constructor arguments of a value (also of a user subtype of the kind), JSON inputs,
#               (dump hook, bodies of overrides), (load hook, bodies of overrides)
HOOK_KINDS = {
    'str': dict(ann='str', args=['"abc"', '"Xy z"'], docs=['abc', 'Q', 5],
                dump=('dump_with_str', ['return o.upper()', 'return "<" + o + ">"']),
                load=('load_to_str', ['return base_type(str(o) + "!")', 'return base_type(str(o).upper())'])),
    'int': dict(ann='int', args=['7', '0'], docs=[3, '4', 2.0],
                dump=('dump_with_int', ['return int(o) + 1000', 'return -int(o)']),
                load=('load_to_int', ['return base_type(int(o) + 500)', 'return base_type(-int(o))'])),
    'float': dict(ann='float', args=['1.5', '0.25'], docs=[1.5, '2.5', 3],
                  dump=('dump_with_float', ['return float(o) * 2', 'return str(float(o))']),
                  load=('load_to_float', ['return base_type(float(o) + 0.5)', 'return base_type(float(o) * 4)'])),
    'decimal': dict(ann='Decimal', args=['"1.50"', '"2"'], docs=['1.5', 2, '3.25'],
                    dump=('dump_with_decimal', ['return "D" + str(o)', 'return float(o)']),
                    load=('load_to_decimal', ['return base_type(str(o)) + 1', 'return base_type(str(o)) * 2'])),
    'datetime': dict(ann='datetime', args=['2021, 3, 4, 5, 6, 7', '2020, 1, 1'], docs=['2021-03-04T05:06:07', '2020-01-01T00:00:00Z', 86400],
                     dump=('dump_with_datetime', ['return o.year', 'return o.strftime("%Y/%m/%d")']),
                     load=('load_to_datetime', ['return base_type(2000, 1, 1)', 'return base_type(1999, 12, 31, 23)'])),
    'date': dict(ann='date', args=['2021, 3, 4', '2020, 1, 1'], docs=['2021-03-04', '2020-01-01'],
                 dump=('dump_with_date', ['return o.toordinal()', 'return o.strftime("%d.%m.%Y")']),
                 load=('load_to_date', ['return base_type(2000, 1, 1)', 'return base_type(1999, 12, 31)'])),
    'uuid': dict(ann='UUID', args=['int=5', 'int=77'], docs=['00000000-0000-0000-0000-000000000005', '0000000000000000000000000000004d'],
                 dump=('dump_with_uuid', ['return str(o)', 'return o.int']),
                 load=('load_to_uuid', ['return base_type(int=1)', 'return base_type(int=2)'])),
}


def _hook_src(name, body, load):
    sig = '(o, base_type, *_)' if load else '(o, *_)'
    return f'    @staticmethod\n    def {name}{sig}:\n        {body}\n'


def fam_hooks(rng):
    """a base class that is its own dumper and / or loader (DumpMixin / LoadMixin) and a subclass of it, each overriding some
    type hooks; fields hold plain values and values of user subtypes (which the dumper resolves at run time and caches per
    dumper); the subclass is defined before, or only after, the base class was used"""
    b, s = model.fresh('HB'), model.fresh('HS')
    side = rng.choice(['dump', 'dump', 'load', 'both'])
    mixins = {'dump': ['DumpMixin'], 'load': ['LoadMixin'], 'both': ['LoadMixin', 'DumpMixin']}[side]
    rng.shuffle(mixins)
    kinds = rng.sample(sorted(HOOK_KINDS), rng.randint(1, 3))
    subty = {k: model.fresh('Sub' + k.capitalize()) for k in kinds}      # user subtypes of the value kinds
    # annotate a field with the user subtype itself now and then (the loader resolves the hook of a subtype annotation)
    ann_sub = {k: ('load' in side or side == 'both') and rng.random() < 0.4 for k in kinds}
    imports = 'from dataclass_wizard import DumpMixin, LoadMixin\n'
    pre = imports + ''.join(f'class {subty[k]}({HOOK_KINDS[k]["ann"]}):\n    pass\n\n' for k in kinds)

    def overrides(p):
        out = ''
        for k in kinds:
            if side in ('dump', 'both') and rng.random() < p:
                nm, bodies = HOOK_KINDS[k]['dump']
                out += _hook_src(nm, rng.choice(bodies), False)
            if side in ('load', 'both') and rng.random() < p:
                nm, bodies = HOOK_KINDS[k]['load']
                out += _hook_src(nm, rng.choice(bodies), True)
        return out
    flds = ''.join(f'    f_{k}: {subty[k] if ann_sub[k] else HOOK_KINDS[k]["ann"]}\n' for k in kinds)
    base_src = pre + f'@dataclass\nclass {b}(JSONWizard, {", ".join(mixins)}):\n{flds}{overrides(0.35)}'
    sub_src = f'@dataclass\nclass {s}({b}):\n    extra_val: int = 1\n{overrides(0.8)}'

    def value(k):
        ctor = subty[k] if (ann_sub[k] or rng.random() < 0.6) else HOOK_KINDS[k]['ann']
        return f'{ctor}({rng.choice(HOOK_KINDS[k]["args"])})'

    def use(c):
        both = [c, b] if c != b else [b]
        if side == 'dump' or (side == 'both' and rng.random() < 0.5):
            args = ', '.join(f'f_{k}={value(k)}' for k in kinds)
            return {'op': 'dumpnew', 'cls': c, 'expr': f'{c}({args})', 'via': rng.choice(['asdict', 'method', 'to_json']), 'uses': both}
        doc = {f'f_{k}': rng.choice(HOOK_KINDS[k]['docs']) for k in kinds}
        return {'op': 'load', 'cls': c, 'doc': doc, 'via': rng.choice(['fromdict', 'method', 'json']), 'uses': both}
    ops = [{'op': 'src', 'src': base_src, 'defines': [b] + list(subty.values())}]
    sub_def = {'op': 'src', 'src': sub_src, 'defines': [s], 'requires': [b]}
    late = rng.random() < 0.7
    if not late:
        ops.append(sub_def)
    for _ in range(rng.randint(1, 3) if late else rng.randint(0, 2)):
        ops.append(use(b))
    if late:
        ops.append(sub_def)
    for _ in range(rng.randint(2, 5)):
        ops.append(use(s if rng.random() < 0.7 else b))
    return ops


# ---------------------------------------------------------------------------------------------------------------------------
# LoadMeta / DumpMeta bound at any point before the first load / dump -- possibly after operations of the other kind

LOAD_ONLY_METAS = [{'raise_on_unknown_json_key': True}, {'key_transform': 'CAMEL'}, {'key_transform': 'NONE'}, {'key_transform': 'PASCAL'},
                   {'raise_on_unknown_json_key': True, 'key_transform': 'SNAKE'}]
DUMP_ONLY_METAS = [{'key_transform': 'SNAKE'}, {'key_transform': 'PASCAL'}, {'marshal_date_time_as': 'TIMESTAMP'}, {'skip_defaults': True},
                   {'key_transform': 'LISP', 'skip_defaults': True}]
BOTH_SIDES_METAS = [{'auto_assign_tags': True}, {'auto_assign_tags': True}, {'auto_assign_tags': True, 'tag_key': 'kind'}, {'tag_key': 'kind'}]


def fam_bind_late(rng):
    """a class (plain or JSONWizard, flat / nesting a dataclass / a list of them / a Union of two) whose load-only settings are bound
    with LoadMeta somewhere before its first load and whose dump-only settings are bound with DumpMeta somewhere before its first
    dump, so that a bind can follow operations of the other kind; settings that concern both directions (tags) come first"""
    o, a, b = model.fresh('BO'), model.fresh('BA'), model.fresh('BB')
    shape = rng.choice(['union', 'union', 'single', 'list', 'flat', 'optional'])
    wizard = rng.random() < 0.4
    both = copy.deepcopy(rng.choice(BOTH_SIDES_METAS)) if (shape == 'union' and rng.random() < 0.8) or rng.random() < 0.4 else None
    inner = ''
    if wizard and both and rng.random() < 0.5:
        inner = '    class _(JSONWizard.Meta):\n' + ''.join(f'        {k} = {v!r}\n' for k, v in both.items())
    item = {'union': f'    item: Union[{a}, {b}]\n', 'single': f'    item: {a}\n', 'list': f'    item: list[{a}] = field(default_factory=list)\n',
            'optional': f'    item: Optional[{b}] = None\n', 'flat': ''}[shape]
    if shape in ('list', 'optional'):
        fields = f'    my_count: int\n    when_at: Optional[datetime] = None\n{item}'
    else:
        fields = f'{item}    my_count: int = 0\n    when_at: Optional[datetime] = None\n'
    src = (f'@dataclass\nclass {a}:\n    x_val: int = 0\n    seen_at: Optional[datetime] = None\n\n'
           f'@dataclass\nclass {b}:\n    y_txt: str = "y"\n\n'
           f'@dataclass\nclass {o}{"(JSONWizard)" if wizard else ""}:\n{inner}{fields}')
    ops = [{'op': 'src', 'src': src, 'defines': [o, a, b]}]
    if both and not inner:
        ops.append({'op': 'bind', 'cls': o, 'kind': rng.choice(['load', 'dump']), 'meta': both})
    tag_key = (both or {}).get('tag_key', '__tag__')

    def item_doc():
        which = rng.choice([a, b]) if shape == 'union' else b if shape == 'optional' else a
        d = rng.choice([{'x_val': 1}, {'xVal': 2, 'seenAt': '2020-01-01T00:00:00Z'}, {'x_val': 3, 'zz_top': 1}]) if which == a else \
            rng.choice([{'y_txt': 'q'}, {'yTxt': 'r'}, {'y_txt': 's', 'zzTop': 2}])
        d = dict(d)
        if shape == 'union' and rng.random() < 0.85:
            d[tag_key] = which
        return d

    def item_expr():
        return rng.choice([f'{a}(x_val=1)', f'{a}(x_val=2, seen_at={DT})', f'{b}(y_txt="q")', f'{b}()'] if shape == 'union' else
                          [f'{b}(y_txt="q")', f'{b}()'] if shape == 'optional' else [f'{a}(x_val=1)', f'{a}()', f'{a}(x_val=2, seen_at={DT})'])
    uses = {'uses': [o, a, b]}
    seq = []
    for _ in range(rng.randint(3, 7)):
        if rng.random() < 0.5:
            doc = dict(rng.choice([{'my_count': 1}, {'myCount': 2}, {'MyCount': 3, 'whenAt': '2020-01-01T00:00:00Z'}, {'my_count': 4, 'bogus': True},
                                   {'myCount': 5, 'extraKey': 1}]))
            if shape in ('union', 'single') or (shape in ('list', 'optional') and rng.random() < 0.7):
                doc['item'] = [item_doc() for _ in range(rng.randint(1, 2))] if shape == 'list' else item_doc()
            seq.append(dict({'op': 'load', 'cls': o, 'doc': doc, 'via': rng.choice(['fromdict', 'fromlist'] + (['method', 'json'] if wizard else []))}, **uses))
        else:
            args = [f'my_count={rng.choice([0, 1])}', f'when_at={rng.choice(["None", DT])}']
            if shape in ('union', 'single') or (shape in ('list', 'optional') and rng.random() < 0.7):
                args.append(f'item=[{item_expr()}]' if shape == 'list' else f'item={item_expr()}')
            seq.append(dict({'op': 'dump', 'cls': o, 'expr': f'{o}({", ".join(args)})', 'via': rng.choice(['asdict'] + (['method', 'to_json'] if wizard else []))}, **uses))
    # a bind goes anywhere before the first operation of its own kind
    for kind, pool, p in (('load', LOAD_ONLY_METAS, 0.8), ('dump', DUMP_ONLY_METAS, 0.6)):
        if rng.random() < p:
            first = next((j for j, x in enumerate(seq) if x['op'] == kind), len(seq))
            # ... as late as possible half of the time (the other kind of operation has then run as often as it can)
            at = first if rng.random() < 0.5 else rng.randint(0, first)
            seq.insert(at, {'op': 'bind', 'cls': o, 'kind': kind, 'meta': copy.deepcopy(rng.choice(pool))})
    return ops + seq


# ---------------------------------------------------------------------------------------------------------------------------
# inheritance chains on either engine; every class of the chain is defined up front or only after its ancestors were used

V1_CASES = [None, 'AUTO', 'CAMEL', 'SNAKE', 'PASCAL']
# per level: (field, annotation, default source, JSON inputs, constructor argument sources)
LEVEL_FIELDS = [[('base_val', 'int', None, [1, '2'], ['1', '3'])],
                [('sub_val', 'int', '7', [5, 6], ['4', '7']), ('other_txt', 'str', '"s"', ['z', 'w'], ['"t"', '"s"'])],
                [('third_num', 'float', '0.5', [1.5, 2], ['2.5', '0.5'])]]


def _spell(name, style):
    parts = name.split('_')
    return {'SNAKE': name, 'CAMEL': parts[0] + ''.join(x.title() for x in parts[1:]), 'PASCAL': ''.join(x.title() for x in parts),
            'LISP': '-'.join(parts)}[style]


def fam_inherit(rng):
    """a chain P <- Q (<- R) of dataclasses on the default engine, on the v1 engine through an inner Meta, or on the v1 engine through
    LoadMeta(v1=True) bound to plain classes; each subclass is defined at a random point (up front, or after its ancestors have been
    loaded / dumped), optionally with a Meta of its own; every class of the chain is then loaded and dumped in random order through
    every entry point (fromdict / fromlist / from_dict / from_list / from_json)"""
    depth = rng.choice([2, 2, 3])
    names = [model.fresh(x) for x in ('IP', 'IQ', 'IR')[:depth]]
    engine = rng.choice(['default', 'v1', 'v1', 'v1-bind', 'v1-bind'])
    wizard = engine == 'v1' or (engine == 'default' and rng.random() < 0.6)
    case = rng.choice(V1_CASES)
    srcs = []
    for lv, nm in enumerate(names):
        base = names[lv - 1] if lv else ('JSONWizard' if wizard else '')
        meta = ''
        if wizard and (lv == 0 or rng.random() < 0.25):
            items = []
            if engine == 'v1':
                items.append('v1 = True')
                c = case if lv == 0 else rng.choice(V1_CASES)
                if c:
                    items.append(f'v1_key_case = {c!r}')
            elif rng.random() < 0.5:
                items.append(f'key_transform_with_dump = {rng.choice(["SNAKE", "PASCAL", "LISP"])!r}')
            if rng.random() < 0.2:
                items.append('raise_on_unknown_json_key = True' if engine != 'v1' else 'v1_on_unknown_key = "RAISE"')
            if items:
                meta = '    class _(JSONWizard.Meta):\n' + ''.join(f'        {x}\n' for x in items)
        flds = ''.join(f'    {f}: {ty}' + (f' = {d}' if d is not None else '') + '\n' for f, ty, d, _, _ in LEVEL_FIELDS[lv])
        srcs.append({'op': 'src', 'src': f'@dataclass\nclass {nm}{"(" + base + ")" if base else ""}:\n{meta}{flds}', 'defines': [nm],
                     'requires': names[:lv]})
    binds = {}
    if engine == 'v1-bind':
        for lv, nm in enumerate(names):
            if lv == 0 or rng.random() < 0.75:
                m = {'v1': True}
                c = case if rng.random() < 0.7 else rng.choice(V1_CASES)
                if c:
                    m['v1_key_case'] = c
                binds[nm] = {'op': 'bind', 'cls': nm, 'kind': 'load', 'meta': m}

    def use(lv):
        nm = names[lv]
        uses = {'uses': names[:lv + 1][::-1]}
        if rng.random() < 0.65:
            doc = {}
            for l2 in range(lv + 1):
                for f, _, d, vals, _ in LEVEL_FIELDS[l2]:
                    if d is None or rng.random() < 0.8:
                        doc[_spell(f, rng.choice(['SNAKE', 'SNAKE', 'CAMEL', 'PASCAL']))] = rng.choice(vals)
            if rng.random() < 0.15:
                doc['zz_key'] = 1
            via = rng.choice(['fromdict', 'fromlist'] + (['method', 'method', 'method_list', 'json', 'json_list'] if wizard else []))
            return dict({'op': 'load', 'cls': nm, 'doc': doc, 'via': via}, **uses)
        args = []
        for l2 in range(lv + 1):
            for f, _, d, _, ctor in LEVEL_FIELDS[l2]:
                if d is None or rng.random() < 0.6:
                    args.append(f'{f}={rng.choice(ctor)}')
        via = rng.choice(['asdict'] + (['method', 'to_json', 'list_to_json'] if wizard else []))
        return dict({'op': 'dump', 'cls': nm, 'expr': f'{nm}({", ".join(args)})', 'via': via}, **uses)
    ops = [srcs[0]] + ([binds[names[0]]] if names[0] in binds else [])
    defined = 1
    for _ in range(rng.randint(3, 9)):
        # define the next class of the chain now?
        while defined < depth and rng.random() < 0.45:
            ops.append(srcs[defined])
            if names[defined] in binds:
                ops.append(binds[names[defined]])
            defined += 1
        ops.append(use(rng.randrange(defined)))
    while defined < depth:
        ops.append(srcs[defined])
        if names[defined] in binds:
            ops.append(binds[names[defined]])
        ops.append(use(defined))
        defined += 1
    ops.append(use(depth - 1))
    return ops


# ---------------------------------------------------------------------------------------------------------------------------
# memo / cache keys that are too coarse: successive calls present values that collide under ==, under hash, under type(), or under
# the identity of a shared annotation object, while the annotated types (or the values) differ

# values that are == / hash-equal across Python types, with the strings that spell them
EQ_GROUPS = [[1, 1.0, True, '1', '1.0', 'true', 'True'],
             [0, 0.0, False, -0.0, '0', '0.0', '-0.0', 'false', ''],
             [2, 2.0, '2', '2.0', 2.5, '2.5']]

# scalar kind -> (annotation source with {E..} placeholders for the history's Enum classes, native constructor of a number n or None)
EQ_KINDS = {
    'timedelta': ('timedelta', 'timedelta(seconds={n})'),
    'int': ('int', None),
    'float': ('float', None),
    'bool': ('bool', None),
    'str': ('str', None),
    'decimal': ('Decimal', 'Decimal("{n}")'),
    'datetime': ('datetime', None),
    'date': ('date', None),
    'time': ('time', None),
    'enum_int': ('{EI}', '{EI}({n})'),
    'enum_float': ('{EF}', '{EF}(float({n}))'),
    'enum_str': ('{ES}', '{ES}(str({n}))'),
    'enum_bool': ('{EB}', '{EB}(bool({n}))'),
    'int_enum': ('{EN}', '{EN}({n})'),
    'any': ('Any', None),
    'lit_int': ('Literal[0, 1, 2]', None),
    'lit_bool': ('Literal[False, True]', None),
    'lit_str': ("Literal['0', '1', '2']", None),
    'u_int_float': ('Union[int, float]', None),
    'u_bool_int': ('Union[bool, int]', None),
    'u_float_bool_str': ('Union[float, bool, str]', None),
    'u_str_int': ('Union[str, int]', None),
    'u_td_int': ('Union[timedelta, int]', 'timedelta(seconds={n})'),
    'u_dec_float': ('Union[Decimal, float]', 'Decimal("{n}")'),
}
# the kinds whose documented inputs include numbers, strings of numbers and (rejected or coerced) booleans get most of the weight
EQ_KIND_WEIGHTS = {'timedelta': 8, 'int': 6, 'float': 6, 'bool': 6, 'decimal': 6, 'enum_int': 4, 'enum_float': 4, 'enum_str': 4, 'datetime': 4,
                   'int_enum': 4, 'str': 4, 'date': 2, 'time': 2, 'enum_bool': 2, 'any': 2}
EQ_WRAPS = ['', '', '', 'Optional[{t}]', 'list[{t}]', 'list[{t}]', 'dict[str, {t}]', 'tuple[{t}, ...]', 'set[{t}]']


def _engine_src(rng, name, engine, wizard, body, extra_meta=()):
    """source of a dataclass on the default engine, on the v1 engine through an inner Meta, or plain (v1 bound with LoadMeta later)"""
    items = list(extra_meta)
    if engine == 'v1' and wizard:
        items.insert(0, 'v1 = True')
    meta = ''
    if wizard and items:
        meta = '    class _(JSONWizard.Meta):\n' + ''.join(f'        {x}\n' for x in items)
    return f'@dataclass\nclass {name}{"(JSONWizard)" if wizard else ""}:\n{meta}{body}'


def _pick_engine(rng, p_default=0.5):
    engine = 'default' if rng.random() < p_default else 'v1'
    wizard = rng.random() < 0.5
    return engine, wizard


def _load_via(rng, wizard):
    return rng.choice(['fromdict', 'fromdict', 'fromlist'] + (['method', 'method', 'json', 'method_list'] if wizard else []))


def _dump_via(rng, wizard):
    return rng.choice(['asdict', 'asdict'] + (['method', 'to_json'] if wizard else []))


def fam_eq_values(rng):
    """2..3 unrelated classes (either engine) whose fields are of a few scalar kinds the history concentrates on (bare, or inside
    Optional / list / dict / tuple / set); successive documents, for the same class and for the other classes, put values that are
    == and hash alike but differ in type (1 / 1.0 / True / '1', 0 / 0.0 / -0.0 / False / '0' / '') at the positions of one
    annotated type; dumps of instances holding such values in between"""
    tag = model.fresh('')
    enums = {'EI': f'EqI{tag}', 'EF': f'EqF{tag}', 'ES': f'EqS{tag}', 'EB': f'EqB{tag}', 'EN': f'EqN{tag}'}
    enum_src = (f'class {enums["EI"]}(Enum):\n    A = 0\n    B = 1\n    C = 2\n\n'
                f'class {enums["EF"]}(Enum):\n    A = 0.0\n    B = 1.0\n    C = 2.0\n\n'
                f'class {enums["ES"]}(Enum):\n    A = "0"\n    B = "1"\n    C = "2"\n\n'
                f'class {enums["EB"]}(Enum):\n    A = False\n    B = True\n\n'
                f'class {enums["EN"]}(_en.IntEnum):\n    A = 0\n    B = 1\n    C = 2\n')
    ops = [{'op': 'src', 'src': enum_src, 'defines': sorted(enums.values())}]
    kinds_all = sorted(EQ_KINDS)
    focus = []
    n_focus = rng.randint(3, 4)
    while len(focus) < n_focus:
        k = rng.choices(kinds_all, [EQ_KIND_WEIGHTS.get(k, 1) for k in kinds_all])[0]
        if k not in focus:
            focus.append(k)
    group = rng.choice(EQ_GROUPS[:2] * 3 + EQ_GROUPS[2:])

    def draw():
        g = group if rng.random() < 0.85 else rng.choice(EQ_GROUPS)
        if rng.random() < 0.6:            # the members that are == and hash alike, rather than their spellings
            g = [v for v in g if not isinstance(v, str)]
        return rng.choice(g)
    classes = []                      # (name, wizard, [(field, kind, wrap)])
    for _ in range(rng.randint(2, 3)):
        name = model.fresh('Eq')
        engine, wizard = _pick_engine(rng)
        flds = []
        for k in focus:
            if rng.random() < 0.75 or not flds:
                flds.append((f'f{len(flds)}', k, rng.choice(EQ_WRAPS)))
        rng.shuffle(flds)
        body = ''
        for f, k, w in flds:
            ann = EQ_KINDS[k][0].format(**enums)
            body += f'    {f}: {w.format(t=ann) if w else ann} = None\n'
        ops.append({'op': 'src', 'src': _engine_src(rng, name, engine, wizard, body), 'defines': [name], 'requires': sorted(enums.values())})
        if engine == 'v1' and not wizard:
            ops.append({'op': 'bind', 'cls': name, 'kind': 'load', 'meta': {'v1': True}})
        classes.append((name, wizard, flds))

    def doc_value(w):
        if w.startswith(('list', 'tuple', 'set')):
            return [draw() for _ in range(rng.randint(1, 3))]
        if w.startswith('dict'):
            return {kk: draw() for kk in rng.sample(['k', 'j', 'h'], rng.randint(1, 2))}
        return draw()

    def py_value(k, w):
        def one():
            v = draw()
            native = EQ_KINDS[k][1]
            if native and rng.random() < 0.35 and not isinstance(v, str):
                return native.format(n=repr(v), **enums)
            return repr(v)
        if w.startswith('list'):
            return '[' + ', '.join(one() for _ in range(rng.randint(1, 3))) + ']'
        if w.startswith('tuple'):
            return '(' + ''.join(one() + ', ' for _ in range(rng.randint(1, 3))) + ')'
        if w.startswith('set'):
            return '{' + one() + '}'
        if w.startswith('dict'):
            return '{' + ', '.join(f'{kk!r}: {one()}' for kk in rng.sample(['k', 'j', 'h'], rng.randint(1, 2))) + '}'
        return one()
    for _ in range(rng.randint(6, 12)):
        name, wizard, flds = rng.choice(classes)
        uses = {'uses': [name] + sorted(enums.values())}
        if rng.random() < 0.8:
            doc = {f: doc_value(w) for f, k, w in flds if rng.random() < 0.65}
            ops.append(dict({'op': 'load', 'cls': name, 'doc': doc, 'via': _load_via(rng, wizard)}, **uses))
        else:
            args = ', '.join(f'{f}={py_value(k, w)}' for f, k, w in flds if rng.random() < 0.8)
            ops.append(dict({'op': 'dump', 'cls': name, 'expr': f'{name}({args})', 'via': _dump_via(rng, wizard)}, **uses))
    return ops


# Union shapes in which the member that accepts a value is not a function of the value's Python type: annotation (with {A} / {B}
# placeholders for two tagged dataclasses of the class's own), then per Python type the values that go to different members
VALUE_UNIONS = [
    ("Union[Literal['a', 'b'], str]", [['a', 'b'], ['c', 'zz', '', 'A']]),
    ("Union[str, Literal['a', 'b']]", [['a', 'b'], ['c', 'zz', '']]),
    ("Union[Literal[1, 2], int]", [[1, 2], [3, 0, -1, 10]]),
    ("Union[int, Literal[1, 2]]", [[1, 2], [3, 0]]),
    ("Union[Literal[1, 2], int, str]", [[1, 2], [3, 0], ['x', '1']]),
    ("Union[Literal['a'], Literal['b'], str, int]", [['a'], ['b'], ['c', 'ab'], [1, 7]]),
    ("Union[Literal['a', 1], str, int]", [['a', 1], ['c', 2], ['', 0]]),
    ("Union[Literal[1, 2], float]", [[1, 2], [1.0, 2.0, 3.5], [3]]),
    ("Union[Literal['a', 'b'], int]", [['a', 'b'], ['c', '5'], [5, 1]]),
    ("Union[Literal[True], bool, int]", [[True], [False], [1, 0]]),
    ("Union[Literal['a', 'b'], None, str]", [['a', 'b'], ['c', 'zz'], [None]]),
    ("Union[Literal['on', 'off'], bool, str]", [['on', 'off'], ['yes', 'true'], [True, False]]),
    ("Union[{A}, {B}, Literal['a'], str]", [['a'], ['c'], [{'__tag__': 'A', 'x_val': 1}], [{'__tag__': 'B', 'y_txt': 'q'}],
                                            [{'__tag__': 'A', 'x_val': 2, 'y_txt': 'r'}], [{'x_val': 1}]]),
    ("Union[{A}, {B}]", [[{'__tag__': 'A', 'x_val': 1}], [{'__tag__': 'B', 'y_txt': 'q'}], [{'__tag__': 'B'}], [{'__tag__': 'A'}], [{'__tag__': 'C'}]]),
    ("Union[Literal[1, 2], {A}, int]", [[1, 2], [3], [{'__tag__': 'A', 'x_val': 1}], [{'x_val': 5}]]),
]
UNION_WRAPS = ['', '', '', 'Optional[{t}]', 'list[{t}]', 'dict[str, {t}]']


def fam_value_union(rng):
    """1..2 classes (either engine) with Union fields in which a Literal[...] member stands next to a plain member of the same
    Python type (also: two tagged dataclasses, told apart by a value of the dict); the documents of the history bring, in random
    order, values of one Python type that belong to different members (literal first, then non-literal, and vice versa)"""
    ops, classes = [], []
    for _ in range(rng.randint(1, 2)):
        name, a, b = model.fresh('Un'), model.fresh('UA'), model.fresh('UB')
        engine, wizard = _pick_engine(rng, 0.6)
        flds, with_members = [], False
        for j in range(rng.randint(1, 2)):
            ann, pools = rng.choice(VALUE_UNIONS)
            with_members = with_members or '{A}' in ann or '{B}' in ann
            flds.append((f'u{j}', ann.format(A=a, B=b), pools, rng.choice(UNION_WRAPS)))
        body = ''.join(f'    {f}: {w.format(t=ann) if w else ann} = None\n' for f, ann, _, w in flds) + '    note_txt: str = "n"\n'
        v1 = '        v1 = True\n' if engine == 'v1' else ''
        members = ''
        if with_members:
            members = (f'@dataclass\nclass {a}(JSONWizard):\n    class _(JSONWizard.Meta):\n{v1}        tag = "A"\n    x_val: int = 0\n\n'
                       f'@dataclass\nclass {b}(JSONWizard):\n    class _(JSONWizard.Meta):\n{v1}        tag = "B"\n    y_txt: str = "y"\n\n')
        ops.append({'op': 'src', 'src': members + _engine_src(rng, name, engine, wizard, body), 'defines': [name] + ([a, b] if members else [])})
        if engine == 'v1' and not wizard:
            ops.append({'op': 'bind', 'cls': name, 'kind': 'load', 'meta': {'v1': True}})
        classes.append((name, a, b, wizard, flds))

    def pick(pools, w, state):
        def one():
            # stay within one Python type most of the time, moving between the members that claim it
            pool = rng.choice(pools)
            if state.get('t') is not None and rng.random() < 0.6:
                same = [p for p in pools if any(type(x) is state['t'] for x in p)]
                pool = rng.choice(same) if same else pool
            v = copy.deepcopy(rng.choice(pool))
            state['t'] = type(v)
            return v
        if w.startswith('list'):
            return [one() for _ in range(rng.randint(1, 3))]
        if w.startswith('dict'):
            return {kk: one() for kk in rng.sample(['k', 'j', 'h'], rng.randint(1, 2))}
        return one()

    def py_src(v, a, b):
        if isinstance(v, dict) and ('x_val' in v or 'y_txt' in v or '__tag__' in v):
            c = a if v.get('__tag__', 'A') == 'A' else b
            return f'{c}(' + ', '.join(f'{k}={x!r}' for k, x in v.items() if k != '__tag__' and (k == 'x_val') == (c == a)) + ')'
        if isinstance(v, list):
            return '[' + ', '.join(py_src(x, a, b) for x in v) + ']'
        if isinstance(v, dict):
            return '{' + ', '.join(f'{k!r}: {py_src(x, a, b)}' for k, x in v.items()) + '}'
        return repr(v)
    states = {}
    for _ in range(rng.randint(4, 10)):
        name, a, b, wizard, flds = rng.choice(classes)
        uses = {'uses': [name]}
        vals = {f: pick(pools, w, states.setdefault((name, f), {})) for f, _, pools, w in flds if rng.random() < 0.9}
        if rng.random() < 0.85:
            if rng.random() < 0.3:
                vals['note_txt'] = rng.choice(['m', 'a', 1])
            ops.append(dict({'op': 'load', 'cls': name, 'doc': vals, 'via': _load_via(rng, wizard)}, **uses))
        else:
            args = ', '.join(f'{f}={py_src(v, a, b)}' for f, v in vals.items())
            ops.append(dict({'op': 'dump', 'cls': name, 'expr': f'{name}({args})', 'via': _dump_via(rng, wizard)}, **uses))
    return ops


# strptime formats that every one of date / time / datetime can be read with, and inputs: matching, ISO, not matching
PATTERN_FORMATS = [('%d.%m.%Y', ['10.12.1815', '01.02.2024']), ('%Y/%m/%d %H:%M', ['2021/03/04 05:06', '1999/12/31 23:59']),
                   ('%H:%M', ['05:06', '23:59']), ('%m-%d-%y', ['03-04-21', '12-31-99']), ('%Y%m%d%H%M%S', ['20210304050607'])]
PATTERN_OTHER_INPUTS = ['2020-01-02', '2020-01-02T03:04:05', '03:04:05', 'nope', 5]
PATTERN_WRAPS = ['', '', 'Optional[{t}]', 'Optional[{t}]', 'list[{t}]', 'dict[str, {t}]']


def fam_shared_pattern(rng):
    """2..3 unrelated classes whose date / time / datetime fields (bare, or inside Optional / list / dict) are annotated with the
    same module-level Pattern object(s) -- directly, or through a shared `Annotated[<type>, P]` alias object -- with different
    date/time types in different classes (default engine: dataclass_wizard.Pattern; v1 engine: v1.Pattern); the patterned fields
    have defaults, the first document of a class leaves them out more often than later ones, loads of the classes alternate"""
    tag = model.fresh('')
    n_pat = rng.randint(1, 2)
    fmts = rng.sample(PATTERN_FORMATS, n_pat)
    consts = [(f'PAT{tag}_{j}', f'VPAT{tag}_{j}') for j in range(n_pat)]
    types = ['date', 'time', 'datetime']
    src = 'from dataclass_wizard import Pattern as _Pattern0\nfrom dataclass_wizard.v1 import Pattern as _PatternV1\n'
    defines = []
    alias = {}                         # (const, type) -> name of a shared Annotated alias object
    for (p0, p1), (fmt, _) in zip(consts, fmts):
        src += f'{p0} = _Pattern0({fmt!r})\n{p1} = _PatternV1({fmt!r})\n'
        defines += [p0, p1]
        for p in (p0, p1):
            for t in types:
                if rng.random() < 0.3:
                    alias[p, t] = f'AL_{p}_{t}'
                    src += f'{alias[p, t]} = Annotated[{t}, {p}]\n'
                    defines.append(alias[p, t])
    ops = [{'op': 'src', 'src': src, 'defines': defines}]
    classes = []
    n_cls = rng.randint(2, 3)
    first_types = rng.sample(types, 3)          # the classes use the first pattern with pairwise different types
    engines = [_pick_engine(rng, 0.7) for _ in range(n_cls)]
    if rng.random() < 0.7:                       # mostly one engine per history, so that the classes do share the object
        engines = [(engines[0][0], w) for _, w in engines]
    for ci in range(n_cls):
        name = model.fresh('Pt')
        engine, wizard = engines[ci]
        flds = []
        for j in range(n_pat):
            if j == 0 or rng.random() < 0.7:
                t = first_types[ci] if j == 0 else rng.choice(types)
                for _ in range(1 if rng.random() < 0.8 else 2):
                    flds.append((f'p{len(flds)}', j, t if not flds or rng.random() < 0.6 else rng.choice(types), rng.choice(PATTERN_WRAPS)))
        body = '    name_txt: str = "n"\n'
        for f, j, t, w in flds:
            p = consts[j][1 if engine == 'v1' else 0]
            if not w and (p, t) in alias:
                ann = alias[p, t]
            elif w and (p, t) in alias and rng.random() < 0.3:
                ann = w.format(t=alias[p, t])              # the alias object inside a container
            else:
                ann = f'Annotated[{w.format(t=t) if w else t}, {p}]'
            body += f'    {f}: {ann} = None\n'
        ops.append({'op': 'src', 'src': _engine_src(rng, name, engine, wizard, body), 'defines': [name], 'requires': defines})
        if engine == 'v1' and not wizard:
            ops.append({'op': 'bind', 'cls': name, 'kind': 'load', 'meta': {'v1': True}})
        classes.append((name, wizard, flds))

    def text(j):
        return rng.choice(fmts[j][1]) if rng.random() < 0.8 else rng.choice(PATTERN_OTHER_INPUTS)

    def doc_value(j, w):
        if w.startswith('list'):
            return [text(j) for _ in range(rng.randint(1, 2))]
        if w.startswith('dict'):
            return {kk: text(j) for kk in rng.sample(['k', 'j'], rng.randint(1, 2))}
        return text(j) if not w or rng.random() < 0.85 else None
    native = {'date': 'date(2021, 3, 4)', 'time': 'time(5, 6)', 'datetime': 'datetime(2021, 3, 4, 5, 6)'}
    loaded = set()
    for _ in range(rng.randint(4, 10)):
        name, wizard, flds = rng.choice(classes)
        uses = {'uses': [name] + defines}
        if rng.random() < 0.9:
            p_in = 0.75 if name in loaded else 0.3
            loaded.add(name)
            doc = {'name_txt': rng.choice(['a', 'b'])} if rng.random() < 0.5 else {}
            doc.update({f: doc_value(j, w) for f, j, t, w in flds if rng.random() < p_in})
            ops.append(dict({'op': 'load', 'cls': name, 'doc': doc, 'via': _load_via(rng, wizard)}, **uses))
        else:
            args = ', '.join(f'{f}={native[t]}' for f, j, t, w in flds if not w and rng.random() < 0.8)
            ops.append(dict({'op': 'dump', 'cls': name, 'expr': f'{name}({args})', 'via': _dump_via(rng, wizard)}, **uses))
    return ops


MEMO_FAMILIES = [fam_eq_values, fam_eq_values, fam_value_union, fam_shared_pattern]


FAMILIES = [fam_nested_sub, fam_path, fam_path, fam_bad_condition, fam_strict, fam_spellings, fam_subclass, fam_subclass, fam_subtype, fam_bind,
            fam_hooks, fam_hooks, fam_bind_late, fam_bind_late, fam_bind_late, fam_inherit, fam_inherit,
            fam_eq_values, fam_value_union, fam_shared_pattern]


def gen_history(rng, families=None):
    k = rng.choice([1, 1, 2, 3])
    parts = [rng.choice(families or FAMILIES)(rng) for _ in range(k)]
    # interleave the families' op lists, keeping each family's internal order
    ops = []
    idx = [0] * len(parts)
    while any(i < len(p) for i, p in zip(idx, parts)):
        j = rng.choice([q for q in range(len(parts)) if idx[q] < len(parts[q])])
        ops.append(parts[j][idx[j]])
        idx[j] += 1
    return ops


def nest_info(ops):
    """root class -> nested classes, and the set of classes that carry a (recursive) Meta, from the definition ops"""
    nests, configured = {}, set()
    for op in ops:
        if op['op'] == 'src':
            for r, ns in (op.get('nests') or {}).items():
                nests.setdefault(r, set()).update(ns)
            configured |= set(op.get('configured') or [])
        elif op['op'] == 'def':
            def walk(t, root):
                k = t['k']
                if k == 'cls':
                    name = t['info']['name']
                    if root is not None:
                        nests.setdefault(root, set()).add(name)
                    m = model.own_meta(t['info'])
                    if m and m.get('recursive') is not False:
                        configured.add(name)
                    for _, ft in t['ftys']:
                        walk(ft, root or name)
                        if root is not None:
                            walk(ft, name)
                elif k in ('namedtuple', 'typeddict'):
                    for f in t['fields']:
                        walk(f[1], root)
                else:
                    for x in t.get('a', []):
                        walk(x, root)
            walk(op['ty'], None)
        elif op['op'] == 'bind':
            configured.add(op['cls'])
    return nests, configured


def _norm_dump(o):
    """a dump outcome with the two leaking aspects (key style, datetime-as-timestamp) normalised away"""
    import datetime as _dt

    def norm(v):
        if isinstance(v, dict):
            out = {}
            for k, x in v.items():
                nk = k.lower().replace('_', '').replace('-', '') if isinstance(k, str) else k
                if nk in ('whenat',) and isinstance(x, int):
                    x = _dt.datetime.fromtimestamp(x, tz=_dt.timezone.utc).isoformat().replace('+00:00', 'Z')
                out[nk] = norm(x)
            return out
        if isinstance(v, list):
            return [norm(x) for x in v]
        return v
    return norm(o)


def class_metas(ops):
    """class name -> the settings it was given (inner Meta, mixin-implied, LoadMeta / DumpMeta binds), from the definition ops"""
    metas = {}
    for op in ops:
        if op['op'] == 'src':
            for nm, m in (op.get('metas') or {}).items():
                metas.setdefault(nm, {}).update(m or {})
        elif op['op'] == 'def':
            def walk(t):
                if t['k'] == 'cls':
                    metas.setdefault(t['info']['name'], {}).update(model.own_meta(t['info']) or {})
                    for _, ft in t['ftys']:
                        walk(ft)
                elif t['k'] in ('namedtuple', 'typeddict'):
                    for f in t['fields']:
                        walk(f[1])
                else:
                    for x in t.get('a', []):
                        walk(x)
            walk(op['ty'])
        elif op['op'] == 'bind':
            for k, v in op['meta'].items():
                metas.setdefault(op['cls'], {})[{'key_transform': 'key_transform_with_' + op['kind']}.get(k, k)] = v
    return metas


def leak_roots(ops, i):
    """the configured roots through which the recorded leak can reach op i: a root that nests a class used now and was used earlier,
    or the root used now when a class it nests was used earlier on its own / under another root"""
    nests, configured = nest_info(ops)
    used_now = set(ops[i].get('uses') or [ops[i]['cls']])
    for r, ns in nests.items():
        used_now |= (ns if r in used_now else set())
    roots = []
    for j in range(i):
        oj = ops[j]
        if oj['op'] not in ('load', 'dump', 'dumpnew'):
            continue
        rj = oj['cls']
        if rj in configured and (nests.get(rj, set()) & used_now) and rj != ops[i]['cls']:
            roots.append(rj)
        # the other direction: the nested class was first used on its own (or under another root), and is now reached
        # through a configured root
        ci = ops[i]['cls']
        used_j = set(oj.get('uses') or [rj]) | nests.get(rj, set())
        if ci in configured and rj != ci and (nests.get(ci, set()) & used_j):
            roots.append(ci)
    return roots


def _nkey(k):
    return k.lower().replace('_', '').replace('-', '') if isinstance(k, str) else k


def _doc_keys(doc, acc=None, exact=False):
    acc = set() if acc is None else acc
    if isinstance(doc, dict):
        for k, v in doc.items():
            acc.add(k if exact else _nkey(k))
            _doc_keys(v, acc, exact)
    elif isinstance(doc, list):
        for v in doc:
            _doc_keys(v, acc, exact)
    return acc


def _only_key_matching_differs(op, got, alone, field_names, field_defaults, strict_own):
    """load outcomes that differ only in *which spellings of field names* were matched to their fields: a field whose key is in
    the document was matched on one side and not on the other (declared default / MissingFields / the key reported unknown by
    the class's own strict setting); any other difference (another value, another class, another error) is not of this shape"""
    keys = _doc_keys(op.get('doc'))

    def kind(o):
        return 'ok' if o[0] == 'ok' else o[1]
    kg, ka = kind(got), kind(alone)
    if not {kg, ka} <= {'ok', 'MissingFields', 'UnknownKeysError'}:
        return False

    def spelled(fields):
        return all(_nkey(f) in keys for f in fields)
    if kg == 'MissingFields' and not spelled(set(got[2]) - set(alone[2] if ka == 'MissingFields' else [])):
        return False
    if ka == 'MissingFields' and not spelled(set(alone[2]) - set(got[2] if kg == 'MissingFields' else [])):
        return False
    fields_n = {_nkey(f) for f in field_names} | {_nkey(f) for f in field_defaults}
    for a, b in ((got, alone), (alone, got)):
        if kind(a) == 'UnknownKeysError':
            other = set(b[2]) if kind(b) == 'UnknownKeysError' else set()
            if not strict_own or not all(_nkey(k) in fields_n for k in set(a[2]) - other):
                return False
    if ka == 'UnknownKeysError' and kg == 'ok':
        return False            # a key no transform can match stays unknown
    if kg == ka == 'ok':
        def same(x, y):
            if x == y:
                return True
            if isinstance(x, list) and isinstance(y, list) and x and y and x[0] == y[0] == 'inst':
                if x[1] != y[1] or [f for f, _ in x[2]] != [f for f, _ in y[2]]:
                    return False
                for (f, vx), (_, vy) in zip(x[2], y[2]):
                    if vx != vy and not same(vx, vy):
                        if f in field_defaults and field_defaults[f] in (vx, vy) and _nkey(f) in keys:
                            continue
                        return False
                return True
            if isinstance(x, list) and isinstance(y, list) and len(x) == len(y):
                return all(same(p, q) for p, q in zip(x, y))
            return False
        return same(got[1], alone[1])
    return True


def attribute_nested_leak(ops, i, got, alone, field_names=(), field_defaults=None):
    """known finding: class c was reached earlier *through a configured root that nests it* (per-class dumper/loader
    attributes and key caches were rebound under the root's Meta), and is now used on its own or under another root"""
    if ops[i]['op'] in ('dump', 'dumpnew'):
        # dump side: the recorded leak only concerns the key style and the TIMESTAMP hooks: anything else that differs is new
        if json.dumps(_norm_dump(got), sort_keys=True) != json.dumps(_norm_dump(alone), sort_keys=True):
            return None
        return 'shared-nested-config-leak' if leak_roots(ops, i) else None
    if ops[i]['op'] == 'load':
        # load side: the rebound loader attribute is the load key transform (v1: key case), so (cause) one of the roots must set one, and (symptom)
        # only the matching of spellings of field names may differ
        metas = class_metas(ops)
        # (a key cached as ignorable under a lenient use and then accepted under the strict root was repaired by ade1ea0 in /repo and is
        # deliberately not attributed: KNOWN_FINDINGS ignored-key-cache-defeats-cascaded-raise, fixed)
        roots = [r for r in leak_roots(ops, i) if (metas.get(r) or {}).get('key_transform_with_load') or (metas.get(r) or {}).get('v1_key_case')]
        if not roots:
            return None
        used = set(ops[i].get('uses') or [ops[i]['cls']])
        strict_own = any((metas.get(c) or {}).get('raise_on_unknown_json_key') for c in used)
        if _only_key_matching_differs(ops[i], got, alone, field_names, field_defaults or {}, strict_own):
            return 'shared-nested-config-leak'
    return None


def check_history(ctx, kind, case_index, ops, attribute=attribute_nested_leak):
    """C06 oracle: every op's outcome in the history equals its outcome after only the definitions it needs, in a fresh process"""
    solo = []
    positions = [i for i, op in enumerate(ops) if op['op'] in ('load', 'dump', 'dumpnew')]
    runs = [ops] + [hist.needed_defs(ops, i) + [ops[i]] for i in positions]
    res = hist.run_forked(runs)
    full = res[0]
    if full and full[0] and full[0][0] == 'harness-error':
        ctx.count('harness_error')
        ctx.notes.setdefault('harness_errors', []).append(full[0][1][-300:])
        return full
    for i, r in zip(positions, res[1:]):
        if r and r[0] and r[0][0] == 'harness-error':
            ctx.count('harness_error')
            ctx.notes.setdefault('harness_errors', []).append(r[0][1][-300:])
            continue
        alone = r[-1]
        ctx.seen(kind, {'i': i, 'op': ops[i]}, nontrivial=(i != positions[0]))
        if json.dumps(full[i], sort_keys=True) != json.dumps(alone, sort_keys=True):
            key = attribute(ops, i, full[i], alone) if attribute else None
            ctx.fail(kind, {'history': ops, 'position': i}, f'op #{i} {json.dumps(ops[i])[:200]} gave {json.dumps(full[i])[:300]} in the history, '
                     f'but {json.dumps(alone)[:300]} when run first in a fresh process', key=key)
    return full


def run(ctx: C.Ctx):
    rng = ctx.rng
    ctx.rule = ('histories of 4..40 operations over 1..3 interleaved class families (strict unknown-key class; key-spelling class; base '
                'class + subclass defined after use; novel value subtypes on dump; Meta bound before first use; classes that are their own '
                'dumper / loader with overridden hooks and a subclass defined before / after use; LoadMeta / DumpMeta bound after '
                'operations of the other kind, tags and Unions; inheritance chains on the default and the v1 engine through every entry '
                'point; unrelated classes fed ==/hash-equal values of different types (1 / 1.0 / True / "1", 0 / -0.0 / False) at one annotated '
                'type, scalar kinds incl. timedelta / Decimal / Enum-by-value, bare and in containers; Unions mixing Literal members with plain '
                'members of the same Python type and tagged dataclasses, values of one type alternating between members; one Pattern object / '
                'Annotated alias shared by date / time / datetime fields of unrelated classes, fields absent from early documents; '
                'classes whose functions are built more than once, either engine: rich classes (CatchAll required / defaulted, aliased keys, '
                'nested paths, default factories, nested classes direct / list / dict / Optional) whose first 1..2 uses fail during the set-up because a '
                'nested class (one or two levels down) is not a dataclass yet or is a forward reference to a class defined later in the module, '
                'used again after the cause is removed; one rich class nested under two main classes and used on its own), each run in a forked pristine child; every load/dump position is re-run alone (needed definitions + the op) in another pristine child and the '
                'two outcomes compared. Non-trivial = distinct (history, position) after the first op.')
    n = ctx.quick(195, 2500)
    for i in range(n):
        if ctx.done(i):
            break
        ops = gen_history(rng)
        if not ctx.begin_case(i):
            continue
        check_history(ctx, 'history', i, ops)
    # histories made of the colliding-key families only (1..3 of them interleaved; now and then one of the other families as well)
    for j in range(ctx.quick(90, 1200)):
        i = 50000 + j
        if ctx.done(i):
            break
        ops = gen_history(rng, MEMO_FAMILIES if rng.random() < 0.8 else MEMO_FAMILIES * 3 + FAMILIES)
        if not ctx.begin_case(i):
            continue
        check_history(ctx, 'history', i, ops)
    # histories in which the functions of a class are built more than once: a first use that fails during the set-up and is repeated
    # after the cause is removed; one rich class reached through two main classes (now and then interleaved with another family)
    from harness.props import c06_setup
    for j in range(ctx.quick(70, 1000)):
        i = 60000 + j
        if ctx.done(i):
            break
        ops = gen_history(rng, c06_setup.SETUP_FAMILIES if rng.random() < 0.85 else c06_setup.SETUP_FAMILIES * 2 + FAMILIES)
        if not ctx.begin_case(i):
            continue
        check_history(ctx, 'history', i, ops)
    from harness.props import c07
    c07.caches_stream(ctx, ctx.quick(60, 800))
