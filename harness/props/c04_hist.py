"""C04, histories: several documents through the *same* class (and several containers of the same position inside
one document), with element counts that change from load to load.

The property's "element-wise conversion inside containers … at every nesting depth" is stated per load; the library keeps
per-class parser objects / generated loaders between calls, so the *sequence* of container sizes a class has seen is part
of the input.  A case is

    (leaf type T, random container shape over {tuple[·, ...], list, deque, dict value, Optional, nested dataclass,
     fixed pair}, depth 1–3, an order plan in {growing, shrinking, random}, 2–5 documents)

loaded one after the other through one class on each engine (default: fromdict, v1: Meta.v1, EnvWizard: the variable
re-set and the class instantiated again with _reload=True; JSON form and, for one-level containers, the comma / k=v
shorthand).  Oracle: every container of every load has exactly the elements of its input, each converted as documented
for T (c04.ref_coerce / c04_engines.env_ref); a documented rejection anywhere in a document rejects that document.
Every load is also compared with the Lean model (which has no state between loads: history independence is part of
what is compared).
"""
from __future__ import annotations

import collections
import copy
import json
import os

from harness import model
from harness.model import T

HIST_BASE = 500000
HIST_V1_BASE = 510000
HIST_ENV_BASE = 520000

NONE = ('none',)
VAR = ('vtuple', 'list', 'deque', 'dictval')
KINDS = ('vtuple', 'vtuple', 'vtuple', 'list', 'deque', 'dictval', 'opt', 'nested', 'pair')


# --------------------------------------------------------------------------- shapes

def rand_shape(rng):
    """a container shape as a list of kinds, outermost first; at least one variable-length container, every second
    one a variadic tuple"""
    while True:
        depth = rng.choice([1, 1, 2, 2, 2, 3])
        sh = [rng.choice(KINDS) for _ in range(depth)]
        if any(a == 'opt' and b == 'opt' for a, b in zip(sh, sh[1:])):
            continue
        if not any(k in VAR for k in sh):
            continue
        return sh


def shape_ty(sh, leaf):
    t = leaf
    for k in reversed(sh):
        if k == 'vtuple':
            t = T('vtuple', t)
        elif k == 'list':
            t = T('list', t)
        elif k == 'deque':
            t = T('deque', t)
        elif k == 'dictval':
            t = T('dict', T('str'), t)
        elif k == 'opt':
            t = T('optional', t)
        elif k == 'pair':
            t = T('tuple', T('str'), t)
        elif k == 'nested':
            t = {'k': 'cls', 'info': {'name': model.fresh('N'), 'fields': [{'name': 'inner_val'}], 'wizard': False, 'meta': None},
                 'ftys': [['inner_val', t]]}
        else:
            raise ValueError(k)
    return t


class Lengths:
    """element counts of the successive containers of one history"""

    def __init__(self, rng, plan):
        self.rng, self.plan = rng, plan
        self.cur = rng.randint(0, 2) if plan == 'grow' else rng.randint(6, 9)

    def next(self, cap):
        r = self.rng
        if self.plan == 'grow':
            n = self.cur
            self.cur = min(9, self.cur + r.randint(0, 3))
        elif self.plan == 'shrink':
            n = self.cur
            self.cur = max(0, self.cur - r.randint(0, 3))
        else:
            n = r.randint(0, 7)
        return min(n, cap)


def build_doc(sh, rng, lengths, pick, none_ok=True):
    """(document, expectation tree) for shape `sh`; `pick()` returns (input value, expected leaf)"""
    if not sh:
        return pick()
    k, rest = sh[0], sh[1:]
    inner_var = any(x in VAR for x in rest)
    if k in ('vtuple', 'list', 'deque'):
        n = lengths.next(3 if inner_var else 9)
        items = [build_doc(rest, rng, lengths, pick) for _ in range(n)]
        return [d for d, _ in items], [k, [e for _, e in items]]
    if k == 'dictval':
        n = lengths.next(3 if inner_var else 9)
        items = [build_doc(rest, rng, lengths, pick) for _ in range(n)]
        return {f'k{j}': d for j, (d, _) in enumerate(items)}, [k, [e for _, e in items]]
    if k == 'opt':
        if none_ok and rng.random() < 0.2:
            return None, ['opt', NONE]
        d, e = build_doc(rest, rng, lengths, pick)
        if d is None:
            return None, ['opt', NONE]      # Optional[T] with a None input: None stays None at this position
        return d, ['opt', e]
    if k == 'pair':
        d, e = build_doc(rest, rng, lengths, pick)
        return ['s', d], ['pair', e]
    if k == 'nested':
        d, e = build_doc(rest, rng, lengths, pick)
        return {'inner_val': d}, ['nested', e]
    raise ValueError(k)


def has_reject(e):
    if not isinstance(e, list):
        return e == ('reject',)
    if e[0] in ('vtuple', 'list', 'deque', 'dictval'):
        return any(has_reject(x) for x in e[1])
    return has_reject(e[1])


PY_TYPE = {'vtuple': tuple, 'list': list, 'deque': collections.deque, 'dictval': dict}


def mismatch(e, got, same_leaf, path='fld'):
    """None when the loaded value `got` is what the expectation tree `e` says, else a description"""
    if not isinstance(e, list):
        return None if same_leaf(got, e) else f'{path}: loaded {got!r} ({type(got).__name__}), documented result {e!r}'
    k = e[0]
    if k in PY_TYPE:
        if type(got) is not PY_TYPE[k]:
            return f'{path}: loaded a {type(got).__name__} ({got!r}) where a {PY_TYPE[k].__name__} is annotated'
        if len(got) != len(e[1]):
            return f'{path}: {len(got)} element(s) loaded where {len(e[1])} were given: {got!r}'
        if k == 'dictval':
            if list(got) != [f'k{j}' for j in range(len(e[1]))]:
                return f'{path}: keys {list(got)!r}'
            pairs = [(f'{path}[k{j}]', got[f'k{j}'], x) for j, x in enumerate(e[1])]
        else:
            pairs = [(f'{path}[{j}]', g, x) for j, (g, x) in enumerate(zip(got, e[1]))]
        for p, g, x in pairs:
            m = mismatch(x, g, same_leaf, p)
            if m:
                return m
        return None
    if k == 'opt':
        if e[1] == NONE:
            return None if got is None else f'{path}: loaded {got!r} for None under Optional'
        return mismatch(e[1], got, same_leaf, path)
    if k == 'pair':
        if type(got) is not tuple or len(got) != 2 or got[0] != 's':
            return f'{path}: loaded {got!r} for a pair'
        return mismatch(e[1], got[1], same_leaf, path + '[1]')
    if k == 'nested':
        if not hasattr(got, 'inner_val'):
            return f'{path}: loaded {got!r} for a nested dataclass'
        return mismatch(e[1], got.inner_val, same_leaf, path + '.inner_val')
    raise ValueError(k)


# --------------------------------------------------------------------------- leaf pools

def leaf_pool(c04, tk, engine):
    """[(input, documented result)] over the documented domain of T (rejections included, marked ('reject',))"""
    out = []
    for v in c04.INPUTS[tk]:
        if c04._nonjson(v) or v is None:
            continue
        try:
            e = c04.ref_coerce(tk, v, engine)
        except KeyError:
            continue
        out.append((v, e))
    return out


def env_leaf_pool(c04, eng, tk):
    out = []
    for v in eng.env_inputs(c04).get(tk, []):
        try:
            e = eng.env_ref(c04, tk, v)
        except KeyError:
            continue
        out.append((v, e))
    return out


def picker(rng, pool, p_reject):
    good = [x for x in pool if x[1] != ('reject',)]
    bad = [x for x in pool if x[1] == ('reject',)]

    def pick():
        if bad and rng.random() < p_reject:
            return rng.choice(bad)
        return rng.choice(good)
    return pick if good else None


# --------------------------------------------------------------------------- the three engines

def _history(ctx, rng, c04, eng, j, base, engine, n_docs_max=5):
    """generate one case: (case dict, field type, [(doc, expectation)], ename); all randomness before begin_case"""
    tk = rng.choice(list(c04.INPUTS))
    sh = rand_shape(rng)
    plan = rng.choice(['grow', 'grow', 'shrink', 'rand'])
    ename = model.fresh('E')
    leaf = c04.leaf_type(tk, ename)
    fty = shape_ty(sh, leaf)
    pool = env_leaf_pool(c04, eng, tk) if engine == 'env' else leaf_pool(c04, tk, engine)
    docs = []
    lengths = Lengths(rng, plan)
    n = rng.randint(2, n_docs_max)
    for _ in range(n):
        pick = picker(rng, pool, 0.02 if rng.random() < 0.3 else 0.0)
        docs.append(build_doc(sh, rng, lengths, pick))
    case = {'engine': engine, 'type': tk, 'shape': sh, 'plan': plan, 'docs': [repr(d) for d, _ in docs]}
    return case, fty, docs, ename


def run_default(ctx, c04, eng, rng):
    from dataclass_wizard import fromdict
    from harness.props.c01 import compare_load, load_outcome
    n = ctx.quick(160, 2500)
    reqs, pend = [], []
    for j in range(n):
        i = HIST_BASE + j
        if ctx.done(i):
            break
        case, fty, docs, ename = _history(ctx, rng, c04, eng, j, HIST_BASE, 'default')
        ty = {'k': 'cls', 'info': {'name': model.fresh('C'), 'fields': [{'name': 'fld'}], 'wizard': False, 'meta': None},
              'ftys': [['fld', fty]]}
        if not ctx.begin_case(i):
            continue
        built = model.Built(ty)
        try:
            ctx.seen('history:default', case)
            for step, (doc, exp) in enumerate(docs):
                out = load_outcome(lambda: fromdict(built.root, {'fld': copy.deepcopy(doc)}))
                _judge(ctx, 'history:default', case, step, doc, exp, out, ename, built.source, eng, None)
                st = model.StdTables()
                st.add_json(doc)
                reqs.append({'op': 'load', 'ty': model.enc_ty(ty), 'doc': model.enc_j({'fld': doc}), 'std': st.build()})
                pend.append((dict(case, step=step), out, built))
        finally:
            built.close()
    if ctx.model_available:
        outs = ctx.driver.run(reqs)
        for (case, out, built), o in zip(pend, outs):
            compare_load(ctx, 'history:default', case, out, o, built)


def run_v1(ctx, c04, eng, rng):
    from dataclass_wizard import fromdict
    from harness.props.c02 import compare_load
    from harness.props.c01 import load_outcome
    n = ctx.quick(120, 2500)
    reqs, pend = [], []
    for j in range(n):
        i = HIST_V1_BASE + j
        if ctx.done(i):
            break
        case, fty, docs, ename = _history(ctx, rng, c04, eng, j, HIST_V1_BASE, 'v1')
        ty = eng.v1_class(fty)
        if not ctx.begin_case(i):
            continue
        built = model.Built(ty)
        try:
            ctx.seen('history:v1', case)
            for step, (doc, exp) in enumerate(docs):
                out = load_outcome(lambda: fromdict(built.root, {'fld': copy.deepcopy(doc)}))
                _judge(ctx, 'history:v1', case, step, doc, exp, out, ename, built.source, eng, None)
                st = model.StdTables()
                st.add_json(doc)
                reqs.append({'op': 'loadv1', 'ty': model.enc_ty(ty), 'doc': model.enc_j({'fld': doc}), 'std': st.build()})
                pend.append((dict(case, step=step), out, built))
        finally:
            built.close()
    if ctx.model_available:
        outs = ctx.driver.run(reqs)
        for (case, out, built), o in zip(pend, outs):
            compare_load(ctx, 'history:v1', case, out, o, built)


def _env_value(rng, sh, doc):
    """the environment string carrying `doc`: JSON form, or the shorthand for a one-level container of plain strings"""
    if len(sh) == 1 and sh[0] in VAR and len(doc) >= 1 and rng.random() < 0.5:
        items = list(doc.values()) if sh[0] == 'dictval' else list(doc)
        if all(isinstance(x, str) and x == x.strip() and ',' not in x and (sh[0] != 'dictval' or '=' not in x) for x in items):
            if sh[0] == 'dictval':
                s = ','.join(f'{k}={x}' for k, x in doc.items())
            else:
                s = ','.join(items)
            if s and s.lstrip()[:1] not in ('[', '{'):
                return s, 'short'
    return json.dumps(doc), 'json'


def run_env(ctx, c04, eng, rng):
    n = ctx.quick(120, 2500)
    lim = eng._Limited(ctx)
    reqs, pend = [], []
    for j in range(n):
        i = HIST_ENV_BASE + j
        if ctx.done(i):
            break
        case, fty, docs, ename = _history(ctx, rng, c04, eng, j, HIST_ENV_BASE, 'env', n_docs_max=4)
        sh = case['shape']
        top = [k for k in sh if k != 'opt'][:1]
        # a fixed-length tuple at the top of an environment value is the recorded finding env-tuple-length-of-unsplit-string
        # whatever the history; a value that is `null` as a whole is not a documented form
        values = [_env_value(rng, sh, d) if d is not None else (None, None) for d, _ in docs]
        case['values'] = [v for v, _ in values]
        if not ctx.begin_case(i):
            continue
        if top == ['pair']:
            continue
        eb = eng.EnvBuilt(fty)
        try:
            ctx.seen('history:env', case)
            for step, ((doc, exp), (value, form)) in enumerate(zip(docs, values)):
                if value is None or '\x00' in value:
                    continue
                env_before = dict(os.environ)
                out = eb.load(value)
                if dict(os.environ) != env_before:
                    ctx.fail('history:env', dict(case, step=step), 'os.environ differs after the instantiation')
                key = None
                if top == ['vtuple'] and form == 'short' and len(value) < len(doc):
                    key = eng.KEY_TUPLE_LEN
                o2 = ('ok', _Fld(out[1])) if out[0] == 'ok' else out
                _judge(lim, 'history:env', case, step, value, exp, o2, ename, eb.source, eng, key)
                reqs.append({'op': 'c04', 'fn': 'load', 'ty': model.enc_ty(fty), 'val': value, 'std': eng.env_std(value)})
                pend.append((dict(case, step=step), out, eb.built))
        finally:
            eb.close()
    if ctx.model_available:
        outs = ctx.driver.run(reqs)
        for (case, out, built), o in zip(pend, outs):
            eng.compare_env(ctx, 'history:env', case, out, o, built)


class _Fld:
    def __init__(self, v):
        self.fld = v


def _judge(ctx, kind, case, step, doc, exp, out, ename, source, eng, key):
    c = dict(case, step=step)
    src = dict(src=source)
    if has_reject(exp):
        if out[0] == 'ok':
            ctx.fail(kind, c, f'load #{step} of {doc!r}: an element is documented as rejected, but the document loaded as {out[1].fld!r}', key=key, detail=src)
        return
    if out[0] == 'err':
        ctx.fail(kind, c, f'load #{step} of {doc!r} through the same class raised {type(out[1]).__name__}: {str(out[1])[:200]}', key=key, detail=src)
        return
    m = mismatch(exp, out[1].fld, lambda g, e: eng.same_leaf(g, e, ename))
    if m:
        ctx.fail(kind, c, f'load #{step} of {doc!r} through the same class (earlier loads: {case["docs"][:step]}): {m}', key=key, detail=src)


def run(ctx, c04, eng, seeds):
    import random
    run_default(ctx, c04, eng, random.Random(seeds[0]))
    run_v1(ctx, c04, eng, random.Random(seeds[1]))
    run_env(ctx, c04, eng, random.Random(seeds[2]))
    run_fields(ctx, c04, eng, random.Random(seeds[3]))


# --------------------------------------------------------------------------- neighbouring fields (default engine)
#
# The coercion applied at a position is a function of that position's own annotation.  A class has several fields, some
# of which carry their own per-field configuration (`Annotated[<date|time|datetime or a container of them>,
# Pattern(fmt)]`, one Pattern object possibly shared by several annotations), declared before / after / between plain
# positions.  Inputs of a plain position: its documented spellings, strings in a neighbour's format, junk.
# Oracle (field independence): the multi-field load raises iff one of its fields, loaded alone through a class that has
# only this field (same annotation), raises; otherwise every field holds what it holds when loaded alone.  Plain
# positions are additionally anchored to c04.ref_coerce on the documented domain.

FIELDS_BASE = 530000
DT = ('date', 'time', 'datetime')
FMTS = ['%m/%d/%Y', '%d.%m.%Y', '%Y/%m/%d %H:%M', '%m/%d/%Y %H.%M.%S', '%H-%M', '%Hh%Mm%S', '%B %d, %Y', '%d %b %y %I.%M %p', '%j of %Y']
WRAPS = ('bare', 'bare', 'optional', 'list', 'dictval')


def _fields_case(rng, c04):
    import datetime as dt
    n = rng.randint(2, 4)
    shared = f'PAT_{model.fresh("p")}' if rng.random() < 0.5 else None
    shared_fmt = rng.choice(FMTS)
    specs = []
    for j in range(n):
        tk = rng.choice(['date', 'time', 'datetime', 'date', 'datetime', 'int', 'str', 'bool'])
        specs.append({'name': f'f{j}', 'tk': tk, 'wrap': rng.choice(WRAPS), 'fmt': None, 'const': None})
    dts = [s for s in specs if s['tk'] in DT]
    while len(dts) < 2:
        s = rng.choice([s for s in specs if s['tk'] not in DT])
        s['tk'] = rng.choice(DT)
        dts.append(s)
    rng.shuffle(dts)
    n_pat = rng.randint(1, len(dts) - 1)
    for s in dts[:n_pat]:
        if shared and rng.random() < 0.7:
            s['fmt'], s['const'] = shared_fmt, shared
        else:
            s['fmt'] = rng.choice(FMTS)
    fmts = [s['fmt'] for s in specs if s['fmt']]
    moment = dt.datetime(rng.choice([1999, 2021, 2024]), rng.randint(1, 12), rng.randint(1, 28), rng.randint(0, 23), rng.randint(0, 59), rng.randint(0, 59))
    doc = {}
    for s in specs:
        tk = s['tk']
        if s['fmt']:
            v = moment.strftime(s['fmt'])
            if rng.random() < 0.25:
                v = rng.choice(_good(c04, tk))       # ISO strings and epoch numbers stay accepted by a patterned position
        elif tk in DT:
            r = rng.random()
            if r < 0.5:
                v = moment.strftime(rng.choice(fmts))   # a neighbour's spelling
            elif r < 0.9:
                v = rng.choice(_good(c04, tk))
            else:
                v = rng.choice(['nope', '', '12/30/2021', '30.12.2021 10.00.00'])
        else:
            v = rng.choice(_good(c04, tk))
        s['v'] = v
        doc[s['name']] = c04.wrap_doc(s['wrap'], v)
    return specs, doc


_GOOD = {}


def _good(c04, tk):
    if tk not in _GOOD:
        _GOOD[tk] = [v for v, e in leaf_pool(c04, tk, 'default') if e != ('reject',)]
    return _GOOD[tk]


def _field_ty(c04, s, rng):
    t = c04.wrap_ty(s['wrap'], T(s['tk']), rng)
    if s['fmt']:
        t = T('annpat', t, fmt=s['fmt'], const=s['const'])
    return t


def _cls_of(fields):
    return {'k': 'cls', 'info': {'name': model.fresh('C'), 'fields': [{'name': n} for n, _ in fields], 'wizard': False, 'meta': None},
            'ftys': [[n, t] for n, t in fields]}


def run_fields(ctx, c04, eng, rng):
    from dataclass_wizard import fromdict
    from harness import ref
    from harness.props.c01 import load_outcome
    n = ctx.quick(150, 2500)
    for j in range(n):
        i = FIELDS_BASE + j
        if ctx.done(i):
            break
        specs, doc = _fields_case(rng, c04)
        if not ctx.begin_case(i):
            continue
        case = {'engine': 'default', 'fields': [{k: s[k] for k in ('name', 'tk', 'wrap', 'fmt', 'const')} for s in specs], 'doc': repr(doc)}
        ctx.seen('fields:default', case)
        built = model.Built(_cls_of([(s['name'], _field_ty(c04, s, rng)) for s in specs]))
        try:
            out = load_outcome(lambda: fromdict(built.root, copy.deepcopy(doc)))
            src = dict(src=built.source)
            solo = {}
            for s in specs:
                b1 = model.Built(_cls_of([(s['name'], _field_ty(c04, s, rng))]))
                try:
                    solo[s['name']] = load_outcome(lambda: fromdict(b1.root, {s['name']: copy.deepcopy(doc[s['name']])}))
                    if solo[s['name']][0] == 'ok':
                        solo[s['name']] = ('ok', getattr(solo[s['name']][1], s['name']))
                finally:
                    b1.close()
            rejected = [k for k, o in solo.items() if o[0] == 'err']
            if out[0] == 'ok':
                if rejected:
                    k = rejected[0]
                    ctx.fail('fields:default', case, f'{doc!r} loads as {out[1]!r}, but the value of field {k} ({doc[k]!r}) is rejected when a class '
                             f'with the same annotation has only this field ({type(solo[k][1]).__name__}): the neighbouring fields changed the coercion', detail=src)
                    continue
                for s in specs:
                    g, w = getattr(out[1], s['name']), solo[s['name']][1]
                    if not ref.same_typed(g, w):
                        ctx.fail('fields:default', case, f'field {s["name"]} of {doc!r} loads as {g!r}, but as {w!r} when a class with the same annotation '
                                 f'has only this field', detail=src)
                        break
                    if not s['fmt']:
                        try:
                            exp = c04.ref_coerce(s['tk'], s['v'], 'default')
                        except KeyError:
                            continue
                        if exp != ('reject',) and not all(ref.same_typed(x, exp) for x in c04.unwrap(s['wrap'], g)):
                            ctx.fail('fields:default', case, f'field {s["name"]} of {doc!r} loads as {g!r}, documented result {exp!r}', detail=src)
                            break
            elif not rejected:
                ctx.fail('fields:default', case, f'{doc!r} is rejected ({type(out[1]).__name__}: {str(out[1])[:160]}), but every field loads when a class '
                         f'with the same annotation has only this field', detail=src)
        finally:
            built.close()
